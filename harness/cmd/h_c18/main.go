// h_c18: correspondence harness for C18 (backup / restore / shard copy reproduce the shard).
// Source and destination are real tsdb.Stores in temp dirs. A source shard state is built by
// writes, deletes (pending tombstones), cache snapshots, full compactions and an unsnapshotted
// cache; its layer-A state (files with tombstones + cache) is read back from the shard
// directory; Store.BackupShard / ExportShard streams it; Store.RestoreShard / ImportShard
// installs it in a fresh shard of the other store, directly or through the coordinator
// CopyShard RPC over loopback with the backup connection cut after k bytes.
package main

import (
	"archive/tar"
	"bytes"
	"context"
	"encoding/json"
	"errors"
	"fmt"
	"io"
	"math"
	"net"
	"os"
	"path/filepath"
	"sort"
	"strings"
	"sync"
	"time"

	"github.com/influxdata/influxdb/coordinator"
	"github.com/influxdata/influxdb/models"
	intar "github.com/influxdata/influxdb/pkg/tar"
	"github.com/influxdata/influxdb/query"
	"github.com/influxdata/influxdb/services/meta"
	"github.com/influxdata/influxdb/tsdb"
	_ "github.com/influxdata/influxdb/tsdb/engine"
	"github.com/influxdata/influxdb/tsdb/engine/tsm1"
	_ "github.com/influxdata/influxdb/tsdb/index"
	"github.com/influxdata/influxql"
	"verifharness/hx"
)

// ---------------------------------------------------------------- input description

var tagVals = []string{"a", "b", "c"}
var fieldNames = []string{"f", "i", "s", "b"} // float, integer, string, boolean

type pt struct {
	S int   `json:"s"` // series (tag value index)
	F int   `json:"f"` // field index
	T int64 `json:"t"`
	V int64 `json:"v"` // value seed
}

type op struct {
	Kind   string `json:"kind"` // write | delete | snapshot | compact
	Pts    []pt   `json:"pts,omitempty"`
	Series []int  `json:"series,omitempty"` // delete: tag values
	Lo     int64  `json:"lo,omitempty"`
	Hi     int64  `json:"hi,omitempty"`
}

// one copy-shard attempt of a sequence: ops on the source first, then the RPC with a fault
type attemptDesc struct {
	Pre         []op   `json:"pre,omitempty"`
	Fault       string `json:"fault,omitempty"` // "" none | cut | lstat | open
	CutMember   int    `json:"cut_member,omitempty"`
	CutOff      int64  `json:"cut_off,omitempty"`
	FaultMember int    `json:"fault_member,omitempty"`
}

type caseDesc struct {
	Ops  []op   `json:"ops"`
	Mode string `json:"mode"` // full | import | since | cut | rpc | export | busy
	// since: the k-th smallest member mtime is the threshold (files get mtimes base+10*i s);
	// SinceOff shifts it by that many ns (0 = exactly equal: strict After)
	SinceIdx int   `json:"since_idx,omitempty"`
	SinceOff int64 `json:"since_off,omitempty"`
	// cut/rpc: cut point. CutMember<0: no cut. Otherwise the stream is cut at the start of
	// member CutMember (== number of members: at the trailer) plus CutOff bytes.
	CutMember int   `json:"cut_member"`
	CutOff    int64 `json:"cut_off,omitempty"`
	// writes applied to the source between the cache flush of the backup and ... (mode full):
	// performed by a concurrent writer while the archive is streamed
	During []pt `json:"during,omitempty"`
	// export window
	ExLo int64 `json:"ex_lo,omitempty"`
	ExHi int64 `json:"ex_hi,omitempty"`
	// srcfault: the SOURCE fails while streaming, before member FaultMember is sent.
	// FaultKind "lstat": the snapshot file is gone when the directory walk reaches it (through the
	// real Store.BackupShard; the file is removed by the stream's consumer as soon as the data of the
	// previous member has been written). "open": the file is gone between the walk's lstat and the
	// open (CreateShardSnapshot + tar.Stream with Engine.Backup's filter, wrapped).
	FaultMember int    `json:"fault_member,omitempty"`
	FaultKind   string `json:"fault_kind,omitempty"`
	ViaRPC      bool   `json:"via_rpc,omitempty"`
	// incr: after the full backup+restore, for each round: these ops on the source, then a
	// since-bounded backup restored OVER the destination
	Rounds [][]op `json:"rounds,omitempty"`
	// the source shard's snapshot compactions are switched off (Shard.SetCompactionsEnabled(false),
	// as Shard.Free does for a shard found idle) when the backup is taken
	SnapOff bool `json:"snap_off,omitempty"`
	// copyseq: copy-shard attempts to the SAME destination, one after the other
	Attempts []attemptDesc `json:"attempts,omitempty"`
	// extra archive members injected before restore (malformed stream): 0 none, 1 fields.idx file,
	// 2 directory entry "index", 3 member with a foreign shard prefix
	Extra int `json:"extra,omitempty"`
}

// ---------------------------------------------------------------- values

type tv struct {
	T int64
	V string // Coq term of type value
}

func valueOf(f int, v int64) interface{} {
	switch f {
	case 0:
		return float64(v) / 2
	case 1:
		return v
	case 2:
		return fmt.Sprintf("s%d", v)
	default:
		return v%2 == 0
	}
}

func coqValue(v interface{}) string {
	switch x := v.(type) {
	case float64:
		return fmt.Sprintf("(VFloat %d)", math.Float64bits(x))
	case int64:
		return fmt.Sprintf("(VInt %s)", hx.CoqZ(x))
	case uint64:
		return fmt.Sprintf("(VUint %d)", x)
	case string:
		return fmt.Sprintf("(VStr %s)", hx.CoqStr(x))
	case bool:
		return fmt.Sprintf("(VBool %s)", hx.CoqBool(x))
	}
	panic(fmt.Sprintf("value type %T", v))
}

func keyOf(s, f int) string { return "m,t=" + tagVals[s] + "#!~#" + fieldNames[f] }

func coqTVs(vs []tv) string {
	items := make([]string, len(vs))
	for i, x := range vs {
		items[i] = fmt.Sprintf("(%s, %s)", hx.CoqZ(x.T), x.V)
	}
	return hx.CoqList(items)
}

// kvs: key -> values, rendered with keys sorted
func coqKVs(m map[string][]tv) string {
	keys := make([]string, 0, len(m))
	for k := range m {
		keys = append(keys, k)
	}
	sort.Strings(keys)
	items := make([]string, 0, len(keys))
	for _, k := range keys {
		items = append(items, fmt.Sprintf("(%s, %s)", hx.CoqStr(k), coqTVs(m[k])))
	}
	return hx.CoqList(items)
}

// ---------------------------------------------------------------- stores

// srcFault: pending fault injection for the source's next BackupShard
type srcFault struct {
	mu     sync.Mutex
	active bool
	kind   string
	k      int
	after  int64  // lstat: trigger once this many bytes were written
	name   string // base name of the snapshot file to remove
	shDir  string
	err    error // what the source's BackupShard returned
}

// faultStore is the source's TSDBStore as seen by its coordinator service.
type faultStore struct {
	*tsdb.Store
	f *srcFault
}

func (s faultStore) BackupShard(id uint64, since time.Time, w io.Writer) error {
	s.f.mu.Lock()
	active := s.f.active
	s.f.active = false
	s.f.mu.Unlock()
	if !active {
		return s.Store.BackupShard(id, since, w)
	}
	err := faultyBackup(s.Store, id, w, s.f)
	s.f.err = err
	return err
}

type triggerWriter struct {
	w     io.Writer
	n     int64
	after int64
	fire  func()
	done  bool
}

func (t *triggerWriter) Write(p []byte) (int, error) {
	n, err := t.w.Write(p)
	t.n += int64(n)
	if !t.done && t.n >= t.after {
		t.done = true
		t.fire()
	}
	return n, err
}

// faultyBackup streams a full backup of the shard while the source loses one snapshot file.
func faultyBackup(st *tsdb.Store, id uint64, w io.Writer, f *srcFault) error {
	if f.kind == "lstat" {
		tw := &triggerWriter{w: w, after: f.after, fire: func() {
			dirs, _ := filepath.Glob(filepath.Join(f.shDir, "*.tmp"))
			for _, d := range dirs {
				os.Remove(filepath.Join(d, f.name))
			}
		}}
		return st.BackupShard(id, time.Time{}, tw)
	}
	// Engine.Backup = CreateSnapshot(true) + tar.Stream(w, path, basePath, SinceFilterTarFile(since))
	path, err := st.CreateShardSnapshot(id, true)
	if err != nil {
		return err
	}
	defer os.RemoveAll(path)
	rel, err := st.ShardRelativePath(id)
	if err != nil {
		return err
	}
	inner := intar.SinceFilterTarFile(time.Time{})
	i := 0
	return intar.Stream(w, path, rel, func(fi os.FileInfo, shardRelativePath, fullPath string, tw *tar.Writer) error {
		if i == f.k {
			os.Remove(fullPath)
		}
		i++
		return inner(fi, shardRelativePath, fullPath, tw)
	})
}

type env struct {
	dir      string
	fault    *srcFault
	src, dst *tsdb.Store
	svcSrc   *coordinator.Service
	svcDst   *coordinator.Service
	lnSrc    net.Listener
	lnDst    net.Listener
	proxy    *cutProxy
	nextID   uint64
}

func newStore(dir string) *tsdb.Store {
	st := tsdb.NewStore(filepath.Join(dir, "data"))
	st.EngineOptions.Config.WALDir = filepath.Join(dir, "wal")
	st.EngineOptions.Config.Dir = filepath.Join(dir, "data")
	if err := st.Open(); err != nil {
		panic(err)
	}
	// Background level/full compactions would change the file set between the observation of
	// a shard and its backup (a case can take more than the planner's 1 s tick on a loaded
	// machine): take every token of the compaction limiter. Cache snapshots are not limited
	// by it, and the harness's own full compactions call the Compactor directly.
	for st.EngineOptions.CompactionLimiter.TryTake() {
	}
	return st
}

type fakeMeta struct{}

func (fakeMeta) NodeID() uint64            { return 1 }
func (fakeMeta) MetaServers() []string     { return []string{"127.0.0.1:1"} }
func (fakeMeta) SetMetaServers(a []string) {}
func (fakeMeta) DataNode(id uint64) (*meta.NodeInfo, error) {
	return nil, errors.New("node not found")
}
func (fakeMeta) CreateDataNode(httpAddr, tcpAddr string) (*meta.NodeInfo, error) {
	return &meta.NodeInfo{ID: 1}, nil
}
func (fakeMeta) DataNodeByTCPAddr(tcpAddr string) (*meta.NodeInfo, error) {
	return nil, errors.New("node not found")
}
func (fakeMeta) Status() (*meta.MetaNodeStatus, error) { return nil, errors.New("no status") }
func (fakeMeta) Save() error                            { return nil }

type fakeServer struct{}

func (fakeServer) Reset() error       { return nil }
func (fakeServer) HTTPAddr() string   { return "127.0.0.1:0" }
func (fakeServer) HTTPScheme() string { return "http" }
func (fakeServer) TCPAddr() string    { return "127.0.0.1:0" }

type fakeHH struct{}

func (fakeHH) RemoveNode(ownerID uint64) error { return nil }

// muxListener strips the coordinator mux header byte the way tcp.Mux does before handing
// the connection to the service.
type muxListener struct {
	net.Listener
}

func (m muxListener) Accept() (net.Conn, error) {
	for {
		c, err := m.Listener.Accept()
		if err != nil {
			return nil, err
		}
		var b [1]byte
		c.SetReadDeadline(time.Now().Add(10 * time.Second))
		if _, err := io.ReadFull(c, b[:]); err != nil || b[0] != coordinator.MuxHeader {
			c.Close()
			continue
		}
		c.SetReadDeadline(time.Time{})
		return c, nil
	}
}

func newService(st *tsdb.Store) (*coordinator.Service, net.Listener) {
	ln, err := net.Listen("tcp", "127.0.0.1:0")
	if err != nil {
		panic(err)
	}
	s := coordinator.NewService(coordinator.NewConfig())
	s.TSDBStore = st
	s.MetaClient = fakeMeta{}
	s.Server = fakeServer{}
	s.HintedHandoff = fakeHH{}
	s.TaskManager = query.NewTaskManager()
	ml := muxListener{ln}
	go func() {
		for {
			c, err := ml.Accept()
			if err != nil {
				return
			}
			go func() {
				defer c.Close()
				defer func() { recover() }()
				s.VerifHandleConn(c)
			}()
		}
	}()
	return s, ln
}

// cutProxy forwards client->backend unchanged and backend->client for at most `limit`
// bytes (limit<0: unlimited), then closes both directions cleanly (FIN).
type cutProxy struct {
	ln      net.Listener
	backend string
	mu      sync.Mutex
	limit   int64
}

func newCutProxy(backend string) *cutProxy {
	ln, err := net.Listen("tcp", "127.0.0.1:0")
	if err != nil {
		panic(err)
	}
	p := &cutProxy{ln: ln, backend: backend, limit: -1}
	go func() {
		for {
			c, err := ln.Accept()
			if err != nil {
				return
			}
			go p.serve(c)
		}
	}()
	return p
}

func (p *cutProxy) setLimit(n int64) { p.mu.Lock(); p.limit = n; p.mu.Unlock() }

func (p *cutProxy) serve(c net.Conn) {
	defer c.Close()
	b, err := net.Dial("tcp", p.backend)
	if err != nil {
		return
	}
	defer b.Close()
	p.mu.Lock()
	limit := p.limit
	p.mu.Unlock()
	go io.Copy(b, c)
	if limit < 0 {
		io.Copy(c, b)
	} else {
		io.CopyN(c, b, limit)
	}
	if tc, ok := c.(*net.TCPConn); ok {
		tc.CloseWrite()
	}
	// drain the rest of the backend so that the source's BackupShard is not blocked
	go io.Copy(io.Discard, b)
	time.Sleep(5 * time.Millisecond)
}

func newEnv() *env {
	// a memory file system when there is one: every case creates and removes two shards
	dir, err := os.MkdirTemp("/dev/shm", "h_c18")
	if err != nil {
		if dir, err = os.MkdirTemp("", "h_c18"); err != nil {
			panic(err)
		}
	}
	e := &env{dir: dir, nextID: 1}
	e.src = newStore(filepath.Join(dir, "src"))
	e.dst = newStore(filepath.Join(dir, "dst"))
	e.fault = &srcFault{}
	e.svcSrc, e.lnSrc = newService(e.src)
	e.svcSrc.TSDBStore = faultStore{e.src, e.fault}
	e.svcDst, e.lnDst = newService(e.dst)
	e.proxy = newCutProxy(e.lnSrc.Addr().String())
	return e
}

func (e *env) close() {
	e.proxy.ln.Close()
	e.lnSrc.Close()
	e.lnDst.Close()
	e.src.Close()
	e.dst.Close()
	os.RemoveAll(e.dir)
}

// ---------------------------------------------------------------- shard operations

func engineOf(st *tsdb.Store, id uint64) *tsm1.Engine {
	sh := st.Shard(id)
	if sh == nil {
		return nil
	}
	eng, err := sh.Engine()
	if err != nil {
		return nil
	}
	e, _ := eng.(*tsm1.Engine)
	return e
}

func mkPoints(pts []pt) []models.Point {
	var out []models.Point
	for _, p := range pts {
		out = append(out, models.MustNewPoint("m", models.NewTags(map[string]string{"t": tagVals[p.S]}),
			models.Fields{fieldNames[p.F]: valueOf(p.F, p.V)}, time.Unix(0, p.T)))
	}
	return out
}

func applyOp(st *tsdb.Store, db string, id uint64, o op) error {
	switch o.Kind {
	case "write":
		return st.WriteToShard(id, mkPoints(o.Pts))
	case "delete":
		var conds []string
		for _, s := range o.Series {
			conds = append(conds, fmt.Sprintf(`"t" = '%s'`, tagVals[s]))
		}
		c := fmt.Sprintf("time >= %d AND time <= %d", o.Lo, o.Hi)
		if len(conds) > 0 {
			c = "(" + strings.Join(conds, " OR ") + ") AND " + c
		}
		expr, err := influxql.ParseExpr(c)
		if err != nil {
			return err
		}
		return st.DeleteSeries(db, []influxql.Source{&influxql.Measurement{Name: "m"}}, expr)
	case "tombstat":
		// a range delete on the data files whose tombstone stats are looked up between the
		// delete's DeleteRange and its Commit - what the compaction planner's Stats() tick or a
		// concurrent backup does while a delete is running
		e := engineOf(st, id)
		var keys [][]byte
		for _, s := range o.Series {
			for f := range fieldNames {
				keys = append(keys, []byte(keyOf(s, f)))
			}
		}
		sort.Slice(keys, func(i, j int) bool { return bytes.Compare(keys[i], keys[j]) < 0 })
		return e.FileStore.Apply(func(r tsm1.TSMFile) error {
			b := r.BatchDelete()
			if err := b.DeleteRange(keys, o.Lo, o.Hi); err != nil {
				return err
			}
			r.TombstoneStats()
			return b.Commit()
		})
	case "snapshot":
		return engineOf(st, id).WriteSnapshot()
	case "snapfail":
		// a cache snapshot whose write fails: the cache retains it, later writes go to the live cache
		e := engineOf(st, id)
		e.Compactor.DisableSnapshots()
		e.WriteSnapshot()
		e.Compactor.EnableSnapshots()
		return nil
	case "compact":
		e := engineOf(st, id)
		var paths []string
		for _, f := range e.FileStore.Files() {
			paths = append(paths, f.Path())
		}
		if len(paths) == 0 {
			return nil
		}
		e.Compactor.EnableCompactions()
		newFiles, err := e.Compactor.CompactFull(paths)
		if err != nil {
			return err
		}
		return e.FileStore.ReplaceWithCallback(paths, newFiles, nil)
	}
	return fmt.Errorf("unknown op %q", o.Kind)
}

// readShard returns key -> ascending points through Shard.CreateIterator over the full range.
// ok=false when the shard does not exist or an iterator fails.
func readShard(st *tsdb.Store, id uint64) (map[string][]tv, bool) {
	sh := st.Shard(id)
	if sh == nil {
		return nil, false
	}
	res := map[string][]tv{}
	types := []influxql.DataType{influxql.Float, influxql.Integer, influxql.String, influxql.Boolean}
	for fi, fname := range fieldNames {
		itr, err := sh.CreateIterator(context.Background(), &influxql.Measurement{Name: "m"}, query.IteratorOptions{
			Expr:       &influxql.VarRef{Val: fname, Type: types[fi]},
			Dimensions: []string{"t"},
			Ascending:  true,
			StartTime:  influxql.MinTime,
			EndTime:    influxql.MaxTime,
			Ordered:    true,
		})
		if err != nil {
			return nil, false
		}
		if itr == nil {
			continue
		}
		add := func(tags query.Tags, t int64, nilv bool, v interface{}) {
			if nilv {
				return
			}
			k := "m,t=" + tags.Value("t") + "#!~#" + fname
			res[k] = append(res[k], tv{t, coqValue(v)})
		}
		switch it := itr.(type) {
		case query.FloatIterator:
			for p, err := it.Next(); p != nil && err == nil; p, err = it.Next() {
				add(p.Tags, p.Time, p.Nil, p.Value)
			}
		case query.IntegerIterator:
			for p, err := it.Next(); p != nil && err == nil; p, err = it.Next() {
				add(p.Tags, p.Time, p.Nil, p.Value)
			}
		case query.StringIterator:
			for p, err := it.Next(); p != nil && err == nil; p, err = it.Next() {
				add(p.Tags, p.Time, p.Nil, p.Value)
			}
		case query.BooleanIterator:
			for p, err := it.Next(); p != nil && err == nil; p, err = it.Next() {
				add(p.Tags, p.Time, p.Nil, p.Value)
			}
		case query.UnsignedIterator:
			for p, err := it.Next(); p != nil && err == nil; p, err = it.Next() {
				add(p.Tags, p.Time, p.Nil, p.Value)
			}
		}
		itr.Close()
	}
	return res, true
}

func sameReads(a, b map[string][]tv) bool {
	if len(a) != len(b) {
		return false
	}
	for k, va := range a {
		vb, ok := b[k]
		if !ok || len(va) != len(vb) {
			return false
		}
		for i := range va {
			if va[i] != vb[i] {
				return false
			}
		}
	}
	return true
}

// ---------------------------------------------------------------- layer-A extraction

type fileObs struct {
	Name   string             // base name without extension ("000000001-000000001")
	Gen    int
	Seq    int
	Blocks map[string][][]tv  // key -> blocks (raw, tombstones NOT applied)
	Tombs  []tombObs          // tombstone file entries, file order
	HasTS  bool
	Dead   []string // keys of the raw file that the reader's index no longer has once the tombstone file is applied
	MTime  int64 // tsm file mtime (unix ns)
	TMTime int64 // tombstone file mtime
}

type tombObs struct {
	Key    string
	Lo, Hi int64
}

func coqValueOf(v tsm1.Value) string {
	switch x := v.Value().(type) {
	case float64, int64, uint64, string, bool:
		return coqValue(x)
	}
	panic("unknown tsm value")
}

// readTSMRaw decodes a TSM file's blocks without any tombstone applied (the file is linked
// alone into a scratch dir first).
func readTSMRaw(path, scratch string) (map[string][][]tv, error) {
	os.MkdirAll(scratch, 0755)
	tmp := filepath.Join(scratch, "raw.tsm")
	os.Remove(tmp)
	if err := os.Link(path, tmp); err != nil {
		data, err2 := os.ReadFile(path)
		if err2 != nil {
			return nil, err2
		}
		if err2 := os.WriteFile(tmp, data, 0644); err2 != nil {
			return nil, err2
		}
	}
	defer os.Remove(tmp)
	f, err := os.Open(tmp)
	if err != nil {
		return nil, err
	}
	r, err := tsm1.NewTSMReader(f)
	if err != nil {
		f.Close()
		return nil, err
	}
	defer r.Close()
	res := map[string][][]tv{}
	bi := r.BlockIterator()
	for bi.Next() {
		key, _, _, _, _, buf, err := bi.Read()
		if err != nil {
			return nil, err
		}
		vals, err := tsm1.DecodeBlock(buf, nil)
		if err != nil {
			return nil, err
		}
		blk := make([]tv, len(vals))
		for i, v := range vals {
			blk[i] = tv{v.UnixNano(), coqValueOf(v)}
		}
		res[string(key)] = append(res[string(key)], blk)
	}
	return res, bi.Err()
}

func readTombstones(path string) ([]tombObs, error) {
	var res []tombObs
	t := tsm1.NewTombstoner(path, nil)
	err := t.Walk(func(ts tsm1.Tombstone) error {
		res = append(res, tombObs{string(ts.Key), ts.Min, ts.Max})
		return nil
	})
	return res, err
}

// observeDir reads the layer-A file state of a shard directory (every *.tsm with its
// *.tombstone), sorted by file name.
func observeDir(dir, scratch string) ([]fileObs, error) {
	names, err := filepath.Glob(filepath.Join(dir, "*.tsm"))
	if err != nil {
		return nil, err
	}
	sort.Strings(names)
	var res []fileObs
	for _, p := range names {
		fo := fileObs{Name: strings.TrimSuffix(filepath.Base(p), ".tsm")}
		fo.Gen, fo.Seq, err = tsm1.DefaultParseFileName(p)
		if err != nil {
			return nil, err
		}
		if fo.Blocks, err = readTSMRaw(p, scratch); err != nil {
			return nil, err
		}
		st, err := os.Stat(p)
		if err != nil {
			return nil, err
		}
		fo.MTime = st.ModTime().UnixNano()
		tp := strings.TrimSuffix(p, ".tsm") + ".tombstone"
		if st, err := os.Stat(tp); err == nil {
			fo.HasTS = true
			fo.TMTime = st.ModTime().UnixNano()
			if fo.Tombs, err = readTombstones(tp); err != nil {
				return nil, err
			}
			// the keys a reader opened next to the tombstone file still has in its index
			if fd, err := os.Open(p); err == nil {
				if rd, err := tsm1.NewTSMReader(fd); err == nil {
					live := map[string]bool{}
					for i := 0; i < rd.KeyCount(); i++ {
						k, _ := rd.KeyAt(i)
						live[string(k)] = true
					}
					rd.Close()
					for k := range fo.Blocks {
						if !live[k] {
							fo.Dead = append(fo.Dead, k)
						}
					}
					sort.Strings(fo.Dead)
				} else {
					fd.Close()
				}
			}
		}
		res = append(res, fo)
	}
	return res, nil
}

// observeParts: the cache split into the snapshot part (retained after a failed write) and the live store
func observeParts(e *tsm1.Engine) (retained, live map[string][]tv) {
	conv := func(m map[string]tsm1.Values) map[string][]tv {
		res := map[string][]tv{}
		for k, vals := range m {
			out := make([]tv, len(vals))
			for i, v := range vals {
				out[i] = tv{v.UnixNano(), coqValueOf(v)}
			}
			res[k] = out
		}
		return res
	}
	sn, lv := e.Cache.VerifParts()
	return conv(sn), conv(lv)
}

func observeCache(e *tsm1.Engine) map[string][]tv {
	res := map[string][]tv{}
	for _, k := range e.Cache.Keys() {
		vals := e.Cache.Values(k)
		if len(vals) == 0 {
			continue
		}
		out := make([]tv, len(vals))
		for i, v := range vals {
			out[i] = tv{v.UnixNano(), coqValueOf(v)}
		}
		res[string(k)] = out
	}
	return res
}

// Coq: (mk_sfile stem blocks tombs has_ts mtime tmtime)
func coqBlocks(m map[string][][]tv) string {
	keys := make([]string, 0, len(m))
	for k := range m {
		keys = append(keys, k)
	}
	sort.Strings(keys)
	var kb []string
	for _, k := range keys {
		var bl []string
		for _, b := range m[k] {
			bl = append(bl, coqTVs(b))
		}
		kb = append(kb, fmt.Sprintf("(%s, %s)", hx.CoqStr(k), hx.CoqList(bl)))
	}
	return hx.CoqList(kb)
}

func coqTombs(ts []tombObs) string {
	var out []string
	for _, t := range ts {
		out = append(out, fmt.Sprintf("(%s, (%s, %s))", hx.CoqStr(t.Key), hx.CoqZ(t.Lo), hx.CoqZ(t.Hi)))
	}
	return hx.CoqList(out)
}

func coqFile(f fileObs) string {
	dead := make([]string, len(f.Dead))
	for i, k := range f.Dead {
		dead[i] = hx.CoqStr(k)
	}
	return fmt.Sprintf("(mk_sfile %s %s %s %s %s %s %s)", hx.CoqStr(f.Name), coqBlocks(f.Blocks), coqTombs(f.Tombs),
		hx.CoqBool(f.HasTS), hx.CoqZ(f.MTime), hx.CoqZ(f.TMTime), hx.CoqList(dead))
}

func coqFiles(fs []fileObs) string {
	items := make([]string, len(fs))
	for i, f := range fs {
		items[i] = coqFile(f)
	}
	return hx.CoqList(items)
}

// ---------------------------------------------------------------- archives

type memberObs struct {
	Name   string // header name
	Dir    bool
	Size   int64
	Start  int64 // offset of the header block in the stream
	Data   int64 // offset of the first data byte
	End    int64 // offset just after the last data byte (before padding)
	Next   int64 // offset of the next header (after padding)
	Blocks map[string][][]tv
	Tombs  []tombObs
	Kind   int // 0 tsm, 1 tombstone, 2 other
	Bad    bool
}

type countReader struct {
	r io.Reader
	n int64
}

func (c *countReader) Read(p []byte) (int, error) {
	n, err := c.r.Read(p)
	c.n += int64(n)
	return n, err
}

// parseArchive decodes an archive produced by the implementation with an independent walk
// over the tar stream; member bodies are decoded as TSM / tombstone files.
func parseArchive(data []byte, scratch string) ([]memberObs, bool) {
	var res []memberObs
	off := int64(0)
	tr := tar.NewReader(bytes.NewReader(data))
	for {
		h, err := tr.Next()
		if err == io.EOF {
			return res, true
		}
		if err != nil {
			return res, false
		}
		// plain ustar/GNU headers of these archives are one block; long names would add
		// extension blocks, which this offset arithmetic does not support
		m := memberObs{Name: h.Name, Dir: h.Typeflag == tar.TypeDir, Size: h.Size, Start: off}
		m.Data = off + 512
		sz := h.Size
		if m.Dir {
			sz = 0
		}
		m.End = m.Data + sz
		m.Next = m.Data + (sz+511)/512*512
		off = m.Next
		body, err := io.ReadAll(tr)
		if err != nil {
			return res, false
		}
		m.Kind = 2
		switch {
		case strings.HasSuffix(h.Name, ".tsm") && !m.Dir:
			m.Kind = 0
			os.MkdirAll(scratch, 0755)
			p := filepath.Join(scratch, "member.tsm")
			os.WriteFile(p, body, 0644)
			if m.Blocks, err = readTSMRaw(p, filepath.Join(scratch, "x")); err != nil {
				m.Bad = true
			}
			os.Remove(p)
		case strings.HasSuffix(h.Name, ".tombstone") && !m.Dir:
			m.Kind = 1
			os.MkdirAll(scratch, 0755)
			p := filepath.Join(scratch, "member.tombstone")
			os.WriteFile(p, body, 0644)
			if m.Tombs, err = readTombstones(p); err != nil {
				m.Bad = true
			}
			os.Remove(p)
		}
		res = append(res, m)
	}
}

// Coq: (mk_amember name_bytes kind is_dir size blocks tombs)
func coqMember(m memberObs) string {
	kind := m.Kind
	if m.Bad {
		kind = 2
	}
	sz := m.Size
	if m.Dir {
		sz = 0
	}
	return fmt.Sprintf("(mk_amember %s %d %s %d %s %s)", hx.CoqStr(m.Name), kind, hx.CoqBool(m.Dir), sz, coqBlocks(m.Blocks), coqTombs(m.Tombs))
}

func coqMembers(ms []memberObs) string {
	items := make([]string, len(ms))
	for i, m := range ms {
		items[i] = coqMember(m)
	}
	return hx.CoqList(items)
}

// rebuildArchive re-encodes members (plus injected extras) as a tar stream: used for the
// malformed-stream cases.
func injectExtra(data []byte, base string, extra int) []byte {
	if extra == 0 {
		return data
	}
	var out bytes.Buffer
	tw := tar.NewWriter(&out)
	switch extra {
	case 1:
		body := []byte("not a tsm file")
		tw.WriteHeader(&tar.Header{Name: filepath.ToSlash(filepath.Join(base, "fields.idx")), Mode: 0644, Size: int64(len(body)), Typeflag: tar.TypeReg})
		tw.Write(body)
	case 2:
		tw.WriteHeader(&tar.Header{Name: filepath.ToSlash(filepath.Join(base, "index")) + "/", Mode: 0755, Typeflag: tar.TypeDir})
	case 3:
		body := []byte("garbage that must never be installed")
		tw.WriteHeader(&tar.Header{Name: "otherdb/rp/99/000000077-000000001.tsm", Mode: 0644, Size: int64(len(body)), Typeflag: tar.TypeReg})
		tw.Write(body)
	}
	tw.Flush()
	// the original members follow (copy raw, it already carries the end marker)
	out.Write(data)
	return out.Bytes()
}


// ---------------------------------------------------------------- one case

type result struct {
	srcFiles    []fileObs
	srcCache    map[string][]tv
	srcRetained map[string][]tv
	retStem     string
	srcBefore   map[string][]tv
	srcAfter    map[string][]tv
	members     []memberObs
	archiveOK   bool
	backupErr   bool
	restoreErr  bool
	dstExists   bool
	dstReadable bool
	dst         map[string][]tv
	dstFiles    []fileObs
	advertised  bool
	cutAt       int64
	total       int64
	busy        bool
	errText     string
	srcFail     int // -1: no source fault; else number of members sent completely before the source failed
	srcFailOpen bool
	srcErr      bool
	nextStem    string
	base        string
	nExtra      int
}

// scrub removes the run's temp dir and numbers (shard ids, ports) from an error text.
func scrub(s, dir string) string {
	s = strings.ReplaceAll(s, dir, "$TMP")
	var b strings.Builder
	for _, c := range s {
		if c >= '0' && c <= '9' {
			c = '#'
		}
		b.WriteRune(c)
	}
	if b.Len() > 160 {
		return b.String()[:160]
	}
	return b.String()
}

func errClass(err error) string {
	if err == nil {
		return "ok"
	}
	s := err.Error()
	switch {
	case strings.Contains(s, "unexpected EOF"):
		return "unexpected-eof"
	case strings.Contains(s, "no such file"):
		return "no-such-file"
	case strings.Contains(s, "snapshot in progress"):
		return "snapshot-in-progress"
	}
	return "other"
}

var sinceBase = time.Date(2020, 1, 1, 0, 0, 0, 0, time.UTC)

func runCase(o *hx.Out, ev *env, d caseDesc, origin string) {
	if d.Mode == "incr" {
		runIncr(o, ev, d, origin)
		return
	}
	if d.Mode == "copyseq" {
		runCopySeq(o, ev, d, origin)
		return
	}
	o.Begin(d.Mode, d)
	id := ev.nextID
	ev.nextID++
	db := "db"
	scratch := filepath.Join(ev.dir, "scratch")
	defer func() {
		ev.src.DeleteShard(id)
		ev.dst.DeleteShard(id)
	}()
	if err := ev.src.CreateShard(db, "rp", id, true); err != nil {
		panic(err)
	}
	opErrs := 0
	for _, x := range d.Ops {
		var err error
		func() {
			defer func() {
				if e := recover(); e != nil {
					err = fmt.Errorf("panic: %v", e)
				}
			}()
			err = applyOp(ev.src, db, id, x)
		}()
		if err != nil {
			opErrs++
			o.Count("operr:" + x.Kind)
		}
	}
	eng := engineOf(ev.src, id)
	shDir := filepath.Join(ev.src.Path(), db, "rp", fmt.Sprint(id))
	var r result

	// deterministic mtimes for the since filter: i-th member (name order) gets base + 10*i s
	if d.Mode == "since" {
		eng.WriteSnapshot() // the backup's own snapshot would create a file with the current time
		eng.WriteSnapshot() // (a snapshot retained by a failed write goes first, the live cache second)
		names, _ := filepath.Glob(filepath.Join(shDir, "*.t*"))
		sort.Strings(names)
		for i, p := range names {
			t := sinceBase.Add(time.Duration(10*i) * time.Second)
			os.Chtimes(p, t, t)
		}
	}

	var err error
	if r.srcFiles, err = observeDir(shDir, scratch); err != nil {
		panic(err)
	}
	r.srcRetained, r.srcCache = observeParts(eng)
	r.nextStem = tsm1.DefaultFormatFileName(eng.FileStore.CurrentGeneration()+1, 1)
	if len(r.srcRetained) > 0 {
		// the retained snapshot is written out first, under the next name; the backup's own snapshot follows
		r.retStem = r.nextStem
		r.nextStem = tsm1.DefaultFormatFileName(eng.FileStore.CurrentGeneration()+2, 1)
		o.Count("source:retained-snapshot")
	}
	r.srcBefore, _ = readShard(ev.src, id)
	var busyRelease chan struct{}
	var busySnapDone chan error
	if d.Mode == "busy" {
		// a background cache snapshot is in flight (its file written, not yet installed in the
		// FileStore) when the backup is requested: WriteSnapshot is paused at the verifPoint
		// hook on its own goroutine and released once the backup has been seen waiting
		paused := make(chan struct{})
		busyRelease = make(chan struct{})
		busySnapDone = make(chan error, 1)
		fired := false
		tsm1.SetVerifPoint(func(name string, args ...interface{}) {
			if name == "snapshot.written" && !fired {
				fired = true
				close(paused)
				<-busyRelease
			}
		})
		go func() { busySnapDone <- eng.WriteSnapshot() }()
		select {
		case <-paused:
			o.Count("busy:snapshot-in-flight")
		case e := <-busySnapDone:
			// nothing in the cache: no snapshot in flight
			o.Count("busy:empty-cache")
			busySnapDone <- e
			close(busyRelease)
			busyRelease = nil
		}
	}

	// ---- backup / export
	var since time.Time
	if d.Mode == "since" {
		var mt []int64
		for _, f := range r.srcFiles {
			mt = append(mt, f.MTime)
			if f.HasTS {
				mt = append(mt, f.TMTime)
			}
		}
		sort.Slice(mt, func(i, j int) bool { return mt[i] < mt[j] })
		if len(mt) > 0 {
			since = time.Unix(0, mt[d.SinceIdx%len(mt)]+d.SinceOff)
		} else {
			since = sinceBase
		}
	}
	if d.SnapOff {
		ev.src.Shard(id).SetCompactionsEnabled(false)
		defer func() {
			if sh := ev.src.Shard(id); sh != nil {
				sh.SetCompactionsEnabled(true)
			}
		}()
	}
	var archive bytes.Buffer
	var berr error
	rpcMode := d.Mode == "rpc"
	faultMode := d.Mode == "srcfault"
	r.srcFail = -1
	if !rpcMode && !faultMode {
		func() {
			defer func() {
				if e := recover(); e != nil {
					berr = fmt.Errorf("panic: %v", e)
				}
			}()
			var wg sync.WaitGroup
			if len(d.During) > 0 {
				wg.Add(1)
				go func() { defer wg.Done(); ev.src.WriteToShard(id, mkPoints(d.During)) }()
			}
			if d.Mode == "export" {
				berr = ev.src.ExportShard(id, time.Unix(0, d.ExLo), time.Unix(0, d.ExHi), &archive)
			} else if d.Mode == "racecompact" {
				// a full compaction commits (FileStore.replace) while the backup has picked its files
				// but not yet linked them: FileStore.snapshotMu must hold the commit back
				rdone := make(chan error, 2)
				fired := false
				tsm1.SetVerifPoint(func(name string, args ...interface{}) {
					if name != "filestore.snapshot.refs" || fired {
						return
					}
					fired = true
					var paths []string
					for _, f := range eng.FileStore.Files() {
						paths = append(paths, f.Path())
					}
					if len(paths) == 0 {
						o.Count("racecompact:no-files")
						rdone <- nil
						return
					}
					eng.Compactor.EnableCompactions()
					out, cerr := eng.Compactor.CompactFull(paths)
					if cerr != nil {
						o.Count("racecompact:compaction-error")
						rdone <- nil
						return
					}
					go func() { rdone <- eng.FileStore.ReplaceWithCallback(paths, out, nil) }()
					select {
					case e := <-rdone:
						o.Count("racecompact:commit-ran-inside-backup")
						rdone <- e
					case <-time.After(150 * time.Millisecond):
						o.Count("racecompact:commit-held-back")
					}
				})
				berr = ev.src.BackupShard(id, since, &archive)
				tsm1.SetVerifPoint(nil)
				if fired {
					select {
					case e := <-rdone:
						if e != nil {
							panic(fmt.Sprintf("compaction commit failed: %v", e))
						}
					case <-time.After(60 * time.Second):
						panic("a compaction commit held back by a backup never completed")
					}
				}
			} else if busyRelease != nil {
				// Engine.snapshotMu must hold the backup's own snapshot back until the one in
				// flight is committed
				bdone := make(chan error, 1)
				go func() {
					defer func() {
						if e := recover(); e != nil {
							bdone <- fmt.Errorf("panic: %v", e)
						}
					}()
					bdone <- ev.src.BackupShard(id, since, &archive)
				}()
				select {
				case berr = <-bdone:
					o.Count("busy:backup-ran-inside-snapshot")
					r.busy = true
					close(busyRelease)
				case <-time.After(150 * time.Millisecond):
					o.Count("busy:backup-held-back")
					close(busyRelease)
					select {
					case berr = <-bdone:
					case <-time.After(60 * time.Second):
						panic("a backup held back by an in-flight cache snapshot never completed after the snapshot was committed")
					}
				}
				busyRelease = nil
			} else {
				berr = ev.src.BackupShard(id, since, &archive)
			}
			wg.Wait()
		}()
	} else {
		// obtain the archive bytes the source WOULD send (to locate member boundaries); the
		// copy itself pulls a second, identical backup through the proxy
		if !d.SnapOff || len(r.srcCache)+len(r.srcRetained) == 0 {
			berr = ev.src.BackupShard(id, time.Time{}, &archive)
		}
	}
	if d.Mode == "busy" {
		tsm1.SetVerifPoint(nil)
		if busyRelease != nil {
			close(busyRelease)
		}
		if e := <-busySnapDone; e != nil {
			panic(fmt.Sprintf("background snapshot failed: %v", e))
		}
	}
	r.backupErr = berr != nil
	if berr != nil {
		r.errText = "backup: " + scrub(berr.Error(), ev.dir)
	}
	o.Count("backup:" + errClass(berr))
	data := archive.Bytes()
	base := filepath.Join(db, "rp", fmt.Sprint(id))
	r.base = filepath.ToSlash(base)
	r.members, r.archiveOK = parseArchive(data, scratch)
	r.total = int64(len(data))
	r.srcAfter, _ = readShard(ev.src, id)

	// ---- cut point
	r.cutAt = -1
	if (d.Mode == "cut" || rpcMode) && d.CutMember >= 0 {
		n := len(r.members)
		cm := d.CutMember
		if cm > n {
			cm = n
		}
		start := int64(0)
		if n > 0 {
			if cm < n {
				start = r.members[cm].Start
			} else {
				start = r.members[n-1].Next
			}
		}
		r.cutAt = start + d.CutOff
		if r.cutAt < 0 {
			r.cutAt = 0
		}
		if r.cutAt > r.total {
			r.cutAt = r.total
		}
	}

	// ---- source fault
	if faultMode {
		n := len(r.members)
		k := d.FaultMember
		kind := d.FaultKind
		if kind != "open" {
			kind = "lstat"
		}
		lo := 0
		if kind == "lstat" {
			lo = 1 // nothing is written before the walk looks at the first file
		}
		if n > lo {
			k = lo + k%(n-lo)
			ev.fault.mu.Lock()
			ev.fault.active, ev.fault.kind, ev.fault.k, ev.fault.shDir, ev.fault.err = true, kind, k, shDir, nil
			ev.fault.name = filepath.Base(r.members[k].Name)
			ev.fault.after = 0
			if k > 0 {
				ev.fault.after = r.members[k-1].End
			}
			ev.fault.mu.Unlock()
			r.srcFail = k
			r.srcFailOpen = kind == "open"
		}
	}

	// ---- restore / import / copy
	var rerr error
	if faultMode && !d.ViaRPC {
		var buf bytes.Buffer
		ferr := faultStore{ev.src, ev.fault}.BackupShard(id, time.Time{}, &buf)
		r.srcErr = ferr != nil
		if err := ev.dst.CreateShard(db, "rp", id, true); err != nil {
			panic(err)
		}
		func() {
			defer func() {
				if e := recover(); e != nil {
					rerr = fmt.Errorf("panic: %v", e)
				}
			}()
			rerr = ev.dst.RestoreShard(id, bytes.NewReader(buf.Bytes()))
		}()
		r.advertised = rerr == nil
	} else if rpcMode || faultMode {
		ev.proxy.setLimit(r.cutAt)
		c := coordinator.NewClient(nil, 10*time.Second)
		rerr = c.CopyShard(ev.lnDst.Addr().String(), ev.proxy.ln.Addr().String(), db, "rp", id, time.Time{})
		// services/meta/handler.go serveCopyShard: the owner is added iff CopyShard returned nil
		r.advertised = rerr == nil
		if faultMode {
			r.srcErr = ev.fault.err != nil
		}
	} else {
		if err := ev.dst.CreateShard(db, "rp", id, true); err != nil {
			panic(err)
		}
		in := injectExtra(data, base, d.Extra)
		if d.Extra != 0 {
			r.members, r.archiveOK = parseArchive(in, scratch)
			r.nExtra = 1
		}
		var rd io.Reader = bytes.NewReader(in)
		if r.cutAt >= 0 {
			rd = bytes.NewReader(in[:r.cutAt])
		}
		func() {
			defer func() {
				if e := recover(); e != nil {
					rerr = fmt.Errorf("panic: %v", e)
				}
			}()
			if d.Mode == "import" {
				rerr = ev.dst.ImportShard(id, rd)
			} else {
				rerr = ev.dst.RestoreShard(id, rd)
			}
		}()
		// a direct restore stands for the copy: "advertised" = the restore reported success
		r.advertised = rerr == nil && !r.backupErr
	}
	r.restoreErr = rerr != nil
	if rerr != nil && r.errText == "" {
		r.errText = "restore: " + scrub(rerr.Error(), ev.dir)
	}
	o.Count("restore:" + errClass(rerr))
	r.dstExists = ev.dst.Shard(id) != nil
	if r.dstExists {
		r.dst, r.dstReadable = readShard(ev.dst, id)
		dstDir := filepath.Join(ev.dst.Path(), db, "rp", fmt.Sprint(id))
		r.dstFiles, _ = observeDir(dstDir, scratch)
	}
	emit(o, d, &r, origin)
}

// one round of the incremental mode, as observed
type roundObs struct {
	files      []fileObs
	cache      map[string][]tv
	nextStem   string
	hasSince   bool
	since      int64
	members    []memberObs
	archiveOK  bool
	src        map[string][]tv
	backupErr  bool
	restoreErr bool
	dstOK      bool
	dst        map[string][]tv
	dstFiles   []fileObs
}

func applyOps(o *hx.Out, st *tsdb.Store, db string, id uint64, ops []op) {
	for _, x := range ops {
		var err error
		func() {
			defer func() {
				if e := recover(); e != nil {
					err = fmt.Errorf("panic: %v", e)
				}
			}()
			err = applyOp(st, db, id, x)
		}()
		if err != nil {
			o.Count("operr:" + x.Kind)
		}
	}
}

type attemptObs struct {
	files       []fileObs
	cache       map[string][]tv
	nextStem    string
	cut, total  int64
	srcFail     int
	srcFailHdr  bool
	src         map[string][]tv
	members     []memberObs
	archiveOK   bool
	advertised  bool
	dstOK       bool
	dst         map[string][]tv
	dstFiles    []fileObs
	removed     int
}

// runCopySeq: copy-shard RPCs to the same destination, each after more operations on the
// source and each with its own fault; the destination shard is whatever the previous
// attempts left behind (absent, created but empty, an older complete copy).
func runCopySeq(o *hx.Out, ev *env, d caseDesc, origin string) {
	o.Begin(d.Mode, d)
	id := ev.nextID
	ev.nextID++
	db := "db"
	scratch := filepath.Join(ev.dir, "scratch")
	defer func() {
		ev.src.DeleteShard(id)
		ev.dst.DeleteShard(id)
	}()
	if err := ev.src.CreateShard(db, "rp", id, true); err != nil {
		panic(err)
	}
	applyOps(o, ev.src, db, id, d.Ops)
	shDir := filepath.Join(ev.src.Path(), db, "rp", fmt.Sprint(id))
	dstDir := filepath.Join(ev.dst.Path(), db, "rp", fmt.Sprint(id))
	base := filepath.ToSlash(filepath.Join(db, "rp", fmt.Sprint(id)))
	var atts []attemptObs
	for _, a := range d.Attempts {
		applyOps(o, ev.src, db, id, a.Pre)
		eng := engineOf(ev.src, id)
		ao := attemptObs{cut: -1, srcFail: -1}
		var err error
		if ao.files, err = observeDir(shDir, scratch); err != nil {
			panic(err)
		}
		ao.cache = observeCache(eng)
		ao.nextStem = tsm1.DefaultFormatFileName(eng.FileStore.CurrentGeneration()+1, 1)
		ao.src, _ = readShard(ev.src, id)
		// the archive the source is going to send (member offsets for the fault position)
		var archive bytes.Buffer
		berr := ev.src.BackupShard(id, time.Time{}, &archive)
		o.Count("backup:" + errClass(berr))
		ao.members, ao.archiveOK = parseArchive(archive.Bytes(), scratch)
		ao.total = int64(archive.Len())
		n := len(ao.members)
		switch a.Fault {
		case "cut":
			cm := a.CutMember
			if cm > n {
				cm = n
			}
			start := int64(0)
			if n > 0 {
				if cm < n {
					start = ao.members[cm].Start
				} else {
					start = ao.members[n-1].Next
				}
			}
			ao.cut = start + a.CutOff
			if ao.cut < 0 {
				ao.cut = 0
			}
			if ao.cut > ao.total {
				ao.cut = ao.total
			}
		case "lstat", "open":
			lo := 0
			if a.Fault == "lstat" {
				lo = 1
			}
			if n > lo {
				k := lo + a.FaultMember%(n-lo)
				ev.fault.mu.Lock()
				ev.fault.active, ev.fault.kind, ev.fault.k, ev.fault.shDir, ev.fault.err = true, a.Fault, k, shDir, nil
				ev.fault.name = filepath.Base(ao.members[k].Name)
				ev.fault.after = 0
				if k > 0 {
					ev.fault.after = ao.members[k-1].End
				}
				ev.fault.mu.Unlock()
				ao.srcFail, ao.srcFailHdr = k, a.Fault == "open"
			}
		}
		ev.proxy.setLimit(ao.cut)
		c := coordinator.NewClient(nil, 10*time.Second)
		rerr := c.CopyShard(ev.lnDst.Addr().String(), ev.proxy.ln.Addr().String(), db, "rp", id, time.Time{})
		ev.proxy.setLimit(-1)
		ao.advertised = rerr == nil
		o.Count("copyseq:fault=" + a.Fault + fmt.Sprintf(":acked=%v", ao.advertised))
		if ev.dst.Shard(id) != nil {
			ao.dst, ao.dstOK = readShard(ev.dst, id)
			ao.dstFiles, _ = observeDir(dstDir, scratch)
		} else {
			ao.dstOK = true // no shard: nothing is served
		}
		srcNames := map[string]bool{}
		if after, err := observeDir(shDir, scratch); err == nil {
			for _, f := range after {
				srcNames[f.Name] = true
			}
		}
		for _, f := range ao.dstFiles {
			if !srcNames[f.Name] {
				ao.removed++
			}
		}
		atts = append(atts, ao)
	}
	var items []string
	bad, removed := 0, 0
	for _, ao := range atts {
		var dstNames []string
		for _, f := range ao.dstFiles {
			dstNames = append(dstNames, fmt.Sprintf("(%s, %s)", hx.CoqStr(f.Name), hx.CoqBool(f.HasTS)))
		}
		items = append(items, fmt.Sprintf("(mk_cattempt %s %s %s %s %s %s %s %s %s %s %s %s %s %s)",
			coqFiles(ao.files), coqKVs(ao.cache), hx.CoqStr(ao.nextStem), hx.CoqZ(ao.cut), hx.CoqZ(ao.total),
			hx.CoqZ(int64(ao.srcFail)), hx.CoqBool(ao.srcFailHdr), coqKVs(ao.src), coqMembers(ao.members), hx.CoqBool(ao.archiveOK),
			hx.CoqBool(ao.advertised), hx.CoqBool(ao.dstOK), coqKVs(ao.dst), hx.CoqList(dstNames)))
		if ao.advertised && !sameReads(ao.src, ao.dst) {
			bad++
			removed += ao.removed
		}
	}
	coq := fmt.Sprintf("mk_copyseq %s %s", hx.CoqStr(base), hx.CoqList(items))
	o.Count("mode:copyseq")
	o.Count(fmt.Sprintf("copyseq:attempts=%d", len(atts)))
	var acks []bool
	for _, ao := range atts {
		acks = append(acks, ao.advertised)
	}
	last := attemptObs{}
	if len(atts) > 0 {
		last = atts[len(atts)-1]
	}
	obs := map[string]interface{}{
		"acknowledged": acks, "acknowledged_but_different": bad, "dst_files_removed_on_source": removed,
		"dst_equals_src": sameReads(last.src, last.dst), "src_points": countPts(last.src), "dst_points": countPts(last.dst),
	}
	sig, _ := json.Marshal(d)
	o.Emit(hx.Case{Kind: d.Mode, Coq: coq, Desc: d, Obs: obs, Nontrivial: countPts(last.src) > 0, Sig: string(sig), Origin: origin})
}

// fsClockAfter waits until a file written now gets a modification time later than t and returns it.
func fsClockAfter(dir string, t int64) int64 {
	p := filepath.Join(dir, "clock-probe")
	for {
		os.WriteFile(p, []byte{1}, 0644)
		if st, err := os.Stat(p); err == nil && st.ModTime().UnixNano() > t {
			return st.ModTime().UnixNano()
		}
		time.Sleep(time.Millisecond)
	}
}

// runIncr: full backup restored into the destination, then rounds of (ops on the source,
// backup of everything modified since the previous backup, restored over the destination).
func runIncr(o *hx.Out, ev *env, d caseDesc, origin string) {
	o.Begin(d.Mode, d)
	id := ev.nextID
	ev.nextID++
	db := "db"
	scratch := filepath.Join(ev.dir, "scratch")
	defer func() {
		ev.src.DeleteShard(id)
		ev.dst.DeleteShard(id)
	}()
	if err := ev.src.CreateShard(db, "rp", id, true); err != nil {
		panic(err)
	}
	if err := ev.dst.CreateShard(db, "rp", id, true); err != nil {
		panic(err)
	}
	shDir := filepath.Join(ev.src.Path(), db, "rp", fmt.Sprint(id))
	dstDir := filepath.Join(ev.dst.Path(), db, "rp", fmt.Sprint(id))
	base := filepath.ToSlash(filepath.Join(db, "rp", fmt.Sprint(id)))
	var rounds []roundObs
	var since time.Time
	all := append([][]op{d.Ops}, d.Rounds...)
	removed := 0
	for ri, ops := range all {
		applyOps(o, ev.src, db, id, ops)
		eng := engineOf(ev.src, id)
		var ro roundObs
		var err error
		if ro.files, err = observeDir(shDir, scratch); err != nil {
			panic(err)
		}
		ro.cache = observeCache(eng)
		ro.nextStem = tsm1.DefaultFormatFileName(eng.FileStore.CurrentGeneration()+1, 1)
		ro.src, _ = readShard(ev.src, id)
		ro.hasSince = ri > 0
		ro.since = since.UnixNano()
		var archive bytes.Buffer
		var berr error
		if ri == 0 {
			berr = ev.src.BackupShard(id, time.Time{}, &archive)
		} else {
			berr = ev.src.BackupShard(id, since, &archive)
		}
		ro.backupErr = berr != nil
		o.Count("backup:" + errClass(berr))
		ro.members, ro.archiveOK = parseArchive(archive.Bytes(), scratch)
		var rerr error
		func() {
			defer func() {
				if e := recover(); e != nil {
					rerr = fmt.Errorf("panic: %v", e)
				}
			}()
			rerr = ev.dst.RestoreShard(id, bytes.NewReader(archive.Bytes()))
		}()
		ro.restoreErr = rerr != nil
		o.Count("restore:" + errClass(rerr))
		ro.dst, ro.dstOK = readShard(ev.dst, id)
		ro.dstFiles, _ = observeDir(dstDir, scratch)
		rounds = append(rounds, ro)
		// The next backup takes everything modified after [since]. File times come from the
		// kernel's coarse clock, which lags time.Now() by up to a tick (more under load): [since]
		// is therefore read from that same clock - a value strictly later than every file of the
		// shard - and the source is not touched again before the clock has moved past it.
		var latest int64
		if names, err := filepath.Glob(filepath.Join(shDir, "*")); err == nil {
			for _, p := range names {
				if st, err := os.Stat(p); err == nil && st.ModTime().UnixNano() > latest {
					latest = st.ModTime().UnixNano()
				}
			}
		}
		since = time.Unix(0, fsClockAfter(ev.dir, latest))
		fsClockAfter(ev.dir, since.UnixNano())
	}
	last := rounds[len(rounds)-1]
	// files the destination still holds although the source no longer has them (compacted away)
	srcNames := map[string]bool{}
	if after, err := observeDir(shDir, scratch); err == nil {
		for _, f := range after {
			srcNames[f.Name] = true
		}
	}
	for _, f := range last.dstFiles {
		if !srcNames[f.Name] {
			removed++
		}
	}
	var items []string
	for _, ro := range rounds {
		var dstNames []string
		for _, f := range ro.dstFiles {
			dstNames = append(dstNames, fmt.Sprintf("(%s, %s)", hx.CoqStr(f.Name), hx.CoqBool(f.HasTS)))
		}
		items = append(items, fmt.Sprintf("(mk_round %s %s %s %s %s %s %s %s %s %s %s %s %s)",
			coqFiles(ro.files), coqKVs(ro.cache), hx.CoqStr(ro.nextStem), hx.CoqBool(ro.hasSince), hx.CoqZ(ro.since),
			coqKVs(ro.src), hx.CoqBool(ro.backupErr), coqMembers(ro.members), hx.CoqBool(ro.archiveOK),
			hx.CoqBool(ro.restoreErr), hx.CoqBool(ro.dstOK), coqKVs(ro.dst), hx.CoqList(dstNames)))
	}
	coq := fmt.Sprintf("mk_incr %s %s", hx.CoqStr(base), hx.CoqList(items))
	o.Count("mode:incr")
	o.Count(fmt.Sprintf("incr:rounds=%d", len(rounds)-1))
	tombOnly := 0
	for _, ro := range rounds[1:] {
		for _, m := range ro.members {
			if m.Kind == 1 {
				tsm := strings.TrimSuffix(m.Name, ".tombstone") + ".tsm"
				found := false
				for _, m2 := range ro.members {
					if m2.Name == tsm {
						found = true
					}
				}
				if !found {
					tombOnly++
				}
			}
		}
	}
	if tombOnly > 0 {
		o.Count("incr:tombstone-only-members")
	}
	if removed > 0 {
		o.Count("incr:dst-keeps-removed-files")
	}
	obs := map[string]interface{}{
		"rounds": len(rounds) - 1, "dst_equals_src": sameReads(last.src, last.dst), "restore_err": last.restoreErr,
		"backup_err": last.backupErr, "tombstone_only_members": tombOnly, "dst_files_removed_on_source": removed,
		"src_points": countPts(last.src), "dst_points": countPts(last.dst), "last_members": memberNames(last.members),
	}
	sig, _ := json.Marshal(d)
	o.Emit(hx.Case{Kind: d.Mode, Coq: coq, Desc: d, Obs: obs, Nontrivial: countPts(last.src) > 0, Sig: string(sig), Origin: origin})
}

func emit(o *hx.Out, d caseDesc, r *result, origin string) {
	mode := map[string]int{"full": 0, "import": 1, "since": 2, "cut": 3, "rpc": 4, "export": 5, "busy": 6, "srcfault": 7, "racecompact": 0}[d.Mode]
	if d.Mode == "srcfault" && d.ViaRPC {
		mode = 8
	}
	// since threshold as seen by the model
	var since int64 = math.MinInt64
	if d.Mode == "since" {
		var mt []int64
		for _, f := range r.srcFiles {
			mt = append(mt, f.MTime)
			if f.HasTS {
				mt = append(mt, f.TMTime)
			}
		}
		sort.Slice(mt, func(i, j int) bool { return mt[i] < mt[j] })
		if len(mt) > 0 {
			since = mt[d.SinceIdx%len(mt)] + d.SinceOff
		} else {
			since = sinceBase.UnixNano()
		}
	}
	var dstNames []string
	for _, f := range r.dstFiles {
		dstNames = append(dstNames, fmt.Sprintf("(%s, %s)", hx.CoqStr(f.Name), hx.CoqBool(f.HasTS)))
	}
	if d.Mode != "since" {
		since = 0
	}
	var during []string
	for _, p := range d.During {
		during = append(during, fmt.Sprintf("(%s, (%s, %s))", hx.CoqStr(keyOf(p.S, p.F)), hx.CoqZ(p.T), coqValue(valueOf(p.F, p.V))))
	}
	coq := fmt.Sprintf("mk_case %d %s %s %s %s %s %s %s %s %s %s %s %s %s %s %s %s %s %s %s %s %s %s %s %s %s %s",
		mode,
		coqFiles(r.srcFiles), coqKVs(r.srcCache), coqKVs(r.srcRetained), hx.CoqStr(r.retStem), fmt.Sprint(snapMode(r.busy, d.SnapOff)),
		hx.CoqStr(r.nextStem), hx.CoqStr(r.base),
		hx.CoqZ(since), hx.CoqZ(d.ExLo), hx.CoqZ(d.ExHi), hx.CoqZ(r.cutAt), hx.CoqZ(r.total),
		hx.CoqZ(int64(r.srcFail)), hx.CoqBool(r.srcFailOpen),
		hx.CoqList(during), coqMembers(r.members[:r.nExtra]),
		coqKVs(r.srcBefore), coqKVs(r.srcAfter),
		hx.CoqBool(r.backupErr), coqMembers(r.members), hx.CoqBool(r.archiveOK),
		hx.CoqBool(r.restoreErr), hx.CoqBool(r.dstExists && r.dstReadable), coqKVs(r.dst),
		hx.CoqList(dstNames), hx.CoqBool(r.advertised))
	ntomb, ncache, nfiles := 0, len(r.srcCache)+len(r.srcRetained), len(r.srcFiles)
	for _, f := range r.srcFiles {
		ntomb += len(f.Tombs)
	}
	o.Count(fmt.Sprintf("mode:%s", d.Mode))
	o.Count(fmt.Sprintf("files:%d", nfiles))
	o.Count(fmt.Sprintf("tombstoned_files:%d", countTS(r.srcFiles)))
	if ncache > 0 {
		o.Count("cache:nonempty")
	} else {
		o.Count("cache:empty")
	}
	if len(d.During) > 0 {
		o.Count("during:writes")
	}
	if d.SnapOff {
		o.Count("snapshots-disabled")
	}
	if r.cutAt >= 0 {
		o.Count("cut:" + cutClass(r))
	}
	if d.Mode == "srcfault" {
		o.Count(fmt.Sprintf("srcfault:%s:rpc=%v:injected=%v", d.FaultKind, d.ViaRPC, r.srcFail >= 0))
	}
	obs := map[string]interface{}{
		"backup_err": r.backupErr, "restore_err": r.restoreErr, "dst_exists": r.dstExists, "dst_readable": r.dstReadable,
		"advertised": r.advertised, "members": memberNames(r.members), "cut_at": r.cutAt, "archive_bytes": r.total,
		"src_unchanged": sameReads(r.srcBefore, r.srcAfter), "dst_equals_src": sameReads(r.srcBefore, r.dst),
		"src_points": countPts(r.srcBefore), "dst_points": countPts(r.dst), "error": r.errText,
		"source_fault_before_member": r.srcFail, "source_err": r.srcErr,
	}
	sig, _ := json.Marshal(d)
	o.Emit(hx.Case{Kind: d.Mode, Coq: coq, Desc: d, Obs: obs,
		Nontrivial: countPts(r.srcBefore) > 0 && (nfiles > 0 || ncache > 0), Sig: string(sig), Origin: origin})
}

func snapMode(busy, off bool) int {
	switch {
	case busy:
		return 1
	case off:
		return 2
	}
	return 0
}

func countTS(fs []fileObs) int {
	n := 0
	for _, f := range fs {
		if f.HasTS {
			n++
		}
	}
	return n
}

func cutClass(r *result) string {
	if r.cutAt >= r.total {
		return "none(total)"
	}
	if r.cutAt == 0 {
		return "zero-bytes"
	}
	for _, m := range r.members {
		if r.cutAt > m.Start && r.cutAt < m.Data {
			return "in-header"
		}
		if r.cutAt >= m.Data && r.cutAt < m.End {
			return "in-data"
		}
		if r.cutAt >= m.End && r.cutAt <= m.Next {
			return "member-boundary"
		}
	}
	return "in-trailer"
}

func memberNames(ms []memberObs) []string {
	var s []string
	for _, m := range ms {
		s = append(s, fmt.Sprintf("%s:%d", m.Name, m.Size))
	}
	return s
}

func countPts(m map[string][]tv) int {
	n := 0
	for _, v := range m {
		n += len(v)
	}
	return n
}

// ---------------------------------------------------------------- generation

func genPts(r *hx.Rand, n int, tmax int64) []pt {
	var ps []pt
	for i := 0; i < n; i++ {
		ps = append(ps, pt{S: r.Intn(len(tagVals)), F: r.Intn(len(fieldNames)), T: int64(r.Intn(int(tmax))), V: int64(r.Intn(9)) - 2})
	}
	return ps
}

func genOps(r *hx.Rand) []op {
	var ops []op
	n := 1 + r.Intn(9)
	snaps := 0 // upper bound of the number of TSM files
	tmax := int64(4 + r.Intn(30))
	for i := 0; i < n; i++ {
		k := r.Intn(10)
		if i == 0 {
			k = 0 // a history starts with a write
		}
		switch {
		case k < 4:
			ops = append(ops, op{Kind: "write", Pts: genPts(r, 1+r.Intn(8), tmax)})
		case k < 6:
			lo := int64(r.Intn(int(tmax)))
			hi := lo + int64(r.Intn(int(tmax)/2+1))
			var ser []int
			for s := range tagVals {
				if r.Chance(45) {
					ser = append(ser, s)
				}
			}
			kind := "delete"
			if snaps > 0 && len(ser) > 0 && r.Chance(25) {
				kind = "tombstat"
			}
			ops = append(ops, op{Kind: kind, Series: ser, Lo: lo, Hi: hi})
		case k < 9:
			if r.Chance(12) {
				// a failed cache snapshot followed by more writes: retained snapshot + live cache
				ops = append(ops, op{Kind: "snapfail"}, op{Kind: "write", Pts: genPts(r, 1+r.Intn(4), tmax)})
			} else if snaps < 6 {
				ops = append(ops, op{Kind: "snapshot"})
				snaps++
			}
		default:
			ops = append(ops, op{Kind: "compact"})
			if snaps > 1 {
				snaps = 1
			}
		}
	}
	return ops
}

// ops on the source between two backups: writes, deletes (which hit the files the previous
// backup already shipped), cache snapshots and, rarely, a full compaction
func genRoundOps(r *hx.Rand) []op {
	var ops []op
	n := 1 + r.Intn(4)
	tmax := int64(4 + r.Intn(30))
	for i := 0; i < n; i++ {
		switch k := r.Intn(20); {
		case k < 8:
			ops = append(ops, op{Kind: "write", Pts: genPts(r, 1+r.Intn(6), tmax)})
		case k < 15:
			lo := int64(r.Intn(int(tmax)))
			hi := lo + int64(r.Intn(int(tmax)/2+1))
			var ser []int
			for s := range tagVals {
				if r.Chance(50) {
					ser = append(ser, s)
				}
			}
			ops = append(ops, op{Kind: "delete", Series: ser, Lo: lo, Hi: hi})
		case k < 19:
			ops = append(ops, op{Kind: "snapshot"})
		default:
			ops = append(ops, op{Kind: "compact"})
		}
	}
	return ops
}

func genCase(r *hx.Rand, i int) caseDesc {
	d := caseDesc{Ops: genOps(r), CutMember: -1}
	switch i % 16 {
	case 12, 13, 14:
		d.Mode = "incr"
		d.Ops = append(d.Ops, op{Kind: "snapshot"})
		for k := 1 + r.Intn(3); k > 0; k-- {
			d.Rounds = append(d.Rounds, genRoundOps(r))
		}
		return d
	case 10, 11:
		d.Mode = "copyseq"
		d.Ops = append(d.Ops, op{Kind: "write", Pts: genPts(r, 2, 20)}, op{Kind: "snapshot"}, op{Kind: "write", Pts: genPts(r, 2, 20)})
		for k := 1 + r.Intn(3); k > 0; k-- {
			a := attemptDesc{Fault: []string{"", "", "cut", "cut", "lstat", "open"}[r.Intn(6)]}
			if len(d.Attempts) > 0 && r.Chance(60) {
				a.Pre = genRoundOps(r)
			}
			a.CutMember = r.Intn(5)
			a.CutOff = []int64{0, 0, 1, 100, 511, 512, 513, 600, -1, -100, 1024}[r.Intn(11)]
			a.FaultMember = r.Intn(6)
			d.Attempts = append(d.Attempts, a)
		}
		return d
	case 15:
		d.Mode = "srcfault"
		d.Ops = append(d.Ops, op{Kind: "write", Pts: genPts(r, 2, 20)}, op{Kind: "snapshot"}, op{Kind: "write", Pts: genPts(r, 2, 20)})
		d.FaultMember = r.Intn(6)
		d.FaultKind = []string{"lstat", "open"}[r.Intn(2)]
		d.ViaRPC = r.Bool()
		return d
	}
	switch m := i % 16; {
	case m < 4:
		d.Mode = "full"
		if r.Chance(30) {
			d.During = genPts(r, 1+r.Intn(4), 30)
		}
		if r.Chance(15) {
			d.Extra = 1 + r.Intn(3)
		} else if r.Chance(12) {
			d.SnapOff, d.During = true, nil
		} else if r.Chance(25) {
			// a compaction commits while the backup is linking its files
			d.Mode, d.During = "racecompact", nil
			d.Ops = append(d.Ops, op{Kind: "snapshot"}, op{Kind: "write", Pts: genPts(r, 1+r.Intn(3), 20)}, op{Kind: "snapshot"})
			if r.Chance(50) {
				d.Ops = append(d.Ops, op{Kind: "write", Pts: genPts(r, 1+r.Intn(3), 20)})
			}
		} else if r.Chance(30) {
			// the backup is requested while a background cache snapshot is in flight
			d.Mode, d.During = "busy", nil
			d.Ops = append(d.Ops, op{Kind: "write", Pts: genPts(r, 1+r.Intn(3), 20)})
		}
	case m < 5:
		d.Mode = "import"
	case m < 7:
		d.Mode = "since"
		d.SinceIdx = r.Intn(8)
		d.SinceOff = []int64{0, 0, -1, 1, -5000000000, 5000000000}[r.Intn(6)]
	case m < 9:
		d.Mode = "cut"
		d.CutMember = r.Intn(5)
		d.CutOff = []int64{0, 0, 1, 100, 511, 512, 513, 600, -1, -100, 1024}[r.Intn(11)]
	case m < 11:
		d.Mode = "rpc"
		if r.Chance(70) {
			d.CutMember = r.Intn(5)
			d.CutOff = []int64{0, 0, 1, 100, 511, 512, 513, 600, -1, -100, 1024}[r.Intn(11)]
		}
	default:
		d.Mode = "export"
		d.ExLo = int64(r.Intn(20))
		d.ExHi = d.ExLo + int64(r.Intn(20))
		// window bounds on (or next to) timestamps the shard holds: a file's first / last time
		// equal to the window's start / end is where the overlap tests change branch
		var ts []int64
		for _, o := range d.Ops {
			for _, p := range o.Pts {
				ts = append(ts, p.T)
			}
		}
		if len(ts) > 0 && r.Chance(60) {
			a := ts[r.Intn(len(ts))] + int64(r.Intn(3)-1)*int64(r.Intn(2))
			b := ts[r.Intn(len(ts))] + int64(r.Intn(3)-1)*int64(r.Intn(2))
			if a > b {
				a, b = b, a
			}
			if a < 0 {
				a = 0
			}
			if b < a {
				b = a
			}
			d.ExLo, d.ExHi = a, b
		}
	}
	return d
}

func designed() []caseDesc {
	w := func(ps ...pt) op { return op{Kind: "write", Pts: ps} }
	snap := op{Kind: "snapshot"}
	del := func(lo, hi int64, s ...int) op { return op{Kind: "delete", Series: s, Lo: lo, Hi: hi} }
	base := []op{w(pt{0, 0, 1, 2}, pt{0, 0, 2, 4}, pt{1, 1, 1, 7}), snap}
	tomb := append(append([]op{}, base...), del(2, 2, 0))
	var ds []caseDesc
	for _, mode := range []string{"full", "import", "rpc"} {
		ds = append(ds,
			caseDesc{Mode: mode, CutMember: -1},                                                          // empty shard
			caseDesc{Mode: mode, CutMember: -1, Ops: []op{w(pt{0, 0, 1, 2}, pt{2, 3, 5, 1})}},             // cache only
			caseDesc{Mode: mode, CutMember: -1, Ops: []op{w(pt{0, 0, 1, 2}, pt{1, 1, 3, 5}), {Kind: "snapfail"}, w(pt{0, 0, 2, 4}, pt{2, 3, 5, 1})}}, // retained snapshot + live cache
			caseDesc{Mode: mode, CutMember: -1, Ops: append(append([]op{}, base...), op{Kind: "tombstat", Series: []int{0}, Lo: 2, Hi: 2})}, // tombstone stats looked up inside the delete
			caseDesc{Mode: mode, CutMember: -1, Ops: base},                                                // one file
			caseDesc{Mode: mode, CutMember: -1, Ops: tomb},                                                // pending tombstone
			caseDesc{Mode: mode, CutMember: -1, Ops: append(append([]op{}, tomb...), w(pt{0, 0, 2, 6}))}, // rewrite after delete, in cache
			caseDesc{Mode: mode, CutMember: -1, Ops: append(append([]op{}, tomb...), w(pt{0, 0, 2, 6}), snap, op{Kind: "compact"})},
			caseDesc{Mode: mode, CutMember: -1, Ops: append(append([]op{}, base...), w(pt{0, 0, 2, 8}, pt{0, 0, 3, 1}), snap, del(1, 3, 0), w(pt{1, 2, 9, 3}))},
		)
	}
	// cuts at every boundary class of a two-file, one-tombstone archive
	two := append(append([]op{}, tomb...), w(pt{0, 0, 5, 1}), snap)
	for cm := 0; cm <= 3; cm++ {
		for _, off := range []int64{0, 1, 511, 512, 513, 700, -1} {
			ds = append(ds, caseDesc{Mode: "cut", Ops: two, CutMember: cm, CutOff: off})
		}
		ds = append(ds, caseDesc{Mode: "rpc", Ops: two, CutMember: cm, CutOff: 0}, caseDesc{Mode: "rpc", Ops: two, CutMember: cm, CutOff: 300})
	}
	for k := 0; k < 4; k++ {
		for _, off := range []int64{0, -1, 1} {
			ds = append(ds, caseDesc{Mode: "since", Ops: two, SinceIdx: k, SinceOff: off, CutMember: -1})
		}
	}
	ds = append(ds,
		caseDesc{Mode: "export", Ops: base, ExLo: 0, ExHi: 10, CutMember: -1},
		caseDesc{Mode: "export", Ops: base, ExLo: 2, ExHi: 2, CutMember: -1},
		caseDesc{Mode: "export", Ops: base, ExLo: 0, ExHi: 1, CutMember: -1}, // window end == the file's first time
		caseDesc{Mode: "export", Ops: base, ExLo: 2, ExHi: 7, CutMember: -1}, // window start == the file's last time
		caseDesc{Mode: "export", Ops: two, ExLo: 0, ExHi: 1, CutMember: -1},
		caseDesc{Mode: "export", Ops: two, ExLo: 2, ExHi: 3, CutMember: -1},
		caseDesc{Mode: "export", Ops: two, ExLo: 0, ExHi: 10, CutMember: -1},
		caseDesc{Mode: "export", Ops: base, ExLo: 1, ExHi: 2, CutMember: -1},                                                   // window == file range
		caseDesc{Mode: "export", Ops: []op{w(pt{0, 0, 1, 2}, pt{1, 0, 10, 4}), snap}, ExLo: 4, ExHi: 5, CutMember: -1}, // window in a gap between blocks
		caseDesc{Mode: "export", Ops: []op{w(pt{0, 0, 1, 2}, pt{1, 0, 10, 4}), snap}, ExLo: 20, ExHi: 30, CutMember: -1}, // window outside
	)
	for _, ex := range []int{1, 2, 3} {
		ds = append(ds, caseDesc{Mode: "full", Ops: tomb, Extra: ex, CutMember: -1})
	}
	// snapshot compactions disabled on the source while it holds cached points (and with an empty cache)
	for _, mode := range []string{"full", "rpc"} {
		ds = append(ds,
			caseDesc{Mode: mode, CutMember: -1, SnapOff: true, Ops: append(append([]op{}, base...), w(pt{0, 0, 3, 5}))},
			caseDesc{Mode: mode, CutMember: -1, SnapOff: true, Ops: []op{w(pt{0, 0, 3, 5})}},
			caseDesc{Mode: mode, CutMember: -1, SnapOff: true, Ops: base},
		)
	}
	// the source loses a snapshot file while streaming: before every member, both ways, direct and through the RPC
	three := append(append([]op{}, two...), w(pt{1, 1, 7, 3}))
	for k := 0; k < 4; k++ {
		for _, kind := range []string{"lstat", "open"} {
			for _, rpc := range []bool{false, true} {
				ds = append(ds, caseDesc{Mode: "srcfault", Ops: three, FaultMember: k, FaultKind: kind, ViaRPC: rpc, CutMember: -1})
			}
		}
	}
	// copy-shard attempts to the same destination: a retry after every kind of failure, a second
	// copy over an older complete copy
	for _, f := range []attemptDesc{{Fault: "cut", CutMember: 1, CutOff: 100}, {Fault: "cut", CutMember: 0, CutOff: 0},
		{Fault: "cut", CutMember: 2, CutOff: 0}, {Fault: "lstat", FaultMember: 0}, {Fault: "open", FaultMember: 1}} {
		ds = append(ds,
			caseDesc{Mode: "copyseq", CutMember: -1, Ops: three, Attempts: []attemptDesc{f, {}}},
			caseDesc{Mode: "copyseq", CutMember: -1, Ops: three, Attempts: []attemptDesc{f, f, {Pre: []op{w(pt{2, 2, 9, 1}), del(1, 1, 0)}}}},
		)
	}
	ds = append(ds,
		caseDesc{Mode: "copyseq", CutMember: -1, Ops: three, Attempts: []attemptDesc{{}, {Pre: []op{del(1, 1, 0), w(pt{0, 0, 8, 8})}}}},
		caseDesc{Mode: "copyseq", CutMember: -1, Ops: three, Attempts: []attemptDesc{{}, {Pre: []op{del(5, 5, 0)}, Fault: "cut", CutMember: 1, CutOff: 0}, {}}},
		caseDesc{Mode: "copyseq", CutMember: -1, Attempts: []attemptDesc{{}, {Pre: []op{w(pt{0, 0, 1, 1})}}}}, // empty shard copied first
	)
	// incremental restores over an earlier copy
	ds = append(ds,
		// a delete that hits a file the full backup already shipped: the increment holds the tombstone file alone
		caseDesc{Mode: "incr", CutMember: -1, Ops: base, Rounds: [][]op{{del(2, 2, 0)}}},
		caseDesc{Mode: "incr", CutMember: -1, Ops: base, Rounds: [][]op{{del(2, 2, 0)}, {w(pt{0, 0, 2, 9}), del(1, 1, 1)}}},
		caseDesc{Mode: "incr", CutMember: -1, Ops: base, Rounds: [][]op{{w(pt{0, 0, 3, 1}), snap, del(1, 3, 0)}, {del(1, 1, 1)}, {w(pt{2, 2, 4, 4})}}},
		caseDesc{Mode: "incr", CutMember: -1, Ops: tomb, Rounds: [][]op{{del(1, 1, 0)}}}, // the tombstone file of an old file grows
		caseDesc{Mode: "incr", CutMember: -1, Ops: base, Rounds: [][]op{{}}},          // nothing changed
	)
	return ds
}

func main() {
	f := hx.ParseFlags()
	o := hx.NewOut(f.OutDir)
	defer o.Close()
	ev := newEnv()
	defer ev.close()

	if f.In != "" {
		for _, in := range hx.ReadInputs(f.In) {
			var d caseDesc
			d.CutMember = -1
			if err := json.Unmarshal(in.Desc, &d); err != nil {
				panic(err)
			}
			if d.Mode == "" {
				d.Mode = in.Kind
			}
			runCase(o, ev, d, "replay")
		}
		return
	}
	r := hx.NewRand(f.Seed)
	for _, d := range designed() {
		runCase(o, ev, d, "designed")
	}
	for i := 0; i < f.N; i++ {
		runCase(o, ev, genCase(r, i), "gen")
	}
}
