// h_c13: correspondence harness for C13 (storage encodings and WAL segment framing).
// Runs the REAL encoders/decoders of tsdb/engine/tsm1, pkg/encoding/simple8b and the
// vendored jwilder simple8b on generated sequences, and the real WALSegmentReader on
// truncated segments; records bytes and decodes as Coq terms for C13/Run.v.
package main

import (
	"bytes"
	"encoding/binary"
	"encoding/json"
	"fmt"
	"io"
	"math"
	"os"
	"path/filepath"
	"sort"
	"strings"

	"github.com/golang/snappy"
	pkgs8b "github.com/influxdata/influxdb/pkg/encoding/simple8b"
	"github.com/influxdata/influxdb/tsdb"
	"github.com/influxdata/influxdb/tsdb/engine/tsm1"
	jws8b "github.com/jwilder/encoding/simple8b"
	"verifharness/hx"
)

// ---------------------------------------------------------------- Coq printers

// long value lists are printed as (cum first [wrapped deltas]) when that is shorter; cum
// (C13/Spec.v) rebuilds the absolute 64-bit values by running sums mod 2^64
func coqNs(xs []uint64) string {
	plain := hx.CoqNList(xs)
	if len(xs) < 4 {
		return plain
	}
	ds := make([]uint64, len(xs)-1)
	for i := 1; i < len(xs); i++ {
		ds[i-1] = xs[i] - xs[i-1]
	}
	alt := fmt.Sprintf("(cum %d %s)", xs[0], hx.CoqNList(ds))
	if len(alt) < len(plain) {
		return alt
	}
	return plain
}
func coqOptNs(xs []uint64, ok bool) string {
	if !ok {
		return "None"
	}
	return "(Some " + coqNs(xs) + ")"
}
// long byte strings are printed as (pb [8-byte big-endian words] [remaining bytes]): far fewer
// tokens for Coq to read; pb is defined in C13/Spec.v
func coqB(b []byte) string {
	if len(b) < 32 {
		return hx.CoqBytes(b)
	}
	n := len(b) / 8
	ws := make([]uint64, n)
	for i := range ws {
		ws[i] = binary.BigEndian.Uint64(b[8*i:])
	}
	return "(pb " + hx.CoqNList(ws) + " " + hx.CoqBytes(b[8*n:]) + ")"
}
func coqOptBytes(b []byte, ok bool) string {
	if !ok {
		return "None"
	}
	return "(Some " + coqB(b) + ")"
}
func coqBools(xs []bool) string {
	it := make([]string, len(xs))
	for i, x := range xs {
		it[i] = hx.CoqBool(x)
	}
	return "[" + strings.Join(it, ";") + "]"
}
func coqStrs(xs []string) string {
	it := make([]string, len(xs))
	for i, x := range xs {
		it[i] = hx.CoqStr(x)
	}
	return "[" + strings.Join(it, ";") + "]"
}

func u64s(xs []int64) []uint64 {
	r := make([]uint64, len(xs))
	for i, x := range xs {
		r[i] = uint64(x)
	}
	return r
}
func i64s(xs []uint64) []int64 {
	r := make([]int64, len(xs))
	for i, x := range xs {
		r[i] = int64(x)
	}
	return r
}
func eqU(a, b []uint64) bool {
	if len(a) != len(b) {
		return false
	}
	for i := range a {
		if a[i] != b[i] {
			return false
		}
	}
	return true
}

// decode observation: same as input, or other values / error
func dobsN(in, got []uint64, err bool) (string, bool) {
	if !err && eqU(in, got) {
		return "DSame", true
	}
	return fmt.Sprintf("(DOther %s %s)", coqNs(got), hx.CoqBool(err)), false
}

// guard runs f; a panic is reported as an error observation
func guard(f func()) (panicked bool) {
	defer func() {
		if e := recover(); e != nil {
			panicked = true
		}
	}()
	f()
	return false
}


// ---------------------------------------------------------------- buffer reuse / dirty buffers
//
// The model is a pure function of the values. Every encoder that accepts a destination
// buffer, or that can be Reset and reused, is therefore ALSO run with dirty buffers
// (pre-filled with 0xFF / 0x01 / a byte pattern; capacity smaller than, equal to and larger
// than needed; zero and non-zero length) and through reuse after encoding an unrelated
// "polluting" sequence. The bytes must be identical to those of the fresh encode; the first
// variant whose output differs REPLACES the recorded bytes (and the decodes are taken from
// it), so the Coq comparison with the model sees it.

func filled(n int, pat byte) []byte {
	b := make([]byte, n)
	for i := range b {
		switch pat {
		case 2:
			b[i] = byte(37*i + 11) | 1
		default:
			b[i] = pat
		}
	}
	return b
}

// destination buffers for an output of `need` bytes
func dirtyBufs(need int) [][]byte {
	return [][]byte{
		filled(need/2, 0xFF)[:0],
		filled(need, 0x01)[:0],
		filled(need+37, 0xFF)[:0],
		filled(need+64, 2)[:0],
		filled(need+9, 0xFF), // non-zero length, larger than needed
		filled(need, 0x01),   // non-zero length, exactly as needed
	}
}

type encRes struct {
	b  []byte
	ok bool
}

// pick returns the clean result unless some variant differs from it (then that variant).
func pick(o *hx.Out, kind string, clean encRes, eq func(a, b []byte) bool, variants []func() encRes) encRes {
	if eq == nil {
		eq = bytes.Equal
	}
	for _, v := range variants {
		var r encRes
		if guard(func() { r = v() }) {
			o.Count(kind + ":reuse_variant_PANIC")
			return encRes{nil, false}
		}
		o.Count(kind + ":reuse_variants_checked")
		if r.ok != clean.ok || (r.ok && !eq(r.b, clean.b)) {
			o.Count(kind + ":reuse_variant_DIFFERS")
			return encRes{append([]byte{}, r.b...), r.ok}
		}
	}
	return clean
}

// ---------------------------------------------------------------- sequences

type seqDesc struct {
	Vals []uint64 `json:"vals"`
	Uns  bool     `json:"uns,omitempty"`
}

var pow10 = []uint64{1, 10, 100, 1000, 10000, 100000, 1000000, 10000000, 100000000, 1000000000,
	10000000000, 100000000000, 1000000000000, 10000000000000}

var selBits = []uint{0, 1, 2, 3, 4, 5, 6, 7, 8, 10, 12, 15, 20, 30, 60}
var runLens = []int{1, 2, 3, 4, 5, 6, 7, 8, 10, 12, 15, 20, 30, 59, 60, 61, 119, 120, 121, 239, 240, 241}

func genLen(r *hx.Rand) int {
	switch p := r.Intn(100); {
	case p < 8:
		return []int{0, 1, 2, 3}[r.Intn(4)]
	case p < 78:
		return 1 + r.Intn(40)
	case p < 93:
		return 40 + r.Intn(140)
	case p < 98:
		return []int{119, 120, 121, 122, 239, 240, 241, 242, 300, 480, 481}[r.Intn(11)]
	default:
		return []int{999, 1000, 1001, 1200}[r.Intn(4)]
	}
}

// genCodes produces the values handed to simple8b (after delta/zigzag/scale), built from
// segments that aim at one selector each, with boundary values.
func genCodes(r *hx.Rand, n int) []uint64 {
	out := make([]uint64, 0, n)
	for len(out) < n {
		cnt := runLens[r.Intn(len(runLens))]
		if r.Chance(30) {
			cnt = 1 + r.Intn(12)
		}
		bits := selBits[r.Intn(len(selBits))]
		mode := r.Intn(6)
		for j := 0; j < cnt && len(out) < n; j++ {
			var v uint64
			switch {
			case bits == 0:
				v = 1
			case mode == 0:
				v = (uint64(1) << bits) - 1 // largest value of the selector
			case mode == 1 && j == cnt/2:
				v = uint64(1) << bits // one value too large for it (2^60: not packable)
				if bits == 60 && !r.Chance(20) {
					v = (uint64(1) << 60) - 1
				}
			default:
				v = r.U64() & ((uint64(1) << bits) - 1)
			}
			out = append(out, v)
		}
	}
	return out
}

func zzDec(v uint64) int64 { return int64((v >> 1) ^ uint64((int64(v&1)<<63)>>63)) }

// integer sequences: chosen so that the zig-zag deltas are the generated codes
func genIntSeq(r *hx.Rand) []uint64 {
	n := genLen(r)
	if n == 0 {
		return nil
	}
	var first uint64
	switch r.Intn(6) {
	case 0:
		first = 0
	case 1:
		first = uint64(math.MaxInt64)
	case 2:
		first = 1 << 63 // MinInt64
	case 3:
		first = []uint64{1<<59 - 1, 1 << 59, 1<<60 - 1, 1 << 60, 1 << 62, ^uint64(0)}[r.Intn(6)]
	default:
		first = r.U64() >> uint(r.Intn(64))
	}
	vals := []uint64{first}
	switch r.Intn(10) {
	case 0: // constant delta (RLE), incl. 0, negative and huge
		d := []uint64{0, 1, ^uint64(0), 10, 1000, 1 << 59, 1 << 60, 1 << 62, 1 << 63, r.U64()}[r.Intn(10)]
		for i := 1; i < n; i++ {
			vals = append(vals, vals[i-1]+d)
		}
	case 1: // random 64-bit values (uncompressed)
		for i := 1; i < n; i++ {
			vals = append(vals, r.U64())
		}
	case 2: // extremes
		ex := []uint64{0, 1, ^uint64(0), math.MaxInt64, 1 << 63, 1<<63 + 1, 1<<60 - 1, 1 << 60, 1<<59 - 1, 1 << 59}
		for i := 1; i < n; i++ {
			vals = append(vals, ex[r.Intn(len(ex))])
		}
	default:
		codes := genCodes(r, n-1)
		for i, c := range codes {
			vals = append(vals, vals[i]+uint64(zzDec(c)))
		}
	}
	return vals
}

// timestamp sequences: deltas = code * 10^k (+ noise), constant, or >= 2^60
func genTimeSeq(r *hx.Rand) []uint64 {
	n := genLen(r)
	if n == 0 {
		return nil
	}
	var first uint64
	switch r.Intn(5) {
	case 0:
		first = 0
	case 1:
		first = 1500000000000000000 + uint64(r.Intn(1000000))*1000000000
	case 2:
		first = 1 << 63
	case 3:
		first = math.MaxInt64
	default:
		first = r.U64() >> uint(r.Intn(64))
	}
	vals := []uint64{first}
	k := r.Intn(13)
	if r.Chance(30) {
		k = 0
	}
	switch r.Intn(10) {
	case 0, 1: // constant delta (RLE): divisible by exactly 10^k, or zero, or wrapping
		d := pow10[k] * uint64(1+r.Intn(9))
		switch r.Intn(6) {
		case 0:
			d = 0
		case 1:
			d = ^uint64(0) - uint64(r.Intn(5)) // negative step
		case 2:
			d = 1 << 60
		}
		for i := 1; i < n; i++ {
			vals = append(vals, vals[i-1]+d)
		}
	case 2: // random
		for i := 1; i < n; i++ {
			vals = append(vals, r.U64())
		}
	case 3: // one delta >= 2^60 among small ones
		pos := 1 + r.Intn(n)
		for i := 1; i < n; i++ {
			d := uint64(r.Intn(1000)) * pow10[k]
			if i == pos {
				// incl. gaps above 2^60 that share the power-of-ten factor of the small deltas (a stray
				// point at the epoch next to present-day second-precision points): the raw branch must
				// store unscaled deltas
				d = []uint64{1<<60 - 1, 1 << 60, 1<<60 + 1, 1 << 63, ^uint64(0), 1600000000000000000, 2000000000000000000}[r.Intn(7)]
			}
			vals = append(vals, vals[i-1]+d)
		}
	default:
		codes := genCodes(r, n-1)
		breakAt := -1
		if r.Chance(30) && n > 2 {
			breakAt = r.Intn(n - 1) // one delta not divisible by 10^k
		}
		for i, c := range codes {
			d := c * pow10[k]
			if c != 0 && d/c != pow10[k] {
				d = c // product overflowed: keep the raw code
			}
			if i == breakAt {
				d += uint64(1 + r.Intn(9))
			}
			vals = append(vals, vals[i]+d)
		}
	}
	return vals
}

func runS8b(o *hx.Out, d seqDesc, origin string) {
	o.Begin("s8b", d)
	in := d.Vals
	cp := func() []uint64 { return append([]uint64(nil), in...) }
	var ja, js, pa []uint64
	jaOK, jsOK, paOK := false, false, false
	guard(func() {
		w, err := jws8b.EncodeAll(cp())
		if err == nil {
			ja, jaOK = append([]uint64(nil), w...), true
		}
	})
	guard(func() {
		e := jws8b.NewEncoder()
		for _, v := range in {
			if err := e.Write(v); err != nil {
				return
			}
		}
		b, err := e.Bytes()
		if err != nil {
			return
		}
		for i := 0; i+8 <= len(b); i += 8 {
			js = append(js, binary.BigEndian.Uint64(b[i:]))
		}
		jsOK = true
	})
	guard(func() {
		w, err := pkgs8b.EncodeAll(cp())
		if err == nil {
			pa, paOK = append([]uint64(nil), w...), true
		}
	})
	ok := jaOK && jsOK && paOK
	if ok {
		guard(func() {
			// jwilder DecodeAll on the EncodeAll words
			dst := make([]uint64, len(in)+240)
			n, err := jws8b.DecodeAll(dst, ja)
			ok = ok && err == nil && eqU(dst[:n], in)
			// jwilder Decoder on the streamed bytes
			bs := make([]byte, 8*len(js))
			for i, w := range js {
				binary.BigEndian.PutUint64(bs[8*i:], w)
			}
			dec := jws8b.NewDecoder(bs)
			var got []uint64
			for dec.Next() {
				got = append(got, dec.Read())
			}
			ok = ok && eqU(got, in)
			// pkg CountBytes + DecodeBytesBigEndian on the pkg words
			pb := make([]byte, 8*len(pa))
			for i, w := range pa {
				binary.BigEndian.PutUint64(pb[8*i:], w)
			}
			cnt, err := pkgs8b.CountBytes(pb)
			dst2 := make([]uint64, cnt+240)
			n2, err2 := pkgs8b.DecodeBytesBigEndian(dst2, pb)
			ok = ok && err == nil && err2 == nil && n2 == cnt && eqU(dst2[:n2], in)
		})
	}
	coq := fmt.Sprintf("CS8b %s %s %s %s %s", coqNs(in), coqOptNs(ja, jaOK), coqOptNs(js, jsOK), coqOptNs(pa, paOK), hx.CoqBool(ok))
	o.Count(fmt.Sprintf("s8b:len<=%d", bucket(len(in))))
	o.Emit(hx.Case{Kind: "s8b", Coq: coq, Desc: d, Obs: map[string]interface{}{"jw_words": len(ja), "stream_words": len(js), "pkg_words": len(pa), "roundtrip": ok},
		Nontrivial: len(in) > 0, Sig: fmt.Sprintf("s8b:%x", hashU(in)), Origin: origin})
}

func bucket(n int) int {
	for _, b := range []int{0, 1, 2, 8, 40, 120, 240, 300, 1000} {
		if n <= b {
			return b
		}
	}
	return 100000
}

func hashU(xs []uint64) uint64 {
	h := uint64(1469598103934665603)
	for _, x := range xs {
		for i := 0; i < 8; i++ {
			h ^= (x >> (8 * uint(i))) & 0xff
			h *= 1099511628211
		}
	}
	return h ^ uint64(len(xs))
}

func scheme(b []byte) string {
	if len(b) == 0 {
		return "empty"
	}
	return fmt.Sprintf("%d", b[0]>>4)
}

func runTime(o *hx.Out, d seqDesc, origin string) {
	o.Begin("time", d)
	in := d.Vals
	var ib, bb []byte
	ibOK, bbOK := false, false
	guard(func() {
		e := tsm1.NewTimeEncoder(len(in))
		for _, v := range in {
			e.Write(int64(v))
		}
		b, err := e.Bytes()
		if err == nil {
			ib, ibOK = append([]byte{}, b...), true
		}
	})
	guard(func() {
		b, err := tsm1.TimeArrayEncodeAll(i64s(in), nil)
		if err == nil {
			bb, bbOK = append([]byte{}, b...), true
		}
	})
	if len(in) > 0 {
		var vs []func() encRes
		for _, db := range dirtyBufs(len(bb)) {
			db := db
			vs = append(vs, func() encRes {
				b, err := tsm1.TimeArrayEncodeAll(i64s(in), db)
				return encRes{b, err == nil}
			})
		}
		r := pick(o, "time_batch", encRes{bb, bbOK}, nil, vs)
		bb, bbOK = r.b, r.ok
		// iterator encoder reused after an unrelated sequence (three different layouts)
		vs = nil
		for _, pol := range [][]uint64{{^uint64(0), 1, 1 << 62, 77, 5}, {1000, 2000, 3000, 4000, 5000, 6000, 7000}, {9, 8, 1<<60 + 3, 4}} {
			pol := pol
			vs = append(vs, func() encRes {
				e := tsm1.NewTimeEncoder(4)
				for k := 0; k < len(in)/len(pol)+2; k++ {
					for _, v := range pol {
						e.Write(int64(v) + int64(k))
					}
				}
				e.Bytes()
				e.Reset()
				for _, v := range in {
					e.Write(int64(v))
				}
				b, err := e.Bytes()
				return encRes{b, err == nil}
			})
		}
		r = pick(o, "time_iter", encRes{ib, ibOK}, nil, vs)
		ib, ibOK = r.b, r.ok
	}
	iter := func(b []byte, ok bool) (string, bool) {
		if !ok {
			return dobsN(in, nil, true)
		}
		var got []uint64
		errd := false
		if guard(func() {
			var dec tsm1.TimeDecoder
			dec.Init(b)
			for dec.Next() {
				got = append(got, uint64(dec.Read()))
				if len(got) > len(in)+1000 {
					break
				}
			}
			errd = dec.Error() != nil
		}) {
			errd = true
		}
		return dobsN(in, got, errd)
	}
	batch := func(b []byte, ok bool) (string, bool) {
		if !ok {
			return dobsN(in, nil, true)
		}
		var got []uint64
		errd := false
		if guard(func() {
			r, err := tsm1.TimeArrayDecodeAll(b, dirtyI64())
			got, errd = u64s(r), err != nil
		}) {
			errd = true
		}
		return dobsN(in, got, errd)
	}
	dii, s1 := iter(ib, ibOK)
	dib, s2 := iter(bb, bbOK)
	dbi, s3 := batch(ib, ibOK)
	dbb, s4 := batch(bb, bbOK)
	coq := fmt.Sprintf("CTime %s %s %s %s %s %s %s", coqNs(in), coqOptBytes(ib, ibOK), coqOptBytes(bb, bbOK), dii, dib, dbi, dbb)
	o.Count("time:scheme=" + scheme(ib) + "/" + scheme(bb))
	o.Count(fmt.Sprintf("time:len<=%d", bucket(len(in))))
	o.Emit(hx.Case{Kind: "time", Coq: coq, Desc: d, Obs: map[string]interface{}{"iter_bytes": len(ib), "batch_bytes": len(bb), "roundtrip": s1 && s2 && s3 && s4},
		Nontrivial: len(in) > 0, Sig: fmt.Sprintf("time:%x", hashU(in)), Origin: origin})
}

func runInt(o *hx.Out, d seqDesc, origin string) {
	o.Begin("int", d)
	in := d.Vals
	var ib, bb []byte
	ibOK, bbOK := false, false
	guard(func() {
		e := tsm1.NewIntegerEncoder(len(in))
		for _, v := range in {
			e.Write(int64(v))
		}
		b, err := e.Bytes()
		if err == nil {
			ib, ibOK = append([]byte{}, b...), true
		}
	})
	guard(func() {
		var b []byte
		var err error
		if d.Uns {
			b, err = tsm1.UnsignedArrayEncodeAll(append([]uint64(nil), in...), nil)
		} else {
			b, err = tsm1.IntegerArrayEncodeAll(i64s(in), nil)
		}
		if err == nil {
			bb, bbOK = append([]byte{}, b...), true
		}
	})
	if len(in) > 0 {
		var vs []func() encRes
		for _, db := range dirtyBufs(len(bb)) {
			db := db
			vs = append(vs, func() encRes {
				var b []byte
				var err error
				if d.Uns {
					b, err = tsm1.UnsignedArrayEncodeAll(append([]uint64(nil), in...), db)
				} else {
					b, err = tsm1.IntegerArrayEncodeAll(i64s(in), db)
				}
				return encRes{b, err == nil}
			})
		}
		r := pick(o, "int_batch", encRes{bb, bbOK}, nil, vs)
		bb, bbOK = r.b, r.ok
		vs = nil
		for _, pol := range [][]uint64{{^uint64(0), 1, 1 << 62, 77, 5}, {7, 7, 7, 7, 7, 7}, {1, 2, 4, 8, 16}} {
			pol := pol
			vs = append(vs, func() encRes {
				e := tsm1.NewIntegerEncoder(4)
				for k := 0; k < len(in)/len(pol)+2; k++ {
					for _, v := range pol {
						e.Write(int64(v))
					}
				}
				e.Bytes()
				e.Reset()
				for _, v := range in {
					e.Write(int64(v))
				}
				b, err := e.Bytes()
				return encRes{b, err == nil}
			})
		}
		r = pick(o, "int_iter", encRes{ib, ibOK}, nil, vs)
		ib, ibOK = r.b, r.ok
	}
	iter := func(b []byte, ok bool) (string, bool) {
		if !ok {
			return dobsN(in, nil, true)
		}
		var got []uint64
		errd := false
		if guard(func() {
			var dec tsm1.IntegerDecoder
			dec.SetBytes(b)
			for dec.Next() {
				got = append(got, uint64(dec.Read()))
				if len(got) > len(in)+1000 {
					break
				}
			}
			errd = dec.Error() != nil
		}) {
			errd = true
		}
		return dobsN(in, got, errd)
	}
	batch := func(b []byte, ok bool) (string, bool) {
		if !ok {
			return dobsN(in, nil, true)
		}
		var got []uint64
		errd := false
		if guard(func() {
			if d.Uns {
				r, err := tsm1.UnsignedArrayDecodeAll(b, dirtyU64())
				got, errd = append([]uint64(nil), r...), err != nil
			} else {
				r, err := tsm1.IntegerArrayDecodeAll(b, dirtyI64())
				got, errd = u64s(r), err != nil
			}
		}) {
			errd = true
		}
		return dobsN(in, got, errd)
	}
	dii, s1 := iter(ib, ibOK)
	dib, s2 := iter(bb, bbOK)
	dbi, s3 := batch(ib, ibOK)
	dbb, s4 := batch(bb, bbOK)
	coq := fmt.Sprintf("CInt %s %s %s %s %s %s %s", coqNs(in), coqOptBytes(ib, ibOK), coqOptBytes(bb, bbOK), dii, dib, dbi, dbb)
	o.Count("int:scheme=" + scheme(ib) + "/" + scheme(bb))
	o.Count(fmt.Sprintf("int:len<=%d", bucket(len(in))))
	o.Emit(hx.Case{Kind: "int", Coq: coq, Desc: d, Obs: map[string]interface{}{"iter_bytes": len(ib), "batch_bytes": len(bb), "roundtrip": s1 && s2 && s3 && s4},
		Nontrivial: len(in) > 0, Sig: fmt.Sprintf("int:%v:%x", d.Uns, hashU(in)), Origin: origin})
}

// ---------------------------------------------------------------- booleans

type boolDesc struct {
	Vals []bool `json:"vals"`
}

func eqB(a, b []bool) bool {
	if len(a) != len(b) {
		return false
	}
	for i := range a {
		if a[i] != b[i] {
			return false
		}
	}
	return true
}

func runBool(o *hx.Out, d boolDesc, origin string) {
	o.Begin("bool", d)
	in := d.Vals
	var ib, bb []byte
	guard(func() {
		e := tsm1.NewBooleanEncoder(len(in))
		for _, v := range in {
			e.Write(v)
		}
		b, _ := e.Bytes()
		ib = append([]byte{}, b...)
	})
	guard(func() {
		b, _ := tsm1.BooleanArrayEncodeAll(in, nil)
		bb = append([]byte{}, b...)
	})
	{
		// BooleanArrayEncodeAll sets/clears only the bits it owns: with a dirty destination the
		// unused low bits of the LAST byte keep what was there. The decoders never look at them
		// (count-limited), so the comparison masks exactly those padding bits; everything else
		// must be identical, and the decodes below are taken from the dirty bytes.
		eqPad := func(a, b []byte) bool {
			if len(a) != len(b) {
				return false
			}
			if bytes.Equal(a, b) {
				return true
			}
			pad := (8 - len(in)%8) % 8
			if pad == 0 || len(a) == 0 || !bytes.Equal(a[:len(a)-1], b[:len(b)-1]) {
				return false
			}
			o.Count("bool_batch:dirty_padding_bits_kept")
			m := byte(0xFF) << uint(pad)
			return a[len(a)-1]&m == b[len(b)-1]&m
		}
		var vs []func() encRes
		for _, db := range dirtyBufs(len(bb)) {
			db := db
			vs = append(vs, func() encRes {
				b, err := tsm1.BooleanArrayEncodeAll(in, db)
				return encRes{b, err == nil}
			})
		}
		r := pick(o, "bool_batch", encRes{bb, true}, eqPad, vs)
		bb = r.b
		vs = []func() encRes{func() encRes {
			e := tsm1.NewBooleanEncoder(1)
			for k := 0; k < len(in)+13; k++ {
				e.Write(true)
			}
			e.Bytes()
			e.Reset()
			for _, v := range in {
				e.Write(v)
			}
			b, err := e.Bytes()
			return encRes{b, err == nil}
		}}
		r = pick(o, "bool_iter", encRes{ib, true}, nil, vs)
		ib = r.b
	}
	obs := func(got []bool, errd bool) (string, bool) {
		if !errd && eqB(got, in) {
			return "DSame", true
		}
		return fmt.Sprintf("(DOther %s %s)", coqBools(got), hx.CoqBool(errd)), false
	}
	iter := func(b []byte) (string, bool) {
		var got []bool
		errd := false
		if guard(func() {
			var dec tsm1.BooleanDecoder
			dec.SetBytes(b)
			for dec.Next() {
				got = append(got, dec.Read())
			}
			errd = dec.Error() != nil
		}) {
			errd = true
		}
		return obs(got, errd)
	}
	batch := func(b []byte) (string, bool) {
		var got []bool
		errd := false
		if guard(func() {
			r, err := tsm1.BooleanArrayDecodeAll(b, dirtyBool())
			got, errd = r, err != nil
		}) {
			errd = true
		}
		return obs(got, errd)
	}
	dii, s1 := iter(ib)
	dib, s2 := iter(bb)
	dbi, s3 := batch(ib)
	dbb, s4 := batch(bb)
	coq := fmt.Sprintf("CBool %s %s %s %s %s %s %s", coqBools(in), coqB(ib), coqB(bb), dii, dib, dbi, dbb)
	o.Count(fmt.Sprintf("bool:len%%8=%d", len(in)%8))
	sig := make([]byte, len(in))
	for i, v := range in {
		if v {
			sig[i] = 1
		}
	}
	o.Emit(hx.Case{Kind: "bool", Coq: coq, Desc: d, Obs: map[string]interface{}{"iter_bytes": len(ib), "batch_bytes": len(bb), "roundtrip": s1 && s2 && s3 && s4},
		Nontrivial: len(in) > 0, Sig: fmt.Sprintf("bool:%x", sig), Origin: origin})
}

// ---------------------------------------------------------------- strings

type strDesc struct {
	Vals [][]byte `json:"vals"`
}

func runStr(o *hx.Out, d strDesc, origin string) {
	o.Begin("str", d)
	in := make([]string, len(d.Vals))
	tot := 0
	for i, b := range d.Vals {
		in[i] = string(b)
		tot += len(b)
	}
	var ib, bb []byte
	guard(func() {
		e := tsm1.NewStringEncoder(16)
		for _, s := range in {
			e.Write(s)
		}
		b, _ := e.Bytes()
		ib = append([]byte{}, b...)
	})
	guard(func() {
		b, err := tsm1.StringArrayEncodeAll(in, nil)
		if err == nil {
			bb = append([]byte{}, b...)
		}
	})
	{
		var vs []func() encRes
		if len(in) > 0 { // EncodeStringArrayBlock returns early for no values; the empty shortcut leaves b[1] unwritten
			for _, db := range dirtyBufs(len(bb) + tot + 16) {
				db := db
				vs = append(vs, func() encRes {
					b, err := tsm1.StringArrayEncodeAll(in, db)
					return encRes{b, err == nil}
				})
			}
			r := pick(o, "str_batch", encRes{bb, true}, nil, vs)
			bb = r.b
		}
		vs = []func() encRes{func() encRes {
			e := tsm1.NewStringEncoder(1)
			for k := 0; k < len(in)+3; k++ {
				e.Write("\xff\x01polluting-string\xff")
			}
			e.Bytes()
			e.Reset()
			for _, v := range in {
				e.Write(v)
			}
			b, err := e.Bytes()
			return encRes{b, err == nil}
		}}
		r := pick(o, "str_iter", encRes{ib, true}, nil, vs)
		ib = r.b
	}
	pre := func(b []byte) (byte, []byte) {
		if len(b) == 0 {
			return 255, nil
		}
		body, err := snappy.Decode(nil, b[1:])
		if err != nil {
			return 254, nil
		}
		return b[0], body
	}
	ih, ipre := pre(ib)
	bh, bpre := pre(bb)
	obs := func(got []string, errd bool) (string, bool) {
		same := !errd && len(got) == len(in)
		if same {
			for i := range got {
				if got[i] != in[i] {
					same = false
				}
			}
		}
		if same {
			return "DSame", true
		}
		return fmt.Sprintf("(DOther %s %s)", coqStrs(got), hx.CoqBool(errd)), false
	}
	iter := func(b []byte) (string, bool) {
		var got []string
		errd := false
		if guard(func() {
			var dec tsm1.StringDecoder
			if err := dec.SetBytes(b); err != nil {
				errd = true
				return
			}
			for dec.Next() {
				got = append(got, dec.Read())
			}
			if dec.Error() != nil {
				errd, got = true, nil
			}
		}) {
			errd = true
		}
		return obs(got, errd)
	}
	batch := func(b []byte) (string, bool) {
		var got []string
		errd := false
		if guard(func() {
			r, err := tsm1.StringArrayDecodeAll(b, dirtyStr())
			got, errd = r, err != nil
		}) {
			errd = true
		}
		return obs(got, errd)
	}
	dii, s1 := iter(ib)
	dib, s2 := iter(bb)
	dbi, s3 := batch(ib)
	dbb, s4 := batch(bb)
	coq := fmt.Sprintf("CStr %s %d %s %d %s %s %s %s %s", coqStrs(in), ih, coqB(ipre), bh, coqB(bpre), dii, dib, dbi, dbb)
	o.Count(fmt.Sprintf("str:count<=%d", bucket(len(in))))
	o.Count(fmt.Sprintf("str:bytes<=%d", bucket(tot)))
	o.Emit(hx.Case{Kind: "str", Coq: coq, Desc: d, Obs: map[string]interface{}{"iter_bytes": len(ib), "batch_bytes": len(bb), "roundtrip": s1 && s2 && s3 && s4},
		Nontrivial: len(in) > 0, Sig: fmt.Sprintf("str:%x", hashU([]uint64{uint64(len(in)), hashBytes(d.Vals)})), Origin: origin})
}

func hashBytes(bs [][]byte) uint64 {
	h := uint64(1469598103934665603)
	for _, b := range bs {
		for _, x := range b {
			h ^= uint64(x)
			h *= 1099511628211
		}
		h ^= 0xff00
		h *= 1099511628211
	}
	return h
}

// ---------------------------------------------------------------- floats

var floatSpecials = []uint64{
	0, 1 << 63, // +0 -0
	1, 1<<63 | 1, // smallest subnormals
	0x000FFFFFFFFFFFFF, 0x0010000000000000, // largest subnormal, smallest normal
	0x7FEFFFFFFFFFFFFF, 0xFFEFFFFFFFFFFFFF, // +-MaxFloat64
	0x3FF0000000000000, 0xBFF0000000000000, // +-1
	0x7FF0000000000000, 0xFFF0000000000000, // +-Inf
	0x7FF8000000000000,                     // a NaN next to the sentinel pattern (other payload)
	0x4059000000000000, 0x4024000000000000, 0x3FB999999999999A,
	0x00000000FFFFFFFF, 0xFFFFFFFF00000000, 0x8000000000000001, 0x0000000100000000,
}

func isNaN(v uint64) bool { return math.IsNaN(math.Float64frombits(v)) }

func genFloatSeq(r *hx.Rand) []uint64 {
	n := genLen(r)
	if n > 300 {
		n = 300 + r.Intn(100)
	}
	vals := make([]uint64, 0, n)
	mode := r.Intn(8)
	allowInfPos, allowInfNeg := r.Chance(10), false
	if !allowInfPos {
		allowInfNeg = r.Chance(10)
	}
	cur := math.Float64frombits(0x4059000000000000)
	for i := 0; i < n; i++ {
		var v uint64
		switch mode {
		case 0: // specials
			v = floatSpecials[r.Intn(len(floatSpecials))]
		case 1: // random bit patterns
			v = r.U64()
		case 2: // smooth decimal series
			cur += float64(r.Intn(20)-10) * 0.1
			v = math.Float64bits(cur)
		case 3: // equal neighbours and sign flips
			if i > 0 && r.Chance(50) {
				v = vals[i-1]
				if r.Chance(30) {
					v ^= 1 << 63
				}
			} else {
				v = math.Float64bits(float64(r.Intn(1000)))
			}
		case 4: // xor deltas with chosen leading/trailing zero windows
			if i == 0 {
				v = r.U64()
			} else {
				lead, trail := uint(r.Intn(64)), uint(r.Intn(64))
				if lead+trail > 63 {
					trail = 63 - lead
				}
				x := (r.U64() | 1<<63) >> lead
				x = (x >> trail) | 1
				x <<= trail
				v = vals[i-1] ^ x
			}
		case 5: // integers as floats
			v = math.Float64bits(float64(int64(r.U64() >> uint(r.Intn(64)))))
		default:
			v = math.Float64bits(float64(r.Intn(100)) / 4)
		}
		if isNaN(v) && !(mode == 0 && r.Chance(15)) {
			v &^= 0x7FF0000000000000 >> 1 // clear one exponent bit: finite
		}
		if v == 0x7FF0000000000000 && !allowInfPos {
			v = 0x7FEFFFFFFFFFFFFF
		}
		if v == 0xFFF0000000000000 && !allowInfNeg {
			v = 0xFFEFFFFFFFFFFFFF
		}
		vals = append(vals, v)
	}
	return vals
}

func runFloat(o *hx.Out, d seqDesc, origin string) {
	o.Begin("float", d)
	in := d.Vals
	fl := make([]float64, len(in))
	for i, v := range in {
		fl[i] = math.Float64frombits(v)
	}
	var ib, bb []byte
	ibOK, bbOK := false, false
	guard(func() {
		e := tsm1.NewFloatEncoder()
		for _, v := range fl {
			e.Write(v)
		}
		e.Flush()
		b, err := e.Bytes()
		if err == nil {
			ib, ibOK = append([]byte{}, b...), true
		}
	})
	guard(func() {
		b, err := tsm1.FloatArrayEncodeAll(append([]float64(nil), fl...), nil)
		if err == nil {
			bb, bbOK = append([]byte{}, b...), true
		}
	})
	{
		var vs []func() encRes
		for _, db := range dirtyBufs(len(bb)) {
			db := db
			vs = append(vs, func() encRes {
				b, err := tsm1.FloatArrayEncodeAll(append([]float64(nil), fl...), db)
				return encRes{b, err == nil}
			})
		}
		r := pick(o, "float_batch", encRes{bb, bbOK}, nil, vs)
		bb, bbOK = r.b, r.ok
		vs = []func() encRes{func() encRes {
			e := tsm1.NewFloatEncoder()
			for k := 0; k < len(in)+5; k++ {
				e.Write(math.Float64frombits(0xFFEFFFFFFFFFFFFF ^ uint64(k)*0x0101010101010101))
			}
			e.Flush()
			e.Bytes()
			e.Reset()
			for _, v := range fl {
				e.Write(v)
			}
			e.Flush()
			b, err := e.Bytes()
			return encRes{b, err == nil}
		}}
		r = pick(o, "float_iter", encRes{ib, ibOK}, nil, vs)
		ib, ibOK = r.b, r.ok
	}
	iter := func(b []byte, ok bool) (string, bool) {
		if !ok {
			return dobsN(in, nil, true)
		}
		var got []uint64
		errd := false
		if guard(func() {
			var dec tsm1.FloatDecoder
			if err := dec.SetBytes(b); err != nil {
				errd = true
				return
			}
			for dec.Next() {
				got = append(got, math.Float64bits(dec.Values()))
				if len(got) > len(in)+1000 {
					break
				}
			}
			if dec.Error() != nil {
				errd, got = true, nil
			}
		}) {
			errd = true
		}
		return dobsN(in, got, errd)
	}
	batch := func(b []byte, ok bool) (string, bool) {
		if !ok {
			return dobsN(in, nil, true)
		}
		var got []uint64
		errd := false
		if guard(func() {
			r, err := tsm1.FloatArrayDecodeAll(b, dirtyF64())
			for _, x := range r {
				got = append(got, math.Float64bits(x))
			}
			if err != nil {
				errd, got = true, nil
			}
		}) {
			errd = true
		}
		return dobsN(in, got, errd)
	}
	dii, s1 := iter(ib, ibOK)
	dib, s2 := iter(bb, bbOK)
	dbi, s3 := batch(ib, ibOK)
	dbb, s4 := batch(bb, bbOK)
	coq := fmt.Sprintf("CFloat %s %s %s %s %s %s %s", coqNs(in), coqOptBytes(ib, ibOK), coqOptBytes(bb, bbOK), dii, dib, dbi, dbb)
	hasNaN := false
	for _, v := range in {
		hasNaN = hasNaN || isNaN(v)
	}
	o.Count(fmt.Sprintf("float:nan=%v", hasNaN))
	o.Count(fmt.Sprintf("float:len<=%d", bucket(len(in))))
	o.Emit(hx.Case{Kind: "float", Coq: coq, Desc: d, Obs: map[string]interface{}{"iter_bytes": len(ib), "batch_bytes": len(bb), "roundtrip": s1 && s2 && s3 && s4, "iter_err": !ibOK, "batch_err": !bbOK},
		Nontrivial: len(in) > 1, Sig: fmt.Sprintf("float:%x", hashU(in)), Origin: origin})
}

// ---------------------------------------------------------------- blocks

type blockDesc struct {
	Typ  string   `json:"typ"` // int | uns | float | bool
	Ts   []uint64 `json:"ts"`
	Vals []uint64 `json:"vals"` // bool: 0/1
}

func runBlock(o *hx.Out, d blockDesc, origin string) {
	o.Begin("block", d)
	n := len(d.Ts)
	vals := make(tsm1.Values, n)
	for i := 0; i < n; i++ {
		t := int64(d.Ts[i])
		switch d.Typ {
		case "int":
			vals[i] = tsm1.NewIntegerValue(t, int64(d.Vals[i]))
		case "uns":
			vals[i] = tsm1.NewUnsignedValue(t, d.Vals[i])
		case "float":
			vals[i] = tsm1.NewFloatValue(t, math.Float64frombits(d.Vals[i]))
		default:
			vals[i] = tsm1.NewBooleanValue(t, d.Vals[i] == 1)
		}
	}
	var block []byte
	blockOK := false
	guard(func() {
		b, err := vals.Encode(nil)
		if err == nil {
			block, blockOK = append([]byte{}, b...), true
		}
	})
	if blockOK {
		var vs []func() encRes
		for _, db := range dirtyBufs(len(block)) {
			db := db
			vs = append(vs, func() encRes {
				b, err := vals.Encode(db)
				return encRes{b, err == nil}
			})
		}
		r := pick(o, "block", encRes{block, blockOK}, nil, vs)
		block, blockOK = r.b, r.ok
	}
	same := func(t int64, v interface{}, i int) bool {
		if t != int64(d.Ts[i]) {
			return false
		}
		switch d.Typ {
		case "int":
			x, ok := v.(int64)
			return ok && uint64(x) == d.Vals[i]
		case "uns":
			x, ok := v.(uint64)
			return ok && x == d.Vals[i]
		case "float":
			x, ok := v.(float64)
			return ok && math.Float64bits(x) == d.Vals[i]
		default:
			x, ok := v.(bool)
			return ok && x == (d.Vals[i] == 1)
		}
	}
	di, da := false, false
	if blockOK {
		guard(func() {
			got, err := tsm1.DecodeBlock(block, nil)
			ok := err == nil && len(got) == n
			for i := 0; ok && i < n; i++ {
				ok = same(got[i].UnixNano(), got[i].Value(), i)
			}
			di = ok
		})
		guard(func() {
			ok := false
			switch d.Typ {
			case "int":
				a := &tsdb.IntegerArray{Timestamps: dirtyI64(), Values: dirtyI64()}
				err := tsm1.DecodeIntegerArrayBlock(block, a)
				ok = err == nil && len(a.Timestamps) == n && len(a.Values) == n
				for i := 0; ok && i < n; i++ {
					ok = same(a.Timestamps[i], a.Values[i], i)
				}
			case "uns":
				a := &tsdb.UnsignedArray{Timestamps: dirtyI64(), Values: dirtyU64()}
				err := tsm1.DecodeUnsignedArrayBlock(block, a)
				ok = err == nil && len(a.Timestamps) == n && len(a.Values) == n
				for i := 0; ok && i < n; i++ {
					ok = same(a.Timestamps[i], a.Values[i], i)
				}
			case "float":
				a := &tsdb.FloatArray{Timestamps: dirtyI64(), Values: dirtyF64()}
				err := tsm1.DecodeFloatArrayBlock(block, a)
				ok = err == nil && len(a.Timestamps) == n && len(a.Values) == n
				for i := 0; ok && i < n; i++ {
					ok = same(a.Timestamps[i], a.Values[i], i)
				}
			default:
				a := &tsdb.BooleanArray{Timestamps: dirtyI64(), Values: dirtyBool()}
				err := tsm1.DecodeBooleanArrayBlock(block, a)
				ok = err == nil && len(a.Timestamps) == n && len(a.Values) == n
				for i := 0; ok && i < n; i++ {
					ok = same(a.Timestamps[i], a.Values[i], i)
				}
			}
			da = ok
		})
	}
	var bv string
	switch d.Typ {
	case "int":
		bv = "(BInt " + coqNs(d.Vals) + ")"
	case "uns":
		bv = "(BUns " + coqNs(d.Vals) + ")"
	case "float":
		bv = "(BFloat " + coqNs(d.Vals) + ")"
	default:
		bs := make([]bool, n)
		for i, v := range d.Vals {
			bs[i] = v == 1
		}
		bv = "(BBool " + coqBools(bs) + ")"
	}
	coq := fmt.Sprintf("CBlock %s %s %s %s %s", coqNs(d.Ts), bv, coqOptBytes(block, blockOK), hx.CoqBool(di), hx.CoqBool(da))
	o.Count("block:" + d.Typ)
	o.Emit(hx.Case{Kind: "block", Coq: coq, Desc: d, Obs: map[string]interface{}{"block_bytes": len(block), "decode_block_ok": di, "decode_array_ok": da},
		Nontrivial: n > 1, Sig: fmt.Sprintf("block:%s:%x:%x", d.Typ, hashU(d.Ts), hashU(d.Vals)), Origin: origin})
}

// ---------------------------------------------------------------- WAL entries

type kvDesc struct {
	Key  []byte   `json:"key"`
	Typ  string   `json:"typ"` // float int uns bool str
	Ts   []uint64 `json:"ts"`
	Nums []uint64 `json:"nums,omitempty"` // float bits / int / uns / bool 0|1
	Strs [][]byte `json:"strs,omitempty"`
}
type entryDesc struct {
	Kind string   `json:"kind"` // write | delete | delrange
	KVs  []kvDesc `json:"kvs,omitempty"`
	Keys [][]byte `json:"keys,omitempty"`
	Min  uint64   `json:"min,omitempty"`
	Max  uint64   `json:"max,omitempty"`
}

func (d entryDesc) build() tsm1.WALEntry {
	switch d.Kind {
	case "write":
		m := map[string][]tsm1.Value{}
		for _, kv := range d.KVs {
			vs := make([]tsm1.Value, len(kv.Ts))
			for i := range kv.Ts {
				t := int64(kv.Ts[i])
				switch kv.Typ {
				case "float":
					vs[i] = tsm1.NewFloatValue(t, math.Float64frombits(kv.Nums[i]))
				case "int":
					vs[i] = tsm1.NewIntegerValue(t, int64(kv.Nums[i]))
				case "uns":
					vs[i] = tsm1.NewUnsignedValue(t, kv.Nums[i])
				case "bool":
					vs[i] = tsm1.NewBooleanValue(t, kv.Nums[i] == 1)
				default:
					vs[i] = tsm1.NewStringValue(t, string(kv.Strs[i]))
				}
			}
			m[string(kv.Key)] = vs
		}
		return &tsm1.WriteWALEntry{Values: m}
	case "delete":
		return &tsm1.DeleteWALEntry{Keys: d.Keys}
	default:
		return &tsm1.DeleteRangeWALEntry{Keys: d.Keys, Min: int64(d.Min), Max: int64(d.Max)}
	}
}

func coqKeys(keys [][]byte) string {
	it := make([]string, len(keys))
	for i, k := range keys {
		it[i] = hx.CoqBytes(k)
	}
	return "[" + strings.Join(it, ";") + "]"
}

// canonical Coq term of an entry description (kvs sorted by key; duplicates: last wins, as in a map)
func (d entryDesc) coq() string {
	switch d.Kind {
	case "write":
		last := map[string]kvDesc{}
		for _, kv := range d.KVs {
			last[string(kv.Key)] = kv
		}
		keys := make([]string, 0, len(last))
		for k := range last {
			keys = append(keys, k)
		}
		sort.Strings(keys)
		it := make([]string, 0, len(keys))
		for _, k := range keys {
			kv := last[k]
			var vals []string
			for i := range kv.Ts {
				switch kv.Typ {
				case "bool":
					vals = append(vals, fmt.Sprintf("(%d,%s)", kv.Ts[i], hx.CoqBool(kv.Nums[i] == 1)))
				case "str":
					vals = append(vals, fmt.Sprintf("(%d,%s)", kv.Ts[i], hx.CoqBytes(kv.Strs[i])))
				default:
					vals = append(vals, fmt.Sprintf("(%d,%d)", kv.Ts[i], kv.Nums[i]))
				}
			}
			ctor := map[string]string{"float": "VFloat", "int": "VInt", "uns": "VUnsigned", "bool": "VBool", "str": "VString"}[kv.Typ]
			it = append(it, fmt.Sprintf("(%s, %s [%s])", hx.CoqBytes([]byte(k)), ctor, strings.Join(vals, ";")))
		}
		return "(EWrite [" + strings.Join(it, ";") + "])"
	case "delete":
		return "(EDelete " + coqKeys(d.Keys) + ")"
	default:
		return fmt.Sprintf("(EDeleteRange %d %d %s)", d.Min, d.Max, coqKeys(d.Keys))
	}
}

// describe a decoded real entry in the same vocabulary
func describe(e tsm1.WALEntry) (entryDesc, bool) {
	switch t := e.(type) {
	case *tsm1.WriteWALEntry:
		d := entryDesc{Kind: "write"}
		for k, vs := range t.Values {
			kv := kvDesc{Key: []byte(k)}
			for i, v := range vs {
				kv.Ts = append(kv.Ts, uint64(v.UnixNano()))
				var typ string
				switch x := v.Value().(type) {
				case float64:
					typ = "float"
					kv.Nums = append(kv.Nums, math.Float64bits(x))
				case int64:
					typ = "int"
					kv.Nums = append(kv.Nums, uint64(x))
				case uint64:
					typ = "uns"
					kv.Nums = append(kv.Nums, x)
				case bool:
					typ = "bool"
					if x {
						kv.Nums = append(kv.Nums, 1)
					} else {
						kv.Nums = append(kv.Nums, 0)
					}
				case string:
					typ = "str"
					kv.Strs = append(kv.Strs, []byte(x))
				default:
					return d, false
				}
				if i > 0 && typ != kv.Typ {
					return d, false
				}
				kv.Typ = typ
			}
			d.KVs = append(d.KVs, kv)
		}
		return d, true
	case *tsm1.DeleteWALEntry:
		return entryDesc{Kind: "delete", Keys: t.Keys}, true
	case *tsm1.DeleteRangeWALEntry:
		return entryDesc{Kind: "delrange", Keys: t.Keys, Min: uint64(t.Min), Max: uint64(t.Max)}, true
	}
	return entryDesc{}, false
}

func fresh(kind string) tsm1.WALEntry {
	switch kind {
	case "write":
		return &tsm1.WriteWALEntry{Values: map[string][]tsm1.Value{}}
	case "delete":
		return &tsm1.DeleteWALEntry{}
	default:
		return &tsm1.DeleteRangeWALEntry{}
	}
}

func genKey(r *hx.Rand, allowNL bool) []byte {
	n := 1 + r.Intn(12)
	if r.Chance(5) {
		n = 0
	}
	if r.Chance(3) {
		n = 200 + r.Intn(200)
	}
	k := make([]byte, n)
	for i := range k {
		switch r.Intn(6) {
		case 0:
			k[i] = byte(r.U64())
		case 1:
			k[i] = ","[0]
		default:
			k[i] = byte('a' + r.Intn(26))
		}
		if k[i] == '\n' && !allowNL {
			k[i] = 'n'
		}
	}
	return k
}

func genEntry(r *hx.Rand) entryDesc {
	switch r.Intn(10) {
	case 0, 1: // delete (legacy format; keys without newline, never a single empty key)
		d := entryDesc{Kind: "delete"}
		for i, n := 0, 1+r.Intn(4); i < n; i++ {
			k := genKey(r, false)
			if len(k) == 0 {
				k = []byte("k")
			}
			d.Keys = append(d.Keys, k)
		}
		return d
	case 2, 3:
		d := entryDesc{Kind: "delrange", Min: r.U64(), Max: r.U64()}
		if r.Chance(30) {
			d.Min, d.Max = 1<<63, math.MaxInt64
		}
		for i, n := 0, r.Intn(5); i < n; i++ {
			d.Keys = append(d.Keys, genKey(r, true))
		}
		return d
	default:
		d := entryDesc{Kind: "write"}
		seen := map[string]bool{}
		for i, n := 0, 1+r.Intn(3); i < n; i++ {
			kv := kvDesc{Key: genKey(r, true), Typ: []string{"float", "int", "uns", "bool", "str"}[r.Intn(5)]}
			if seen[string(kv.Key)] {
				continue
			}
			seen[string(kv.Key)] = true
			cnt := 1 + r.Intn(4)
			if r.Chance(5) {
				cnt = 20 + r.Intn(60)
			}
			for j := 0; j < cnt; j++ {
				kv.Ts = append(kv.Ts, r.U64()>>uint(r.Intn(64)))
				switch kv.Typ {
				case "bool":
					kv.Nums = append(kv.Nums, uint64(r.Intn(2)))
				case "str":
					s := r.Bytes(r.Intn(10))
					if r.Chance(10) {
						s = r.Bytes(100 + r.Intn(200))
					}
					kv.Strs = append(kv.Strs, s)
				case "float":
					v := r.U64()
					if isNaN(v) {
						v = 0x3FF0000000000000
					}
					kv.Nums = append(kv.Nums, v)
				default:
					kv.Nums = append(kv.Nums, r.U64()>>uint(r.Intn(64)))
				}
			}
			d.KVs = append(d.KVs, kv)
		}
		return d
	}
}

func runWalEntry(o *hx.Out, d entryDesc, origin string) {
	o.Begin("walentry", d)
	var payload []byte
	ok := false
	guard(func() {
		b, err := d.build().MarshalBinary()
		if err == nil {
			payload, ok = append([]byte{}, b...), true
		}
	})
	rt := 3
	if ok {
		guard(func() {
			e := fresh(d.Kind)
			if err := e.UnmarshalBinary(append([]byte{}, payload...)); err != nil {
				rt = 2
				return
			}
			got, okd := describe(e)
			if okd && got.coq() == d.coq() {
				rt = 0
			} else {
				rt = 1
			}
		})
	}
	coq := fmt.Sprintf("CWalEntry %s %s %d", d.coq(), coqOptBytes(payload, ok), rt)
	o.Count("walentry:" + d.Kind)
	o.Emit(hx.Case{Kind: "walentry", Coq: coq, Desc: d, Obs: map[string]interface{}{"payload_bytes": len(payload), "marshal_ok": ok, "rt": rt},
		Nontrivial: true, Sig: "we:" + d.coq(), Origin: origin})
	if !ok {
		return
	}
	// Encode(dst) into dirty destinations (what WAL.writeToLog does with pooled buffers). A
	// result that is not byte-identical to MarshalBinary's (a Go map may also be walked in
	// another order) is recorded as a case of its own, so the model judges it.
	for vi, db := range dirtyBufs(len(payload)) {
		var p2 []byte
		ok2 := false
		guard(func() {
			b, err := d.build().Encode(db)
			if err == nil {
				p2, ok2 = append([]byte{}, b...), true
			}
		})
		o.Count("walentry:encode_dirty_dst_checked")
		if ok2 && bytes.Equal(p2, payload) {
			continue
		}
		rt2 := 3
		if ok2 {
			guard(func() {
				e := fresh(d.Kind)
				if err := e.UnmarshalBinary(append([]byte{}, p2...)); err != nil {
					rt2 = 2
					return
				}
				got, okd := describe(e)
				if okd && got.coq() == d.coq() {
					rt2 = 0
				} else {
					rt2 = 1
				}
			})
		}
		o.Count("walentry:encode_dirty_dst_recorded")
		coq := fmt.Sprintf("CWalEntry %s %s %d", d.coq(), coqOptBytes(p2, ok2), rt2)
		o.Emit(hx.Case{Kind: "walentry", Coq: coq, Desc: d, Obs: map[string]interface{}{"payload_bytes": len(p2), "marshal_ok": ok2, "rt": rt2, "dirty_dst_variant": vi},
			Nontrivial: true, Sig: fmt.Sprintf("we-dirty%d:%s", vi, d.coq()), Origin: origin})
		break
	}
}

// one frame (typ, snappy(payload)) fed to the real WALSegmentReader
type unmDesc struct {
	Typ     byte   `json:"typ"`
	Payload []byte `json:"payload"`
}

type nopCloser struct{ io.Writer }

func (nopCloser) Close() error { return nil }

func runWalUnm(o *hx.Out, d unmDesc, origin string) {
	o.Begin("walunm", d)
	comp := snappy.Encode(nil, d.Payload)
	seg := append([]byte{d.Typ, 0, 0, 0, 0}, comp...)
	binary.BigEndian.PutUint32(seg[1:5], uint32(len(comp)))
	cls := 3
	ent := "None"
	guard(func() {
		r := tsm1.NewWALSegmentReader(io.NopCloser(bytes.NewReader(seg)))
		if !r.Next() {
			cls = 2
			return
		}
		e, err := r.Read()
		if err == tsm1.ErrWALCorrupt {
			cls = 1
			return
		}
		if err != nil {
			cls = 2
			return
		}
		got, okd := describe(e)
		if !okd {
			cls = 2
			return
		}
		cls = 0
		ent = "(Some " + got.coq() + ")"
	})
	if cls != 0 {
		ent = "None"
	}
	coq := fmt.Sprintf("CWalUnm %d %s %d %s", d.Typ, hx.CoqBytes(d.Payload), cls, ent)
	o.Count(fmt.Sprintf("walunm:typ=%d:cls=%d", d.Typ, cls))
	o.Emit(hx.Case{Kind: "walunm", Coq: coq, Desc: d, Obs: map[string]interface{}{"cls": cls},
		Nontrivial: len(d.Payload) > 0, Sig: fmt.Sprintf("wu:%d:%x", d.Typ, d.Payload), Origin: origin})
}

func genUnm(r *hx.Rand) unmDesc {
	e := genEntry(r)
	typ := map[string]byte{"write": 1, "delete": 2, "delrange": 3}[e.Kind]
	var p []byte
	guard(func() { p, _ = e.build().MarshalBinary() })
	p = append([]byte{}, p...)
	switch r.Intn(8) {
	case 0: // untouched
	case 1, 2: // truncated
		if len(p) > 0 {
			p = p[:r.Intn(len(p))]
		}
	case 3, 4: // one byte changed (lengths, counts, types)
		if len(p) > 0 {
			i := r.Intn(len(p))
			if r.Chance(50) && len(p) > 8 {
				i = r.Intn(8)
			}
			p[i] = []byte{0, 1, 2, 3, 4, 5, 6, 255, byte(r.U64())}[r.Intn(9)]
		}
	case 5: // extra bytes
		p = append(p, r.Bytes(1+r.Intn(20))...)
	case 6: // random
		p = r.Bytes(r.Intn(40))
	default: // wrong / unknown entry type
		typ = []byte{0, 1, 2, 3, 4, 255}[r.Intn(6)]
	}
	return unmDesc{Typ: typ, Payload: p}
}

// ---------------------------------------------------------------- WAL cuts

type cutDesc struct {
	Entries []entryDesc `json:"entries"`
	Cuts    []int       `json:"cuts,omitempty"` // empty = every offset
	ViaWAL  bool        `json:"via_wal,omitempty"` // write through the real tsm1.WAL (pooled buffers, real segment file)
	Ends    bool        `json:"ends,omitempty"`    // cuts = frame boundaries +-4 only
}

// writeViaWAL pushes the entries through WAL.WriteMulti / Delete / DeleteRange and returns
// the bytes of the segment file.
func writeViaWAL(d cutDesc) ([]byte, error) {
	dir, err := os.MkdirTemp("", "h_c13_wal")
	if err != nil {
		return nil, err
	}
	defer os.RemoveAll(dir)
	w := tsm1.NewWAL(dir)
	if err := w.Open(); err != nil {
		return nil, err
	}
	for _, ed := range d.Entries {
		switch e := ed.build().(type) {
		case *tsm1.WriteWALEntry:
			_, err = w.WriteMulti(e.Values)
		case *tsm1.DeleteWALEntry:
			_, err = w.Delete(e.Keys)
		case *tsm1.DeleteRangeWALEntry:
			_, err = w.DeleteRange(e.Keys, e.Min, e.Max)
		}
		if err != nil {
			w.Close()
			return nil, err
		}
	}
	if err := w.Close(); err != nil {
		return nil, err
	}
	names, _ := filepath.Glob(filepath.Join(dir, "*.wal"))
	sort.Strings(names)
	var all []byte
	for _, n := range names {
		b, err := os.ReadFile(n)
		if err != nil {
			return nil, err
		}
		all = append(all, b...)
	}
	return all, nil
}

func runWalCut(o *hx.Out, d cutDesc, origin string) {
	o.Begin("walcut", d)
	var tbl []string
	var ends []int
	var segb []byte
	if d.ViaWAL {
		// WAL.Delete / WAL.DeleteRange return without logging anything when given no keys
		var kept []entryDesc
		for _, ed := range d.Entries {
			if ed.Kind != "write" && len(ed.Keys) == 0 {
				o.Count("walcut:via_wal_keyless_delete_not_logged")
				continue
			}
			kept = append(kept, ed)
		}
		d.Entries = kept
	}
	want := make([]string, len(d.Entries))
	for i, ed := range d.Entries {
		want[i] = ed.coq()
	}
	if d.ViaWAL {
		var err error
		var panicked bool
		panicked = guard(func() { segb, err = writeViaWAL(d) })
		if panicked || err != nil {
			o.Count("walcut:via_wal_write_failed")
			return
		}
		// independent frame parse of the real file: (payload, compressed) per frame
		for off := 0; off+5 <= len(segb); {
			l := int(binary.BigEndian.Uint32(segb[off+1 : off+5]))
			if off+5+l > len(segb) {
				break
			}
			comp := segb[off+5 : off+5+l]
			p, err := snappy.Decode(nil, comp)
			if err != nil {
				break
			}
			tbl = append(tbl, fmt.Sprintf("(%s,%s)", coqB(p), coqB(comp)))
			off += 5 + l
			ends = append(ends, off)
		}
	} else {
		var seg bytes.Buffer
		w := tsm1.NewWALSegmentWriter(nopCloser{&seg})
		for i, ed := range d.Entries {
			var p []byte
			if guard(func() {
				if i%2 == 0 {
					p, _ = ed.build().MarshalBinary()
				} else { // every other entry through Encode into a dirty, larger-than-needed buffer
					e := ed.build()
					p, _ = e.Encode(filled(e.MarshalSize()+23, 0xFF))
				}
			}) {
				return // entry outside the encoder's domain: not a log the WAL can contain
			}
			comp := snappy.Encode(nil, p)
			e := ed.build()
			if err := w.Write(e.Type(), comp); err != nil {
				panic(err)
			}
			tbl = append(tbl, fmt.Sprintf("(%s,%s)", coqB(p), coqB(comp)))
			prev := 0
			if len(ends) > 0 {
				prev = ends[len(ends)-1]
			}
			ends = append(ends, prev+5+len(comp))
		}
		w.Flush()
		segb = append([]byte{}, seg.Bytes()...)
	}
	cuts := d.Cuts
	if d.Ends {
		set := map[int]bool{0: true, len(segb): true}
		prev := 0
		for _, e := range ends {
			for dlt := -4; dlt <= 4; dlt++ {
				set[e+dlt] = true
			}
			set[prev+5] = true
			prev = e
		}
		cuts = nil
		for c := range set {
			if c >= 0 && c <= len(segb) {
				cuts = append(cuts, c)
			}
		}
		sort.Ints(cuts)
	} else if len(cuts) == 0 {
		for c := 0; c <= len(segb); c++ {
			cuts = append(cuts, c)
		}
	}
	// The entries of every read are RETAINED (as CacheLoader.Load hands them to the cache) and
	// only compared after all reads are done, i.e. after the reader and its buffer pool have
	// been reused many times. Two reads out of three go through ONE reader that is Reset
	// between segments (Count() must restart at 0), every third uses a fresh reader.
	type cutRes struct {
		c        int
		errd     bool
		panicked bool
		n        int64
		ents     []tsm1.WALEntry
	}
	var results []cutRes
	var shared *tsm1.WALSegmentReader
	for ci, c := range cuts {
		if c < 0 || c > len(segb) {
			continue
		}
		res := cutRes{c: c}
		res.panicked = guard(func() {
			rc := io.NopCloser(bytes.NewReader(segb[:c]))
			var r *tsm1.WALSegmentReader
			if ci%3 == 0 {
				r = tsm1.NewWALSegmentReader(rc)
			} else {
				if shared == nil {
					shared = tsm1.NewWALSegmentReader(rc)
				} else {
					shared.Reset(rc)
				}
				r = shared
				o.Count("walcut:reads_with_reused_reader")
			}
			for r.Next() {
				e, err := r.Read()
				if err != nil {
					res.errd = true
					break
				}
				res.ents = append(res.ents, e)
			}
			res.n = r.Count()
		})
		if res.panicked {
			shared = nil
		}
		results = append(results, res)
	}
	var obs []string
	allOK := true
	for _, res := range results {
		c, k, prefixOK := res.c, len(res.ents), true
		for i, e := range res.ents {
			got, okd := describe(e)
			if !okd || i >= len(want) || got.coq() != want[i] {
				prefixOK = false
			}
		}
		// expected: complete frames before the cut
		j := 0
		for j < len(ends) && ends[j] <= c {
			j++
		}
		expN := 0
		if j > 0 {
			expN = ends[j-1]
		}
		if res.panicked || !prefixOK || k != j || int(res.n) != expN || res.errd != (expN != c) {
			allOK = false
		}
		obs = append(obs, fmt.Sprintf("co %d %d %s %d %s %s", c, k, hx.CoqBool(res.errd), res.n, hx.CoqBool(res.panicked), hx.CoqBool(prefixOK)))
	}
	ents := make([]string, len(d.Entries))
	for i, ed := range d.Entries {
		ents[i] = ed.coq()
	}
	coq := fmt.Sprintf("CWalCut [%s] [%s] %s [%s]", strings.Join(ents, ";"), strings.Join(tbl, ";"), coqB(segb), strings.Join(obs, ";"))
	o.Count(fmt.Sprintf("walcut:entries<=%d", bucket(len(d.Entries))))
	if d.ViaWAL {
		o.Count("walcut:via_real_WAL")
	}
	o.Stats["walcut:truncations"] += len(obs)
	o.Emit(hx.Case{Kind: "walcut", Coq: coq, Desc: d, Obs: map[string]interface{}{"segment_bytes": len(segb), "truncations": len(obs), "all_prefix_replays": allOK},
		Nontrivial: len(d.Entries) > 0, Sig: fmt.Sprintf("wc:%x:%d", segb, len(obs)), Origin: origin})
}

func smallEntry(r *hx.Rand) entryDesc {
	for {
		e := genEntry(r)
		sz := 0
		for _, kv := range e.KVs {
			sz += len(kv.Key) + 16*len(kv.Ts)
			for _, s := range kv.Strs {
				sz += len(s)
			}
		}
		for _, k := range e.Keys {
			sz += len(k)
		}
		if sz < 120 {
			return e
		}
	}
}

func genCut(r *hx.Rand, long bool) cutDesc {
	var d cutDesc
	if !long {
		for i, n := 0, 1+r.Intn(4); i < n; i++ {
			d.Entries = append(d.Entries, smallEntry(r))
		}
		return d // every offset
	}
	for i, n := 0, 8+r.Intn(16); i < n; i++ {
		d.Entries = append(d.Entries, smallEntry(r))
	}
	// cuts at frame boundaries +-3: computed from the real frame lengths
	off := 0
	set := map[int]bool{0: true}
	for _, ed := range d.Entries {
		var p []byte
		guard(func() { p, _ = ed.build().MarshalBinary() })
		off += 5 + len(snappy.Encode(nil, p))
		for dlt := -3; dlt <= 3; dlt++ {
			set[off+dlt] = true
		}
		set[off-len(snappy.Encode(nil, p))] = true // just after the header
	}
	for c := range set {
		if c >= 0 && c <= off {
			d.Cuts = append(d.Cuts, c)
		}
	}
	sort.Ints(d.Cuts)
	return d
}


// sameLayout returns an entry with the same byte layout as e whose values are all "low"
// (false / 0 / zero bytes): written after e through a recycled buffer, any byte the encoder
// forgets to store shows up as e's old byte.
func sameLayout(e entryDesc, high bool) entryDesc {
	n := entryDesc{Kind: e.Kind, Min: e.Min, Max: e.Max}
	fill := func(k []byte) []byte {
		c := make([]byte, len(k))
		for i := range c {
			if high {
				c[i] = 0xFF
			} else {
				c[i] = 'a' // keys stay distinct per position below
			}
		}
		return c
	}
	for _, k := range e.Keys {
		n.Keys = append(n.Keys, append([]byte{}, k...))
	}
	if !high && e.Kind == "delrange" {
		n.Min, n.Max = 0, 0
	}
	for _, kv := range e.KVs {
		c := kvDesc{Key: append([]byte{}, kv.Key...), Typ: kv.Typ}
		for i := range kv.Ts {
			if high {
				c.Ts = append(c.Ts, ^uint64(0)>>1)
			} else {
				c.Ts = append(c.Ts, 0)
			}
			switch kv.Typ {
			case "bool":
				if high {
					c.Nums = append(c.Nums, 1)
				} else {
					c.Nums = append(c.Nums, 0)
				}
			case "str":
				c.Strs = append(c.Strs, fill(kv.Strs[i]))
				if !high {
					for q := range c.Strs[i] {
						c.Strs[i][q] = 0
					}
				}
			case "float":
				if high {
					c.Nums = append(c.Nums, 0xFFEFFFFFFFFFFFFF)
				} else {
					c.Nums = append(c.Nums, 0)
				}
			default:
				if high {
					c.Nums = append(c.Nums, ^uint64(0))
				} else {
					c.Nums = append(c.Nums, 0)
				}
			}
		}
		n.KVs = append(n.KVs, c)
	}
	return n
}

// genWalPath: logs written through the real WAL. Each base entry is followed by entries of
// the same layout with all-high, all-low and flipped values, so a recycled pool buffer always
// holds different bytes at the same positions.
func genWalPath(r *hx.Rand) cutDesc {
	d := cutDesc{ViaWAL: true, Ends: true}
	for i, n := 0, 1+r.Intn(3); i < n; i++ {
		base := smallEntry(r)
		if base.Kind == "write" && r.Chance(60) { // bias to booleans: one byte per value
			for j := range base.KVs {
				if r.Chance(60) {
					kv := &base.KVs[j]
					kv.Typ, kv.Strs, kv.Nums = "bool", nil, nil
					for range kv.Ts {
						kv.Nums = append(kv.Nums, uint64(r.Intn(2)))
					}
				}
			}
		}
		d.Entries = append(d.Entries, sameLayout(base, true), base, sameLayout(base, false), sameLayout(base, true), sameLayout(base, false))
		if r.Chance(50) {
			d.Entries = append(d.Entries, base)
		}
	}
	return d
}


// ---------------------------------------------------------------- CacheLoader.Load over several segment files

type loadSegDesc struct {
	Entries []entryDesc `json:"entries"`
	Cut     int         `json:"cut"` // -1 = not torn; otherwise clipped to the segment length
}
type loadDesc struct {
	Segs []loadSegDesc `json:"segs"`
}

func runWalLoad(o *hx.Out, d loadDesc, origin string) {
	o.Begin("walload", d)
	dir, err := os.MkdirTemp("", "h_c13_load")
	if err != nil {
		panic(err)
	}
	defer os.RemoveAll(dir)
	var files []string
	type segInfo struct {
		tbl  []string
		segb []byte
		cut  int
	}
	var infos []segInfo
	for si, sd := range d.Segs {
		var seg bytes.Buffer
		w := tsm1.NewWALSegmentWriter(nopCloser{&seg})
		var info segInfo
		for _, ed := range sd.Entries {
			var p []byte
			if guard(func() { p, _ = ed.build().MarshalBinary() }) {
				return
			}
			comp := snappy.Encode(nil, p)
			if err := w.Write(ed.build().Type(), comp); err != nil {
				panic(err)
			}
			info.tbl = append(info.tbl, fmt.Sprintf("(%s,%s)", coqB(p), coqB(comp)))
		}
		w.Flush()
		info.segb = append([]byte{}, seg.Bytes()...)
		info.cut = sd.Cut
		if info.cut < 0 || info.cut > len(info.segb) {
			info.cut = len(info.segb)
		}
		fn := filepath.Join(dir, fmt.Sprintf("_%05d.wal", si+1))
		if err := os.WriteFile(fn, info.segb[:info.cut], 0666); err != nil {
			panic(err)
		}
		files = append(files, fn)
		infos = append(infos, info)
	}
	loadErr := false
	panicked := guard(func() {
		cache := tsm1.NewCache(1 << 30)
		if err := tsm1.NewCacheLoader(files).Load(cache); err != nil {
			loadErr = true
		}
	})
	var segs []string
	sizes := []int64{}
	for i, info := range infos {
		st, err := os.Stat(files[i])
		sz := int64(-1)
		if err == nil {
			sz = st.Size()
		}
		if sz < 0 {
			sz = 1 << 40
		}
		sizes = append(sizes, sz)
		segs = append(segs, fmt.Sprintf("ls [%s] %s %d %d", strings.Join(info.tbl, ";"), coqB(info.segb), info.cut, sz))
	}
	coq := fmt.Sprintf("CWalLoad [%s] %s %s", strings.Join(segs, ";"), hx.CoqBool(loadErr), hx.CoqBool(panicked))
	o.Count(fmt.Sprintf("walload:segments=%d", len(d.Segs)))
	o.Emit(hx.Case{Kind: "walload", Coq: coq, Desc: d, Obs: map[string]interface{}{"load_err": loadErr, "panicked": panicked, "sizes_after": sizes},
		Nontrivial: true, Sig: fmt.Sprintf("wl:%x", hashBytes([][]byte{[]byte(coq)})), Origin: origin})
}

// entries for a loader run: keys made unique per (segment, entry, type) so that the cache
// never sees two types under one key (that is C02's business, not the log format's)
func genLoad(r *hx.Rand) loadDesc {
	var d loadDesc
	nseg := 2 + r.Intn(2)
	for si := 0; si < nseg; si++ {
		var sd loadSegDesc
		for ei, n := 0, 1+r.Intn(3); ei < n; ei++ {
			e := smallEntry(r)
			for j := range e.KVs {
				e.KVs[j].Key = []byte(fmt.Sprintf("k%d.%d.%d.%s", si, ei, j, e.KVs[j].Typ))
			}
			sd.Entries = append(sd.Entries, e)
		}
		sd.Cut = -1
		if si == nseg-1 || r.Chance(25) {
			sd.Cut = r.Intn(400) // clipped to the segment length
			if r.Chance(40) {
				sd.Cut = []int{1, 2, 3, 4, 5, 6, 7}[r.Intn(7)]
			}
		}
		d.Segs = append(d.Segs, sd)
	}
	return d
}

// ---------------------------------------------------------------- very long strings

type bigDesc struct {
	Lens []int  `json:"lens"`
	Seed uint64 `json:"seed"`
}

func runBig(o *hx.Out, d bigDesc, origin string) {
	o.Begin("big", d)
	r := hx.NewRand(d.Seed)
	in := make([]string, len(d.Lens))
	for i, l := range d.Lens {
		b := make([]byte, l)
		for q := 0; q < l; q += 8 {
			v := r.U64()
			for z := 0; z < 8 && q+z < l; z++ {
				b[q+z] = byte(v >> (8 * uint(z)))
			}
		}
		in[i] = string(b)
	}
	h := uint64(1469598103934665603)
	for _, s := range in {
		for q := 0; q < len(s); q += 4099 {
			h = (h ^ uint64(s[q])) * 1099511628211
		}
	}
	same := func(got []string) bool {
		if len(got) != len(in) {
			return false
		}
		for i := range got {
			if got[i] != in[i] {
				return false
			}
		}
		return true
	}
	// class of one encoder followed by BOTH decoders: 0 exact, 1 differ, 2 error, 3 panic
	run := func(enc func() ([]byte, error)) int {
		cls := 0
		if guard(func() {
			b, err := enc()
			if err != nil {
				cls = 2
				return
			}
			b = append([]byte{}, b...)
			var dec tsm1.StringDecoder
			if err := dec.SetBytes(b); err != nil {
				cls = 2
				return
			}
			var got []string
			for dec.Next() {
				got = append(got, dec.Read())
			}
			if dec.Error() != nil {
				cls = 2
				return
			}
			got2, err := tsm1.StringArrayDecodeAll(b, nil)
			if err != nil {
				cls = 2
				return
			}
			if !same(got) || !same(got2) {
				cls = 1
			}
		}) {
			cls = 3
		}
		return cls
	}
	ci := run(func() ([]byte, error) {
		e := tsm1.NewStringEncoder(16)
		for _, s := range in {
			e.Write(s)
		}
		return e.Bytes()
	})
	cb := run(func() ([]byte, error) { return tsm1.StringArrayEncodeAll(in, nil) })
	ls := make([]uint64, len(d.Lens))
	for i, l := range d.Lens {
		ls[i] = uint64(l)
	}
	coq := fmt.Sprintf("CBig %s %d %d %d", hx.CoqNList(ls), h, ci, cb)
	o.Count("big:strings")
	o.Emit(hx.Case{Kind: "big", Coq: coq, Desc: d, Obs: map[string]interface{}{"iter_class": ci, "batch_class": cb},
		Nontrivial: true, Sig: fmt.Sprintf("big:%v:%d", d.Lens, d.Seed), Origin: origin})
}

// ---------------------------------------------------------------- main

func designed(o *hx.Out) {
	// every divisor exponent, RLE and packed
	for k := 0; k <= 12; k++ {
		base := uint64(1600000000000000000)
		var rle, pk []uint64
		for i := 0; i < 6; i++ {
			rle = append(rle, base+uint64(i)*3*pow10[k])
		}
		pk = append(pk, base, base+pow10[k], base+3*pow10[k], base+4*pow10[k], base+9*pow10[k])
		runTime(o, seqDesc{Vals: rle}, "designed")
		runTime(o, seqDesc{Vals: pk}, "designed")
	}
	ones := func(n int, tail ...uint64) []uint64 {
		v := make([]uint64, n)
		for i := range v {
			v[i] = 1
		}
		return append(v, tail...)
	}
	for _, n := range []int{59, 60, 61, 119, 120, 121, 239, 240, 241, 360, 480, 481} {
		for ti, tail := range [][]uint64{nil, {2}, {1, 1, 7}, {1 << 59}} {
			runS8b(o, seqDesc{Vals: ones(n, tail...)}, "designed")
			runS8b(o, seqDesc{Vals: append(append([]uint64{}, tail...), ones(n)...)}, "designed")
			if n > 241 && ti > 1 || n < 119 && ti > 1 {
				continue
			}
			// timestamps with deltas 1 (zig-zag of -1 is 1 for integers)
			ts := []uint64{1000}
			iv := []uint64{5}
			for _, c := range ones(n, tail...) {
				ts = append(ts, ts[len(ts)-1]+c)
				iv = append(iv, iv[len(iv)-1]+uint64(zzDec(c)))
			}
			runTime(o, seqDesc{Vals: ts}, "designed")
			runInt(o, seqDesc{Vals: iv, Uns: ti%2 == 1}, "designed")
		}
	}
	for _, v := range []uint64{0, 1, 1<<60 - 2, 1<<60 - 1, 1 << 60, 1<<60 + 1, 1 << 63, ^uint64(0)} {
		runS8b(o, seqDesc{Vals: []uint64{v}}, "designed")
		runS8b(o, seqDesc{Vals: []uint64{3, v, 3}}, "designed")
		runTime(o, seqDesc{Vals: []uint64{v}}, "designed")
		runTime(o, seqDesc{Vals: []uint64{7, 7 + v, 9 + v}}, "designed")
		runTime(o, seqDesc{Vals: []uint64{7, 7 + v, 7 + 2*v}}, "designed")
		runInt(o, seqDesc{Vals: []uint64{v}}, "designed")
		runInt(o, seqDesc{Vals: []uint64{v, 5}}, "designed")
		runInt(o, seqDesc{Vals: []uint64{5, v, 5}}, "designed")
		runInt(o, seqDesc{Vals: []uint64{uint64(zzDec(v))}, Uns: true}, "designed")
		runInt(o, seqDesc{Vals: []uint64{9, 9 + uint64(zzDec(v)), 9 + 2*uint64(zzDec(v)), 9 + 3*uint64(zzDec(v))}}, "designed")
		runInt(o, seqDesc{Vals: []uint64{9, 9 + uint64(zzDec(v)), 9, 12}}, "designed")
	}
	runS8b(o, seqDesc{}, "designed")
	// a gap above 2^60 (raw branch) among deltas that share a factor of ten and are not all equal
	runTime(o, seqDesc{Vals: []uint64{0, 1600000000000000000, 1600000001000000000, 1600000003000000000}}, "designed")
	runTime(o, seqDesc{Vals: []uint64{1000, 1600000000000, 1600000060000, 3600000000000001000}}, "designed")
	runTime(o, seqDesc{}, "designed")
	runInt(o, seqDesc{}, "designed")
	runFloat(o, seqDesc{}, "designed")
	for n := 0; n <= 17; n++ {
		t, f := make([]bool, n), make([]bool, n)
		for i := range t {
			t[i] = true
		}
		runBool(o, boolDesc{Vals: t}, "designed")
		runBool(o, boolDesc{Vals: f}, "designed")
	}
	runStr(o, strDesc{}, "designed")
	runStr(o, strDesc{Vals: [][]byte{{}}}, "designed")
	runStr(o, strDesc{Vals: [][]byte{{}, {}, []byte("a"), {}}}, "designed")
	runStr(o, strDesc{Vals: [][]byte{bytes.Repeat([]byte("x"), 127), bytes.Repeat([]byte("y"), 128), bytes.Repeat([]byte("z"), 129)}}, "designed")
	for _, a := range floatSpecials {
		if isNaN(a) {
			runFloat(o, seqDesc{Vals: []uint64{a}}, "designed")
			runFloat(o, seqDesc{Vals: []uint64{0x3FF0000000000000, a}}, "designed")
			continue
		}
		runFloat(o, seqDesc{Vals: []uint64{a}}, "designed")
		for bi, b := range floatSpecials {
			if bi%2 == 1 && b != 0xFFF0000000000000 {
				continue
			}
			if isNaN(b) || (a|b)&0x7FFFFFFFFFFFFFFF == 0x7FF0000000000000 && a != b && (a&b)&0x7FF0000000000000 == 0x7FF0000000000000 {
				continue
			}
			runFloat(o, seqDesc{Vals: []uint64{a, b}}, "designed")
			runFloat(o, seqDesc{Vals: []uint64{a, b, a, a, b}}, "designed")
		}
	}
	// WAL: out-of-domain entries the encoder cannot take, and the plain ones
	runWalEntry(o, entryDesc{Kind: "delete"}, "designed")
	runWalEntry(o, entryDesc{Kind: "delete", Keys: [][]byte{[]byte("cpu,host=a#!~#v")}}, "designed")
	runWalEntry(o, entryDesc{Kind: "delete", Keys: [][]byte{{}, {}}}, "designed")
	runWalEntry(o, entryDesc{Kind: "delrange"}, "designed")
	runWalEntry(o, entryDesc{Kind: "write"}, "designed")
	runWalEntry(o, entryDesc{Kind: "write", KVs: []kvDesc{{Key: []byte("k"), Typ: "int"}}}, "designed")
	runWalEntry(o, entryDesc{Kind: "write", KVs: []kvDesc{{Key: []byte("k"), Typ: "bool", Ts: []uint64{1, 2}, Nums: []uint64{1, 0}}}}, "designed")
	// the real write path: the same boolean field true, then false, then mixed (pooled buffers)
	bkv := func(vals ...uint64) entryDesc {
		ts := make([]uint64, len(vals))
		for i := range ts {
			ts[i] = uint64(1000 + i)
		}
		return entryDesc{Kind: "write", KVs: []kvDesc{{Key: []byte("cpu,host=a#!~#on"), Typ: "bool", Ts: ts, Nums: vals}}}
	}
	runWalCut(o, cutDesc{ViaWAL: true, Ends: true, Entries: []entryDesc{bkv(1, 1, 1, 1), bkv(0, 0, 0, 0), bkv(1, 0, 1, 0), bkv(0, 1, 0, 1), bkv(0, 0, 0, 0)}}, "designed")
	runWalCut(o, cutDesc{ViaWAL: true, Ends: true, Entries: []entryDesc{
		{Kind: "delrange", Keys: [][]byte{[]byte("cpu,host=a#!~#on")}, Min: ^uint64(0) >> 1, Max: ^uint64(0) >> 1},
		{Kind: "delrange", Keys: [][]byte{[]byte("cpu,host=a#!~#on")}, Min: 0, Max: 0},
		{Kind: "delete", Keys: [][]byte{[]byte("cpu,host=a#!~#on"), []byte("mem")}},
		{Kind: "delete", Keys: [][]byte{[]byte("aaaaaaaaaaaaaaaa"), []byte("mem")}}}}, "designed")
	// very long strings: the model is not evaluated at these sizes (implementation-only verdict)
	for _, l := range []int{1<<14 - 1, 1 << 14, 1<<21 - 1, 1 << 21, 1<<21 + 1} {
		runBig(o, bigDesc{Lens: []int{l}, Seed: uint64(l)}, "designed")
		runBig(o, bigDesc{Lens: []int{3, l, 0, 5}, Seed: uint64(l) + 1}, "designed")
	}
	runBig(o, bigDesc{Lens: []int{1<<21 + 7, 1 << 21, 1<<21 + 100000}, Seed: 99}, "designed")
	// two write entries with string values followed by more entries: values must survive the
	// decoding of later entries (they are retained until the whole segment has been read)
	skv := func(k string, strs ...string) entryDesc {
		kv := kvDesc{Key: []byte(k), Typ: "str"}
		for i, x := range strs {
			kv.Ts = append(kv.Ts, uint64(10+i))
			kv.Strs = append(kv.Strs, []byte(x))
		}
		return entryDesc{Kind: "write", KVs: []kvDesc{kv}}
	}
	strLog := []entryDesc{skv("s1", "alpha-alpha-alpha", "beta"), skv("s2", "GAMMA-GAMMA-GAMMA", "DELT"), skv("s3", "epsilon-epsilon-ep", "zeta"),
		{Kind: "delete", Keys: [][]byte{[]byte("s1"), []byte("s2")}}, {Kind: "delrange", Keys: [][]byte{[]byte("s3")}, Min: 1, Max: 2}, skv("s4", "eta-eta-eta-eta-et", "thet")}
	runWalCut(o, cutDesc{Entries: strLog, Ends: true}, "designed")
	runWalCut(o, cutDesc{Entries: strLog, Ends: true, ViaWAL: true}, "designed")
	runWalLoad(o, loadDesc{Segs: []loadSegDesc{{Entries: strLog[:3], Cut: -1}, {Entries: strLog[3:], Cut: -1}, {Entries: strLog[:2], Cut: 30}}}, "designed")
	runWalLoad(o, loadDesc{Segs: []loadSegDesc{{Entries: strLog[:2], Cut: -1}, {Entries: strLog[:2], Cut: 3}}}, "designed")
	for typ := 0; typ <= 5; typ++ {
		runWalUnm(o, unmDesc{Typ: byte(typ)}, "designed")
		runWalUnm(o, unmDesc{Typ: byte(typ), Payload: []byte{1, 0, 1, 'k', 0, 0, 0, 1, 0, 0, 0, 0, 0, 0, 0, 5, 0, 0, 0, 0, 0, 0, 0, 9}}, "designed")
		runWalUnm(o, unmDesc{Typ: byte(typ), Payload: []byte{3, 0, 1, 'k', 255, 255, 255, 255, 0, 0, 0, 0, 0, 0, 0, 5, 2}}, "designed")
		runWalUnm(o, unmDesc{Typ: byte(typ), Payload: []byte{4, 0, 1, 'k', 0, 0, 0, 1, 0, 0, 0, 0, 0, 0, 0, 5, 255, 255, 255, 255, 1}}, "designed")
	}
}

func main() {
	f := hx.ParseFlags()
	o := hx.NewOut(f.OutDir)
	defer o.Close()

	if f.In != "" {
		for _, in := range hx.ReadInputs(f.In) {
			switch in.Kind {
			case "s8b", "time", "int", "float":
				var d seqDesc
				json.Unmarshal(in.Desc, &d)
				map[string]func(*hx.Out, seqDesc, string){"s8b": runS8b, "time": runTime, "int": runInt, "float": runFloat}[in.Kind](o, d, "replay")
			case "bool":
				var d boolDesc
				json.Unmarshal(in.Desc, &d)
				runBool(o, d, "replay")
			case "str":
				var d strDesc
				json.Unmarshal(in.Desc, &d)
				runStr(o, d, "replay")
			case "block":
				var d blockDesc
				json.Unmarshal(in.Desc, &d)
				runBlock(o, d, "replay")
			case "walentry":
				var d entryDesc
				json.Unmarshal(in.Desc, &d)
				runWalEntry(o, d, "replay")
			case "walunm":
				var d unmDesc
				json.Unmarshal(in.Desc, &d)
				runWalUnm(o, d, "replay")
			case "walcut":
				var d cutDesc
				json.Unmarshal(in.Desc, &d)
				runWalCut(o, d, "replay")
			case "walload":
				var d loadDesc
				json.Unmarshal(in.Desc, &d)
				runWalLoad(o, d, "replay")
			case "big":
				var d bigDesc
				json.Unmarshal(in.Desc, &d)
				runBig(o, d, "replay")
			}
		}
		return
	}

	r := hx.NewRand(f.Seed)
	designed(o)
	for i := 0; i < f.N; i++ {
		switch i % 20 {
		case 0, 1, 2, 3:
			runTime(o, seqDesc{Vals: genTimeSeq(r)}, "gen")
		case 4, 5, 6:
			runInt(o, seqDesc{Vals: genIntSeq(r), Uns: i%40 >= 20}, "gen")
		case 7, 8:
			runS8b(o, seqDesc{Vals: genCodes(r, genLen(r))}, "gen")
		case 9:
			n := genLen(r)
			v := make([]bool, n)
			p := 1 + r.Intn(99)
			for j := range v {
				v[j] = r.Chance(p)
			}
			runBool(o, boolDesc{Vals: v}, "gen")
		case 10:
			n := r.Intn(12)
			if r.Chance(10) {
				n = 60 + r.Intn(80) // more than the 64-slot initial dst of StringArrayDecodeAll
			}
			var v [][]byte
			for j := 0; j < n; j++ {
				l := r.Intn(20)
				if r.Chance(8) {
					l = []int{0, 127, 128, 129, 300, 2000}[r.Intn(6)]
				}
				if f.Tier == "thorough" && j == 0 && i%4000 == 10 {
					l = 65536 // a 64 KiB string now and then
				}
				s := r.Bytes(l)
				if r.Chance(50) {
					for q := range s {
						s[q] = byte('a' + s[q]%4)
					}
				}
				v = append(v, s)
			}
			runStr(o, strDesc{Vals: v}, "gen")
		case 11, 12:
			runFloat(o, seqDesc{Vals: genFloatSeq(r)}, "gen")
		case 13:
			ts := genTimeSeq(r)
			if len(ts) == 0 {
				ts = []uint64{1}
			}
			if len(ts) > 300 {
				ts = ts[:300]
			}
			typ := []string{"int", "uns", "float", "bool"}[r.Intn(4)]
			var vals []uint64
			switch typ {
			case "float":
				vals = genFloatSeq(r)
				for j := range vals {
					if isNaN(vals[j]) {
						vals[j] = 0
					}
				}
			case "bool":
				for range ts {
					vals = append(vals, uint64(r.Intn(2)))
				}
			default:
				vals = genIntSeq(r)
			}
			for len(vals) < len(ts) {
				vals = append(vals, uint64(len(vals)))
			}
			runBlock(o, blockDesc{Typ: typ, Ts: ts, Vals: vals[:len(ts)]}, "gen")
		case 14, 15:
			runWalEntry(o, genEntry(r), "gen")
		case 16:
			runWalUnm(o, genUnm(r), "gen")
		case 17:
			if i%40 == 17 {
				runWalUnm(o, genUnm(r), "gen")
			} else {
				runWalLoad(o, genLoad(r), "gen")
			}
		case 18:
			runWalCut(o, genCut(r, false), "gen")
		default:
			if i%40 == 19 {
				runWalCut(o, genCut(r, i%80 == 19), "gen")
			} else {
				runWalCut(o, genWalPath(r), "gen")
			}
		}
	}
}


// The batch decoders and Decode<T>ArrayBlock take a destination the caller REUSES (the array
// cursors keep one tsdb.<T>Array for all blocks): what it held before must not show through.
// Every call gets a destination of generous length filled with values no test data uses.
const dirtyLen = 1500

func dirtyI64() []int64 {
	d := make([]int64, dirtyLen)
	for i := range d {
		d[i] = -0x0123456789abcdef
	}
	return d
}
func dirtyU64() []uint64 {
	d := make([]uint64, dirtyLen)
	for i := range d {
		d[i] = 0xfedcba9876543210
	}
	return d
}
func dirtyF64() []float64 {
	d := make([]float64, dirtyLen)
	for i := range d {
		d[i] = -7.25e300
	}
	return d
}
func dirtyBool() []bool {
	d := make([]bool, dirtyLen)
	for i := range d {
		d[i] = true
	}
	return d
}
func dirtyStr() []string {
	d := make([]string, dirtyLen)
	for i := range d {
		d[i] = "stale"
	}
	return d
}
