// h_c16: correspondence harness for C16 (authentication + authorisation).
// Runs the REAL meta.Client (credential cache, fed by its own pollForUpdates loop from a
// fake meta server), meta.QueryAuthorizer, meta.WriteAuthorizer and httpd.Handler (auth
// enabled, recording StatementExecutor/PointsWriter) and records what they did.
package main

import (
	"encoding/base64"
	"encoding/json"
	"fmt"
	"net/http"
	"net/http/httptest"
	"net/url"
	"os"
	"sort"
	"strconv"
	"strings"
	"sync"
	"time"

	jwt "github.com/dgrijalva/jwt-go/v4"
	"github.com/influxdata/influxdb/coordinator"
	"github.com/influxdata/influxdb/models"
	"github.com/influxdata/influxdb/query"
	"github.com/influxdata/influxdb/services/httpd"
	"github.com/influxdata/influxdb/services/meta"
	"github.com/influxdata/influxql"
	"golang.org/x/crypto/bcrypt"
	"verifharness/hx"
)

// ---------------------------------------------------------------- fake meta server

// fakeMeta answers the client's long poll "GET /?index=N" with the newest snapshot once its
// index exceeds N.  The client's own pollForUpdates goroutine installs it (real code path).
type fakeMeta struct {
	mu   sync.Mutex
	cond *sync.Cond
	idx  uint64
	cur  []byte
	srv  *httptest.Server
	addr string
}

func newFakeMeta() *fakeMeta {
	f := &fakeMeta{}
	f.cond = sync.NewCond(&f.mu)
	f.srv = httptest.NewServer(http.HandlerFunc(func(w http.ResponseWriter, r *http.Request) {
		want, _ := strconv.ParseUint(r.URL.Query().Get("index"), 10, 64)
		f.mu.Lock()
		for f.idx <= want {
			f.cond.Wait()
		}
		b := f.cur
		f.mu.Unlock()
		w.Write(b)
	}))
	f.addr = strings.TrimPrefix(f.srv.URL, "http://")
	return f
}

func (f *fakeMeta) publish(d *meta.Data) {
	f.mu.Lock()
	f.idx++
	d.Index = f.idx
	d.MetaNodes = []meta.NodeInfo{{ID: 1, Addr: f.addr, TCPAddr: f.addr}}
	b, err := d.MarshalBinary()
	if err != nil {
		panic(err)
	}
	f.cur = b
	f.cond.Broadcast()
	f.mu.Unlock()
}

// ---------------------------------------------------------------- environment

type recorder struct {
	mu     sync.Mutex
	stmts  int
	writes []string
	real   *coordinator.StatementExecutor // the real executor, used for the statements that filter by grants
	// userStmts: hand GRANT/REVOKE/SET PASSWORD/DROP USER to the real executor (session steps only)
	userStmts bool
}

func (r *recorder) ExecuteStatement(ctx *query.ExecutionContext, stmt influxql.Statement) error {
	r.mu.Lock()
	r.stmts++
	r.mu.Unlock()
	switch stmt.(type) {
	case *influxql.ShowDatabasesStatement, *influxql.ShowContinuousQueriesStatement:
		return r.real.ExecuteStatement(ctx, stmt)
	case *influxql.GrantStatement, *influxql.RevokeStatement, *influxql.GrantAdminStatement, *influxql.RevokeAdminStatement,
		*influxql.SetPasswordUserStatement, *influxql.DropUserStatement:
		if r.userStmts {
			return r.real.ExecuteStatement(ctx, stmt)
		}
	}
	return nil
}

// execMeta is the MetaClient of the real coordinator.StatementExecutor: reads come from the real
// meta.Client (the node's view); the user-management writes are applied with the real data.go
// operations to the meta-store value and the result is installed on the node through the client's
// own update loop before the call returns.
type execMeta struct {
	*meta.Client
	e *env
}

func (m *execMeta) apply(f func(d *meta.Data) error) error {
	if m.e.master == nil {
		return nil
	}
	if err := f(m.e.master); err != nil {
		return err
	}
	m.e.publish(m.e.master.Clone())
	return nil
}
func (m *execMeta) SetPrivilege(username, database string, p influxql.Privilege) error {
	return m.apply(func(d *meta.Data) error { return d.SetPrivilege(username, database, p) })
}
func (m *execMeta) SetAdminPrivilege(username string, admin bool) error {
	return m.apply(func(d *meta.Data) error { return d.SetAdminPrivilege(username, admin) })
}
func (m *execMeta) DropUser(name string) error {
	return m.apply(func(d *meta.Data) error { return d.DropUser(name) })
}
func (m *execMeta) UpdateUser(name, password string) error {
	return m.apply(func(d *meta.Data) error { return d.UpdateUser(name, m.e.hashStr(m.e.nextHash)) })
}
func (r *recorder) WritePoints(database, rp string, cl models.ConsistencyLevel, user meta.User, points []models.Point) error {
	r.mu.Lock()
	r.writes = append(r.writes, database)
	r.mu.Unlock()
	return nil
}
func (r *recorder) reset() { r.mu.Lock(); r.stmts = 0; r.writes = nil; r.mu.Unlock() }

const sharedSecret = "verif shared secret"

type env struct {
	fm      *fakeMeta
	c       *meta.Client
	qa      *meta.QueryAuthorizer
	wa      *meta.WriteAuthorizer
	rec     *recorder
	hSecret *httpd.Handler // auth on, shared secret set
	hNoSec  *httpd.Handler // auth on, shared secret empty (bearer disabled)
	hOpen   *httpd.Handler // auth off: used only to measure how many statements reach the executor
	hashes  []string       // pool: id -> bcrypt hash string
	hashID  map[string]int
	master   *meta.Data // meta-store value of the running session (nil outside sessions)
	nextHash int        // hash id SET PASSWORD stores next (chosen by the harness: a pool hash of the new password)
}

// password pool; hash id = 2*pwIndex + variant (two different hashes per password)
var passwords = []string{"pw0", "secret1", "p:w", "pä ss", "", "0123456789012345678901234567890123456789", "Pw0"}

const invalidHashID = 1000 // a stored hash that is not a bcrypt hash: never verifies
const invalidHash = "not-a-bcrypt-hash"

var userNames = []string{"alice", "bob", "carol", "Alice", "a:b", "dave x", "üser", "root"}
var dbNames = []string{"db0", "db1", "_internal", "other"}

func newHandler(e *env, auth bool, secret string) *httpd.Handler {
	cfg := httpd.NewConfig()
	cfg.AuthEnabled = auth
	cfg.SharedSecret = secret
	cfg.LogEnabled = false
	h := httpd.NewHandler(cfg)
	h.MetaClient = e.c
	h.QueryAuthorizer = e.qa
	h.WriteAuthorizer = e.wa
	h.QueryExecutor = query.NewExecutor()
	h.QueryExecutor.StatementExecutor = e.rec
	h.PointsWriter = e.rec
	h.Version = "0.0.0"
	h.BuildType = "OSS"
	return h
}

func newEnv() *env {
	if influxql.NoPrivileges != 0 || influxql.ReadPrivilege != 1 || influxql.WritePrivilege != 2 || influxql.AllPrivileges != 3 {
		panic("influxql privilege constants changed: model constants are stale")
	}
	e := &env{fm: newFakeMeta(), rec: &recorder{}, hashID: map[string]int{}}
	for _, pw := range passwords {
		for v := 0; v < 2; v++ {
			h, err := bcrypt.GenerateFromPassword([]byte(pw), bcrypt.MinCost)
			if err != nil {
				panic(err)
			}
			e.hashID[string(h)] = len(e.hashes)
			e.hashes = append(e.hashes, string(h))
		}
	}
	e.hashID[invalidHash] = invalidHashID
	dir, err := os.MkdirTemp("", "h_c16")
	if err != nil {
		panic(err)
	}
	cfg := meta.NewConfig()
	cfg.Dir = dir
	e.fm.publish(&meta.Data{})
	e.c = meta.NewClient(cfg)
	e.c.SetMetaServers([]string{e.fm.addr})
	if err := e.c.Open(); err != nil {
		panic(err)
	}
	e.rec.real = &coordinator.StatementExecutor{MetaClient: &execMeta{Client: e.c, e: e}}
	e.qa = meta.NewQueryAuthorizer(e.c)
	e.wa = meta.NewWriteAuthorizer(e.c)
	e.hSecret = newHandler(e, true, sharedSecret)
	e.hNoSec = newHandler(e, true, "")
	e.hOpen = newHandler(e, false, "")
	return e
}

func (e *env) hashStr(id int) string {
	if id >= 0 && id < len(e.hashes) {
		return e.hashes[id]
	}
	return invalidHash
}

// publish hands the value to the fake meta server and waits until the client's
// pollForUpdates loop has installed it.
func (e *env) publish(d *meta.Data) {
	ch := e.c.WaitForDataChanged()
	e.fm.publish(d)
	select {
	case <-ch:
	case <-time.After(20 * time.Second):
		panic("meta client did not pick up the published snapshot")
	}
	// the channel is closed inside the critical section; any accessor waits for its end
	_ = e.c.AdminUserExists()
}

func (e *env) resetNode() { e.publish(&meta.Data{}) }

// ---------------------------------------------------------------- descriptions

type UserD struct {
	Name  string         `json:"name"`
	Hash  int            `json:"hash"`
	Admin bool           `json:"admin"`
	Privs map[string]int `json:"privs,omitempty"`
}

type CredD struct {
	QU  string `json:"qu,omitempty"`  // u= URL parameter
	QP  string `json:"qp,omitempty"`  // p= URL parameter
	Hdr string `json:"hdr,omitempty"` // "", basic, token, bearer, other
	Raw string `json:"raw,omitempty"` // basic/token: the user:password text
	JWT int    `json:"jwt,omitempty"` // bearer: token class (0 = good)
	JU  string `json:"ju,omitempty"`  // bearer: username claim
}

type ReqD struct {
	Kind   string `json:"kind"` // query | write | write2
	Method string `json:"method,omitempty"`
	Q      string `json:"q,omitempty"`
	HasQ   bool   `json:"has_q,omitempty"`
	DB     string `json:"db"`
	Cred   CredD  `json:"cred"`
}

type reqCaseD struct {
	Users  []UserD  `json:"users"`
	DBs    []string `json:"dbs"`
	Secret bool     `json:"secret"`
	Reqs   []ReqD   `json:"reqs"`
}

type authzD struct {
	Users []UserD `json:"users"`
	User  *UserD  `json:"user"` // nil = no user handed in
	Q     string  `json:"q"`
	DB    string  `json:"db"`
}

type writeAzD struct {
	Users []UserD `json:"users"`
	Name  string  `json:"name"`
	DB    string  `json:"db"`
}

type HistEvD struct {
	Op    string `json:"op"` // create_user drop_user update_user set_priv set_admin create_db drop_db publish auth
	Name  string `json:"name,omitempty"`
	Hash  int    `json:"hash,omitempty"`
	Admin bool   `json:"admin,omitempty"`
	DB    string `json:"db,omitempty"`
	Priv  int    `json:"priv,omitempty"`
	PW    string `json:"pw,omitempty"`
}

type histD struct {
	Evs []HistEvD `json:"evs"`
}

type raceD struct {
	Name    string `json:"name"`
	PWOld   string `json:"pw_old"`
	PWNew   string `json:"pw_new"`
	Cost    int    `json:"cost"`
	DelayMs int    `json:"delay_ms"`
}

// ---------------------------------------------------------------- Coq printers

func coqUser(u UserD) string {
	keys := make([]string, 0, len(u.Privs))
	for k := range u.Privs {
		keys = append(keys, k)
	}
	sort.Strings(keys)
	ps := make([]string, 0, len(keys))
	for _, k := range keys {
		ps = append(ps, fmt.Sprintf("(%s, %d)", hx.CoqStr(k), u.Privs[k]))
	}
	return fmt.Sprintf("mkUser %s %d %s %s", hx.CoqStr(u.Name), u.Hash, hx.CoqBool(u.Admin), hx.CoqList(ps))
}

func coqUsers(us []UserD) string {
	it := make([]string, len(us))
	for i, u := range us {
		it[i] = coqUser(u)
	}
	return hx.CoqList(it)
}

func coqStrs(ss []string) string {
	it := make([]string, len(ss))
	for i, s := range ss {
		it[i] = hx.CoqStr(s)
	}
	return hx.CoqList(it)
}

func coqBC() string {
	return "(bcp " + coqStrs(passwords) + ")"
}

// statement abstraction taken from the real influxql library
func coqStmts(q *influxql.Query, o *hx.Out) string {
	it := []string{}
	for _, s := range q.Statements {
		ca := false
		if cu, ok := s.(*influxql.CreateUserStatement); ok && cu.Admin {
			ca = true
		}
		privs, err := meta.VerifStatementPrivileges(s) // the list AuthorizeQuery iterates over (real code)
		if o != nil {
			o.Count(fmt.Sprintf("stmt:%T", s))
		}
		if err != nil {
			it = append(it, fmt.Sprintf("mkStmt %s None", hx.CoqBool(ca)))
			continue
		}
		ps := []string{}
		for _, p := range privs {
			ps = append(ps, fmt.Sprintf("mkRp %s %s %d", hx.CoqBool(p.Admin), hx.CoqStr(p.Name), int(p.Privilege)))
		}
		it = append(it, fmt.Sprintf("mkStmt %s (Some %s)", hx.CoqBool(ca), hx.CoqList(ps)))
	}
	return hx.CoqList(it)
}

func coqCred(c CredD) string {
	hdr := "HNone"
	switch c.Hdr {
	case "basic":
		hdr = "(HBasic " + hx.CoqStr(c.Raw) + ")"
	case "token":
		hdr = "(HToken " + hx.CoqStr(c.Raw) + ")"
	case "bearer":
		hdr = fmt.Sprintf("(HBearer %d %s)", c.JWT, hx.CoqStr(c.JU))
	case "other":
		hdr = "HOther"
	}
	return fmt.Sprintf("(mkCreds %s %s %s)", hx.CoqStr(c.QU), hx.CoqStr(c.QP), hdr)
}

// ---------------------------------------------------------------- installing tables

func (e *env) dataOf(users []UserD, dbs []string) *meta.Data {
	d := &meta.Data{}
	for _, db := range dbs {
		d.Databases = append(d.Databases, meta.DatabaseInfo{Name: db})
	}
	for _, u := range users {
		ui := meta.UserInfo{Name: u.Name, Hash: e.hashStr(u.Hash), Admin: u.Admin}
		if len(u.Privs) > 0 {
			ui.Privileges = map[string]influxql.Privilege{}
			for k, v := range u.Privs {
				ui.Privileges[k] = influxql.Privilege(v)
			}
		}
		d.Users = append(d.Users, ui)
	}
	return d
}

func (e *env) userInfoOf(u UserD) *meta.UserInfo {
	ui := &meta.UserInfo{Name: u.Name, Hash: e.hashStr(u.Hash), Admin: u.Admin}
	if len(u.Privs) > 0 {
		ui.Privileges = map[string]influxql.Privilege{}
		for k, v := range u.Privs {
			ui.Privileges[k] = influxql.Privilege(v)
		}
	}
	return ui
}

func (e *env) usersSeen(us []meta.UserInfo) []UserD {
	out := []UserD{}
	for _, u := range us {
		id, ok := e.hashID[u.Hash]
		if !ok {
			id = 9999
		}
		d := UserD{Name: u.Name, Hash: id, Admin: u.Admin}
		if len(u.Privileges) > 0 {
			d.Privs = map[string]int{}
			for k, v := range u.Privileges {
				d.Privs[k] = int(v)
			}
		}
		out = append(out, d)
	}
	return out
}

func (e *env) cacheSeen() (string, map[string]int) {
	m := e.c.VerifAuthCache()
	keys := make([]string, 0, len(m))
	for k := range m {
		keys = append(keys, k)
	}
	sort.Strings(keys)
	it := []string{}
	view := map[string]int{}
	for _, k := range keys {
		id, ok := e.hashID[m[k]]
		if !ok {
			id = 9999
		}
		view[k] = id
		it = append(it, fmt.Sprintf("(%s, %d)", hx.CoqStr(k), id))
	}
	return hx.CoqList(it), view
}

// ---------------------------------------------------------------- direct authoriser cases

func authzErrCode(err error) int {
	if err == nil {
		return 0
	}
	m := err.Error()
	switch {
	case strings.Contains(m, "create admin user first"):
		return 1
	case strings.Contains(m, "no user provided"):
		return 2
	case strings.Contains(m, "requires admin privilege"):
		return 3
	case strings.Contains(m, "', requires ") && strings.Contains(m, " on "):
		return 4
	case strings.Contains(m, "not authorized"):
		return 6
	default:
		return 5
	}
}

func runAuthz(e *env, o *hx.Out, d authzD, origin string) {
	o.Begin("authz", d)
	q, err := influxql.ParseQuery(d.Q)
	if err != nil {
		o.Count("authz:unparsable-skipped")
		return
	}
	e.publish(e.dataOf(d.Users, nil))
	var u meta.User
	uc := "None"
	if d.User != nil {
		u = e.userInfoOf(*d.User)
		uc = "(Some (" + coqUser(*d.User) + "))"
	}
	code := 0
	func() {
		defer func() {
			if r := recover(); r != nil {
				code = 99
			}
		}()
		_, err := e.qa.AuthorizeQuery(u, q, d.DB)
		code = authzErrCode(err)
	}()
	coq := fmt.Sprintf("CAuthz %s %s %s %s %d", coqUsers(d.Users), uc, coqStmts(q, o), hx.CoqStr(d.DB), code)
	o.Count(fmt.Sprintf("authz:res%d", code))
	o.Count(fmt.Sprintf("authz:nstmts%d", len(q.Statements)))
	fca := false
	if len(q.Statements) > 0 {
		if cu, ok := q.Statements[0].(*influxql.CreateUserStatement); ok && cu.Admin {
			fca = true
		}
	}
	o.Emit(hx.Case{Kind: "authz", Coq: coq, Desc: d, Obs: map[string]interface{}{"code": code, "nstmts": len(q.Statements), "first_creates_admin": fca},
		Nontrivial: len(d.Users) > 0 || len(q.Statements) > 0, Sig: "authz:" + mustJSON(d), Origin: origin})
}

func runWriteAz(e *env, o *hx.Out, d writeAzD, origin string) {
	o.Begin("writeaz", d)
	e.publish(e.dataOf(d.Users, nil))
	ok := false
	func() {
		defer func() { recover() }()
		ok = e.wa.AuthorizeWrite(d.Name, d.DB) == nil
	}()
	coq := fmt.Sprintf("CWriteAz %s %s %s %s", coqUsers(d.Users), hx.CoqStr(d.Name), hx.CoqStr(d.DB), hx.CoqBool(ok))
	o.Count("writeaz:ok=" + hx.CoqBool(ok))
	o.Emit(hx.Case{Kind: "writeaz", Coq: coq, Desc: d, Obs: map[string]interface{}{"ok": ok},
		Nontrivial: len(d.Users) > 0, Sig: "writeaz:" + mustJSON(d), Origin: origin})
}

func mustJSON(v interface{}) string {
	b, err := json.Marshal(v)
	if err != nil {
		panic(err)
	}
	return string(b)
}

// ---------------------------------------------------------------- cache histories

func authCode(err error) int {
	switch err {
	case nil:
		return 0
	case meta.ErrUserNotFound:
		return 1
	case meta.ErrAuthenticate:
		return 2
	}
	return 3
}

func runHist(e *env, o *hx.Out, d histD, origin string) {
	o.Begin("hist", d)
	e.resetNode()
	master := &meta.Data{}
	evs := []string{"XPub [] [] []"}
	obs := []interface{}{}
	nAuthOK, nPub := 0, 0
	for _, ev := range d.Evs {
		var err error
		op := ""
		switch ev.Op {
		case "create_user":
			err = master.CreateUser(ev.Name, e.hashStr(ev.Hash), ev.Admin)
			op = fmt.Sprintf("OCreateUser %s %d %s", hx.CoqStr(ev.Name), ev.Hash, hx.CoqBool(ev.Admin))
		case "drop_user":
			err = master.DropUser(ev.Name)
			op = fmt.Sprintf("ODropUser %s", hx.CoqStr(ev.Name))
		case "update_user":
			err = master.UpdateUser(ev.Name, e.hashStr(ev.Hash))
			op = fmt.Sprintf("OUpdateUser %s %d", hx.CoqStr(ev.Name), ev.Hash)
		case "set_priv":
			err = master.SetPrivilege(ev.Name, ev.DB, influxql.Privilege(ev.Priv))
			op = fmt.Sprintf("OSetPriv %s %s %d", hx.CoqStr(ev.Name), hx.CoqStr(ev.DB), ev.Priv)
		case "set_admin":
			err = master.SetAdminPrivilege(ev.Name, ev.Admin)
			op = fmt.Sprintf("OSetAdmin %s %s", hx.CoqStr(ev.Name), hx.CoqBool(ev.Admin))
		case "create_db":
			err = master.CreateDatabase(ev.DB)
			op = fmt.Sprintf("OCreateDb %s", hx.CoqStr(ev.DB))
		case "drop_db":
			err = master.DropDatabase(ev.DB)
			op = fmt.Sprintf("ODropDb %s", hx.CoqStr(ev.DB))
		case "publish":
			e.publish(master.Clone())
			nPub++
			dbs := []string{}
			for _, di := range e.c.Databases() {
				dbs = append(dbs, di.Name)
			}
			cc, view := e.cacheSeen()
			seen := e.usersSeen(e.c.Users())
			evs = append(evs, fmt.Sprintf("XPub %s %s %s", coqUsers(seen), coqStrs(dbs), cc))
			obs = append(obs, map[string]interface{}{"publish": seen, "cache": view})
			o.Count("hist:ev:publish")
			continue
		case "auth":
			code := 0
			ru := "None"
			var ruSeen interface{}
			func() {
				defer func() {
					if r := recover(); r != nil {
						code = 99
					}
				}()
				u, err := e.c.Authenticate(ev.Name, ev.PW)
				code = authCode(err)
				if err == nil {
					if ui, ok := u.(*meta.UserInfo); ok && ui != nil {
						seen := e.usersSeen([]meta.UserInfo{*ui})
						ru = "(Some (" + coqUser(seen[0]) + "))"
						ruSeen = seen[0]
					} else {
						code = 98 // success without a user value
					}
				}
			}()
			if code == 0 {
				nAuthOK++
			}
			cc, view := e.cacheSeen()
			evs = append(evs, fmt.Sprintf("XAuth %s %s %d %s %s", hx.CoqStr(ev.Name), hx.CoqStr(ev.PW), code, ru, cc))
			obs = append(obs, map[string]interface{}{"auth": code, "user": ruSeen, "cache": view})
			o.Count(fmt.Sprintf("hist:auth:res%d", code))
			continue
		default:
			panic("unknown history op " + ev.Op)
		}
		o.Count("hist:ev:" + ev.Op)
		evs = append(evs, fmt.Sprintf("XOp (%s) %s", op, hx.CoqBool(err == nil)))
		obs = append(obs, map[string]interface{}{"op_ok": err == nil})
	}
	coq := fmt.Sprintf("CHist %s %s", coqBC(), hx.CoqList(evs))
	o.Emit(hx.Case{Kind: "hist", Coq: coq, Desc: d, Obs: obs,
		Nontrivial: nAuthOK > 0 && nPub > 1, Sig: "hist:" + mustJSON(d), Origin: origin})
}

// ---------------------------------------------------------------- HTTP requests

// JWT classes (10 exp null, 11 negative exp, 12 boolean exp): 0 good; 1 wrong secret; 2 expired; 3 no exp; 4 exp = 0; 5 alg none;
// 6 no username claim; 7 username not a string; 8 garbage token; 9 exp is a string
func makeJWT(cls int, username string) string {
	claims := jwt.MapClaims{}
	claims["username"] = username
	claims["exp"] = time.Now().Add(10 * time.Minute).Unix()
	secret := sharedSecret
	method := jwt.SigningMethod(jwt.SigningMethodHS512)
	switch cls {
	case 1:
		secret = "some other secret"
	case 2:
		claims["exp"] = time.Now().Add(-time.Minute).Unix()
	case 3:
		delete(claims, "exp")
	case 4:
		claims["exp"] = 0
	case 5:
		tok := jwt.NewWithClaims(jwt.SigningMethodNone, claims)
		s, err := tok.SignedString(jwt.UnsafeAllowNoneSignatureType)
		if err != nil {
			panic(err)
		}
		return s
	case 6:
		delete(claims, "username")
	case 7:
		claims["username"] = 12345
	case 8:
		return "abc.def.ghi"
	case 9:
		claims["exp"] = "tomorrow"
	case 10:
		claims["exp"] = nil // "exp": null
	case 11:
		claims["exp"] = -5.5
	case 12:
		claims["exp"] = true
	}
	tok := jwt.NewWithClaims(method, claims)
	s, err := tok.SignedString([]byte(secret))
	if err != nil {
		panic(err)
	}
	return s
}

func buildRequest(rd ReqD) *http.Request {
	v := url.Values{}
	path := "/query"
	method := rd.Method
	switch rd.Kind {
	case "query":
		if rd.HasQ {
			v.Set("q", rd.Q)
		}
		if rd.DB != "" {
			v.Set("db", rd.DB)
		}
		if method == "" {
			method = "POST"
		}
	case "write":
		path, method = "/write", "POST"
		if rd.DB != "" {
			v.Set("db", rd.DB)
		}
	case "write2":
		path, method = "/api/v2/write", "POST"
		if rd.DB != "" {
			v.Set("bucket", rd.DB+"/autogen")
		} else {
			v.Set("bucket", "/autogen")
		}
	}
	if rd.Cred.QU != "" {
		v.Set("u", rd.Cred.QU)
	}
	if rd.Cred.QP != "" {
		v.Set("p", rd.Cred.QP)
	}
	var body *strings.Reader
	if rd.Kind == "query" {
		body = strings.NewReader("")
	} else {
		body = strings.NewReader("cpu,host=a value=1 1000\n")
	}
	r, err := http.NewRequest(method, path+"?"+v.Encode(), body)
	if err != nil {
		panic(err)
	}
	switch rd.Cred.Hdr {
	case "basic":
		r.Header.Set("Authorization", "Basic "+base64.StdEncoding.EncodeToString([]byte(rd.Cred.Raw)))
	case "token":
		r.Header.Set("Authorization", "Token "+rd.Cred.Raw)
	case "bearer":
		r.Header.Set("Authorization", "Bearer "+makeJWT(rd.Cred.JWT, rd.Cred.JU))
	case "other":
		r.Header.Set("Authorization", "Digest abcdef")
	}
	return r
}

func serve(h *httpd.Handler, r *http.Request) (status int, panicked bool) {
	w := httptest.NewRecorder()
	func() {
		defer func() {
			if rec := recover(); rec != nil {
				panicked = true
			}
		}()
		h.ServeHTTP(w, r)
	}()
	return w.Code, panicked
}

// execReq serves one request on handler h and returns its Coq form and what was observed.
func execReq(e *env, o *hx.Out, h *httpd.Handler, rd ReqD) (coqReq string, status, executed int, fca bool) {
	switch rd.Kind {
	case "query":
		hasQ := rd.HasQ && strings.TrimSpace(rd.Q) != ""
		parseOK := false
		stm := "[]"
		reach := 0
		if hasQ {
			q, err := influxql.ParseQuery(rd.Q)
			if err == nil {
				parseOK = true
				stm = coqStmts(q, o)
				if len(q.Statements) > 0 {
					if cu, ok := q.Statements[0].(*influxql.CreateUserStatement); ok && cu.Admin {
						fca = true
					}
				}
				// how many statements the executor loop hands over once authorised
				saved := e.rec.userStmts
				e.rec.userStmts = false
				e.rec.reset()
				open := rd
				open.Cred = CredD{}
				serve(e.hOpen, buildRequest(open))
				reach = e.rec.stmts
				e.rec.userStmts = saved
				if reach != len(q.Statements) {
					o.Count("req:query:executor-loop-stops-early")
				}
			}
		}
		e.rec.reset()
		st, pan := serve(h, buildRequest(rd))
		status, executed = st, e.rec.stmts
		if pan {
			status = 599
		}
		coqReq = fmt.Sprintf("RQuery %s %s %s %s %s %d", coqCred(rd.Cred), hx.CoqBool(hasQ), hx.CoqBool(parseOK), stm, hx.CoqStr(rd.DB), reach)
	case "write", "write2":
		e.rec.reset()
		st, pan := serve(h, buildRequest(rd))
		status, executed = st, len(e.rec.writes)
		if pan {
			status = 599
		}
		for _, w := range e.rec.writes {
			if w != rd.DB {
				status = 598 // wrote somewhere else than asked
			}
		}
		coqReq = fmt.Sprintf("RWrite %s %s %s", hx.CoqBool(rd.Kind == "write2"), coqCred(rd.Cred), hx.CoqStr(rd.DB))
	default:
		panic("unknown request kind " + rd.Kind)
	}
	o.Count(fmt.Sprintf("req:%s:status%d", rd.Kind, status))
	carrier := rd.Cred.Hdr
	if rd.Cred.QU != "" && rd.Cred.QP != "" {
		carrier = "params+" + carrier
	}
	if carrier == "" {
		carrier = "none"
	}
	o.Count("req:carrier:" + carrier)
	return
}

func runReqCase(e *env, o *hx.Out, d reqCaseD, origin string) {
	o.Begin("req", d)
	e.resetNode()
	e.publish(e.dataOf(d.Users, d.DBs))
	h := e.hNoSec
	if d.Secret {
		h = e.hSecret
	}
	items := []string{}
	obs := []interface{}{}
	nontrivial := false
	sig := []string{}
	for _, rd := range d.Reqs {
		coqReq, status, executed, fca := execReq(e, o, h, rd)
		if rd.Kind == "query" && executed > 1 && len(d.Users) == 0 {
			o.Count("req:bootstrap:trailing-statements-executed")
		}
		items = append(items, fmt.Sprintf("(%s, (%d, %d))", coqReq, status, executed))
		obs = append(obs, map[string]interface{}{"status": status, "executed": executed, "kind": rd.Kind, "first_creates_admin": fca})
		if executed > 0 || status == 403 {
			nontrivial = true
		}
		sig = append(sig, fmt.Sprintf("%s|%s|%s|%s|%v", rd.Kind, rd.Q, rd.DB, mustJSON(rd.Cred), d.Secret))
	}
	o.Count(fmt.Sprintf("req:users%d", len(d.Users)))
	coq := fmt.Sprintf("CReq %s %s %s %s %s", coqBC(), coqUsers(d.Users), coqStrs(d.DBs), hx.CoqBool(d.Secret), hx.CoqList(items))
	o.Emit(hx.Case{Kind: "req", Coq: coq, Desc: d, Obs: obs, Nontrivial: nontrivial,
		Sig: "req:" + mustJSON(d.Users) + strings.Join(sig, "#"), Origin: origin})
}

// ---------------------------------------------------------------- sessions: tables, requests, user statements

type SeqStepD struct {
	Op    string   `json:"op"` // set | req | stmt
	Users []UserD  `json:"users,omitempty"`
	DBs   []string `json:"dbs,omitempty"`
	Req   *ReqD    `json:"req,omitempty"`
	Q     string   `json:"q,omitempty"`    // stmt: one GRANT/REVOKE/SET PASSWORD/DROP USER statement
	DB    string   `json:"db,omitempty"`   // stmt: db= parameter
	Cred  *CredD   `json:"cred,omitempty"` // stmt: who sends it
	Hash  int      `json:"hash,omitempty"` // stmt SET PASSWORD: pool hash id stored for the new password
}

type seqD struct {
	Secret bool       `json:"secret"`
	Steps  []SeqStepD `json:"steps"`
}

func coqXStmt(st influxql.Statement, hash int) string {
	switch t := st.(type) {
	case *influxql.GrantStatement:
		return fmt.Sprintf("(XGrant %s %s %d)", hx.CoqStr(t.User), hx.CoqStr(t.On), int(t.Privilege))
	case *influxql.RevokeStatement:
		return fmt.Sprintf("(XRevoke %s %s %d)", hx.CoqStr(t.User), hx.CoqStr(t.On), int(t.Privilege))
	case *influxql.GrantAdminStatement:
		return fmt.Sprintf("(XGrantAdmin %s)", hx.CoqStr(t.User))
	case *influxql.RevokeAdminStatement:
		return fmt.Sprintf("(XRevokeAdmin %s)", hx.CoqStr(t.User))
	case *influxql.SetPasswordUserStatement:
		return fmt.Sprintf("(XSetPassword %s %d)", hx.CoqStr(t.Name), hash)
	case *influxql.DropUserStatement:
		return fmt.Sprintf("(XDropUser %s)", hx.CoqStr(t.Name))
	}
	return "XOther"
}

func runSeq(e *env, o *hx.Out, d seqD, origin string) {
	o.Begin("seq", d)
	e.resetNode()
	e.master = &meta.Data{}
	defer func() { e.master = nil; e.rec.userStmts = false }()
	h := e.hNoSec
	if d.Secret {
		h = e.hSecret
	}
	items := []string{}
	obs := []interface{}{}
	nStmtOK, nReqAfter, nExec := 0, 0, 0
	for _, sd := range d.Steps {
		switch sd.Op {
		case "set":
			e.master = e.dataOf(sd.Users, sd.DBs)
			e.publish(e.master.Clone())
			items = append(items, fmt.Sprintf("(TSet (mkM %s %s), OSet)", coqUsers(sd.Users), coqStrs(sd.DBs)))
			obs = append(obs, "set")
			o.Count("seq:step:set")
		case "req":
			coqReq, status, executed, _ := execReq(e, o, h, *sd.Req)
			items = append(items, fmt.Sprintf("(TReq (%s), OReq (%d, %d))", coqReq, status, executed))
			obs = append(obs, map[string]interface{}{"status": status, "executed": executed})
			if nStmtOK > 0 {
				nReqAfter++
			}
			if executed > 0 {
				nExec++
			}
			o.Count("seq:step:req")
		case "stmt":
			q, err := influxql.ParseQuery(sd.Q)
			if err != nil || len(q.Statements) != 1 {
				o.Count("seq:stmt-unparsable-skipped")
				continue
			}
			e.nextHash = sd.Hash
			e.rec.userStmts = true
			e.rec.reset()
			cr := CredD{}
			if sd.Cred != nil {
				cr = *sd.Cred
			}
			w := httptest.NewRecorder()
			status := 0
			func() {
				defer func() {
					if rec := recover(); rec != nil {
						status = 599
					}
				}()
				h.ServeHTTP(w, buildRequest(ReqD{Kind: "query", Method: "POST", Q: sd.Q, HasQ: true, DB: sd.DB, Cred: cr}))
			}()
			e.rec.userStmts = false
			if status == 0 {
				status = w.Code
			}
			executed := e.rec.stmts
			ok := false
			if status == 200 && executed > 0 {
				var resp struct {
					Results []struct {
						Error string `json:"error"`
					} `json:"results"`
				}
				if json.Unmarshal(w.Body.Bytes(), &resp) == nil && len(resp.Results) == 1 && resp.Results[0].Error == "" {
					ok = true
				}
			}
			seen := e.usersSeen(e.c.Users())
			items = append(items, fmt.Sprintf("(TStmt %s %s %s %s, OStmt %d %d %s %s)", coqCred(cr), coqStmts(q, o), hx.CoqStr(sd.DB),
				coqXStmt(q.Statements[0], sd.Hash), status, executed, hx.CoqBool(ok), coqUsers(seen)))
			obs = append(obs, map[string]interface{}{"status": status, "executed": executed, "ok": ok, "users_after": seen})
			if ok {
				nStmtOK++
			}
			o.Count(fmt.Sprintf("seq:stmt:%T:ok=%v", q.Statements[0], ok))
		default:
			panic("unknown session step " + sd.Op)
		}
	}
	coq := fmt.Sprintf("CSeq %s %s %s", coqBC(), hx.CoqBool(d.Secret), hx.CoqList(items))
	o.Emit(hx.Case{Kind: "seq", Coq: coq, Desc: d, Obs: obs, Nontrivial: nStmtOK > 0 && nReqAfter > 0 && nExec > 0,
		Sig: "seq:" + mustJSON(d), Origin: origin})
}

// ---------------------------------------------------------------- SHOW DATABASES / SHOW CONTINUOUS QUERIES

type showD struct {
	Users  []UserD  `json:"users"`
	DBs    []string `json:"dbs"`
	Secret bool     `json:"secret"`
	Q      string   `json:"q"` // contains exactly one SHOW DATABASES or SHOW CONTINUOUS QUERIES statement
	DB     string   `json:"db"`
	Cred   CredD    `json:"cred"`
}

func runShow(e *env, o *hx.Out, d showD, origin string) {
	o.Begin("show", d)
	q, err := influxql.ParseQuery(d.Q)
	if err != nil {
		o.Count("show:unparsable-skipped")
		return
	}
	nshow, isCQ := 0, false
	for _, st := range q.Statements {
		switch st.(type) {
		case *influxql.ShowDatabasesStatement:
			nshow++
		case *influxql.ShowContinuousQueriesStatement:
			nshow++
			isCQ = true
		}
	}
	if nshow != 1 {
		o.Count("show:not-exactly-one-show-skipped")
		return
	}
	e.resetNode()
	e.publish(e.dataOf(d.Users, d.DBs))
	h := e.hNoSec
	if d.Secret {
		h = e.hSecret
	}
	rd := ReqD{Kind: "query", Method: "POST", Q: d.Q, HasQ: true, DB: d.DB, Cred: d.Cred}
	w := httptest.NewRecorder()
	status := 0
	func() {
		defer func() {
			if rec := recover(); rec != nil {
				status = 599
			}
		}()
		h.ServeHTTP(w, buildRequest(rd))
	}()
	if status == 0 {
		status = w.Code
	}
	visible := []string{}
	var resp struct {
		Results []struct {
			Series []struct {
				Name    string          `json:"name"`
				Columns []string        `json:"columns"`
				Values  [][]interface{} `json:"values"`
			} `json:"series"`
		} `json:"results"`
	}
	if status == 200 {
		if err := json.Unmarshal(w.Body.Bytes(), &resp); err != nil {
			status = 597
		}
		for _, r := range resp.Results {
			for _, sr := range r.Series {
				if isCQ {
					visible = append(visible, sr.Name)
				} else if sr.Name == "databases" {
					for _, v := range sr.Values {
						if len(v) == 1 {
							if name, ok := v[0].(string); ok {
								visible = append(visible, name)
							}
						}
					}
				}
			}
		}
	}
	coq := fmt.Sprintf("CShow %s %s %s %s %s %s %s %d %s", coqBC(), coqUsers(d.Users), coqStrs(d.DBs), hx.CoqBool(d.Secret),
		coqCred(d.Cred), coqStmts(q, o), hx.CoqStr(d.DB), status, coqStrs(visible))
	o.Count(fmt.Sprintf("show:status%d", status))
	o.Count(fmt.Sprintf("show:visible%d", len(visible)))
	o.Emit(hx.Case{Kind: "show", Coq: coq, Desc: d, Obs: map[string]interface{}{"status": status, "visible": visible},
		Nontrivial: status == 200, Sig: "show:" + mustJSON(d), Origin: origin})
}

func genShow(r *hx.Rand) showD {
	d := showD{Users: genUsers(r), Secret: !r.Chance(10), DB: genDB(r)}
	for _, db := range dbNames {
		if r.Chance(85) {
			d.DBs = append(d.DBs, db)
		}
	}
	d.Cred = genCred(r, d.Users)
	show := `SHOW DATABASES`
	if r.Chance(35) {
		show = `SHOW CONTINUOUS QUERIES`
	}
	switch r.Intn(6) {
	case 0:
		d.Q = `SELECT * FROM cpu; ` + show
	case 1:
		d.Q = `CREATE USER eve WITH PASSWORD 'x' WITH ALL PRIVILEGES; ` + show
	default:
		d.Q = show
	}
	return d
}

// ---------------------------------------------------------------- concurrent swap during Authenticate

func runRace(e *env, o *hx.Out, d raceD, origin string) {
	o.Begin("race", d)
	e.resetNode()
	h1, err := bcrypt.GenerateFromPassword([]byte(d.PWOld), d.Cost)
	if err != nil {
		panic(err)
	}
	h2, err := bcrypt.GenerateFromPassword([]byte(d.PWNew), bcrypt.MinCost)
	if err != nil {
		panic(err)
	}
	d1 := &meta.Data{}
	d1.Users = []meta.UserInfo{{Name: d.Name, Hash: string(h1), Admin: true}}
	d2 := &meta.Data{}
	d2.Users = []meta.UserInfo{{Name: d.Name, Hash: string(h2), Admin: true}}
	e.publish(d1)
	done := make(chan int, 1)
	go func() {
		_, err := e.c.Authenticate(d.Name, d.PWOld)
		done <- authCode(err)
	}()
	time.Sleep(time.Duration(d.DelayMs) * time.Millisecond)
	e.publish(d2) // the password change reaches the node while the call is (probably) inside bcrypt
	inFlight := false
	var r0 int
	select {
	case r0 = <-done:
	default:
		inFlight = true
		r0 = <-done
	}
	// both are over: the change has reached the node
	_, errOld := e.c.Authenticate(d.Name, d.PWOld)
	_, errNew := e.c.Authenticate(d.Name, d.PWNew)
	rOld, rNew := authCode(errOld), authCode(errNew)
	if inFlight {
		o.Count("race:swap-during-authenticate")
	} else {
		o.Count("race:swap-after-authenticate")
	}
	bc := fmt.Sprintf("[(1, %s); (2, %s)]", hx.CoqStr(d.PWOld), hx.CoqStr(d.PWNew))
	u1 := fmt.Sprintf("[mkUser %s 1 true []]", hx.CoqStr(d.Name))
	u2 := fmt.Sprintf("[mkUser %s 2 true []]", hx.CoqStr(d.Name))
	coq := fmt.Sprintf("CRace %s %s %s %s %s %s %d %d %d", bc, u1, u2, hx.CoqStr(d.Name), hx.CoqStr(d.PWOld), hx.CoqStr(d.PWNew), r0, rOld, rNew)
	o.Emit(hx.Case{Kind: "race", Coq: coq, Desc: d, Obs: map[string]interface{}{"first": r0, "old_after": rOld, "new_after": rNew, "swap_during_call": inFlight},
		Nontrivial: inFlight, Sig: "race:" + mustJSON(d), Origin: origin})
}

// ---------------------------------------------------------------- generation

var stmtTemplates = []string{
	`SELECT * FROM cpu`,
	`SELECT * FROM db1..cpu`,
	`SELECT * FROM db0.autogen.cpu`,
	`SELECT * FROM cpu, db1..mem`,
	`SELECT * FROM other..cpu, db1..mem`,
	`SELECT * FROM (SELECT v FROM db1..cpu)`,
	`SELECT * FROM (SELECT v FROM cpu), db0..mem`,
	`SELECT * INTO db1..out FROM cpu`,
	`SELECT * INTO out FROM db0..cpu`,
	`SELECT mean(v) INTO db0.autogen.out FROM db1..cpu GROUP BY time(1m)`,
	`SELECT v FROM /c.*/`,
	`SELECT * FROM db1..mem, cpu`,
	`SELECT * FROM db1..mem, cpu, db0..disk`,
	`SELECT * FROM (SELECT v FROM db1..cpu), mem`,
	`SELECT * INTO out FROM db1..cpu, mem`,
	`SELECT * INTO db1..out FROM cpu`,
	`EXPLAIN SELECT * FROM cpu`,
	`EXPLAIN ANALYZE SELECT * FROM db1..cpu`,
	`DELETE FROM cpu`,
	`DELETE WHERE time < now()`,
	`DROP SERIES FROM cpu`,
	`DROP SERIES WHERE host = 'a'`,
	`DROP MEASUREMENT cpu`,
	`SHOW SERIES`,
	`SHOW SERIES ON db1`,
	`SHOW SERIES CARDINALITY`,
	`SHOW SERIES CARDINALITY ON db1`,
	`SHOW SERIES EXACT CARDINALITY ON db1`,
	`SHOW SERIES EXACT CARDINALITY FROM cpu`,
	`SHOW MEASUREMENTS`,
	`SHOW MEASUREMENTS ON db1`,
	`SHOW MEASUREMENT CARDINALITY`,
	`SHOW MEASUREMENT CARDINALITY ON db0`,
	`SHOW MEASUREMENT EXACT CARDINALITY ON db1`,
	`SHOW TAG KEYS`,
	`SHOW TAG KEYS ON db1`,
	`SHOW TAG KEY CARDINALITY`,
	`SHOW TAG KEY EXACT CARDINALITY ON db1`,
	`SHOW TAG VALUES WITH KEY = host`,
	`SHOW TAG VALUES ON db1 WITH KEY = host`,
	`SHOW TAG VALUES CARDINALITY WITH KEY = host`,
	`SHOW TAG VALUES EXACT CARDINALITY ON db0 WITH KEY = host`,
	`SHOW FIELD KEYS`,
	`SHOW FIELD KEYS ON db1`,
	`SHOW FIELD KEY CARDINALITY`,
	`SHOW FIELD KEY EXACT CARDINALITY ON db1`,
	`SHOW RETENTION POLICIES`,
	`SHOW RETENTION POLICIES ON db1`,
	`SHOW DATABASES`,
	`SHOW USERS`,
	`SHOW GRANTS FOR alice`,
	`SHOW CONTINUOUS QUERIES`,
	`SHOW QUERIES`,
	`KILL QUERY 1`,
	`SHOW STATS`,
	`SHOW STATS FOR 'runtime'`,
	`SHOW DIAGNOSTICS`,
	`SHOW SHARDS`,
	`SHOW SHARD GROUPS`,
	`SHOW SUBSCRIPTIONS`,
	`SHOW SERVERS`,
	`CREATE DATABASE newdb`,
	`CREATE DATABASE newdb WITH DURATION 1d REPLICATION 1 NAME rp`,
	`DROP DATABASE db1`,
	`CREATE RETENTION POLICY rp ON db1 DURATION 1h REPLICATION 1`,
	`ALTER RETENTION POLICY rp ON db1 DURATION 2h`,
	`DROP RETENTION POLICY rp ON db1`,
	`CREATE USER eve WITH PASSWORD 'x'`,
	`CREATE USER eve WITH PASSWORD 'x' WITH ALL PRIVILEGES`,
	`DROP USER bob`,
	`SET PASSWORD FOR bob = 'y'`,
	`GRANT READ ON db1 TO bob`,
	`GRANT ALL ON db0 TO bob`,
	`GRANT ALL PRIVILEGES TO bob`,
	`REVOKE WRITE ON db1 FROM bob`,
	`REVOKE ALL PRIVILEGES FROM bob`,
	`CREATE CONTINUOUS QUERY cq ON db1 BEGIN SELECT mean(v) INTO out FROM cpu GROUP BY time(1m) END`,
	`CREATE CONTINUOUS QUERY cq ON db1 BEGIN SELECT mean(v) INTO db0..out FROM cpu GROUP BY time(1m) END`,
	`DROP CONTINUOUS QUERY cq ON db1`,
	`CREATE SUBSCRIPTION s ON db1.autogen DESTINATIONS ALL 'udp://h:1'`,
	`DROP SUBSCRIPTION s ON db1.autogen`,
	`DROP SHARD 1`,
	`SELECT * FROM _series`,
}

var malformedQueries = []string{`SELECT`, `SELEC * FROM cpu`, `;;`, `DROP`, `SELECT * FROM cpu;; GARBAGE`, `   `, `CREATE USER`}

func genPrivs(r *hx.Rand) map[string]int {
	m := map[string]int{}
	for _, db := range dbNames {
		if r.Chance(45) {
			m[db] = r.Intn(4)
		}
	}
	if r.Chance(6) {
		m[""] = 1 + r.Intn(3) // a grant keyed by the empty name (possible on the wire): must never stand in for a default database
	}
	if len(m) == 0 {
		return nil
	}
	return m
}

func genUsers(r *hx.Rand) []UserD {
	shape := r.Intn(10)
	n := 0
	switch shape {
	case 0:
		n = 0 // bootstrap state
	case 1:
		n = 1
	default:
		n = 1 + r.Intn(4)
	}
	perm := []int{0, 1, 2, 3, 4, 5, 6, 7}
	for i := len(perm) - 1; i > 0; i-- {
		j := r.Intn(i + 1)
		perm[i], perm[j] = perm[j], perm[i]
	}
	us := []UserD{}
	for i := 0; i < n; i++ {
		u := UserD{Name: userNames[perm[i]], Hash: r.Intn(2 * len(passwords)), Admin: r.Chance(30), Privs: genPrivs(r)}
		if r.Chance(3) {
			u.Hash = invalidHashID
		}
		us = append(us, u)
	}
	if shape == 2 { // nobody is admin: the middleware gate is open
		for i := range us {
			us[i].Admin = false
		}
	}
	if shape == 3 && n > 0 {
		us[0].Admin = true
	}
	return us
}

func pwOf(hashID int) (string, bool) {
	if hashID >= 0 && hashID < 2*len(passwords) {
		return passwords[hashID/2], true
	}
	return "", false
}

func genCred(r *hx.Rand, users []UserD) CredD {
	// whom to be
	name := userNames[r.Intn(len(userNames))]
	pw := passwords[r.Intn(len(passwords))]
	if len(users) > 0 && r.Chance(85) {
		u := users[r.Intn(len(users))]
		name = u.Name
		if p, ok := pwOf(u.Hash); ok && r.Chance(75) {
			pw = p
		}
	}
	c := CredD{}
	switch r.Intn(12) {
	case 0:
		// no credentials
	case 1, 2, 3:
		c.QU, c.QP = name, pw
	case 4, 5, 6:
		c.Hdr, c.Raw = "basic", name+":"+pw
	case 7:
		c.Hdr, c.Raw = "token", name+":"+pw
	case 8, 9:
		c.Hdr, c.JU = "bearer", name
		if r.Chance(35) {
			c.JWT = 1 + r.Intn(12)
		}
	case 10:
		// two carriers naming different people: parameters win
		c.QU, c.QP = name, pw
		other := userNames[r.Intn(len(userNames))]
		c.Hdr, c.Raw = "basic", other+":"+passwords[r.Intn(len(passwords))]
		if len(users) > 0 {
			u := users[r.Intn(len(users))]
			if p, ok := pwOf(u.Hash); ok {
				c.Raw = u.Name + ":" + p
			}
		}
	case 11:
		switch r.Intn(5) {
		case 0:
			c.Hdr = "other"
		case 1:
			c.Hdr, c.Raw = "basic", name // no colon
		case 2:
			c.Hdr, c.Raw = "token", name // no colon
		case 3:
			c.Hdr, c.Raw = "token", ":"+pw // empty user name
		case 4:
			c.QU = name // u without p, valid header next to it
			c.Hdr, c.Raw = "basic", name+":"+pw
		}
	}
	return c
}

func genQuery(r *hx.Rand) string {
	n := 1
	switch r.Intn(10) {
	case 0, 1, 2:
		n = 2
	case 3:
		n = 3 + r.Intn(3)
	}
	parts := []string{}
	for i := 0; i < n; i++ {
		parts = append(parts, stmtTemplates[r.Intn(len(stmtTemplates))])
	}
	if r.Chance(8) {
		parts[0] = `CREATE USER eve WITH PASSWORD 'x' WITH ALL PRIVILEGES`
	}
	return strings.Join(parts, "; ")
}

func genDB(r *hx.Rand) string {
	switch r.Intn(8) {
	case 0:
		return ""
	case 1:
		return "nosuchdb"
	default:
		return dbNames[r.Intn(len(dbNames))]
	}
}

func genReq(r *hx.Rand, users []UserD) ReqD {
	rd := ReqD{Cred: genCred(r, users), DB: genDB(r)}
	switch r.Intn(10) {
	case 0, 1:
		rd.Kind = "write"
	case 2:
		rd.Kind = "write2"
	default:
		rd.Kind = "query"
		rd.HasQ = !r.Chance(3)
		rd.Q = genQuery(r)
		if r.Chance(4) {
			rd.Q = malformedQueries[r.Intn(len(malformedQueries))]
		}
		if r.Chance(30) {
			rd.Method = "GET"
		} else {
			rd.Method = "POST"
		}
	}
	return rd
}

func genReqCase(r *hx.Rand) reqCaseD {
	d := reqCaseD{Users: genUsers(r), Secret: !r.Chance(10)}
	for _, db := range dbNames {
		if r.Chance(80) {
			d.DBs = append(d.DBs, db)
		}
	}
	n := 1 + r.Intn(3)
	for i := 0; i < n; i++ {
		rq := genReq(r, d.Users)
		if i > 0 && r.Chance(40) {
			// same person again: second request goes through the cache
			rq.Cred = d.Reqs[0].Cred
		}
		d.Reqs = append(d.Reqs, rq)
	}
	return d
}

// ---- requests MIXING privileges that name a database with privileges that fall back to the
// request's default database, in every order.  %s = a database the user holds a grant on.
var explicitElems = []string{
	`SELECT * FROM %s..cpu`,
	`SELECT * FROM %s.autogen.cpu`,
	`SHOW TAG KEYS ON %s`,
	`SHOW SERIES ON %s`,
	`SHOW MEASUREMENTS ON %s`,
	`SHOW FIELD KEYS ON %s`,
	`SHOW RETENTION POLICIES ON %s`,
	`SHOW TAG VALUES ON %s WITH KEY = host`,
	`SHOW SERIES EXACT CARDINALITY ON %s`,
	`DROP CONTINUOUS QUERY cq ON %s`,
	`DROP RETENTION POLICY rp ON %s`,
	`SELECT * INTO %[1]s..out FROM %[1]s..cpu`,
	`EXPLAIN SELECT * FROM %s..cpu`,
}
var defaultElems = []string{
	`SELECT * FROM cpu`,
	`SHOW SERIES`,
	`SHOW TAG KEYS`,
	`SHOW MEASUREMENTS`,
	`SHOW FIELD KEYS`,
	`SHOW RETENTION POLICIES`,
	`SHOW QUERIES`,
	`SHOW CONTINUOUS QUERIES`,
	`DELETE FROM cpu`,
	`DROP SERIES FROM cpu`,
	`SELECT * INTO out FROM cpu`,
	`EXPLAIN SELECT * FROM cpu`,
	`SHOW SERIES EXACT CARDINALITY FROM cpu`,
}

// one SELECT whose sources (and optional INTO target) mix the two kinds in the given order
func mixedSelect(r *hx.Rand, g string) string {
	n := 2 + r.Intn(3)
	srcs := []string{}
	for i := 0; i < n; i++ {
		switch r.Intn(4) {
		case 0:
			srcs = append(srcs, fmt.Sprintf("%s..m%d", g, i))
		case 1:
			srcs = append(srcs, fmt.Sprintf("m%d", i))
		case 2:
			srcs = append(srcs, fmt.Sprintf("(SELECT v FROM %s..s%d)", g, i))
		default:
			srcs = append(srcs, fmt.Sprintf("(SELECT v FROM s%d)", i))
		}
	}
	into := ""
	switch r.Intn(5) {
	case 0:
		into = " INTO out"
	case 1:
		into = fmt.Sprintf(" INTO %s..out", g)
	}
	return "SELECT *" + into + " FROM " + strings.Join(srcs, ", ")
}

type mixedD struct {
	Users []UserD
	User  UserD
	PW    string
	Q     string
	DB    string
}

func genMixed(r *hx.Rand) mixedD {
	gi := r.Intn(len(dbNames))
	g := dbNames[gi]
	// the request's default database: one the user holds no (or a useless) grant on
	def := []string{dbNames[(gi+1+r.Intn(len(dbNames)-1))%len(dbNames)], "", "nosuchdb"}[r.Intn(3)]
	if r.Chance(60) {
		def = dbNames[(gi+1+r.Intn(len(dbNames)-1))%len(dbNames)]
	}
	privs := map[string]int{g: 1 + r.Intn(3)}
	if r.Chance(25) && def != "" {
		privs[def] = []int{0, 1, 2}[r.Intn(3)] // sometimes a partial grant on the default as well
	}
	if r.Chance(15) {
		other := dbNames[(gi+2)%len(dbNames)]
		if other != def {
			privs[other] = 1 + r.Intn(3)
		}
	}
	hid := 2 * r.Intn(len(passwords))
	pw, _ := pwOf(hid)
	if pw == "" {
		hid, pw = 0, passwords[0]
	}
	u := UserD{Name: "mix", Hash: hid, Privs: privs}
	n := 2 + r.Intn(3)
	parts := []string{}
	for i := 0; i < n; i++ {
		switch r.Intn(5) {
		case 0, 1:
			parts = append(parts, fmt.Sprintf(explicitElems[r.Intn(len(explicitElems))], g))
		case 2, 3:
			parts = append(parts, defaultElems[r.Intn(len(defaultElems))])
		default:
			parts = append(parts, mixedSelect(r, g))
		}
	}
	if r.Chance(25) {
		parts = []string{mixedSelect(r, g)}
	}
	return mixedD{Users: []UserD{{Name: "root", Hash: 0, Admin: true}, u}, User: u, PW: pw, Q: strings.Join(parts, "; "), DB: def}
}

func runMixed(e *env, o *hx.Out, m mixedD, origin string, viaHTTP bool) {
	o.Count("mixed:explicit+default-request")
	if !viaHTTP {
		u := m.User
		runAuthz(e, o, authzD{Users: m.Users, User: &u, Q: m.Q, DB: m.DB}, origin)
		return
	}
	cr := CredD{Hdr: "basic", Raw: m.User.Name + ":" + m.PW}
	runReqCase(e, o, reqCaseD{Users: m.Users, DBs: dbNames, Secret: true,
		Reqs: []ReqD{{Kind: "query", Method: "POST", Q: m.Q, HasQ: true, DB: m.DB, Cred: cr}}}, origin)
}

// every ordered pair / sandwich of (element naming a granted database, element using the
// default database) for a user who holds READ, WRITE or ALL on db1 only; default = db0, "", unknown
func designedMixed(e *env, o *hx.Out) {
	g := "db1"
	k := 0
	for _, priv := range []int{1, 2, 3} {
		u := UserD{Name: "mix", Hash: 2, Privs: map[string]int{g: priv}}
		users := []UserD{{Name: "root", Hash: 0, Admin: true}, u}
		for ei, et := range explicitElems {
			ex := fmt.Sprintf(et, g)
			for di, de := range defaultElems {
				if (ei+di+priv)%3 != 0 { // a third of the grid per privilege level: the whole grid over the three levels
					continue
				}
				def := []string{"db0", "db0", "", "nosuchdb"}[k%4]
				k++
				forms := []string{ex + "; " + de, de + "; " + ex}
				if k%2 == 0 {
					forms = []string{ex + "; " + de, de + "; " + ex + "; " + de}
				} else if k%3 == 0 {
					forms = []string{ex + "; " + ex + "; " + de, de + "; " + ex}
				}
				for _, q := range forms {
					runMixed(e, o, mixedD{Users: users, User: u, PW: "secret1", Q: q, DB: def}, "designed", k%5 == 0)
				}
			}
		}
		for _, q := range []string{
			`SELECT * FROM db1..cpu, cpu`, `SELECT * FROM cpu, db1..cpu`, `SELECT * FROM db1..a, b, db1..c`,
			`SELECT * FROM (SELECT v FROM db1..cpu), mem`, `SELECT * FROM (SELECT v FROM db1..cpu, mem)`,
			`SELECT * INTO out FROM db1..cpu`, `SELECT * INTO db1..out FROM cpu`, `SELECT * INTO out FROM db1..cpu, mem`,
			`SHOW SERIES EXACT CARDINALITY FROM db1..cpu, mem`,
			`CREATE CONTINUOUS QUERY cq ON db1 BEGIN SELECT mean(v) INTO db1..out FROM cpu GROUP BY time(1m) END; SELECT * FROM cpu`,
		} {
			for _, def := range []string{"db0", ""} {
				runMixed(e, o, mixedD{Users: users, User: u, PW: "secret1", Q: q, DB: def}, "designed", true)
				runMixed(e, o, mixedD{Users: users, User: u, PW: "secret1", Q: q, DB: def}, "designed", false)
			}
		}
	}
}

// ---- sessions

var privWord = map[int]string{1: "READ", 2: "WRITE", 3: "ALL"}
var simplePW = []int{0, 1, 6} // pool passwords that can be written in a SET PASSWORD literal

func basicOf(name, pw string) *CredD { return &CredD{Hdr: "basic", Raw: name + ":" + pw} }

func probeReqs(name, pw string) []SeqStepD {
	cr := *basicOf(name, pw)
	return []SeqStepD{
		{Op: "req", Req: &ReqD{Kind: "query", Method: "GET", Q: "SELECT * FROM cpu", HasQ: true, DB: "db0", Cred: cr}},
		{Op: "req", Req: &ReqD{Kind: "write", DB: "db0", Cred: cr}},
		{Op: "req", Req: &ReqD{Kind: "query", Method: "POST", Q: "DELETE FROM cpu", HasQ: true, DB: "db0", Cred: cr}},
		{Op: "req", Req: &ReqD{Kind: "query", Method: "GET", Q: "SELECT * FROM cpu", HasQ: true, DB: "db1", Cred: cr}},
		{Op: "req", Req: &ReqD{Kind: "query", Method: "GET", Q: "SHOW USERS", HasQ: true, DB: "db0", Cred: cr}},
	}
}

// every held x granted/revoked combination, admin flag set/unset, password change, removal -
// each driven through the real executor by an administrator, with the affected user's
// requests (same credentials, so the second round goes through the credential cache) before and after
func designedSeq(e *env, o *hx.Out) {
	root := UserD{Name: "root", Hash: 0, Admin: true}
	rootCred := basicOf("root", "pw0")
	probes := func(name, pw string, full bool) []SeqStepD {
		p := probeReqs(name, pw)
		if full {
			return p
		}
		return []SeqStepD{p[0], p[1], p[3]} // read db0, write db0, read db1 (must stay untouched)
	}
	session := func(bob UserD, bobPW string, stmt string, hash int, after ...SeqStepD) {
		full := bob.Admin || strings.Contains(stmt, "PRIVILEGES") || strings.Contains(stmt, "ghost")
		steps := []SeqStepD{{Op: "set", Users: []UserD{root, bob}, DBs: []string{"db0", "db1"}}}
		steps = append(steps, probes("bob", bobPW, full)...)
		steps = append(steps, SeqStepD{Op: "stmt", Q: stmt, DB: "db0", Cred: rootCred, Hash: hash})
		steps = append(steps, probes("bob", bobPW, full)...)
		steps = append(steps, after...)
		runSeq(e, o, seqD{Secret: true, Steps: steps}, "designed")
	}
	for held := -1; held <= 3; held++ { // -1: no entry at all
		privs := map[string]int{"db1": 1}
		if held >= 0 {
			privs["db0"] = held
		}
		bob := UserD{Name: "bob", Hash: 2, Privs: privs}
		for p := 1; p <= 3; p++ {
			session(bob, "secret1", fmt.Sprintf("REVOKE %s ON db0 FROM bob", privWord[p]), 0)
			session(bob, "secret1", fmt.Sprintf("GRANT %s ON db0 TO bob", privWord[p]), 0)
		}
	}
	for _, adm := range []bool{true, false} {
		bob := UserD{Name: "bob", Hash: 2, Admin: adm, Privs: map[string]int{"db0": 1}}
		session(bob, "secret1", "REVOKE ALL PRIVILEGES FROM bob", 0)
		session(bob, "secret1", "GRANT ALL PRIVILEGES TO bob", 0)
		session(bob, "secret1", "SET PASSWORD FOR bob = 'pw0'", 1, probeReqs("bob", "pw0")...)
		session(bob, "secret1", "SET PASSWORD FOR bob = 'secret1'", 3) // same password, new hash
		session(bob, "secret1", "DROP USER bob", 0)
	}
	bob := UserD{Name: "bob", Hash: 2, Privs: map[string]int{"db0": 3}}
	// refused or failing statements change nothing
	for _, q := range []string{"REVOKE ALL ON db0 FROM ghost", "REVOKE READ ON db0 FROM ghost", "GRANT READ ON nosuchdb TO bob", "DROP USER ghost", "SET PASSWORD FOR ghost = 'pw0'"} {
		session(bob, "secret1", q, 0)
	}
	for _, cr := range []*CredD{basicOf("bob", "secret1"), basicOf("root", "wrong"), {}, {Hdr: "bearer", JU: "bob"}} {
		steps := []SeqStepD{{Op: "set", Users: []UserD{root, bob, {Name: "carol", Hash: 4, Privs: map[string]int{"db0": 1}}}, DBs: []string{"db0", "db1"}}}
		for _, q := range []string{"GRANT ALL PRIVILEGES TO bob", "GRANT ALL ON db1 TO bob", "REVOKE READ ON db0 FROM carol", "DROP USER root", "SET PASSWORD FOR root = 'pw0'"} {
			steps = append(steps, SeqStepD{Op: "stmt", Q: q, DB: "db0", Cred: cr, Hash: 1})
		}
		steps = append(steps, probeReqs("bob", "secret1")...)
		runSeq(e, o, seqD{Secret: true, Steps: steps}, "designed")
	}
	// dropping / demoting the only administrator: the middleware gate opens, nothing may run
	steps := []SeqStepD{{Op: "set", Users: []UserD{root, bob}, DBs: []string{"db0"}}}
	steps = append(steps, probeReqs("bob", "secret1")[:2]...)
	steps = append(steps, SeqStepD{Op: "stmt", Q: "REVOKE ALL PRIVILEGES FROM root", DB: "", Cred: rootCred})
	steps = append(steps, probeReqs("bob", "secret1")...)
	steps = append(steps, SeqStepD{Op: "req", Req: &ReqD{Kind: "write", DB: "db0"}})
	runSeq(e, o, seqD{Secret: true, Steps: steps}, "designed")
}

func genSeq(r *hx.Rand) seqD {
	d := seqD{Secret: !r.Chance(10)}
	mkTable := func() ([]UserD, []string) {
		us := genUsers(r)
		// make sure somebody can administer: first user admin with a usable password (mostly)
		if len(us) > 0 && r.Chance(85) {
			us[0].Admin = true
			us[0].Hash = simplePW[r.Intn(len(simplePW))] * 2
		}
		dbs := []string{}
		for _, db := range dbNames {
			if r.Chance(85) {
				dbs = append(dbs, db)
			}
		}
		return us, dbs
	}
	users, dbs := mkTable()
	d.Steps = append(d.Steps, SeqStepD{Op: "set", Users: users, DBs: dbs})
	pwNow := map[string]string{}
	for _, u := range users {
		if p, ok := pwOf(u.Hash); ok {
			pwNow[u.Name] = p
		}
	}
	anyUser := func() string {
		if len(users) > 0 && r.Chance(90) {
			return users[r.Intn(len(users))].Name
		}
		return userNames[r.Intn(len(userNames))]
	}
	n := 4 + r.Intn(6)
	for i := 0; i < n; i++ {
		switch k := r.Intn(10); {
		case k < 5:
			name := anyUser()
			pw := pwNow[name]
			if r.Chance(12) {
				pw = passwords[r.Intn(len(passwords))]
			}
			cr := CredD{Hdr: "basic", Raw: name + ":" + pw}
			if r.Chance(25) && name != "" && pw != "" {
				cr = CredD{QU: name, QP: pw}
			}
			rq := ReqD{Cred: cr, DB: genDB(r)}
			switch r.Intn(4) {
			case 0:
				rq.Kind = "write"
			default:
				rq.Kind, rq.Method, rq.HasQ = "query", "POST", true
				rq.Q = []string{"SELECT * FROM cpu", "DELETE FROM cpu", "SHOW USERS", "SELECT * INTO out FROM cpu", "SHOW MEASUREMENTS", "DROP DATABASE db1", "SELECT * FROM db1..cpu"}[r.Intn(7)]
			}
			d.Steps = append(d.Steps, SeqStepD{Op: "req", Req: &rq})
		case k < 9:
			target := anyUser()
			sender := ""
			if len(users) > 0 {
				sender = users[0].Name
				if r.Chance(15) {
					sender = anyUser()
				}
			}
			st := SeqStepD{Op: "stmt", DB: genDB(r), Cred: basicOf(sender, pwNow[sender])}
			db := dbNames[r.Intn(len(dbNames))]
			switch r.Intn(9) {
			case 0, 1, 2:
				st.Q = fmt.Sprintf("REVOKE %s ON %s FROM %q", privWord[1+r.Intn(3)], db, target)
			case 3, 4:
				st.Q = fmt.Sprintf("GRANT %s ON %s TO %q", privWord[1+r.Intn(3)], db, target)
			case 5:
				st.Q = fmt.Sprintf("REVOKE ALL PRIVILEGES FROM %q", target)
			case 6:
				st.Q = fmt.Sprintf("GRANT ALL PRIVILEGES TO %q", target)
			case 7:
				pi := simplePW[r.Intn(len(simplePW))]
				st.Hash = 2*pi + r.Intn(2)
				st.Q = fmt.Sprintf("SET PASSWORD FOR %q = '%s'", target, passwords[pi])
				// bookkeeping for later credentials (whether or not it is authorised: senders are mostly admins)
				if _, ok := pwNow[target]; ok && sender == users[0].Name && users[0].Admin {
					pwNow[target] = passwords[pi]
				}
			default:
				st.Q = fmt.Sprintf("DROP USER %q", target)
			}
			d.Steps = append(d.Steps, st)
		default:
			users, dbs = mkTable()
			pwNow = map[string]string{}
			for _, u := range users {
				if p, ok := pwOf(u.Hash); ok {
					pwNow[u.Name] = p
				}
			}
			d.Steps = append(d.Steps, SeqStepD{Op: "set", Users: users, DBs: dbs})
		}
	}
	return d
}

func genAuthz(r *hx.Rand) authzD {
	d := authzD{Users: genUsers(r), Q: genQuery(r), DB: genDB(r)}
	switch r.Intn(10) {
	case 0:
		// no user
	case 1:
		u := UserD{Name: "ghost", Hash: 0, Admin: r.Bool(), Privs: genPrivs(r)} // not in the table
		d.User = &u
	default:
		if len(d.Users) > 0 {
			u := d.Users[r.Intn(len(d.Users))]
			d.User = &u
		}
	}
	return d
}

func genHist(r *hx.Rand) histD {
	d := histD{}
	names := userNames[:4]
	known := map[string][]string{} // passwords a user ever had
	cur := map[string]string{}
	create := func(name string) {
		h := r.Intn(2 * len(passwords))
		d.Evs = append(d.Evs, HistEvD{Op: "create_user", Name: name, Hash: h, Admin: r.Chance(40)})
		if _, ok := cur[name]; !ok {
			cur[name] = passwords[h/2]
			known[name] = append(known[name], passwords[h/2])
		}
	}
	if r.Chance(85) {
		d.Evs = append(d.Evs, HistEvD{Op: "create_db", DB: "db0"})
	}
	for i, n := 0, 1+r.Intn(3); i < n; i++ {
		create(names[r.Intn(len(names))])
	}
	if r.Chance(90) {
		d.Evs = append(d.Evs, HistEvD{Op: "publish"})
	}
	n := 6 + r.Intn(16)
	for i := 0; i < n; i++ {
		name := names[r.Intn(len(names))]
		if len(known) > 0 && r.Chance(80) {
			ks := make([]string, 0, len(known))
			for _, nm := range names {
				if _, ok := known[nm]; ok {
					ks = append(ks, nm)
				}
			}
			name = ks[r.Intn(len(ks))]
		}
		switch k := r.Intn(24); {
		case k < 2:
			create(name)
		case k < 5:
			h := r.Intn(2 * len(passwords))
			d.Evs = append(d.Evs, HistEvD{Op: "update_user", Name: name, Hash: h})
			if _, ok := cur[name]; ok {
				cur[name] = passwords[h/2]
				known[name] = append(known[name], passwords[h/2])
			}
		case k < 6:
			d.Evs = append(d.Evs, HistEvD{Op: "drop_user", Name: name})
			delete(cur, name)
		case k < 7:
			d.Evs = append(d.Evs, HistEvD{Op: "set_priv", Name: name, DB: dbNames[r.Intn(2)], Priv: r.Intn(4)})
		case k < 8:
			d.Evs = append(d.Evs, HistEvD{Op: "set_admin", Name: name, Admin: r.Bool()})
		case k < 9:
			if r.Bool() {
				d.Evs = append(d.Evs, HistEvD{Op: "create_db", DB: dbNames[r.Intn(2)]})
			} else {
				d.Evs = append(d.Evs, HistEvD{Op: "drop_db", DB: dbNames[r.Intn(2)]})
			}
		case k < 13:
			d.Evs = append(d.Evs, HistEvD{Op: "publish"})
		default:
			pw := passwords[r.Intn(len(passwords))]
			if ks := known[name]; len(ks) > 0 && r.Chance(90) {
				pw = ks[r.Intn(len(ks))] // current or an earlier password
				if c, ok := cur[name]; ok && r.Chance(50) {
					pw = c
				}
			}
			d.Evs = append(d.Evs, HistEvD{Op: "auth", Name: name, PW: pw})
		}
	}
	return d
}

// ---------------------------------------------------------------- designed cases

func designed(e *env, o *hx.Out) {
	admin := UserD{Name: "root", Hash: 0, Admin: true}
	// every statement kind alone, for: reader of db0 only, writer of db0, all on db1, nobody, admin, no user; default db0/db1/""
	lattice := []UserD{
		{Name: "r0", Hash: 2, Privs: map[string]int{"db0": 1}},
		{Name: "w0", Hash: 2, Privs: map[string]int{"db0": 2}},
		{Name: "a1", Hash: 2, Privs: map[string]int{"db1": 3}},
		{Name: "n0", Hash: 2, Privs: map[string]int{"db0": 0, "db1": 0}},
		{Name: "rw", Hash: 2, Privs: map[string]int{"db0": 1, "db1": 2}},
		{Name: "none", Hash: 2},
	}
	table := append([]UserD{admin}, lattice...)
	for ti, t := range stmtTemplates {
		for ui := range lattice {
			u := lattice[ui]
			db := []string{"db0", "db1", ""}[(ti+ui)%3]
			runAuthz(e, o, authzD{Users: []UserD{admin, u}, User: &u, Q: t, DB: db}, "designed")
		}
	}
	// a grant keyed by the empty database name never covers the request's default database
	emptyKey := UserD{Name: "ek", Hash: 2, Privs: map[string]int{"": 3}}
	for _, t := range []string{`SELECT * FROM cpu`, `DELETE FROM cpu`, `SHOW MEASUREMENTS`, `SELECT * FROM db1..cpu`} {
		for _, db := range []string{"db1", ""} {
			runAuthz(e, o, authzD{Users: []UserD{admin, emptyKey}, User: &emptyKey, Q: t, DB: db}, "designed")
		}
	}
	for _, t := range stmtTemplates[:20] {
		runAuthz(e, o, authzD{Users: table, User: &admin, Q: t, DB: ""}, "designed")
		runAuthz(e, o, authzD{Users: table, User: nil, Q: t, DB: "db0"}, "designed")
		runAuthz(e, o, authzD{Users: nil, User: nil, Q: t, DB: "db0"}, "designed")
	}
	// bootstrap: first statement creates an admin, alone and followed by others
	boot := `CREATE USER eve WITH PASSWORD 'x' WITH ALL PRIVILEGES`
	for _, q := range []string{boot, boot + `; DROP DATABASE db1`, boot + `; SELECT * FROM db1..cpu; DROP USER eve`,
		`DROP DATABASE db1; ` + boot, `CREATE USER eve WITH PASSWORD 'x'`, `SHOW DATABASES`} {
		runAuthz(e, o, authzD{Users: nil, User: nil, Q: q, DB: ""}, "designed")
		for _, cr := range []CredD{{}, {QU: "eve", QP: "x"}, {Hdr: "bearer", JU: "eve"}} {
			runReqCase(e, o, reqCaseD{Users: nil, DBs: []string{"db0", "db1"}, Secret: true,
				Reqs: []ReqD{{Kind: "query", Method: "POST", Q: q, HasQ: true, DB: "db0", Cred: cr}}}, "designed")
		}
	}
	runReqCase(e, o, reqCaseD{Users: nil, DBs: []string{"db0"}, Secret: true, Reqs: []ReqD{{Kind: "write", DB: "db0"}, {Kind: "write2", DB: "db0"}}}, "designed")
	// SHOW DATABASES / SHOW CONTINUOUS QUERIES for every member of the lattice, no credentials, bootstrap
	for _, u := range table {
		pw, _ := pwOf(u.Hash)
		for _, q := range []string{`SHOW DATABASES`, `SHOW CONTINUOUS QUERIES`} {
			runShow(e, o, showD{Users: table, DBs: []string{"db0", "db1", "other"}, Secret: true, Q: q, DB: "db0", Cred: CredD{Hdr: "basic", Raw: u.Name + ":" + pw}}, "designed")
		}
		runShow(e, o, showD{Users: table, DBs: []string{"db0", "db1", "other"}, Secret: true, Q: `SHOW DATABASES`, DB: "", Cred: CredD{Hdr: "bearer", JU: u.Name}}, "designed")
	}
	runShow(e, o, showD{Users: table, DBs: []string{"db0", "db1"}, Secret: true, Q: `SHOW DATABASES`, DB: "", Cred: CredD{}}, "designed")
	runShow(e, o, showD{Users: nil, DBs: []string{"db0", "db1"}, Secret: true, Q: `SHOW DATABASES`, DB: "", Cred: CredD{}}, "designed")
	runShow(e, o, showD{Users: nil, DBs: []string{"db0", "db1"}, Secret: true, Q: boot + `; SHOW DATABASES`, DB: "", Cred: CredD{}}, "designed")
	runShow(e, o, showD{Users: lattice, DBs: []string{"db0", "db1"}, Secret: true, Q: `SHOW DATABASES`, DB: "", Cred: CredD{QU: "r0", QP: "secret1"}}, "designed")
	// write authoriser lattice
	for _, u := range table {
		for _, db := range []string{"db0", "db1", "", "nosuchdb"} {
			runWriteAz(e, o, writeAzD{Users: table, Name: u.Name, DB: db}, "designed")
		}
	}
	runWriteAz(e, o, writeAzD{Users: table, Name: "ghost", DB: "db0"}, "designed")
	// every carrier x right/wrong password x a read and a write
	for _, secret := range []bool{true, false} {
		for ci := 0; ci < 10; ci++ {
			for _, good := range []bool{true, false} {
				pw := "secret1"
				if !good {
					pw = "pw0"
				}
				var c CredD
				switch ci {
				case 0:
					c = CredD{QU: "r0", QP: pw}
				case 1:
					c = CredD{Hdr: "basic", Raw: "r0:" + pw}
				case 2:
					c = CredD{Hdr: "token", Raw: "r0:" + pw}
				case 3:
					c = CredD{Hdr: "bearer", JU: "r0"}
					if !good {
						c.JWT = 1
					}
				case 4:
					c = CredD{Hdr: "bearer", JU: "r0", JWT: 2}
				case 5:
					c = CredD{Hdr: "bearer", JU: "r0", JWT: 3}
				case 6:
					c = CredD{Hdr: "bearer", JU: "r0", JWT: 5}
				case 7:
					c = CredD{Hdr: "bearer", JU: "ghost"}
				case 8:
					c = CredD{QU: "w0", QP: pw}
				case 9:
					c = CredD{}
				}
				runReqCase(e, o, reqCaseD{Users: table, DBs: []string{"db0", "db1"}, Secret: secret, Reqs: []ReqD{
					{Kind: "query", Method: "GET", Q: "SELECT * FROM cpu", HasQ: true, DB: "db0", Cred: c},
					{Kind: "write", DB: "db0", Cred: c},
					{Kind: "query", Method: "POST", Q: "SELECT * FROM cpu; DROP DATABASE db0", HasQ: true, DB: "db0", Cred: c},
				}}, "designed")
			}
		}
	}
	// every defective token class once, with the shared secret configured (only class 0 is admitted)
	for cls := 1; cls <= 12; cls++ {
		runReqCase(e, o, reqCaseD{Users: table, DBs: []string{"db0", "db1"}, Secret: true, Reqs: []ReqD{
			{Kind: "query", Method: "GET", Q: "SELECT * FROM cpu", HasQ: true, DB: "db0", Cred: CredD{Hdr: "bearer", JU: "r0", JWT: cls}},
			{Kind: "write", DB: "db0", Cred: CredD{Hdr: "bearer", JU: "w0", JWT: cls}},
		}}, "designed")
	}
	// password change / drop / revoke reaching the node with a populated cache
	runHist(e, o, histD{Evs: []HistEvD{
		{Op: "create_db", DB: "db0"}, {Op: "create_user", Name: "alice", Hash: 0, Admin: true}, {Op: "publish"},
		{Op: "auth", Name: "alice", PW: "pw0"}, {Op: "auth", Name: "alice", PW: "pw0"}, {Op: "auth", Name: "alice", PW: "secret1"},
		{Op: "update_user", Name: "alice", Hash: 2}, {Op: "auth", Name: "alice", PW: "pw0"}, {Op: "publish"},
		{Op: "auth", Name: "alice", PW: "pw0"}, {Op: "auth", Name: "alice", PW: "secret1"}, {Op: "auth", Name: "alice", PW: "pw0"},
		{Op: "update_user", Name: "alice", Hash: 3}, {Op: "publish"}, {Op: "auth", Name: "alice", PW: "secret1"},
		{Op: "drop_user", Name: "alice"}, {Op: "publish"}, {Op: "auth", Name: "alice", PW: "secret1"},
		{Op: "create_user", Name: "alice", Hash: 4, Admin: false}, {Op: "publish"}, {Op: "auth", Name: "alice", PW: "secret1"}, {Op: "auth", Name: "alice", PW: "p:w"},
	}}, "designed")
	// drop + re-create with another password between two snapshots
	runHist(e, o, histD{Evs: []HistEvD{
		{Op: "create_user", Name: "bob", Hash: 0, Admin: true}, {Op: "publish"}, {Op: "auth", Name: "bob", PW: "pw0"},
		{Op: "drop_user", Name: "bob"}, {Op: "create_user", Name: "bob", Hash: 2, Admin: true}, {Op: "publish"},
		{Op: "auth", Name: "bob", PW: "pw0"}, {Op: "auth", Name: "bob", PW: "secret1"},
	}}, "designed")
	// the metadata swap lands while Authenticate is inside bcrypt
	runRace(e, o, raceD{Name: "alice", PWOld: "old-password", PWNew: "new-password", Cost: 11, DelayMs: 25}, "designed")
}

// ---------------------------------------------------------------- main

func runInput(e *env, o *hx.Out, in hx.Input, origin string) {
	switch in.Kind {
	case "authz":
		var d authzD
		must(json.Unmarshal(in.Desc, &d))
		runAuthz(e, o, d, origin)
	case "writeaz":
		var d writeAzD
		must(json.Unmarshal(in.Desc, &d))
		runWriteAz(e, o, d, origin)
	case "hist":
		var d histD
		must(json.Unmarshal(in.Desc, &d))
		runHist(e, o, d, origin)
	case "req":
		var d reqCaseD
		must(json.Unmarshal(in.Desc, &d))
		runReqCase(e, o, d, origin)
	case "seq":
		var d seqD
		must(json.Unmarshal(in.Desc, &d))
		runSeq(e, o, d, origin)
	case "show":
		var d showD
		must(json.Unmarshal(in.Desc, &d))
		runShow(e, o, d, origin)
	case "race":
		var d raceD
		must(json.Unmarshal(in.Desc, &d))
		runRace(e, o, d, origin)
	case "dbread":
		var d dbreadD
		must(json.Unmarshal(in.Desc, &d))
		runDBRead(e, o, d, origin)
	default:
		panic("unknown input kind " + in.Kind)
	}
}

func must(err error) {
	if err != nil {
		panic(err)
	}
}

func main() {
	f := hx.ParseFlags()
	o := hx.NewOut(f.OutDir)
	defer o.Close()
	e := newEnv()
	if f.In != "" {
		for _, in := range hx.ReadInputs(f.In) {
			runInput(e, o, in, "corpus")
		}
		return
	}
	designed(e, o)
	designedMixed(e, o)
	designedSeq(e, o)
	designedDBRead(e, o)
	r := hx.NewRand(f.Seed)
	races := 1
	if f.Tier == "thorough" {
		races = 6
	}
	for i := 0; i < races; i++ {
		runRace(e, o, raceD{Name: userNames[r.Intn(3)], PWOld: passwords[r.Intn(3)], PWNew: "n" + passwords[r.Intn(3)], Cost: 10 + r.Intn(2), DelayMs: 5 + r.Intn(25)}, "gen")
	}
	for i := 0; i < f.N; i++ {
		switch k := i % 20; {
		case k < 6:
			runReqCase(e, o, genReqCase(r), "gen")
		case k < 9:
			runSeq(e, o, genSeq(r), "gen")
		case k < 11:
			runShow(e, o, genShow(r), "gen")
		case k < 13:
			runAuthz(e, o, genAuthz(r), "gen")
		case k < 15:
			runMixed(e, o, genMixed(r), "gen", k == 14)
		case k < 16:
			us := genUsers(r)
			name := userNames[r.Intn(len(userNames))]
			if len(us) > 0 && r.Chance(80) {
				name = us[r.Intn(len(us))].Name
			}
			runWriteAz(e, o, writeAzD{Users: us, Name: name, DB: genDB(r)}, "gen")
		case k < 18:
			runDBRead(e, o, genDBRead(r), "gen")
		default:
			runHist(e, o, genHist(r), "gen")
		}
	}
}
