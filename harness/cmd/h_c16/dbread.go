// dbread: which databases does an authorised SHOW statement really read?
// The request goes through the real httpd.Handler (auth on, real QueryAuthorizer) into the real
// query.Executor (RewriteStatement, NormalizeStatement) and the real coordinator.StatementExecutor
// over a real tsdb.Store holding one shard per database.  The TSDBStore / shard mapper handed to
// the executor are wrapped: every call is attributed to the database(s) whose index/shards it
// touches.  In addition the answer is searched for names that exist in one database only.
package main

import (
	"context"
	"fmt"
	"net/http/httptest"
	"os"
	"sort"
	"strings"
	"sync"
	"time"

	"github.com/influxdata/influxdb/coordinator"
	"github.com/influxdata/influxdb/models"
	"github.com/influxdata/influxdb/pkg/estimator"
	"github.com/influxdata/influxdb/query"
	"github.com/influxdata/influxdb/services/httpd"
	"github.com/influxdata/influxdb/services/meta"
	"github.com/influxdata/influxdb/tsdb"
	_ "github.com/influxdata/influxdb/tsdb/engine"
	_ "github.com/influxdata/influxdb/tsdb/index"
	"github.com/influxdata/influxql"
	"verifharness/hx"
)

// ---------------------------------------------------------------- recording store

type touchRec struct {
	mu      sync.Mutex
	reads   map[string]bool
	writes  map[string]bool
	shardDB map[uint64]string
	known   map[string]bool
}

func (t *touchRec) read(db string) {
	t.mu.Lock()
	if t.known[db] {
		t.reads[db] = true
	}
	t.mu.Unlock()
}
func (t *touchRec) write(db string) {
	t.mu.Lock()
	if t.known[db] {
		t.writes[db] = true
	}
	t.mu.Unlock()
}
func (t *touchRec) readShards(ids []uint64) {
	for _, id := range ids {
		t.mu.Lock()
		db := t.shardDB[id]
		t.mu.Unlock()
		t.read(db)
	}
}
func (t *touchRec) reset() {
	t.mu.Lock()
	t.reads, t.writes = map[string]bool{}, map[string]bool{}
	t.mu.Unlock()
}
func keysOf(m map[string]bool) []string {
	out := []string{}
	for k := range m {
		out = append(out, k)
	}
	sort.Strings(out)
	return out
}

// recStore is the coordinator.TSDBStore given to the executor.
type recStore struct {
	*tsdb.Store
	t *touchRec
}

func (s *recStore) ShardGroup(ids []uint64) tsdb.ShardGroup {
	s.t.readShards(ids)
	return s.Store.ShardGroup(ids)
}
func (s *recStore) MeasurementNames(ctx context.Context, auth query.FineAuthorizer, database string, rp string, cond influxql.Expr) ([][]byte, error) {
	s.t.read(database)
	return s.Store.MeasurementNames(ctx, auth, database, rp, cond)
}
func (s *recStore) TagKeys(ctx context.Context, auth query.FineAuthorizer, shardIDs []uint64, cond influxql.Expr) ([]tsdb.TagKeys, error) {
	s.t.readShards(shardIDs)
	return s.Store.TagKeys(ctx, auth, shardIDs, cond)
}
func (s *recStore) TagValues(ctx context.Context, auth query.FineAuthorizer, shardIDs []uint64, cond influxql.Expr) ([]tsdb.TagValues, error) {
	s.t.readShards(shardIDs)
	return s.Store.TagValues(ctx, auth, shardIDs, cond)
}
func (s *recStore) SeriesCardinality(ctx context.Context, database string) (int64, error) {
	s.t.read(database)
	return s.Store.SeriesCardinality(ctx, database)
}
func (s *recStore) MeasurementsCardinality(ctx context.Context, database string) (int64, error) {
	s.t.read(database)
	return s.Store.MeasurementsCardinality(ctx, database)
}
func (s *recStore) SeriesSketches(ctx context.Context, database string) (estimator.Sketch, estimator.Sketch, error) {
	s.t.read(database)
	return s.Store.SeriesSketches(ctx, database)
}
func (s *recStore) MeasurementsSketches(ctx context.Context, database string) (estimator.Sketch, estimator.Sketch, error) {
	s.t.read(database)
	return s.Store.MeasurementsSketches(ctx, database)
}

// the fixture is read-only: destructive statements are recorded, not performed
func (s *recStore) DeleteDatabase(name string) error { s.t.write(name); return nil }
func (s *recStore) DeleteMeasurement(database, name string) error {
	s.t.write(database)
	return nil
}
func (s *recStore) DeleteRetentionPolicy(database, name string) error {
	s.t.write(database)
	return nil
}
func (s *recStore) DeleteSeries(database string, sources []influxql.Source, condition influxql.Expr) error {
	s.t.write(database)
	return nil
}
func (s *recStore) DeleteShard(id uint64) error { return nil }

type intoRec struct{ t *touchRec }

func (w intoRec) WritePointsInto(r *coordinator.IntoWriteRequest) error {
	w.t.write(r.Database)
	return nil
}

// ---------------------------------------------------------------- fixture

type storeEnv struct {
	store *tsdb.Store
	t     *touchRec
	dbs   []meta.DatabaseInfo
	hSec  *httpd.Handler
	hNo   *httpd.Handler
}

var fixtureT0 = time.Unix(1577836800, 0).UTC() // 2020-01-01

func markersOf(db string) []string { return []string{"m_" + db, db + "_host", "v_" + db} }

func newStoreEnv(e *env) *storeEnv {
	dir, err := os.MkdirTemp("", "h_c16_store")
	must(err)
	st := tsdb.NewStore(dir + "/data")
	st.EngineOptions.Config.WALDir = dir + "/wal"
	st.EngineOptions.Config.Dir = dir + "/data"
	st.EngineOptions.IndexVersion = "tsi1" // the inmem index refuses the retention-policy filter of SHOW MEASUREMENTS ON *.*
	st.EngineOptions.CompactionDisabled = true
	must(st.Open())
	se := &storeEnv{store: st, t: &touchRec{shardDB: map[uint64]string{}, known: map[string]bool{}}}
	se.t.reset()
	for i, db := range dbNames {
		sid := uint64(i + 1)
		se.t.shardDB[sid] = db
		se.t.known[db] = true
		must(st.CreateShard(db, "autogen", sid, true))
		pts := []models.Point{}
		for _, m := range []string{"cpu", "m_" + db} {
			p, err := models.NewPoint(m, models.NewTags(map[string]string{"host": db + "_host", "region": "r"}),
				models.Fields{"v_" + db: 1.0, "value": 2.0}, fixtureT0.Add(time.Hour))
			must(err)
			pts = append(pts, p)
		}
		must(st.WriteToShard(sid, pts))
		se.dbs = append(se.dbs, meta.DatabaseInfo{Name: db, DefaultRetentionPolicy: "autogen",
			RetentionPolicies: []meta.RetentionPolicyInfo{{Name: "autogen", ReplicaN: 1, ShardGroupDuration: 7 * 24 * time.Hour,
				ShardGroups: []meta.ShardGroupInfo{{ID: sid, StartTime: fixtureT0, EndTime: fixtureT0.Add(7 * 24 * time.Hour),
					Shards: []meta.ShardInfo{{ID: sid, Owners: []meta.ShardOwner{{NodeID: 1}}}}}}}}})
	}
	rs := &recStore{Store: st, t: se.t}
	mk := func(secret string) *httpd.Handler {
		h := newHandler(e, true, secret)
		h.QueryExecutor = query.NewExecutor()
		h.QueryExecutor.StatementExecutor = &coordinator.StatementExecutor{
			MetaClient:  &execMeta{Client: e.c, e: e},
			TaskManager: h.QueryExecutor.TaskManager,
			TSDBStore:   rs,
			ShardMapper: &coordinator.LocalShardMapper{MetaClient: e.c, TSDBStore: rs},
			PointsWriter: intoRec{se.t},
		}
		return h
	}
	se.hSec, se.hNo = mk(sharedSecret), mk("")
	return se
}

func (e *env) storeDataOf(se *storeEnv, users []UserD) *meta.Data {
	d := e.dataOf(users, nil)
	for _, di := range se.dbs {
		d.Databases = append(d.Databases, di)
	}
	d.MaxShardGroupID, d.MaxShardID = 100, 100
	return d
}

// ---------------------------------------------------------------- the SHOW family, abstracted

var showKindName = []string{"KFieldKeys", "KSeries", "KTagKeys", "KTagValues", "KMeasurements",
	"KSeriesCard", "KMeasCard", "KTagKeyCard", "KTagValuesCard", "KFieldKeyCard"}

type showAbs struct {
	kind  int
	on    string
	wild  int // SHOW MEASUREMENTS: 0 no database wildcard, 1 ON *.*, 2 another wildcard form (refused)
	exact bool
	plain bool // cardinality: the estimation path (no EXACT, sources, condition, dimensions, limit, offset)
	srcs  []string
}

func srcDBs(ss influxql.Sources) ([]string, bool) {
	out := []string{}
	for _, s := range ss {
		m, ok := s.(*influxql.Measurement)
		if !ok {
			return nil, false
		}
		out = append(out, m.Database)
	}
	return out, true
}

// abstractShow reads the fields of the parsed statement the model's relation is defined on.
func abstractShow(st influxql.Statement) (a showAbs, ok bool) {
	ok = true
	switch s := st.(type) {
	case *influxql.ShowFieldKeysStatement:
		a.kind, a.on = 0, s.Database
		a.srcs, ok = srcDBs(s.Sources)
	case *influxql.ShowSeriesStatement:
		a.kind, a.on = 1, s.Database
		a.srcs, ok = srcDBs(s.Sources)
	case *influxql.ShowTagKeysStatement:
		a.kind, a.on = 2, s.Database
		a.srcs, ok = srcDBs(s.Sources)
	case *influxql.ShowTagValuesStatement:
		a.kind, a.on = 3, s.Database
		a.srcs, ok = srcDBs(s.Sources)
	case *influxql.ShowMeasurementsStatement:
		a.kind, a.on = 4, s.Database
		if s.WildcardDatabase {
			a.wild = 2
			if s.WildcardRetentionPolicy && s.RetentionPolicy == "" {
				a.wild = 1
			}
		}
		if s.WildcardRetentionPolicy && !s.WildcardDatabase {
			return a, false // ON db.*: out of the modelled forms
		}
		if s.Source != nil {
			a.srcs, ok = srcDBs(influxql.Sources{s.Source})
		}
	case *influxql.ShowSeriesCardinalityStatement:
		a.kind, a.on, a.exact = 5, s.Database, s.Exact
		a.plain = !s.Exact && s.Sources == nil && s.Condition == nil && s.Dimensions == nil && s.Limit == 0 && s.Offset == 0
		a.srcs, ok = srcDBs(s.Sources)
	case *influxql.ShowMeasurementCardinalityStatement:
		a.kind, a.on, a.exact = 6, s.Database, s.Exact
		a.plain = !s.Exact && s.Sources == nil && s.Condition == nil && s.Dimensions == nil && s.Limit == 0 && s.Offset == 0
		a.srcs, ok = srcDBs(s.Sources)
	case *influxql.ShowTagKeyCardinalityStatement:
		a.kind, a.on, a.exact = 7, s.Database, s.Exact
		a.srcs, ok = srcDBs(s.Sources)
	case *influxql.ShowTagValuesCardinalityStatement:
		a.kind, a.on, a.exact = 8, s.Database, s.Exact
		a.srcs, ok = srcDBs(s.Sources)
	case *influxql.ShowFieldKeyCardinalityStatement:
		a.kind, a.on, a.exact = 9, s.Database, s.Exact
		a.srcs, ok = srcDBs(s.Sources)
	default:
		return a, false
	}
	return a, ok
}

func (a showAbs) coq() string {
	return fmt.Sprintf("(mkShow %s %s %d %s %s %s)", showKindName[a.kind], hx.CoqStr(a.on), a.wild,
		hx.CoqBool(a.exact), hx.CoqBool(a.plain), coqStrs(a.srcs))
}

// privileges the authoriser checks for one statement (real code)
func coqPrivsOf(st influxql.Statement) string {
	privs, err := meta.VerifStatementPrivileges(st)
	if err != nil {
		return "None"
	}
	ps := []string{}
	for _, p := range privs {
		ps = append(ps, fmt.Sprintf("mkRp %s %s %d", hx.CoqBool(p.Admin), hx.CoqStr(p.Name), int(p.Privilege)))
	}
	return "(Some " + hx.CoqList(ps) + ")"
}

// ---------------------------------------------------------------- the case

type dbreadD struct {
	Users  []UserD `json:"users"`
	Secret bool    `json:"secret"`
	Q      string  `json:"q"` // exactly one statement of the SHOW family
	DB     string  `json:"db"`
	Cred   CredD   `json:"cred"`
}

var theStoreEnv *storeEnv

func runDBRead(e *env, o *hx.Out, d dbreadD, origin string) {
	o.Begin("dbread", d)
	q, err := influxql.ParseQuery(d.Q)
	if err != nil || len(q.Statements) != 1 {
		o.Count("dbread:unparsable-or-not-one-statement-skipped")
		return
	}
	a, ok := abstractShow(q.Statements[0])
	if !ok {
		o.Count("dbread:not-a-modelled-show-form-skipped")
		return
	}
	privs := coqPrivsOf(q.Statements[0]) // before execution: the rewrite mutates the sources
	if theStoreEnv == nil {
		theStoreEnv = newStoreEnv(e)
	}
	se := theStoreEnv
	e.resetNode()
	e.publish(e.storeDataOf(se, d.Users))
	h := se.hNo
	if d.Secret {
		h = se.hSec
	}
	se.t.reset()
	rd := ReqD{Kind: "query", Method: "POST", Q: d.Q, HasQ: true, DB: d.DB, Cred: d.Cred}
	w := httptest.NewRecorder()
	status := 0
	func() {
		defer func() {
			if rec := recover(); rec != nil {
				status = 599
			}
		}()
		h.ServeHTTP(w, buildRequest(rd))
	}()
	if status == 0 {
		status = w.Code
	}
	se.t.mu.Lock()
	touched, written := keysOf(se.t.reads), keysOf(se.t.writes)
	se.t.mu.Unlock()
	body := w.Body.String()
	named := []string{}
	all := map[string]bool{}
	for _, db := range touched {
		all[db] = true
	}
	for _, db := range dbNames {
		for _, mk := range markersOf(db) {
			if strings.Contains(body, `"`+mk+`"`) || strings.Contains(body, "="+mk) {
				named = append(named, db)
				all[db] = true
				break
			}
		}
	}
	for _, db := range written {
		all[db] = true
	}
	reads := keysOf(all)
	allDBs := append([]string{}, dbNames...)
	coq := fmt.Sprintf("CDbRead %s %s %s %s %s %s %s %s %d %s", coqBC(), coqUsers(d.Users), coqStrs(allDBs), hx.CoqBool(d.Secret),
		coqCred(d.Cred), a.coq(), privs, hx.CoqStr(d.DB), status, coqStrs(reads))
	o.Count(fmt.Sprintf("dbread:status%d", status))
	o.Count(fmt.Sprintf("dbread:%s", showKindName[a.kind]))
	o.Count(fmt.Sprintf("dbread:reads%d", len(reads)))
	o.Count(fmt.Sprintf("dbread:srcs%d", len(a.srcs)))
	o.Emit(hx.Case{Kind: "dbread", Coq: coq, Desc: d,
		Obs:        map[string]interface{}{"status": status, "touched": touched, "named_in_answer": named, "written": written, "reads": reads, "answer": clip(body, 400)},
		Nontrivial: status == 200 || status == 403, Sig: "dbread:" + mustJSON(d), Origin: origin})
}

func clip(s string, n int) string {
	if len(s) > n {
		return s[:n] + "..."
	}
	return s
}

// ---------------------------------------------------------------- generation

var showForms = []string{
	`SHOW FIELD KEYS%ON%FROM`, `SHOW SERIES%ON%FROM`, `SHOW SERIES%ON%FROM WHERE time > 0`, `SHOW TAG KEYS%ON%FROM`,
	`SHOW TAG VALUES%ON%FROM WITH KEY = host`, `SHOW MEASUREMENTS%ON`, `SHOW MEASUREMENTS%ON WITH MEASUREMENT =~ /m_.*/`,
	`SHOW SERIES CARDINALITY%ON%FROM`, `SHOW SERIES EXACT CARDINALITY%ON%FROM`, `SHOW MEASUREMENT CARDINALITY%ON%FROM`,
	`SHOW MEASUREMENT EXACT CARDINALITY%ON%FROM`, `SHOW TAG KEY CARDINALITY%ON%FROM`, `SHOW TAG KEY EXACT CARDINALITY%ON%FROM`,
	`SHOW TAG VALUES CARDINALITY%ON%FROM WITH KEY = host`, `SHOW TAG VALUES EXACT CARDINALITY%ON%FROM WITH KEY = host`,
	`SHOW FIELD KEY CARDINALITY%ON%FROM`, `SHOW FIELD KEY EXACT CARDINALITY%ON%FROM`,
	`SHOW SERIES CARDINALITY%ON%FROM WHERE host != ''`, `SHOW SERIES CARDINALITY%ON%FROM LIMIT 5`,
}

func quoteDB(db string) string { return `"` + db + `"` }

// showQuery instantiates a form: on = "" (no ON clause) | "*.*" | a database; srcs = source databases ("" = unqualified)
func showQuery(form, on string, srcs []string) string {
	onTxt := ""
	switch on {
	case "":
	case "*.*", "*":
		onTxt = " ON " + on
	default:
		onTxt = " ON " + quoteDB(on)
	}
	fromTxt := ""
	if len(srcs) > 0 {
		parts := []string{}
		for i, s := range srcs {
			m := "cpu"
			if i%2 == 1 {
				m = "/.*/"
			}
			if s == "" {
				parts = append(parts, m)
			} else {
				parts = append(parts, quoteDB(s)+".."+m)
			}
		}
		fromTxt = " FROM " + strings.Join(parts, ", ")
	}
	q := strings.Replace(form, "%ON", onTxt, 1)
	return strings.Replace(q, "%FROM", fromTxt, 1)
}

func readerOf(dbs ...string) []UserD {
	p := map[string]int{}
	for _, d := range dbs {
		p[d] = 1
	}
	return []UserD{{Name: "root", Hash: 0, Admin: true}, {Name: "bob", Hash: 2, Admin: false, Privs: p}}
}

func designedDBRead(e *env, o *hx.Out) {
	bob := CredD{Hdr: "basic", Raw: "bob:secret1"}
	root := CredD{Hdr: "basic", Raw: "root:pw0"}
	users := readerOf("db0")
	for _, form := range showForms {
		for _, on := range []string{"", "db0", "db1"} {
			for _, srcs := range [][]string{nil, {""}, {"db1"}, {"", "db1"}, {"db0", "other"}} {
				if !strings.Contains(form, "%FROM") && srcs != nil {
					continue
				}
				for _, db := range []string{"db0", ""} {
					if db == "" && on != "" && srcs != nil && srcs[0] != "" {
						continue // the request default plays no part
					}
					runDBRead(e, o, dbreadD{Users: users, Secret: true, Q: showQuery(form, on, srcs), DB: db, Cred: bob}, "designed")
				}
			}
		}
	}
	for _, on := range []string{"*.*", "*"} {
		for _, db := range []string{"db0", "db1", ""} {
			for _, c := range []CredD{bob, root, {}} {
				runDBRead(e, o, dbreadD{Users: users, Secret: true, Q: showQuery(`SHOW MEASUREMENTS%ON`, on, nil), DB: db, Cred: c}, "designed")
			}
		}
		runDBRead(e, o, dbreadD{Users: readerOf("db0", "other"), Secret: true, Q: showQuery(`SHOW MEASUREMENTS%ON`, on, nil), DB: "db0", Cred: bob}, "designed")
	}
	// a database that does not exist, as ON clause and as source
	runDBRead(e, o, dbreadD{Users: readerOf("db0", "nodb"), Secret: true, Q: `SHOW FIELD KEYS ON db0 FROM nodb..cpu, db0..cpu`, DB: "db0", Cred: bob}, "designed")
	runDBRead(e, o, dbreadD{Users: readerOf("db0", "nodb"), Secret: true, Q: `SHOW TAG KEYS ON nodb`, DB: "db0", Cred: bob}, "designed")
	runDBRead(e, o, dbreadD{Users: readerOf("db0", "nodb"), Secret: true, Q: `SHOW SERIES CARDINALITY ON nodb`, DB: "db0", Cred: bob}, "designed")
}

func genDBRead(r *hx.Rand) dbreadD {
	d := dbreadD{Users: genUsers(r), Secret: !r.Chance(10), DB: genDB(r)}
	d.Cred = genCred(r, d.Users)
	form := showForms[r.Intn(len(showForms))]
	on := ""
	switch r.Intn(10) {
	case 0, 1, 2:
	case 3:
		on = "*.*"
		if strings.Contains(form, "MEASUREMENTS") && r.Chance(20) {
			on = "*"
		}
		if !strings.HasPrefix(form, "SHOW MEASUREMENTS") {
			on = dbNames[r.Intn(len(dbNames))]
		}
	default:
		on = dbNames[r.Intn(len(dbNames))]
	}
	var srcs []string
	if strings.Contains(form, "%FROM") {
		n := r.Intn(4)
		for i := 0; i < n; i++ {
			if r.Chance(35) {
				srcs = append(srcs, "")
			} else if r.Chance(4) {
				srcs = append(srcs, "nodb")
			} else {
				srcs = append(srcs, dbNames[r.Intn(len(dbNames))])
			}
		}
	}
	d.Q = showQuery(form, on, srcs)
	return d
}
