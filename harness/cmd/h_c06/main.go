// h_c06: correspondence harness for C06 (cluster metadata FSM).
// Every case is one command log applied, through the real storeFSM.Apply, to two
// independent replicas A and B (B applies later in wall-clock time and the deletion
// stamps of either replica can be aged, which is what a different wall clock amounts to),
// with the full metadata of A dumped after every command.
package main

import (
	"encoding/json"
	"fmt"
	"math"
	"math/big"
	"sort"
	"strings"
	"time"

	"github.com/influxdata/influxdb/services/meta"
	"verifharness/hx"
)

// ---------- command descriptions ----------

type Cmd struct {
	K    string   `json:"k"`
	Idx  uint64   `json:"idx"`
	Term uint64   `json:"term"`
	S    []string `json:"s,omitempty"`
	U    []uint64 `json:"u,omitempty"`
	I    []int64  `json:"i,omitempty"`
	B    []bool   `json:"b,omitempty"`
	AgeA bool     `json:"ageA,omitempty"` // before applying: A's deletion stamps get 15 days older
	AgeB bool     `json:"ageB,omitempty"`
}

type LogDesc struct {
	Auto bool  `json:"auto"` // config.RetentionAutoCreate of both replicas
	Cmds []Cmd `json:"cmds"`
}

var typeNo = map[string]uint64{
	"RemovePeer": 23, "CreateDatabase": 3, "DropDatabase": 4, "CreateRetentionPolicy": 5,
	"DropRetentionPolicy": 6, "UpdateRetentionPolicy": 8, "CreateShardGroup": 9, "DeleteShardGroup": 10,
	"CreateContinuousQuery": 11, "DropContinuousQuery": 12, "CreateSubscription": 21, "DropSubscription": 22,
	"CreateUser": 13, "DropUser": 14, "UpdateUser": 15, "SetPrivilege": 16, "SetAdminPrivilege": 18,
	"CreateMetaNode": 24, "DeleteMetaNode": 27, "SetMetaNode": 29, "CreateDataNode": 25, "DeleteDataNode": 28,
	"UpdateDataNode": 26, "DropShard": 30, "TruncateShardGroups": 31, "PruneShardGroups": 32,
	"CopyShardOwner": 33, "RemoveShardOwner": 34,
}

// ---------- protobuf (proto2) wire encoding, written out by hand: the generated package is internal ----------

type pb struct{ b []byte }

func (p *pb) varint(v uint64) {
	for v >= 0x80 {
		p.b = append(p.b, byte(v)|0x80)
		v >>= 7
	}
	p.b = append(p.b, byte(v))
}
func (p *pb) u(field int, v uint64) { p.varint(uint64(field)<<3 | 0); p.varint(v) }
func (p *pb) i(field int, v int64)  { p.u(field, uint64(v)) }
func (p *pb) bool(field int, v bool) {
	if v {
		p.u(field, 1)
	} else {
		p.u(field, 0)
	}
}
func (p *pb) bytes(field int, v []byte) {
	p.varint(uint64(field)<<3 | 2)
	p.varint(uint64(len(v)))
	p.b = append(p.b, v...)
}
func (p *pb) s(field int, v string) { p.bytes(field, []byte(v)) }

func gs(c Cmd, i int) string {
	if i < len(c.S) {
		return c.S[i]
	}
	return ""
}
func gu(c Cmd, i int) uint64 {
	if i < len(c.U) {
		return c.U[i]
	}
	return 0
}
func gi(c Cmd, i int) int64 {
	if i < len(c.I) {
		return c.I[i]
	}
	return 0
}
func gb(c Cmd, i int) bool {
	if i < len(c.B) {
		return c.B[i]
	}
	return false
}

func rpInfo(name string, rep uint64, dur, sgd int64) []byte {
	var m pb
	m.s(1, name)
	m.i(2, dur)
	m.i(3, sgd)
	m.u(4, uint64(uint32(rep)))
	return m.b
}

func encode(c Cmd) []byte {
	var m pb
	switch c.K {
	case "RemovePeer":
		m.s(2, gs(c, 0))
	case "CreateDatabase":
		m.s(1, gs(c, 0))
		if gb(c, 0) {
			m.bytes(2, rpInfo(gs(c, 1), gu(c, 0), gi(c, 0), gi(c, 1)))
		}
	case "DropDatabase":
		m.s(1, gs(c, 0))
	case "CreateRetentionPolicy":
		m.s(1, gs(c, 0))
		m.bytes(2, rpInfo(gs(c, 1), gu(c, 0), gi(c, 0), gi(c, 1)))
		m.bool(3, gb(c, 0))
	case "DropRetentionPolicy":
		m.s(1, gs(c, 0))
		m.s(2, gs(c, 1))
	case "UpdateRetentionPolicy":
		m.s(1, gs(c, 0))
		m.s(2, gs(c, 1))
		if gb(c, 0) {
			m.s(3, gs(c, 2))
		}
		if gb(c, 1) {
			m.i(4, gi(c, 0))
		}
		if gb(c, 2) {
			m.u(5, uint64(uint32(gu(c, 0))))
		}
		if gb(c, 3) {
			m.i(6, gi(c, 1))
		}
		m.bool(7, gb(c, 4))
	case "CreateShardGroup":
		m.s(1, gs(c, 0))
		m.s(2, gs(c, 1))
		m.i(3, gi(c, 0))
	case "DeleteShardGroup":
		m.s(1, gs(c, 0))
		m.s(2, gs(c, 1))
		m.u(3, gu(c, 0))
	case "CreateContinuousQuery":
		m.s(1, gs(c, 0))
		m.s(2, gs(c, 1))
		m.s(3, gs(c, 2))
	case "DropContinuousQuery":
		m.s(1, gs(c, 0))
		m.s(2, gs(c, 1))
	case "CreateSubscription": // S: db, rp, name, mode, destinations...
		m.s(1, gs(c, 2))
		m.s(2, gs(c, 0))
		m.s(3, gs(c, 1))
		m.s(4, gs(c, 3))
		for i := 4; i < len(c.S); i++ {
			m.s(5, c.S[i])
		}
	case "DropSubscription": // S: db, rp, name
		m.s(1, gs(c, 2))
		m.s(2, gs(c, 0))
		m.s(3, gs(c, 1))
	case "CreateUser":
		m.s(1, gs(c, 0))
		m.s(2, gs(c, 1))
		m.bool(3, gb(c, 0))
	case "DropUser":
		m.s(1, gs(c, 0))
	case "UpdateUser":
		m.s(1, gs(c, 0))
		m.s(2, gs(c, 1))
	case "SetPrivilege":
		m.s(1, gs(c, 0))
		m.s(2, gs(c, 1))
		m.i(3, int64(int32(gi(c, 0))))
	case "SetAdminPrivilege":
		m.s(1, gs(c, 0))
		m.bool(2, gb(c, 0))
	case "CreateMetaNode", "SetMetaNode":
		m.s(1, gs(c, 0))
		m.s(2, gs(c, 1))
		m.u(3, gu(c, 0))
	case "DeleteMetaNode", "DeleteDataNode", "DropShard":
		m.u(1, gu(c, 0))
	case "CreateDataNode":
		m.s(1, gs(c, 0))
		m.s(2, gs(c, 1))
	case "UpdateDataNode":
		m.u(1, gu(c, 0))
		m.s(2, gs(c, 0))
		m.s(3, gs(c, 1))
	case "TruncateShardGroups":
		m.i(1, gi(c, 0))
	case "PruneShardGroups":
	case "CopyShardOwner", "RemoveShardOwner":
		m.u(1, gu(c, 0))
		m.u(2, gu(c, 1))
	default:
		panic("unknown command kind " + c.K)
	}
	t := typeNo[c.K]
	var cm pb
	cm.u(1, t)
	cm.bytes(int(100+t), m.b)
	return cm.b
}

// ---------- Coq printers ----------

// strings of the name pools are predefined in Run.v as z<i> (same list, same order)
var internPool = []string{"", "db0", "db1", "db2", "_internal", "rp0", "rp1", "autogen", "week", "alice", "bob", "root", "h1:8088", "h2:8088", "h3:8088", "h4:8088", "h5:8088", "h6:8088", "h1:8086", "h2:8086", "h3:8086", "h4:8086", "h5:8086", "h6:8086", "h1:8089", "h2:8089", "h3:8089", "h1:8091", "h2:8091", "h3:8091", "h4:8091", "cq0", "cq1", "s0", "s1", "ALL", "ANY", "h1", "h2", "h3", "SELECT mean(v) INTO a FROM b GROUP BY time(1m)", "select MEAN(v) into a from b group by TIME(1m)", "SELECT max(v) INTO c FROM b GROUP BY time(5m)", "udp://h1:9000", "http://h2:9001", "https://h3:9002", "ftp://h1:21", "http://noport", "://bad", "udp://h9:1", "h9:8088", "x"}
var internIdx = func() map[string]int {
	m := map[string]int{}
	for i, x := range internPool {
		m[x] = i
	}
	return m
}()

func coqStr(s string) string {
	if i, ok := internIdx[s]; ok {
		return fmt.Sprintf("z%d", i)
	}
	return "\"" + strings.ReplaceAll(s, "\"", "\"\"") + "\""
}
func coqOptStr(p bool, s string) string {
	if !p {
		return "None"
	}
	return "(Some " + coqStr(s) + ")"
}
func coqBig(z *big.Int) string {
	if z.Sign() < 0 {
		return "(" + z.String() + ")%Z"
	}
	return z.String() + "%Z"
}
func coqOptZ(p bool, v int64) string {
	if !p {
		return "None"
	}
	return "(Some " + hx.CoqZ(v) + ")"
}
func coqOptN(p bool, v uint64) string {
	if !p {
		return "None"
	}
	return fmt.Sprintf("(Some %d)", v)
}

// the documented rule for a subscription destination: scheme udp / http / https and a host
// WITH a non-empty port.  For the destinations the generator uses the verdict is fixed here,
// independently of the code, so a validateURL that starts accepting (or refusing) one of them
// shows as a command the model rejects and the implementation applies (or vice versa)
var destVerdict = map[string]bool{"udp://h1:9000": true, "http://h2:9001": true, "https://h3:9002": true, "ftp://h1:21": false,
	"http://noport": false, "://bad": false, "udp://h9:1": true, "": false, "udp://example.com:": false, "https://[::1]:": false,
	"udp://[::1]:8089": true, "http://h2:": false, "HTTP://h2:9001": true}

func validURL(s string) bool {
	if v, ok := destVerdict[s]; ok {
		return v
	}
	// any other text (older corpus entries): the real validateURL, reached through a scratch Data value
	d := &meta.Data{}
	err := d.CreateSubscription("\x00nodb", "", "", "", []string{s})
	return err == nil || !strings.HasPrefix(err.Error(), "invalid subscription URL")
}

func coqCmd(c Cmd) string {
	switch c.K {
	case "RemovePeer":
		return "CRemovePeer " + coqStr(gs(c, 0))
	case "CreateDatabase":
		rp := "None"
		if gb(c, 0) {
			rp = fmt.Sprintf("(Some (%s, %d, %s, %s))", coqStr(gs(c, 1)), uint32(gu(c, 0)), hx.CoqZ(gi(c, 0)), hx.CoqZ(gi(c, 1)))
		}
		return fmt.Sprintf("CCreateDatabase %s %s", coqStr(gs(c, 0)), rp)
	case "DropDatabase":
		return "CDropDatabase " + coqStr(gs(c, 0))
	case "CreateRetentionPolicy":
		return fmt.Sprintf("CCreateRetentionPolicy %s %s %d %s %s %s", coqStr(gs(c, 0)), coqStr(gs(c, 1)), uint32(gu(c, 0)), hx.CoqZ(gi(c, 0)), hx.CoqZ(gi(c, 1)), hx.CoqBool(gb(c, 0)))
	case "DropRetentionPolicy":
		return fmt.Sprintf("CDropRetentionPolicy %s %s", coqStr(gs(c, 0)), coqStr(gs(c, 1)))
	case "UpdateRetentionPolicy":
		return fmt.Sprintf("CUpdateRetentionPolicy %s %s %s %s %s %s %s", coqStr(gs(c, 0)), coqStr(gs(c, 1)), coqOptStr(gb(c, 0), gs(c, 2)),
			coqOptZ(gb(c, 1), gi(c, 0)), coqOptN(gb(c, 2), uint64(uint32(gu(c, 0)))), coqOptZ(gb(c, 3), gi(c, 1)), hx.CoqBool(gb(c, 4)))
	case "CreateShardGroup":
		return fmt.Sprintf("CCreateShardGroup %s %s %s", coqStr(gs(c, 0)), coqStr(gs(c, 1)), hx.CoqZ(gi(c, 0)))
	case "DeleteShardGroup":
		return fmt.Sprintf("CDeleteShardGroup %s %s %d", coqStr(gs(c, 0)), coqStr(gs(c, 1)), gu(c, 0))
	case "CreateContinuousQuery":
		return fmt.Sprintf("CCreateContinuousQuery %s %s %s", coqStr(gs(c, 0)), coqStr(gs(c, 1)), coqStr(gs(c, 2)))
	case "DropContinuousQuery":
		return fmt.Sprintf("CDropContinuousQuery %s %s", coqStr(gs(c, 0)), coqStr(gs(c, 1)))
	case "CreateSubscription":
		var ds []string
		for i := 4; i < len(c.S); i++ {
			ds = append(ds, fmt.Sprintf("(%s, %s)", coqStr(c.S[i]), hx.CoqBool(validURL(c.S[i]))))
		}
		return fmt.Sprintf("CCreateSubscription %s %s %s %s %s", coqStr(gs(c, 0)), coqStr(gs(c, 1)), coqStr(gs(c, 2)), coqStr(gs(c, 3)), hx.CoqList(ds))
	case "DropSubscription":
		return fmt.Sprintf("CDropSubscription %s %s %s", coqStr(gs(c, 0)), coqStr(gs(c, 1)), coqStr(gs(c, 2)))
	case "CreateUser":
		return fmt.Sprintf("CCreateUser %s %s %s", coqStr(gs(c, 0)), coqStr(gs(c, 1)), hx.CoqBool(gb(c, 0)))
	case "DropUser":
		return "CDropUser " + coqStr(gs(c, 0))
	case "UpdateUser":
		return fmt.Sprintf("CUpdateUser %s %s", coqStr(gs(c, 0)), coqStr(gs(c, 1)))
	case "SetPrivilege":
		return fmt.Sprintf("CSetPrivilege %s %s %s", coqStr(gs(c, 0)), coqStr(gs(c, 1)), hx.CoqZ(int64(int32(gi(c, 0)))))
	case "SetAdminPrivilege":
		return fmt.Sprintf("CSetAdminPrivilege %s %s", coqStr(gs(c, 0)), hx.CoqBool(gb(c, 0)))
	case "CreateMetaNode":
		return fmt.Sprintf("CCreateMetaNode %s %s %d", coqStr(gs(c, 0)), coqStr(gs(c, 1)), gu(c, 0))
	case "SetMetaNode":
		return fmt.Sprintf("CSetMetaNode %s %s %d", coqStr(gs(c, 0)), coqStr(gs(c, 1)), gu(c, 0))
	case "DeleteMetaNode":
		return fmt.Sprintf("CDeleteMetaNode %d", gu(c, 0))
	case "CreateDataNode":
		return fmt.Sprintf("CCreateDataNode %s %s", coqStr(gs(c, 0)), coqStr(gs(c, 1)))
	case "DeleteDataNode":
		return fmt.Sprintf("CDeleteDataNode %d", gu(c, 0))
	case "UpdateDataNode":
		return fmt.Sprintf("CUpdateDataNode %d %s %s", gu(c, 0), coqStr(gs(c, 0)), coqStr(gs(c, 1)))
	case "DropShard":
		return fmt.Sprintf("CDropShard %d", gu(c, 0))
	case "TruncateShardGroups":
		return "CTruncateShardGroups " + hx.CoqZ(gi(c, 0))
	case "PruneShardGroups":
		return "CPruneShardGroups"
	case "CopyShardOwner":
		return fmt.Sprintf("CCopyShardOwner %d %d", gu(c, 0), gu(c, 1))
	case "RemoveShardOwner":
		return fmt.Sprintf("CRemoveShardOwner %d %d", gu(c, 0), gu(c, 1))
	}
	panic("unknown command kind " + c.K)
}

func unixNanoBig(t time.Time) *big.Int {
	z := big.NewInt(t.Unix())
	z.Mul(z, big.NewInt(1000000000))
	return z.Add(z, big.NewInt(int64(t.Nanosecond())))
}

func coqNodes(ns []meta.NodeInfo) string {
	var xs []string
	for _, n := range ns {
		xs = append(xs, fmt.Sprintf("Nd %d %s %s", n.ID, coqStr(n.Addr), coqStr(n.TCPAddr)))
	}
	return hx.CoqList(xs)
}

func coqGroup(g *meta.ShardGroupInfo) string {
	var sh []string
	for _, s := range g.Shards {
		var ow []uint64
		for _, o := range s.Owners {
			ow = append(ow, o.NodeID)
		}
		sh = append(sh, fmt.Sprintf("Sh %d %s", s.ID, hx.CoqNList(ow)))
	}
	tr := "None"
	if !g.TruncatedAt.IsZero() {
		tr = "(Some " + coqBig(unixNanoBig(g.TruncatedAt)) + ")"
	}
	return fmt.Sprintf("Gr %d %s %s %s %s %s", g.ID, coqBig(unixNanoBig(g.StartTime)), coqBig(unixNanoBig(g.EndTime)),
		hx.CoqBool(!g.DeletedAt.IsZero()), tr, hx.CoqList(sh))
}

// coqData dumps the metadata as a Coq [data] term. liveOnly drops deleted groups and
// Term/Index (the canonical observable used to compare the two replicas).
func coqData(d *meta.Data, liveOnly bool) string {
	var dbs []string
	for i := range d.Databases {
		db := &d.Databases[i]
		var rps []string
		for j := range db.RetentionPolicies {
			rp := &db.RetentionPolicies[j]
			idx := make([]int, 0, len(rp.ShardGroups))
			for k := range rp.ShardGroups {
				if liveOnly && !rp.ShardGroups[k].DeletedAt.IsZero() {
					continue
				}
				idx = append(idx, k)
			}
			sort.SliceStable(idx, func(a, b int) bool { return rp.ShardGroups[idx[a]].ID < rp.ShardGroups[idx[b]].ID })
			var gs []string
			for _, k := range idx {
				gs = append(gs, coqGroup(&rp.ShardGroups[k]))
			}
			var subs []string
			for _, s := range rp.Subscriptions {
				var ds []string
				for _, x := range s.Destinations {
					ds = append(ds, coqStr(x))
				}
				subs = append(subs, fmt.Sprintf("Sb %s %s %s", coqStr(s.Name), coqStr(s.Mode), hx.CoqList(ds)))
			}
			rps = append(rps, fmt.Sprintf("Rp %s %d %s %s %s %s", coqStr(rp.Name), rp.ReplicaN, hx.CoqZ(int64(rp.Duration)),
				hx.CoqZ(int64(rp.ShardGroupDuration)), hx.CoqList(gs), hx.CoqList(subs)))
		}
		var cqs []string
		for _, c := range db.ContinuousQueries {
			cqs = append(cqs, fmt.Sprintf("Cq %s %s", coqStr(c.Name), coqStr(c.Query)))
		}
		dbs = append(dbs, fmt.Sprintf("Db %s %s %s %s", coqStr(db.Name), coqStr(db.DefaultRetentionPolicy), hx.CoqList(rps), hx.CoqList(cqs)))
	}
	var us []string
	for _, u := range d.Users {
		keys := make([]string, 0, len(u.Privileges))
		for k := range u.Privileges {
			keys = append(keys, k)
		}
		sort.Strings(keys)
		var ps []string
		for _, k := range keys {
			ps = append(ps, fmt.Sprintf("(%s, %s)", coqStr(k), hx.CoqZ(int64(u.Privileges[k]))))
		}
		us = append(us, fmt.Sprintf("Us %s %s %s %s", coqStr(u.Name), coqStr(u.Hash), hx.CoqBool(u.Admin), hx.CoqList(ps)))
	}
	term, index := d.Term, d.Index
	if liveOnly {
		term, index = 0, 0
	}
	return fmt.Sprintf("Dt %d %d %d %s %s %s %s %s %d %d %d", term, index, d.ClusterID, coqNodes(d.MetaNodes), coqNodes(d.DataNodes),
		hx.CoqList(dbs), hx.CoqList(us), hx.CoqBool(d.AdminUserExists()), d.MaxNodeID, d.MaxShardGroupID, d.MaxShardID)
}

// ---------- running one log ----------

func errClass(v interface{}) uint64 {
	if v == nil {
		return 0
	}
	err, ok := v.(error)
	if !ok {
		return 97
	}
	switch err {
	case meta.ErrNodeExists:
		return 1
	case meta.ErrNodeNotFound:
		return 2
	case meta.ErrNodeIDRequired:
		return 3
	case meta.ErrDatabaseNameRequired:
		return 4
	case meta.ErrNameTooLong:
		return 5
	case meta.ErrRetentionPolicyNameRequired:
		return 7
	case meta.ErrReplicationFactorTooLow:
		return 8
	case meta.ErrIncompatibleDurations:
		return 9
	case meta.ErrRetentionPolicyExists:
		return 10
	case meta.ErrRetentionPolicyConflict:
		return 11
	case meta.ErrRetentionPolicyNameExists:
		return 13
	case meta.ErrRetentionPolicyDurationTooLow:
		return 14
	case meta.ErrShardGroupNotFound:
		return 15
	case meta.ErrContinuousQueryExists:
		return 16
	case meta.ErrSubscriptionExists:
		return 18
	case meta.ErrSubscriptionNotFound:
		return 19
	case meta.ErrUsernameRequired:
		return 20
	case meta.ErrUserExists:
		return 21
	case meta.ErrUserNotFound:
		return 22
	}
	m := err.Error()
	switch {
	case strings.HasPrefix(m, "database not found: "):
		return 6
	case strings.HasPrefix(m, "retention policy not found: "):
		return 12
	case strings.HasPrefix(m, "invalid subscription URL: "):
		return 17
	case strings.HasPrefix(m, "cannot reassign shard "):
		return 23
	}
	return 99
}

const ageBy = 15 * 24 * time.Hour

func age(d *meta.Data) {
	for i := range d.Databases {
		for j := range d.Databases[i].RetentionPolicies {
			gs := d.Databases[i].RetentionPolicies[j].ShardGroups
			for k := range gs {
				if !gs[k].DeletedAt.IsZero() {
					gs[k].DeletedAt = gs[k].DeletedAt.Add(-ageBy)
				}
			}
		}
	}
}

func deletedIDs(d *meta.Data) map[uint64]bool {
	m := map[uint64]bool{}
	for i := range d.Databases {
		for j := range d.Databases[i].RetentionPolicies {
			for _, g := range d.Databases[i].RetentionPolicies[j].ShardGroups {
				if !g.DeletedAt.IsZero() {
					m[g.ID] = true
				}
			}
		}
	}
	return m
}

func allGroupIDs(d *meta.Data) map[uint64]bool {
	m := map[uint64]bool{}
	for i := range d.Databases {
		for j := range d.Databases[i].RetentionPolicies {
			for _, g := range d.Databases[i].RetentionPolicies[j].ShardGroups {
				m[g.ID] = true
			}
		}
	}
	return m
}

// applyOne applies c to one replica; returns error class (98 = panic) and the IDs of the
// deleted groups a PruneShardGroups command removed.
func applyOne(f *meta.VerifFSM, c Cmd, aged bool) (cls uint64, pruned []uint64) {
	if aged {
		age(f.Data())
	}
	var before map[uint64]bool
	if c.K == "PruneShardGroups" {
		before = deletedIDs(f.Data())
	}
	func() {
		defer func() {
			if e := recover(); e != nil {
				cls = 98
			}
		}()
		cls = errClass(f.Apply(c.Idx, c.Term, encode(c)))
	}()
	if before != nil {
		after := allGroupIDs(f.Data())
		for id := range before {
			if !after[id] {
				pruned = append(pruned, id)
			}
		}
		sort.Slice(pruned, func(i, j int) bool { return pruned[i] < pruned[j] })
	}
	return
}

type stepObs struct {
	ErrA   uint64   `json:"errA"`
	ErrB   uint64   `json:"errB"`
	SameB  bool     `json:"sameB"`
	PruneA []uint64 `json:"pruneA,omitempty"`
	PruneB []uint64 `json:"pruneB,omitempty"`
}

type runner struct {
	a, b    *meta.VerifFSM
	steps   []string
	obs     []stepObs
	prev    string // previous full dump of A without Term/Index
	init    string
	changed int
	groups  int
	diverge bool
}

func newRunner(auto bool) *runner {
	r := &runner{a: meta.NewVerifFSM(auto), b: meta.NewVerifFSM(auto)}
	r.init = coqData(r.a.Data(), false)
	r.prev = stripStamp(r.a.Data())
	return r
}

func stripStamp(d *meta.Data) string {
	c := *d
	c.Term, c.Index = 0, 0
	return coqData(&c, false)
}

func (r *runner) step(o *hx.Out, c Cmd) {
	gBefore := len(allGroupIDs(r.a.Data()))
	ea, pa := applyOne(r.a, c, c.AgeA)
	eb, pb := applyOne(r.b, c, c.AgeB)
	da := r.a.Data()
	cur := stripStamp(da)
	obs := "None"
	if cur != r.prev {
		obs = "(Some (" + coqData(da, false) + "))"
		r.changed++
	}
	r.prev = cur
	if len(allGroupIDs(da)) > gBefore {
		r.groups++
	}
	same := coqData(da, true) == coqData(r.b.Data(), true)
	if !same {
		r.diverge = true
	}
	r.steps = append(r.steps, fmt.Sprintf("St %d %d (%s) %s %d %s %d %d %s %d %s", c.Idx, c.Term, coqCmd(c), hx.CoqNList(pa), ea, obs,
		da.Index, da.Term, hx.CoqNList(pb), eb, hx.CoqBool(same)))
	r.obs = append(r.obs, stepObs{ErrA: ea, ErrB: eb, SameB: same, PruneA: pa, PruneB: pb})
	o.Count("cmd:" + c.K)
	o.Count(fmt.Sprintf("err:%d", ea))
	if len(pa) != len(pb) {
		o.Count("prune:replicas-pruned-different-sets")
	}
	if len(pa) > 0 || len(pb) > 0 {
		o.Count("prune:removed-some")
	}
}

func (r *runner) emit(o *hx.Out, d LogDesc, origin string) {
	coq := fmt.Sprintf("CLog %s (%s) %s (%s)", hx.CoqBool(d.Auto), r.init, hx.CoqList(r.steps), coqData(r.b.Data(), false))
	js, _ := json.Marshal(d)
	n := len(d.Cmds)
	bucket := "1-9"
	switch {
	case n == 0:
		bucket = "0"
	case n >= 60:
		bucket = "60+"
	case n >= 30:
		bucket = "30-59"
	case n >= 10:
		bucket = "10-29"
	}
	o.Count("loglen:" + bucket)
	if r.diverge {
		o.Count("replicas-diverged")
	}
	o.Emit(hx.Case{Kind: "log", Coq: coq, Desc: d,
		Obs:        map[string]interface{}{"steps": r.obs, "final_canon_A": coqData(r.a.Data(), true), "final_canon_B": coqData(r.b.Data(), true)},
		Nontrivial: r.groups > 0 && r.changed >= 5, Sig: fmt.Sprintf("log:%x", hashBytes(js)), Origin: origin})
}

func hashBytes(b []byte) uint64 {
	h := uint64(1469598103934665603)
	for _, c := range b {
		h ^= uint64(c)
		h *= 1099511628211
	}
	return h
}

func runLog(o *hx.Out, d LogDesc, origin string) {
	o.Begin("log", d)
	r := newRunner(d.Auto)
	for _, c := range d.Cmds {
		r.step(o, c)
	}
	r.emit(o, d, origin)
}

// ---------- generation ----------

var dbPool = []string{"db0", "db1", "db2", "", "_internal", strings.Repeat("n", 256), strings.Repeat("m", 255)}
var rpPool = []string{"rp0", "rp1", "autogen", "", "week", strings.Repeat("p", 256)}
var userPool = []string{"alice", "bob", "", "root"}
var hostPool = []string{"h1:8088", "h2:8088", "h3:8088", "h4:8088", "h5:8088", "h6:8088", ""}
var httpPool = []string{"h1:8086", "h2:8086", "h3:8086", "h4:8086", "h5:8086", "h6:8086", ""}
var metaTCP = []string{"h1:8089", "h2:8089", "h3:8089", "h1:8088", "h2:8088"}
var metaHTTP = []string{"h1:8091", "h2:8091", "h3:8091", "h4:8091"}
var cqPool = []string{"cq0", "cq1", ""}
var queryPool = []string{"SELECT mean(v) INTO a FROM b GROUP BY time(1m)", "select MEAN(v) into a from b group by TIME(1m)", "SELECT max(v) INTO c FROM b GROUP BY time(5m)", ""}
var subPool = []string{"s0", "s1", ""}
var destPool = []string{"udp://h1:9000", "http://h2:9001", "https://h3:9002", "ftp://h1:21", "http://noport", "://bad", "udp://h9:1", "", "udp://example.com:", "https://[::1]:", "udp://[::1]:8089", "http://h2:"}
var durPool = []int64{0, 0, int64(time.Hour), int64(90 * time.Minute), int64(24 * time.Hour), int64(7 * 24 * time.Hour), int64(30 * time.Minute), -int64(time.Hour),
	int64(200 * 24 * time.Hour), int64(2 * 24 * time.Hour), int64(time.Hour) - 1, 1, math.MaxInt64, math.MinInt64, int64(3*time.Hour) + 1}
var sgdPool = []int64{0, 0, int64(time.Hour), int64(90 * time.Minute), int64(24 * time.Hour), int64(7 * 24 * time.Hour), int64(10 * time.Minute), -5,
	int64(3*time.Hour) + 1, int64(1000 * 24 * time.Hour), math.MaxInt64, 7777777777777}

func pick(r *hx.Rand, p []string) string { return p[r.Intn(len(p))] }

// common names much more often than odd ones
func pickName(r *hx.Rand, p []string) string {
	if r.Chance(80) {
		return p[r.Intn(2)]
	}
	return pick(r, p)
}

type gen struct {
	r       *hx.Rand
	base    int64
	queue   []func(d *meta.Data) (Cmd, bool) // scripted history still to be issued
	lastCSG *Cmd                              // the last CreateShardGroup, for verbatim repeats
}

// groupAt returns the ID of a live group of db/rp whose [Start, End) contains t (0 if none).
func groupAt(d *meta.Data, db, rp string, t int64) uint64 {
	for i := range d.Databases {
		if d.Databases[i].Name != db {
			continue
		}
		for j := range d.Databases[i].RetentionPolicies {
			p := &d.Databases[i].RetentionPolicies[j]
			if p.Name != rp {
				continue
			}
			for _, sg := range p.ShardGroups {
				if sg.DeletedAt.IsZero() && sg.Contains(time.Unix(0, t)) {
					return sg.ID
				}
			}
		}
	}
	return 0
}

// history queues a scripted sequence on one policy: create a group, delete it (it stays in
// the list until pruned) or truncate it, alter the shard group duration (longer or shorter),
// create groups for earlier / later / overlapping timestamps, repeat creations verbatim.
func (g *gen) history(d *meta.Data) {
	r := g.r
	db, rp := g.dbrp(d)
	t0 := g.ts(d)
	if r.Chance(70) {
		t0 = g.base + int64(r.Intn(48)-24)*int64(time.Hour) + int64(r.Intn(3600))*int64(time.Second)
	}
	csg := func(t int64) func(*meta.Data) (Cmd, bool) {
		return func(*meta.Data) (Cmd, bool) { return Cmd{K: "CreateShardGroup", S: []string{db, rp}, I: []int64{t}}, true }
	}
	shift := func(t, by int64) int64 {
		if (by > 0 && t > math.MaxInt64-by) || (by < 0 && t < math.MinInt64-by) {
			return t
		}
		return t + by
	}
	deltas := []int64{int64(2 * time.Hour), int64(30 * time.Minute), int64(24 * time.Hour), int64(90 * time.Minute), int64(3 * 24 * time.Hour), 1}
	alter := func(*meta.Data) (Cmd, bool) {
		sg := []int64{int64(24 * time.Hour), int64(7 * 24 * time.Hour), int64(time.Hour), int64(6 * time.Hour), int64(90 * time.Minute)}[r.Intn(5)]
		return Cmd{K: "UpdateRetentionPolicy", S: []string{db, rp, ""}, B: []bool{false, false, false, true, false}, I: []int64{0, sg}}, true
	}
	q := []func(*meta.Data) (Cmd, bool){csg(t0)}
	switch r.Intn(4) {
	case 0, 1: // delete the group just created, not pruned
		q = append(q, func(d *meta.Data) (Cmd, bool) {
			id := groupAt(d, db, rp, t0)
			return Cmd{K: "DeleteShardGroup", S: []string{db, rp}, U: []uint64{id}}, id != 0
		})
	case 2: // truncate inside / before it
		q = append(q, func(*meta.Data) (Cmd, bool) {
			return Cmd{K: "TruncateShardGroups", I: []int64{shift(t0, int64(r.Intn(5)-2)*int64(20*time.Minute))}}, true
		})
	}
	if r.Chance(80) {
		q = append(q, alter)
	}
	t1 := shift(t0, -deltas[r.Intn(len(deltas))])
	if r.Chance(35) {
		t1 = shift(t0, deltas[r.Intn(len(deltas))])
	}
	q = append(q, csg(t1), csg(t1))
	if r.Chance(50) {
		q = append(q, func(*meta.Data) (Cmd, bool) { return Cmd{K: "TruncateShardGroups", I: []int64{shift(t1, int64(r.Intn(3))*int64(time.Hour))}}, true })
	}
	if r.Chance(50) {
		q = append(q, alter)
	}
	q = append(q, csg(t0), csg(shift(t1, -deltas[r.Intn(len(deltas))])), csg(t1), csg(t0))
	g.queue = append(g.queue, q...)
}

func (g *gen) ts(d *meta.Data) int64 {
	r := g.r
	switch r.Intn(12) {
	case 0:
		return []int64{0, -1, 1, math.MaxInt64, math.MaxInt64 - 1, math.MaxInt64 - 2, math.MinInt64, math.MinInt64 + 1, math.MinInt64 + 2,
			-int64(7 * 24 * time.Hour), int64(time.Hour) - 1, -int64(30 * time.Minute), -int64(time.Hour), -int64(24*time.Hour) + 1,
			// around the first representable instant: a group whose truncated start lies before MinInt64 is clamped to it
			math.MinInt64 + 3, math.MinInt64 + int64(r.Intn(3600))*int64(time.Second), math.MinInt64 + int64(r.Intn(7*24))*int64(time.Hour) + int64(r.Intn(2)),
			math.MinInt64 + int64(time.Hour), math.MinInt64 + int64(24*time.Hour) - 1}[r.Intn(19)]
	case 1, 2, 3:
		// at or next to a boundary of an existing group
		var bs []int64
		for i := range d.Databases {
			for j := range d.Databases[i].RetentionPolicies {
				for _, sg := range d.Databases[i].RetentionPolicies[j].ShardGroups {
					for _, t := range []time.Time{sg.StartTime, sg.EndTime, sg.TruncatedAt} {
						if !t.IsZero() {
							z := unixNanoBig(t)
							if z.IsInt64() {
								bs = append(bs, z.Int64())
							}
						}
					}
				}
			}
		}
		if len(bs) > 0 {
			b := bs[r.Intn(len(bs))]
			off := []int64{0, -1, 1, int64(time.Minute), -int64(time.Minute), int64(30 * time.Minute)}[r.Intn(6)]
			if (off > 0 && b > math.MaxInt64-off) || (off < 0 && b < math.MinInt64-off) {
				return b
			}
			return b + off
		}
		fallthrough
	case 4:
		return int64(r.U64())
	default:
		// a handful of hours/days around the base instant, so that groups collide
		unit := []int64{int64(time.Hour), int64(24 * time.Hour), int64(7 * 24 * time.Hour), int64(20 * time.Minute)}[r.Intn(4)]
		return g.base + int64(r.Intn(9)-4)*unit + int64(r.Intn(3))*int64(r.Intn(1000000))
	}
}

func shardIDs(d *meta.Data) (ids []uint64, gids []uint64) {
	for i := range d.Databases {
		for j := range d.Databases[i].RetentionPolicies {
			for _, sg := range d.Databases[i].RetentionPolicies[j].ShardGroups {
				gids = append(gids, sg.ID)
				for _, s := range sg.Shards {
					ids = append(ids, s.ID)
				}
			}
		}
	}
	return
}

func (g *gen) someID(known []uint64, max uint64) uint64 {
	r := g.r
	if len(known) > 0 && r.Chance(80) {
		return known[r.Intn(len(known))]
	}
	switch r.Intn(4) {
	case 0:
		return 0
	case 1:
		return max + 1 + uint64(r.Intn(3))
	case 2:
		return r.U64()
	}
	return uint64(r.Intn(int(max) + 2))
}

func (g *gen) dbrp(d *meta.Data) (string, string) {
	r := g.r
	if len(d.Databases) > 0 && r.Chance(85) {
		db := &d.Databases[r.Intn(len(d.Databases))]
		if len(db.RetentionPolicies) > 0 && r.Chance(85) {
			return db.Name, db.RetentionPolicies[r.Intn(len(db.RetentionPolicies))].Name
		}
		return db.Name, pickName(r, rpPool)
	}
	return pickName(r, dbPool), pickName(r, rpPool)
}

func (g *gen) next(d *meta.Data, idx, term uint64) Cmd {
	r := g.r
	for len(g.queue) > 0 {
		f := g.queue[0]
		g.queue = g.queue[1:]
		if c, ok := f(d); ok {
			c.Idx, c.Term = idx, term
			return c
		}
	}
	if len(d.DataNodes) > 0 && len(d.Databases) > 0 && r.Chance(4) {
		g.history(d)
		return g.next(d, idx, term)
	}
	if g.lastCSG != nil && r.Chance(6) { // idempotence: the very same CreateShardGroup again
		c := *g.lastCSG
		c.Idx, c.Term = idx, term
		return c
	}
	c := g.next1(d, idx, term)
	if c.K == "CreateShardGroup" {
		cc := c
		g.lastCSG = &cc
	}
	return c
}

func (g *gen) next1(d *meta.Data, idx, term uint64) Cmd {
	r := g.r
	c := Cmd{Idx: idx, Term: term}
	sids, gids := shardIDs(d)
	var nids []uint64
	for _, n := range d.DataNodes {
		nids = append(nids, n.ID)
	}
	var mids []uint64
	for _, n := range d.MetaNodes {
		mids = append(mids, n.ID)
	}
	w := r.Intn(1000)
	switch {
	case w < 230:
		c.K = "CreateShardGroup"
		db, rp := g.dbrp(d)
		c.S = []string{db, rp}
		c.I = []int64{g.ts(d)}
	case w < 290:
		c.K = "TruncateShardGroups"
		c.I = []int64{g.ts(d)}
	case w < 340:
		c.K = "DeleteShardGroup"
		db, rp := g.dbrp(d)
		c.S = []string{db, rp}
		c.U = []uint64{g.someID(gids, d.MaxShardGroupID)}
	case w < 380:
		c.K = "DropShard"
		c.U = []uint64{g.someID(sids, d.MaxShardID)}
	case w < 420:
		c.K = "CopyShardOwner"
		c.U = []uint64{g.someID(sids, d.MaxShardID), g.someID(nids, d.MaxNodeID)}
	case w < 470:
		c.K = "RemoveShardOwner"
		c.U = []uint64{g.someID(sids, d.MaxShardID), g.someID(nids, d.MaxNodeID)}
	case w < 530:
		c.K = "CreateDataNode"
		k := r.Intn(len(hostPool))
		c.S = []string{httpPool[k], hostPool[k]}
		if r.Chance(15) {
			c.S[1] = pick(r, metaTCP)
		}
	case w < 580:
		c.K = "DeleteDataNode"
		c.U = []uint64{g.someID(nids, d.MaxNodeID)}
	case w < 600:
		c.K = "UpdateDataNode"
		k := r.Intn(len(hostPool))
		c.U = []uint64{g.someID(nids, d.MaxNodeID)}
		c.S = []string{httpPool[k], hostPool[k]}
	case w < 625:
		c.K = "CreateMetaNode"
		c.S = []string{pick(r, metaHTTP), pick(r, metaTCP)}
		c.U = []uint64{uint64(r.Intn(3)) * r.U64()}
	case w < 640:
		c.K = "SetMetaNode"
		c.S = []string{pick(r, metaHTTP), pick(r, metaTCP)}
		c.U = []uint64{uint64(r.Intn(3)) * r.U64()}
	case w < 655:
		c.K = "DeleteMetaNode"
		c.U = []uint64{g.someID(mids, d.MaxNodeID)}
	case w < 700:
		c.K = "CreateDatabase"
		c.S = []string{pickName(r, dbPool)}
		if r.Chance(40) {
			c.B = []bool{true}
			c.S = append(c.S, pickName(r, rpPool))
			c.U = []uint64{uint64(r.Intn(4))}
			c.I = []int64{durPool[r.Intn(len(durPool))], sgdPool[r.Intn(len(sgdPool))]}
		}
	case w < 720:
		c.K = "DropDatabase"
		c.S = []string{pickName(r, dbPool)}
	case w < 780:
		c.K = "CreateRetentionPolicy"
		db, _ := g.dbrp(d)
		c.S = []string{db, pickName(r, rpPool)}
		c.U = []uint64{uint64(r.Intn(5))}
		if r.Chance(3) {
			c.U[0] = uint64(math.MaxUint32)
		}
		c.I = []int64{durPool[r.Intn(len(durPool))], sgdPool[r.Intn(len(sgdPool))]}
		c.B = []bool{r.Chance(40)}
	case w < 800:
		c.K = "DropRetentionPolicy"
		db, rp := g.dbrp(d)
		c.S = []string{db, rp}
	case w < 860:
		c.K = "UpdateRetentionPolicy"
		db, rp := g.dbrp(d)
		if r.Chance(8) {
			rp = ""
		}
		c.S = []string{db, rp, pickName(r, rpPool)}
		c.B = []bool{r.Chance(25), r.Chance(50), r.Chance(40), r.Chance(50), r.Chance(30)}
		c.I = []int64{durPool[r.Intn(len(durPool))], sgdPool[r.Intn(len(sgdPool))]}
		c.U = []uint64{uint64(r.Intn(5))}
	case w < 880:
		c.K = "CreateUser"
		c.S = []string{pickName(r, userPool), pick(r, []string{"h1", "h2"})}
		c.B = []bool{r.Chance(40)}
	case w < 890:
		c.K = "DropUser"
		c.S = []string{pickName(r, userPool)}
	case w < 900:
		c.K = "UpdateUser"
		c.S = []string{pickName(r, userPool), pick(r, []string{"h1", "h2", "h3"})}
	case w < 920:
		c.K = "SetPrivilege"
		c.S = []string{pickName(r, userPool), pickName(r, dbPool)}
		c.I = []int64{[]int64{0, 1, 2, 3, -1, 7, math.MaxInt32, math.MinInt32}[r.Intn(8)]}
	case w < 930:
		c.K = "SetAdminPrivilege"
		c.S = []string{pickName(r, userPool)}
		c.B = []bool{r.Bool()}
	case w < 945:
		c.K = "CreateContinuousQuery"
		c.S = []string{pickName(r, dbPool), pickName(r, cqPool), pickName(r, queryPool)}
	case w < 952:
		c.K = "DropContinuousQuery"
		c.S = []string{pickName(r, dbPool), pickName(r, cqPool)}
	case w < 967:
		c.K = "CreateSubscription"
		db, rp := g.dbrp(d)
		c.S = []string{db, rp, pickName(r, subPool), pick(r, []string{"ALL", "ANY"})}
		for k := r.Intn(3); k > 0; k-- {
			if r.Chance(75) {
				c.S = append(c.S, destPool[r.Intn(3)])
			} else {
				c.S = append(c.S, pick(r, destPool))
			}
		}
	case w < 975:
		c.K = "DropSubscription"
		db, rp := g.dbrp(d)
		c.S = []string{db, rp, pickName(r, subPool)}
	case w < 995:
		c.K = "PruneShardGroups"
		switch r.Intn(4) {
		case 0:
			c.AgeA = true
		case 1:
			c.AgeB = true
		case 2:
			c.AgeA, c.AgeB = true, true
		}
	default:
		c.K = "RemovePeer"
		c.S = []string{pick(r, metaTCP)}
	}
	return c
}

func genLog(o *hx.Out, r *hx.Rand, n int) {
	g := &gen{r: r, base: 1600000000000000000 + int64(r.Intn(1000))*int64(time.Hour)}
	if r.Chance(15) {
		// around the Unix epoch: pre-1970 timestamps, groups that end exactly at 1970-01-01T00:00Z
		g.base = -int64(30*time.Minute) - int64(r.Intn(4))*int64(time.Hour)
	}
	d := LogDesc{Auto: r.Chance(70)}
	o.Begin("log", map[string]interface{}{"note": "log under generation; commands so far", "auto": d.Auto})
	run := newRunner(d.Auto)
	idx, term := uint64(1), uint64(1)
	add := func(c Cmd) {
		d.Cmds = append(d.Cmds, c)
		if len(d.Cmds)%5 == 1 {
			// crash attribution: the commands so far (a Go panic inside Apply is recovered and
			// recorded as error class 98; only a fatal runtime error kills the process)
			o.Begin("log", d)
		}
		run.step(o, c)
	}
	nextIdx := func() {
		idx += 1 + uint64(r.Intn(3))*uint64(r.Intn(2))
		if r.Chance(3) {
			term++
		}
	}
	// preamble: most logs start from a small working cluster
	if r.Chance(85) {
		for k := 1 + r.Intn(4); k > 0; k-- {
			nextIdx()
			h := r.Intn(6)
			add(Cmd{K: "CreateDataNode", Idx: idx, Term: term, S: []string{httpPool[h], hostPool[h]}})
		}
		nextIdx()
		add(Cmd{K: "CreateDatabase", Idx: idx, Term: term, S: []string{"db0"}})
		nextIdx()
		add(Cmd{K: "CreateRetentionPolicy", Idx: idx, Term: term, S: []string{"db0", "rp0"}, U: []uint64{uint64(1 + r.Intn(3))},
			I: []int64{0, []int64{0, int64(time.Hour), int64(24 * time.Hour), int64(90 * time.Minute)}[r.Intn(4)]}, B: []bool{r.Bool()}})
	}
	for len(d.Cmds) < n {
		nextIdx()
		add(g.next(run.a.Data(), idx, term))
	}
	run.emit(o, d, "gen")
}

func main() {
	f := hx.ParseFlags()
	o := hx.NewOut(f.OutDir)
	defer o.Close()
	if f.In != "" {
		for _, in := range hx.ReadInputs(f.In) {
			var d LogDesc
			if err := json.Unmarshal(in.Desc, &d); err != nil {
				panic(err)
			}
			runLog(o, d, "replay")
		}
		return
	}
	r := hx.NewRand(f.Seed)
	for i := 0; i < f.N; i++ {
		n := 8 + r.Intn(50)
		if f.Tier == "thorough" && i%10 == 0 {
			n = 100 + r.Intn(150)
		}
		genLog(o, r.Split(), n)
	}
}
