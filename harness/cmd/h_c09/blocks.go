package main

// Case kind "blocks": chosen block layouts of one (or a few) keys across 2-6 real TSM files are
// compacted by the real Compactor (CompactFull / CompactFast, i.e. the real tsmBatchKeyIterator)
// and the OUTPUT BLOCKS (index entries + decoded values through the real TSMReader) are recorded.
// Coq compares them block by block with Blocks.merge_key and value-wise with the logical merge.

import (
	"fmt"
	"math"
	"os"
	"sort"
	"strings"

	"github.com/influxdata/influxdb/tsdb/engine/tsm1"
	"verifharness/hx"
)

// readerView opens the file like the compactor's FileStore does and reports, for every key the
// file was written with, the reader's tombstone ranges and whether the key is still indexed.
func readerView(path string, d *SetDesc, f *FileDesc) (et map[int][][2]int64, deleted []int, err error) {
	defer func() {
		if r := recover(); r != nil {
			err = fmt.Errorf("panic: %v", r)
		}
	}()
	fd, e := os.Open(path)
	if e != nil {
		return nil, nil, e
	}
	r, e := tsm1.NewTSMReader(fd)
	if e != nil {
		return nil, nil, e
	}
	defer r.Close()
	et = map[int][][2]int64{}
	for _, kb := range f.Data {
		if len(kb.Blocks) == 0 {
			continue
		}
		key := d.Keys[kb.K].Bytes()
		if !r.Contains(key) {
			deleted = append(deleted, kb.K)
			continue
		}
		for _, tr := range r.TombstoneRange(key) {
			et[kb.K] = append(et[kb.K], [2]int64{tr.Min, tr.Max})
		}
	}
	sort.Ints(deleted)
	return et, deleted, nil
}

func coqBFiles(d *SetDesc, files []FileDesc, views []map[int][][2]int64, dels [][]int) string {
	items := make([]string, len(files))
	for i, f := range files {
		var data, tombs, ets, del []string
		for _, kb := range f.Data {
			var bs []string
			for _, b := range kb.Blocks {
				bs = append(bs, coqTVs(d.Keys[kb.K].Typ, b))
			}
			data = append(data, fmt.Sprintf("(%d%%N,[%s])", kb.K, strings.Join(bs, ";")))
		}
		for _, t := range f.Tombs {
			lo, hi := t.Lo, t.Hi
			if t.Full {
				lo, hi = math.MinInt64, math.MaxInt64
			}
			tombs = append(tombs, fmt.Sprintf("(%d%%N,(%s,%s))", t.K, hx.CoqZ(lo), hx.CoqZ(hi)))
		}
		var kids []int
		for k := range views[i] {
			kids = append(kids, k)
		}
		sort.Ints(kids)
		for _, k := range kids {
			var rs []string
			for _, tr := range views[i][k] {
				rs = append(rs, fmt.Sprintf("(%s,%s)", hx.CoqZ(tr[0]), hx.CoqZ(tr[1])))
			}
			ets = append(ets, fmt.Sprintf("(%d%%N,[%s])", k, strings.Join(rs, ";")))
		}
		for _, k := range dels[i] {
			del = append(del, fmt.Sprintf("%d%%N", k))
		}
		items[i] = fmt.Sprintf("(%d%%N,%d%%N,[%s],[%s],[%s],[%s])", f.Gen, f.Seq,
			strings.Join(data, ";"), strings.Join(tombs, ";"), strings.Join(ets, ";"), strings.Join(del, ";"))
	}
	return "[" + strings.Join(items, ";\n   ") + "]"
}

func runBlocks(o *hx.Out, d *SetDesc, origin string) {
	o.Begin("blocks", d)
	dir, _ := os.MkdirTemp(scratchRoot(), "c09-")
	defer os.RemoveAll(dir)
	if err := materialize(dir, d); err != nil {
		o.Count("skipped:materialize:" + firstWord(err))
		return
	}
	inGroup := map[[2]int]bool{}
	for _, g := range d.Group {
		inGroup[g] = true
	}
	// only the members of the group matter
	var files []FileDesc
	var views []map[int][][2]int64
	var dels [][]int
	nblocks, ntomb, maxPerKey := 0, 0, 0
	for i := range d.Files {
		f := &d.Files[i]
		if !inGroup[[2]int{f.Gen, f.Seq}] {
			continue
		}
		et, del, err := readerView(fileName(dir, f.Gen, f.Seq), d, f)
		if err != nil {
			o.Count("skipped:readerview")
			return
		}
		files = append(files, *f)
		views = append(views, et)
		dels = append(dels, del)
		for _, kb := range f.Data {
			nblocks += len(kb.Blocks)
		}
		ntomb += len(f.Tombs)
	}
	perKey := map[int]int{}
	for _, f := range files {
		for _, kb := range f.Data {
			perKey[kb.K] += len(kb.Blocks)
			if perKey[kb.K] > maxPerKey {
				maxPerKey = perKey[kb.K]
			}
		}
	}
	fs, err := openStore(dir)
	if err != nil {
		o.Count("skipped:open")
		return
	}
	defer fs.Close()
	c := newCompactor(dir, fs, d.Size)
	c.Open()
	outFiles, cerr := doCompact(c, d.Fast, groupPaths(dir, d.Group))
	ec := errClass(cerr)
	var outs []outFile
	for _, f := range outFiles {
		of, err := readOutFile(f, d)
		if err != nil {
			ec = 8
			cerr = err
		}
		outs = append(outs, of)
	}
	nout := 0
	var obsBlocks [][3]int64
	for _, of := range outs {
		for _, k := range of.Keys {
			nout += len(k.Blocks)
			for _, b := range k.Blocks {
				if len(obsBlocks) < 64 {
					obsBlocks = append(obsBlocks, [3]int64{b.Min, b.Max, int64(b.Count)})
				}
			}
		}
	}
	o.Count("blocks:files=" + bucket(len(files)))
	o.Count("blocks:input_blocks_per_key_max=" + bucket(maxPerKey))
	o.Count("blocks:input_blocks=" + bucket(nblocks))
	o.Count("blocks:output_blocks=" + bucket(nout))
	o.Count(fmt.Sprintf("blocks:tombstoned_files=%v", ntomb > 0))
	o.Count(fmt.Sprintf("blocks:size=%d", d.Size))
	o.Count(fmt.Sprintf("blocks:fast=%v", d.Fast))
	o.Count(fmt.Sprintf("blocks:err=%d", ec))
	coq := fmt.Sprintf("CBlk %s %s %s\n  %s\n  %s %d%%N\n  %s",
		coqKeys(d.Keys), hx.CoqZ(int64(d.Size)), hx.CoqBool(d.Fast),
		coqBFiles(d, files, views, dels), coqNames(d.Group), ec, coqOuts(d, outs))
	obs := map[string]interface{}{"err": ec, "outs": outNames(outs), "output_blocks(min,max,count)": obsBlocks,
		"input_blocks": nblocks, "reader_tombstones": views, "reader_deleted_keys": dels}
	if cerr != nil {
		obs["error"] = trunc(cerr.Error(), 300)
	}
	o.Emit(hx.Case{Kind: "blocks", Coq: coq, Desc: d, Obs: obs, Nontrivial: nblocks > 0 && len(d.Group) > 0,
		Sig: sigOf(d, "blocks"), Origin: origin})
}

// ---------------------------------------------------------------- generator

// blkVal: integer keys get a value that identifies the file (so the winner of a timestamp is
// visible); other types use the shared value generator.  Big blocks use one value per file
// so that the Coq term stays in run-length form.
func blkVal(r *hx.Rand, typ int, fi int, t int64, flat bool) Pt {
	if flat {
		p := Pt{T: t}
		switch typ {
		case 0:
			p.V = math.Float64bits(float64(fi) + 0.5)
		case 2:
			p.V = uint64(fi % 2)
		case 3:
			p.S = []byte{byte('a' + fi)}
		default:
			p.V = uint64(fi + 1)
		}
		return p
	}
	if typ == 1 || typ == 4 {
		return Pt{T: t, V: uint64(int64(fi+1)*1000 + (t%1000+1000)%1000)}
	}
	return genValue(r, typ, t)
}

// genBlocks: ONE key, 2-6 files (one generation each, sometimes a second sequence), per file a
// run of time-sorted non-overlapping blocks; across files the layouts interleave, nest, touch
// and repeat timestamps.  Shapes: random overlap; disjoint full blocks (fast path) with an
// intruder; >20 small blocks; files in reverse time order; tombstones on some files.
func genBlocks(r *hx.Rand) SetDesc {
	sizes := []int{1, 2, 3, 4, 5, 1000}
	size := sizes[r.Intn(len(sizes))]
	d := SetDesc{Size: size, Fast: r.Bool(), Lo: minNano, Hi: maxNano}
	typ := 1
	if r.Chance(35) {
		typ = r.Intn(5)
	}
	d.Keys = []KeyDesc{{Base: keyBases[r.Intn(len(keyBases))], Typ: typ}}
	nf := 2 + r.Intn(5)
	shape := r.Intn(6)
	big := size == 1000
	unit := size
	if big {
		unit = 1000
	}
	span := int64(10 + r.Intn(50))
	if big {
		span = int64(1500 + r.Intn(4000))
	}
	var shift int64
	switch r.Intn(12) {
	case 0:
		shift = math.MinInt64 + 2
	case 1:
		shift = math.MaxInt64 - 50000000
	}
	cursor := shift // for sequential shapes
	for fi := 0; fi < nf; fi++ {
		f := FileDesc{Gen: fi + 1, Seq: 1 + r.Intn(2)}
		// blocks of this file
		nb := r.Intn(7)
		if shape == 2 {
			nb = 4 + r.Intn(8) // many small blocks: > 20 in total
		}
		if big {
			nb = r.Intn(3)
		}
		var t int64
		switch shape {
		case 1, 4: // sequential files: each starts after the previous one ended (mostly)
			t = cursor
			if r.Chance(25) {
				t = cursor - int64(r.Intn(int(span/2)+1)) // intruder: reaches back into the previous file
				if t < shift || t > cursor {
					t = shift
				}
			}
		case 3: // reverse: newer files hold older times
			t = shift + int64(nf-fi)*span/2 + int64(r.Intn(4))
		default:
			t = shift + int64(r.Intn(int(span)))
		}
		var blocks [][]Pt
		for b := 0; b < nb; b++ {
			n := unit
			switch {
			case big:
				if r.Chance(30) {
					n = 1 + r.Intn(1200)
				}
			case shape == 2:
				n = 1 + r.Intn(2)
			case r.Chance(45):
				n = 1 + r.Intn(2*unit+1)
			}
			step := int64(1)
			if !big && r.Chance(50) {
				step = int64(1 + r.Intn(4))
			}
			var blk []Pt
			for j := 0; j < n; j++ {
				blk = append(blk, blkVal(r, typ, fi, t, big))
				st := step
				if !big && r.Chance(30) {
					st = int64(1 + r.Intn(5))
				}
				t += st
			}
			blocks = append(blocks, blk)
			// gap before the next block of the file (0 = the next block starts right after)
			if r.Chance(50) {
				t += int64(r.Intn(int(span/3) + 1))
			}
		}
		if t > cursor {
			cursor = t
		}
		if len(blocks) > 0 {
			f.Data = []KB{{K: 0, Blocks: blocks}}
		}
		// tombstones on some files
		if len(blocks) > 0 && r.Chance(30) {
			nt := 1 + r.Intn(2)
			lo0, hi0 := blocks[0][0].T, blocks[len(blocks)-1][len(blocks[len(blocks)-1])-1].T
			for k := 0; k < nt; k++ {
				w := hi0 - lo0 + 1
				a := lo0 + int64(r.Intn(int(w)))
				b := a + int64(r.Intn(int(w/2)+1))
				switch r.Intn(8) {
				case 0: // exactly one block
					bi := r.Intn(len(blocks))
					a, b = blocks[bi][0].T, blocks[bi][len(blocks[bi])-1].T
				case 1: // a prefix of the key's range
					if lo0 > math.MinInt64+3 {
						a = lo0 - 3
					}
				case 2: // a suffix
					b = hi0 + 3
				case 3: // everything
					a, b = lo0, hi0
				case 4: // nothing of the key
					a, b = hi0+5, hi0+9
				}
				f.Tombs = append(f.Tombs, Tomb{K: 0, Lo: a, Hi: b})
			}
		}
		d.Files = append(d.Files, f)
		d.Group = append(d.Group, [2]int{f.Gen, f.Seq})
	}
	// sometimes compact only a contiguous part of the files
	if r.Chance(15) && len(d.Group) > 2 {
		from := r.Intn(len(d.Group) - 1)
		d.Group = d.Group[from:]
	}
	return d
}

func seqBlock(fi int, from int64, n int, step int64) []Pt {
	var b []Pt
	for i := 0; i < n; i++ {
		t := from + int64(i)*step
		b = append(b, Pt{T: t, V: uint64(int64(fi+1)*1000 + (t%1000+1000)%1000)})
	}
	return b
}

func blocksCase(size int, fast bool, files ...FileDesc) designedCase {
	d := SetDesc{Keys: []KeyDesc{{Base: "cpu,host=a#!~#v", Typ: 1}}, Size: size, Fast: fast, Lo: minNano, Hi: maxNano, Files: files}
	for _, f := range files {
		d.Group = append(d.Group, [2]int{f.Gen, f.Seq})
	}
	return designedCase{"blocks", d}
}

func oneKey(gen int, blocks [][]Pt, tombs ...Tomb) FileDesc {
	return FileDesc{Gen: gen, Seq: 1, Data: []KB{{K: 0, Blocks: blocks}}, Tombs: tombs}
}

func designedBlocks() []designedCase {
	var cs []designedCase
	for _, fast := range []bool{false, true} {
		// disjoint full blocks: the fast path passes every block through
		cs = append(cs, blocksCase(2, fast,
			oneKey(1, [][]Pt{seqBlock(0, 10, 2, 10), seqBlock(0, 30, 2, 10)}),
			oneKey(2, [][]Pt{seqBlock(1, 50, 2, 10), seqBlock(1, 70, 1, 1)})))
		// a newer file starting BEFORE an older overlapping block: the window's min moves down
		cs = append(cs, blocksCase(2, fast,
			oneKey(1, [][]Pt{seqBlock(0, 10, 2, 10), seqBlock(0, 30, 2, 10)}),
			oneKey(2, [][]Pt{seqBlock(1, 5, 2, 25)})))
		// partial reads: a long sparse block of the old file, short dense blocks of the new one
		cs = append(cs, blocksCase(3, fast,
			oneKey(1, [][]Pt{seqBlock(0, 0, 6, 20)}),
			oneKey(2, [][]Pt{seqBlock(1, 15, 3, 1), seqBlock(1, 55, 3, 1), seqBlock(1, 95, 3, 5)})))
		// tombstone on the first block only / on a later block only / on the second file only
		cs = append(cs, blocksCase(2, fast,
			oneKey(1, [][]Pt{seqBlock(0, 10, 2, 10), seqBlock(0, 30, 2, 10), seqBlock(0, 50, 2, 10)}, Tomb{K: 0, Lo: 10, Hi: 15}),
			oneKey(2, [][]Pt{seqBlock(1, 70, 2, 10)})))
		cs = append(cs, blocksCase(2, fast,
			oneKey(1, [][]Pt{seqBlock(0, 10, 2, 10), seqBlock(0, 30, 2, 10), seqBlock(0, 50, 2, 10)}, Tomb{K: 0, Lo: 55, Hi: 65}),
			oneKey(2, [][]Pt{seqBlock(1, 70, 2, 10)})))
		cs = append(cs, blocksCase(2, fast,
			oneKey(1, [][]Pt{seqBlock(0, 10, 2, 10), seqBlock(0, 30, 2, 10)}),
			oneKey(2, [][]Pt{seqBlock(1, 50, 2, 10), seqBlock(1, 70, 2, 10)}, Tomb{K: 0, Lo: 75, Hi: 90})))
		// same timestamps in three files: the newest wins in every block
		cs = append(cs, blocksCase(2, fast,
			oneKey(1, [][]Pt{seqBlock(0, 1, 2, 1), seqBlock(0, 3, 2, 1)}),
			oneKey(2, [][]Pt{seqBlock(1, 1, 3, 1)}),
			oneKey(3, [][]Pt{seqBlock(2, 2, 2, 1)})))
		// 42 single-point blocks over 3 files, interleaved (the > 20 blocks sort)
		var f1, f2, f3 [][]Pt
		for i := 0; i < 14; i++ {
			f1 = append(f1, seqBlock(0, int64(3*i), 1, 1))
			f2 = append(f2, seqBlock(1, int64(3*i+1), 1, 1))
			f3 = append(f3, seqBlock(2, int64(3*i), 2, 1))
		}
		cs = append(cs, blocksCase(3, fast, oneKey(1, f1), oneKey(2, f2), oneKey(3, f3)))
		// an input block larger than size is passed through unchanged when nothing overlaps it
		cs = append(cs, blocksCase(2, fast,
			oneKey(1, [][]Pt{seqBlock(0, 10, 5, 1)}),
			oneKey(2, [][]Pt{seqBlock(1, 40, 1, 1), seqBlock(1, 50, 1, 1)})))
		// a block fully covered by a tombstone between two live ones; a fully deleted key in one file
		cs = append(cs, blocksCase(2, fast,
			oneKey(1, [][]Pt{seqBlock(0, 10, 2, 1), seqBlock(0, 20, 2, 1), seqBlock(0, 30, 2, 1)}, Tomb{K: 0, Lo: 20, Hi: 21}),
			oneKey(2, [][]Pt{seqBlock(1, 20, 2, 1)}, Tomb{K: 0, Lo: 0, Hi: 100})))
	}
	// full blocks of exactly 1000 points, one partially overlapped by a newer file
	cs = append(cs, blocksCase(1000, false,
		oneKey(1, [][]Pt{flatBlock(0, 0, 1000), flatBlock(0, 1000, 1000), flatBlock(0, 2000, 400)}),
		oneKey(2, [][]Pt{flatBlock(1, 1500, 1000)})))
	cs = append(cs, blocksCase(1000, true,
		oneKey(1, [][]Pt{flatBlock(0, 0, 1000), flatBlock(0, 1000, 1000), flatBlock(0, 2000, 400)}),
		oneKey(2, [][]Pt{flatBlock(1, 2400, 1000), flatBlock(1, 3400, 10)})))
	return cs
}

func flatBlock(fi int, from int64, n int) []Pt {
	var b []Pt
	for i := 0; i < n; i++ {
		b = append(b, Pt{T: from + int64(i), V: uint64(fi + 1)})
	}
	return b
}
