package main

import (
	"fmt"
	"math"
	"sort"

	"verifharness/hx"
)

const (
	minNano = math.MinInt64 + 2 // models.MinNanoTime
	maxNano = math.MaxInt64 - 1 // models.MaxNanoTime
)

type designedCase struct {
	kind string
	d    SetDesc
}

var keyBases = []string{"cpu,host=a#!~#v", "cpu,host=b#!~#v", "mem,host=a#!~#used", "disk,path=/#!~#free", "a#!~#b", "zz,t=1#!~#f"}

func genValue(r *hx.Rand, typ int, t int64) Pt {
	p := Pt{T: t}
	switch typ {
	case 0:
		switch r.Intn(6) {
		case 0:
			p.V = math.Float64bits(float64(r.Intn(100)) / 4)
		case 1:
			p.V = math.Float64bits(-0.0)
		case 2:
			p.V = math.Float64bits(math.Inf(1))
		case 3:
			p.V = math.Float64bits(math.MaxFloat64)
		default:
			p.V = math.Float64bits(float64(r.Intn(1000)) - 500)
		}
	case 1:
		switch r.Intn(6) {
		case 0:
			p.V = 1 << 63
		case 1:
			p.V = uint64(math.MaxInt64)
		default:
			p.V = uint64(int64(r.Intn(2000)) - 1000)
		}
	case 2:
		p.V = uint64(r.Intn(2))
	case 3:
		n := r.Intn(6)
		p.S = make([]byte, n)
		for i := range p.S {
			p.S[i] = "abz\x00\xff, ="[r.Intn(8)]
		}
	default:
		switch r.Intn(6) {
		case 0:
			p.V = math.MaxUint64
		default:
			p.V = uint64(r.Intn(2000))
		}
	}
	return p
}

// genTimes returns n distinct sorted timestamps from a small universe (so that files
// overlap heavily), occasionally shifted to the ends of the time range.
func genTimes(r *hx.Rand, n int, span int, shift int64) []int64 {
	if n > span {
		n = span
	}
	seen := map[int64]bool{}
	var ts []int64
	for len(ts) < n {
		t := int64(r.Intn(span))
		if !seen[t] {
			seen[t] = true
			ts = append(ts, t)
		}
	}
	sort.Slice(ts, func(i, j int) bool { return ts[i] < ts[j] })
	for i := range ts {
		ts[i] += shift
	}
	return ts
}

func cutBlocks(r *hx.Rand, pts []Pt, size int, exact bool) [][]Pt {
	var bs [][]Pt
	for len(pts) > 0 {
		n := size
		if !exact && r.Chance(35) {
			n = 1 + r.Intn(size)
		}
		if n > len(pts) {
			n = len(pts)
		}
		bs = append(bs, pts[:n])
		pts = pts[n:]
	}
	return bs
}

func genKeys(r *hx.Rand, n int, long bool) []KeyDesc {
	perm := []int{0, 1, 2, 3, 4, 5}
	for i := len(perm) - 1; i > 0; i-- {
		j := r.Intn(i + 1)
		perm[i], perm[j] = perm[j], perm[i]
	}
	var ks []KeyDesc
	for i := 0; i < n; i++ {
		ks = append(ks, KeyDesc{Base: keyBases[perm[i]], Typ: r.Intn(5)})
	}
	if long {
		ks[r.Intn(n)].Pad = 65535 - 20 - r.Intn(3)
		for i := range ks {
			if ks[i].Pad > 0 {
				ks[i].Pad = 65535 - len(ks[i].Base) - r.Intn(2)
			}
		}
	}
	return ks
}

// genSet generates a file set: gens generations x 1..3 sequences, keys in only some files,
// interleaved and overlapping blocks for the same key across files, blocks of exactly Size.
func genSet(r *hx.Rand, size int, maxGens int, long bool) SetDesc {
	d := SetDesc{Size: size, Fast: r.Bool(), Lo: minNano, Hi: maxNano}
	nk := 1 + r.Intn(4)
	d.Keys = genKeys(r, nk, long)
	gens := 1 + r.Intn(maxGens)
	span := 8 + r.Intn(40)
	if size >= 1000 {
		span = 12 + r.Intn(30)
	}
	var shift int64
	switch r.Intn(12) {
	case 0:
		shift = maxNano - int64(span) - 1
	case 1:
		shift = minNano + 1
	case 2:
		shift = -int64(span / 2)
	case 3:
		shift = 1600000000000000000
	}
	gen := 0
	for g := 0; g < gens; g++ {
		gen += 1 + r.Intn(2)*r.Intn(3)
		nseq := 1
		if r.Chance(30) {
			nseq = 1 + r.Intn(3)
		}
		first := 1 + r.Intn(4)
		if r.Chance(60) {
			first = 1
		}
		for s := 0; s < nseq; s++ {
			f := FileDesc{Gen: gen, Seq: first + s}
			for k := 0; k < nk; k++ {
				if !r.Chance(70) {
					continue
				}
				maxPts := 3*size + 2
				if size >= 1000 {
					maxPts = 14
				}
				n := 1 + r.Intn(maxPts)
				if r.Chance(25) {
					n = size * (1 + r.Intn(3))
					if size >= 1000 {
						n = 1 + r.Intn(6)
					}
				}
				ts := genTimes(r, n, span, shift)
				pts := make([]Pt, len(ts))
				for i, t := range ts {
					pts[i] = genValue(r, d.Keys[k].Typ, t)
				}
				f.Data = append(f.Data, KB{K: k, Blocks: cutBlocks(r, pts, size, r.Chance(50))})
			}
			if len(f.Data) == 0 {
				k := r.Intn(nk)
				f.Data = append(f.Data, KB{K: k, Blocks: [][]Pt{{genValue(r, d.Keys[k].Typ, shift+int64(r.Intn(span)))}}})
			}
			// tombstones
			if r.Chance(40) {
				nt := 1 + r.Intn(3)
				for i := 0; i < nt; i++ {
					kb := f.Data[r.Intn(len(f.Data))]
					t := Tomb{K: kb.K}
					switch r.Intn(7) {
					case 0:
						t.Full = true
					case 1: // exactly one block
						b := kb.Blocks[r.Intn(len(kb.Blocks))]
						t.Lo, t.Hi = b[0].T, b[len(b)-1].T
					case 2: // everything of the key by range
						b0, b1 := kb.Blocks[0], kb.Blocks[len(kb.Blocks)-1]
						t.Lo, t.Hi = b0[0].T, b1[len(b1)-1].T
					case 3: // a single point
						b := kb.Blocks[r.Intn(len(kb.Blocks))]
						t.Lo = b[r.Intn(len(b))].T
						t.Hi = t.Lo
					default:
						a, b := shift+int64(r.Intn(span)), shift+int64(r.Intn(span))
						if a > b {
							a, b = b, a
						}
						t.Lo, t.Hi = a, b
					}
					f.Tombs = append(f.Tombs, t)
				}
			}
			d.Files = append(d.Files, f)
		}
	}
	if r.Chance(20) {
		span64 := int64(span)
		d.Lo = shift + int64(r.Intn(span)) - span64/4
		d.Hi = shift + int64(r.Intn(span)) + span64/4
		if d.Lo < minNano {
			d.Lo = minNano
		}
		if d.Hi > maxNano || d.Hi < shift {
			d.Hi = maxNano
		}
	}
	return d
}

func gensOf(d *SetDesc) []int {
	seen := map[int]bool{}
	var gs []int
	for _, f := range d.Files {
		if !seen[f.Gen] {
			seen[f.Gen] = true
			gs = append(gs, f.Gen)
		}
	}
	sort.Ints(gs)
	return gs
}

func filesOfGens(d *SetDesc, pick map[int]bool) [][2]int {
	var g [][2]int
	for _, f := range d.Files {
		if pick[f.Gen] {
			g = append(g, [2]int{f.Gen, f.Seq})
		}
	}
	sort.Slice(g, func(i, j int) bool {
		if g[i][0] != g[j][0] {
			return g[i][0] < g[j][0]
		}
		return g[i][1] < g[j][1]
	})
	return g
}

// contiguous group of whole generations
func pickGroup(r *hx.Rand, d *SetDesc) {
	gs := gensOf(d)
	a := r.Intn(len(gs))
	b := a + r.Intn(len(gs)-a)
	if r.Chance(40) {
		a, b = 0, len(gs)-1
	}
	pick := map[int]bool{}
	for i := a; i <= b; i++ {
		pick[gs[i]] = true
	}
	d.Group = filesOfGens(d, pick)
}

// a group of whole generations that jumps over at least one generation
func pickJumpGroup(r *hx.Rand, d *SetDesc) bool {
	gs := gensOf(d)
	if len(gs) < 3 {
		return false
	}
	pick := map[int]bool{}
	for _, g := range gs {
		if r.Chance(55) {
			pick[g] = true
		}
	}
	pick[gs[0]] = true
	pick[gs[len(gs)-1]] = true
	skipped := false
	for _, g := range gs[1 : len(gs)-1] {
		if !pick[g] {
			skipped = true
		}
	}
	if !skipped {
		delete(pick, gs[1+r.Intn(len(gs)-2)])
	}
	d.Group = filesOfGens(d, pick)
	return true
}

func genSnapWrites(r *hx.Rand, d *SetDesc, n int, span int, shift int64) [][]KP {
	var bs [][]KP
	for n > 0 {
		m := 1 + r.Intn(4)
		if m > n {
			m = n
		}
		var b []KP
		for i := 0; i < m; i++ {
			k := r.Intn(len(d.Keys))
			b = append(b, KP{K: k, P: genValue(r, d.Keys[k].Typ, shift+int64(r.Intn(span)))})
		}
		bs = append(bs, b)
		n -= m
	}
	return bs
}

func spanOf(d *SetDesc) (int, int64) {
	lo, hi := int64(math.MaxInt64), int64(math.MinInt64)
	for _, f := range d.Files {
		for _, kb := range f.Data {
			for _, b := range kb.Blocks {
				for _, p := range b {
					if p.T < lo {
						lo = p.T
					}
					if p.T > hi {
						hi = p.T
					}
				}
			}
		}
	}
	if lo > hi {
		return 10, 0
	}
	span := hi - lo + 3
	if span > 60 || span <= 0 {
		span = 60
	}
	if hi >= maxNano-3 {
		return int(span) - 3, lo
	}
	return int(span), lo
}

// planner file sets: many generations of tiny files whose levels (= sequence numbers) form
// the patterns the level planners look for; all files share points of one key.
func genPlanSet(r *hx.Rand) SetDesc {
	d := SetDesc{Size: 1000, Lo: minNano, Hi: maxNano}
	d.Keys = []KeyDesc{{Base: keyBases[0], Typ: 1}, {Base: keyBases[2], Typ: 0}}
	gen := 0
	addGens := func(n, seq int, multi bool) {
		for i := 0; i < n; i++ {
			gen++
			nseq := 1
			if multi && r.Chance(30) {
				nseq = 2
			}
			for s := 0; s < nseq; s++ {
				f := FileDesc{Gen: gen, Seq: seq + s}
				for k := range d.Keys {
					if k == 0 || r.Chance(50) {
						ts := genTimes(r, 1+r.Intn(3), 6, 0)
						var pts []Pt
						for _, t := range ts {
							pts = append(pts, genValue(r, d.Keys[k].Typ, t))
						}
						f.Data = append(f.Data, KB{K: k, Blocks: [][]Pt{pts}})
					}
				}
				if r.Chance(10) {
					f.Tombs = append(f.Tombs, Tomb{K: 0, Lo: 100, Hi: 200})
					if r.Chance(50) {
						f.Tombs[0].Lo, f.Tombs[0].Hi = 1, 2
					}
				}
				d.Files = append(d.Files, f)
			}
		}
	}
	switch r.Intn(6) {
	case 0: // a run of level-4 files, then level 2, then level 1
		addGens(r.Intn(6), 4+r.Intn(2), true)
		addGens(r.Intn(6), 2, false)
		addGens(r.Intn(18), 1, false)
	case 1: // level 2 / level 1 interleaved
		for i := 0; i < 5; i++ {
			addGens(r.Intn(5), 1+r.Intn(3), false)
		}
	case 2:
		addGens(3+r.Intn(2), 2, false)
		addGens(8, 1, false)
		addGens(8+r.Intn(3), 1, false)
	case 3:
		addGens(4+r.Intn(5), 3, false)
		addGens(4+r.Intn(5), 2, false)
		addGens(r.Intn(10), 1, false)
	case 4:
		addGens(2+r.Intn(8), 4+r.Intn(3), true)
	default:
		for i := 0; i < 8; i++ {
			addGens(1+r.Intn(3), 1+r.Intn(5), r.Bool())
		}
	}
	if len(d.Files) == 0 {
		addGens(4, 1, false)
	}
	return d
}

func genPlanOps(r *hx.Rand, d *SetDesc) {
	ops := []string{"level", "level", "level", "plan", "full", "optimize"}
	n := 2 + r.Intn(5)
	maxGen := 0
	for _, f := range d.Files {
		if f.Gen > maxGen {
			maxGen = f.Gen
		}
	}
	kept := 0
	for i := 0; i < n; i++ {
		op := PlanOp{Op: ops[r.Intn(len(ops))]}
		if op.Op == "level" {
			op.Level = 1 + r.Intn(3)
		}
		if r.Chance(50) {
			op.Keep = true
			kept++
		} else if r.Chance(50) {
			op.Run = true
		}
		d.Ops = append(d.Ops, op)
		if r.Chance(60) {
			// something else finishes and changes the file store
			if kept > 0 && r.Chance(60) {
				d.Ops = append(d.Ops, PlanOp{Op: "compact", Which: r.Intn(kept), Idx: r.Intn(2)})
			} else {
				maxGen++
				f := FileDesc{Gen: maxGen, Seq: 1, Data: []KB{{K: 0, Blocks: [][]Pt{{genValue(r, 1, int64(r.Intn(6)))}}}}}
				d.Ops = append(d.Ops, PlanOp{Op: "install", File: &f})
			}
		}
	}
}

func pt(t int64, v int64) Pt { return Pt{T: t, V: uint64(v)} }

func designed(tier string) []designedCase {
	var cs []designedCase
	k1 := []KeyDesc{{Base: "cpu,host=a#!~#v", Typ: 1}}
	// 1. the witness of noncontiguous_group_refuted: the group {1,3} jumps over generation 2,
	//    which overwrites a point of generation 1
	jump := SetDesc{Keys: k1, Size: 1000, Lo: minNano, Hi: maxNano, Group: [][2]int{{1, 1}, {3, 1}},
		Files: []FileDesc{
			{Gen: 1, Seq: 1, Data: []KB{{K: 0, Blocks: [][]Pt{{pt(1, 1)}}}}},
			{Gen: 2, Seq: 1, Data: []KB{{K: 0, Blocks: [][]Pt{{pt(1, 2)}}}}},
			{Gen: 3, Seq: 1, Data: []KB{{K: 0, Blocks: [][]Pt{{pt(5, 3)}}}}},
		}}
	cs = append(cs, designedCase{"compact", jump})
	// 2. same files, contiguous groups
	for _, g := range [][][2]int{{{1, 1}, {2, 1}}, {{2, 1}, {3, 1}}, {{1, 1}, {2, 1}, {3, 1}}, {{2, 1}}} {
		d := jump
		d.Group = g
		cs = append(cs, designedCase{"compact", d})
		d.Fast = true
		cs = append(cs, designedCase{"compact", d})
	}
	// 3. blocks of exactly DefaultMaxPointsPerBlock, overlapping across two files, and a
	//    tombstone cutting into a full block
	mk := func(n int, start, step int64, v int64) []Pt {
		ps := make([]Pt, n)
		for i := range ps {
			ps[i] = pt(start+int64(i)*step, v)
		}
		return ps
	}
	for _, fast := range []bool{false, true} {
		full := SetDesc{Keys: k1, Size: 1000, Fast: fast, Lo: minNano, Hi: maxNano, Group: [][2]int{{1, 1}, {2, 1}, {3, 1}},
			Files: []FileDesc{
				{Gen: 1, Seq: 1, Data: []KB{{K: 0, Blocks: [][]Pt{mk(1000, 0, 2, 1), mk(1000, 2000, 2, 1)}}}},
				{Gen: 2, Seq: 1, Data: []KB{{K: 0, Blocks: [][]Pt{mk(1000, 1001, 2, 2)}}}, Tombs: []Tomb{{K: 0, Lo: 1500, Hi: 1600}}},
				{Gen: 3, Seq: 1, Data: []KB{{K: 0, Blocks: [][]Pt{mk(1000, 4000, 1, 3), mk(1, 6000, 1, 3)}}}},
			}}
		cs = append(cs, designedCase{"compact", full})
	}
	// 4. many small blocks of one key (more than 20, where sort.Stable switches algorithm)
	for _, fast := range []bool{false, true} {
		many := SetDesc{Keys: k1, Size: 2, Fast: fast, Lo: minNano, Hi: maxNano, Group: [][2]int{{1, 1}, {2, 1}, {3, 1}}}
		for g := 1; g <= 3; g++ {
			var bs [][]Pt
			for b := 0; b < 14; b++ {
				base := int64(b*7 + g*3)
				bs = append(bs, []Pt{pt(base, int64(g)), pt(base+2+int64(g), int64(g))})
			}
			sort.Slice(bs, func(i, j int) bool { return bs[i][0].T < bs[j][0].T })
			// make the blocks of one file disjoint
			var fixed [][]Pt
			last := int64(math.MinInt64)
			for _, b := range bs {
				if b[0].T > last {
					fixed = append(fixed, b)
					last = b[1].T
				}
			}
			many.Files = append(many.Files, FileDesc{Gen: g, Seq: 1, Data: []KB{{K: 0, Blocks: fixed}}})
		}
		cs = append(cs, designedCase{"compact", many})
	}
	// 5. a key near the maximum key length next to a short one, all five value types
	long := SetDesc{Size: 3, Lo: minNano, Hi: maxNano, Group: [][2]int{{1, 1}, {1, 2}, {2, 1}},
		Keys: []KeyDesc{{Base: "cpu,host=a#!~#v", Pad: 65535 - 15, Typ: 0}, {Base: "cpu,host=a#!~#i", Typ: 1}, {Base: "cpu,host=a#!~#b", Typ: 2},
			{Base: "cpu,host=a#!~#s", Typ: 3}, {Base: "cpu,host=a#!~#u", Typ: 4}}}
	r := hx.NewRand(99)
	for _, n := range [][2]int{{1, 1}, {1, 2}, {2, 1}} {
		f := FileDesc{Gen: n[0], Seq: n[1]}
		for k := range long.Keys {
			ts := genTimes(r, 5, 9, 0)
			var pts []Pt
			for _, t := range ts {
				pts = append(pts, genValue(r, long.Keys[k].Typ, t))
			}
			f.Data = append(f.Data, KB{K: k, Blocks: cutBlocks(r, pts, 3, true)})
		}
		long.Files = append(long.Files, f)
	}
	cs = append(cs, designedCase{"compact", long})
	// 6. crash at every step of the replacement of the 3-file set, and every failure kind
	for n := 0; n <= 4; n++ {
		d := jump
		d.Group = [][2]int{{1, 1}, {2, 1}, {3, 1}}
		d.CrashAt = n
		cs = append(cs, designedCase{"crash", d})
	}
	for fault := 1; fault <= 5; fault++ {
		d := jump
		d.Keys = []KeyDesc{{Base: "cpu,host=a#!~#v", Typ: 1}, {Base: "mem,host=a#!~#used", Typ: 1}}
		d.Files = append([]FileDesc{}, jump.Files...)
		d.Files[1] = FileDesc{Gen: 2, Seq: 1, Data: []KB{{K: 0, Blocks: [][]Pt{{pt(1, 2)}}}, {K: 1, Blocks: [][]Pt{{pt(7, 7), pt(8, 8)}}}}}
		d.Group = [][2]int{{1, 1}, {2, 1}, {3, 1}}
		d.Fault = fault
		d.FaultFile = 1
		d.FaultKey = 0
		cs = append(cs, designedCase{"fail", d})
	}
	// 7. snapshot over existing files, with duplicates in the cache and writes during the flush
	snap := jump
	snap.Group = nil
	snap.Snap = [][]KP{{{K: 0, P: pt(1, 10)}, {K: 0, P: pt(9, 11)}}, {{K: 0, P: pt(1, 12)}, {K: 0, P: pt(3, 13)}}}
	snap.Hot = [][]KP{{{K: 0, P: pt(9, 14)}, {K: 0, P: pt(20, 15)}}}
	cs = append(cs, designedCase{"snap", snap})
	// 8. the planner while a level-1 compaction is still running (files kept acquired) and
	//    a later level-1 group has already been compacted
	plan := SetDesc{Keys: k1, Size: 1000, Lo: minNano, Hi: maxNano}
	for g := 1; g <= 3; g++ {
		plan.Files = append(plan.Files, FileDesc{Gen: g, Seq: 2, Data: []KB{{K: 0, Blocks: [][]Pt{{pt(1, int64(g))}}}}})
	}
	for g := 4; g <= 11; g++ {
		plan.Files = append(plan.Files, FileDesc{Gen: g, Seq: 1, Data: []KB{{K: 0, Blocks: [][]Pt{{pt(1, int64(g)), pt(int64(g), int64(g))}}}}})
	}
	for g := 12; g <= 19; g++ {
		plan.Files = append(plan.Files, FileDesc{Gen: g, Seq: 1, Data: []KB{{K: 0, Blocks: [][]Pt{{pt(100+int64(g), int64(g))}}}}})
	}
	plan.Ops = []PlanOp{{Op: "level", Level: 1, Keep: true}, {Op: "compact", Which: 0, Idx: 1}, {Op: "level", Level: 2, Run: true}}
	cs = append(cs, designedCase{"plan", plan})
	// 9. a whole-series delete issued while the compaction runs: of a key held by the group
	//    (the block iterators notice it), and of a key no group member holds
	for _, fast := range []bool{false, true} {
		for dk := 0; dk < 2; dk++ {
			d := jump
			d.Fast = fast
			d.Keys = []KeyDesc{{Base: "cpu,host=a#!~#v", Typ: 1}, {Base: "mem,host=a#!~#used", Typ: 1}, {Base: "zz,t=1#!~#f", Typ: 1}}
			d.Files = []FileDesc{
				{Gen: 1, Seq: 1, Data: []KB{{K: 0, Blocks: [][]Pt{{pt(1, 1), pt(2, 1)}}}, {K: 2, Blocks: [][]Pt{{pt(1, 5)}}}}},
				{Gen: 2, Seq: 1, Data: []KB{{K: 0, Blocks: [][]Pt{{pt(2, 2)}}}, {K: 2, Blocks: [][]Pt{{pt(3, 6)}}}}},
				{Gen: 3, Seq: 1, Data: []KB{{K: 1, Blocks: [][]Pt{{pt(7, 7)}}}}},
			}
			d.Group = [][2]int{{1, 1}, {2, 1}}
			d.DelKey = dk
			cs = append(cs, designedCase{"delete", d})
		}
	}
	// 10. roll-over at the writer's limit of 65535 blocks per key and file: the last key of
	//     the compaction has exactly 65535 one-point blocks (nothing is left for the next
	//     file), one more, one less, and a roll-over that lands on a key boundary
	const maxBlocks = 65535
	rollKeys := []KeyDesc{{Base: "cpu,host=A#!~#value", Typ: 1}, {Base: "cpu,host=B#!~#value", Typ: 1}}
	roll := func(fast bool, size int, big []BigFile) SetDesc {
		d := SetDesc{Keys: rollKeys, Size: size, Fast: fast, Lo: minNano, Hi: maxNano, Big: big}
		for _, b := range big {
			d.Group = append(d.Group, [2]int{b.Gen, b.Seq})
		}
		return d
	}
	exact := []BigFile{{Gen: 1, Seq: 1, Runs: []BigRun{{K: 1, From: 0, N: maxBlocks, Val: 7}}}, {Gen: 2, Seq: 1, Runs: []BigRun{{K: 0, From: 0, N: 3, Val: 9}}}}
	cs = append(cs, designedCase{"roll", roll(true, 1000, exact)})
	if tier == "thorough" {
		cs = append(cs, designedCase{"roll", roll(false, 1, exact)})
		cs = append(cs, designedCase{"roll", roll(true, 1000, []BigFile{
			{Gen: 1, Seq: 1, Runs: []BigRun{{K: 1, From: 0, N: maxBlocks, Val: 7}}}, {Gen: 2, Seq: 1, Runs: []BigRun{{K: 1, From: maxBlocks, N: 1, Val: 7}}}})})
		cs = append(cs, designedCase{"roll", roll(false, 1, []BigFile{
			{Gen: 1, Seq: 1, Runs: []BigRun{{K: 1, From: 0, N: maxBlocks - 1, Val: 7}}}, {Gen: 2, Seq: 1, Runs: []BigRun{{K: 0, From: 0, N: 3, Val: 9}}}})})
		// the first key fills the file exactly: the next file starts with the next key
		cs = append(cs, designedCase{"roll", roll(true, 1000, []BigFile{
			{Gen: 1, Seq: 1, Runs: []BigRun{{K: 0, From: 0, N: maxBlocks, Val: 7}}}, {Gen: 2, Seq: 1, Runs: []BigRun{{K: 1, From: 0, N: 5, Val: 9}}}})})
		cs = append(cs, designedCase{"roll", roll(false, 1, []BigFile{
			{Gen: 1, Seq: 1, Runs: []BigRun{{K: 0, From: 0, N: maxBlocks, Val: 7}}}, {Gen: 2, Seq: 1, Runs: []BigRun{{K: 1, From: 0, N: maxBlocks, Val: 9}}}})})
	}
	return cs
}

func generate(o *hx.Out, r *hx.Rand, n int, tier string) {
	sizes := []int{2, 3, 2, 3, 1000}
	for i := 0; i < n; i++ {
		size := sizes[r.Intn(len(sizes))]
		if r.Chance(8) {
			// the planner's grouping rule on generated file-name sets (no files on disk)
			pd := genPlanLevel(r)
			runPlanLevel(o, &pd, "gen")
			continue
		}
		if r.Chance(30) {
			// block level: one key, chosen block layouts
			d := genBlocks(r)
			runBlocks(o, &d, "gen")
			continue
		}
		switch k := r.Intn(100); {
		case k < 52:
			d := genSet(r, size, 6, r.Chance(2))
			if r.Chance(12) {
				if !pickJumpGroup(r, &d) {
					pickGroup(r, &d)
				} else {
					o.Count("compact:jump_group")
				}
			} else {
				pickGroup(r, &d)
			}
			d.ViaEngine = r.Chance(30)
			runCompact(o, &d, "gen")
			if r.Chance(40) && len(d.Group) > 0 {
				// the same multi-key file set at block level
				runBlocks(o, &d, "gen")
			}
		case k < 59:
			d := genSet(r, size, 4, false)
			pickGroup(r, &d)
			d.DelKey = r.Intn(len(d.Keys))
			runDelete(o, &d, "gen")
		case k < 66:
			d := genSet(r, size, 4, false)
			pickGroup(r, &d)
			d.CrashAt = r.Intn(len(d.Group) + 3)
			runCrash(o, &d, "gen")
		case k < 72:
			d := genSet(r, size, 4, false)
			pickGroup(r, &d)
			d.Fault = 1 + r.Intn(4)
			if r.Chance(40) {
				d.Fault = 2
			}
			if d.Fault == 2 {
				// damage a block of a key that at least two files of the group hold, so that
				// the blocks are (usually) decoded and merged rather than copied
				inGroup := map[[2]int]bool{}
				for _, g := range d.Group {
					inGroup[g] = true
				}
				count := map[int]int{}
				for _, f := range d.Files {
					if inGroup[[2]int{f.Gen, f.Seq}] {
						for _, kb := range f.Data {
							count[kb.K]++
						}
					}
				}
				fi, fk := -1, -1
				for j, f := range d.Files {
					if !inGroup[[2]int{f.Gen, f.Seq}] {
						continue
					}
					for _, kb := range f.Data {
						if count[kb.K] >= 2 && (fi < 0 || r.Chance(30)) {
							fi, fk = j, kb.K
						}
					}
				}
				if fi < 0 {
					d.Fault = 1
				} else {
					d.FaultFile, d.FaultKey = fi, fk
					d.Fast = false
				}
			}
			runFail(o, &d, "gen")
		case k < 86:
			d := genSet(r, size, 3, false)
			span, shift := spanOf(&d)
			d.Snap = genSnapWrites(r, &d, 1+r.Intn(30), span, shift)
			if r.Chance(70) {
				d.Hot = genSnapWrites(r, &d, 1+r.Intn(10), span, shift)
			}
			runSnap(o, &d, "gen")
		default:
			d := genPlanSet(r)
			genPlanOps(r, &d)
			runPlan(o, &d, "gen")
		}
	}
	_ = fmt.Sprint
}
