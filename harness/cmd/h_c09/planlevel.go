// planlevel.go: correspondence cases for the level planner alone.  The REAL
// tsm1.DefaultPlanner runs over a fake file store (only Stats / LastModified / BlockCount /
// ParseFileName are needed), is driven through a sequence of PlanLevel / Release / file-set
// changes, and every PlanLevel call is recorded together with the planner's view of the
// world at that moment (files in Stats order, tombstone flags, which files belong to a plan
// that has not been released).  The Coq side evaluates C09.Planner.plan_level on the same
// input and checks every observed group against the hypothesis of
// compact_preserves_reads_contiguous.
package main

import (
	"crypto/sha1"
	"fmt"
	"sort"
	"strings"
	"time"

	"github.com/influxdata/influxdb/tsdb/engine/tsm1"
	"verifharness/hx"
)

// ---------------------------------------------------------------- input description

type PLFile struct {
	Gen  int    `json:"gen"`
	Seq  int    `json:"seq"`
	Size uint32 `json:"size"`
	Tomb bool   `json:"tomb,omitempty"`
}

// op = "level":   PlanLevel(Level); Keep: the planned groups stay acquired, else Release
// op = "release": Release the Which-th kept plan (no-op when already released / out of range)
// op = "add":     a file (Gen, Seq, Size, Tomb) appears (no-op when the name exists)
// op = "remove":  the Idx-th file (in Stats order, modulo the number of files) disappears
type PLOp struct {
	Op    string `json:"op"`
	Level int    `json:"level,omitempty"`
	Keep  bool   `json:"keep,omitempty"`
	Which int    `json:"which,omitempty"`
	Idx   int    `json:"idx,omitempty"`
	Gen   int    `json:"gen,omitempty"`
	Seq   int    `json:"seq,omitempty"`
	Size  uint32 `json:"size,omitempty"`
	Tomb  bool   `json:"tomb,omitempty"`
}

type PlanLevelDesc struct {
	Files []PLFile `json:"files"`
	Ops   []PLOp   `json:"ops"`
}

// ---------------------------------------------------------------- fake file store

// plStore implements the unexported tsm1.fileStore interface used by DefaultPlanner.
type plStore struct {
	files []PLFile // sorted by (gen, seq) = by path
	tick  int64
}

func plPath(gen, seq int) string { return tsm1.DefaultFormatFileName(gen, seq) + ".tsm" }

func (s *plStore) sortFiles() {
	sort.Slice(s.files, func(i, j int) bool {
		return plPath(s.files[i].Gen, s.files[i].Seq) < plPath(s.files[j].Gen, s.files[j].Seq)
	})
}

func (s *plStore) Stats() []tsm1.FileStat {
	st := make([]tsm1.FileStat, 0, len(s.files))
	for _, f := range s.files {
		st = append(st, tsm1.FileStat{Path: plPath(f.Gen, f.Seq), HasTombstone: f.Tomb, Size: f.Size})
	}
	return st
}

// never the zero time, changes with every change of the file set
func (s *plStore) LastModified() time.Time { return time.Unix(1000000000+s.tick, 0) }

func (s *plStore) BlockCount(path string, idx int) int { return 1000 }

func (s *plStore) ParseFileName(path string) (int, int, error) {
	return tsm1.DefaultParseFileName(path)
}

func (s *plStore) has(gen, seq int) bool {
	for _, f := range s.files {
		if f.Gen == gen && f.Seq == seq {
			return true
		}
	}
	return false
}

// ---------------------------------------------------------------- run

func plGroupNames(g tsm1.CompactionGroup) [][2]int {
	ns := make([][2]int, 0, len(g))
	for _, p := range g {
		gg, ss, err := tsm1.DefaultParseFileName(p)
		if err != nil {
			gg, ss = 4294967295, 4294967295
		}
		ns = append(ns, [2]int{gg, ss})
	}
	return ns
}

func plLevelOf(seq int) int {
	if seq < 4 {
		return seq
	}
	return 4
}

// runPlanLevel replays d on the real planner; one case per "level" op.
func runPlanLevel(o *hx.Out, d *PlanLevelDesc, origin string) {
	o.Begin("planlevel", d)
	st := &plStore{}
	for _, f := range d.Files {
		if f.Gen < 0 || f.Seq < 0 || f.Gen > 999999999 || f.Seq > 999999999 || st.has(f.Gen, f.Seq) {
			o.Count("planlevel:skipped_bad_or_duplicate_file")
			continue
		}
		st.files = append(st.files, f)
	}
	st.sortFiles()
	pl := tsm1.NewDefaultPlanner(st, time.Hour)
	type keptPlan struct {
		groups   []tsm1.CompactionGroup
		released bool
	}
	var kept []*keptPlan
	for step, op := range d.Ops {
		o.Count("planlevel:op=" + op.Op)
		switch op.Op {
		case "release":
			if op.Which >= 0 && op.Which < len(kept) && !kept[op.Which].released {
				pl.Release(kept[op.Which].groups)
				kept[op.Which].released = true
			} else {
				o.Count("planlevel:release_noop")
			}
		case "add":
			if op.Gen < 0 || op.Seq < 0 || op.Gen > 999999999 || op.Seq > 999999999 || st.has(op.Gen, op.Seq) {
				o.Count("planlevel:add_noop")
				break
			}
			st.files = append(st.files, PLFile{Gen: op.Gen, Seq: op.Seq, Size: op.Size, Tomb: op.Tomb})
			st.sortFiles()
			st.tick++
		case "remove":
			if len(st.files) == 0 || op.Idx < 0 {
				o.Count("planlevel:remove_noop")
				break
			}
			i := op.Idx % len(st.files)
			st.files = append(append([]PLFile{}, st.files[:i]...), st.files[i+1:]...)
			st.tick++
		case "level":
			// the planner's view right before the call
			inUse := map[string]bool{}
			for _, k := range kept {
				if k.released {
					continue
				}
				for _, g := range k.groups {
					for _, p := range g {
						inUse[p] = true
					}
				}
			}
			var stats []string
			gens := map[int]bool{}
			nInUse, nTomb, multi := 0, 0, 0
			perGen := map[int]int{}
			for _, f := range st.files {
				iu := inUse[plPath(f.Gen, f.Seq)]
				stats = append(stats, fmt.Sprintf("(%d%%N,%d%%N,%s,%s)", f.Gen, f.Seq, hx.CoqBool(f.Tomb), hx.CoqBool(iu)))
				gens[f.Gen] = true
				perGen[f.Gen]++
				if iu {
					nInUse++
				}
				if f.Tomb {
					nTomb++
				}
			}
			for _, c := range perGen {
				if c > 1 {
					multi++
				}
			}
			var groups []tsm1.CompactionGroup
			panicked := false
			func() {
				defer func() {
					if r := recover(); r != nil {
						panicked = true
					}
				}()
				groups = pl.PlanLevel(op.Level)
			}()
			var gnames [][][2]int
			var gs []string
			if panicked {
				// no such file exists: model and spec both reject it
				gnames = [][][2]int{{{4294967295, 4294967295}}}
				o.Count("planlevel:panic")
			} else {
				for _, g := range groups {
					gnames = append(gnames, plGroupNames(g))
				}
			}
			for _, ns := range gnames {
				gs = append(gs, coqNames(ns))
				o.Count("planlevel:group_files=" + bucket(len(ns)))
			}
			coq := fmt.Sprintf("CPlanLevel [%s]\n  false %d%%N\n  [%s]", strings.Join(stats, ";"), op.Level, strings.Join(gs, ";"))
			sub := PlanLevelDesc{Files: d.Files, Ops: d.Ops[:step+1]}
			var names [][2]int
			for _, f := range st.files {
				names = append(names, [2]int{f.Gen, f.Seq})
			}
			var inUseNames [][2]int
			for _, f := range st.files {
				if inUse[plPath(f.Gen, f.Seq)] {
					inUseNames = append(inUseNames, [2]int{f.Gen, f.Seq})
				}
			}
			obs := map[string]interface{}{"level": op.Level, "files": names, "in_use": inUseNames,
				"planned_groups": gnames, "panic": panicked}
			h := sha1.Sum([]byte(fmt.Sprintf("%s|%d", strings.Join(stats, ";"), op.Level)))
			o.Count(fmt.Sprintf("planlevel:level=%d", op.Level))
			o.Count("planlevel:generations=" + bucket(len(gens)))
			o.Count("planlevel:groups=" + bucket(len(gnames)))
			o.Count("planlevel:files_in_use=" + bucket(nInUse))
			o.Count("planlevel:tombstoned_files=" + bucket(nTomb))
			o.Count("planlevel:multi_file_generations=" + bucket(multi))
			// an in-use generation with plannable generations of the requested level on both sides
			if plSplitByInUse(st.files, inUse, op.Level) {
				o.Count("planlevel:in_use_generation_inside_a_level_run")
			}
			o.Emit(hx.Case{Kind: "planlevel", Coq: coq, Desc: &sub, Obs: obs, Nontrivial: len(gens) >= 2,
				Sig: fmt.Sprintf("planlevel:%x", h[:10]), Origin: origin})
			if panicked {
				break
			}
			if op.Keep && len(groups) > 0 {
				kept = append(kept, &keptPlan{groups: groups})
			} else if op.Keep {
				// keep the numbering of kept plans stable: an empty plan holds nothing
				kept = append(kept, &keptPlan{groups: nil})
			} else {
				pl.Release(groups)
			}
		default:
			o.Count("planlevel:unknown_op")
		}
	}
}

// is there an in-use generation whose free neighbours on both sides have the requested level?
func plSplitByInUse(files []PLFile, inUse map[string]bool, level int) bool {
	type gi struct {
		id    int
		level int
		inUse bool
	}
	var gens []gi
	for _, f := range files {
		iu := inUse[plPath(f.Gen, f.Seq)]
		if len(gens) > 0 && gens[len(gens)-1].id == f.Gen {
			if iu {
				gens[len(gens)-1].inUse = true
			}
			continue
		}
		gens = append(gens, gi{f.Gen, plLevelOf(f.Seq), iu})
	}
	for i := range gens {
		if !gens[i].inUse {
			continue
		}
		l, r := i-1, i+1
		for l >= 0 && gens[l].inUse {
			l--
		}
		for r < len(gens) && gens[r].inUse {
			r++
		}
		if l >= 0 && r < len(gens) && gens[l].level == level && gens[r].level == level {
			return true
		}
	}
	return false
}

// ---------------------------------------------------------------- generator

// 3-30 generations arranged in runs of equal level; run lengths sit around the chunk sizes
// (4 and 8) and their multiples; op sequences keep plans acquired, change the file set and
// plan again, so that in-use generations end up in the middle of runs.
func genPlanLevel(r *hx.Rand) PlanLevelDesc {
	var d PlanLevelDesc
	total := 3 + r.Intn(28)
	gen := 0
	if r.Chance(15) {
		gen = r.Intn(50)
	}
	seqOfLevel := func(level int) int {
		if level >= 4 {
			return 4 + r.Intn(3)
		}
		return level
	}
	var gaps []int // generation ids left free, for later "add" ops
	n := 0
	for n < total {
		var runLen int
		switch k := r.Intn(100); {
		case k < 25:
			runLen = 1 + r.Intn(3)
		case k < 50:
			runLen = 3 + r.Intn(3) // 3,4,5
		case k < 75:
			runLen = 7 + r.Intn(3) // 7,8,9
		case k < 88:
			runLen = 15 + r.Intn(3) // 15,16,17
		default:
			runLen = 1 + r.Intn(12)
		}
		if runLen > total-n {
			runLen = total - n
		}
		level := 1 + r.Intn(4)
		if r.Chance(40) {
			level = 1
		}
		for i := 0; i < runLen; i++ {
			gen++
			if r.Chance(8) {
				gaps = append(gaps, gen)
				gen++
			}
			seq := seqOfLevel(level)
			nf := 1
			if r.Chance(12) {
				nf = 2 + r.Intn(2)
			}
			for s := 0; s < nf; s++ {
				d.Files = append(d.Files, PLFile{Gen: gen, Seq: seq + s, Size: uint32(1 + r.Intn(4096)), Tomb: r.Chance(6)})
			}
			n++
		}
	}
	maxGen := gen
	nops := 2 + r.Intn(8)
	kept := 0
	// sandwich: a plannable run of level b between two runs of level a; PlanLevel(b) is kept,
	// then PlanLevel(a) sees an in-use stretch in the middle of what would be one run
	if mode := r.Intn(100); mode < 40 {
		d.Files = nil
		gen = r.Intn(3)
		a := 1 + r.Intn(3)
		b := 1 + r.Intn(4)
		for b == a {
			b = 1 + r.Intn(4)
		}
		minOf := func(l int) int {
			if l == 1 {
				return 8
			}
			return 4
		}
		side := func(l int) int { // so that left + right reach a chunk of level l reasonably often
			switch r.Intn(4) {
			case 0:
				return 1 + r.Intn(minOf(l))
			case 1:
				return minOf(l) / 2
			case 2:
				return minOf(l) - 1
			default:
				return minOf(l) + r.Intn(3)
			}
		}
		put := func(n, l int, tombFirst bool) {
			for i := 0; i < n; i++ {
				gen++
				seq := seqOfLevel(l)
				d.Files = append(d.Files, PLFile{Gen: gen, Seq: seq, Size: uint32(1 + r.Intn(4096)), Tomb: (tombFirst && i == 0) || r.Chance(2)})
				if r.Chance(6) {
					d.Files = append(d.Files, PLFile{Gen: gen, Seq: seq + 1, Size: 3})
				}
			}
		}
		if r.Chance(30) {
			put(r.Intn(4), 4, false)
		}
		put(side(a), a, false)
		mid := minOf(b) + r.Intn(2)
		tomb := false
		if r.Chance(25) { // a short middle that is planned because of a tombstone
			mid = 1 + r.Intn(3)
			tomb = true
		}
		if r.Chance(30) {
			mid = 2*minOf(b) + r.Intn(3)
		}
		put(mid, b, tomb)
		put(side(a), a, false)
		if r.Chance(30) {
			put(r.Intn(9), 1, false)
		}
		maxGen = gen
		d.Ops = append(d.Ops, PLOp{Op: "level", Level: b, Keep: true}, PLOp{Op: "level", Level: a, Keep: r.Chance(30)})
		kept = 1
		nops = r.Intn(5)
	} else if mode < 55 && len(d.Files) > 0 {
		// older arrivals: the initial plan is kept, then generations with smaller ids appear
		shift := 10 + r.Intn(10)
		for i := range d.Files {
			d.Files[i].Gen += shift
		}
		for i := range gaps {
			gaps[i] += shift
		}
		maxGen += shift
		lvl := plLevelOf(d.Files[0].Seq)
		d.Ops = append(d.Ops, PLOp{Op: "level", Level: lvl, Keep: true})
		kept = 1
		first := d.Files[0].Gen
		cnt := 1 + r.Intn(9)
		for c := 0; c < cnt && first-1-c >= 0; c++ {
			d.Ops = append(d.Ops, PLOp{Op: "add", Gen: first - 1 - c, Seq: seqOfLevel(lvl), Size: 11, Tomb: r.Chance(5)})
		}
		d.Ops = append(d.Ops, PLOp{Op: "level", Level: lvl, Keep: r.Bool()})
	}
	pickLevel := func() int {
		if r.Chance(45) {
			return 1
		}
		if r.Chance(4) {
			return r.Intn(7) // 0, 5, 6: levels nobody has
		}
		return 1 + r.Intn(4)
	}
	for i := 0; i < nops; i++ {
		switch k := r.Intn(100); {
		case k < 55:
			op := PLOp{Op: "level", Level: pickLevel(), Keep: r.Chance(60)}
			d.Ops = append(d.Ops, op)
			if op.Keep {
				kept++
			}
		case k < 65:
			if kept > 0 {
				d.Ops = append(d.Ops, PLOp{Op: "release", Which: r.Intn(kept)})
			} else {
				d.Ops = append(d.Ops, PLOp{Op: "level", Level: pickLevel(), Keep: true})
				kept++
			}
		case k < 90:
			// new files: a fresh snapshot at the end (several at once: a run builds up),
			// a file in a gap, or another file of an existing generation
			switch j := r.Intn(10); {
			case j < 6:
				cnt := 1 + r.Intn(9)
				lv := 1
				if r.Chance(20) {
					lv = 1 + r.Intn(4)
				}
				for c := 0; c < cnt; c++ {
					maxGen++
					d.Ops = append(d.Ops, PLOp{Op: "add", Gen: maxGen, Seq: seqOfLevel(lv), Size: uint32(1 + r.Intn(4096)), Tomb: r.Chance(5)})
				}
			case j < 8 && len(gaps) > 0:
				g := gaps[r.Intn(len(gaps))]
				d.Ops = append(d.Ops, PLOp{Op: "add", Gen: g, Seq: seqOfLevel(1 + r.Intn(4)), Size: 7, Tomb: r.Chance(10)})
			default:
				if len(d.Files) > 0 {
					f := d.Files[r.Intn(len(d.Files))]
					d.Ops = append(d.Ops, PLOp{Op: "add", Gen: f.Gen, Seq: f.Seq + 1 + r.Intn(2), Size: 9, Tomb: r.Chance(10)})
				}
			}
		default:
			d.Ops = append(d.Ops, PLOp{Op: "remove", Idx: r.Intn(64)})
		}
	}
	// always end with plans of the low levels on the final state
	d.Ops = append(d.Ops, PLOp{Op: "level", Level: 1, Keep: r.Bool()}, PLOp{Op: "level", Level: 1 + r.Intn(3)})
	return d
}

// ---------------------------------------------------------------- designed cases

func plRun(files []PLFile, from, n, seq int) []PLFile {
	for i := 0; i < n; i++ {
		files = append(files, PLFile{Gen: from + i, Seq: seq, Size: 100})
	}
	return files
}

func designedPlanLevel() []PlanLevelDesc {
	var ds []PlanLevelDesc
	lv := func(l int, keep bool) PLOp { return PLOp{Op: "level", Level: l, Keep: keep} }
	add := func(g, s int) PLOp { return PLOp{Op: "add", Gen: g, Seq: s, Size: 100} }

	// 59a68bc (a): 9 level-1 generations, the first 8 are planned and stay acquired; then 7
	// more snapshots arrive: the next level-1 plan is 9..16 and never reaches over 1..8
	{
		d := PlanLevelDesc{Files: plRun(nil, 1, 9, 1)}
		d.Ops = append(d.Ops, lv(1, true))
		for g := 10; g <= 16; g++ {
			d.Ops = append(d.Ops, add(g, 1))
		}
		d.Ops = append(d.Ops, lv(1, true), lv(1, false), PLOp{Op: "release", Which: 0}, lv(1, false))
		ds = append(ds, d)
	}
	// 59a68bc (b): level 1 x4, level 2 x4, level 1 x4.  PlanLevel(2) takes the middle and keeps
	// it; PlanLevel(1) must not put 1..4 and 9..12 into one group of 8
	{
		files := plRun(nil, 1, 4, 1)
		files = plRun(files, 5, 4, 2)
		files = plRun(files, 9, 4, 1)
		d := PlanLevelDesc{Files: files, Ops: []PLOp{lv(2, true), lv(1, false), PLOp{Op: "release", Which: 0}, lv(1, false), lv(2, false)}}
		ds = append(ds, d)
	}
	// 59a68bc (c): 8 level-1 generations 5..12 acquired, then older (1..4) and newer (13..16)
	// level-1 generations appear on both sides
	{
		d := PlanLevelDesc{Files: plRun(nil, 5, 8, 1)}
		d.Ops = append(d.Ops, lv(1, true))
		for g := 1; g <= 4; g++ {
			d.Ops = append(d.Ops, add(g, 1))
		}
		for g := 13; g <= 16; g++ {
			d.Ops = append(d.Ops, add(g, 1))
		}
		d.Ops = append(d.Ops, lv(1, false), PLOp{Op: "release", Which: 0}, lv(1, false))
		ds = append(ds, d)
	}
	// in-use generation with several files, only one of which is in the kept plan
	{
		files := plRun(nil, 1, 8, 1)
		d := PlanLevelDesc{Files: files, Ops: []PLOp{lv(1, true), add(4, 2), add(9, 1), add(10, 1), add(11, 1), add(12, 1), add(13, 1), add(14, 1), add(15, 1), add(16, 1), lv(1, false)}}
		ds = append(ds, d)
	}
	// a tombstone inside the in-use part and in a short tail
	{
		files := plRun(nil, 1, 10, 1)
		files[2].Tomb = true
		files[9].Tomb = true
		ds = append(ds, PlanLevelDesc{Files: files, Ops: []PLOp{lv(1, true), lv(1, true), lv(1, false)}})
	}
	// orphan lookahead: a lower-level generation in front of a higher-level one joins the
	// current group; with an in-use successor it does not
	{
		files := plRun(nil, 1, 3, 2)
		files = plRun(files, 4, 1, 1)
		files = plRun(files, 5, 4, 2)
		ds = append(ds, PlanLevelDesc{Files: files, Ops: []PLOp{lv(2, false), lv(1, false), lv(2, true), lv(2, false)}})
		files2 := plRun(nil, 1, 1, 1)
		files2 = plRun(files2, 2, 4, 3)
		files2 = plRun(files2, 6, 2, 1)
		files2 = plRun(files2, 8, 4, 2)
		files2 = plRun(files2, 12, 1, 1)
		ds = append(ds, PlanLevelDesc{Files: files2, Ops: []PLOp{lv(3, false), lv(2, false), lv(1, false), lv(3, true), lv(2, false), lv(1, false), lv(2, true), lv(1, false)}})
		// ascending levels 1 2 3 4 5: every generation is an orphan of the next
		files3 := []PLFile{{Gen: 1, Seq: 1, Size: 1}, {Gen: 2, Seq: 2, Size: 1}, {Gen: 3, Seq: 3, Size: 1}, {Gen: 4, Seq: 4, Size: 1}, {Gen: 5, Seq: 5, Size: 1}}
		ds = append(ds, PlanLevelDesc{Files: files3, Ops: []PLOp{lv(1, false), lv(2, false), lv(3, false), lv(4, false), lv(4, true), lv(4, false)}})
	}
	// single generation: nothing without a tombstone, a group of one with it; several files
	{
		ds = append(ds, PlanLevelDesc{Files: []PLFile{{Gen: 3, Seq: 1, Size: 5}}, Ops: []PLOp{lv(1, false)}})
		ds = append(ds, PlanLevelDesc{Files: []PLFile{{Gen: 3, Seq: 1, Size: 5, Tomb: true}}, Ops: []PLOp{lv(1, true), lv(1, false), lv(2, false)}})
		ds = append(ds, PlanLevelDesc{Files: []PLFile{{Gen: 3, Seq: 2, Size: 5}, {Gen: 3, Seq: 3, Size: 5, Tomb: true}, {Gen: 3, Seq: 4, Size: 5}},
			Ops: []PLOp{lv(2, false), lv(3, false), lv(4, false)}})
		ds = append(ds, PlanLevelDesc{Files: nil, Ops: []PLOp{lv(1, false)}})
	}
	// chunk boundaries: 7/8/9 and 15/16/17 generations at level 1, 3/4/5 at levels 2 and 3,
	// with and without a tombstone in the short tail
	for _, n := range []int{7, 8, 9, 15, 16, 17, 24, 25} {
		files := plRun(nil, 1, n, 1)
		ds = append(ds, PlanLevelDesc{Files: files, Ops: []PLOp{lv(1, false), lv(2, false)}})
		ft := plRun(nil, 1, n, 1)
		ft[n-1].Tomb = true
		ds = append(ds, PlanLevelDesc{Files: ft, Ops: []PLOp{lv(1, true), lv(1, false)}})
	}
	for _, l := range []int{2, 3} {
		for _, n := range []int{3, 4, 5, 8, 9} {
			files := plRun(nil, 10, n, l)
			files = plRun(files, 10+n, 2, 1)
			ds = append(ds, PlanLevelDesc{Files: files, Ops: []PLOp{lv(l, false), lv(1, false)}})
			ft := plRun(nil, 10, n, l)
			ft[0].Tomb = true
			ft = plRun(ft, 10+n, 2, 1)
			ds = append(ds, PlanLevelDesc{Files: ft, Ops: []PLOp{lv(l, true), lv(l, false), lv(1, false)}})
		}
	}
	// multi-file generations: the level is that of files[0]; all files of a generation go together
	{
		var files []PLFile
		for g := 1; g <= 4; g++ {
			files = append(files, PLFile{Gen: g, Seq: 2, Size: 10}, PLFile{Gen: g, Seq: 3, Size: 10})
		}
		files = append(files, PLFile{Gen: 5, Seq: 3, Size: 10}, PLFile{Gen: 5, Seq: 4, Size: 10}, PLFile{Gen: 5, Seq: 5, Size: 10})
		files = plRun(files, 6, 3, 3)
		ds = append(ds, PlanLevelDesc{Files: files, Ops: []PLOp{lv(2, false), lv(3, false), lv(2, true), PLOp{Op: "remove", Idx: 8}, lv(3, false)}})
	}
	// level 0 and levels >= 5 exist as requests; sequence 0 files are "level 0"
	{
		files := plRun(nil, 1, 4, 0)
		files = plRun(files, 5, 4, 6)
		ds = append(ds, PlanLevelDesc{Files: files, Ops: []PLOp{lv(0, false), lv(4, false), lv(5, false), lv(6, false)}})
	}
	return ds
}
