// h_c09: correspondence harness for C09 (snapshot and compaction never change what reads
// return).  Builds file sets with the real TSMWriter / TSMReader.DeleteRange, runs the real
// tsm1.Compactor (CompactFull, CompactFast, WriteSnapshot), FileStore (Replace, Open,
// KeyCursor), Cache and DefaultPlanner, and records what they did.
package main

import (
	"context"
	"crypto/sha1"
	"encoding/json"
	"errors"
	"fmt"
	"math"
	"os"
	"path/filepath"
	"runtime/debug"
	"sort"
	"strings"
	"time"

	"github.com/influxdata/influxdb/tsdb/engine/tsm1"
	"verifharness/hx"
)

// ---------------------------------------------------------------- input descriptions

type KeyDesc struct {
	Base string `json:"base"`
	Pad  int    `json:"pad,omitempty"` // key = Base + Pad * 'x'
	Typ  int    `json:"typ"`           // block type: 0 float 1 integer 2 boolean 3 string 4 unsigned
}

type Pt struct {
	T int64  `json:"t"`
	V uint64 `json:"v,string"` // float bits / int64 / uint64 / 0|1
	S []byte `json:"s,omitempty"`
}

type KB struct {
	K      int    `json:"k"`
	Blocks [][]Pt `json:"blocks"`
}

type Tomb struct {
	K    int   `json:"k"`
	Lo   int64 `json:"lo"`
	Hi   int64 `json:"hi"`
	Full bool  `json:"full,omitempty"` // TSMReader.Delete(key)
}

type FileDesc struct {
	Gen   int    `json:"gen"`
	Seq   int    `json:"seq"`
	Data  []KB   `json:"data"`
	Tombs []Tomb `json:"tombs,omitempty"`
}

// BigFile: for every run, N blocks of one integer point each at From, From+1, ...
type BigRun struct {
	K    int   `json:"k"`
	From int64 `json:"from"`
	N    int   `json:"n"`
	Val  int64 `json:"val"`
}
type BigFile struct {
	Gen  int      `json:"gen"`
	Seq  int      `json:"seq"`
	Runs []BigRun `json:"runs"`
}

type KP struct {
	K int `json:"k"`
	P Pt  `json:"p"`
}

type PlanOp struct {
	Op    string `json:"op"` // level | plan | full | optimize | install | compact
	Level int    `json:"level,omitempty"`
	Keep  bool   `json:"keep,omitempty"` // keep the planned groups acquired (a compaction still running)
	Run   bool   `json:"run,omitempty"`  // compact the planned groups right away and compare reads
	Which int    `json:"which,omitempty"` // index of the kept plan
	Idx   int    `json:"idx,omitempty"`   // index of the group inside that plan
	File  *FileDesc `json:"file,omitempty"`
}

type SetDesc struct {
	Keys  []KeyDesc  `json:"keys"`
	Files []FileDesc `json:"files"`
	Size  int        `json:"size"`
	Fast  bool       `json:"fast"`
	Group [][2]int   `json:"group,omitempty"`
	Lo    int64      `json:"lo"`
	Hi    int64      `json:"hi"`

	// run the compaction through the engine's compactionStrategy.compactGroup (compaction +
	// FileStore.ReplaceWithCallback) instead of calling Compactor and FileStore.Replace directly
	ViaEngine bool `json:"via_engine,omitempty"`

	CrashAt int `json:"crash_at,omitempty"`

	// roll-over cases: files made of one-point blocks (too many to list)
	Big []BigFile `json:"big,omitempty"`

	// delete cases: FileStore.Delete(keys[DelKey]) is issued from the compactor's file-name
	// callback, i.e. after the block iterators exist and before the first block is read
	DelKey int `json:"del_key,omitempty"`

	Fault     int `json:"fault,omitempty"` // 1 compactor closed, 2 corrupt block, 3 missing file in plan, 4 compactions disabled, 5 engine compactGroup on corrupt block
	FaultFile int `json:"fault_file,omitempty"`
	FaultKey  int `json:"fault_key,omitempty"`

	Snap [][]KP `json:"snap,omitempty"` // batches written before Cache.Snapshot()
	Hot  [][]KP `json:"hot,omitempty"`  // batches written while the snapshot is being flushed

	Ops []PlanOp `json:"ops,omitempty"`
}

func (k KeyDesc) Bytes() []byte {
	return []byte(k.Base + strings.Repeat("x", k.Pad))
}

// ---------------------------------------------------------------- values

func mkValue(typ int, p Pt) tsm1.Value {
	switch typ {
	case 0:
		return tsm1.NewValue(p.T, math.Float64frombits(p.V))
	case 1:
		return tsm1.NewValue(p.T, int64(p.V))
	case 2:
		return tsm1.NewValue(p.T, p.V != 0)
	case 3:
		return tsm1.NewValue(p.T, string(p.S))
	default:
		return tsm1.NewValue(p.T, p.V)
	}
}

func fromValue(v tsm1.Value) Pt {
	p := Pt{T: v.UnixNano()}
	switch x := v.Value().(type) {
	case float64:
		p.V = math.Float64bits(x)
	case int64:
		p.V = uint64(x)
	case uint64:
		p.V = x
	case bool:
		if x {
			p.V = 1
		}
	case string:
		p.S = []byte(x)
	}
	return p
}

func coqVal(typ int, p Pt) string {
	switch typ {
	case 0:
		return fmt.Sprintf("VFloat %d%%N", p.V)
	case 1:
		return "VInt " + hx.CoqZ(int64(p.V))
	case 2:
		return "VBool " + hx.CoqBool(p.V != 0)
	case 3:
		return "VStr " + hx.CoqBytes(p.S)
	default:
		return fmt.Sprintf("VUint %d%%N", p.V)
	}
}

func coqTV(typ int, p Pt) string { return "(" + hx.CoqZ(p.T) + ", " + coqVal(typ, p) + ")" }

func sameVal(a, b Pt) bool { return a.V == b.V && string(a.S) == string(b.S) }

// coqTVs prints a value list; stretches of >= 8 points with a constant time step and the
// same value are printed in run-length form (rl start step n v), which keeps the Coq terms
// of the 1000-point blocks small.
func coqTVs(typ int, ps []Pt) string {
	var parts []string
	var lit []string
	flush := func() {
		if len(lit) > 0 {
			parts = append(parts, "["+strings.Join(lit, ";")+"]")
			lit = nil
		}
	}
	i := 0
	for i < len(ps) {
		j := i + 1
		if j < len(ps) && sameVal(ps[i], ps[j]) {
			step := ps[j].T - ps[i].T
			for j+1 < len(ps) && sameVal(ps[i], ps[j+1]) && ps[j+1].T-ps[j].T == step {
				j++
			}
			if n := j - i + 1; n >= 8 {
				flush()
				parts = append(parts, fmt.Sprintf("rl %s %s %d%%N (%s)", hx.CoqZ(ps[i].T), hx.CoqZ(step), n, coqVal(typ, ps[i])))
				i = j + 1
				continue
			}
		}
		lit = append(lit, coqTV(typ, ps[i]))
		i++
	}
	flush()
	if len(parts) == 0 {
		return "[]"
	}
	if len(parts) == 1 && strings.HasPrefix(parts[0], "[") {
		return parts[0]
	}
	return "(" + strings.Join(parts, " ++ ") + ")"
}

func coqName(g, s int) string { return fmt.Sprintf("(%d%%N,%d%%N)", g, s) }

func coqNames(ns [][2]int) string {
	items := make([]string, len(ns))
	for i, n := range ns {
		items[i] = coqName(n[0], n[1])
	}
	return "[" + strings.Join(items, ";") + "]"
}

func coqKeys(keys []KeyDesc) string {
	items := make([]string, len(keys))
	for i, k := range keys {
		if k.Pad > 0 {
			items[i] = fmt.Sprintf("(pad_key %s %d%%N)", hx.CoqBytes([]byte(k.Base)), k.Pad)
		} else {
			items[i] = hx.CoqBytes(k.Bytes())
		}
	}
	return "[" + strings.Join(items, ";") + "]"
}

func coqFiles(d *SetDesc, files []FileDesc) string {
	items := make([]string, len(files))
	for i, f := range files {
		var data, tombs []string
		for _, kb := range f.Data {
			var all []Pt
			for _, b := range kb.Blocks {
				all = append(all, b...)
			}
			data = append(data, fmt.Sprintf("(%d%%N,%s)", kb.K, coqTVs(d.Keys[kb.K].Typ, all)))
		}
		for _, t := range f.Tombs {
			lo, hi := t.Lo, t.Hi
			if t.Full {
				lo, hi = math.MinInt64, math.MaxInt64
			}
			tombs = append(tombs, fmt.Sprintf("(%d%%N,(%s,%s))", t.K, hx.CoqZ(lo), hx.CoqZ(hi)))
		}
		items[i] = fmt.Sprintf("(%d%%N,%d%%N,[%s],[%s])", f.Gen, f.Seq, strings.Join(data, ";"), strings.Join(tombs, ";"))
	}
	return "[" + strings.Join(items, ";\n   ") + "]"
}

// ---------------------------------------------------------------- observations

type keyRead struct {
	Asc  []Pt   `json:"asc"`
	Desc []Pt   `json:"desc"`
	Err  string `json:"err,omitempty"`
}

type outBlock struct {
	Min, Max int64
	Count    int
	Vals     []Pt
}
type outKey struct {
	K      int
	Blocks []outBlock
}
type outFile struct {
	Gen, Seq int
	Keys     []outKey
}

func coqReads(d *SetDesc, rs []keyRead, skip map[int]bool) string {
	var items []string
	for i, r := range rs {
		if skip[i] {
			continue
		}
		t := d.Keys[i].Typ
		items = append(items, "("+coqTVs(t, r.Asc)+","+coqTVs(t, r.Desc)+")")
	}
	return "[" + strings.Join(items, ";\n   ") + "]"
}

func coqOuts(d *SetDesc, outs []outFile) string {
	items := make([]string, len(outs))
	for i, o := range outs {
		var ks []string
		for _, k := range o.Keys {
			var bs []string
			for _, b := range k.Blocks {
				bs = append(bs, fmt.Sprintf("((%s,%s,%d%%N),%s)", hx.CoqZ(b.Min), hx.CoqZ(b.Max), b.Count, coqTVs(d.Keys[k.K].Typ, b.Vals)))
			}
			ks = append(ks, fmt.Sprintf("(%d%%N,[%s])", k.K, strings.Join(bs, ";")))
		}
		items[i] = fmt.Sprintf("(%d%%N,%d%%N,[%s])", o.Gen, o.Seq, strings.Join(ks, ";"))
	}
	return "[" + strings.Join(items, ";\n   ") + "]"
}

func outNames(outs []outFile) [][2]int {
	var ns [][2]int
	for _, o := range outs {
		ns = append(ns, [2]int{o.Gen, o.Seq})
	}
	return ns
}

// ---------------------------------------------------------------- building the directory

func fileName(dir string, gen, seq int) string {
	return filepath.Join(dir, tsm1.DefaultFormatFileName(gen, seq)+"."+tsm1.TSMFileExtension)
}

func sortedKeyIdx(d *SetDesc, f *FileDesc) []int {
	idx := make([]int, len(f.Data))
	for i := range idx {
		idx[i] = i
	}
	sort.Slice(idx, func(a, b int) bool {
		return string(d.Keys[f.Data[idx[a]].K].Bytes()) < string(d.Keys[f.Data[idx[b]].K].Bytes())
	})
	return idx
}

// writeFile writes one TSM file with the real TSMWriter, one Write per block, then applies
// the tombstones through a real TSMReader.
func writeFile(dir string, d *SetDesc, f *FileDesc, tmp bool) (string, error) {
	name := fileName(dir, f.Gen, f.Seq)
	if tmp {
		name += "." + tsm1.TmpTSMFileExtension
	}
	fd, err := os.OpenFile(name, os.O_CREATE|os.O_RDWR|os.O_EXCL, 0666)
	if err != nil {
		return "", err
	}
	w, err := tsm1.NewTSMWriter(fd)
	if err != nil {
		return "", err
	}
	for _, i := range sortedKeyIdx(d, f) {
		kb := f.Data[i]
		key := d.Keys[kb.K].Bytes()
		for _, b := range kb.Blocks {
			vals := make([]tsm1.Value, len(b))
			for j, p := range b {
				vals[j] = mkValue(d.Keys[kb.K].Typ, p)
			}
			if err := w.Write(key, vals); err != nil {
				return "", err
			}
		}
	}
	if err := w.WriteIndex(); err != nil {
		return "", err
	}
	if err := w.Close(); err != nil {
		return "", err
	}
	if len(f.Tombs) > 0 {
		rf, err := os.Open(name)
		if err != nil {
			return "", err
		}
		r, err := tsm1.NewTSMReader(rf)
		if err != nil {
			return "", err
		}
		for _, t := range f.Tombs {
			key := d.Keys[t.K].Bytes()
			if t.Full {
				err = r.Delete([][]byte{key})
			} else {
				err = r.DeleteRange([][]byte{key}, t.Lo, t.Hi)
			}
			if err != nil {
				return "", err
			}
		}
		if err := r.Close(); err != nil {
			return "", err
		}
	}
	return name, nil
}

func fileHasData(f *FileDesc) bool {
	for _, kb := range f.Data {
		for _, b := range kb.Blocks {
			if len(b) > 0 {
				return true
			}
		}
	}
	return false
}

func materialize(dir string, d *SetDesc) error {
	for i := range d.Files {
		if _, err := writeFile(dir, d, &d.Files[i], false); err != nil {
			return fmt.Errorf("write file %d-%d: %v", d.Files[i].Gen, d.Files[i].Seq, err)
		}
	}
	return nil
}

func openStore(dir string) (*tsm1.FileStore, error) {
	fs := tsm1.NewFileStore(dir)
	if err := fs.Open(); err != nil {
		return nil, err
	}
	return fs, nil
}

// ---------------------------------------------------------------- reading

func readCursor(fs *tsm1.FileStore, key []byte, typ int, t int64, asc bool) (res []Pt, err error) {
	defer func() {
		if r := recover(); r != nil {
			err = fmt.Errorf("panic: %v", r)
		}
	}()
	c := fs.KeyCursor(context.Background(), key, t, asc)
	defer c.Close()
	for iter := 0; iter < 1000000; iter++ {
		var blk []Pt
		switch typ {
		case 0:
			buf := make([]tsm1.FloatValue, 0, 16)
			vs, e := c.ReadFloatBlock(&buf)
			if e != nil {
				return res, e
			}
			for _, v := range vs {
				blk = append(blk, fromValue(v))
			}
		case 1:
			buf := make([]tsm1.IntegerValue, 0, 16)
			vs, e := c.ReadIntegerBlock(&buf)
			if e != nil {
				return res, e
			}
			for _, v := range vs {
				blk = append(blk, fromValue(v))
			}
		case 2:
			buf := make([]tsm1.BooleanValue, 0, 16)
			vs, e := c.ReadBooleanBlock(&buf)
			if e != nil {
				return res, e
			}
			for _, v := range vs {
				blk = append(blk, fromValue(v))
			}
		case 3:
			buf := make([]tsm1.StringValue, 0, 16)
			vs, e := c.ReadStringBlock(&buf)
			if e != nil {
				return res, e
			}
			for _, v := range vs {
				blk = append(blk, fromValue(v))
			}
		default:
			buf := make([]tsm1.UnsignedValue, 0, 16)
			vs, e := c.ReadUnsignedBlock(&buf)
			if e != nil {
				return res, e
			}
			for _, v := range vs {
				blk = append(blk, fromValue(v))
			}
		}
		if len(blk) == 0 {
			break
		}
		if !asc {
			// a descending cursor hands out the blocks newest first, the values inside a block
			// ascending; the engine's descending cursors walk each block backwards
			for i, j := 0, len(blk)-1; i < j; i, j = i+1, j-1 {
				blk[i], blk[j] = blk[j], blk[i]
			}
		}
		res = append(res, blk...)
		c.Next()
	}
	return res, nil
}

func readAll(fs *tsm1.FileStore, d *SetDesc) []keyRead {
	rs := make([]keyRead, len(d.Keys))
	for i, k := range d.Keys {
		a, e1 := readCursor(fs, k.Bytes(), k.Typ, d.Lo, true)
		ds, e2 := readCursor(fs, k.Bytes(), k.Typ, d.Hi, false)
		rs[i] = keyRead{Asc: a, Desc: ds}
		if e1 != nil {
			rs[i].Err = e1.Error()
		} else if e2 != nil {
			rs[i].Err = e2.Error()
		}
	}
	return rs
}

func keyIndex(d *SetDesc, key []byte) int {
	for i, k := range d.Keys {
		if string(k.Bytes()) == string(key) {
			return i
		}
	}
	return -1
}

// readOutFile decodes a TSM file through a fresh TSMReader: index entries and blocks.
func readOutFile(path string, d *SetDesc) (of outFile, err error) {
	defer func() {
		if r := recover(); r != nil {
			err = fmt.Errorf("panic: %v", r)
		}
	}()
	base := filepath.Base(path)
	gen, seq, e := tsm1.DefaultParseFileName(strings.TrimSuffix(base, "."+tsm1.TmpTSMFileExtension))
	if e != nil {
		return of, e
	}
	of.Gen, of.Seq = gen, seq
	fd, e := os.Open(path)
	if e != nil {
		return of, e
	}
	r, e := tsm1.NewTSMReader(fd)
	if e != nil {
		return of, e
	}
	defer r.Close()
	for i := 0; i < r.KeyCount(); i++ {
		key, _ := r.KeyAt(i)
		ki := keyIndex(d, key)
		if ki < 0 {
			return of, fmt.Errorf("unknown key %q in output", key)
		}
		ok := outKey{K: ki}
		for _, ent := range r.Entries(key) {
			ent := ent
			vals, e := r.ReadAt(&ent, nil)
			if e != nil {
				return of, e
			}
			b := outBlock{Min: ent.MinTime, Max: ent.MaxTime, Count: len(vals)}
			// the count stored in the block header
			if _, raw, e := r.ReadBytes(&ent, nil); e == nil {
				if c, e := tsm1.BlockCount(raw); e == nil {
					b.Count = c
				}
			}
			for _, v := range vals {
				b.Vals = append(b.Vals, fromValue(v))
			}
			ok.Blocks = append(ok.Blocks, b)
		}
		of.Keys = append(of.Keys, ok)
	}
	return of, nil
}

func listDir(dir string) (live [][2]int, tmp int, other []string) {
	ents, _ := os.ReadDir(dir)
	for _, e := range ents {
		n := e.Name()
		switch {
		case strings.HasSuffix(n, "."+tsm1.TSMFileExtension):
			g, s, err := tsm1.DefaultParseFileName(n)
			if err == nil {
				live = append(live, [2]int{g, s})
			}
		case strings.HasSuffix(n, "."+tsm1.TmpTSMFileExtension):
			tmp++
		default:
			other = append(other, n)
		}
	}
	sort.Slice(live, func(i, j int) bool {
		if live[i][0] != live[j][0] {
			return live[i][0] < live[j][0]
		}
		return live[i][1] < live[j][1]
	})
	return
}

func hashInputs(dir string, d *SetDesc) string {
	h := sha1.New()
	for _, f := range d.Files {
		p := fileName(dir, f.Gen, f.Seq)
		for _, q := range []string{p, strings.TrimSuffix(p, ".tsm") + ".tombstone"} {
			b, err := os.ReadFile(q)
			fmt.Fprintf(h, "%s:%v:%d:", filepath.Base(q), err == nil, len(b))
			h.Write(b)
		}
	}
	return fmt.Sprintf("%x", h.Sum(nil))
}

func groupPaths(dir string, g [][2]int) []string {
	ps := make([]string, len(g))
	for i, n := range g {
		ps[i] = fileName(dir, n[0], n[1])
	}
	return ps
}

func errClass(err error) int {
	if err == nil {
		return 0
	}
	s := err.Error()
	switch {
	case strings.Contains(s, "compactions disabled"):
		return 2
	case strings.Contains(s, "compaction aborted"), strings.Contains(s, "bad plan"):
		return 3
	case strings.Contains(s, "block read error"), strings.Contains(s, "decode error"):
		return 4
	case strings.Contains(s, "panic"):
		return 9
	}
	return 1
}

func newCompactor(dir string, fs *tsm1.FileStore, size int) *tsm1.Compactor {
	c := tsm1.NewCompactor()
	c.Dir = dir
	c.FileStore = fs
	c.Size = size
	return c
}

func doCompact(c *tsm1.Compactor, fast bool, paths []string) (files []string, err error) {
	defer func() {
		if r := recover(); r != nil {
			err = fmt.Errorf("panic: %v\n%s", r, debug.Stack())
		}
	}()
	if fast {
		return c.CompactFast(paths)
	}
	return c.CompactFull(paths)
}

func shapeStats(o *hx.Out, d *SetDesc, prefix string) {
	o.Count(fmt.Sprintf("%s:files=%d", prefix, len(d.Files)))
	o.Count(fmt.Sprintf("%s:size=%d", prefix, d.Size))
	o.Count(fmt.Sprintf("%s:fast=%v", prefix, d.Fast))
	o.Count(fmt.Sprintf("%s:group=%d", prefix, len(d.Group)))
	gens := map[int]int{}
	tombs, full, pts, fullBlocks := 0, 0, 0, 0
	types := map[int]bool{}
	for _, f := range d.Files {
		gens[f.Gen]++
		for _, t := range f.Tombs {
			tombs++
			if t.Full {
				full++
			}
		}
		for _, kb := range f.Data {
			types[d.Keys[kb.K].Typ] = true
			for _, b := range kb.Blocks {
				pts += len(b)
				if len(b) == d.Size {
					fullBlocks++
				}
			}
		}
	}
	o.Count(fmt.Sprintf("%s:generations=%d", prefix, len(gens)))
	maxSeq := 0
	for _, n := range gens {
		if n > maxSeq {
			maxSeq = n
		}
	}
	o.Count(fmt.Sprintf("%s:max_sequences=%d", prefix, maxSeq))
	o.Count(fmt.Sprintf("%s:tombstones=%s", prefix, bucket(tombs)))
	if full > 0 {
		o.Count(prefix + ":has_full_key_delete")
	}
	o.Count(fmt.Sprintf("%s:points=%s", prefix, bucket(pts)))
	o.Count(fmt.Sprintf("%s:blocks_of_exactly_size=%s", prefix, bucket(fullBlocks)))
	for t := range types {
		o.Count(fmt.Sprintf("%s:type=%d", prefix, t))
	}
	for _, k := range d.Keys {
		if k.Pad > 1000 {
			o.Count(prefix + ":long_key")
		}
	}
	if d.Lo != minNano || d.Hi != maxNano {
		o.Count(prefix + ":seek_read")
	}
}

func bucket(n int) string {
	switch {
	case n == 0:
		return "0"
	case n <= 2:
		return "1-2"
	case n <= 8:
		return "3-8"
	case n <= 32:
		return "9-32"
	case n <= 128:
		return "33-128"
	}
	return ">128"
}

func sigOf(d *SetDesc, kind string) string {
	b, _ := json.Marshal(d)
	return fmt.Sprintf("%s:%x", kind, sha1.Sum(b))
}

func totalPoints(rs []keyRead) int {
	n := 0
	for _, r := range rs {
		n += len(r.Asc)
	}
	return n
}

// ---------------------------------------------------------------- case: compaction

func runCompact(o *hx.Out, d *SetDesc, origin string) {
	o.Begin("compact", d)
	dir, _ := os.MkdirTemp(scratchRoot(), "c09-")
	defer os.RemoveAll(dir)
	if err := materialize(dir, d); err != nil {
		o.Count("skipped:materialize:" + firstWord(err))
		return
	}
	fs, err := openStore(dir)
	if err != nil {
		o.Count("skipped:open")
		return
	}
	defer fs.Close()
	before := readAll(fs, d)
	c := newCompactor(dir, fs, d.Size)
	c.Open()
	var files []string
	var cerr error
	var outs []outFile
	ec := 0
	if d.ViaEngine {
		func() {
			defer func() {
				if r := recover(); r != nil {
					cerr = fmt.Errorf("panic: %v", r)
				}
			}()
			ok, nerr := tsm1.VerifCompactGroup(fs, c, groupPaths(dir, d.Group), d.Fast)
			if ok != 1 || nerr != 0 {
				cerr = fmt.Errorf("compactGroup: success=%d errors=%d", ok, nerr)
			}
		}()
		ec = errClass(cerr)
		// the outputs are the installed files that were not there before
		had := map[[2]int]bool{}
		for _, f := range d.Files {
			had[[2]int{f.Gen, f.Seq}] = true
		}
		live, _, _ := listDir(dir)
		for _, n := range live {
			if !had[n] {
				of, err := readOutFile(fileName(dir, n[0], n[1]), d)
				if err != nil {
					ec = 8
					cerr = err
				}
				outs = append(outs, of)
			}
		}
		o.Count("compact:via_engine_compactGroup")
	} else {
		files, cerr = doCompact(c, d.Fast, groupPaths(dir, d.Group))
		ec = errClass(cerr)
		for _, f := range files {
			of, err := readOutFile(f, d)
			if err != nil {
				ec = 8
				cerr = err
			}
			outs = append(outs, of)
		}
		if ec == 0 {
			if err := fs.Replace(groupPaths(dir, d.Group), files); err != nil {
				ec = 7
				cerr = err
			}
		}
	}
	after := readAll(fs, d)
	for _, r := range append(append([]keyRead{}, before...), after...) {
		if r.Err != "" && ec == 0 {
			ec = 6
			cerr = errors.New(r.Err)
		}
	}
	shapeStats(o, d, "compact")
	o.Count(fmt.Sprintf("compact:outputs=%d", len(outs)))
	o.Count(fmt.Sprintf("compact:err=%d", ec))
	coq := fmt.Sprintf("CCompact %s %s %s %s %s\n  %s\n  %s %d%%N\n  %s\n  %s\n  %s",
		coqKeys(d.Keys), hx.CoqZ(int64(d.Size)), hx.CoqBool(d.Fast), hx.CoqZ(d.Lo), hx.CoqZ(d.Hi),
		coqFiles(d, d.Files), coqNames(d.Group), ec, coqReads(d, before, nil), coqOuts(d, outs), coqReads(d, after, nil))
	obs := map[string]interface{}{"err": ec, "outs": outNames(outs), "points_before": totalPoints(before), "points_after": totalPoints(after)}
	if cerr != nil {
		obs["error"] = trunc(cerr.Error(), 300)
	}
	o.Emit(hx.Case{Kind: "compact", Coq: coq, Desc: d, Obs: obs, Nontrivial: totalPoints(before) > 0 && len(d.Group) > 0,
		Sig: sigOf(d, "compact"), Origin: origin})
}

// scratchRoot prefers a memory-backed directory: the real writer and file store fsync a lot.
func scratchRoot() string {
	if st, err := os.Stat("/dev/shm"); err == nil && st.IsDir() {
		return "/dev/shm"
	}
	return ""
}

func firstWord(err error) string {
	s := err.Error()
	if len(s) > 40 {
		s = s[:40]
	}
	return strings.ReplaceAll(s, " ", "_")
}

func trunc(s string, n int) string {
	if len(s) > n {
		return s[:n]
	}
	return s
}

// ---------------------------------------------------------------- case: crash inside FileStore.replace

// crashObserver fails the n-th directory operation on a .tsm file (counted from 0), which
// makes FileStore.replace stop right before performing it.
type crashObserver struct {
	n     int
	seen  int
	trace [][3]int // (1 rename / 0 remove, gen, seq)
}

var errInjected = errors.New("injected crash")

func (c *crashObserver) event(kind int, path string) error {
	base := filepath.Base(path)
	base = strings.TrimSuffix(base, "."+tsm1.TmpTSMFileExtension)
	if !strings.HasSuffix(base, "."+tsm1.TSMFileExtension) {
		return nil // tombstone file of an input: removed together with it
	}
	if c.seen == c.n {
		return errInjected
	}
	c.seen++
	g, s, _ := tsm1.DefaultParseFileName(base)
	c.trace = append(c.trace, [3]int{kind, g, s})
	return nil
}
func (c *crashObserver) FileFinishing(path string) error { return c.event(1, path) }
func (c *crashObserver) FileUnlinking(path string) error { return c.event(0, path) }

func runCrash(o *hx.Out, d *SetDesc, origin string) {
	o.Begin("crash", d)
	dir, _ := os.MkdirTemp(scratchRoot(), "c09-")
	defer os.RemoveAll(dir)
	if err := materialize(dir, d); err != nil {
		o.Count("skipped:materialize:" + firstWord(err))
		return
	}
	fs, err := openStore(dir)
	if err != nil {
		o.Count("skipped:open")
		return
	}
	before := readAll(fs, d)
	c := newCompactor(dir, fs, d.Size)
	c.Open()
	files, cerr := doCompact(c, d.Fast, groupPaths(dir, d.Group))
	if cerr != nil {
		fs.Close()
		o.Count("crash:compaction_error")
		return
	}
	var outs [][2]int
	for _, f := range files {
		g, s, _ := tsm1.DefaultParseFileName(strings.TrimSuffix(filepath.Base(f), "."+tsm1.TmpTSMFileExtension))
		outs = append(outs, [2]int{g, s})
	}
	obsv := &crashObserver{n: d.CrashAt}
	fs.WithObserver(obsv)
	rerr := func() (err error) {
		defer func() {
			if r := recover(); r != nil {
				err = fmt.Errorf("panic: %v", r)
			}
		}()
		return fs.Replace(groupPaths(dir, d.Group), files)
	}()
	// crash: the process is gone; what survives is the directory
	fs.Close()
	fs2, err := openStore(dir)
	if err != nil {
		o.Count("crash:reopen_failed")
		o.Emit(hx.Case{Kind: "crash", Coq: "CPlan [] [] [[(0%N,0%N)]]", Desc: d, Obs: map[string]interface{}{"reopen_error": err.Error()},
			Nontrivial: true, Sig: sigOf(d, "crash"), Origin: origin})
		return
	}
	defer fs2.Close()
	live, tmp, _ := listDir(dir)
	after := readAll(fs2, d)
	var trace []string
	for _, e := range obsv.trace {
		trace = append(trace, fmt.Sprintf("(%s,%s)", hx.CoqBool(e[0] == 1), coqName(e[1], e[2])))
	}
	shapeStats(o, d, "crash")
	o.Count(fmt.Sprintf("crash:steps_done=%d", len(obsv.trace)))
	if rerr == nil {
		o.Count("crash:replace_completed")
	}
	coq := fmt.Sprintf("CCrash %s %s %s %s %s\n  %s\n  %s %d%%N\n  %s [%s] %s\n  %s\n  %s",
		coqKeys(d.Keys), hx.CoqZ(int64(d.Size)), hx.CoqBool(d.Fast), hx.CoqZ(d.Lo), hx.CoqZ(d.Hi),
		coqFiles(d, d.Files), coqNames(d.Group), d.CrashAt,
		coqNames(outs), strings.Join(trace, ";"), coqNames(live), coqReads(d, before, nil), coqReads(d, after, nil))
	obs := map[string]interface{}{"outs": outs, "trace": obsv.trace, "live": live, "tmp_left": tmp, "replace_err": fmt.Sprint(rerr)}
	o.Emit(hx.Case{Kind: "crash", Coq: coq, Desc: d, Obs: obs, Nontrivial: totalPoints(before) > 0 && len(d.Group) > 0,
		Sig: sigOf(d, "crash"), Origin: origin})
}

// ---------------------------------------------------------------- case: failed / aborted compaction

// corruptBlock overwrites the type byte of the first block of key ki in file f.
func corruptBlock(dir string, d *SetDesc, f *FileDesc, ki int) error {
	path := fileName(dir, f.Gen, f.Seq)
	fd, err := os.Open(path)
	if err != nil {
		return err
	}
	r, err := tsm1.NewTSMReader(fd)
	if err != nil {
		return err
	}
	ents := r.Entries(d.Keys[ki].Bytes())
	r.Close()
	if len(ents) == 0 {
		return errors.New("no block")
	}
	b, err := os.ReadFile(path)
	if err != nil {
		return err
	}
	// the byte after the 4-byte checksum is the block type: decoders reject the block
	// ("invalid block type"), which is a deterministic reader error (a flipped payload
	// byte is NOT detected: checksums are never validated on read)
	off := ents[0].Offset + 4
	b[off] = 0x7f
	return os.WriteFile(path, b, 0666)
}

func runFail(o *hx.Out, d *SetDesc, origin string) {
	o.Begin("fail", d)
	dir, _ := os.MkdirTemp(scratchRoot(), "c09-")
	defer os.RemoveAll(dir)
	if err := materialize(dir, d); err != nil {
		o.Count("skipped:materialize:" + firstWord(err))
		return
	}
	bad := map[int]bool{}
	if d.Fault == 2 || d.Fault == 5 {
		if d.FaultFile >= len(d.Files) {
			return
		}
		if err := corruptBlock(dir, d, &d.Files[d.FaultFile], d.FaultKey); err != nil {
			o.Count("skipped:corrupt")
			return
		}
		bad[d.FaultKey] = true
	}
	fs, err := openStore(dir)
	if err != nil {
		o.Count("skipped:open")
		return
	}
	defer fs.Close()
	before := readAll(fs, d)
	hash0 := hashInputs(dir, d)
	c := newCompactor(dir, fs, d.Size)
	paths := groupPaths(dir, d.Group)
	var files []string
	var cerr error
	switch d.Fault {
	case 1: // compactor opened and closed again before the call
		c.Open()
		c.Close()
		files, cerr = doCompact(c, d.Fast, paths)
	case 2:
		c.Open()
		files, cerr = doCompact(c, d.Fast, paths)
	case 3: // the plan names a file the file store does not have
		c.Open()
		paths = append(paths, fileName(dir, 999, 1))
		files, cerr = doCompact(c, d.Fast, paths)
	case 4:
		c.Open()
		c.DisableCompactions()
		files, cerr = doCompact(c, d.Fast, paths)
	case 5: // the engine's compactGroup: compaction + error handling
		c.Open()
		func() {
			defer func() {
				if r := recover(); r != nil {
					cerr = fmt.Errorf("panic: %v", r)
				}
			}()
			ok, nerr := tsm1.VerifCompactGroup(fs, c, paths, d.Fast)
			if ok == 0 || nerr != 0 {
				cerr = fmt.Errorf("compactGroup: success=%d errors=%d", ok, nerr)
			}
		}()
	}
	if d.Fault == 2 && cerr == nil {
		// the damaged block was copied without being decoded (pass-through of a full or single
		// block): no reader error occurred, so this is not a failure case
		o.Count("fail:corrupt_block_passed_through_undecoded")
		return
	}
	live, tmp, other := listDir(dir)
	intact := hashInputs(dir, d) == hash0
	after := readAll(fs, d)
	shapeStats(o, d, "fail")
	o.Count(fmt.Sprintf("fail:fault=%d", d.Fault))
	o.Count(fmt.Sprintf("fail:err=%d", errClass(cerr)))
	var badl []string
	for i := range d.Keys {
		if bad[i] {
			badl = append(badl, fmt.Sprintf("%d%%N", i))
		}
	}
	coq := fmt.Sprintf("CFail %s %s %s %s %s\n  %s\n  %s [%s] %d%%N %d%%N %s %d%%N %s\n  %s\n  %s",
		coqKeys(d.Keys), hx.CoqZ(int64(d.Size)), hx.CoqBool(d.Fast), hx.CoqZ(d.Lo), hx.CoqZ(d.Hi),
		coqFiles(d, d.Files), coqNames(d.Group), strings.Join(badl, ";"), errClass(cerr), len(files), coqNames(live), tmp, hx.CoqBool(intact),
		coqReads(d, before, bad), coqReads(d, after, bad))
	obs := map[string]interface{}{"err": fmt.Sprint(cerr), "returned": len(files), "live": live, "tmp_left": tmp, "inputs_intact": intact, "other_files": other}
	o.Emit(hx.Case{Kind: "fail", Coq: coq, Desc: d, Obs: obs, Nontrivial: len(d.Group) > 0,
		Sig: sigOf(d, "fail"), Origin: origin})
}

// ---------------------------------------------------------------- case: roll-over at the block-count limit

func writeBigFile(dir string, d *SetDesc, f *BigFile) error {
	fd, err := os.OpenFile(fileName(dir, f.Gen, f.Seq), os.O_CREATE|os.O_RDWR|os.O_EXCL, 0666)
	if err != nil {
		return err
	}
	w, err := tsm1.NewTSMWriter(fd)
	if err != nil {
		return err
	}
	runs := append([]BigRun{}, f.Runs...)
	sort.SliceStable(runs, func(a, b int) bool { return string(d.Keys[runs[a].K].Bytes()) < string(d.Keys[runs[b].K].Bytes()) })
	for _, r := range runs {
		key := d.Keys[r.K].Bytes()
		for i := 0; i < r.N; i++ {
			err := w.Write(key, []tsm1.Value{tsm1.NewValue(r.From+int64(i), r.Val)})
			if err != nil && !(err == tsm1.ErrMaxBlocksExceeded && i == r.N-1) {
				return err
			}
		}
	}
	if err := w.WriteIndex(); err != nil {
		return err
	}
	return w.Close()
}

func coqUnitOuts(d *SetDesc, outs []outFile) string {
	items := make([]string, len(outs))
	for i, o := range outs {
		var ks []string
		for _, k := range o.Keys {
			unit := true
			var all []Pt
			for _, b := range k.Blocks {
				if len(b.Vals) != 1 || b.Count != 1 || b.Min != b.Vals[0].T || b.Max != b.Vals[0].T {
					unit = false
				}
				all = append(all, b.Vals...)
			}
			if unit {
				ks = append(ks, fmt.Sprintf("(%d%%N,unit_blocks %s)", k.K, coqTVs(d.Keys[k.K].Typ, all)))
				continue
			}
			var bs []string
			for _, b := range k.Blocks {
				bs = append(bs, fmt.Sprintf("((%s,%s,%d%%N),%s)", hx.CoqZ(b.Min), hx.CoqZ(b.Max), b.Count, coqTVs(d.Keys[k.K].Typ, b.Vals)))
			}
			ks = append(ks, fmt.Sprintf("(%d%%N,[%s])", k.K, strings.Join(bs, ";")))
		}
		items[i] = fmt.Sprintf("(%d%%N,%d%%N,[%s])", o.Gen, o.Seq, strings.Join(ks, ";"))
	}
	return "[" + strings.Join(items, ";\n   ") + "]"
}

func readAscOnly(fs *tsm1.FileStore, d *SetDesc) []keyRead {
	rs := make([]keyRead, len(d.Keys))
	for i, k := range d.Keys {
		a, e := readCursor(fs, k.Bytes(), k.Typ, d.Lo, true)
		rs[i] = keyRead{Asc: a}
		if e != nil {
			rs[i].Err = e.Error()
		}
	}
	return rs
}

func runRoll(o *hx.Out, d *SetDesc, origin string) {
	o.Begin("roll", d)
	dir, _ := os.MkdirTemp(scratchRoot(), "c09-")
	defer os.RemoveAll(dir)
	var fsn [][2]int
	total := 0
	for i := range d.Big {
		if err := writeBigFile(dir, d, &d.Big[i]); err != nil {
			o.Count("skipped:materialize:" + firstWord(err))
			return
		}
		fsn = append(fsn, [2]int{d.Big[i].Gen, d.Big[i].Seq})
		for _, r := range d.Big[i].Runs {
			total += r.N
		}
	}
	fs, err := openStore(dir)
	if err != nil {
		o.Count("skipped:open")
		return
	}
	defer fs.Close()
	// ascending reads only: a cursor over tens of thousands of blocks is quadratic
	before := readAscOnly(fs, d)
	c := newCompactor(dir, fs, d.Size)
	c.Open()
	files, cerr := doCompact(c, d.Fast, groupPaths(dir, d.Group))
	ec := errClass(cerr)
	var outs []outFile
	for _, f := range files {
		of, err := readOutFile(f, d)
		if err != nil {
			ec = 8
			cerr = err
		}
		outs = append(outs, of)
	}
	if ec == 0 {
		if err := fs.Replace(groupPaths(dir, d.Group), files); err != nil {
			ec = 7
			cerr = err
		}
	}
	after := readAscOnly(fs, d)
	for _, r := range append(append([]keyRead{}, before...), after...) {
		if r.Err != "" && ec == 0 {
			ec = 6
		}
	}
	o.Count(fmt.Sprintf("roll:outputs=%d", len(outs)))
	o.Count(fmt.Sprintf("roll:fast=%v", d.Fast))
	o.Count("roll:blocks=" + bucket(total))
	coq := fmt.Sprintf("CRoll %s %s %s %s %d%%N\n  %s\n  %s\n  %s",
		coqKeys(d.Keys), hx.CoqZ(int64(d.Size)), coqNames(fsn), coqNames(d.Group), ec,
		coqReads(d, before, nil), coqUnitOuts(d, outs), coqReads(d, after, nil))
	obs := map[string]interface{}{"err": ec, "outs": outNames(outs), "points_before": totalPoints(before), "points_after": totalPoints(after)}
	if cerr != nil {
		obs["error"] = trunc(cerr.Error(), 300)
	}
	o.Emit(hx.Case{Kind: "roll", Coq: coq, Desc: d, Obs: obs, Nontrivial: total > 0, Sig: sigOf(d, "roll"), Origin: origin})
}

// ---------------------------------------------------------------- case: delete while the compaction runs

func runDelete(o *hx.Out, d *SetDesc, origin string) {
	o.Begin("delete", d)
	dir, _ := os.MkdirTemp(scratchRoot(), "c09-")
	defer os.RemoveAll(dir)
	if err := materialize(dir, d); err != nil {
		o.Count("skipped:materialize:" + firstWord(err))
		return
	}
	fs, err := openStore(dir)
	if err != nil {
		o.Count("skipped:open")
		return
	}
	defer fs.Close()
	before := readAll(fs, d)
	c := newCompactor(dir, fs, d.Size)
	calls := 0
	var derr error
	c.WithFormatFileNameFunc(func(generation, sequence int) string {
		if calls == 0 {
			derr = fs.Delete([][]byte{d.Keys[d.DelKey].Bytes()})
		}
		calls++
		return tsm1.DefaultFormatFileName(generation, sequence)
	})
	c.Open()
	files, cerr := doCompact(c, d.Fast, groupPaths(dir, d.Group))
	if derr != nil || calls == 0 {
		o.Count("delete:not_issued")
		return
	}
	ec := errClass(cerr)
	var outs []outFile
	for _, f := range files {
		of, err := readOutFile(f, d)
		if err != nil {
			ec = 8
			cerr = err
		}
		outs = append(outs, of)
	}
	if ec == 0 {
		if err := fs.Replace(groupPaths(dir, d.Group), files); err != nil {
			ec = 7
			cerr = err
		}
	}
	live, tmp, _ := listDir(dir)
	after := readAll(fs, d)
	shapeStats(o, d, "delete")
	o.Count(fmt.Sprintf("delete:err=%d", ec))
	coq := fmt.Sprintf("CDelete %s %s %s %s %s\n  %s\n  %s %d%%N %d%%N\n  %s %s %d%%N\n  %s\n  %s",
		coqKeys(d.Keys), hx.CoqZ(int64(d.Size)), hx.CoqBool(d.Fast), hx.CoqZ(d.Lo), hx.CoqZ(d.Hi),
		coqFiles(d, d.Files), coqNames(d.Group), d.DelKey, ec,
		coqOuts(d, outs), coqNames(live), tmp, coqReads(d, before, nil), coqReads(d, after, nil))
	obs := map[string]interface{}{"err": ec, "outs": outNames(outs), "live": live, "tmp_left": tmp,
		"points_before": totalPoints(before), "points_after": totalPoints(after)}
	if cerr != nil {
		obs["error"] = trunc(cerr.Error(), 300)
	}
	o.Emit(hx.Case{Kind: "delete", Coq: coq, Desc: d, Obs: obs, Nontrivial: totalPoints(before) > 0 && len(d.Group) > 0,
		Sig: sigOf(d, "delete"), Origin: origin})
}

// ---------------------------------------------------------------- case: snapshot

func runSnap(o *hx.Out, d *SetDesc, origin string) {
	o.Begin("snap", d)
	dir, _ := os.MkdirTemp(scratchRoot(), "c09-")
	defer os.RemoveAll(dir)
	if err := materialize(dir, d); err != nil {
		o.Count("skipped:materialize:" + firstWord(err))
		return
	}
	fs, err := openStore(dir)
	if err != nil {
		o.Count("skipped:open")
		return
	}
	defer fs.Close()
	cache := tsm1.NewCache(1 << 30)
	write := func(batches [][]KP) error {
		for _, b := range batches {
			for _, kp := range b {
				if err := cache.Write(d.Keys[kp.K].Bytes(), []tsm1.Value{mkValue(d.Keys[kp.K].Typ, kp.P)}); err != nil {
					return err
				}
			}
		}
		return nil
	}
	if err := write(d.Snap); err != nil {
		o.Count("skipped:cache_write")
		return
	}
	// Engine.WriteSnapshot: Cache.Snapshot(), Deduplicate, Compactor.WriteSnapshot,
	// FileStore.Replace(nil, files), Cache.ClearSnapshot(true)
	snapshot, err := cache.Snapshot()
	if err != nil {
		o.Count("skipped:snapshot")
		return
	}
	if err := write(d.Hot); err != nil {
		o.Count("skipped:cache_write")
		return
	}
	cacheVals := func() []keyReadC {
		rs := make([]keyReadC, len(d.Keys))
		for i, k := range d.Keys {
			for _, v := range cache.Values(k.Bytes()) {
				rs[i] = append(rs[i], fromValue(v))
			}
		}
		return rs
	}
	gen := fs.CurrentGeneration() + 1
	filesBefore := readAll(fs, d)
	cacheBefore := cacheVals()
	snapshot.Deduplicate()
	c := newCompactor(dir, fs, d.Size)
	c.Open()
	var files []string
	var cerr error
	func() {
		defer func() {
			if r := recover(); r != nil {
				cerr = fmt.Errorf("panic: %v", r)
			}
		}()
		files, cerr = c.WriteSnapshot(snapshot)
	}()
	ec := errClass(cerr)
	var outs []outFile
	for _, f := range files {
		of, err := readOutFile(f, d)
		if err != nil {
			ec = 8
		}
		outs = append(outs, of)
	}
	if ec == 0 {
		if err := fs.Replace(nil, files); err != nil {
			ec = 7
		}
	}
	filesAfter := readAll(fs, d)
	cacheMid := cacheVals()
	if ec == 0 {
		cache.ClearSnapshot(true)
	} else {
		cache.ClearSnapshot(false)
	}
	cacheAfter := cacheVals()
	if !sameC(cacheBefore, cacheMid) {
		ec = 5 // the cache changed although nothing was written to it
	}
	shapeStats(o, d, "snap")
	ns, nh := 0, 0
	for _, b := range d.Snap {
		ns += len(b)
	}
	for _, b := range d.Hot {
		nh += len(b)
	}
	o.Count("snap:snapshot_points=" + bucket(ns))
	o.Count("snap:hot_points=" + bucket(nh))
	o.Count(fmt.Sprintf("snap:err=%d", ec))
	flat := func(bs [][]KP) string {
		per := map[int][]Pt{}
		var order []int
		for _, b := range bs {
			for _, kp := range b {
				if _, ok := per[kp.K]; !ok {
					order = append(order, kp.K)
				}
				per[kp.K] = append(per[kp.K], kp.P)
			}
		}
		var items []string
		for _, k := range order {
			items = append(items, fmt.Sprintf("(%d%%N,%s)", k, coqTVs(d.Keys[k].Typ, per[k])))
		}
		return "[" + strings.Join(items, ";") + "]"
	}
	coqC := func(rs []keyReadC) string {
		items := make([]string, len(rs))
		for i, r := range rs {
			items[i] = coqTVs(d.Keys[i].Typ, r)
		}
		return "[" + strings.Join(items, ";") + "]"
	}
	coq := fmt.Sprintf("CSnap %s %s %s\n  %s\n  %s\n  %s %d%%N %d%%N\n  %s\n  %s\n  %s\n  %s\n  %s",
		coqKeys(d.Keys), hx.CoqZ(d.Lo), hx.CoqZ(d.Hi), coqFiles(d, d.Files), flat(d.Snap), flat(d.Hot), gen, ec,
		coqOuts(d, outs), coqReads(d, filesBefore, nil), coqReads(d, filesAfter, nil), coqC(cacheBefore), coqC(cacheAfter))
	obs := map[string]interface{}{"err": ec, "outs": outNames(outs), "gen": gen}
	if cerr != nil {
		obs["error"] = trunc(cerr.Error(), 300)
	}
	o.Emit(hx.Case{Kind: "snap", Coq: coq, Desc: d, Obs: obs, Nontrivial: ns > 0, Sig: sigOf(d, "snap"), Origin: origin})
}

type keyReadC []Pt

func sameC(a, b []keyReadC) bool {
	x, _ := json.Marshal(a)
	y, _ := json.Marshal(b)
	return string(x) == string(y)
}

// ---------------------------------------------------------------- case: planner monitor

func currentFiles(d *SetDesc, extra []FileDesc, removed map[[2]int]bool) []FileDesc {
	var fsd []FileDesc
	for _, f := range append(append([]FileDesc{}, d.Files...), extra...) {
		if !removed[[2]int{f.Gen, f.Seq}] {
			fsd = append(fsd, f)
		}
	}
	return fsd
}

// runPlan drives the real DefaultPlanner over a real FileStore through a sequence of
// operations and emits one monitor case per non-empty plan: are the planned groups
// within the hypothesis of compact_preserves_reads for the file set they were planned on?
func runPlan(o *hx.Out, d *SetDesc, origin string) {
	o.Begin("plan", d)
	dir, _ := os.MkdirTemp(scratchRoot(), "c09-")
	defer os.RemoveAll(dir)
	if err := materialize(dir, d); err != nil {
		o.Count("skipped:materialize:" + firstWord(err))
		return
	}
	fs, err := openStore(dir)
	if err != nil {
		o.Count("skipped:open")
		return
	}
	defer fs.Close()
	pl := tsm1.NewDefaultPlanner(fs, time.Hour)
	var extra []FileDesc
	removed := map[[2]int]bool{}
	var kept [][]tsm1.CompactionGroup
	emitted := 0
	for step, op := range d.Ops {
		var groups []tsm1.CompactionGroup
		func() {
			defer func() {
				if r := recover(); r != nil {
					o.Count("plan:panic")
				}
			}()
			switch op.Op {
			case "level":
				groups = pl.PlanLevel(op.Level)
			case "plan":
				groups = pl.Plan(time.Now())
			case "full":
				pl.ForceFull()
				groups = pl.Plan(time.Now())
			case "optimize":
				groups = pl.PlanOptimize()
			case "install": // another compaction or a snapshot finished: a new file appears
				if op.File != nil {
					name, err := writeFile(dir, d, op.File, true)
					if err == nil {
						if err := fs.Replace(nil, []string{name}); err == nil {
							extra = append(extra, *op.File)
						}
					}
				}
			case "compact": // finish the compaction of a group that was kept acquired
				if op.Which < len(kept) && op.Idx < len(kept[op.Which]) {
					g := kept[op.Which][op.Idx]
					c := newCompactor(dir, fs, d.Size)
					c.Open()
					files, err := doCompact(c, true, g)
					if err == nil && fs.Replace(g, files) == nil {
						for _, p := range g {
							gg, ss, _ := tsm1.DefaultParseFileName(filepath.Base(p))
							removed[[2]int{gg, ss}] = true
						}
						for _, f := range files {
							of, err := readOutFile(strings.TrimSuffix(f, "."+tsm1.TmpTSMFileExtension), d)
							if err == nil {
								extra = append(extra, outToDesc(of))
							}
						}
						pl.Release([]tsm1.CompactionGroup{g})
						rest := append([]tsm1.CompactionGroup{}, kept[op.Which][:op.Idx]...)
						kept[op.Which] = append(rest, kept[op.Which][op.Idx+1:]...)
					}
				}
			}
		}()
		o.Count("plan:op=" + op.Op)
		if len(groups) == 0 {
			continue
		}
		o.Count(fmt.Sprintf("plan:groups=%d", len(groups)))
		cur := currentFiles(d, extra, removed)
		var gs []string
		var gnames [][][2]int
		for _, g := range groups {
			var ns [][2]int
			for _, p := range g {
				gg, ss, _ := tsm1.DefaultParseFileName(filepath.Base(p))
				ns = append(ns, [2]int{gg, ss})
			}
			gs = append(gs, coqNames(ns))
			gnames = append(gnames, ns)
			o.Count("plan:group_files=" + bucket(len(ns)))
		}
		coq := fmt.Sprintf("CPlan %s\n  %s\n  [%s]", coqKeys(d.Keys), coqFiles(d, cur), strings.Join(gs, ";"))
		sub := *d
		sub.Ops = d.Ops[:step+1]
		var names [][2]int
		for _, f := range cur {
			names = append(names, [2]int{f.Gen, f.Seq})
		}
		obs := map[string]interface{}{"monitor": "runtime monitor of the real DefaultPlanner against the contiguity hypothesis",
			"op": op, "files": names, "planned_groups": gnames}
		o.Emit(hx.Case{Kind: "plan", Coq: coq, Desc: &sub, Obs: obs, Nontrivial: true,
			Sig: fmt.Sprintf("%s:%d", sigOf(d, "plan"), step), Origin: origin})
		emitted++
		if op.Run {
			for gi, g := range groups {
				sub2 := sub
				sub2.Files = cur
				sub2.Ops = nil
				sub2.Group = gnames[gi]
				before := readAll(fs, d)
				c := newCompactor(dir, fs, d.Size)
				c.Open()
				files, cerr := doCompact(c, d.Fast, g)
				ec := errClass(cerr)
				var outs []outFile
				for _, f := range files {
					of, err := readOutFile(f, d)
					if err != nil {
						ec = 8
					}
					outs = append(outs, of)
				}
				if ec == 0 {
					if err := fs.Replace(g, files); err != nil {
						ec = 7
					}
				}
				after := readAll(fs, d)
				if ec == 0 {
					for _, n := range gnames[gi] {
						removed[n] = true
					}
					for _, of := range outs {
						extra = append(extra, outToDesc(of))
					}
				}
				coq := fmt.Sprintf("CPlanned %s %s %s %s %s\n  %s\n  %s %d%%N\n  %s\n  %s\n  %s",
					coqKeys(d.Keys), hx.CoqZ(int64(d.Size)), hx.CoqBool(d.Fast), hx.CoqZ(d.Lo), hx.CoqZ(d.Hi),
					coqFiles(d, cur), coqNames(gnames[gi]), ec, coqReads(d, before, nil), coqOuts(d, outs), coqReads(d, after, nil))
				cur = currentFiles(d, extra, removed)
				o.Count("plan:planned_group_compacted")
				o.Emit(hx.Case{Kind: "planned", Coq: coq, Desc: &sub, Obs: map[string]interface{}{"err": ec, "group": gnames[gi], "outs": outNames(outs),
					"note": "group chosen by the real DefaultPlanner, compacted by the real Compactor"},
					Nontrivial: true, Sig: fmt.Sprintf("%s:%d:run%d", sigOf(d, "plan"), step, gi), Origin: origin})
				_ = sub2
			}
			pl.Release(groups)
		} else if op.Keep {
			kept = append(kept, groups)
		} else {
			pl.Release(groups)
		}
	}
	if emitted == 0 {
		o.Count("plan:no_groups_planned")
	}
}

func outToDesc(of outFile) FileDesc {
	f := FileDesc{Gen: of.Gen, Seq: of.Seq}
	for _, k := range of.Keys {
		kb := KB{K: k.K}
		for _, b := range k.Blocks {
			kb.Blocks = append(kb.Blocks, b.Vals)
		}
		f.Data = append(f.Data, kb)
	}
	return f
}

// ---------------------------------------------------------------- dispatch

func runInput(o *hx.Out, kind string, d *SetDesc, origin string) {
	switch kind {
	case "compact":
		runCompact(o, d, origin)
	case "crash":
		runCrash(o, d, origin)
	case "fail":
		runFail(o, d, origin)
	case "snap":
		runSnap(o, d, origin)
	case "plan":
		runPlan(o, d, origin)
	case "roll":
		runRoll(o, d, origin)
	case "delete":
		runDelete(o, d, origin)
	case "blocks":
		runBlocks(o, d, origin)
	}
}

func main() {
	f := hx.ParseFlags()
	o := hx.NewOut(f.OutDir)
	defer o.Close()
	if f.In != "" {
		for _, in := range hx.ReadInputs(f.In) {
			if in.Kind == "planlevel" {
				var pd PlanLevelDesc
				if err := json.Unmarshal(in.Desc, &pd); err != nil {
					fmt.Fprintln(os.Stderr, "bad desc:", err)
					continue
				}
				runPlanLevel(o, &pd, "")
				continue
			}
			var d SetDesc
			if err := json.Unmarshal(in.Desc, &d); err != nil {
				fmt.Fprintln(os.Stderr, "bad desc:", err)
				continue
			}
			runInput(o, in.Kind, &d, "")
		}
		return
	}
	r := hx.NewRand(f.Seed)
	for _, dc := range append(designed(f.Tier), designedBlocks()...) {
		d := dc.d
		runInput(o, dc.kind, &d, "designed")
	}
	for _, pd := range designedPlanLevel() {
		pd := pd
		runPlanLevel(o, &pd, "designed")
	}
	generate(o, r, f.N, f.Tier)
}
