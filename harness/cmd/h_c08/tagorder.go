package main

// Tag order: the same series written as line protocol with its tags in different orders must
// come out of the REAL parser (models.ParsePointsWithPrecision) with one and the same key, the
// canonical one - and therefore hash to the same shard.  Kind "key" records the key per order
// (Run.v CKey: compared with the C12 model of scanKey and with the canonical key); points of
// "map" cases that carry an Order are built by parsing such a line, so that what MapShards
// routes is what the parser produced.

import (
	"crypto/sha1"
	"encoding/json"
	"fmt"
	"strings"
	"time"

	"github.com/influxdata/influxdb/models"
	"verifharness/hx"
)

type keyDesc struct {
	Name   string      `json:"name"`
	Tags   [][2]string `json:"tags"`
	Orders [][]int     `json:"orders"`
}

// escaping as a client must write it (line protocol documentation): measurement: ',' and ' ';
// tag key / value: ',', '=' and ' '.  Deliberately independent of the repository's escape code.
func escWith(s string, set string) string {
	var sb strings.Builder
	for i := 0; i < len(s); i++ {
		if strings.IndexByte(set, s[i]) >= 0 {
			sb.WriteByte('\\')
		}
		sb.WriteByte(s[i])
	}
	return sb.String()
}

func keyText(name string, tags [][2]string, order []int) string {
	var sb strings.Builder
	sb.WriteString(escWith(name, ", "))
	for _, i := range order {
		if i < 0 || i >= len(tags) {
			continue
		}
		sb.WriteByte(',')
		sb.WriteString(escWith(tags[i][0], ",= "))
		sb.WriteByte('=')
		sb.WriteString(escWith(tags[i][1], ",= "))
	}
	return sb.String()
}

// parseLine runs the real parser on one line; ok=false when it rejects the line, yields no or
// several points, or panics.
func parseLine(text string) (p models.Point, ok bool) {
	defer func() {
		if r := recover(); r != nil {
			p, ok = nil, false
		}
	}()
	pts, err := models.ParsePointsWithPrecision([]byte(text), time.Unix(0, 0), "n")
	if err != nil || len(pts) != 1 {
		return nil, false
	}
	return pts[0], true
}

func coqTags(tags [][2]string) string {
	var ts []string
	for _, kv := range tags {
		ts = append(ts, fmt.Sprintf("(%s, %s)", hx.CoqBytes([]byte(kv[0])), hx.CoqBytes([]byte(kv[1]))))
	}
	return hx.CoqList(ts)
}

func runKeyCase(o *hx.Out, d *keyDesc, origin string) {
	o.Begin("key", d)
	type ob struct {
		Order []int  `json:"order"`
		Text  string `json:"text"`
		Key   string `json:"key"`
		OK    bool   `json:"ok"`
	}
	var obs []ob
	var cs []string
	distinct := map[string]bool{}
	for _, ord := range d.Orders {
		text := keyText(d.Name, d.Tags, ord) + " v=1"
		p, ok := parseLine(text)
		k := "None"
		b := ob{Order: ord, Text: text, OK: ok}
		if ok {
			b.Key = string(p.Key())
			k = fmt.Sprintf("(Some %s)", hx.CoqBytes(p.Key()))
			distinct[b.Key] = true
		}
		obs = append(obs, b)
		var os []string
		for _, i := range ord {
			os = append(os, fmt.Sprintf("%d%%nat", i))
		}
		cs = append(cs, fmt.Sprintf("(%s, %s, %s)", hx.CoqList(os), hx.CoqBytes([]byte(text)), k))
	}
	o.Count(fmt.Sprintf("key:tags=%d", len(d.Tags)))
	o.Count(fmt.Sprintf("key:orders=%d", len(d.Orders)))
	o.Count(fmt.Sprintf("key:distinct-keys=%d", len(distinct)))
	if strings.ContainsAny(d.Name, ", =\\") {
		o.Count("key:escaped-measurement")
	}
	for _, kv := range d.Tags {
		if strings.ContainsAny(kv[0]+kv[1], ", =\\") {
			o.Count("key:escaped-tag")
			break
		}
	}
	js, _ := json.Marshal(d)
	o.Emit(hx.Case{Kind: "key", Coq: fmt.Sprintf("CKey %s %s %s", hx.CoqBytes([]byte(d.Name)), coqTags(d.Tags), hx.CoqList(cs)),
		Desc: d, Obs: obs, Nontrivial: len(d.Tags) >= 2 && len(d.Orders) >= 2,
		Sig: fmt.Sprintf("key:%x", sha1.Sum(js)), Origin: origin})
}

// pools for key cases: tag keys that are prefixes of one another followed by bytes below and
// above '=' (a sort on the raw "key=value" text orders them differently from a sort on the key),
// bytes that need escaping, multi-byte runes, backslashes inside names
var keyNames = []string{"cpu", "disk,x", "a b", "m=1", `x\y`, "µs", "c,p u"}
var keyKeys = []string{"host", "host0", "host-1", "host.name", "hostz", "host~", "ho st", "a,b", "k=e", "a", "a!", "a=", "ab", "region", `b\c`, "é", "h"}
var keyVals = []string{"a", "b c", "v,1", "x=y", "1", "ü", `p\q`, "us-west", "="}

func shuffled(r *hx.Rand, n int) []int {
	p := make([]int, n)
	for i := range p {
		p[i] = i
	}
	for i := n - 1; i > 0; i-- {
		j := r.Intn(i + 1)
		p[i], p[j] = p[j], p[i]
	}
	return p
}

func genTags(r *hx.Rand, n int) [][2]string {
	used := map[string]bool{}
	var tags [][2]string
	for len(tags) < n {
		k := keyKeys[r.Intn(len(keyKeys))]
		if used[k] {
			continue
		}
		used[k] = true
		tags = append(tags, [2]string{k, keyVals[r.Intn(len(keyVals))]})
	}
	return tags
}

func genKey(r *hx.Rand) *keyDesc {
	d := &keyDesc{Name: keyNames[r.Intn(len(keyNames))]}
	n := r.Intn(6)
	if r.Chance(10) {
		n = 6 + r.Intn(6)
	}
	d.Tags = genTags(r, n)
	id := make([]int, n)
	rev := make([]int, n)
	for i := range id {
		id[i] = i
		rev[i] = n - 1 - i
	}
	d.Orders = [][]int{id, rev}
	for k := 0; k < 2+r.Intn(3); k++ {
		d.Orders = append(d.Orders, shuffled(r, n))
	}
	return d
}

func designedKeys() []*keyDesc {
	all := func(n int) [][]int { // every order of up to 3 tags
		switch n {
		case 0:
			return [][]int{{}}
		case 1:
			return [][]int{{0}}
		case 2:
			return [][]int{{0, 1}, {1, 0}}
		}
		return [][]int{{0, 1, 2}, {0, 2, 1}, {1, 0, 2}, {1, 2, 0}, {2, 0, 1}, {2, 1, 0}}
	}
	ts := [][][2]string{
		nil,
		{{"host", "a"}},
		{{"host", "a"}, {"region", "us"}},
		{{"host", "a"}, {"host-1", "b"}, {"host0", "c"}}, // '-' and '0' sort below '=', the keys above "host"
		{{"a", "1"}, {"a!", "2"}, {"ab", "3"}},
		{{"k=e", "x=y"}, {"k", "b c"}, {"a,b", "v,1"}},
		{{"ho st", "="}, {"host", "p\\q"}, {"h", "ü"}},
	}
	var ds []*keyDesc
	for i, t := range ts {
		ds = append(ds, &keyDesc{Name: keyNames[i%len(keyNames)], Tags: t, Orders: all(len(t))})
	}
	return ds
}
