// h_c08: correspondence harness for C08 (point -> shard routing).
// Runs the REAL coordinator.PointsWriter.MapShards against a fake MetaClient that is
// backed by a REAL meta.Data (so RetentionPolicy / ShardGroupByTimestamp / CreateShardGroup /
// TruncateShardGroups / DeleteShardGroup are the repository's code), and records, per batch,
// the resulting metadata and for every batch position the shard it was mapped to or "dropped".
package main

import (
	"crypto/sha1"
	"encoding/json"
	"errors"
	"fmt"
	"math/big"
	"sort"
	"strings"
	"time"

	"github.com/influxdata/influxdb/coordinator"
	"github.com/influxdata/influxdb/models"
	"github.com/influxdata/influxdb/services/meta"
	"verifharness/hx"
)

// ---------------------------------------------------------------- input description

type histOp struct {
	Op      string `json:"op"` // create | sd | trunc | del | raw
	T       int64  `json:"t,omitempty"`
	SD      int64  `json:"sd,omitempty"`
	K       int    `json:"k,omitempty"` // del: index into current group list
	Start   int64  `json:"start,omitempty"`
	End     int64  `json:"end,omitempty"`
	Trunc   int64  `json:"trunc,omitempty"`
	HasTr   bool   `json:"hastr,omitempty"`
	Deleted bool   `json:"deleted,omitempty"`
	NShards int    `json:"nshards,omitempty"`
}

type ptDesc struct {
	Name string      `json:"name"`
	Tags [][2]string `json:"tags,omitempty"`
	T    int64       `json:"t"`
	Zero bool        `json:"zero,omitempty"` // the zero time.Time (year 1): allowed by models.NewPoint
	// Order (non-empty): the point is built by sending a line of line protocol with the tags
	// written in this order (positions of Tags) through the real parser instead of models.NewPoint
	Order []int `json:"order,omitempty"`
}

type desc struct {
	Base     int64     `json:"base"` // wall clock (unix ns) when generated; 0 = times are absolute (infinite policy)
	Nodes    int       `json:"nodes"`
	Replica  int       `json:"replica"`
	Duration int64     `json:"duration"`
	SD       int64     `json:"sd"`
	Hist     []histOp  `json:"hist"`
	Points   []ptDesc  `json:"points"`
	RT       bool      `json:"rt,omitempty"` // marshal/unmarshal the metadata (what a data node's client cache holds) before MapShards
	Subs     [][]int   `json:"subs"` // sub-batches (positions of Points), each run on a copy of the metadata left by the main batch
}

const (
	minNano = models.MinNanoTime
	maxNano = models.MaxNanoTime
)

func satAdd(t, d int64) int64 {
	s := new(big.Int).Add(big.NewInt(t), big.NewInt(d))
	if s.Cmp(big.NewInt(minNano)) < 0 {
		return minNano
	}
	if s.Cmp(big.NewInt(maxNano)) > 0 {
		return maxNano
	}
	return s.Int64()
}

// ---------------------------------------------------------------- fake meta client over a real meta.Data

type metaClient struct{ data *meta.Data }

func (c *metaClient) NodeID() uint64 { return 1 }
func (c *metaClient) Database(name string) *meta.DatabaseInfo { return c.data.Database(name) }
func (c *metaClient) RetentionPolicy(db, rp string) (*meta.RetentionPolicyInfo, error) {
	return c.data.RetentionPolicy(db, rp)
}

// CreateShardGroup is meta.Client.CreateShardGroup with the raft round trip replaced by a
// direct call of the command's apply function Data.CreateShardGroup.
func (c *metaClient) CreateShardGroup(db, rp string, t time.Time) (*meta.ShardGroupInfo, error) {
	if sg, _ := c.data.ShardGroupByTimestamp(db, rp, t); sg != nil {
		return sg, nil
	}
	if err := c.data.CreateShardGroup(db, rp, t); err != nil {
		return nil, err
	}
	rpi, err := c.data.RetentionPolicy(db, rp)
	if err != nil {
		return nil, err
	} else if rpi == nil {
		return nil, errors.New("retention policy deleted after shard group created")
	}
	return rpi.ShardGroupByTimestamp(t), nil
}

// ---------------------------------------------------------------- observation

func bigNanos(t time.Time) *big.Int {
	z := new(big.Int).Mul(big.NewInt(t.Unix()), big.NewInt(1000000000))
	return z.Add(z, big.NewInt(int64(t.Nanosecond())))
}

func coqZBig(z *big.Int) string {
	if z.Sign() < 0 {
		return "(" + z.String() + ")%Z"
	}
	return z.String() + "%Z"
}

func coqTime(t time.Time) string { return coqZBig(bigNanos(t)) }

type groupObs struct {
	ID      uint64   `json:"id"`
	Start   string   `json:"start"`
	End     string   `json:"end"`
	Deleted bool     `json:"deleted"`
	Trunc   string   `json:"trunc,omitempty"`
	Shards  []uint64 `json:"shards"`
	Owners  []int    `json:"owners"`
	coq     string
}

func rpOf(d *meta.Data) *meta.RetentionPolicyInfo {
	rpi, _ := d.RetentionPolicy("db", "rp")
	return rpi
}

func observeGroups(d *meta.Data) []groupObs {
	rpi := rpOf(d)
	var res []groupObs
	for i := range rpi.ShardGroups {
		g := &rpi.ShardGroups[i]
		o := groupObs{ID: g.ID, Start: bigNanos(g.StartTime).String(), End: bigNanos(g.EndTime).String(), Deleted: g.Deleted()}
		tr := "None"
		if g.Truncated() {
			o.Trunc = bigNanos(g.TruncatedAt).String()
			tr = "(Some " + coqTime(g.TruncatedAt) + ")"
		}
		for _, s := range g.Shards {
			o.Shards = append(o.Shards, s.ID)
			o.Owners = append(o.Owners, len(s.Owners))
		}
		o.coq = fmt.Sprintf("(mkG %d %s %s %s %s %s)", g.ID, coqTime(g.StartTime), coqTime(g.EndTime), hx.CoqBool(g.Deleted()), tr, hx.CoqNList(o.Shards))
		res = append(res, o)
	}
	return res
}

func coqMeta(d *meta.Data, gs []groupObs) string {
	items := make([]string, len(gs))
	for i, g := range gs {
		items[i] = g.coq
	}
	return fmt.Sprintf("(mkM %s %d %d %d)", hx.CoqList(items), d.MaxShardGroupID, d.MaxShardID, len(d.DataNodes))
}

func coqNatList(xs []int) string {
	if len(xs) == 0 {
		return "[]"
	}
	ss := make([]string, len(xs))
	for i, x := range xs {
		ss[i] = fmt.Sprint(x)
	}
	return "[" + strings.Join(ss, ";") + "]%nat"
}

type runObs struct {
	Idxs    []int            `json:"idxs"`
	Outcome string           `json:"outcome"` // ok | err:<msg> | panic:<msg>
	Points  map[uint64][]int `json:"points"`  // shard id -> positions of the batch, in the order MapShards appended them
	Dropped []int            `json:"dropped"`
	Groups  []groupObs       `json:"groups_after"`
	coq     string
	mapped  int
	skew    bool
}

// runBatch calls the real MapShards on batch (positions idxs of pts) against data.
func runBatch(data *meta.Data, duration int64, pts []models.Point, idxs []int) runObs {
	w := coordinator.NewPointsWriter()
	w.MetaClient = &metaClient{data: data}
	req := &coordinator.WritePointsRequest{Database: "db", RetentionPolicy: "rp"}
	pos := map[models.Point]int{}
	for k, i := range idxs {
		// a fresh point value per batch position so that positions are identifiable by pointer
		p := pts[i]
		q, err := models.NewPoint(string(p.Name()), p.Tags(), models.Fields{"v": float64(k)}, p.Time())
		if err != nil {
			panic(err)
		}
		req.Points = append(req.Points, q)
		pos[q] = k
	}
	o := runObs{Idxs: idxs, Points: map[uint64][]int{}}
	metaBefore := coqMeta(data, observeGroups(data))
	var sm *coordinator.ShardMapping
	var err error
	outcome := 0
	lo := time.Now()
	func() {
		defer func() {
			if e := recover(); e != nil {
				outcome = 2
				o.Outcome = fmt.Sprintf("panic:%v", e)
			}
		}()
		sm, err = w.MapShards(req)
	}()
	hi := time.Now()
	if outcome == 0 {
		if err != nil {
			outcome = 1
			o.Outcome = "err:" + err.Error()
		} else {
			o.Outcome = "ok"
		}
	}
	// the retention cut-off is time.Now()-Duration read inside MapShards: somewhere in [lo,hi].
	// A point whose time falls inside [lo-D, hi-D] has an unknowable verdict: flag the run.
	if duration > 0 {
		clo, chi := lo.Add(-time.Duration(duration)), hi.Add(-time.Duration(duration))
		for _, p := range req.Points {
			if !p.Time().Before(clo) && !p.Time().After(chi) {
				o.skew = true
			}
		}
	}
	var pcoq []string
	if outcome == 0 && sm != nil {
		ids := make([]uint64, 0, len(sm.Points))
		for id := range sm.Points {
			ids = append(ids, id)
		}
		sort.Slice(ids, func(a, b int) bool { return ids[a] < ids[b] })
		for _, id := range ids {
			var ks []int
			for _, p := range sm.Points[id] {
				k, ok := pos[p]
				if !ok {
					k = 999999 // a point that was not in the batch
				}
				ks = append(ks, k)
			}
			o.Points[id] = ks
			o.mapped += len(ks)
			pcoq = append(pcoq, fmt.Sprintf("(%d, %s)", id, coqNatList(ks)))
			if si, ok := sm.Shards[id]; !ok || si == nil || si.ID != id {
				o.Outcome = "ok-but-shards-map-inconsistent"
				outcome = 3
			}
		}
		for _, p := range sm.Dropped {
			k, ok := pos[p]
			if !ok {
				k = 999999
			}
			o.Dropped = append(o.Dropped, k)
		}
	}
	o.Groups = observeGroups(data)
	metaAfter := "(Some " + coqMeta(data, o.Groups) + ")"
	if coqMeta(data, o.Groups) == metaBefore {
		metaAfter = "None"
	}
	o.coq = fmt.Sprintf("(mkRun %s %s %d %s %s %s)", coqNatList(idxs), coqTime(lo), outcome, metaAfter,
		hx.CoqList(pcoq), coqNatList(o.Dropped))
	return o
}

// ---------------------------------------------------------------- building metadata from a history

func buildData(d *desc, delta int64) (*meta.Data, error) {
	data := &meta.Data{}
	for i := 0; i < d.Nodes; i++ {
		if err := data.CreateDataNode(fmt.Sprintf("h%d:8086", i), fmt.Sprintf("h%d:8088", i)); err != nil {
			return nil, err
		}
	}
	if err := data.CreateDatabase("db"); err != nil {
		return nil, err
	}
	rp := &meta.RetentionPolicyInfo{Name: "rp", ReplicaN: 1, Duration: 0, ShardGroupDuration: time.Hour}
	if err := data.CreateRetentionPolicy("db", rp, true); err != nil {
		return nil, err
	}
	rpi := rpOf(data)
	rpi.ReplicaN = d.Replica
	rpi.Duration = time.Duration(d.Duration)
	rpi.ShardGroupDuration = time.Duration(d.SD)
	for _, op := range d.Hist {
		rpi = rpOf(data)
		switch op.Op {
		case "create": // lazily created / pre-created group through the real command
			if err := data.CreateShardGroup("db", "rp", time.Unix(0, satAdd(op.T, delta))); err != nil {
				return nil, err
			}
		case "sd": // ALTER RETENTION POLICY ... SHARD DURATION
			rpi.ShardGroupDuration = time.Duration(op.SD)
		case "trunc":
			data.TruncateShardGroups(time.Unix(0, satAdd(op.T, delta)))
		case "del":
			if len(rpi.ShardGroups) > 0 {
				data.DeleteShardGroup("db", "rp", rpi.ShardGroups[op.K%len(rpi.ShardGroups)].ID)
			}
		case "raw": // hand-made group (malformed-metadata stream: may overlap others)
			g := meta.ShardGroupInfo{StartTime: time.Unix(0, satAdd(op.Start, delta)).UTC(), EndTime: time.Unix(0, satAdd(op.End, delta)).UTC()}
			data.MaxShardGroupID++
			g.ID = data.MaxShardGroupID
			for k := 0; k < op.NShards; k++ {
				data.MaxShardID++
				g.Shards = append(g.Shards, meta.ShardInfo{ID: data.MaxShardID, Owners: []meta.ShardOwner{{NodeID: 1}}})
			}
			if op.HasTr {
				g.TruncatedAt = time.Unix(0, satAdd(op.Trunc, delta)).UTC()
			}
			if op.Deleted {
				g.DeletedAt = time.Unix(0, 1).UTC()
			}
			rpi.ShardGroups = append(rpi.ShardGroups, g)
			sort.Sort(meta.ShardGroupInfos(rpi.ShardGroups))
		}
	}
	rpOf(data).ShardGroupDuration = time.Duration(d.SD)
	return data, nil
}

func mkPoints(d *desc, delta int64) ([]models.Point, error) {
	var pts []models.Point
	for _, p := range d.Points {
		tags := map[string]string{}
		for _, kv := range p.Tags {
			tags[kv[0]] = kv[1]
		}
		t := time.Unix(0, satAdd(p.T, delta))
		if p.Zero {
			t = time.Time{}
		}
		if len(p.Order) > 0 && len(p.Order) == len(p.Tags) && !p.Zero {
			text := fmt.Sprintf("%s v=1 %d", keyText(p.Name, p.Tags, p.Order), t.UnixNano())
			q, ok := parseLine(text)
			if !ok {
				return nil, fmt.Errorf("line rejected")
			}
			pts = append(pts, q)
			continue
		}
		q, err := models.NewPoint(p.Name, models.NewTags(tags), models.Fields{"v": 1.0}, t)
		if err != nil {
			return nil, err
		}
		pts = append(pts, q)
	}
	return pts, nil
}

func runCase(o *hx.Out, d *desc, origin string, fresh bool) {
	o.Begin("map", d)
	delta := int64(0)
	if d.Base != 0 && !fresh {
		delta = time.Now().UnixNano() - d.Base
	}
	data, err := buildData(d, delta)
	if err != nil {
		o.Count("skipped:build:" + err.Error())
		return
	}
	pts, err := mkPoints(d, delta)
	if err != nil {
		o.Count("skipped:points:" + err.Error())
		return
	}
	if d.RT {
		gb := observeGroups(data)
		mb := coqMeta(data, gb)
		buf, err := data.MarshalBinary()
		if err != nil {
			o.Count("skipped:marshal:" + err.Error())
			return
		}
		data2 := &meta.Data{}
		if err := data2.UnmarshalBinary(buf); err != nil {
			o.Count("skipped:unmarshal:" + err.Error())
			return
		}
		ga := observeGroups(data2)
		ma := coqMeta(data2, ga)
		dd := *d
		dd.Base = 0
		js, _ := json.Marshal(dd)
		o.Count("roundtrip:cases")
		o.Emit(hx.Case{Kind: "rt", Coq: fmt.Sprintf("CRt %s %s", mb, ma), Desc: d,
			Obs:        map[string]interface{}{"groups_before": gb, "groups_after_roundtrip": ga, "identical": mb == ma},
			Nontrivial: len(gb) > 0, Sig: fmt.Sprintf("rt:%x", sha1.Sum(js)), Origin: origin})
		data = data2
	}
	g0 := observeGroups(data)
	m0 := coqMeta(data, g0)
	all := make([]int, len(pts))
	for i := range all {
		all[i] = i
	}
	main := runBatch(data, d.Duration, pts, all)
	skew := main.skew
	var subs []runObs
	if main.Outcome == "ok" {
		for _, s := range d.Subs {
			ok := true
			for _, i := range s {
				if i < 0 || i >= len(pts) {
					ok = false
				}
			}
			if !ok {
				continue
			}
			r := runBatch(data.Clone(), d.Duration, pts, s)
			skew = skew || r.skew
			subs = append(subs, r)
		}
	}
	if skew {
		o.Count("skipped:clock-window")
		return
	}
	var pc []string
	for _, p := range pts {
		pc = append(pc, fmt.Sprintf("(mkP %s %s)", hx.CoqBytes(p.Key()), coqTime(p.Time())))
	}
	var sc []string
	for _, s := range subs {
		sc = append(sc, s.coq)
	}
	coq := fmt.Sprintf("CMap %s (mkRP %s %s %d) %s %s %s", m0, hx.CoqZ(d.Duration), hx.CoqZ(d.SD), d.Replica,
		hx.CoqList(pc), main.coq, hx.CoqList(sc))
	// distribution
	o.Count(fmt.Sprintf("batch:points=%d", len(pts)))
	o.Count(fmt.Sprintf("meta:groups0=%d", len(g0)))
	ntr, ndel := 0, 0
	for _, g := range g0 {
		if g.Trunc != "" {
			ntr++
		}
		if g.Deleted {
			ndel++
		}
	}
	if ntr > 0 {
		o.Count("meta:has-truncated")
	}
	if ndel > 0 {
		o.Count("meta:has-deleted")
	}
	if d.Duration > 0 {
		o.Count("policy:finite")
	} else {
		o.Count("policy:infinite")
	}
	for _, h := range d.Hist {
		o.Count("hist:" + h.Op)
	}
	o.Count("outcome:" + strings.SplitN(main.Outcome, ":", 2)[0])
	o.Count(fmt.Sprintf("created:%d", len(main.Groups)-len(g0)))
	if len(main.Dropped) > 0 {
		o.Count("batch:has-dropped")
	}
	o.Count(fmt.Sprintf("subs:%d", len(subs)))
	dd := *d
	dd.Base = 0
	js, _ := json.Marshal(dd)
	o.Emit(hx.Case{Kind: "map", Coq: coq, Desc: d,
		Obs:        map[string]interface{}{"groups_before": g0, "main": main, "subs": subs},
		Nontrivial: main.mapped > 0, Sig: fmt.Sprintf("%x", sha1.Sum(js)), Origin: origin})
}

// ---------------------------------------------------------------- generation

var sdChoices = []int64{1, 2, 7, 1000, int64(time.Minute), int64(time.Hour), int64(time.Hour) + 1, int64(24 * time.Hour),
	int64(7 * 24 * time.Hour), int64(3 * time.Hour), 12345678901234, int64(100 * 365 * 24 * time.Hour)}

var names = []string{"cpu", "mem", "disk,x", "a b", "m"}
var tagSets = [][][2]string{nil, {{"host", "a"}}, {{"host", "b"}}, {{"host", "a"}, {"region", "us"}}, {{"t", "1"}}, {{"t", "2"}}, {{"t", "3"}},
	{{"host", "a"}, {"host-1", "b"}, {"host0", "c"}}, {{"a", "1"}, {"a!", "2"}, {"ab", "3"}}}

func pickSD(r *hx.Rand) int64 {
	if r.Chance(15) {
		return 1 + int64(r.U64()%uint64(1<<uint(1+r.Intn(50))))
	}
	return sdChoices[r.Intn(len(sdChoices))]
}

// interesting times of a metadata state: every boundary of every group, +-1
func boundaryTimes(data *meta.Data) []int64 {
	var ts []int64
	add := func(t time.Time) {
		z := bigNanos(t)
		if z.IsInt64() {
			v := z.Int64()
			for _, dlt := range []int64{-1, 0, 1} {
				ts = append(ts, satAdd(v, dlt))
			}
		}
	}
	for _, g := range rpOf(data).ShardGroups {
		add(g.StartTime)
		add(g.EndTime)
		if g.Truncated() {
			add(g.TruncatedAt)
		}
	}
	return ts
}

func gen(r *hx.Rand, o *hx.Out) *desc {
	d := &desc{}
	d.Nodes = 1 + r.Intn(5)
	if r.Chance(2) {
		d.Nodes = 0
	}
	d.Replica = r.Intn(4)
	d.SD = pickSD(r)
	if r.Chance(1) {
		d.SD = 0
	}
	finite := r.Chance(35)
	now := time.Now().UnixNano()
	var anchor int64
	if finite {
		d.Base = now
		durs := []int64{int64(time.Hour), int64(24 * time.Hour), int64(7 * 24 * time.Hour), int64(52 * 7 * 24 * time.Hour), int64(200 * 365 * 24 * time.Hour)}
		d.Duration = durs[r.Intn(len(durs))]
		if r.Chance(70) {
			anchor = now - d.Duration // around the cut-off
		} else {
			anchor = now
		}
	} else {
		switch r.Intn(8) {
		case 0, 1:
			anchor = minNano
		case 2:
			anchor = maxNano
		case 3, 4:
			anchor = 0
		case 5:
			anchor = int64(r.U64())
		default:
			anchor = now - int64(r.U64()%uint64(10*365*24*time.Hour))
		}
	}
	span := d.SD
	if span <= 0 {
		span = 1000
	}
	near := func() int64 { // a time within a few shard durations of the anchor
		k := int64(r.Intn(9)) - 4
		off := new(big.Int).Mul(big.NewInt(k), big.NewInt(span))
		off.Add(off, big.NewInt(int64(r.U64()%uint64(span))))
		if !off.IsInt64() {
			return anchor
		}
		t := satAdd(anchor, off.Int64())
		if finite { // keep at least 2s away from the moving cut-off
			c := now - d.Duration
			if t > c-2e9 && t < c+2e9 {
				t = c + 2e9
			}
		}
		return t
	}
	// wire-format corner values: a group ending exactly at the Unix epoch (marshalled as 0), a
	// group starting at the clamped minimum
	if !finite && anchor == 0 && r.Chance(60) {
		d.Hist = append(d.Hist, histOp{Op: "create", T: -1})
	}
	if !finite && anchor == minNano && r.Chance(60) {
		d.Hist = append(d.Hist, histOp{Op: "create", T: satAdd(minNano, int64(r.U64()%uint64(span)))})
	}
	// history on a scratch copy to learn the boundaries
	malformed := r.Chance(12)
	nops := r.Intn(7)
	for k := 0; k < nops; k++ {
		scratch, err := buildData(d, 0)
		if err != nil {
			break
		}
		bt := boundaryTimes(scratch)
		pickT := func() int64 {
			if len(bt) > 0 && r.Chance(50) {
				return bt[r.Intn(len(bt))]
			}
			return near()
		}
		switch c := r.Intn(100); {
		case c < 40:
			d.Hist = append(d.Hist, histOp{Op: "create", T: pickT()})
		case c < 55:
			nsd := pickSD(r)
			if r.Chance(60) { // same order of magnitude: odd-sized neighbours
				nsd = span/2 + int64(r.U64()%uint64(span+1))
				if nsd <= 0 {
					nsd = 1
				}
			}
			d.Hist = append(d.Hist, histOp{Op: "sd", SD: nsd})
		case c < 75:
			d.Hist = append(d.Hist, histOp{Op: "trunc", T: pickT()})
		case c < 88:
			d.Hist = append(d.Hist, histOp{Op: "del", K: r.Intn(8)})
		default:
			if malformed {
				s := pickT()
				e := satAdd(s, 1+int64(r.U64()%uint64(2*span)))
				op := histOp{Op: "raw", Start: s, End: e, NShards: 1 + r.Intn(3), Deleted: r.Chance(15)}
				if r.Chance(3) {
					op.NShards = 0
				}
				if r.Chance(30) {
					op.HasTr = true
					op.Trunc = satAdd(s, int64(r.U64()%uint64(2*span)))
				}
				d.Hist = append(d.Hist, op)
			} else {
				d.Hist = append(d.Hist, histOp{Op: "create", T: pickT()})
			}
		}
	}
	if malformed {
		o.Count("stream:malformed-metadata")
	} else {
		o.Count("stream:reachable-metadata")
	}
	scratch, err := buildData(d, 0)
	var bt []int64
	if err == nil {
		bt = boundaryTimes(scratch)
	}
	bt = append(bt, minNano, minNano+1, maxNano, maxNano-1)
	np := 1 + r.Intn(8)
	if r.Chance(5) {
		np = 0
	}
	for k := 0; k < np; k++ {
		p := ptDesc{Name: names[r.Intn(len(names))], Tags: tagSets[r.Intn(len(tagSets))]}
		switch c := r.Intn(100); {
		case c < 50:
			p.T = bt[r.Intn(len(bt))]
		case c < 60 && len(d.Points) > 0: // duplicate time (and maybe series) of an earlier point
			q := d.Points[r.Intn(len(d.Points))]
			p.T = q.T
			if r.Bool() {
				p = q
			}
		case c < 62:
			p.Zero = true
		default:
			p.T = near()
		}
		if finite && !p.Zero {
			c := now - d.Duration
			if r.Chance(25) { // around the cut-off, on both sides, but not within 2s of it
				offs := []int64{-3600e9, -60e9, -2e9, 2e9, 60e9, 3600e9}
				p.T = c + offs[r.Intn(len(offs))]
			} else if p.T > c-2e9 && p.T < c+2e9 {
				p.T = c + 2e9
			}
		}
		if len(p.Tags) > 0 && !p.Zero && r.Chance(45) { // written as a line, tags in a random order
			p.Order = shuffled(r, len(p.Tags))
			o.Count("point:parsed-line")
		}
		d.Points = append(d.Points, p)
	}
	d.RT = r.Chance(40)
	// sub-batches on the resulting metadata: a shuffle, single points, a random subset, the batch doubled
	n := len(d.Points)
	if n > 0 {
		perm := make([]int, n)
		for i := range perm {
			perm[i] = i
		}
		for i := n - 1; i > 0; i-- {
			j := r.Intn(i + 1)
			perm[i], perm[j] = perm[j], perm[i]
		}
		d.Subs = append(d.Subs, perm)
		d.Subs = append(d.Subs, []int{r.Intn(n)})
		if r.Bool() {
			d.Subs = append(d.Subs, []int{r.Intn(n)})
		}
		var sub []int
		for i := 0; i < n; i++ {
			if r.Bool() {
				sub = append(sub, perm[i])
			}
		}
		d.Subs = append(d.Subs, sub)
	}
	return d
}

// designed cases: the shapes named in the property text
func designed() []*desc {
	h := int64(time.Hour)
	t0 := int64(1700000000) * 1e9 / h * h // an hour boundary in 2023 (aligned to the Truncate grid: zero time is hour aligned)
	var ds []*desc
	// 1. plain lazily created groups, boundary points End-1, End, Start
	ds = append(ds, &desc{Nodes: 3, Replica: 1, SD: h, Points: []ptDesc{{Name: "cpu", T: t0}, {Name: "cpu", T: t0 + h - 1}, {Name: "cpu", T: t0 + h}, {Name: "mem", T: t0 - 1}},
		Subs: [][]int{{3, 2, 1, 0}, {2}, {1}}})
	// 2. truncated group with a successor: the point at the truncation time in company of one before it
	ds = append(ds, &desc{Nodes: 2, Replica: 1, SD: h, Hist: []histOp{{Op: "create", T: t0}, {Op: "trunc", T: t0 + h/2}},
		Points: []ptDesc{{Name: "cpu", T: t0 + 5}, {Name: "cpu", T: t0 + h/2}}, Subs: [][]int{{1}, {1, 0}}})
	// 3. same, successor already exists
	ds = append(ds, &desc{Nodes: 2, Replica: 1, SD: h, Hist: []histOp{{Op: "create", T: t0}, {Op: "trunc", T: t0 + h/2}, {Op: "create", T: t0 + h/2}},
		Points: []ptDesc{{Name: "cpu", T: t0 + 5}, {Name: "cpu", T: t0 + h/2}, {Name: "cpu", T: t0 + h/2 - 1}, {Name: "cpu", T: t0 + h - 1}}, Subs: [][]int{{1}, {3}, {3, 2, 1, 0}}})
	// 4. extreme timestamps
	ds = append(ds, &desc{Nodes: 1, Replica: 1, SD: 7 * 24 * h, Points: []ptDesc{{Name: "cpu", T: minNano}, {Name: "cpu", T: maxNano}, {Name: "cpu", T: maxNano - 1}, {Name: "cpu", T: minNano + 1}, {Name: "cpu", Zero: true}},
		Subs: [][]int{{1}, {0}, {4}}})
	// 5. deleted group: its range must be re-created, never reused
	ds = append(ds, &desc{Nodes: 3, Replica: 2, SD: h, Hist: []histOp{{Op: "create", T: t0}, {Op: "del", K: 0}},
		Points: []ptDesc{{Name: "cpu", T: t0 + 1}, {Name: "mem", T: t0 + 2}}, Subs: [][]int{{1, 0}}})
	// 6. altered shard duration: odd-sized group between old ones
	ds = append(ds, &desc{Nodes: 3, Replica: 1, SD: 3 * h, Hist: []histOp{{Op: "create", T: t0 + h}, {Op: "create", T: t0 + 4*h}, {Op: "sd", SD: 24 * h}},
		Points: []ptDesc{{Name: "cpu", T: t0 + 2*h}, {Name: "cpu", T: t0 + 2*h - 1}, {Name: "cpu", T: t0 + 5*h}, {Name: "cpu", T: t0}, {Name: "cpu", T: t0 - 1}}, Subs: [][]int{{4, 3, 2, 1, 0}, {2}}})
	// 7. finite policy: a too-old point alone and in company of an in-retention point of the same group
	now := time.Now().UnixNano()
	ds = append(ds, &desc{Base: now, Nodes: 2, Replica: 1, Duration: 24 * h, SD: 7 * 24 * h,
		Points: []ptDesc{{Name: "cpu", T: now - 24*h + 60e9}, {Name: "cpu", T: now - 24*h - 60e9}, {Name: "cpu", T: now}}, Subs: [][]int{{1}, {1, 0}, {2, 1}}})
	// 8. many shards: hash spreads series
	ds = append(ds, &desc{Nodes: 5, Replica: 1, SD: h, Points: []ptDesc{{Name: "cpu", T: t0}, {Name: "mem", T: t0}, {Name: "cpu", Tags: [][2]string{{"host", "a"}}, T: t0}, {Name: "cpu", Tags: [][2]string{{"host", "b"}}, T: t0},
		{Name: "cpu", T: t0 + 1}, {Name: "m", T: t0}}, Subs: [][]int{{5, 4, 3, 2, 1, 0}, {0}}})
	// 9. first representable instants: the group start is clamped to MinInt64; metadata goes through a marshal round trip
	ds = append(ds, &desc{Nodes: 2, Replica: 1, SD: 7 * 24 * h, RT: true, Hist: []histOp{{Op: "create", T: minNano + 5}},
		Points: []ptDesc{{Name: "cpu", T: minNano}, {Name: "cpu", T: minNano + 1}, {Name: "mem", T: minNano + 3*h}, {Name: "cpu", T: minNano + 7*24*h}}, Subs: [][]int{{3, 2, 1, 0}, {0}}})
	ds = append(ds, &desc{Nodes: 1, Replica: 1, SD: 1000, RT: true,
		Points: []ptDesc{{Name: "cpu", T: minNano}, {Name: "cpu", T: minNano + 1}, {Name: "cpu", T: minNano + 999}, {Name: "cpu", T: minNano + 1000}}, Subs: [][]int{{1}, {3, 0}}})
	// 10. pre-1970 group ending exactly at the Unix epoch (wire value 0), through a marshal round trip
	ds = append(ds, &desc{Nodes: 2, Replica: 1, SD: h, RT: true, Hist: []histOp{{Op: "create", T: -1}, {Op: "create", T: 0}},
		Points: []ptDesc{{Name: "cpu", T: -1}, {Name: "cpu", T: 0}, {Name: "cpu", T: -h}, {Name: "cpu", T: -h - 1}, {Name: "cpu", T: h - 1}}, Subs: [][]int{{0}, {1}, {4, 3, 2, 1, 0}}})
	// 11. group truncated exactly at the epoch, successor starting there, through a round trip
	ds = append(ds, &desc{Nodes: 2, Replica: 1, SD: 24 * h, RT: true, Hist: []histOp{{Op: "create", T: -5}, {Op: "trunc", T: 0}},
		Points: []ptDesc{{Name: "cpu", T: -5}, {Name: "cpu", T: 0}, {Name: "cpu", T: 5}}, Subs: [][]int{{1}, {2, 0}}})
	return ds
}

func main() {
	f := hx.ParseFlags()
	o := hx.NewOut(f.OutDir)
	defer o.Close()
	if f.In != "" {
		for _, in := range hx.ReadInputs(f.In) {
			if in.Kind == "key" {
				var kd keyDesc
				if err := json.Unmarshal(in.Desc, &kd); err != nil {
					panic(err)
				}
				runKeyCase(o, &kd, "replay")
				continue
			}
			var d desc
			if err := json.Unmarshal(in.Desc, &d); err != nil {
				panic(err)
			}
			runCase(o, &d, "replay", false) // kinds "map" and "rt" share the description
		}
		return
	}
	for _, d := range designed() {
		runCase(o, d, "designed", true)
	}
	for _, kd := range designedKeys() {
		runKeyCase(o, kd, "designed")
	}
	r := hx.NewRand(f.Seed)
	for i := 0; i < f.N; i++ {
		runCase(o, gen(r, o), "gen", true)
		if i%4 == 0 {
			runKeyCase(o, genKey(r), "gen")
		}
	}
}
