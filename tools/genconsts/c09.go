package main

import (
	"fmt"
	"go/ast"
	"go/token"
	"path/filepath"
	"strings"
)

// C09: limits of the TSM writer/compactor and structural facts of Compactor.compact,
// Compactor.WriteSnapshot, Compactor.writeNewFiles, FileStore.replace and TSMReader.remove
// that the Coq model (theories/C09/Model.v) is written against.
func init() {
	register("C09 tsdb/engine/tsm1 compactor + file store", func(b *strings.Builder) {
		tp := loadPkg(filepath.Join(*repo, "tsdb"))
		p := loadPkg(filepath.Join(*repo, "tsdb", "engine", "tsm1"))
		fmt.Fprintf(b, "Definition c09_default_max_points_per_block : Z := %s.\n", zlit(tp.intConst("DefaultMaxPointsPerBlock")))
		fmt.Fprintf(b, "Definition c09_max_index_entries : N := %s%%N.\n", p.intConst("maxIndexEntries"))
		fmt.Fprintf(b, "Definition c09_max_key_length : N := %s%%N.\n", p.intConst("maxKeyLength"))
		fmt.Fprintf(b, "Definition c09_max_tsm_file_size : N := %s%%N.\n", p.intConst("maxTSMFileSize"))

		// writeNewFiles: the loop body starts with sequence++ (file i gets sequence+i)
		wnf := p.funcDecl("writeNewFiles", "Compactor")
		incFirst := false
		ast.Inspect(wnf, func(n ast.Node) bool {
			fs, ok := n.(*ast.ForStmt)
			if !ok || incFirst {
				return true
			}
			if len(fs.Body.List) > 0 {
				if inc, ok := fs.Body.List[0].(*ast.IncDecStmt); ok && inc.Tok == token.INC && c09Expr(inc.X) == "sequence" {
					incFirst = true
				}
			}
			return true
		})
		if !incFirst {
			die("C09: Compactor.writeNewFiles no longer starts its loop with sequence++")
		}

		// WriteSnapshot: writeNewFiles(c.FileStore.NextGeneration(), <lit>, nil, iter, ...) and
		// NewCacheKeyIterator(sp, tsdb.DefaultMaxPointsPerBlock, ...)
		ws := p.funcDecl("WriteSnapshot", "Compactor")
		seq := ""
		nextGen := false
		defSize := false
		ast.Inspect(ws, func(n ast.Node) bool {
			c, ok := n.(*ast.CallExpr)
			if !ok {
				return true
			}
			switch c09Expr(c.Fun) {
			case "c.writeNewFiles":
				if len(c.Args) >= 2 {
					if lit, ok := c.Args[1].(*ast.BasicLit); ok && lit.Kind == token.INT {
						seq = lit.Value
					}
					nextGen = c09Expr(c.Args[0]) == "c.FileStore.NextGeneration()"
				}
			case "NewCacheKeyIterator":
				if len(c.Args) >= 2 && c09Expr(c.Args[1]) == "tsdb.DefaultMaxPointsPerBlock" {
					defSize = true
				}
			}
			return true
		})
		if seq == "" || !nextGen {
			die("C09: Compactor.WriteSnapshot no longer calls writeNewFiles(NextGeneration(), <literal>, ...)")
		}
		if !defSize {
			die("C09: Compactor.WriteSnapshot no longer cuts blocks at tsdb.DefaultMaxPointsPerBlock")
		}
		fmt.Fprintf(b, "Definition c09_snapshot_first_sequence : N := (%s + 1)%%N.\n", seq)

		// compact: size <= 0 -> DefaultMaxPointsPerBlock; writeNewFiles(maxGeneration, maxSequence, ...)
		cf := p.funcDecl("compact", "Compactor")
		sizeDefault, outName := false, false
		ast.Inspect(cf, func(n ast.Node) bool {
			switch x := n.(type) {
			case *ast.IfStmt:
				if c09Expr(x.Cond) == "size <= 0" && len(x.Body.List) == 1 {
					if as, ok := x.Body.List[0].(*ast.AssignStmt); ok && c09Expr(as.Rhs[0]) == "tsdb.DefaultMaxPointsPerBlock" {
						sizeDefault = true
					}
				}
			case *ast.CallExpr:
				if c09Expr(x.Fun) == "c.writeNewFiles" && len(x.Args) >= 2 &&
					c09Expr(x.Args[0]) == "maxGeneration" && c09Expr(x.Args[1]) == "maxSequence" {
					outName = true
				}
			}
			return true
		})
		if !sizeDefault || !outName {
			die("C09: Compactor.compact changed shape (size default %v, output name %v)", sizeDefault, outName)
		}

		// FileStore.replace: every os.Rename of a new file precedes the first Remove of an old file
		rf := p.funcDecl("replace", "FileStore")
		var firstRemove, lastInstallRename token.Pos
		ast.Inspect(rf, func(n ast.Node) bool {
			c, ok := n.(*ast.CallExpr)
			if !ok {
				return true
			}
			switch c09Expr(c.Fun) {
			case "os.Rename":
				if len(c.Args) == 2 && c09Expr(c.Args[0]) == "oldName" && c09Expr(c.Args[1]) == "newName" {
					if c.Pos() > lastInstallRename {
						lastInstallRename = c.Pos()
					}
				}
			case "file.Remove", "file.Rename":
				if firstRemove == 0 || c.Pos() < firstRemove {
					firstRemove = c.Pos()
				}
			}
			return true
		})
		if firstRemove == 0 || lastInstallRename == 0 {
			die("C09: FileStore.replace: rename of new files / removal of old files not found")
		}
		fmt.Fprintf(b, "Definition c09_replace_rename_before_remove : bool := %v.\n", lastInstallRename < firstRemove)

		// TSMReader.remove: the .tsm is removed before its tombstone file
		rm := p.funcDecl("remove", "TSMReader")
		var posTsm, posTomb token.Pos
		ast.Inspect(rm, func(n ast.Node) bool {
			c, ok := n.(*ast.CallExpr)
			if !ok {
				return true
			}
			switch c09Expr(c.Fun) {
			case "os.RemoveAll":
				posTsm = c.Pos()
			case "t.tombstoner.Delete":
				posTomb = c.Pos()
			}
			return true
		})
		if posTsm == 0 || posTomb == 0 {
			die("C09: TSMReader.remove: removal of data file / tombstone not found")
		}
		fmt.Fprintf(b, "Definition c09_remove_tsm_before_tombstone : bool := %v.\n", posTsm < posTomb)
	})
}

func c09Expr(e ast.Expr) string {
	switch x := e.(type) {
	case *ast.Ident:
		return x.Name
	case *ast.SelectorExpr:
		return c09Expr(x.X) + "." + x.Sel.Name
	case *ast.CallExpr:
		var args []string
		for _, a := range x.Args {
			args = append(args, c09Expr(a))
		}
		return c09Expr(x.Fun) + "(" + strings.Join(args, ", ") + ")"
	case *ast.BasicLit:
		return x.Value
	case *ast.BinaryExpr:
		return c09Expr(x.X) + " " + x.Op.String() + " " + c09Expr(x.Y)
	case *ast.ParenExpr:
		return "(" + c09Expr(x.X) + ")"
	case *ast.StarExpr:
		return "*" + c09Expr(x.X)
	case *ast.UnaryExpr:
		return x.Op.String() + c09Expr(x.X)
	}
	return "?"
}
