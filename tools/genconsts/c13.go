package main

import (
	"bufio"
	"fmt"
	"go/ast"
	"go/constant"
	"go/token"
	"os"
	"os/exec"
	"path/filepath"
	"strings"
)

// C13: simple8b selector tables (both the vendored jwilder package and pkg/encoding/simple8b),
// the order of the canPack cascade, pkg's numBits table, MaxValue, the encoding tags of
// the tsm1 codecs, the starting divisor of the timestamp encoders, block types and the
// WAL entry type bytes.

func jwilderDir() string {
	// version from /repo/go.mod, directory from the module cache
	f, err := os.Open(filepath.Join(*repo, "go.mod"))
	if err != nil {
		die("C13: cannot read go.mod: %v", err)
	}
	defer f.Close()
	ver := ""
	sc := bufio.NewScanner(f)
	for sc.Scan() {
		fs := strings.Fields(sc.Text())
		for i, w := range fs {
			if w == "github.com/jwilder/encoding" && i+1 < len(fs) {
				ver = fs[i+1]
			}
		}
	}
	if ver == "" {
		die("C13: github.com/jwilder/encoding not required by go.mod")
	}
	cache := os.Getenv("GOMODCACHE")
	if cache == "" {
		if out, err := exec.Command("go", "env", "GOMODCACHE").Output(); err == nil {
			cache = strings.TrimSpace(string(out))
		}
	}
	if cache == "" {
		cache = filepath.Join(os.Getenv("HOME"), "go", "pkg", "mod")
	}
	d := filepath.Join(cache, "github.com", "jwilder", "encoding@"+ver, "simple8b")
	if _, err := os.Stat(d); err != nil {
		die("C13: vendored simple8b not found at %s", d)
	}
	return d
}

func (p *pkgConsts) varValue(name string) ast.Expr {
	for _, f := range p.files {
		for _, d := range f.Decls {
			gd, ok := d.(*ast.GenDecl)
			if !ok || gd.Tok != token.VAR {
				continue
			}
			for _, s := range gd.Specs {
				vs := s.(*ast.ValueSpec)
				for j, n := range vs.Names {
					if n.Name == name && j < len(vs.Values) {
						return vs.Values[j]
					}
				}
			}
		}
	}
	die("C13: var %s not found", name)
	return nil
}

func (p *pkgConsts) evalInt(e ast.Expr) string {
	v, ok := p.eval(e, 0)
	if !ok {
		die("C13: cannot evaluate expression at %s", p.fset.Position(e.Pos()))
	}
	v = constant.ToInt(v)
	if v.Kind() != constant.Int {
		die("C13: not an integer at %s", p.fset.Position(e.Pos()))
	}
	return v.ExactString()
}

// selector table: [16]packing{packing{n, bit, unpackN, packN}, ...}
func (p *pkgConsts) selectorTable() [][2]string {
	cl, ok := p.varValue("selector").(*ast.CompositeLit)
	if !ok {
		die("C13: selector is not a composite literal")
	}
	var rows [][2]string
	for _, el := range cl.Elts {
		row, ok := el.(*ast.CompositeLit)
		if !ok || len(row.Elts) != 4 {
			die("C13: unexpected selector row")
		}
		n, b := p.evalInt(row.Elts[0]), p.evalInt(row.Elts[1])
		un, ok1 := row.Elts[2].(*ast.Ident)
		pk, ok2 := row.Elts[3].(*ast.Ident)
		if !ok1 || !ok2 || un.Name != "unpack"+n || pk.Name != "pack"+n {
			die("C13: selector row %s does not use unpack%s/pack%s", n, n, n)
		}
		rows = append(rows, [2]string{n, b})
	}
	return rows
}

// the if/else-if cascade of canPack(x, n, bits) calls inside fn, in order
func (p *pkgConsts) canPackChain(fn string) [][2]string {
	fd := p.funcDecl(fn, "")
	var rows [][2]string
	ast.Inspect(fd, func(n ast.Node) bool {
		c, ok := n.(*ast.CallExpr)
		if !ok {
			return true
		}
		if id, ok := c.Fun.(*ast.Ident); ok && id.Name == "canPack" && len(c.Args) == 3 {
			rows = append(rows, [2]string{p.evalInt(c.Args[1]), p.evalInt(c.Args[2])})
		}
		return true
	})
	if len(rows) == 0 {
		die("C13: no canPack cascade in %s", fn)
	}
	return rows
}

func pairList(rows [][2]string) string {
	var xs []string
	for _, r := range rows {
		xs = append(xs, fmt.Sprintf("(%s%%nat, %s%%N)", r[0], r[1]))
	}
	return "[ " + strings.Join(xs, "; ") + " ]"
}

// starting value of the divisor variable (named div or divisor) in fn
func (p *pkgConsts) startDivisor(fn, recv string) string {
	fd := p.funcDecl(fn, recv)
	res := ""
	take := func(names []string, vals []ast.Expr) {
		for i, n := range names {
			if (n == "div" || n == "divisor") && i < len(vals) && res == "" {
				res = p.evalInt(vals[i])
			}
		}
	}
	ast.Inspect(fd, func(n ast.Node) bool {
		switch s := n.(type) {
		case *ast.AssignStmt:
			var names []string
			for _, l := range s.Lhs {
				if id, ok := l.(*ast.Ident); ok {
					names = append(names, id.Name)
				} else {
					names = append(names, "")
				}
			}
			if len(s.Lhs) == len(s.Rhs) && (s.Tok == token.ASSIGN || s.Tok == token.DEFINE) {
				take(names, s.Rhs)
			}
		case *ast.ValueSpec:
			var names []string
			for _, id := range s.Names {
				names = append(names, id.Name)
			}
			if len(s.Names) == len(s.Values) {
				take(names, s.Values)
			}
		}
		return true
	})
	if res == "" {
		die("C13: starting divisor not found in %s", fn)
	}
	return res
}

func log10Exact(s string) int {
	k := 0
	for len(s) > 1 && strings.HasSuffix(s, "0") {
		s = s[:len(s)-1]
		k++
	}
	if s != "1" {
		die("C13: starting divisor is not a power of ten")
	}
	return k
}

func init() {
	register("C13 simple8b + tsm1 codecs + WAL framing", func(b *strings.Builder) {
		jw := loadPkg(jwilderDir())
		pk := loadPkg(filepath.Join(*repo, "pkg", "encoding", "simple8b"))
		ts := loadPkg(filepath.Join(*repo, "tsdb", "engine", "tsm1"))

		fmt.Fprintf(b, "Definition c13_jw_max_value : N := %s%%N.\n", jw.intConst("MaxValue"))
		fmt.Fprintf(b, "Definition c13_pkg_max_value : N := %s%%N.\n", pk.intConst("MaxValue"))
		fmt.Fprintf(b, "Definition c13_pkg_bit_size : N := %s%%N.\n", pk.intConst("S8B_BIT_SIZE"))
		fmt.Fprintf(b, "(* selector[sel] = (n, bits); row k uses unpack<n>/pack<n> (checked by the translator) *)\n")
		fmt.Fprintf(b, "Definition c13_jw_selector : list (nat * N) := %s.\n", pairList(jw.selectorTable()))
		fmt.Fprintf(b, "Definition c13_pkg_selector : list (nat * N) := %s.\n", pairList(pk.selectorTable()))
		fmt.Fprintf(b, "(* order of the canPack(src, n, bits) cascade *)\n")
		fmt.Fprintf(b, "Definition c13_jw_encode_chain : list (nat * N) := %s.\n", pairList(jw.canPackChain("Encode")))
		fmt.Fprintf(b, "Definition c13_jw_encodeall_chain : list (nat * N) := %s.\n", pairList(jw.canPackChain("EncodeAll")))
		fmt.Fprintf(b, "Definition c13_pkg_encode_chain : list (nat * N) := %s.\n", pairList(pk.canPackChain("Encode")))

		// numBits = [...][2]byte{{60,1},...}
		cl, ok := pk.varValue("numBits").(*ast.CompositeLit)
		if !ok {
			die("C13: numBits is not a composite literal")
		}
		var nb [][2]string
		for _, el := range cl.Elts {
			row, ok := el.(*ast.CompositeLit)
			if !ok || len(row.Elts) != 2 {
				die("C13: unexpected numBits row")
			}
			nb = append(nb, [2]string{pk.evalInt(row.Elts[0]), pk.evalInt(row.Elts[1])})
		}
		fmt.Fprintf(b, "(* pkg EncodeAll: numBits[code] = (n, bits), selector = code + 2 *)\n")
		fmt.Fprintf(b, "Definition c13_pkg_numbits : list (nat * N) := %s.\n", pairList(nb))

		for _, c := range []string{"timeUncompressed", "timeCompressedPackedSimple", "timeCompressedRLE",
			"intUncompressed", "intCompressedSimple", "intCompressedRLE",
			"booleanCompressedBitPacked", "stringCompressedSnappy", "floatCompressedGorilla", "uvnan",
			"float64EntryType", "integerEntryType", "booleanEntryType", "stringEntryType", "unsignedEntryType",
			"WriteWALEntryType", "DeleteWALEntryType", "DeleteRangeWALEntryType",
			"BlockFloat64", "BlockInteger", "BlockBoolean", "BlockString", "BlockUnsigned"} {
			fmt.Fprintf(b, "Definition c13_%s : N := %s%%N.\n", c, ts.intConst(c))
		}
		d1 := ts.startDivisor("reduce", "encoder")
		d2 := ts.startDivisor("TimeArrayEncodeAll", "")
		fmt.Fprintf(b, "(* starting divisor of the timestamp encoders = 10^k *)\n")
		fmt.Fprintf(b, "Definition c13_time_div_start_exp_iter : nat := %d%%nat. (* %s *)\n", log10Exact(d1), d1)
		fmt.Fprintf(b, "Definition c13_time_div_start_exp_batch : nat := %d%%nat. (* %s *)\n", log10Exact(d2), d2)
	})
}
