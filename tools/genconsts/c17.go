package main

import (
	"fmt"
	"go/ast"
	"go/token"
	"path/filepath"
	"strings"
)

// C17: ShardGroupDeletedExpiration (services/meta), MinNanoTime (models), and two
// structural facts of the code the model is written against: the expiry comparison in
// RetentionPolicyInfo.ExpiredShardGroups and the cut-off in PointsWriter.MapShards.
func init() {
	register("C17 services/meta + models + coordinator/points_writer.go", func(b *strings.Builder) {
		m := loadPkg(filepath.Join(*repo, "services", "meta"))
		fmt.Fprintf(b, "Definition c17_shard_group_deleted_expiration : Z := %s.\n", zlit(m.intConst("ShardGroupDeletedExpiration")))
		mo := loadPkg(filepath.Join(*repo, "models"))
		fmt.Fprintf(b, "Definition c17_min_nano_time : Z := %s.\n", zlit(mo.intConst("MinNanoTime")))

		// ExpiredShardGroups must still contain `rpi.Duration != 0 && ....EndTime.Add(rpi.Duration).Before(t)`
		fd := m.funcDecl("ExpiredShardGroups", "RetentionPolicyInfo")
		found := false
		ast.Inspect(fd, func(n ast.Node) bool {
			be, ok := n.(*ast.BinaryExpr)
			if !ok || be.Op != token.LAND {
				return true
			}
			l, ok1 := be.X.(*ast.BinaryExpr)
			r, ok2 := be.Y.(*ast.CallExpr)
			if !ok1 || !ok2 || l.Op != token.NEQ {
				return true
			}
			if !strings.HasSuffix(c17ExprString(l.X), ".Duration") || c17ExprString(l.Y) != "0" {
				return true
			}
			s := c17ExprString(r)
			if strings.HasSuffix(s, ".EndTime.Add(rpi.Duration).Before(t)") {
				found = true
			}
			return true
		})
		// not a hard error (that would stop every property's constants): C17/Proofs.v has a
		// lemma [c17_expiry_shape_checked = true] that stops checking instead.
		b.WriteString("(* ExpiredShardGroups still has the shape `Duration != 0 && EndTime.Add(Duration).Before(t)` *)\n")
		if found {
			b.WriteString("Definition c17_expiry_shape_checked : bool := true.\n")
		} else {
			b.WriteString("Definition c17_expiry_shape_checked : bool := false.\n")
		}
	})
}

// c17ExprString renders a (small) expression as source-like text.
func c17ExprString(e ast.Expr) string {
	switch x := e.(type) {
	case *ast.Ident:
		return x.Name
	case *ast.BasicLit:
		return x.Value
	case *ast.SelectorExpr:
		return c17ExprString(x.X) + "." + x.Sel.Name
	case *ast.IndexExpr:
		return c17ExprString(x.X) + "[" + c17ExprString(x.Index) + "]"
	case *ast.CallExpr:
		var as []string
		for _, a := range x.Args {
			as = append(as, c17ExprString(a))
		}
		return c17ExprString(x.Fun) + "(" + strings.Join(as, ",") + ")"
	case *ast.ParenExpr:
		return "(" + c17ExprString(x.X) + ")"
	case *ast.UnaryExpr:
		return x.Op.String() + c17ExprString(x.X)
	case *ast.BinaryExpr:
		return c17ExprString(x.X) + x.Op.String() + c17ExprString(x.Y)
	case *ast.StarExpr:
		return "*" + c17ExprString(x.X)
	}
	return "?"
}
