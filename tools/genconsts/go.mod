module genconsts

go 1.21
