package main

import (
	"fmt"
	"go/ast"
	"go/token"
	"path/filepath"
	"sort"
	"strconv"
	"strings"
)

// C07: the tables that decide whether a command envelope is accepted by validateCommand
// and whether storeFSM.Apply can apply it:
//   c07_enum_types     every value of internal.Command_Type
//   c07_validate_table the map literal commandExtensions (type -> extension field number)
//   c07_apply_ext      for every case of the switch in storeFSM.Apply: the extension field
//                      number the apply* function type-asserts (0: the function never looks
//                      at the extension)
// and two structural facts about Data.Clone / storeFSM.Snapshot that the model relies on.
func init() {
	register("C07 services/meta handler.go validateCommand + store_fsm.go", func(b *strings.Builder) {
		p := loadPkg(filepath.Join(*repo, "services", "meta"))
		pi := loadPkg(filepath.Join(*repo, "services", "meta", "internal"))

		// extension descriptors: var E_X_Command = &proto.ExtensionDesc{... Field: n ...}
		extField := map[string]string{}
		for _, f := range pi.files {
			for _, d := range f.Decls {
				gd, ok := d.(*ast.GenDecl)
				if !ok || gd.Tok != token.VAR {
					continue
				}
				for _, sp := range gd.Specs {
					vs := sp.(*ast.ValueSpec)
					if len(vs.Names) != 1 || len(vs.Values) != 1 || !strings.HasPrefix(vs.Names[0].Name, "E_") {
						continue
					}
					ast.Inspect(vs.Values[0], func(n ast.Node) bool {
						if kv, ok := n.(*ast.KeyValueExpr); ok {
							if k, ok := kv.Key.(*ast.Ident); ok && k.Name == "Field" {
								if bl, ok := kv.Value.(*ast.BasicLit); ok {
									extField[vs.Names[0].Name] = bl.Value
								}
							}
						}
						return true
					})
				}
			}
		}
		if len(extField) < 30 {
			die("C07: found only %d extension descriptors in services/meta/internal", len(extField))
		}

		// enum values
		var enum []int
		for name := range pi.values {
			if strings.HasPrefix(name, "Command_") && strings.HasSuffix(name, "Command") {
				n, err := strconv.Atoi(pi.intConst(name))
				if err != nil {
					die("C07: %s is not an integer", name)
				}
				enum = append(enum, n)
			}
		}
		sort.Ints(enum)
		var es []string
		for _, n := range enum {
			es = append(es, fmt.Sprintf("%d%%N", n))
		}
		fmt.Fprintf(b, "Definition c07_enum_types : list N := [%s].\n", strings.Join(es, "; "))

		// commandExtensions
		var lit *ast.CompositeLit
		for _, f := range p.files {
			for _, d := range f.Decls {
				gd, ok := d.(*ast.GenDecl)
				if !ok || gd.Tok != token.VAR {
					continue
				}
				for _, sp := range gd.Specs {
					vs := sp.(*ast.ValueSpec)
					if len(vs.Names) == 1 && vs.Names[0].Name == "commandExtensions" && len(vs.Values) == 1 {
						lit, _ = vs.Values[0].(*ast.CompositeLit)
					}
				}
			}
		}
		var rows []string
		if lit != nil {
			for _, e := range lit.Elts {
				kv, ok := e.(*ast.KeyValueExpr)
				if !ok {
					die("C07: commandExtensions: element is not key: value")
				}
				k, ok1 := kv.Key.(*ast.SelectorExpr)
				v, ok2 := kv.Value.(*ast.SelectorExpr)
				if !ok1 || !ok2 {
					die("C07: commandExtensions: entries must be internal.Command_X: internal.E_X_Command")
				}
				fld, ok := extField[v.Sel.Name]
				if !ok {
					die("C07: commandExtensions: unknown extension %s", v.Sel.Name)
				}
				rows = append(rows, fmt.Sprintf("(%s%%N, %s%%N) (* %s *)", pi.intConst(k.Sel.Name), fld, strings.TrimPrefix(k.Sel.Name, "Command_")))
			}
		}
		// (absent table = validateCommand checks nothing beyond proto.Unmarshal: empty list
		// and c07_validate_checks_ext = false)
		vc := p.funcDecl("validateCommand", "")
		checks := vc != nil && containsCall(vc, "GetExtension") && lit != nil
		fmt.Fprintf(b, "Definition c07_validate_checks_ext : bool := %v.\n", checks)
		b.WriteString("Definition c07_validate_table : list (N * N) :=\n  [ " + strings.Join(rows, "\n  ; ") + " ].\n")

		// the switch of storeFSM.Apply: type -> extension asserted by the apply function
		ap := p.funcDecl("Apply", "storeFSM")
		var sw *ast.SwitchStmt
		ast.Inspect(ap, func(n ast.Node) bool {
			if s, ok := n.(*ast.SwitchStmt); ok && sw == nil && containsCall(s.Tag, "GetType") {
				sw = s
			}
			return true
		})
		if sw == nil {
			die("C07: storeFSM.Apply: switch cmd.GetType() not found")
		}
		var arows []string
		for _, st := range sw.Body.List {
			cc := st.(*ast.CaseClause)
			if cc.List == nil {
				continue
			}
			// the apply function called in this arm
			fn := ""
			ast.Inspect(cc, func(n ast.Node) bool {
				if c, ok := n.(*ast.CallExpr); ok {
					if s, ok := c.Fun.(*ast.SelectorExpr); ok && strings.HasPrefix(s.Sel.Name, "apply") {
						fn = s.Sel.Name
					}
				}
				return true
			})
			if fn == "" {
				die("C07: storeFSM.Apply: a case arm calls no apply* function")
			}
			fd := p.funcDecl(fn, "storeFSM")
			if fd == nil {
				die("C07: %s not found", fn)
			}
			ext := ""
			asserted := false
			ast.Inspect(fd, func(n ast.Node) bool {
				switch x := n.(type) {
				case *ast.CallExpr:
					if s, ok := x.Fun.(*ast.SelectorExpr); ok && s.Sel.Name == "GetExtension" && len(x.Args) == 2 {
						if a, ok := x.Args[1].(*ast.SelectorExpr); ok {
							ext = a.Sel.Name
						}
					}
				case *ast.TypeAssertExpr:
					asserted = true
				}
				return true
			})
			fld := "0"
			if ext != "" {
				if !asserted {
					die("C07: %s reads an extension without a type assertion; the model assumes ext.(*internal.X)", fn)
				}
				f, ok := extField[ext]
				if !ok {
					die("C07: %s uses unknown extension %s", fn, ext)
				}
				fld = f
			}
			for _, e := range cc.List {
				sel := e.(*ast.SelectorExpr)
				arows = append(arows, fmt.Sprintf("(%s%%N, %s%%N) (* %s *)", pi.intConst(sel.Sel.Name), fld, fn))
			}
		}
		b.WriteString("Definition c07_apply_ext : list (N * N) :=\n  [ " + strings.Join(arows, "\n  ; ") + " ].\n")

		// Data.Clone copies the node lists; storeFSM.Snapshot clones
		cl := p.funcDecl("Clone", "Data")
		deep := 0
		ast.Inspect(cl, func(n ast.Node) bool {
			if as, ok := n.(*ast.AssignStmt); ok && len(as.Lhs) == 1 && len(as.Rhs) == 1 {
				if s, ok := as.Lhs[0].(*ast.SelectorExpr); ok && (s.Sel.Name == "MetaNodes" || s.Sel.Name == "DataNodes") {
					if _, isCall := as.Rhs[0].(*ast.CallExpr); isCall {
						deep++
					}
				}
			}
			return true
		})
		fmt.Fprintf(b, "Definition c07_clone_copies_node_lists : bool := %v.\n", deep == 2)
		// every slice- or map-typed field of every struct reachable from Data is assigned a copy
		// in the struct's clone method (Data.Clone, T.clone): the model treats everything a
		// *Data reaches as owned by that value
		structs := map[string]*ast.StructType{}
		for _, f := range p.files {
			for _, d := range f.Decls {
				gd, ok := d.(*ast.GenDecl)
				if !ok || gd.Tok != token.TYPE {
					continue
				}
				for _, sp := range gd.Specs {
					ts := sp.(*ast.TypeSpec)
					if st, ok := ts.Type.(*ast.StructType); ok {
						structs[ts.Name.Name] = st
					}
				}
			}
		}
		var elemIdent func(e ast.Expr) string
		elemIdent = func(e ast.Expr) string {
			switch x := e.(type) {
			case *ast.Ident:
				return x.Name
			case *ast.ArrayType:
				return elemIdent(x.Elt)
			case *ast.MapType:
				return elemIdent(x.Value)
			case *ast.StarExpr:
				return elemIdent(x.X)
			}
			return ""
		}
		cloneOf := func(T string) *ast.FuncDecl {
			want := "clone"
			if T == "Data" {
				want = "Clone"
			}
			for _, f := range p.files {
				for _, d := range f.Decls {
					fd, ok := d.(*ast.FuncDecl)
					if !ok || fd.Name.Name != want || fd.Recv == nil || len(fd.Recv.List) != 1 {
						continue
					}
					t := fd.Recv.List[0].Type
					if st, ok := t.(*ast.StarExpr); ok {
						t = st.X
					}
					if id, ok := t.(*ast.Ident); ok && id.Name == T {
						return fd
					}
				}
			}
			return nil
		}
		if _, ok := structs["Data"]; !ok {
			die("C07: type Data not found")
		}
		seen := map[string]bool{"Data": true}
		queue := []string{"Data"}
		var crow []string
		allDeep := true
		for len(queue) > 0 {
			T := queue[0]
			queue = queue[1:]
			fd := cloneOf(T)
			for _, fl := range structs[T].Fields.List {
				if n := elemIdent(fl.Type); n != "" {
					if _, ok := structs[n]; ok && !seen[n] {
						seen[n] = true
						queue = append(queue, n)
					}
				}
				_, isSlice := fl.Type.(*ast.ArrayType)
				_, isMap := fl.Type.(*ast.MapType)
				if !isSlice && !isMap {
					continue
				}
				for _, nm := range fl.Names {
					copied := false
					if fd != nil {
						ast.Inspect(fd, func(n ast.Node) bool {
							if as, ok := n.(*ast.AssignStmt); ok {
								for _, l := range as.Lhs {
									if s, ok := l.(*ast.SelectorExpr); ok && s.Sel.Name == nm.Name {
										if id, ok := s.X.(*ast.Ident); ok && id.Name == "other" {
											copied = true
										}
									}
								}
							}
							return true
						})
					}
					if !copied {
						allDeep = false
					}
					crow = append(crow, fmt.Sprintf("(* %s.%s *) %v", T, nm.Name, copied))
				}
			}
		}
		sort.Strings(crow)
		if len(crow) < 8 {
			die("C07: found only %d slice/map fields reachable from Data", len(crow))
		}
		b.WriteString("Definition c07_clone_fields_copied : list bool :=\n  [ " + strings.Join(crow, "\n  ; ") + " ].\n")
		fmt.Fprintf(b, "Definition c07_clone_all_deep : bool := %v.\n", allDeep)
		// store.remove resets its own store exactly when "len(s.peers()) <= 1" (raft peers,
		// which still contain the node being removed), not from the meta-node list that the
		// DeleteMetaNodeCommand has already shrunk
		rm := p.funcDecl("remove", "store")
		byPeers := false
		ast.Inspect(rm, func(n ast.Node) bool {
			is, ok := n.(*ast.IfStmt)
			if !ok || !containsCall(is.Body, "reset") {
				return true
			}
			if be, ok := is.Cond.(*ast.BinaryExpr); ok && be.Op == token.LEQ {
				if lit, ok := be.Y.(*ast.BasicLit); ok && lit.Value == "1" {
					if c, ok := be.X.(*ast.CallExpr); ok && len(c.Args) == 1 {
						if id, ok := c.Fun.(*ast.Ident); ok && id.Name == "len" {
							if c2, ok := c.Args[0].(*ast.CallExpr); ok {
								if se, ok := c2.Fun.(*ast.SelectorExpr); ok && se.Sel.Name == "peers" {
									byPeers = true
								}
							}
						}
					}
				}
			}
			return true
		})
		fmt.Fprintf(b, "Definition c07_remove_resets_by_raft_peers : bool := %v.\n", byPeers)
		sn := p.funcDecl("Snapshot", "storeFSM")
		fmt.Fprintf(b, "Definition c07_snapshot_clones : bool := %v.\n", sn != nil && containsCall(sn, "Clone"))
	})
}
