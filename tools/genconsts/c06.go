package main

import (
	"fmt"
	"go/ast"
	"go/constant"
	"go/token"
	"path/filepath"
	"strings"
)

// C06: constants of services/meta/data.go, the command-type list of the switch in
// storeFSM.Apply (with the numeric values of internal.Command_Type), models.MaxNanoTime and
// the thresholds/results of shardGroupDuration.
func init() {
	register("C06 services/meta data.go + store_fsm.go", func(b *strings.Builder) {
		p := loadPkg(filepath.Join(*repo, "services", "meta"))
		pi := loadPkg(filepath.Join(*repo, "services", "meta", "internal"))
		pm := loadPkg(filepath.Join(*repo, "models"))
		fmt.Fprintf(b, "Definition c06_max_name_len : N := %s%%N.\n", p.intConst("MaxNameLen"))
		fmt.Fprintf(b, "Definition c06_min_rp_duration : Z := %s.\n", zlit(p.intConst("MinRetentionPolicyDuration")))
		fmt.Fprintf(b, "Definition c06_max_auto_replica : N := %s%%N.\n", p.intConst("MaxAutoCreatedRetentionPolicyReplicaN"))
		fmt.Fprintf(b, "Definition c06_default_rp_replica : N := %s%%N.\n", p.intConst("DefaultRetentionPolicyReplicaN"))
		fmt.Fprintf(b, "Definition c06_default_rp_duration : Z := %s.\n", zlit(p.intConst("DefaultRetentionPolicyDuration")))
		v, ok := p.values["DefaultRetentionPolicyName"]
		if !ok || v.Kind() != constant.String {
			die("DefaultRetentionPolicyName is not a string constant")
		}
		var bs []string
		for _, c := range []byte(constant.StringVal(v)) {
			bs = append(bs, fmt.Sprintf("%d%%N", c))
		}
		fmt.Fprintf(b, "Definition c06_default_rp_name : list N := [%s]. (* %q *)\n", strings.Join(bs, "; "), constant.StringVal(v))
		fmt.Fprintf(b, "Definition c06_max_nano_time : Z := %s.\n", zlit(pm.intConst("MaxNanoTime")))

		// shardGroupDuration: thresholds of the >= tests and returned values, in source order
		fd := p.funcDecl("shardGroupDuration", "")
		var thr, rets []string
		ast.Inspect(fd, func(n ast.Node) bool {
			switch x := n.(type) {
			case *ast.BinaryExpr:
				if x.Op == token.GEQ {
					if v, ok := p.eval(x.Y, 0); ok {
						thr = append(thr, constant.ToInt(v).ExactString())
					}
				}
			case *ast.ReturnStmt:
				if len(x.Results) == 1 {
					if v, ok := p.eval(x.Results[0], 0); ok {
						rets = append(rets, constant.ToInt(v).ExactString())
					}
				}
			}
			return true
		})
		if len(thr) != 2 || len(rets) != 3 {
			die("shardGroupDuration: expected 2 '>=' thresholds and 3 returns, got %d and %d", len(thr), len(rets))
		}
		fmt.Fprintf(b, "Definition c06_sgd_thr_long : Z := %s.\nDefinition c06_sgd_thr_mid : Z := %s.\n", zlit(thr[0]), zlit(thr[1]))
		fmt.Fprintf(b, "Definition c06_sgd_long : Z := %s.\nDefinition c06_sgd_mid : Z := %s.\nDefinition c06_sgd_short : Z := %s.\n", zlit(rets[0]), zlit(rets[1]), zlit(rets[2]))

		// the switch of storeFSM.Apply
		ap := p.funcDecl("Apply", "storeFSM")
		var sw *ast.SwitchStmt
		ast.Inspect(ap, func(n ast.Node) bool {
			if s, ok := n.(*ast.SwitchStmt); ok && sw == nil {
				if containsCall(s.Tag, "GetType") {
					sw = s
				}
			}
			return true
		})
		if sw == nil {
			die("storeFSM.Apply: switch cmd.GetType() not found")
		}
		var rows []string
		hasDefaultPanic := false
		for _, st := range sw.Body.List {
			cc := st.(*ast.CaseClause)
			if cc.List == nil {
				hasDefaultPanic = containsCall(cc, "panic")
				continue
			}
			for _, e := range cc.List {
				sel, ok := e.(*ast.SelectorExpr)
				if !ok {
					die("storeFSM.Apply: case label is not internal.Command_X")
				}
				rows = append(rows, fmt.Sprintf("%s%%N (* %s *)", pi.intConst(sel.Sel.Name), strings.TrimPrefix(sel.Sel.Name, "Command_")))
			}
		}
		if !hasDefaultPanic {
			die("storeFSM.Apply: default arm no longer panics; model assumes unknown types are not applied")
		}
		b.WriteString("Definition c06_apply_switch : list N :=\n  [ " + strings.Join(rows, "\n  ; ") + " ].\n")
		// Apply stamps Term and Index after the command, whatever its result
		stamps := 0
		ast.Inspect(ap, func(n ast.Node) bool {
			if as, ok := n.(*ast.AssignStmt); ok && len(as.Lhs) == 1 {
				if s, ok := as.Lhs[0].(*ast.SelectorExpr); ok && (s.Sel.Name == "Term" || s.Sel.Name == "Index") {
					stamps++
				}
			}
			return true
		})
		if stamps != 2 {
			die("storeFSM.Apply: expected the two stamps fsm.data.Term/Index")
		}
	})
}
