// genconsts: translator Go AST -> coq/gen/Consts.v.
//
// Re-reads, on every check run, the constants and tables of /repo's working tree that
// the Coq theorems are parameterised by.  Stdlib only (go/parser, go/ast, go/constant).
// A constant or table that can no longer be found is a hard error: the tie to the
// source is broken and the caller reports it.
package main

import (
	"flag"
	"fmt"
	"go/ast"
	"go/constant"
	"go/parser"
	"go/token"
	"os"
	"path/filepath"
	"sort"
	"strings"
)

var repo = flag.String("repo", "/repo", "repository root")
var out = flag.String("out", "", "output file (default stdout)")

type pkgConsts struct {
	fset   *token.FileSet
	files  []*ast.File
	values map[string]constant.Value
}

var timeConsts = map[string]int64{
	"Nanosecond": 1, "Microsecond": 1000, "Millisecond": 1000000,
	"Second": 1000000000, "Minute": 60000000000, "Hour": 3600000000000,
}

var mathConsts = map[string]constant.Value{
	"MaxInt64":  constant.MakeInt64(1<<63 - 1),
	"MinInt64":  constant.MakeInt64(-1 << 63),
	"MaxUint64": constant.MakeUint64(1<<64 - 1),
	"MaxInt32":  constant.MakeInt64(1<<31 - 1),
	"MaxUint32": constant.MakeInt64(1<<32 - 1),
	"MaxUint16": constant.MakeInt64(1<<16 - 1),
}

func loadPkg(dir string) *pkgConsts {
	fset := token.NewFileSet()
	ents, err := os.ReadDir(dir)
	if err != nil {
		die("cannot read %s: %v", dir, err)
	}
	p := &pkgConsts{fset: fset, values: map[string]constant.Value{}}
	for _, e := range ents {
		n := e.Name()
		if !strings.HasSuffix(n, ".go") || strings.HasSuffix(n, "_test.go") {
			continue
		}
		f, err := parser.ParseFile(fset, filepath.Join(dir, n), nil, parser.ParseComments)
		if err != nil {
			die("parse %s: %v", n, err)
		}
		// skip files guarded by the verif tag (hooks) so they cannot shadow real code
		skip := false
		for _, cg := range f.Comments {
			for _, c := range cg.List {
				if strings.HasPrefix(c.Text, "//go:build") && strings.Contains(c.Text, "verif") && !strings.Contains(c.Text, "!verif") {
					skip = true
				}
			}
		}
		if skip {
			continue
		}
		p.files = append(p.files, f)
	}
	// evaluate const decls; iterate to a fixpoint for forward references
	for pass := 0; pass < 4; pass++ {
		for _, f := range p.files {
			for _, d := range f.Decls {
				gd, ok := d.(*ast.GenDecl)
				if !ok || gd.Tok != token.CONST {
					continue
				}
				var lastExprs []ast.Expr
				for i, s := range gd.Specs {
					vs := s.(*ast.ValueSpec)
					exprs := vs.Values
					if len(exprs) == 0 {
						exprs = lastExprs
					} else {
						lastExprs = exprs
					}
					for j, name := range vs.Names {
						if j >= len(exprs) {
							continue
						}
						if v, ok := p.eval(exprs[j], int64(i)); ok {
							p.values[name.Name] = v
						}
					}
				}
			}
		}
	}
	return p
}

func (p *pkgConsts) eval(e ast.Expr, iota int64) (constant.Value, bool) {
	switch x := e.(type) {
	case *ast.BasicLit:
		v := constant.MakeFromLiteral(x.Value, x.Kind, 0)
		return v, v.Kind() != constant.Unknown
	case *ast.Ident:
		if x.Name == "iota" {
			return constant.MakeInt64(iota), true
		}
		if x.Name == "true" {
			return constant.MakeBool(true), true
		}
		if x.Name == "false" {
			return constant.MakeBool(false), true
		}
		v, ok := p.values[x.Name]
		return v, ok
	case *ast.ParenExpr:
		return p.eval(x.X, iota)
	case *ast.UnaryExpr:
		v, ok := p.eval(x.X, iota)
		if !ok {
			return nil, false
		}
		return constant.UnaryOp(x.Op, v, 0), true
	case *ast.BinaryExpr:
		a, ok1 := p.eval(x.X, iota)
		b, ok2 := p.eval(x.Y, iota)
		if !ok1 || !ok2 {
			return nil, false
		}
		if x.Op == token.SHL || x.Op == token.SHR {
			s, _ := constant.Uint64Val(b)
			return constant.Shift(a, x.Op, uint(s)), true
		}
		if x.Op == token.QUO && a.Kind() == constant.Int && b.Kind() == constant.Int {
			return constant.BinaryOp(a, token.QUO_ASSIGN, b), true
		}
		return constant.BinaryOp(a, x.Op, b), true
	case *ast.SelectorExpr:
		if id, ok := x.X.(*ast.Ident); ok {
			if id.Name == "time" {
				if v, ok := timeConsts[x.Sel.Name]; ok {
					return constant.MakeInt64(v), true
				}
			}
			if id.Name == "math" {
				if v, ok := mathConsts[x.Sel.Name]; ok {
					return v, true
				}
			}
		}
		return nil, false
	case *ast.CallExpr:
		// conversion T(x)
		if len(x.Args) == 1 {
			return p.eval(x.Args[0], iota)
		}
	}
	return nil, false
}

func (p *pkgConsts) intConst(name string) string {
	v, ok := p.values[name]
	if !ok {
		die("constant %s not found", name)
	}
	v = constant.ToInt(v)
	if v.Kind() != constant.Int {
		die("constant %s is not an integer: %s", name, v)
	}
	return v.ExactString()
}

func (p *pkgConsts) funcDecl(name, recv string) *ast.FuncDecl {
	for _, f := range p.files {
		for _, d := range f.Decls {
			fd, ok := d.(*ast.FuncDecl)
			if !ok || fd.Name.Name != name {
				continue
			}
			if recv == "" && fd.Recv == nil {
				return fd
			}
			if recv != "" && fd.Recv != nil && len(fd.Recv.List) == 1 {
				t := fd.Recv.List[0].Type
				if st, ok := t.(*ast.StarExpr); ok {
					t = st.X
				}
				if id, ok := t.(*ast.Ident); ok && id.Name == recv {
					return fd
				}
			}
		}
	}
	die("func %s.%s not found", recv, name)
	return nil
}

func die(f string, a ...interface{}) {
	fmt.Fprintf(os.Stderr, "genconsts: "+f+"\n", a...)
	os.Exit(2)
}

func zlit(s string) string {
	if strings.HasPrefix(s, "-") {
		return "(" + s + ")%Z"
	}
	return s + "%Z"
}

// containsCall reports whether node contains a call to a function named fn.
func containsCall(n ast.Node, fn string) bool {
	found := false
	ast.Inspect(n, func(x ast.Node) bool {
		if c, ok := x.(*ast.CallExpr); ok {
			switch f := c.Fun.(type) {
			case *ast.Ident:
				if f.Name == fn {
					found = true
				}
			case *ast.SelectorExpr:
				if f.Sel.Name == fn {
					found = true
				}
			}
		}
		return true
	})
	return found
}

type section struct {
	name string
	gen  func(b *strings.Builder)
}

var sections []section

func register(name string, gen func(b *strings.Builder)) {
	sections = append(sections, section{name, gen})
}

func main() {
	flag.Parse()
	var b strings.Builder
	b.WriteString("(* GENERATED by tools/genconsts from /repo's working tree. Do not edit. *)\n")
	b.WriteString("From Coq Require Import List NArith ZArith.\nImport ListNotations.\n\n")
	sort.SliceStable(sections, func(i, j int) bool { return sections[i].name < sections[j].name })
	for _, s := range sections {
		fmt.Fprintf(&b, "(* ---- %s ---- *)\n", s.name)
		s.gen(&b)
		b.WriteString("\n")
	}
	if *out == "" {
		fmt.Print(b.String())
		return
	}
	old, _ := os.ReadFile(*out)
	if string(old) == b.String() {
		return // unchanged: keep mtime so make stays incremental
	}
	if err := os.WriteFile(*out, []byte(b.String()), 0644); err != nil {
		die("%v", err)
	}
}
