package main

import (
	"fmt"
	"go/ast"
	"path/filepath"
	"strings"
)

// C03: the ConsistencyLevel enum of models/consistency.go (the model's `required`
// switches on these values exactly like writeToShardWithContext).
func init() {
	register("C03 models/consistency.go", func(b *strings.Builder) {
		p := loadPkg(filepath.Join(*repo, "models"))
		for _, c := range [][2]string{{"consistency_any", "ConsistencyLevelAny"}, {"consistency_one", "ConsistencyLevelOne"},
			{"consistency_quorum", "ConsistencyLevelQuorum"}, {"consistency_all", "ConsistencyLevelAll"}} {
			fmt.Fprintf(b, "Definition %s : N := %s%%N.\n", c[0], p.intConst(c[1]))
		}
		// the line-protocol and Prometheus write handlers: `consistency := models.ConsistencyLevelOne` then, for a non-empty
		// parameter, `consistency, err = models.ParseConsistencyLevel(level)`
		h := loadPkg(filepath.Join(*repo, "services", "httpd"))
		ok := true
		for _, fn := range []string{"serveWrite", "servePromWrite"} {
			fd := h.funcDecl(fn, "Handler")
			def, parse := false, false
			ast.Inspect(fd, func(n ast.Node) bool {
				switch x := n.(type) {
				case *ast.AssignStmt:
					if len(x.Lhs) == 1 && len(x.Rhs) == 1 && c17ExprString(x.Lhs[0]) == "consistency" && c17ExprString(x.Rhs[0]) == "models.ConsistencyLevelOne" {
						def = true
					}
				case *ast.CallExpr:
					if c17ExprString(x.Fun) == "models.ParseConsistencyLevel" {
						parse = true
					}
				}
				return true
			})
			if !def || !parse {
				ok = false
			}
		}
		writeBool(b, "c03_handler_level_shape", ok)
	})
}
