package main

import (
	"fmt"
	"path/filepath"
	"strings"
)

// C03: the ConsistencyLevel enum of models/consistency.go (the model's `required`
// switches on these values exactly like writeToShardWithContext).
func init() {
	register("C03 models/consistency.go", func(b *strings.Builder) {
		p := loadPkg(filepath.Join(*repo, "models"))
		for _, c := range [][2]string{{"consistency_any", "ConsistencyLevelAny"}, {"consistency_one", "ConsistencyLevelOne"},
			{"consistency_quorum", "ConsistencyLevelQuorum"}, {"consistency_all", "ConsistencyLevelAll"}} {
			fmt.Fprintf(b, "Definition %s : N := %s%%N.\n", c[0], p.intConst(c[1]))
		}
	})
}
