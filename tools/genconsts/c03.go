package main

import (
	"fmt"
	"go/ast"
	"path/filepath"
	"strings"
)

// C03: the ConsistencyLevel enum of models/consistency.go (the model's `required`
// switches on these values exactly like writeToShardWithContext).
func init() {
	register("C03 models/consistency.go", func(b *strings.Builder) {
		p := loadPkg(filepath.Join(*repo, "models"))
		for _, c := range [][2]string{{"consistency_any", "ConsistencyLevelAny"}, {"consistency_one", "ConsistencyLevelOne"},
			{"consistency_quorum", "ConsistencyLevelQuorum"}, {"consistency_all", "ConsistencyLevelAll"}} {
			fmt.Fprintf(b, "Definition %s : N := %s%%N.\n", c[0], p.intConst(c[1]))
		}
		// the line-protocol and Prometheus write handlers: `consistency := models.ConsistencyLevelOne` then, for a non-empty
		// parameter, `consistency, err = models.ParseConsistencyLevel(level)`
		h := loadPkg(filepath.Join(*repo, "services", "httpd"))
		ok := true
		for _, fn := range []string{"serveWrite", "servePromWrite"} {
			fd := h.funcDecl(fn, "Handler")
			def, parse := false, false
			ast.Inspect(fd, func(n ast.Node) bool {
				switch x := n.(type) {
				case *ast.AssignStmt:
					if len(x.Lhs) == 1 && len(x.Rhs) == 1 && c17ExprString(x.Lhs[0]) == "consistency" && c17ExprString(x.Rhs[0]) == "models.ConsistencyLevelOne" {
						def = true
					}
				case *ast.CallExpr:
					if c17ExprString(x.Fun) == "models.ParseConsistencyLevel" {
						parse = true
					}
				}
				return true
			})
			if !def || !parse {
				ok = false
			}
		}
		writeBool(b, "c03_handler_level_shape", ok)

		// services/hh: the footer of a segment file (initial disk usage of a fresh queue) and the two
		// refusals the handoff model (theories/C03/Handoff.v) mirrors:
		//   Service.WriteShard:  if !s.cfg.Enabled { return ErrHintedHandoffDisabled }
		//   queue.Append:        if l.diskUsage()+int64(len(b)) > l.maxSize { return ErrQueueFull }
		q := loadPkg(filepath.Join(*repo, "services", "hh"))
		fmt.Fprintf(b, "Definition c03_hh_footer_size : N := %s%%N.\n", q.intConst("footerSize"))
		ifReturns := func(fd *ast.FuncDecl, cond, ret string) bool {
			found := false
			if fd == nil {
				return false
			}
			ast.Inspect(fd, func(n ast.Node) bool {
				is, ok := n.(*ast.IfStmt)
				if !ok || c17ExprString(is.Cond) != cond || len(is.Body.List) != 1 {
					return true
				}
				if rs, ok := is.Body.List[0].(*ast.ReturnStmt); ok && len(rs.Results) == 1 && c17ExprString(rs.Results[0]) == ret {
					found = true
				}
				return true
			})
			return found
		}
		writeBool(b, "c03_hh_refusal_shape",
			ifReturns(q.funcDecl("WriteShard", "Service"), "!s.cfg.Enabled", "ErrHintedHandoffDisabled") &&
				ifReturns(q.funcDecl("Append", "queue"), "l.diskUsage()+int64(len(b))>l.maxSize", "ErrQueueFull"))

		// coordinator/shard_writer.go WriteShardBinary: a failed read of the reply marks the connection unusable
		// before returning (theories/C03/Remote.v, keep = false)
		cw := loadPkg(filepath.Join(*repo, "coordinator"))
		marks := false
		if fd := cw.funcDecl("WriteShardBinary", "ShardWriter"); fd != nil {
			for i, st := range fd.Body.List {
				as, ok := st.(*ast.AssignStmt)
				if !ok || len(as.Rhs) != 1 || !strings.HasPrefix(c17ExprString(as.Rhs[0]), "ReadTLVT(") || i+1 >= len(fd.Body.List) {
					continue
				}
				is, ok := fd.Body.List[i+1].(*ast.IfStmt)
				if !ok || c17ExprString(is.Cond) != "err!=nil" || len(is.Body.List) < 2 {
					continue
				}
				if es, ok := is.Body.List[0].(*ast.ExprStmt); ok && c17ExprString(es.X) == "MarkUnusable(conn)" {
					marks = true
				}
			}
		}
		writeBool(b, "c03_shard_writer_discards_after_read_error", marks)
	})
}
