package main

import (
	"fmt"
	"go/ast"
	"go/constant"
	"go/token"
	"path/filepath"
	"strings"
)

// C18: file-name extensions the restore path tests member names against
// (tsdb/engine/tsm1), the block size of a cache snapshot (tsdb), and three structural
// facts of the code the model is written against: readFileFromBackup also accepts
// tombstone members, overlay checks the end-of-archive marker, the since filter is a strict
// ModTime().After(since).
func init() {
	register("C18 tsdb/engine/tsm1 engine.go + pkg/tar/stream.go", func(b *strings.Builder) {
		t := loadPkg(filepath.Join(*repo, "tsdb", "engine", "tsm1"))
		str := func(name string) string {
			v, ok := t.values[name]
			if !ok || v.Kind() != constant.String {
				die("string constant %s not found", name)
			}
			s := constant.StringVal(v)
			var items []string
			for _, c := range []byte(s) {
				items = append(items, fmt.Sprintf("%d%%N", c))
			}
			return fmt.Sprintf("[%s]. (* %q *)", strings.Join(items, "; "), s)
		}
		fmt.Fprintf(b, "Definition c18_tsm_ext : list N := %s\n", str("TSMFileExtension"))
		fmt.Fprintf(b, "Definition c18_tombstone_ext : list N := %s\n", str("TombstoneFileExtension"))
		fmt.Fprintf(b, "Definition c18_tmp_ext : list N := %s\n", str("TmpTSMFileExtension"))
		d := loadPkg(filepath.Join(*repo, "tsdb"))
		fmt.Fprintf(b, "Definition c18_max_points_per_block : N := %s%%N.\n", d.intConst("DefaultMaxPointsPerBlock"))

		mentions := func(fd *ast.FuncDecl, ident string) bool {
			found := false
			ast.Inspect(fd, func(n ast.Node) bool {
				if id, ok := n.(*ast.Ident); ok && id.Name == ident {
					found = true
				}
				return true
			})
			return found
		}
		flag := func(name string, v bool) {
			if v {
				fmt.Fprintf(b, "Definition %s : bool := true.\n", name)
			} else {
				fmt.Fprintf(b, "Definition %s : bool := false.\n", name)
			}
		}
		// not hard errors: C18/Proofs.v has a lemma stating all three are true
		flag("c18_restore_accepts_tombstones", mentions(t.funcDecl("readFileFromBackup", "Engine"), "TombstoneFileExtension"))
		flag("c18_restore_checks_end_marker", containsCall(t.funcDecl("overlay", "Engine"), "sawEndMarker"))
		tp := loadPkg(filepath.Join(*repo, "pkg", "tar"))
		flag("c18_since_is_strict_after", containsCall(tp.funcDecl("SinceFilterTarFile", ""), "After"))
		// tar.Stream closes the tar writer (end-of-archive marker) only after a complete walk: no deferred call
		deferred := false
		ast.Inspect(tp.funcDecl("Stream", ""), func(n ast.Node) bool {
			if _, ok := n.(*ast.DeferStmt); ok {
				deferred = true
			}
			return true
		})
		flag("c18_stream_marker_only_on_success", !deferred && containsCall(tp.funcDecl("Stream", ""), "Close"))
		// meta handler serveCopyShard: the owner command (store.copyShard) is issued only after the
		// CopyShard RPC has returned without error - the model's copy_shard has this order, and
		// failed_copy_not_advertised depends on it: both calls present, the RPC first, and a
		// return between them (the error exit of the RPC)
		mp := loadPkg(filepath.Join(*repo, "services", "meta"))
		var posRPC, posOwner token.Pos
		retBetween := false
		sc := mp.funcDecl("serveCopyShard", "handler")
		ast.Inspect(sc, func(n ast.Node) bool {
			if c, ok := n.(*ast.CallExpr); ok {
				switch c17ExprString(c.Fun) {
				case "h.rpcClient.CopyShard":
					posRPC = c.Pos()
				case "h.store.copyShard":
					posOwner = c.Pos()
				}
			}
			return true
		})
		ast.Inspect(sc, func(n ast.Node) bool {
			if r, ok := n.(*ast.ReturnStmt); ok && posRPC != 0 && r.Pos() > posRPC && r.Pos() < posOwner {
				retBetween = true
			}
			return true
		})
		flag("c18_owner_added_after_copy", posRPC != 0 && posOwner != 0 && posRPC < posOwner && retBetween)
	})
}
