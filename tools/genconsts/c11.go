package main

import (
	"fmt"
	"go/ast"
	"go/token"
	"path/filepath"
	"strconv"
	"strings"
)

// C11: the representable time range (models.MinNanoTime/MaxNanoTime = influxql.MinTime/
// MaxTime, used by IteratorOptions.Window), the set of calls that query.NewCallIterator
// accepts (= the calls pushed down to shards and re-applied after every merge), and the
// count -> sum rewrite of Iterators.Merge.
func init() {
	register("C11 models/time.go + query/call_iterator.go + query/iterator.go", func(b *strings.Builder) {
		mo := loadPkg(filepath.Join(*repo, "models"))
		fmt.Fprintf(b, "Definition c11_min_time : Z := %s.\n", zlit(mo.intConst("MinNanoTime")))
		fmt.Fprintf(b, "Definition c11_max_time : Z := %s.\n", zlit(mo.intConst("MaxNanoTime")))

		q := loadPkg(filepath.Join(*repo, "query"))
		fd := q.funcDecl("NewCallIterator", "")
		names := map[string]bool{}
		ast.Inspect(fd, func(n ast.Node) bool {
			cc, ok := n.(*ast.CaseClause)
			if !ok {
				return true
			}
			for _, e := range cc.List {
				if bl, ok := e.(*ast.BasicLit); ok && bl.Kind == token.STRING {
					if s, err := strconv.Unquote(bl.Value); err == nil {
						names[s] = true
					}
				}
			}
			return true
		})
		if len(names) == 0 {
			die("NewCallIterator: no string cases found")
		}
		b.WriteString("(* calls accepted by query.NewCallIterator (pushed down and re-applied at every merge) *)\n")
		for _, f := range []string{"count", "sum", "mean", "min", "max", "first", "last", "spread", "median", "distinct", "mode", "percentile"} {
			fmt.Fprintf(b, "Definition c11_call_iterator_%s : bool := %v.\n", f, names[f])
		}
		// Iterators.Merge rewrites count to sum for the upper levels
		mg := q.funcDecl("Merge", "Iterators")
		rewrites := false
		ast.Inspect(mg, func(n ast.Node) bool {
			is, ok := n.(*ast.IfStmt)
			if !ok {
				return true
			}
			be, ok := is.Cond.(*ast.BinaryExpr)
			if !ok || be.Op != token.EQL {
				return true
			}
			if bl, ok := be.Y.(*ast.BasicLit); ok && bl.Value == `"count"` {
				ast.Inspect(is.Body, func(m ast.Node) bool {
					if kv, ok := m.(*ast.KeyValueExpr); ok {
						if id, ok := kv.Key.(*ast.Ident); ok && id.Name == "Name" {
							if v, ok := kv.Value.(*ast.BasicLit); ok && v.Value == `"sum"` {
								rewrites = true
							}
						}
					}
					return true
				})
			}
			return true
		})
		fmt.Fprintf(b, "Definition c11_merge_count_as_sum : bool := %v.\n", rewrites)
	})
}
