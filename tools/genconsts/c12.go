package main

import (
	"fmt"
	"go/ast"
	"go/constant"
	"go/token"
	"path/filepath"
	"strconv"
	"strings"
)

// C12: constants and small tables of the line-protocol parser (models/points.go,
// models/time.go, models/inline_fnv.go, pkg/escape/bytes.go).

func c12Var(p *pkgConsts, name string) ast.Expr {
	for _, f := range p.files {
		for _, d := range f.Decls {
			gd, ok := d.(*ast.GenDecl)
			if !ok || gd.Tok != token.VAR {
				continue
			}
			for _, s := range gd.Specs {
				vs := s.(*ast.ValueSpec)
				for j, n := range vs.Names {
					if n.Name == name && j < len(vs.Values) {
						return vs.Values[j]
					}
				}
			}
		}
	}
	die("C12: var %s not found", name)
	return nil
}

func c12Byte(p *pkgConsts, e ast.Expr) string {
	v, ok := p.eval(e, 0)
	if !ok {
		die("C12: cannot evaluate byte at %s", p.fset.Position(e.Pos()))
	}
	v = constant.ToInt(v)
	if v.Kind() != constant.Int {
		die("C12: not a byte at %s", p.fset.Position(e.Pos()))
	}
	return v.ExactString()
}

// escape code table: [...]escapeSet{{k: [1]byte{','}, esc: [2]byte{'\\', ','}}, ...}
func c12EscapeTable(p *pkgConsts, name string) string {
	cl, ok := c12Var(p, name).(*ast.CompositeLit)
	if !ok {
		die("C12: %s is not a composite literal", name)
	}
	var rows []string
	for _, el := range cl.Elts {
		ecl, ok := el.(*ast.CompositeLit)
		if !ok {
			die("C12: %s: element is not a composite literal", name)
		}
		var k, e0, e1 string
		for _, kv := range ecl.Elts {
			kve, ok := kv.(*ast.KeyValueExpr)
			if !ok {
				die("C12: %s: unkeyed escapeSet", name)
			}
			arr, ok := kve.Value.(*ast.CompositeLit)
			if !ok {
				die("C12: %s: field is not an array literal", name)
			}
			switch kve.Key.(*ast.Ident).Name {
			case "k":
				if len(arr.Elts) != 1 {
					die("C12: %s: k is not one byte", name)
				}
				k = c12Byte(p, arr.Elts[0])
			case "esc":
				if len(arr.Elts) != 2 {
					die("C12: %s: esc is not two bytes", name)
				}
				e0, e1 = c12Byte(p, arr.Elts[0]), c12Byte(p, arr.Elts[1])
			}
		}
		if k == "" || e0 == "" {
			die("C12: %s: incomplete escapeSet", name)
		}
		rows = append(rows, fmt.Sprintf("(%s%%N, (%s%%N, %s%%N))", k, e0, e1))
	}
	return "[" + strings.Join(rows, "; ") + "]"
}

func c12Bytes(s string) string {
	var xs []string
	for i := 0; i < len(s); i++ {
		xs = append(xs, fmt.Sprintf("%d%%N", s[i]))
	}
	return "[" + strings.Join(xs, "; ") + "]"
}

func init() {
	register("C12 models/points.go time.go inline_fnv.go pkg/escape/bytes.go", func(b *strings.Builder) {
		p := loadPkg(filepath.Join(*repo, "models"))
		fmt.Fprintf(b, "Definition c12_max_key_length : N := %s%%N.\n", p.intConst("MaxKeyLength"))
		for _, c := range [][2]string{{"maxInt64Digits", "c12_max_int64_digits"},
			{"minInt64Digits", "c12_min_int64_digits"}, {"maxUint64Digits", "c12_max_uint64_digits"},
			{"maxFloat64Digits", "c12_max_float64_digits"}, {"minFloat64Digits", "c12_min_float64_digits"}} {
			fmt.Fprintf(b, "Definition %s : nat := %s%%nat.\n", c[1], p.intConst(c[0]))
		}
		fmt.Fprintf(b, "Definition c12_prime64 : N := %s%%N.\n", p.intConst("prime64"))
		fmt.Fprintf(b, "Definition c12_offset64 : N := %s%%N.\n", p.intConst("offset64"))
		fmt.Fprintf(b, "Definition c12_min_nano_time : Z := %s.\n", zlit(p.intConst("MinNanoTime")))
		fmt.Fprintf(b, "Definition c12_max_nano_time : Z := %s.\n", zlit(p.intConst("MaxNanoTime")))

		// seriesKeySize: len(key) + <sep> + len(field)
		sk := p.funcDecl("seriesKeySize", "")
		sep := ""
		ast.Inspect(sk, func(n ast.Node) bool {
			if bl, ok := n.(*ast.BasicLit); ok && bl.Kind == token.INT {
				sep = bl.Value
			}
			return true
		})
		if sep == "" {
			die("C12: seriesKeySize: separator length literal not found")
		}
		fmt.Fprintf(b, "Definition c12_field_key_sep_len : nat := %s%%nat.\n", sep)

		// enableUint64Support default
		if id, ok := c12Var(p, "enableUint64Support").(*ast.Ident); !ok || (id.Name != "true" && id.Name != "false") {
			die("C12: enableUint64Support is not a boolean literal")
		} else {
			fmt.Fprintf(b, "Definition c12_uint_support_default : bool := %s.\n", id.Name)
		}

		// GetPrecisionMultiplier: d := time.X; switch precision { case "u": d = time.Y ... }
		fd := p.funcDecl("GetPrecisionMultiplier", "")
		def := ""
		var rows []string
		ast.Inspect(fd, func(n ast.Node) bool {
			switch x := n.(type) {
			case *ast.AssignStmt:
				if x.Tok == token.DEFINE && len(x.Lhs) == 1 && len(x.Rhs) == 1 {
					if id, ok := x.Lhs[0].(*ast.Ident); ok && id.Name == "d" {
						v, ok := p.eval(x.Rhs[0], 0)
						if !ok {
							die("C12: GetPrecisionMultiplier: cannot evaluate default")
						}
						def = constant.ToInt(v).ExactString()
					}
				}
			case *ast.CaseClause:
				if len(x.List) == 0 {
					die("C12: GetPrecisionMultiplier: default clause is not modelled")
				}
				if len(x.Body) != 1 {
					die("C12: GetPrecisionMultiplier: case body is not a single assignment")
				}
				as, ok := x.Body[0].(*ast.AssignStmt)
				if !ok || len(as.Rhs) != 1 {
					die("C12: GetPrecisionMultiplier: case body is not an assignment")
				}
				v, ok := p.eval(as.Rhs[0], 0)
				if !ok {
					die("C12: GetPrecisionMultiplier: cannot evaluate case value")
				}
				for _, l := range x.List {
					bl, ok := l.(*ast.BasicLit)
					if !ok || bl.Kind != token.STRING {
						die("C12: GetPrecisionMultiplier: non-literal case label")
					}
					s, _ := strconv.Unquote(bl.Value)
					rows = append(rows, fmt.Sprintf("(%s, %s) (* %q *)", c12Bytes(s), zlit(constant.ToInt(v).ExactString()), s))
				}
			}
			return true
		})
		if def == "" || len(rows) == 0 {
			die("C12: GetPrecisionMultiplier: shape not recognised")
		}
		fmt.Fprintf(b, "Definition c12_precision_default : Z := %s.\n", zlit(def))
		fmt.Fprintf(b, "Definition c12_precision_table : list (list N * Z) :=\n  [ %s ].\n", strings.Join(rows, "\n  ; "))

		// SetPrecision: case "u": p.SetTime(p.Time().Truncate(time.Microsecond)) ...
		sp := p.funcDecl("SetPrecision", "point")
		rows = nil
		ast.Inspect(sp, func(n ast.Node) bool {
			cc, ok := n.(*ast.CaseClause)
			if !ok {
				return true
			}
			if len(cc.List) == 0 {
				die("C12: SetPrecision: default clause is not modelled")
			}
			d := "0"
			if len(cc.Body) > 0 {
				found := false
				ast.Inspect(cc.Body[0], func(m ast.Node) bool {
					if c, ok := m.(*ast.CallExpr); ok {
						if sel, ok := c.Fun.(*ast.SelectorExpr); ok && sel.Sel.Name == "Truncate" && len(c.Args) == 1 {
							v, ok := p.eval(c.Args[0], 0)
							if !ok {
								die("C12: SetPrecision: cannot evaluate Truncate argument")
							}
							d = constant.ToInt(v).ExactString()
							found = true
						}
					}
					return true
				})
				if !found {
					die("C12: SetPrecision: case without Truncate is not modelled")
				}
			}
			for _, l := range cc.List {
				bl, ok := l.(*ast.BasicLit)
				if !ok || bl.Kind != token.STRING {
					die("C12: SetPrecision: non-literal case label")
				}
				s, _ := strconv.Unquote(bl.Value)
				rows = append(rows, fmt.Sprintf("(%s, %s) (* %q *)", c12Bytes(s), zlit(d), s))
			}
			return true
		})
		if len(rows) == 0 {
			die("C12: SetPrecision: shape not recognised")
		}
		fmt.Fprintf(b, "Definition c12_truncate_table : list (list N * Z) :=\n  [ %s ].\n", strings.Join(rows, "\n  ; "))

		fmt.Fprintf(b, "Definition c12_measurement_escape_codes : list (N * (N * N)) := %s.\n", c12EscapeTable(p, "measurementEscapeCodes"))
		fmt.Fprintf(b, "Definition c12_tag_escape_codes : list (N * (N * N)) := %s.\n", c12EscapeTable(p, "tagEscapeCodes"))

		// pkg/escape
		e := loadPkg(filepath.Join(*repo, "pkg", "escape"))
		v, ok := e.values["escapeChars"]
		if !ok || v.Kind() != constant.String {
			die("C12: escape.escapeChars not found")
		}
		fmt.Fprintf(b, "Definition c12_escape_chars : list N := %s.\n", c12Bytes(constant.StringVal(v)))
		// Codes map: every entry must be key -> `\` key
		cm, ok := c12Var(e, "Codes").(*ast.CompositeLit)
		if !ok {
			die("C12: escape.Codes is not a composite literal")
		}
		var keys []string
		for _, el := range cm.Elts {
			kv := el.(*ast.KeyValueExpr)
			k := c12Byte(e, kv.Key)
			call, ok := kv.Value.(*ast.CallExpr)
			if !ok || len(call.Args) != 1 {
				die("C12: escape.Codes: value is not []byte(literal)")
			}
			bl, ok := call.Args[0].(*ast.BasicLit)
			if !ok || bl.Kind != token.STRING {
				die("C12: escape.Codes: value is not a string literal")
			}
			s, _ := strconv.Unquote(bl.Value)
			kb, _ := strconv.Atoi(k)
			if len(s) != 2 || s[0] != '\\' || int(s[1]) != kb {
				die("C12: escape.Codes: entry %s is not backslash+key (model assumes it)", k)
			}
			keys = append(keys, k+"%N")
		}
		fmt.Fprintf(b, "Definition c12_escape_codes_keys : list N := [%s].\n", strings.Join(keys, "; "))
	})
}
