package main

import (
	"fmt"
	"path/filepath"
	"strings"
)

// C08: FNV-64a parameters of models/inline_fnv.go (series key hash used by
// ShardGroupInfo.ShardFor through Point.HashID) and the representable time range of
// models/time.go (MinNanoTime is the retention cut-off of an infinite policy, MaxNanoTime
// clamps the end of the last shard group in Data.CreateShardGroup).
func init() {
	register("C08 models/inline_fnv.go + models/time.go", func(b *strings.Builder) {
		pm := loadPkg(filepath.Join(*repo, "models"))
		fmt.Fprintf(b, "Definition c08_fnv_prime64 : N := %s%%N.\n", pm.intConst("prime64"))
		fmt.Fprintf(b, "Definition c08_fnv_offset64 : N := %s%%N.\n", pm.intConst("offset64"))
		fmt.Fprintf(b, "Definition c08_min_nano_time : Z := %s.\n", zlit(pm.intConst("MinNanoTime")))
		fmt.Fprintf(b, "Definition c08_max_nano_time : Z := %s.\n", zlit(pm.intConst("MaxNanoTime")))
	})
}
