package main

import (
	"fmt"
	"go/ast"
	"path/filepath"
	"strings"
)

// C15: MaxMessageSize, MuxHeader, message type codes and the dispatch table of
// coordinator.Service.handleConn.
func init() {
	register("C15 coordinator/service.go", func(b *strings.Builder) {
		p := loadPkg(filepath.Join(*repo, "coordinator"))
		fmt.Fprintf(b, "Definition max_message_size : Z := %s.\n", zlit(p.intConst("MaxMessageSize")))
		fmt.Fprintf(b, "Definition mux_header : N := %s%%N.\n", p.intConst("MuxHeader"))
		b.WriteString("Inductive dispatch_kind := DInline | DProcCont | DProcRet | DNoLVCont | DNoLVRet | DRawRet.\n")
		fd := p.funcDecl("handleConn", "Service")
		var sw *ast.SwitchStmt
		ast.Inspect(fd, func(n ast.Node) bool {
			if s, ok := n.(*ast.SwitchStmt); ok && sw == nil {
				if id, ok := s.Tag.(*ast.Ident); ok && id.Name == "typ" {
					sw = s
				}
			}
			return true
		})
		if sw == nil {
			die("handleConn: switch typ not found")
		}
		var rows []string
		for _, st := range sw.Body.List {
			cc := st.(*ast.CaseClause)
			if cc.List == nil {
				// default: must not return (unknown types are skipped)
				for _, s := range cc.Body {
					if _, ok := s.(*ast.ReturnStmt); ok {
						die("handleConn: default arm returns; model assumes continue")
					}
				}
				continue
			}
			kind := "DProcCont"
			inline := false
			for _, s := range cc.Body {
				if containsCall(s, "ReadLV") {
					inline = true
				}
			}
			if inline {
				kind = "DInline"
			} else if len(cc.Body) > 0 {
				if _, ok := cc.Body[len(cc.Body)-1].(*ast.ReturnStmt); ok {
					kind = "DProcRet"
				}
			}
			if !inline {
				// does the process* function this arm calls read a length-value at all?
				reads := false
				replies := false
				for _, s := range cc.Body {
					ast.Inspect(s, func(n ast.Node) bool {
						c, ok := n.(*ast.CallExpr)
						if !ok {
							return true
						}
						if sel, ok := c.Fun.(*ast.SelectorExpr); ok && strings.HasPrefix(sel.Sel.Name, "process") {
							callee := p.funcDecl(sel.Sel.Name, "Service")
							if containsCall(callee, "DecodeLV") || containsCall(callee, "ReadLV") {
								reads = true
							}
							if containsCall(callee, "EncodeTLV") || containsCall(callee, "WriteTLV") || containsCall(callee, "EncodeTLVT") {
								replies = true
							}
						}
						return true
					})
				}
				if !replies {
					// e.g. backupShard: raw stream on success, silent close on error
					if kind != "DProcRet" || !reads {
						die("handleConn: arm without reply frames that continues or reads no LV is not modelled")
					}
					kind = "DRawRet"
				} else if !reads {
					if kind == "DProcRet" {
						kind = "DNoLVRet"
					} else {
						kind = "DNoLVCont"
					}
				}
			}
			for _, e := range cc.List {
				id, ok := e.(*ast.Ident)
				if !ok {
					die("handleConn: non-identifier case label")
				}
				rows = append(rows, fmt.Sprintf("(%s%%N, %s) (* %s *)", p.intConst(id.Name), kind, id.Name))
			}
		}
		b.WriteString("Definition dispatch_table : list (N * dispatch_kind) :=\n  [ ")
		b.WriteString(strings.Join(rows, "\n  ; "))
		b.WriteString(" ].\n")
	})
}
