package main

import (
	"fmt"
	"go/ast"
	"path/filepath"
	"reflect"
	"strconv"
	"strings"
)

// pbFieldTable re-reads the `protobuf:"kind,number,label,..."` struct tags of a generated
// message type: (field number, wire type, label 0 opt / 1 req / 2 rep) in struct order.
// proto3 reports whether any field is tagged proto3 (the model assumes proto2: optional
// presence, no UTF-8 validation of strings).
func pbFieldTable(p *pkgConsts, typ string) (rows []string, proto3 bool) {
	for _, f := range p.files {
		for _, d := range f.Decls {
			gd, ok := d.(*ast.GenDecl)
			if !ok {
				continue
			}
			for _, sp := range gd.Specs {
				ts, ok := sp.(*ast.TypeSpec)
				if !ok || ts.Name.Name != typ {
					continue
				}
				st, ok := ts.Type.(*ast.StructType)
				if !ok {
					die("%s is not a struct", typ)
				}
				for _, fl := range st.Fields.List {
					if fl.Tag == nil {
						continue
					}
					raw, err := strconv.Unquote(fl.Tag.Value)
					if err != nil {
						die("%s: bad struct tag %s", typ, fl.Tag.Value)
					}
					tag := reflect.StructTag(raw).Get("protobuf")
					if tag == "" {
						continue
					}
					parts := strings.Split(tag, ",")
					if len(parts) < 3 {
						die("%s: short protobuf tag %q", typ, tag)
					}
					wire, ok := map[string]string{"varint": "0", "fixed64": "1", "bytes": "2", "fixed32": "5", "zigzag32": "zz", "zigzag64": "zz", "group": "3"}[parts[0]]
					if !ok || wire == "zz" {
						die("%s: protobuf kind %q is not modelled", typ, parts[0])
					}
					label, ok := map[string]string{"opt": "0", "req": "1", "rep": "2"}[parts[2]]
					if !ok {
						die("%s: protobuf label %q is not modelled", typ, parts[2])
					}
					for _, x := range parts[3:] {
						if x == "proto3" || x == "packed" {
							proto3 = true
						}
					}
					name := ""
					if len(fl.Names) > 0 {
						name = fl.Names[0].Name
					}
					rows = append(rows, fmt.Sprintf("(%s%%N, %s%%N, %s%%N) (* %s *)", parts[1], wire, label, name))
				}
				return rows, proto3
			}
		}
	}
	die("generated message type %s not found", typ)
	return nil, false
}

// C15: MaxMessageSize, MuxHeader, message type codes and the dispatch table of
// coordinator.Service.handleConn.
func init() {
	register("C15 coordinator/service.go", func(b *strings.Builder) {
		p := loadPkg(filepath.Join(*repo, "coordinator"))
		fmt.Fprintf(b, "Definition max_message_size : Z := %s.\n", zlit(p.intConst("MaxMessageSize")))
		fmt.Fprintf(b, "Definition mux_header : N := %s%%N.\n", p.intConst("MuxHeader"))
		b.WriteString("Inductive dispatch_kind := DInline | DProcCont | DProcRet | DNoLVCont | DNoLVRet | DRawRet.\n")
		fd := p.funcDecl("handleConn", "Service")
		var sw *ast.SwitchStmt
		ast.Inspect(fd, func(n ast.Node) bool {
			if s, ok := n.(*ast.SwitchStmt); ok && sw == nil {
				if id, ok := s.Tag.(*ast.Ident); ok && id.Name == "typ" {
					sw = s
				}
			}
			return true
		})
		if sw == nil {
			die("handleConn: switch typ not found")
		}
		var rows []string
		for _, st := range sw.Body.List {
			cc := st.(*ast.CaseClause)
			if cc.List == nil {
				// default: must not return (unknown types are skipped)
				for _, s := range cc.Body {
					if _, ok := s.(*ast.ReturnStmt); ok {
						die("handleConn: default arm returns; model assumes continue")
					}
				}
				continue
			}
			kind := "DProcCont"
			inline := false
			for _, s := range cc.Body {
				if containsCall(s, "ReadLV") {
					inline = true
				}
			}
			if inline {
				kind = "DInline"
			} else if len(cc.Body) > 0 {
				if _, ok := cc.Body[len(cc.Body)-1].(*ast.ReturnStmt); ok {
					kind = "DProcRet"
				}
			}
			if !inline {
				// does the process* function this arm calls read a length-value at all?
				reads := false
				replies := false
				for _, s := range cc.Body {
					ast.Inspect(s, func(n ast.Node) bool {
						c, ok := n.(*ast.CallExpr)
						if !ok {
							return true
						}
						if sel, ok := c.Fun.(*ast.SelectorExpr); ok && strings.HasPrefix(sel.Sel.Name, "process") {
							callee := p.funcDecl(sel.Sel.Name, "Service")
							if containsCall(callee, "DecodeLV") || containsCall(callee, "ReadLV") {
								reads = true
							}
							if containsCall(callee, "EncodeTLV") || containsCall(callee, "WriteTLV") || containsCall(callee, "EncodeTLVT") {
								replies = true
							}
						}
						return true
					})
				}
				if !replies {
					// e.g. backupShard: raw stream on success, silent close on error
					if kind != "DProcRet" || !reads {
						die("handleConn: arm without reply frames that continues or reads no LV is not modelled")
					}
					kind = "DRawRet"
				} else if !reads {
					if kind == "DProcRet" {
						kind = "DNoLVRet"
					} else {
						kind = "DNoLVCont"
					}
				}
			}
			for _, e := range cc.List {
				id, ok := e.(*ast.Ident)
				if !ok {
					die("handleConn: non-identifier case label")
				}
				rows = append(rows, fmt.Sprintf("(%s%%N, %s) (* %s *)", p.intConst(id.Name), kind, id.Name))
			}
		}
		b.WriteString("Definition dispatch_table : list (N * dispatch_kind) :=\n  [ ")
		b.WriteString(strings.Join(rows, "\n  ; "))
		b.WriteString(" ].\n")

		// wire layout of the streamed point messages (query/internal/internal.pb.go)
		qi := loadPkg(filepath.Join(*repo, "query", "internal"))
		anyProto3 := false
		for _, m := range []struct{ typ, def string }{{"Point", "c15_pb_point_fields"}, {"Aux", "c15_pb_aux_fields"}, {"IteratorStats", "c15_pb_stats_fields"}} {
			rows, p3 := pbFieldTable(qi, m.typ)
			anyProto3 = anyProto3 || p3
			fmt.Fprintf(b, "Definition %s : list (N * N * N) :=\n  [ %s ].\n", m.def, strings.Join(rows, "\n  ; "))
		}
		fmt.Fprintf(b, "Definition c15_pb_proto3_or_packed : bool := %v.\n", anyProto3)
	})
}
