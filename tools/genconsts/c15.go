package main

import (
	"fmt"
	"go/ast"
	"os"
	"path/filepath"
	"reflect"
	"regexp"
	"sort"
	"strconv"
	"strings"
	"unicode"
)

// pbFieldTable re-reads the `protobuf:"kind,number,label,..."` struct tags of a generated
// message type: (field number, wire type, label 0 opt / 1 req / 2 rep) in struct order.
// proto3 reports whether any field is tagged proto3 (the model assumes proto2: optional
// presence, no UTF-8 validation of strings).
func pbFieldTable(p *pkgConsts, typ string) (rows []string, proto3 bool) {
	for _, f := range p.files {
		for _, d := range f.Decls {
			gd, ok := d.(*ast.GenDecl)
			if !ok {
				continue
			}
			for _, sp := range gd.Specs {
				ts, ok := sp.(*ast.TypeSpec)
				if !ok || ts.Name.Name != typ {
					continue
				}
				st, ok := ts.Type.(*ast.StructType)
				if !ok {
					die("%s is not a struct", typ)
				}
				for _, fl := range st.Fields.List {
					if fl.Tag == nil {
						continue
					}
					raw, err := strconv.Unquote(fl.Tag.Value)
					if err != nil {
						die("%s: bad struct tag %s", typ, fl.Tag.Value)
					}
					tag := reflect.StructTag(raw).Get("protobuf")
					if tag == "" {
						continue
					}
					parts := strings.Split(tag, ",")
					if len(parts) < 3 {
						die("%s: short protobuf tag %q", typ, tag)
					}
					wire, ok := map[string]string{"varint": "0", "fixed64": "1", "bytes": "2", "fixed32": "5", "zigzag32": "zz", "zigzag64": "zz", "group": "3"}[parts[0]]
					if !ok || wire == "zz" {
						die("%s: protobuf kind %q is not modelled", typ, parts[0])
					}
					label, ok := map[string]string{"opt": "0", "req": "1", "rep": "2"}[parts[2]]
					if !ok {
						die("%s: protobuf label %q is not modelled", typ, parts[2])
					}
					for _, x := range parts[3:] {
						if x == "proto3" || x == "packed" {
							proto3 = true
						}
					}
					name := ""
					if len(fl.Names) > 0 {
						name = fl.Names[0].Name
					}
					rows = append(rows, fmt.Sprintf("(%s%%N, %s%%N, %s%%N) (* %s *)", parts[1], wire, label, name))
				}
				return rows, proto3
			}
		}
	}
	die("generated message type %s not found", typ)
	return nil, false
}

// C15: MaxMessageSize, MuxHeader, message type codes and the dispatch table of
// coordinator.Service.handleConn.
func init() {
	register("C15 coordinator/service.go", func(b *strings.Builder) {
		p := loadPkg(filepath.Join(*repo, "coordinator"))
		fmt.Fprintf(b, "Definition max_message_size : Z := %s.\n", zlit(p.intConst("MaxMessageSize")))
		fmt.Fprintf(b, "Definition mux_header : N := %s%%N.\n", p.intConst("MuxHeader"))
		b.WriteString("Inductive dispatch_kind := DInline | DProcCont | DProcRet | DNoLVCont | DNoLVRet | DRawRet.\n")
		fd := p.funcDecl("handleConn", "Service")
		var sw *ast.SwitchStmt
		ast.Inspect(fd, func(n ast.Node) bool {
			if s, ok := n.(*ast.SwitchStmt); ok && sw == nil {
				if id, ok := s.Tag.(*ast.Ident); ok && id.Name == "typ" {
					sw = s
				}
			}
			return true
		})
		if sw == nil {
			die("handleConn: switch typ not found")
		}
		var rows []string
		for _, st := range sw.Body.List {
			cc := st.(*ast.CaseClause)
			if cc.List == nil {
				// default: must not return (unknown types are skipped)
				for _, s := range cc.Body {
					if _, ok := s.(*ast.ReturnStmt); ok {
						die("handleConn: default arm returns; model assumes continue")
					}
				}
				continue
			}
			kind := "DProcCont"
			inline := false
			for _, s := range cc.Body {
				if containsCall(s, "ReadLV") {
					inline = true
				}
			}
			if inline {
				kind = "DInline"
			} else if len(cc.Body) > 0 {
				if _, ok := cc.Body[len(cc.Body)-1].(*ast.ReturnStmt); ok {
					kind = "DProcRet"
				}
			}
			if !inline {
				// does the process* function this arm calls read a length-value at all?
				reads := false
				replies := false
				for _, s := range cc.Body {
					ast.Inspect(s, func(n ast.Node) bool {
						c, ok := n.(*ast.CallExpr)
						if !ok {
							return true
						}
						if sel, ok := c.Fun.(*ast.SelectorExpr); ok && strings.HasPrefix(sel.Sel.Name, "process") {
							callee := p.funcDecl(sel.Sel.Name, "Service")
							if containsCall(callee, "DecodeLV") || containsCall(callee, "ReadLV") {
								reads = true
							}
							if containsCall(callee, "EncodeTLV") || containsCall(callee, "WriteTLV") || containsCall(callee, "EncodeTLVT") {
								replies = true
							}
						}
						return true
					})
				}
				if !replies {
					// e.g. backupShard: raw stream on success, silent close on error
					if kind != "DProcRet" || !reads {
						die("handleConn: arm without reply frames that continues or reads no LV is not modelled")
					}
					kind = "DRawRet"
				} else if !reads {
					if kind == "DProcRet" {
						kind = "DNoLVRet"
					} else {
						kind = "DNoLVCont"
					}
				}
			}
			for _, e := range cc.List {
				id, ok := e.(*ast.Ident)
				if !ok {
					die("handleConn: non-identifier case label")
				}
				rows = append(rows, fmt.Sprintf("(%s%%N, %s) (* %s *)", p.intConst(id.Name), kind, id.Name))
			}
		}
		b.WriteString("Definition dispatch_table : list (N * dispatch_kind) :=\n  [ ")
		b.WriteString(strings.Join(rows, "\n  ; "))
		b.WriteString(" ].\n")

		// wire layout of the streamed point messages (query/internal/internal.pb.go)
		qi := loadPkg(filepath.Join(*repo, "query", "internal"))
		anyProto3 := false
		for _, m := range []struct{ typ, def string }{{"Point", "c15_pb_point_fields"}, {"Aux", "c15_pb_aux_fields"}, {"IteratorStats", "c15_pb_stats_fields"}} {
			rows, p3 := pbFieldTable(qi, m.typ)
			anyProto3 = anyProto3 || p3
			fmt.Fprintf(b, "Definition %s : list (N * N * N) :=\n  [ %s ].\n", m.def, strings.Join(rows, "\n  ; "))
		}
		fmt.Fprintf(b, "Definition c15_pb_proto3_or_packed : bool := %v.\n", anyProto3)

		c15RpcSchemas(b, p)
	})
}

// ---- schemas of every message of coordinator/internal/data.pb.go + the rpc table ----

type c15Field struct {
	num         int
	kind, label int // kind: 0 uint64 1 int64 2 uint32 3 int32 4 bool 5 enum 6 sint32 7 sint64 8 fixed64 9 fixed32 10 bytes/string 11 message
	sub         string
	name        string
	protoType   string // the .proto spelling this field corresponds to
}

type c15Msg struct {
	name   string
	fields []c15Field
}

func c15GoElem(e ast.Expr) (elem string, slice, ptr, isBytes bool) {
	if a, ok := e.(*ast.ArrayType); ok && a.Len == nil {
		if id, ok := a.Elt.(*ast.Ident); ok && id.Name == "byte" {
			return "[]byte", false, false, true
		}
		slice = true
		e = a.Elt
		if a2, ok := e.(*ast.ArrayType); ok && a2.Len == nil {
			if id, ok := a2.Elt.(*ast.Ident); ok && id.Name == "byte" {
				return "[]byte", true, false, true
			}
		}
	}
	if st, ok := e.(*ast.StarExpr); ok {
		ptr = true
		e = st.X
	}
	if id, ok := e.(*ast.Ident); ok {
		return id.Name, slice, ptr, false
	}
	return "?", slice, ptr, false
}

// c15PbMessages re-reads every generated message struct of a .pb.go package: the struct tags
// `protobuf:"kind,number,label,..."` are what gogo/protobuf's table marshaler / unmarshaler is
// driven by (computeMarshalFieldInfo / computeUnmarshalInfo), the Go field type selects the
// scalar unmarshaler.  Fields are returned in wire-tag order (sort.Sort(byTag)).
func c15PbMessages(p *pkgConsts) []c15Msg {
	var msgs []c15Msg
	for _, f := range p.files {
		for _, d := range f.Decls {
			gd, ok := d.(*ast.GenDecl)
			if !ok {
				continue
			}
			for _, sp := range gd.Specs {
				ts, ok := sp.(*ast.TypeSpec)
				if !ok {
					continue
				}
				st, ok := ts.Type.(*ast.StructType)
				if !ok {
					continue
				}
				m := c15Msg{name: ts.Name.Name}
				hasUnrec, isMsg := false, false
				for _, fl := range st.Fields.List {
					fname := ""
					if len(fl.Names) > 0 {
						fname = fl.Names[0].Name
					}
					if fname == "XXX_unrecognized" {
						hasUnrec = true
						isMsg = true
					}
					if strings.HasPrefix(fname, "XXX_") {
						if fname != "XXX_unrecognized" && fname != "XXX_NoUnkeyedLiteral" && fname != "XXX_sizecache" {
							die("%s: field %s (extensions) is not modelled", m.name, fname)
						}
						continue
					}
					tag := ""
					if fl.Tag != nil {
						raw, err := strconv.Unquote(fl.Tag.Value)
						if err != nil {
							die("%s: bad struct tag %s", m.name, fl.Tag.Value)
						}
						if reflect.StructTag(raw).Get("protobuf_oneof") != "" {
							die("%s.%s: oneof is not modelled", m.name, fname)
						}
						tag = reflect.StructTag(raw).Get("protobuf")
					}
					if tag == "" {
						// computeMarshalInfo ignores a field without a tag: it would silently not travel
						die("%s.%s: exported field without a protobuf tag (it would not be marshaled)", m.name, fname)
					}
					isMsg = true
					parts := strings.Split(tag, ",")
					if len(parts) < 3 {
						die("%s.%s: short protobuf tag %q", m.name, fname, tag)
					}
					num, err := strconv.Atoi(parts[1])
					if err != nil || num <= 0 {
						die("%s.%s: bad field number in %q", m.name, fname, tag)
					}
					elem, slice, ptr, isBytes := c15GoElem(fl.Type)
					fd := c15Field{num: num, name: fname}
					packed := false
					for _, x := range parts[3:] {
						switch {
						case x == "proto3":
							die("%s.%s: proto3 field (the model is proto2: presence, no UTF-8 check)", m.name, fname)
						case x == "packed":
							packed = true
						case strings.HasPrefix(x, "customtype=") || strings.HasPrefix(x, "casttype=") || x == "stdtime" || x == "stdduration" || x == "wktptr" || strings.HasPrefix(x, "embedded="):
							die("%s.%s: gogo extension %q is not modelled", m.name, fname, x)
						case strings.HasPrefix(x, "def="):
							die("%s.%s: default values are not modelled", m.name, fname)
						}
					}
					switch parts[2] {
					case "opt":
						fd.label = 0
					case "req":
						fd.label = 1
					case "rep":
						fd.label = 2
						if packed {
							fd.label = 3
						}
					default:
						die("%s.%s: label %q is not modelled", m.name, fname, parts[2])
					}
					// the Go type must have the shape the label implies (pointer / slice = nil-able)
					if fd.label >= 2 {
						if !slice {
							die("%s.%s: repeated field that is not a slice", m.name, fname)
						}
					} else if !(ptr && !slice) && !(isBytes && !slice) {
						die("%s.%s: optional/required field that is neither a pointer nor []byte (nullable=false is not modelled)", m.name, fname)
					}
					switch parts[0] {
					case "varint":
						k, ok := map[string]int{"uint64": 0, "int64": 1, "uint32": 2, "int32": 3, "bool": 4}[elem]
						if !ok {
							if elem == "?" || isBytes || elem == "string" || elem == "float64" || elem == "float32" {
								die("%s.%s: varint field of Go type %s", m.name, fname, elem)
							}
							k = 5 // a named int32 type: enum
							fd.protoType = "enum"
						} else {
							fd.protoType = elem
						}
						fd.kind = k
					case "zigzag32":
						fd.kind, fd.protoType = 6, "sint32"
					case "zigzag64":
						fd.kind, fd.protoType = 7, "sint64"
					case "fixed64":
						fd.kind = 8
						fd.protoType = map[string]string{"uint64": "fixed64", "int64": "sfixed64", "float64": "double"}[elem]
					case "fixed32":
						fd.kind = 9
						fd.protoType = map[string]string{"uint32": "fixed32", "int32": "sfixed32", "float32": "float"}[elem]
					case "bytes":
						switch {
						case isBytes:
							fd.kind, fd.protoType = 10, "bytes"
						case elem == "string":
							fd.kind, fd.protoType = 10, "string"
						case ptr && elem != "?":
							fd.kind, fd.sub, fd.protoType = 11, elem, elem
						default:
							die("%s.%s: bytes field of Go type %s", m.name, fname, elem)
						}
					default:
						die("%s.%s: protobuf kind %q is not modelled", m.name, fname, parts[0])
					}
					if fd.protoType == "" {
						die("%s.%s: kind %s does not fit Go type %s", m.name, fname, parts[0], elem)
					}
					if fd.label == 3 && fd.kind >= 10 {
						die("%s.%s: packed non-numeric field", m.name, fname)
					}
					m.fields = append(m.fields, fd)
				}
				if !isMsg {
					continue
				}
				if !hasUnrec {
					die("%s: no XXX_unrecognized field (the model keeps unknown fields)", m.name)
				}
				sort.SliceStable(m.fields, func(i, j int) bool { return m.fields[i].num < m.fields[j].num })
				msgs = append(msgs, m)
			}
		}
	}
	if len(msgs) == 0 {
		die("no generated message found")
	}
	return msgs
}

var c15ProtoMsgRe = regexp.MustCompile(`(?s)message\s+(\w+)\s*\{(.*?)\}`)
var c15ProtoFieldRe = regexp.MustCompile(`(?m)^\s*(optional|required|repeated)\s+(\w+)\s+(\w+)\s*=\s*(\d+)\s*(\[[^\]]*\])?\s*;`)

// c15ProtoFile reads the (flat, proto2) message definitions of a .proto file:
// message -> "label type name = number [opts]" rows in number order.
func c15ProtoFile(path string) map[string][]string {
	raw, err := os.ReadFile(path)
	if err != nil {
		die("cannot read %s: %v", path, err)
	}
	src := regexp.MustCompile(`//[^\n]*`).ReplaceAllString(string(raw), "")
	if !regexp.MustCompile(`syntax\s*=\s*"proto2"`).MatchString(src) {
		die("%s is not proto2", path)
	}
	res := map[string][]string{}
	for _, m := range c15ProtoMsgRe.FindAllStringSubmatch(src, -1) {
		type row struct {
			n int
			s string
		}
		var rows []row
		for _, f := range c15ProtoFieldRe.FindAllStringSubmatch(m[2], -1) {
			n, _ := strconv.Atoi(f[4])
			opt := ""
			if strings.Contains(f[5], "packed") && strings.Contains(f[5], "true") {
				opt = " packed"
			}
			rows = append(rows, row{n, fmt.Sprintf("%s %s %s = %d%s", f[1], f[2], f[3], n, opt)})
		}
		sort.SliceStable(rows, func(i, j int) bool { return rows[i].n < rows[j].n })
		var out []string
		for _, r := range rows {
			out = append(out, r.s)
		}
		res[m[1]] = out
	}
	return res
}

func c15UpperFirst(s string) string {
	r := []rune(s)
	r[0] = unicode.ToUpper(r[0])
	return string(r)
}

func c15RpcSchemas(b *strings.Builder, co *pkgConsts) {
	pi := loadPkg(filepath.Join(*repo, "coordinator", "internal"))
	msgs := c15PbMessages(pi)
	idx := map[string]int{}
	for i, m := range msgs {
		idx[m.name] = i + 1
	}
	// the generated code against its source: every message and field of data.proto, and nothing else
	proto := c15ProtoFile(filepath.Join(*repo, "coordinator", "internal", "data.proto"))
	matches := len(proto) == len(msgs)
	var why []string
	for _, m := range msgs {
		var rows []string
		for _, f := range m.fields {
			lab := []string{"optional", "required", "repeated", "repeated"}[f.label]
			opt := ""
			if f.label == 3 {
				opt = " packed"
			}
			rows = append(rows, fmt.Sprintf("%s %s %s = %d%s", lab, f.protoType, f.name, f.num, opt))
		}
		want, ok := proto[m.name]
		if !ok || strings.Join(want, ";") != strings.Join(rows, ";") {
			matches = false
			why = append(why, fmt.Sprintf("%s: pb.go {%s} vs .proto {%s}", m.name, strings.Join(rows, "; "), strings.Join(want, "; ")))
		}
	}
	b.WriteString("(* every message of coordinator/internal/data.pb.go: (name, fields in wire-tag order); a field is\n")
	b.WriteString("   (number, kind, label, sub): kind 0 uint64 1 int64 2 uint32 3 int32 4 bool 5 enum 6 sint32 7 sint64 8 fixed64\n")
	b.WriteString("   9 fixed32 10 bytes/string 11 message; label 0 optional 1 required 2 repeated 3 repeated packed;\n")
	b.WriteString("   sub = 1 + index of the nested message in this table (0 for scalars) *)\n")
	b.WriteString("Definition c15_rpc_messages : list (list N * list (N * N * N * N)) :=\n  [ ")
	for i, m := range msgs {
		if i > 0 {
			b.WriteString("\n  ; ")
		}
		var rows []string
		for _, f := range m.fields {
			sub := 0
			if f.kind == 11 {
				var ok bool
				if sub, ok = idx[f.sub]; !ok {
					die("%s.%s: nested message type %s not found", m.name, f.name, f.sub)
				}
			}
			rows = append(rows, fmt.Sprintf("(%d%%N, %d%%N, %d%%N, %d%%N) (* %s *)", f.num, f.kind, f.label, sub, f.name))
		}
		var nb []string
		for _, c := range []byte(m.name) {
			nb = append(nb, fmt.Sprintf("%d%%N", c))
		}
		fmt.Fprintf(b, "([%s] (* %s *),\n     [ %s ])", strings.Join(nb, ";"), m.name, strings.Join(rows, "\n     ; "))
	}
	b.WriteString(" ].\n")
	fmt.Fprintf(b, "Definition c15_pb_matches_proto : bool := %v.", matches)
	if !matches {
		fmt.Fprintf(b, " (* %s *)", strings.ReplaceAll(strings.Join(why, " | "), "*)", "* )"))
	}
	b.WriteString("\n")

	// message type code -> request / response body.  The constant xyzRequestMessage names the
	// wrapper type XyzRequest of rpc.go (checked against every EncodeTLV(conn, const, &T{...}) call
	// of the package); the wrapper's MarshalBinary / UnmarshalBinary / struct names internal.<Message>.
	wrapperMsg := map[string]string{}
	for _, f := range co.files {
		for _, d := range f.Decls {
			switch x := d.(type) {
			case *ast.GenDecl:
				for _, sp := range x.Specs {
					ts, ok := sp.(*ast.TypeSpec)
					if !ok {
						continue
					}
					if st, ok := ts.Type.(*ast.StructType); ok {
						for _, fl := range st.Fields.List {
							if sel, ok := fl.Type.(*ast.SelectorExpr); ok {
								if id, ok := sel.X.(*ast.Ident); ok && id.Name == "internal" && len(fl.Names) == 1 && fl.Names[0].Name == "pb" {
									wrapperMsg[ts.Name.Name] = sel.Sel.Name
								}
							}
						}
					}
				}
			case *ast.FuncDecl:
				if x.Recv == nil || len(x.Recv.List) != 1 || (x.Name.Name != "MarshalBinary" && x.Name.Name != "UnmarshalBinary") {
					continue
				}
				t := x.Recv.List[0].Type
				if st, ok := t.(*ast.StarExpr); ok {
					t = st.X
				}
				rid, ok := t.(*ast.Ident)
				if !ok {
					continue
				}
				ast.Inspect(x, func(n ast.Node) bool {
					if sel, ok := n.(*ast.SelectorExpr); ok {
						if id, ok := sel.X.(*ast.Ident); ok && id.Name == "internal" {
							if _, isMsg := idx[sel.Sel.Name]; isMsg && (strings.HasSuffix(sel.Sel.Name, "Request") || strings.HasSuffix(sel.Sel.Name, "Response")) {
								if old, ok := wrapperMsg[rid.Name]; ok && old != sel.Sel.Name {
									die("rpc.go: %s uses two message types (%s, %s)", rid.Name, old, sel.Sel.Name)
								}
								wrapperMsg[rid.Name] = sel.Sel.Name
							}
						}
					}
					return true
				})
			}
		}
	}
	// EncodeTLV(conn, <const>, &<Wrapper>{...}) must agree with the naming rule
	for _, f := range co.files {
		ast.Inspect(f, func(n ast.Node) bool {
			c, ok := n.(*ast.CallExpr)
			if !ok || len(c.Args) != 3 {
				return true
			}
			fn, ok := c.Fun.(*ast.Ident)
			if !ok || fn.Name != "EncodeTLV" {
				return true
			}
			cid, ok := c.Args[1].(*ast.Ident)
			if !ok || !strings.HasSuffix(cid.Name, "Message") {
				return true
			}
			if u, ok := c.Args[2].(*ast.UnaryExpr); ok {
				if cl, ok := u.X.(*ast.CompositeLit); ok {
					if tid, ok := cl.Type.(*ast.Ident); ok {
						if want := c15UpperFirst(strings.TrimSuffix(cid.Name, "Message")); tid.Name != want {
							die("EncodeTLV(%s, &%s{}): message code and body type disagree (expected %s)", cid.Name, tid.Name, want)
						}
					}
				}
			}
			return true
		})
	}
	var names []string
	for n := range co.values {
		if strings.HasSuffix(n, "RequestMessage") {
			names = append(names, n)
		}
	}
	sort.Slice(names, func(i, j int) bool {
		a, _ := strconv.Atoi(co.intConst(names[i]))
		c, _ := strconv.Atoi(co.intConst(names[j]))
		return a < c
	})
	if len(names) == 0 {
		die("no xRequestMessage constants found")
	}
	b.WriteString("(* request type code, response type code, 1 + index of the request body message, of the response body message\n")
	b.WriteString("   (0 = the frame has no protobuf body of its own) *)\n")
	b.WriteString("Definition c15_rpc_pairs : list (N * N * N * N) :=\n  [ ")
	for i, n := range names {
		if i > 0 {
			b.WriteString("\n  ; ")
		}
		base := strings.TrimSuffix(n, "RequestMessage")
		respConst := base + "ResponseMessage"
		if _, ok := co.values[respConst]; !ok {
			die("constant %s has no %s", n, respConst)
		}
		reqW, respW := c15UpperFirst(base)+"Request", c15UpperFirst(base)+"Response"
		ri, si := idx[wrapperMsg[reqW]], idx[wrapperMsg[respW]]
		fmt.Fprintf(b, "(%s%%N, %s%%N, %d%%N, %d%%N) (* %s: %s / %s *)", co.intConst(n), co.intConst(respConst), ri, si, base,
			wrapperMsg[reqW], wrapperMsg[respW])
	}
	b.WriteString(" ].\n")
}
