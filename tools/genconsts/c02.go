package main

import (
	"fmt"
	"go/ast"
	"go/printer"
	"path/filepath"
	"strings"
)

func c02Src(p *pkgConsts, n ast.Node) string {
	var sb strings.Builder
	printer.Fprint(&sb, p.fset, n)
	return sb.String()
}

// C02: the constants the shard model (theories/C02) is written against — TSM block type
// codes (= the model's value type codes), the timestamp range models.NewPoint accepts —
// and three structural facts of the code the model mirrors.
func init() {
	register("C02 shard reads / field types", func(b *strings.Builder) {
		p := loadPkg(filepath.Join(*repo, "tsdb", "engine", "tsm1"))
		mp := loadPkg(filepath.Join(*repo, "models"))
		tp := loadPkg(filepath.Join(*repo, "tsdb"))
		for _, c := range []struct{ coq, goName string }{
			{"c02_block_float", "BlockFloat64"}, {"c02_block_integer", "BlockInteger"}, {"c02_block_boolean", "BlockBoolean"},
			{"c02_block_string", "BlockString"}, {"c02_block_unsigned", "BlockUnsigned"}} {
			fmt.Fprintf(b, "Definition %s : N := %s%%N.\n", c.coq, p.intConst(c.goName))
		}
		fmt.Fprintf(b, "Definition c02_min_nano_time : Z := %s.\n", zlit(mp.intConst("MinNanoTime")))
		fmt.Fprintf(b, "Definition c02_max_nano_time : Z := %s.\n", zlit(mp.intConst("MaxNanoTime")))
		fmt.Fprintf(b, "Definition c02_max_points_per_block : Z := %s.\n", zlit(tp.intConst("DefaultMaxPointsPerBlock")))

		// entry.add only type-checks when e.vtype != 0
		add := c02Src(p, p.funcDecl("add", "entry"))
		fmt.Fprintf(b, "Definition c02_entry_add_checks_only_nonzero_vtype : bool := %v.\n", strings.Contains(add, "e.vtype != 0"))
		// Cache.DeleteRange works on c.store only (the hot store) and special-cases the full range
		dr := c02Src(p, p.funcDecl("DeleteRange", "Cache"))
		fmt.Fprintf(b, "Definition c02_cache_delete_hot_only : bool := %v.\n",
			strings.Contains(dr, "c.store.entry(k)") && !strings.Contains(dr, "c.snapshot"))
		fmt.Fprintf(b, "Definition c02_cache_delete_full_range_removes_key : bool := %v.\n",
			strings.Contains(dr, "min == math.MinInt64 && max == math.MaxInt64"))
		// deleteSeriesRange widens influxql.MinTime/MaxTime to the int64 extremes
		ds := c02Src(p, p.funcDecl("deleteSeriesRange", "Engine"))
		fmt.Fprintf(b, "Definition c02_delete_widens_min_max_time : bool := %v.\n",
			strings.Contains(ds, "min == influxql.MinTime") && strings.Contains(ds, "max == influxql.MaxTime"))
		// the per-series type check of Engine.WritePoints is behind an environment flag
		ne := c02Src(p, p.funcDecl("NewEngine", ""))
		fmt.Fprintf(b, "Definition c02_series_type_check_behind_env_flag : bool := %v.\n",
			strings.Contains(ne, "INFLUXDB_SERIES_TYPE_CHECK_ENABLED"))
		// createFieldsAndMeasurements saves the field set also when a creation fails (fix: commit)
		cf := c02Src(tp, tp.funcDecl("createFieldsAndMeasurements", "Shard"))
		fmt.Fprintf(b, "Definition c02_fields_saved_on_create_error : bool := %v.\n",
			strings.Contains(cf, "createErr = err") && strings.Index(cf, "Save()") > strings.Index(cf, "createErr = err"))

		// layer B (theories/C02/Blocks.v): the code shapes the KeyCursor model mirrors
		nk := c02Src(p, p.funcDecl("newKeyCursor", ""))
		sl := c02Src(p, p.funcDecl("sortLocations", ""))
		fmt.Fprintf(b, "Definition c02_keycursor_insertion_sort : bool := %v.\n",
			strings.Contains(nk, "sortLocations(ascLocations(c.seeks))") && strings.Contains(nk, "sortLocations(descLocations(c.seeks))") &&
				strings.Contains(sl, "j > 0 && data.Less(j, j-1)") && !strings.Contains(nk, "sort.Sort"))
		lc := c02Src(p, p.funcDecl("locations", "FileStore"))
		fmt.Fprintf(b, "Definition c02_locations_read_marks : bool := %v.\n",
			strings.Contains(lc, "location.readMax = t - 1") && strings.Contains(lc, "location.readMin = t + 1") &&
				strings.Contains(lc, "t.Min <= ie.MinTime && t.Max >= ie.MaxTime"))
		nd := c02Src(p, p.funcDecl("nextDescending", "KeyCursor"))
		na := c02Src(p, p.funcDecl("nextAscending", "KeyCursor"))
		fmt.Fprintf(b, "Definition c02_next_desc_doubles_first : bool := %v.\n",
			strings.Contains(nd, "for i := c.pos; i >= 0; i--") && strings.Contains(na, "for i := c.pos + 1; i < len(c.seeks); i++"))
		rb := c02Src(p, p.funcDecl("ReadFloatBlock", "KeyCursor"))
		fmt.Fprintf(b, "Definition c02_readblock_merge_order : bool := %v.\n",
			strings.Contains(rb, "values = values.Merge(v)") && strings.Contains(rb, "values = v.Merge(values)") &&
				strings.Contains(rb, "c.current = c.current[1:]") && strings.Contains(rb, "first.markRead(minT, maxT)"))
	})
}
