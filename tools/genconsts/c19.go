package main

import (
	"go/ast"
	"path/filepath"
	"strings"
)

// C19 / C01: structural facts of concurrency-critical code that the models are written
// against.  A model step that is ATOMIC (one critical section) stands for code that does the
// same things under ONE lock acquisition; an interleaving theorem about the model says nothing
// about code that splits the section.  Each fact below is re-derived from the source on every
// run; C19/Props.v and C01/Props.v state `<fact> = true` as theorems (by reflexivity), so a
// change that splits a section stops a proof obligation (a harmless rewrite can do so too).
//
//  c19_wait_for_index_one_section: meta.Client.waitForIndex reads cacheData.Index and the
//     `changed` channel itself, under exactly one lock acquisition per iteration (otherwise a
//     publication between the two reads is a lost wake-up: wait_for_index_two_sections_refuted).
//  c19_cache_init_store_before_flag: tsm1 Cache.init changes initializedCount only inside its
//     c.mu.Lock section and only after it has assigned c.store there (its lock-free part merely
//     loads the flag), and Cache.Free changes both inside one c.mu.Lock section: a writer that
//     finds the flag set then finds the ring (otherwise a concurrent first write goes into
//     emptyStore and is acknowledged: cache_init_flag_first_refuted).
//  c19_engine_free_excludes_writers: in package tsm1 every call of e.Cache.Free sits in
//     Engine.freeCacheIfEmptyLocked inside `if e.Cache.Size() == 0`, and every call of that helper
//     is made while e.mu.Lock is held (writers hold e.mu.RLock from the cache write to their
//     return): a write acknowledged since the shard was found idle is seen, one in flight is
//     waited for (otherwise: cache_free_unlocked_refuted).
//  c01_snapshot_begin_one_section: tsm1 Engine.writeSnapshot closes the WAL segment, lists the
//     closed segments and takes the cache snapshot inside ONE function literal that holds
//     e.mu.Lock (step SnapBegin of Shard/Engine.v); a write acknowledged between the cache
//     snapshot and the segment close would be removed with the snapshot's segments.
//  c01_snapshot_commit_order: writeSnapshotAndCommit calls FileStore.Replace, then
//     Cache.ClearSnapshot(true), then WAL.Remove, in this order (steps SnapRename, SnapClear,
//     SnapRemoveWAL).
func init() {
	register("C19 services/meta/client.go + tsdb/engine/tsm1/engine.go (section structure)", func(b *strings.Builder) {
		m := loadPkg(filepath.Join(*repo, "services", "meta"))
		fd := m.funcDecl("waitForIndex", "Client")
		locks, readsIndex, readsChanged := 0, false, false
		ast.Inspect(fd, func(n ast.Node) bool {
			switch x := n.(type) {
			case *ast.CallExpr:
				if s, ok := x.Fun.(*ast.SelectorExpr); ok && (s.Sel.Name == "RLock" || s.Sel.Name == "Lock") {
					locks++
				}
			case *ast.SelectorExpr:
				t := c17ExprString(x)
				if strings.HasSuffix(t, "cacheData.Index") {
					readsIndex = true
				}
				if strings.HasSuffix(t, ".changed") {
					readsChanged = true
				}
			}
			return true
		})
		writeBool(b, "c19_wait_for_index_one_section", locks == 1 && readsIndex && readsChanged)

		t := loadPkg(filepath.Join(*repo, "tsdb", "engine", "tsm1"))
		ws := t.funcDecl("writeSnapshot", "Engine")
		one := false
		ast.Inspect(ws, func(n ast.Node) bool {
			fl, ok := n.(*ast.FuncLit)
			if !ok {
				return true
			}
			holds, closes, lists, snaps := false, false, false, false
			ast.Inspect(fl, func(k ast.Node) bool {
				if c, ok := k.(*ast.CallExpr); ok {
					switch c17ExprString(c.Fun) {
					case "e.mu.Lock":
						holds = true
					case "e.WAL.CloseSegment":
						closes = true
					case "e.WAL.ClosedSegments":
						lists = true
					case "e.Cache.Snapshot":
						snaps = true
					}
				}
				return true
			})
			if holds && closes && lists && snaps {
				one = true
			}
			return true
		})
		writeBool(b, "c01_snapshot_begin_one_section", one)

		// Cache.init / Cache.Free: the sequence of lock, store assignment, flag write, unlock
		cacheSeq := func(name string) string {
			fd := t.funcDecl(name, "Cache")
			var seq []string
			ast.Inspect(fd, func(n ast.Node) bool {
				switch x := n.(type) {
				case *ast.CallExpr:
					switch f := c17ExprString(x.Fun); f {
					case "c.mu.Lock":
						seq = append(seq, "lock")
					case "c.mu.Unlock":
						seq = append(seq, "unlock")
					case "atomic.CompareAndSwapUint32", "atomic.StoreUint32", "atomic.AddUint32", "atomic.SwapUint32":
						if len(x.Args) > 0 && strings.HasSuffix(c17ExprString(x.Args[0]), "c.initializedCount") {
							seq = append(seq, "flag")
						}
					}
				case *ast.AssignStmt:
					for _, l := range x.Lhs {
						switch c17ExprString(l) {
						case "c.store":
							seq = append(seq, "store")
						case "c.initializedCount":
							seq = append(seq, "flag")
						}
					}
				case *ast.IncDecStmt:
					if c17ExprString(x.X) == "c.initializedCount" {
						seq = append(seq, "flag")
					}
				case *ast.DeferStmt:
					seq = append(seq, "defer")
				}
				return true
			})
			return strings.Join(seq, ";")
		}
		initSeq, freeSeq := cacheSeq("init"), cacheSeq("Free")
		writeBool(b, "c19_cache_init_store_before_flag", initSeq == "lock;store;flag;unlock" &&
			(freeSeq == "lock;store;flag;unlock" || freeSeq == "lock;flag;store;unlock"))

		// Engine.Free / disableSnapshotCompactions: the cache store is released only by the
		// guarded helper, and the helper is called only under the exclusive engine lock
		freeOK, helperCalls := true, 0
		for _, f := range t.files {
			for _, dcl := range f.Decls {
				fd, ok := dcl.(*ast.FuncDecl)
				if !ok || fd.Body == nil {
					continue
				}
				held := false
				var guards []bool // per enclosing IfStmt: is it the size guard
				var walk func(n ast.Node)
				walk = func(n ast.Node) {
					switch x := n.(type) {
					case nil:
						return
					case *ast.DeferStmt:
						return // a deferred unlock releases at return, after every statement
					case *ast.IfStmt:
						walk(x.Init)
						guards = append(guards, c17ExprString(x.Cond) == "e.Cache.Size()==0")
						walk(x.Body)
						guards = guards[:len(guards)-1]
						walk(x.Else)
						return
					case *ast.CallExpr:
						switch c17ExprString(x.Fun) {
						case "e.mu.Lock":
							held = true
						case "e.mu.Unlock":
							held = false
						case "e.freeCacheIfEmptyLocked":
							helperCalls++
							if !held {
								freeOK = false
							}
						case "e.Cache.Free":
							guarded := false
							for _, g := range guards {
								guarded = guarded || g
							}
							if fd.Name.Name != "freeCacheIfEmptyLocked" || !guarded {
								freeOK = false
							}
						}
					}
					ast.Inspect(n, func(k ast.Node) bool {
						if k == n || k == nil {
							return true
						}
						walk(k)
						return false
					})
				}
				walk(fd.Body)
			}
		}
		writeBool(b, "c19_engine_free_excludes_writers", freeOK && helperCalls >= 1)

		wc := t.funcDecl("writeSnapshotAndCommit", "Engine")
		var order []string
		ast.Inspect(wc, func(n ast.Node) bool {
			if c, ok := n.(*ast.CallExpr); ok {
				switch s := c17ExprString(c.Fun); s {
				case "e.FileStore.Replace", "e.WAL.Remove":
					order = append(order, s)
				case "e.Cache.ClearSnapshot":
					if len(c.Args) == 1 && c17ExprString(c.Args[0]) == "true" {
						order = append(order, s)
					}
				}
			}
			return true
		})
		writeBool(b, "c01_snapshot_commit_order", strings.Join(order, ";") == "e.FileStore.Replace;e.Cache.ClearSnapshot;e.WAL.Remove")
	})
}

func writeBool(b *strings.Builder, name string, v bool) {
	if v {
		b.WriteString("Definition " + name + " : bool := true.\n")
	} else {
		b.WriteString("Definition " + name + " : bool := false.\n")
	}
}
