package main

import (
	"fmt"
	"go/ast"
	"go/token"
	"path/filepath"
	"strings"
)

// C04: hinted-handoff queue constants (services/hh/queue.go) and two structural facts
// the model follows: whether queue.Empty consults the OS file cursor (filePos) and
// whether segment.close flushes the write buffer.
func init() {
	register("C04 services/hh/queue.go", func(b *strings.Builder) {
		p := loadPkg(filepath.Join(*repo, "services", "hh"))
		fmt.Fprintf(b, "Definition c04_default_segment_size : Z := %s.\n", zlit(p.intConst("defaultSegmentSize")))
		fmt.Fprintf(b, "Definition c04_footer_size : Z := %s.\n", zlit(p.intConst("footerSize")))
		// buffered := len(l.limiter) >= K  in queue.Append
		fd := p.funcDecl("Append", "queue")
		thr := ""
		ast.Inspect(fd, func(n ast.Node) bool {
			as, ok := n.(*ast.AssignStmt)
			if !ok || len(as.Lhs) != 1 || len(as.Rhs) != 1 {
				return true
			}
			id, ok := as.Lhs[0].(*ast.Ident)
			if !ok || id.Name != "buffered" {
				return true
			}
			be, ok := as.Rhs[0].(*ast.BinaryExpr)
			if !ok || be.Op != token.GEQ || !containsCall(be.X, "len") {
				die("queue.Append: `buffered := len(l.limiter) >= K` has changed shape")
			}
			v, ok := p.eval(be.Y, 0)
			if !ok {
				die("queue.Append: buffered threshold is not a constant")
			}
			thr = v.ExactString()
			return true
		})
		if thr == "" {
			die("queue.Append: assignment to `buffered` not found")
		}
		fmt.Fprintf(b, "Definition c04_buffer_threshold : Z := %s.\n", zlit(thr))
		// the deferred flush condition  buffered && len(l.limiter) <= K2
		last := ""
		ast.Inspect(fd, func(n ast.Node) bool {
			is, ok := n.(*ast.IfStmt)
			if !ok {
				return true
			}
			be, ok := is.Cond.(*ast.BinaryExpr)
			if !ok || be.Op != token.LAND {
				return true
			}
			if id, ok := be.X.(*ast.Ident); !ok || id.Name != "buffered" {
				return true
			}
			c, ok := be.Y.(*ast.BinaryExpr)
			if !ok || c.Op != token.LEQ || !containsCall(c.X, "len") {
				die("queue.Append: deferred flush condition has changed shape")
			}
			v, ok := p.eval(c.Y, 0)
			if !ok {
				die("queue.Append: deferred flush bound is not a constant")
			}
			last = v.ExactString()
			return true
		})
		if last == "" {
			die("queue.Append: deferred flush `if buffered && len(l.limiter) <= K` not found")
		}
		fmt.Fprintf(b, "Definition c04_last_writer_bound : Z := %s.\n", zlit(last))
		boolLit := func(x bool) string {
			if x {
				return "true"
			}
			return "false"
		}
		fmt.Fprintf(b, "Definition c04_empty_reads_cursor : bool := %s.\n", boolLit(containsCall(p.funcDecl("Empty", "queue"), "filePos")))
		fmt.Fprintf(b, "Definition c04_close_flushes : bool := %s.\n", boolLit(containsCall(p.funcDecl("close", "segment"), "flush")))
		// WriteShard splits on len(b) > defaultSegmentSize
		ws := p.funcDecl("WriteShard", "NodeProcessor")
		okLimit := false
		ast.Inspect(ws, func(n ast.Node) bool {
			fs, ok := n.(*ast.ForStmt)
			if !ok || fs.Cond == nil {
				return true
			}
			be, ok := fs.Cond.(*ast.BinaryExpr)
			if ok && be.Op == token.GTR && containsCall(be.X, "len") {
				if id, ok := be.Y.(*ast.Ident); ok && id.Name == "defaultSegmentSize" {
					okLimit = true
				}
			}
			return true
		})
		if !okLimit {
			die("NodeProcessor.WriteShard: split loop `for len(b) > defaultSegmentSize` not found")
		}
	})
}

// C04 consumer: structural facts of NodeProcessor.SendWrite / run / close and of
// Service.purgeInactiveProcessors / RemoveNode that C04/Drain.v is written against.
// SendWrite's branch actions are emitted as small codes that PARAMETERISE the model
// (0 nothing, 1 queue.Advance, 2 queue.Truncate, 3 queue.advanceSegment, 9 anything else), so a
// change of a branch changes the model and its theorems stop checking (C04/ProofsConsumer.v
// proves [c04_shape = good_shape] by reflexivity); the other facts are booleans stated as
// `= true` theorems.
func init() {
	register("C04b services/hh/node_processor.go + service.go (consumer structure)", func(b *strings.Builder) {
		p := loadPkg(filepath.Join(*repo, "services", "hh"))
		calls := func(n ast.Node) []string {
			var out []string
			if n == nil {
				return out
			}
			ast.Inspect(n, func(x ast.Node) bool {
				if c, ok := x.(*ast.CallExpr); ok {
					out = append(out, c17ExprString(c.Fun))
				}
				return true
			})
			return out
		}
		has := func(l []string, s string) bool {
			for _, x := range l {
				if x == s {
					return true
				}
			}
			return false
		}
		// action code of a block: which queue-moving calls it contains
		action := func(n ast.Node) int {
			l := calls(n)
			code, cnt := 0, 0
			for name, c := range map[string]int{"n.queue.Advance": 1, "n.queue.Truncate": 2, "n.queue.advanceSegment": 3} {
				if has(l, name) {
					code = c
					cnt++
				}
			}
			for _, x := range l {
				if strings.HasPrefix(x, "n.queue.") && x != "n.queue.Advance" && x != "n.queue.Truncate" && x != "n.queue.advanceSegment" {
					return 9
				}
			}
			if cnt > 1 {
				return 9
			}
			return code
		}
		endsWithReturn := func(bs *ast.BlockStmt) bool {
			if bs == nil || len(bs.List) == 0 {
				return false
			}
			_, ok := bs.List[len(bs.List)-1].(*ast.ReturnStmt)
			return ok
		}
		sw := p.funcDecl("SendWrite", "NodeProcessor")
		st := sw.Body.List
		idxCur, idxUm, idxWrite, idxAdv, idxInactive := -1, -1, -1, -1, -1
		onErr, onEOF, onUm := 9, 9, 9
		retryReturns, errBranchReturns, umBranchReturns, inactiveEOF := false, false, false, false
		for i, s := range st {
			switch x := s.(type) {
			case *ast.AssignStmt:
				l := calls(x)
				if has(l, "n.queue.Current") && idxCur < 0 {
					idxCur = i
				}
				if has(l, "unmarshalWrite") && idxUm < 0 {
					idxUm = i
				}
			case *ast.IfStmt:
				cond := c17ExprString(x.Cond)
				switch {
				case cond == "!active":
					idxInactive = i
					if len(x.Body.List) == 1 {
						if r, ok := x.Body.List[0].(*ast.ReturnStmt); ok && len(r.Results) == 2 && c17ExprString(r.Results[1]) == "io.EOF" {
							inactiveEOF = true
						}
					}
				case idxCur >= 0 && i == idxCur+1 && cond == "err!=nil":
					errBranchReturns = endsWithReturn(x.Body)
					// inner: if err != io.EOF { Truncate } else { advanceSegment }
					for _, y := range x.Body.List {
						if in, ok := y.(*ast.IfStmt); ok && c17ExprString(in.Cond) == "err!=io.EOF" {
							onErr = action(in.Body)
							if in.Else != nil {
								onEOF = action(in.Else)
							} else {
								onEOF = 0
							}
						}
					}
				case idxUm >= 0 && i == idxUm+1 && cond == "err!=nil":
					umBranchReturns = endsWithReturn(x.Body)
					onUm = action(x.Body)
				case x.Init != nil && has(calls(x.Init), "n.writer.WriteShardBinary"):
					idxWrite = i
					retryReturns = has(calls(x.Cond), "IsRetryable") && strings.HasPrefix(cond, "err!=nil&&") &&
						endsWithReturn(x.Body) && action(x.Body) == 0
				default:
					if idxUm >= 0 && i > idxUm+1 && idxAdv < 0 && action(x) != 0 {
						if action(x) == 1 {
							idxAdv = i
						} else {
							idxAdv = -2 // something else than Advance moves the queue after a send
						}
					}
				}
			default:
				if idxUm >= 0 && i > idxUm+1 && idxAdv < 0 && action(s) != 0 {
					if action(s) == 1 {
						idxAdv = i
					} else {
						idxAdv = -2
					}
				}
			}
		}
		if idxCur < 0 || idxUm < 0 || idxWrite < 0 {
			die("NodeProcessor.SendWrite: Current / unmarshalWrite / WriteShardBinary statements not found at top level")
		}
		fmt.Fprintf(b, "Definition c04_sw_on_current_err : N := %d%%N.\n", onErr)
		fmt.Fprintf(b, "Definition c04_sw_on_eof : N := %d%%N.\n", onEOF)
		fmt.Fprintf(b, "Definition c04_sw_on_unmarshal_err : N := %d%%N.\n", onUm)
		writeBool(b, "c04_sw_retry_returns", retryReturns)
		// the acknowledged/rejected path: WriteShardBinary, then (only then) exactly one Advance
		writeBool(b, "c04_sw_write_then_advance", idxAdv > idxWrite && idxWrite > idxUm)
		writeBool(b, "c04_sw_advance_before_write", idxAdv >= 0 && idxAdv < idxWrite)
		writeBool(b, "c04_sw_branches_return", errBranchReturns && umBranchReturns)
		writeBool(b, "c04_sw_inactive_is_eof", inactiveEOF && idxInactive >= 0 && idxInactive < idxCur)

		// run: the retry tick calls SendWrite in a loop and leaves it on the first error
		run := p.funcDecl("run", "NodeProcessor")
		runOK := false
		purgeTick := false
		ast.Inspect(run, func(n ast.Node) bool {
			switch x := n.(type) {
			case *ast.ForStmt:
				if x.Cond != nil || len(x.Body.List) < 2 {
					return true
				}
				as, ok := x.Body.List[0].(*ast.AssignStmt)
				if !ok || !has(calls(as), "n.SendWrite") {
					return true
				}
				is, ok := x.Body.List[1].(*ast.IfStmt)
				if ok && c17ExprString(is.Cond) == "err!=nil" && len(is.Body.List) > 0 {
					if br, ok := is.Body.List[len(is.Body.List)-1].(*ast.BranchStmt); ok && br.Tok == token.BREAK {
						runOK = true
					}
				}
			case *ast.CallExpr:
				if c17ExprString(x.Fun) == "n.queue.PurgeOlderThan" && len(x.Args) == 1 &&
					c17ExprString(x.Args[0]) == "time.Now().Add(-n.MaxAge)" {
					purgeTick = true
				}
			}
			return true
		})
		writeBool(b, "c04_run_loops_until_error", runOK)
		writeBool(b, "c04_run_purges_by_max_age", purgeTick)

		// close(onlyIfEmpty): the emptiness check and close(n.done) are in ONE function literal
		// that holds n.mu.Lock, the check first
		cl := p.funcDecl("close", "NodeProcessor")
		closeOK := false
		ast.Inspect(cl, func(n ast.Node) bool {
			fl, ok := n.(*ast.FuncLit)
			if !ok {
				return true
			}
			lock, chk, cls := -1, -1, -1
			for i, s := range fl.Body.List {
				l := calls(s)
				if has(l, "n.mu.Lock") && lock < 0 {
					lock = i
				}
				if is, ok := s.(*ast.IfStmt); ok && c17ExprString(is.Cond) == "onlyIfEmpty&&!n.queue.Empty()" && endsWithReturn(is.Body) {
					chk = i
				}
				if es, ok := s.(*ast.ExprStmt); ok && c17ExprString(es.X) == "close(n.done)" {
					cls = i
				}
			}
			if lock >= 0 && lock < chk && chk < cls {
				closeOK = true
			}
			return true
		})
		writeBool(b, "c04_close_if_empty_one_section", closeOK)

		// purgeInactiveProcessors: a queue found empty is closed with CloseIfEmpty (and skipped
		// when that reports false); a non-empty one only after `active -> continue` and
		// `!lm.Before(now-MaxAge) -> continue`
		pp := p.funcDecl("purgeInactiveProcessors", "Service")
		var emptyIf *ast.IfStmt
		var guardIf *ast.IfStmt
		ast.Inspect(pp, func(n ast.Node) bool {
			if is, ok := n.(*ast.IfStmt); ok {
				switch c17ExprString(is.Cond) {
				case "empty":
					emptyIf = is
				case "!empty":
					guardIf = is
				}
			}
			return true
		})
		passOK := false
		if emptyIf != nil && guardIf != nil && emptyIf.Else != nil {
			l := calls(emptyIf.Body)
			closedSkips := false
			for _, s := range emptyIf.Body.List {
				if is, ok := s.(*ast.IfStmt); ok && c17ExprString(is.Cond) == "!closed" && len(is.Body.List) == 1 {
					if br, ok := is.Body.List[0].(*ast.BranchStmt); ok && br.Tok == token.CONTINUE {
						closedSkips = true
					}
				}
			}
			activeSkips, youngSkips := false, false
			for _, s := range guardIf.Body.List {
				is, ok := s.(*ast.IfStmt)
				if !ok || len(is.Body.List) == 0 {
					continue
				}
				br, ok := is.Body.List[len(is.Body.List)-1].(*ast.BranchStmt)
				if !ok || br.Tok != token.CONTINUE {
					continue
				}
				switch c17ExprString(is.Cond) {
				case "active":
					activeSkips = true
				case "!lm.Before(time.Now().Add(-time.Duration(s.cfg.MaxAge)))":
					youngSkips = true
				}
			}
			passOK = has(l, "p.CloseIfEmpty") && !has(l, "p.Close") && closedSkips && activeSkips && youngSkips &&
				has(calls(emptyIf.Else), "p.Close")
		}
		writeBool(b, "c04_purge_pass_shape", passOK)

		// RemoveNode touches only s.processors[ownerID]
		rn := p.funcDecl("RemoveNode", "Service")
		rnOK := false
		ast.Inspect(rn, func(n ast.Node) bool {
			if as, ok := n.(*ast.AssignStmt); ok && len(as.Rhs) == 1 && c17ExprString(as.Rhs[0]) == "s.processors[ownerID]" {
				rnOK = true
			}
			return true
		})
		rnDel := false
		ast.Inspect(rn, func(n ast.Node) bool {
			if c, ok := n.(*ast.CallExpr); ok && c17ExprString(c) == "delete(s.processors,ownerID)" {
				rnDel = true
			}
			return true
		})
		rl := calls(rn)
		writeBool(b, "c04_remove_node_scoped", rnOK && rnDel && has(rl, "p.Close") && has(rl, "p.Purge") && has(rl, "s.pathforNode"))

		// coordinator.ShardWriter.WriteShardBinary answers nil, without sending, for a shard whose
		// group is gone (documented reason "a shard that no longer exists")
		cw := loadPkg(filepath.Join(*repo, "coordinator"))
		wb := cw.funcDecl("WriteShardBinary", "ShardWriter")
		gone := false
		ast.Inspect(wb, func(n ast.Node) bool {
			if is, ok := n.(*ast.IfStmt); ok && c17ExprString(is.Cond) == "sgi==nil" && len(is.Body.List) == 1 {
				if r, ok := is.Body.List[0].(*ast.ReturnStmt); ok && len(r.Results) == 1 && c17ExprString(r.Results[0]) == "nil" {
					gone = true
				}
			}
			return true
		})
		writeBool(b, "c04_writer_drops_unknown_shard", gone)
		// IsRetryable: the two permanent-rejection substrings
		ir := p.funcDecl("IsRetryable", "")
		var subs []string
		ast.Inspect(ir, func(n ast.Node) bool {
			if c, ok := n.(*ast.CallExpr); ok && c17ExprString(c.Fun) == "strings.Contains" && len(c.Args) == 2 {
				subs = append(subs, c17ExprString(c.Args[1]))
			}
			return true
		})
		// ... and nothing else decides: nil -> false; the two substrings -> false; otherwise true
		// (exactly three top-level statements, three returns, no other test of the error text)
		nret, ncall := 0, 0
		ast.Inspect(ir, func(n ast.Node) bool {
			switch x := n.(type) {
			case *ast.ReturnStmt:
				nret++
			case *ast.CallExpr:
				if f := c17ExprString(x.Fun); f != "strings.Contains" && f != "err.Error" {
					ncall++
				}
			}
			return true
		})
		shape := ir.Body != nil && len(ir.Body.List) == 3 && nret == 3 && ncall == 0
		writeBool(b, "c04_permanent_errors_are_conflict_and_partial", shape && strings.Join(subs, "|") == "\"field type conflict\"|\"partial write\"")
	})
}
