package main

import (
	"fmt"
	"go/ast"
	"go/token"
	"path/filepath"
	"strings"
)

// C04: hinted-handoff queue constants (services/hh/queue.go) and two structural facts
// the model follows: whether queue.Empty consults the OS file cursor (filePos) and
// whether segment.close flushes the write buffer.
func init() {
	register("C04 services/hh/queue.go", func(b *strings.Builder) {
		p := loadPkg(filepath.Join(*repo, "services", "hh"))
		fmt.Fprintf(b, "Definition c04_default_segment_size : Z := %s.\n", zlit(p.intConst("defaultSegmentSize")))
		fmt.Fprintf(b, "Definition c04_footer_size : Z := %s.\n", zlit(p.intConst("footerSize")))
		// buffered := len(l.limiter) >= K  in queue.Append
		fd := p.funcDecl("Append", "queue")
		thr := ""
		ast.Inspect(fd, func(n ast.Node) bool {
			as, ok := n.(*ast.AssignStmt)
			if !ok || len(as.Lhs) != 1 || len(as.Rhs) != 1 {
				return true
			}
			id, ok := as.Lhs[0].(*ast.Ident)
			if !ok || id.Name != "buffered" {
				return true
			}
			be, ok := as.Rhs[0].(*ast.BinaryExpr)
			if !ok || be.Op != token.GEQ || !containsCall(be.X, "len") {
				die("queue.Append: `buffered := len(l.limiter) >= K` has changed shape")
			}
			v, ok := p.eval(be.Y, 0)
			if !ok {
				die("queue.Append: buffered threshold is not a constant")
			}
			thr = v.ExactString()
			return true
		})
		if thr == "" {
			die("queue.Append: assignment to `buffered` not found")
		}
		fmt.Fprintf(b, "Definition c04_buffer_threshold : Z := %s.\n", zlit(thr))
		// the deferred flush condition  buffered && len(l.limiter) <= K2
		last := ""
		ast.Inspect(fd, func(n ast.Node) bool {
			is, ok := n.(*ast.IfStmt)
			if !ok {
				return true
			}
			be, ok := is.Cond.(*ast.BinaryExpr)
			if !ok || be.Op != token.LAND {
				return true
			}
			if id, ok := be.X.(*ast.Ident); !ok || id.Name != "buffered" {
				return true
			}
			c, ok := be.Y.(*ast.BinaryExpr)
			if !ok || c.Op != token.LEQ || !containsCall(c.X, "len") {
				die("queue.Append: deferred flush condition has changed shape")
			}
			v, ok := p.eval(c.Y, 0)
			if !ok {
				die("queue.Append: deferred flush bound is not a constant")
			}
			last = v.ExactString()
			return true
		})
		if last == "" {
			die("queue.Append: deferred flush `if buffered && len(l.limiter) <= K` not found")
		}
		fmt.Fprintf(b, "Definition c04_last_writer_bound : Z := %s.\n", zlit(last))
		boolLit := func(x bool) string {
			if x {
				return "true"
			}
			return "false"
		}
		fmt.Fprintf(b, "Definition c04_empty_reads_cursor : bool := %s.\n", boolLit(containsCall(p.funcDecl("Empty", "queue"), "filePos")))
		fmt.Fprintf(b, "Definition c04_close_flushes : bool := %s.\n", boolLit(containsCall(p.funcDecl("close", "segment"), "flush")))
		// WriteShard splits on len(b) > defaultSegmentSize
		ws := p.funcDecl("WriteShard", "NodeProcessor")
		okLimit := false
		ast.Inspect(ws, func(n ast.Node) bool {
			fs, ok := n.(*ast.ForStmt)
			if !ok || fs.Cond == nil {
				return true
			}
			be, ok := fs.Cond.(*ast.BinaryExpr)
			if ok && be.Op == token.GTR && containsCall(be.X, "len") {
				if id, ok := be.Y.(*ast.Ident); ok && id.Name == "defaultSegmentSize" {
					okLimit = true
				}
			}
			return true
		})
		if !okLimit {
			die("NodeProcessor.WriteShard: split loop `for len(b) > defaultSegmentSize` not found")
		}
	})
}
