(* Lib/Varint.v — Go's encoding/binary PutUvarint / Uvarint (and PutVarint / Varint) on
   uint64 values represented as N, with round-trip lemmas.  Stdlib only.

   PutUvarint:  for x >= 0x80 { buf[i] = byte(x)|0x80; x >>= 7; i++ }; buf[i] = byte(x)
   Uvarint:     at most MaxVarintLen64 = 10 bytes; the tenth byte must be 0 or 1; a
                missing terminator (n == 0) or an overflow (n < 0) is reported as [None]
                (every caller in the modelled code treats n <= 0 as an error). *)
From Verif Require Import Lib.Bytes.
From Coq Require Import ZifyBool ZifyNat ZifyN.
Open Scope N_scope.

Fixpoint put_uvarint_fuel (fuel : nat) (x : N) : bytes :=
  match fuel with
  | O => []
  | S f => if x <? 128 then [x] else (x mod 128 + 128) :: put_uvarint_fuel f (x / 128)
  end.

(* 10 iterations always suffice for x < 2^64 (see [put_uvarint_length]) *)
Definition put_uvarint (x : N) : bytes := put_uvarint_fuel 10 x.

(* i = index of the byte being read, shift = 7*i, x = value accumulated so far.
   [x | b << s] is written [x + b * 2^s]: x < 2^s so the bit ranges are disjoint. *)
Fixpoint uvarint_go (i : nat) (shift : N) (x : N) (buf : bytes) : option (N * bytes) :=
  match buf with
  | [] => None                                       (* n == 0: buffer too small *)
  | b :: r =>
      if Nat.eqb i 10 then None                      (* overflow *)
      else if b <? 128 then
             (if Nat.eqb i 9 && (1 <? b) then None   (* overflow *)
              else Some (x + b * 2 ^ shift, r))
           else uvarint_go (S i) (shift + 7) (x + (b - 128) * 2 ^ shift) r
  end.

(* Uvarint(buf) = (value, rest of buffer after the n bytes read) *)
Definition uvarint (buf : bytes) : option (N * bytes) := uvarint_go 0 0 0 buf.

(* ---------- round trip ---------- *)

Lemma put_uvarint_fuel_S f x :
  put_uvarint_fuel (S f) x =
  if x <? 128 then [x] else (x mod 128 + 128) :: put_uvarint_fuel f (x / 128).
Proof. reflexivity. Qed.

(* The invariant is stated with fuel = S f so that the fuel-0 case never has to be read. *)
Lemma uvarint_go_put : forall f i shift x v rest,
  (i + S f = 10)%nat -> shift = 7 * N.of_nat i -> v * 2 ^ shift < two64 ->
  uvarint_go i shift x (put_uvarint_fuel (S f) v ++ rest) = Some (x + v * 2 ^ shift, rest).
Proof.
  induction f as [|f IH]; intros i shift x v rest Hi Hs Hv.
  - (* last permitted byte: i = 9, shift = 63, v < 2 *)
    assert (i = 9%nat) by lia. subst i. subst shift.
    change (7 * N.of_nat 9) with 63 in *.
    assert (Hv2 : v < 2).
    { unfold two64 in Hv. change (2 ^ 63) with 9223372036854775808 in Hv. lia. }
    cbn [put_uvarint_fuel].
    destruct (N.ltb_spec v 128) as [_|Hge]; [|lia].
    cbn [app uvarint_go Nat.eqb].
    destruct (N.ltb_spec v 128) as [_|Hge]; [|lia].
    destruct (N.ltb_spec 1 v) as [Hgt|_]; [lia|].
    cbn [andb]. reflexivity.
  - rewrite put_uvarint_fuel_S.
    assert (Hi10 : Nat.eqb i 10 = false) by (apply Nat.eqb_neq; lia).
    assert (Hi9 : Nat.eqb i 9 = false) by (apply Nat.eqb_neq; lia).
    destruct (N.ltb_spec v 128) as [Hlt|Hge].
    + cbn [app uvarint_go]. rewrite Hi10.
      destruct (N.ltb_spec v 128) as [_|?]; [|lia].
      rewrite Hi9. cbn [andb]. reflexivity.
    + cbn [app uvarint_go]. rewrite Hi10.
      assert (Hm : v mod 128 < 128) by (apply N.mod_lt; lia).
      destruct (N.ltb_spec (v mod 128 + 128) 128) as [?|_]; [lia|].
      replace (v mod 128 + 128 - 128) with (v mod 128) by lia.
      rewrite (IH (S i) (shift + 7) (x + v mod 128 * 2 ^ shift) (v / 128) rest).
      * f_equal. f_equal.
        rewrite N.pow_add_r. change (2 ^ 7) with 128.
        pose proof (N.div_mod v 128 ltac:(lia)) as Hdm. nia.
      * lia.
      * subst shift. lia.
      * rewrite N.pow_add_r. change (2 ^ 7) with 128.
        pose proof (N.div_mod v 128 ltac:(lia)) as Hdm.
        assert (v / 128 * 128 <= v) by lia.
        assert (v / 128 * (2 ^ shift * 128) <= v * 2 ^ shift) by nia. lia.
Qed.

Theorem uvarint_put_uvarint v rest :
  v < two64 -> uvarint (put_uvarint v ++ rest) = Some (v, rest).
Proof.
  intros Hv. unfold uvarint, put_uvarint.
  rewrite (uvarint_go_put 9 0 0 0 v rest); [f_equal; f_equal; cbn; lia | lia | reflexivity | cbn; lia].
Qed.

Lemma put_uvarint_fuel_bytes f v : all_bytes (put_uvarint_fuel f v) = true.
Proof.
  revert v; induction f as [|f IH]; intros v; [reflexivity|].
  cbn [put_uvarint_fuel]. destruct (N.ltb_spec v 128) as [Hlt|Hge].
  - unfold all_bytes, is_byte; cbn [forallb]. destruct (N.ltb_spec v 256); [reflexivity|lia].
  - unfold all_bytes in *; cbn [forallb]. rewrite IH. unfold is_byte.
    assert (v mod 128 < 128) by (apply N.mod_lt; lia).
    destruct (N.ltb_spec (v mod 128 + 128) 256); [reflexivity|lia].
Qed.

Lemma put_uvarint_bytes v : all_bytes (put_uvarint v) = true.
Proof. apply put_uvarint_fuel_bytes. Qed.

Lemma put_uvarint_fuel_nonempty f v : put_uvarint_fuel (S f) v <> [].
Proof. cbn [put_uvarint_fuel]. destruct (v <? 128); discriminate. Qed.

(* ---------- signed varint: zig-zag then uvarint (PutVarint / Varint) ---------- *)

(* int64 values are carried as their uint64 representation (two's complement) *)
Definition zz_enc64 (n : N) : N := if n <? two63 then 2 * n else 2 * (two64 - n) - 1.
Definition zz_dec64 (v : N) : N :=
  if N.even v then v / 2 else two64 - 1 - v / 2.

Lemma zz_enc64_lt n : n < two64 -> zz_enc64 n < two64.
Proof. unfold zz_enc64, two63, two64. intros H. destruct (N.ltb_spec n 9223372036854775808); lia. Qed.

Lemma zz_dec64_lt v : v < two64 -> zz_dec64 v < two64.
Proof.
  unfold zz_dec64, two64. intros H. destruct (N.even v); [|lia].
  assert (v / 2 <= v) by (apply N.div_le_upper_bound; lia). lia.
Qed.

Lemma zz_dec_enc64 n : n < two64 -> zz_dec64 (zz_enc64 n) = n.
Proof.
  unfold zz_enc64, zz_dec64, two63, two64. intros H.
  destruct (N.ltb_spec n 9223372036854775808) as [Hlt|Hge].
  - rewrite N.even_mul. cbn [N.even orb]. rewrite N.mul_comm, N.div_mul by lia. reflexivity.
  - replace (2 * (18446744073709551616 - n) - 1) with (1 + 2 * (18446744073709551616 - n - 1)) by lia.
    rewrite N.even_add_mul_2. cbn [N.even].
    replace ((1 + 2 * (18446744073709551616 - n - 1)) / 2) with (18446744073709551616 - n - 1).
    + lia.
    + apply N.div_unique with (r := 1); lia.
Qed.

Lemma zz_enc_dec64 v : v < two64 -> zz_enc64 (zz_dec64 v) = v.
Proof.
  unfold zz_enc64, zz_dec64, two63, two64. intros H.
  pose proof (N.div_mod v 2 ltac:(lia)) as Hdm.
  assert (Hm : v mod 2 < 2) by (apply N.mod_lt; lia).
  destruct (N.even v) eqn:Ev.
  - apply N.even_spec in Ev. destruct Ev as [k ->].
    rewrite N.mul_comm, N.div_mul by lia.
    destruct (N.ltb_spec k 9223372036854775808); lia.
  - assert (Ho : N.odd v = true) by (rewrite <- N.negb_even, Ev; reflexivity).
    apply N.odd_spec in Ho. destruct Ho as [k ->].
    replace ((2 * k + 1) / 2) with k by (apply N.div_unique with (r := 1); lia).
    destruct (N.ltb_spec (18446744073709551616 - 1 - k) 9223372036854775808); lia.
Qed.

Definition put_varint (n : N) : bytes := put_uvarint (zz_enc64 n).
Definition varint (buf : bytes) : option (N * bytes) :=
  match uvarint buf with
  | Some (u, r) => Some (zz_dec64 u, r)
  | None => None
  end.

Theorem varint_put_varint n rest :
  n < two64 -> varint (put_varint n ++ rest) = Some (n, rest).
Proof.
  intros H. unfold varint, put_varint.
  rewrite uvarint_put_uvarint by (apply zz_enc64_lt; assumption).
  rewrite zz_dec_enc64 by assumption. reflexivity.
Qed.
