(* Lib/Bytes.v — bytes as N, byte strings as list N, big-endian integers,
   checked reads (no totalised access).  Stdlib only. *)
From Coq Require Export List NArith ZArith Lia Bool.
From Coq Require Import ZifyBool ZifyNat ZifyN.
Export ListNotations.
Open Scope N_scope.

Definition byte := N.
Definition bytes := list N.

Definition is_byte (b : N) : bool := b <? 256.
Definition all_bytes (l : bytes) : bool := forallb is_byte l.

(* checked split: None when fewer than n elements (Go: short read / slice OOB) *)
Fixpoint take {A} (n : nat) (l : list A) : option (list A * list A) :=
  match n with
  | O => Some ([], l)
  | S n' => match l with
            | [] => None
            | x :: xs => match take n' xs with
                         | Some (a, b) => Some (x :: a, b)
                         | None => None
                         end
            end
  end.

Lemma take_app {A} (a b : list A) : take (length a) (a ++ b) = Some (a, b).
Proof. induction a as [|x a IH]; cbn; [reflexivity|]. rewrite IH. reflexivity. Qed.

Lemma take_some {A} n (l a b : list A) :
  take n l = Some (a, b) -> l = a ++ b /\ length a = n.
Proof.
  revert l a b; induction n as [|n IH]; intros l a b H; cbn in H.
  - inversion H; subst; auto.
  - destruct l as [|x xs]; [discriminate|].
    destruct (take n xs) as [[a' b']|] eqn:E; [|discriminate].
    inversion H; subst. apply IH in E. destruct E as [-> <-]. auto.
Qed.

Lemma take_none {A} n (l : list A) : take n l = None <-> (length l < n)%nat.
Proof.
  revert l; induction n as [|n IH]; intros l; cbn.
  - split; [discriminate|lia].
  - destruct l as [|x xs]; cbn; [split; [lia|reflexivity]|].
    specialize (IH xs). destruct (take n xs) as [[a b]|].
    + split; [discriminate|]. intros H. assert (length xs < n)%nat by lia.
      apply IH in H0. discriminate.
    + split; [intros _|reflexivity]. assert (length xs < n)%nat by (apply IH; reflexivity). lia.
Qed.

(* big-endian encoding of a value into n bytes (value taken mod 256^n) *)
Fixpoint be_enc (n : nat) (v : N) : bytes :=
  match n with
  | O => []
  | S n' => (v / 256 ^ N.of_nat n') mod 256 :: be_enc n' v
  end.

Fixpoint be_dec_acc (acc : N) (l : bytes) : N :=
  match l with
  | [] => acc
  | b :: r => be_dec_acc (acc * 256 + b) r
  end.
Definition be_dec (l : bytes) : N := be_dec_acc 0 l.

Lemma be_enc_length n v : length (be_enc n v) = n.
Proof. induction n; cbn; auto. Qed.

Lemma be_enc_bytes n v : all_bytes (be_enc n v) = true.
Proof.
  unfold all_bytes in *. induction n as [|n IH]; cbn [be_enc forallb]; [reflexivity|].
  rewrite IH. unfold is_byte.
  assert ((v / 256 ^ N.of_nat n) mod 256 < 256) by (apply N.mod_lt; lia).
  apply andb_true_iff; split; [apply N.ltb_lt; assumption|reflexivity].
Qed.

Lemma be_dec_acc_app acc a b :
  be_dec_acc acc (a ++ b) = be_dec_acc (be_dec_acc acc a) b.
Proof. revert acc; induction a as [|x a IH]; intros acc; cbn; auto. Qed.

Lemma be_dec_enc_acc n : forall v acc,
  be_dec_acc acc (be_enc n v) = acc * 256 ^ N.of_nat n + v mod 256 ^ N.of_nat n.
Proof.
  induction n as [|n IH]; intros v acc.
  - cbn. rewrite N.mod_1_r. lia.
  - cbn [be_enc be_dec_acc]. rewrite IH.
    replace (N.of_nat (S n)) with (N.succ (N.of_nat n)) by lia.
    rewrite N.pow_succ_r'.
    set (p := 256 ^ N.of_nat n).
    assert (Hp : p <> 0) by (apply N.pow_nonzero; lia).
    (* v mod (256*p) = ((v/p) mod 256) * p + v mod p *)
    assert (H : v mod (256 * p) = (v / p) mod 256 * p + v mod p).
    { rewrite (N.mul_comm 256 p). rewrite N.mod_mul_r by lia. lia. }
    rewrite H. lia.
Qed.

Lemma be_dec_enc n v : v < 256 ^ N.of_nat n -> be_dec (be_enc n v) = v.
Proof.
  intros H. unfold be_dec. rewrite be_dec_enc_acc. rewrite N.mod_small by assumption. lia.
Qed.

(* 64-bit two's complement *)
Definition two64 : N := 18446744073709551616.
Definition two63 : N := 9223372036854775808.
Definition to_int64 (v : N) : Z :=
  if v <? two63 then Z.of_N v else Z.of_N v - Z.of_N two64.
Definition of_int64 (z : Z) : N := Z.to_N (z mod Z.of_N two64).

Lemma to_of_int64 z :
  (- Z.of_N two63 <= z < Z.of_N two63)%Z -> to_int64 (of_int64 z) = z.
Proof.
  intros H. unfold to_int64, of_int64, two63, two64 in *.
  destruct (Z.ltb_spec z 0).
  - assert (E : (z mod 18446744073709551616 = z + 18446744073709551616)%Z).
    { symmetry. apply Z.mod_unique with (q := (-1)%Z); lia. }
    cbn [Z.of_N] in *. rewrite E.
    destruct (N.ltb_spec (Z.to_N (z + 18446744073709551616)) 9223372036854775808); lia.
  - cbn [Z.of_N] in *. rewrite Z.mod_small by lia.
    destruct (N.ltb_spec (Z.to_N z) 9223372036854775808); lia.
Qed.

Lemma of_int64_lt z : of_int64 z < two64.
Proof.
  unfold of_int64, two64. cbn [Z.of_N].
  pose proof (Z.mod_pos_bound z 18446744073709551616 ltac:(lia)). lia.
Qed.

Lemma two64_pow : two64 = 256 ^ N.of_nat 8.
Proof. reflexivity. Qed.
