(* C19/ProofsCacheInit.v — the repaired Cache.init (ring installed and only then the flag
   set, both in one locked section) loses no acknowledged write under any schedule; the
   pinned flag-first init does. *)
From Verif Require Import C19.Model C19.CacheInit C19.ProofsGen C19.ProofsPool.
Open Scope N_scope.

Record cinv (s : cstate) : Prop := mkCinv {
  ci_noinst : forall w, c_ph s w <> CMustInstall;
  ci_cold : c_flag s = false ->
            c_store s = HEmpty /\ c_acked s = [] /\ forall w, c_ph s w = CStart \/ c_ph s w = CSlow;
  ci_hot : c_flag s = true -> exists g, c_store s = HRing g;
  ci_fetched : forall w h, c_ph s w = CFetched h -> h = c_store s;
  ci_written : forall w v, c_ph s w = CWritten v -> In v (cvisible s);
  ci_acked : incl (c_acked s) (cvisible s)
}.

Lemma cinv_init : cinv cinit.
Proof.
  constructor; cbn; intros; try discriminate; auto.
  intros x Hx. destruct Hx.
Qed.

(* a step that only moves thread w to a phase that carries no obligation of its own *)
Lemma cinv_set_plain s w p :
  cinv s -> p <> CMustInstall ->
  (c_flag s = false -> p = CStart \/ p = CSlow) ->
  (forall h, p = CFetched h -> h = c_store s) ->
  (forall v, p = CWritten v -> In v (cvisible s)) ->
  cinv (cset_ph s w p).
Proof.
  intros [I1 I2 I3 I4 I5 I6] Hp Hcold Hf Hw.
  constructor; cbn [cset_ph c_ph c_flag c_store c_acked]; unfold cvisible in *; cbn [c_store c_rings].
  - intros w0. unfold upd. destruct (N.eqb w0 w); [exact Hp|apply I1].
  - intros Hc. destruct (I2 Hc) as (A & B & C). repeat split; try assumption.
    intros w0. unfold upd. destruct (N.eqb w0 w); [apply Hcold, Hc|apply C].
  - exact I3.
  - intros w0 h. unfold upd. destruct (N.eqb w0 w); [apply Hf|apply I4].
  - intros w0 v. unfold upd. destruct (N.eqb w0 w); [apply Hw|apply I5].
  - exact I6.
Qed.

Lemma cold_phase s w : cinv s -> c_flag s = false -> c_ph s w = CStart \/ c_ph s w = CSlow.
Proof. intros I Hc. destruct (ci_cold s I Hc) as (_ & _ & C). apply C. Qed.

Ltac ctriv := try assumption; try (intros; discriminate); try (intros; congruence).

Lemma cexec_inv a s : cinv s -> cinv (cexec a s).
Proof.
  intros I. unfold cexec.
  destruct a as [w|w|w|w v|w]; cbn [cexec_with].
  - (* CInit1 *)
    destruct (c_ph s w) eqn:E; try exact I.
    destruct (c_flag s) eqn:F.
    + apply cinv_set_plain; ctriv.
    + apply cinv_set_plain; ctriv. intros _. right; reflexivity.
  - (* CInit2 *)
    destruct (c_ph s w) eqn:E; try exact I.
    + exfalso. eapply ci_noinst; eauto.
    + destruct (c_flag s) eqn:F.
      * apply cinv_set_plain; ctriv.
      * (* the first locked init: install the ring, then set the flag *)
        destruct (ci_cold s I F) as (Hs & Ha & Hph).
        constructor; cbn [c_ph c_flag c_store c_acked c_gen c_rings]; unfold cvisible; cbn [c_store c_rings].
        -- intros w0. unfold upd. destruct (N.eqb w0 w); [discriminate|apply (ci_noinst s I)].
        -- discriminate.
        -- intros _. eexists; reflexivity.
        -- intros w0 h. unfold upd. destruct (N.eqb w0 w); [discriminate|].
           intros H. destruct (Hph w0) as [P|P]; rewrite P in H; discriminate.
        -- intros w0 v. unfold upd. destruct (N.eqb w0 w); [discriminate|].
           intros H. destruct (Hph w0) as [P|P]; rewrite P in H; discriminate.
        -- rewrite Ha. intros x Hx. destruct Hx.
  - (* CFetch *)
    destruct (c_ph s w) eqn:E; try exact I.
    apply cinv_set_plain; ctriv.
    intros Hc. destruct (cold_phase s w I Hc) as [P|P]; rewrite P in E; discriminate.
  - (* CWrite *)
    destruct (c_ph s w) as [| | | |h| |] eqn:E; try exact I.
    assert (Hh : h = c_store s) by (eapply ci_fetched; eauto).
    assert (Fl : c_flag s = true).
    { destruct (c_flag s) eqn:F; [reflexivity|].
      destruct (cold_phase s w I F) as [P|P]; rewrite P in E; discriminate. }
    destruct (ci_hot s I Fl) as [g Hg].
    destruct h as [|g0].
    + rewrite Hg in Hh; discriminate.
    + assert (g0 = g) by (rewrite Hg in Hh; inversion Hh; reflexivity). subst g0.
      constructor; cbn [c_ph c_flag c_store c_acked c_gen c_rings]; unfold cvisible; cbn [c_store c_rings];
        rewrite ?Hg.
      * intros w0. unfold upd at 1. destruct (N.eqb w0 w); [discriminate|apply (ci_noinst s I)].
      * intros Hc. rewrite Hc in Fl; discriminate.
      * intros _. eexists; reflexivity.
      * intros w0 h. unfold upd at 1. destruct (N.eqb w0 w); [discriminate|].
        intros H. rewrite <- Hg. eapply ci_fetched; eauto.
      * intros w0 v0. unfold upd at 1 2. rewrite N.eqb_refl.
        destruct (N.eqb w0 w).
        -- intros H. inversion H; subst. apply in_or_app. right. left. reflexivity.
        -- intros H. apply in_or_app. left.
           pose proof (ci_written s I w0 v0 H) as V. unfold cvisible in V. rewrite Hg in V. exact V.
      * unfold upd. rewrite N.eqb_refl. intros x Hx. apply in_or_app. left.
        pose proof (ci_acked s I x Hx) as V. unfold cvisible in V. rewrite Hg in V. exact V.
  - (* CAck *)
    destruct (c_ph s w) as [| | | | |v|] eqn:E; try exact I.
    assert (Fl : c_flag s = true).
    { destruct (c_flag s) eqn:F; [reflexivity|].
      destruct (cold_phase s w I F) as [P|P]; rewrite P in E; discriminate. }
    constructor; cbn [c_ph c_flag c_store c_acked c_gen c_rings]; unfold cvisible; cbn [c_store c_rings].
    + intros w0. unfold upd. destruct (N.eqb w0 w); [discriminate|apply (ci_noinst s I)].
    + intros Hc. rewrite Hc in Fl; discriminate.
    + apply (ci_hot s I).
    + intros w0 h. unfold upd. destruct (N.eqb w0 w); [discriminate|apply (ci_fetched s I)].
    + intros w0 v0. unfold upd. destruct (N.eqb w0 w); [discriminate|apply (ci_written s I)].
    + intros x Hx. apply in_app_or in Hx. destruct Hx as [Hx|[Hx|[]]].
      * apply (ci_acked s I x Hx).
      * subst x. apply (ci_written s I w v E).
Qed.

Lemma cache_init_trace_inv tr : cinv (run_trace cexec tr cinit).
Proof. apply run_trace_inv; [intros; apply cexec_inv; assumption|apply cinv_init]. Qed.

Lemma cinv_acked_visible s : cinv s -> cache_acked_visible s = true.
Proof. intros I. unfold cache_acked_visible. apply subset_incl. apply (ci_acked s I). Qed.

(* the store, once installed, is never replaced: what is visible stays visible *)
Lemma cexec_visible_mono a s : cinv s -> incl (cvisible s) (cvisible (cexec a s)).
Proof.
  intros I x Hx. unfold cexec.
  assert (Fl : c_flag s = true).
  { destruct (c_flag s) eqn:F; [reflexivity|].
    destruct (ci_cold s I F) as (Hs & _ & _). unfold cvisible in Hx. rewrite Hs in Hx. destruct Hx. }
  destruct (ci_hot s I Fl) as [g Hg].
  destruct a as [w|w|w|w v|w]; cbn [cexec_with].
  - destruct (c_ph s w); try exact Hx. rewrite Fl. exact Hx.
  - destruct (c_ph s w) eqn:E; try exact Hx.
    + exfalso. eapply ci_noinst; eauto.
    + rewrite Fl. exact Hx.
  - destruct (c_ph s w); exact Hx.
  - destruct (c_ph s w) as [| | | |h| |] eqn:E; try exact Hx.
    destruct h as [|g0]; [exact Hx|].
    unfold cvisible in *; cbn [c_store c_rings]. rewrite Hg in *.
    unfold upd. destruct (N.eqb_spec g g0); [subst; apply in_or_app; left; exact Hx|exact Hx].
  - destruct (c_ph s w); exact Hx.
Qed.

(* the pinned code: the loser of the CAS writes into the empty store and is acknowledged;
   then the winner installs the ring *)
Definition lost_first_write_trace : list cact :=
  [CInit1 1; CInit1 2; CFetch 2; CWrite 2 22; CAck 2; CInit2 1; CFetch 1; CWrite 1 11; CAck 1].

Lemma flag_first_loses_write :
  let s := run_trace (cexec_with true) lost_first_write_trace cinit in
  c_acked s = [22; 11] /\ cvisible s = [11] /\ cache_acked_visible s = false.
Proof. vm_compute. repeat split. Qed.

Lemma store_first_same_schedule :
  let s := run_trace cexec lost_first_write_trace cinit in
  cache_acked_visible s = true.
Proof. vm_compute. reflexivity. Qed.
