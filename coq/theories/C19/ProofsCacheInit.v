(* C19/ProofsCacheInit.v — the repaired Cache.init (ring installed and only then the flag
   set, both in one locked section) and the repaired Engine.Free (exclusive engine lock,
   second look at the cache size) lose no acknowledged write under any schedule; the
   pinned flag-first init and the pinned unlocked Free each do. *)
From Verif Require Import C19.Model C19.CacheInit C19.ProofsGen C19.ProofsPool.
From Coq Require Import ZifyBool ZifyN.
Open Scope N_scope.

Definition coldphase (p : cphase) : Prop := p = CStart \/ p = CEntered \/ p = CSlow \/ p = CAcked.

Record cinv (s : cstate) : Prop := mkCinv {
  ci_noinst : forall w, c_ph s w <> CMustInstall;
  ci_inside : forall w, c_ph s w = CStart \/ c_ph s w = CAcked \/ In w (c_inside s);
  ci_cold : c_flag s = false -> c_store s = HEmpty /\ forall w, coldphase (c_ph s w);
  ci_size : c_size s = 0 -> cring s = [] /\ forall w v, c_ph s w <> CWritten v;
  ci_hot : c_flag s = true -> exists g, c_store s = HRing g /\ g < c_gen s;
  ci_fresh : forall g, c_gen s <= g -> c_rings s g = [];
  ci_fetched : forall w h, c_ph s w = CFetched h -> h = c_store s;
  ci_written : forall w v, c_ph s w = CWritten v -> In v (cring s);
  ci_acked : incl (c_acked s) (cvisible s)
}.

Ltac simp_s :=
  cbn [c_ph c_flag c_store c_acked c_size c_inside c_gen c_rings c_files c_fph cset_ph cset_fph] in *.
Ltac unf_vis := unfold cvisible, cring in *; simp_s.

Lemma cinv_init : cinv cinit.
Proof.
  constructor; cbn; intros; try discriminate; auto.
  - split; auto. intros; left; reflexivity.
  - split; [reflexivity|]. intros; discriminate.
  - intros x Hx. destruct Hx.
Qed.

Lemma cold_phase s w : cinv s -> c_flag s = false -> coldphase (c_ph s w).
Proof. intros I Hc. destruct (ci_cold s I Hc) as (_ & C). apply C. Qed.

(* a thread past init (and not finished) witnesses that the flag is set *)
Lemma hot_of_phase s w : cinv s -> ~ coldphase (c_ph s w) -> c_flag s = true.
Proof.
  intros I Hn. destruct (c_flag s) eqn:F; [reflexivity|]. exfalso. apply Hn. apply cold_phase; assumption.
Qed.

Ltac notcold E := unfold coldphase; rewrite E; intros [X|[X|[X|X]]]; discriminate X.

(* thread w, which holds the read lock before and after, moves to a phase p that is neither
   written nor acknowledged; nothing else changes *)
Lemma cinv_move s w p :
  cinv s -> In w (c_inside s) ->
  p <> CMustInstall -> (forall v, p <> CWritten v) ->
  (c_flag s = false -> coldphase p) ->
  (forall h, p = CFetched h -> h = c_store s) ->
  cinv (cset_ph s w p).
Proof.
  intros [I1 I2 I3 I4 I5 I6 I7 I8 I9] Hin Hp Hnw Hcold Hf.
  constructor; simp_s; unf_vis.
  - intros w0. unfold upd. destruct (N.eqb w0 w); [exact Hp|apply I1].
  - intros w0. unfold upd. destruct (N.eqb_spec w0 w) as [->|]; [right; right; exact Hin|apply I2].
  - intros Hc. destruct (I3 Hc) as (A & C). split; [exact A|].
    intros w0. unfold upd. destruct (N.eqb w0 w); [apply Hcold, Hc|apply C].
  - intros Hz. destruct (I4 Hz) as (A & C). split; [exact A|].
    intros w0 v. unfold upd. destruct (N.eqb w0 w); [apply Hnw|apply C].
  - exact I5.
  - exact I6.
  - intros w0 h. unfold upd. destruct (N.eqb w0 w); [apply Hf|apply I7].
  - intros w0 v. unfold upd. destruct (N.eqb w0 w); [intros H; exfalso; eapply Hnw; eauto|apply I8].
  - exact I9.
Qed.

(* only a monitor thread's phase changes *)
Lemma cinv_set_fph s f p : cinv s -> cinv (cset_fph s f p).
Proof. intros [I1 I2 I3 I4 I5 I6 I7 I8 I9]. constructor; simp_s; unf_vis; assumption. Qed.

Lemma inside_of_phase s w : cinv s -> c_ph s w <> CStart -> c_ph s w <> CAcked -> In w (c_inside s).
Proof. intros I A B. destruct (ci_inside s I w) as [H|[H|H]]; [contradiction|contradiction|exact H]. Qed.

(* nobody holds the read lock: every thread is before its write or has been acknowledged *)
Lemma all_outside s : cinv s -> c_inside s = [] -> forall w, c_ph s w = CStart \/ c_ph s w = CAcked.
Proof.
  intros I Ein w. destruct (ci_inside s I w) as [H|[H|H]]; [left; exact H|right; exact H|].
  rewrite Ein in H. destruct H.
Qed.

Lemma cexec_inv a s : cinv s -> cinv (cexec a s).
Proof.
  intros I. unfold cexec.
  destruct a as [w|w|w|w|w v|w|f|f|]; cbn [cexec_with].
  - (* CEnter *)
    destruct (c_ph s w) eqn:E; try exact I.
    destruct I as [I1 I2 I3 I4 I5 I6 I7 I8 I9].
    constructor; simp_s; unf_vis; try assumption.
    + intros w0. unfold upd. destruct (N.eqb w0 w); [discriminate|apply I1].
    + intros w0. unfold upd. destruct (N.eqb_spec w0 w) as [->|]; [right; right; left; reflexivity|].
      destruct (I2 w0) as [H|[H|H]]; auto. right; right; right; exact H.
    + intros Hc. destruct (I3 Hc) as (A & C). split; [exact A|].
      intros w0. unfold upd. destruct (N.eqb w0 w); [right; left; reflexivity|apply C].
    + intros Hz. destruct (I4 Hz) as (A & C). split; [exact A|].
      intros w0 v. unfold upd. destruct (N.eqb w0 w); [discriminate|apply C].
    + intros w0 h. unfold upd. destruct (N.eqb w0 w); [discriminate|apply I7].
    + intros w0 v. unfold upd. destruct (N.eqb w0 w); [discriminate|apply I8].
  - (* CInit1 *)
    destruct (c_ph s w) eqn:E; try exact I.
    assert (Hin : In w (c_inside s)) by (apply inside_of_phase; try assumption; rewrite E; discriminate).
    destruct (c_flag s) eqn:F.
    + apply cinv_move; try assumption; try discriminate; intros; congruence.
    + apply cinv_move; try assumption; try discriminate; try (intros; congruence).
      intros _. right; right; left; reflexivity.
  - (* CInit2 *)
    destruct (c_ph s w) eqn:E; try exact I.
    + exfalso. eapply ci_noinst; eauto.
    + assert (Hin : In w (c_inside s)) by (apply inside_of_phase; try assumption; rewrite E; discriminate).
      destruct (c_flag s) eqn:F.
      * apply cinv_move; try assumption; try discriminate; intros; congruence.
      * (* the first locked init: install the ring, then set the flag *)
        destruct (ci_cold s I F) as (Hs & Hph).
        destruct I as [I1 I2 I3 I4 I5 I6 I7 I8 I9].
        assert (Hfresh : c_rings s (c_gen s) = []) by (apply I6; lia).
        constructor; simp_s; unf_vis; rewrite ?Hs in *; rewrite ?Hfresh.
        -- intros w0. unfold upd. destruct (N.eqb w0 w); [discriminate|apply I1].
        -- intros w0. unfold upd. destruct (N.eqb_spec w0 w) as [->|]; [right; right; exact Hin|apply I2].
        -- discriminate.
        -- intros _. split; [reflexivity|].
           intros w0 v. unfold upd. destruct (N.eqb w0 w); [discriminate|].
           intros H. destruct (Hph w0) as [P|[P|[P|P]]]; rewrite P in H; discriminate.
        -- intros _. exists (c_gen s). split; [reflexivity|lia].
        -- intros g Hg. apply I6. lia.
        -- intros w0 h. unfold upd. destruct (N.eqb w0 w); [discriminate|].
           intros H. destruct (Hph w0) as [P|[P|[P|P]]]; rewrite P in H; discriminate.
        -- intros w0 v. unfold upd. destruct (N.eqb w0 w); [discriminate|].
           intros H. destruct (Hph w0) as [P|[P|[P|P]]]; rewrite P in H; discriminate.
        -- exact I9.
  - (* CFetch *)
    destruct (c_ph s w) eqn:E; try exact I.
    assert (Hin : In w (c_inside s)) by (apply inside_of_phase; try assumption; rewrite E; discriminate).
    apply cinv_move; try assumption; try discriminate; try (intros; congruence).
    intros Hc. exfalso. pose proof (cold_phase s w I Hc) as P. revert P. notcold E.
  - (* CWrite *)
    destruct (c_ph s w) as [| | | | |h| |] eqn:E; try exact I.
    assert (Hin : In w (c_inside s)) by (apply inside_of_phase; try assumption; rewrite E; discriminate).
    assert (Hh : h = c_store s) by (eapply ci_fetched; eauto).
    assert (Fl : c_flag s = true) by (apply (hot_of_phase s w I); notcold E).
    destruct (ci_hot s I Fl) as (g & Hg & Hlt).
    destruct h as [|g0]; [rewrite Hg in Hh; discriminate|].
    assert (g0 = g) by (rewrite Hg in Hh; inversion Hh; reflexivity). subst g0.
    destruct I as [I1 I2 I3 I4 I5 I6 I7 I8 I9].
    constructor; simp_s; unf_vis; rewrite ?Hg in *.
    + intros w0. unfold upd. destruct (N.eqb w0 w); [discriminate|apply I1].
    + intros w0. unfold upd. destruct (N.eqb_spec w0 w) as [->|]; [right; right; exact Hin|apply I2].
    + intros Hc. rewrite Hc in Fl; discriminate.
    + intros Hz. lia.
    + intros _. exists g. split; [reflexivity|exact Hlt].
    + intros g1 Hg1. unfold upd. destruct (N.eqb_spec g1 g); [lia|apply I6, Hg1].
    + intros w0 h. unfold upd. destruct (N.eqb w0 w); [discriminate|].
      intros H. eapply I7; eauto.
    + intros w0 v0. unfold upd at 1 2. rewrite N.eqb_refl.
      destruct (N.eqb w0 w).
      * intros H. inversion H; subst. apply in_or_app. right. left. reflexivity.
      * intros H. apply in_or_app. left. apply (I8 w0 v0 H).
    + unfold upd. rewrite N.eqb_refl. intros x Hx. apply I9 in Hx.
      apply in_app_or in Hx. apply in_or_app. destruct Hx as [Hx|Hx]; [left; exact Hx|].
      right. apply in_or_app. left. exact Hx.
  - (* CAck *)
    destruct (c_ph s w) as [| | | | | |v|] eqn:E; try exact I.
    assert (Fl : c_flag s = true) by (apply (hot_of_phase s w I); notcold E).
    assert (Hnz : c_size s <> 0).
    { intros Hz. destruct (ci_size s I Hz) as (_ & C). eapply C; eauto. }
    destruct I as [I1 I2 I3 I4 I5 I6 I7 I8 I9].
    constructor; simp_s; unf_vis; try assumption.
    + intros w0. unfold upd. destruct (N.eqb w0 w); [discriminate|apply I1].
    + intros w0. unfold upd. destruct (N.eqb_spec w0 w) as [->|Hne]; [right; left; reflexivity|].
      destruct (I2 w0) as [H|[H|H]]; auto. right; right. apply in_in_remove; assumption.
    + intros Hc. rewrite Hc in Fl; discriminate.
    + intros Hz. contradiction.
    + intros w0 h. unfold upd. destruct (N.eqb w0 w); [discriminate|apply I7].
    + intros w0 v0. unfold upd. destruct (N.eqb w0 w); [discriminate|apply I8].
    + intros x Hx. apply in_app_or in Hx. destruct Hx as [Hx|[Hx|[]]].
      * apply (I9 x Hx).
      * subst x. apply in_or_app. right. apply (I8 w v E).
  - (* CIdle *)
    destruct (c_fph s f); try exact I. apply cinv_set_fph, I.
  - (* CFree *)
    destruct (c_fph s f) as [|[|]|]; try exact I; [|apply cinv_set_fph, I].
    destruct (c_inside s) as [|x l] eqn:Ein; [|exact I].
    destruct (N.eqb_spec (c_size s) 0) as [Hz|Hnz]; [|apply cinv_set_fph, I].
    destruct (c_flag s) eqn:Fl; [|apply cinv_set_fph, I].
    (* the release: nobody holds the read lock and the cache is empty *)
    destruct (ci_size s I Hz) as (Hr & Hnw).
    pose proof (all_outside s I Ein) as Hout.
    destruct I as [I1 I2 I3 I4 I5 I6 I7 I8 I9].
    constructor; simp_s; unf_vis.
    + exact I1.
    + intros w. destruct (Hout w) as [H|H]; [left; exact H|right; left; exact H].
    + intros _. split; [reflexivity|]. intros w. destruct (Hout w) as [H|H]; rewrite H; unfold coldphase; auto.
    + intros _. split; [reflexivity|]. exact Hnw.
    + discriminate.
    + exact I6.
    + intros w h H. destruct (Hout w) as [P|P]; rewrite P in H; discriminate.
    + intros w v H. destruct (Hout w) as [P|P]; rewrite P in H; discriminate.
    + intros y Hy. apply I9 in Hy. rewrite Hr in Hy. exact Hy.
  - (* CFlush *)
    destruct (c_inside s) as [|x l] eqn:Ein; [|exact I].
    destruct (c_store s) as [|g] eqn:Hg; [exact I|].
    pose proof (all_outside s I Ein) as Hout.
    destruct I as [I1 I2 I3 I4 I5 I6 I7 I8 I9].
    constructor; simp_s; unf_vis; rewrite ?Hg in *.
    + exact I1.
    + intros w. destruct (Hout w) as [H|H]; [left; exact H|right; left; exact H].
    + intros Hc. destruct (I3 Hc) as (A & _). discriminate A.
    + intros _. split; [unfold upd; rewrite N.eqb_refl; reflexivity|].
      intros w v H. destruct (Hout w) as [P|P]; rewrite P in H; discriminate.
    + exact I5.
    + intros g1 Hg1. unfold upd. destruct (N.eqb g1 g); [reflexivity|apply I6, Hg1].
    + intros w h H. destruct (Hout w) as [P|P]; rewrite P in H; discriminate.
    + intros w v H. destruct (Hout w) as [P|P]; rewrite P in H; discriminate.
    + intros y Hy. apply I9 in Hy. apply in_or_app. left. exact Hy.
Qed.

Lemma cache_init_trace_inv tr : cinv (run_trace cexec tr cinit).
Proof. apply run_trace_inv; [intros; apply cexec_inv; assumption|apply cinv_init]. Qed.

Lemma cinv_acked_visible s : cinv s -> cache_acked_visible s = true.
Proof. intros I. unfold cache_acked_visible. apply subset_incl. apply (ci_acked s I). Qed.

(* a step never takes a visible value away: a ring is replaced only while it is empty, and
   a flush moves its values to the files *)
Lemma cexec_visible_mono a s : cinv s -> incl (cvisible s) (cvisible (cexec a s)).
Proof.
  intros I x Hx. unfold cexec.
  destruct a as [w|w|w|w|w v|w|f|f|]; cbn [cexec_with].
  - destruct (c_ph s w); exact Hx.
  - destruct (c_ph s w); try exact Hx. destruct (c_flag s); exact Hx.
  - destruct (c_ph s w) eqn:E; try exact Hx.
    + exfalso. eapply ci_noinst; eauto.
    + destruct (c_flag s) eqn:F; [exact Hx|].
      destruct (ci_cold s I F) as (Hs & _). unf_vis. rewrite Hs in Hx.
      apply in_app_or in Hx. apply in_or_app. destruct Hx as [Hx|[]]. left; exact Hx.
  - destruct (c_ph s w); exact Hx.
  - destruct (c_ph s w) as [| | | | |h| |] eqn:E; try exact Hx.
    destruct h as [|g0]; [exact Hx|].
    unf_vis. apply in_app_or in Hx. apply in_or_app. destruct Hx as [Hx|Hx]; [left; exact Hx|right].
    destruct (c_store s) as [|g]; [exact Hx|].
    unfold upd. destruct (N.eqb_spec g g0); [subst; apply in_or_app; left; exact Hx|exact Hx].
  - destruct (c_ph s w); exact Hx.
  - destruct (c_fph s f); exact Hx.
  - destruct (c_fph s f) as [|[|]|]; try exact Hx.
    destruct (c_inside s); [|exact Hx].
    destruct (N.eqb_spec (c_size s) 0) as [Hz|Hnz]; [|exact Hx].
    destruct (c_flag s); [|exact Hx].
    destruct (ci_size s I Hz) as (Hr & _). unf_vis. 
    apply in_app_or in Hx. apply in_or_app. destruct Hx as [Hx|Hx]; [left; exact Hx|].
    rewrite Hr in Hx. destruct Hx.
  - destruct (c_inside s); [|exact Hx].
    destruct (c_store s) as [|g] eqn:Hg; [exact Hx|].
    unf_vis. rewrite Hg in Hx. apply in_or_app. left. exact Hx.
Qed.

(* the pinned init: the loser of the CAS writes into the empty store and is acknowledged;
   then the winner installs the ring *)
Definition lost_first_write_trace : list cact :=
  [CEnter 1; CEnter 2; CInit1 1; CInit1 2; CFetch 2; CWrite 2 22; CAck 2; CInit2 1; CFetch 1; CWrite 1 11; CAck 1].

Lemma flag_first_loses_write :
  let s := run_trace (cexec_with true false) lost_first_write_trace cinit in
  c_acked s = [22; 11] /\ cvisible s = [11] /\ cache_acked_visible s = false.
Proof. vm_compute. repeat split. Qed.

Lemma store_first_same_schedule :
  cache_acked_visible (run_trace cexec lost_first_write_trace cinit) = true.
Proof. vm_compute. reflexivity. Qed.

(* the pinned Free: the cache is allocated and empty (writer 1's value went to a file);
   writer 2 has fetched the ring when the monitor, which found the cache empty, releases
   it; the write lands in the discarded ring and is acknowledged *)
Definition lost_to_free_trace : list cact :=
  cwriter 1 11 ++ [CFlush; CEnter 2; CInit1 2; CFetch 2; CIdle 9; CFree 9; CWrite 2 22; CAck 2].

Lemma unlocked_free_loses_write :
  let s := run_trace (cexec_with false true) lost_to_free_trace cinit in
  c_acked s = [11; 22] /\ cvisible s = [11] /\ cache_acked_visible s = false.
Proof. vm_compute. repeat split. Qed.

(* the same actions with the repaired release: it waits for writer 2 (a stutter step here)
   and finds the cache non-empty when it runs again *)
Lemma locked_free_same_schedule :
  let s := run_trace cexec (lost_to_free_trace ++ [CFree 9]) cinit in
  c_acked s = [11; 22] /\ cvisible s = [11; 22] /\ c_fph s 9 = FDone /\ c_flag s = true.
Proof. vm_compute. repeat split. Qed.

(* the write completes between the idle check and the release *)
Definition lost_after_idle_check_trace : list cact :=
  cwriter 1 11 ++ [CFlush; CIdle 9] ++ cwriter 2 22 ++ [CFree 9].

Lemma unlocked_free_loses_completed_write :
  let s := run_trace (cexec_with false true) lost_after_idle_check_trace cinit in
  c_acked s = [11; 22] /\ cvisible s = [11] /\ cache_acked_visible s = false.
Proof. vm_compute. repeat split. Qed.

(* a release that does happen, and the next writer allocates again *)
Lemma release_and_reallocate :
  let s := run_trace cexec (cwriter 1 11 ++ [CFlush] ++ cmonitor 9 ++ cwriter 2 22) cinit in
  c_acked s = [11; 22] /\ cvisible s = [11; 22] /\ c_gen s = 2 /\ c_store s = HRing 1 /\ c_fph s 9 = FDone.
Proof. vm_compute. repeat split. Qed.
