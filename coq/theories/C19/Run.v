(* C19/Run.v — one case per stress run of the REAL code (built with -race, run in a child
   process).  The case carries the abstract history the harness logged next to the real
   calls; [check_case] replays it on the model (agree) and evaluates the executable spec
   on what the implementation was observed to do (spec_ok).
   result code: 0 agree & spec_ok   1 not agree & spec_ok   2 not agree & not spec_ok
                3 agree & not spec_ok (model mirrors a defect) *)
From Verif Require Export C19.Model C19.Pool C19.Wait C19.CacheInit.
Open Scope N_scope.

Definition code (agree spec_ok : bool) : N :=
  match agree, spec_ok with
  | true, true => 0 | false, true => 1 | false, false => 2 | true, false => 3
  end.

Fixpoint index_of (x : N) (l : list N) : option nat :=
  match l with
  | [] => None
  | y :: r => if N.eqb y x then Some O
              else match index_of x r with Some k => Some (S k) | None => None end
  end.

Fixpoint assoc (x : N) (l : list (N * N)) : option N :=
  match l with
  | [] => None
  | (k, v) :: r => if N.eqb k x then Some v else assoc x r
  end.

Definition set_eq (a b : list N) : bool := subset a b && subset b a.

(* ------------------------------------------------------------------ *)
(* pool                                                                *)
(* ------------------------------------------------------------------ *)
(* Events as logged under the harness mutex: Get AFTER it returned (with what it returned),
   MarkUnusable/Close/Pool.Close BEFORE the call, the underlying connection's Close inside
   that call.  Connection ids are the factory's. *)
Inductive pev :=
| EvGetIdle (h c : N)                 (* Get returned a wrapper around the existing connection c *)
| EvGetNew (h c : N)                  (* Get dialled connection c *)
| EvGetErr (h : N) (dial_failed : bool)
| EvMark (h : N)
| EvClose (h : N)
| EvConnClosed (c : N)
| EvPoolClose.

Record preplay := mkR { r_pool : pool; r_map : list (N * N); r_ok : bool }.

Definition is_conn (x : hst) (c : N) : bool :=
  match x with HConn c' _ O => N.eqb c' c | _ => false end.

Definition fail (r : preplay) : preplay := mkR (r_pool r) (r_map r) false.

(* The pruner frees the token of an expired idle connection BEFORE it closes it (where the
   close is logged): a Get may take that token and be logged first.  When the replay finds
   no free token it looks ahead for the close of a connection that is still idle. *)
Fixpoint find_pruned (s : pool) (m : list (N * N)) (taken : list N) (l : list pev) : option nat :=
  match l with
  | [] => None
  | EvConnClosed c :: l' =>
      if mem c taken then find_pruned s m taken l'      (* handed out again before it is closed: not the pruner's *)
      else match assoc c m with
           | Some mc => match index_of mc (idle s) with
                        | Some k => Some k
                        | None => find_pruned s m taken l'
                        end
           | None => find_pruned s m taken l'
           end
  | EvGetIdle _ c :: l' => find_pruned s m (c :: taken) l'
  | _ :: l' => find_pruned s m taken l'
  end.

Definition take_token (rest : list pev) (m : list (N * N)) (h : N) (s : pool) : pool :=
  let s1 := pexec (PGet h None) s in
  let s1' := if negb (closed s1) && Nat.leb (cap s1) (tokens s1)
             then match find_pruned s1 m [] rest with
                  | Some k => pexec (PPrunePop k true) s1
                  | None => s1
                  end
             else s1 in
  pexec (PTake h) s1'.

Definition pstep (rest : list pev) (r : preplay) (e : pev) : preplay :=
  let s := r_pool r in
  match e with
  | EvGetIdle h c =>
      match assoc c (r_map r) with
      | None => fail r
      | Some mc =>
          if closed s
          then (* a Get that captured the channel before Pool.Close: first select missed, then
                  the connection arrived from the draining channel *)
               match index_of mc (drain s) with
               | Some k => let s' := pexec (PWait h k) (pexec (PTake h) (pexec (PGet h None) s)) in
                           mkR s' (r_map r) (r_ok r && is_conn (hs s' h) mc)
               | None => fail r
               end
          else match index_of mc (idle s) with
               | Some k => let s' := pexec (PGet h (Some k)) s in
                           mkR s' (r_map r) (r_ok r && is_conn (hs s' h) mc)
               | None => fail r
               end
      end
  | EvGetNew h c =>
      let s2 := take_token rest (r_map r) h s in
      match hs s2 h with
      | HTook => let mc := next s2 in
                 let s3 := pexec (PDial h true) s2 in
                 mkR s3 ((c, mc) :: r_map r) (r_ok r && is_conn (hs s3 h) mc)
      | _ => fail (mkR s2 (r_map r) false)
      end
  | EvGetErr h dial_failed =>
      let s2 := pexec (PTake h) (pexec (PGet h None) s) in
      match hs s2 h with
      | HTook => (* factory error; for a time-out the replay may see a free token that the
                    real tryTake did not: taking and freeing it is state-neutral *)
                 mkR (pexec (PDial h false) s2) (r_map r) (r_ok r)
      | HWait => (* time-out; or a failed dial whose token (taken and given back) the replay
                    does not see free at this point: state-neutral either way *)
                 mkR (pexec (PTimeout h) s2) (r_map r) (r_ok r)
      | HErr => mkR s2 (r_map r) (r_ok r && negb dial_failed)
      | _ => fail (mkR s2 (r_map r) false)
      end
  | EvMark h => mkR (pexec (PMark h) s) (r_map r) (r_ok r)
  | EvClose h =>
      match hs s h with
      | HConn _ _ _ => mkR (pexec (PClose h) s) (r_map r) (r_ok r)
      | _ => fail r
      end
  | EvConnClosed c =>
      match assoc c (r_map r) with
      | None => fail r
      | Some mc =>
          (* closed by its handle (already replayed at EvClose), by the pruner (still idle
             in the replay) or by Pool.Close (still in the drained channel) *)
          match index_of mc (if closed s then drain s else idle s) with
          | Some k => mkR (pexec (PPrunePop k true) s) (r_map r) (r_ok r)
          | None => r
          end
      end
  | EvPoolClose => mkR (pexec PPoolClose s) (r_map r) (r_ok r)
  end.

Fixpoint preplay_go (r : preplay) (tr : list pev) : preplay :=
  match tr with
  | [] => r
  | e :: rest => preplay_go (pstep rest r e) rest
  end.

Definition preplay_run (cap : nat) (tr : list pev) : preplay :=
  preplay_go (mkR (pinit cap) [] true) tr.

Fixpoint close_events (tr : list pev) : list N :=
  match tr with
  | [] => []
  | EvClose h :: r => h :: close_events r
  | _ :: r => close_events r
  end.

(* what the harness observed of one pool run *)
Record pobs := mkPO {
  o_size : nat;          (* Pool.Size() at quiescence *)
  o_len : nat;           (* Pool.Len() at quiescence *)
  o_live : nat;          (* factory connections not closed *)
  o_all_closed : bool;   (* every handle was closed before the quiescent check *)
  o_pool_closed : bool;
  o_bad : bool;          (* race report, deadlock time-out or panic in the child process *)
  o_handout2 : bool;     (* a connection was in the hands of two users at once *)
  o_sample_bad : bool    (* a sample during the run saw Size() > cap or Len() > cap *)
}.

Definition pool_spec_ok (cap : nat) (tr : list pev) (o : pobs) : bool :=
  negb (o_bad o) &&
  (* the invariant is promised to callers that close each handle at most once *)
  (negb (nodupb (close_events tr)) ||
   (negb (o_handout2 o) && negb (o_sample_bad o) &&
    (if o_pool_closed o
     then (negb (o_all_closed o) || Nat.eqb (o_live o) 0)
     else Nat.eqb (o_size o) (o_live o) && Nat.leb (o_size o) cap && Nat.leb (o_len o) (o_size o)
          && (negb (o_all_closed o) || Nat.eqb (o_len o) (o_size o))))).

Definition pool_agree (cap : nat) (tr : list pev) (o : pobs) : bool :=
  let r := preplay_run cap tr in
  let s := r_pool r in
  r_ok r && negb (o_bad o) &&
  Nat.eqb (length (live s)) (o_live o) &&
  (if o_pool_closed o then closed s
   else negb (closed s) && Nat.eqb (tokens s) (o_size o) && Nat.eqb (length (idle s) + length (held s)) (o_len o)).

(* ------------------------------------------------------------------ *)
(* field creation                                                      *)
(* ------------------------------------------------------------------ *)
Definition phase_code (p : wphase) : N :=
  match p with
  | WStored => 0 | WDropped => 1 | WCreateErr => 2 | WSeriesErr => 3
  | _ => 9
  end.

Definition triple_eqb (a b : N * N * N) : bool :=
  match a, b with (a1, a2, a3), (b1, b2, b3) => N.eqb a1 b1 && N.eqb a2 b2 && N.eqb a3 b3 end.
Definition tmem (x : N * N * N) (l : list (N * N * N)) : bool := existsb (triple_eqb x) l.
Definition tset_eq (a b : list (N * N * N)) : bool :=
  forallb (fun x => tmem x b) a && forallb (fun x => tmem x a) b.

(* observed: per field its type in MeasurementFields, and per (series, field) the type of
   the values the engine holds *)
Definition field_spec_ok (ftypes : list (N * N)) (stored : list (N * N * N)) : bool :=
  forallb (fun e => match e with (_, f, t) =>
             match assoc f ftypes with Some t' => N.eqb t' t | None => false end end) stored.

Definition serial_writer (iw : N * writer) : list fact :=
  [FValidate (fst iw) (snd iw); FCheckCreate (fst iw); FCreate (fst iw); FEngine (fst iw)].

(* ------------------------------------------------------------------ *)
(* shard                                                               *)
(* ------------------------------------------------------------------ *)
Inductive sev :=
| SvWBegin (p : N)
| SvWAck (p : N)
| SvSnapBegin
| SvSnapEnd (ok : bool)
| SvCompact
| SvRBegin (r : N)
| SvREnd (r : N) (series : N) (res : list N).     (* point ids returned for that series *)

(* point id = series * 2^20 + sequence number *)
Definition series_of (p : N) : N := N.shiftr p 20.

Record sreplay := mkSR { sr_s : sstate; sr_agree : bool; sr_spec : bool }.

Definition sstep (r : sreplay) (e : sev) : sreplay :=
  let s := sr_s r in
  match e with
  | SvWBegin p => mkSR (sexec (SWalW p) (sexec (SCacheW p) s)) (sr_agree r) (sr_spec r)
  | SvWAck p => mkSR (sexec (SAck p) s) (sr_agree r) (sr_spec r)
  | SvSnapBegin => mkSR (sexec SSnapBegin s) (sr_agree r) (sr_spec r)
  | SvSnapEnd ok => if ok then mkSR (sexec SSnapClear (sexec SSnapInstall s)) (sr_agree r) (sr_spec r) else r
  | SvCompact => mkSR (sexec SCompact s) (sr_agree r) (sr_spec r)
  | SvRBegin rd => mkSR (sexec (SRBegin rd) s) (sr_agree r) (sr_spec r)
  | SvREnd rd sr res =>
      let s' := sexec (SRFiles rd) (sexec (SRCache rd) s) in
      match rph s' rd with
      | RDone must mres =>
          let must_sr := filter (fun p => N.eqb (series_of p) sr) must in
          (* spec: everything acked before the read began is in the result;
             agree: the result holds nothing the model (writes applied as early as they
             can have been) does not hold, and only points of that series *)
          mkSR s' (sr_agree r && forallb (fun p => N.eqb (series_of p) sr && mem p mres) res)
               (sr_spec r && subset must_sr res)
      | _ => mkSR s' false (sr_spec r)
      end
  end.

Definition sreplay_run (evs : list sev) : sreplay := fold_left sstep evs (mkSR sinit true true).

(* ------------------------------------------------------------------ *)
(* metadata                                                            *)
(* ------------------------------------------------------------------ *)
(* one writer issues updates k = 1, 2, ... of one value (each acknowledged before the next
   begins); readers load the published pointer and read the value; later they read again
   through the same pointer *)
Inductive mev :=
| MvWBegin (k : N)
| MvWAck (k : N)
| MvRBegin (r : N)
| MvREnd (r : N) (v : N) (stable : bool).   (* value seen; unchanged when re-read through the same object *)

Record mreplay := mkMR { mr_s : mstate; mr_acked : N; mr_low : N -> N; mr_agree : bool; mr_spec : bool }.

Definition mstep (r : mreplay) (e : mev) : mreplay :=
  let s := mr_s r in
  match e with
  | MvWBegin k => mkMR (mexec (MPublish 0) (mexec (MEdit 0 0 (Some k)) (mexec (MClone 0) s)))
                       (mr_acked r) (mr_low r) (mr_agree r) (mr_spec r)
  | MvWAck k => mkMR s k (mr_low r) (mr_agree r) (mr_spec r)
  | MvRBegin rd => mkMR s (mr_acked r) (upd (mr_low r) rd (mr_acked r)) (mr_agree r) (mr_spec r)
  | MvREnd rd v stable =>
      let s' := mexec (MDeref rd 0) (mexec (MLoad rd) s) in
      let mv := match robs s' rd with (_, _, Some x) :: _ => x | _ => 0 end in
      mkMR s' (mr_acked r) (mr_low r)
           (mr_agree r && N.leb v mv)                        (* never a value not yet published *)
           (mr_spec r && N.leb (mr_low r rd) v && stable)    (* at least the last update acked before the read began *)
  end.

Definition mreplay_run (evs : list mev) : mreplay :=
  fold_left mstep evs (mkMR minit 0 (fun _ => 0) true true).

(* credential cache: one round = password changed from 1 to 2 while a call with the old
   password may be in flight; afterwards the old password must fail and the new one work.
   The model predicts the late call's answer by running both canonical interleavings. *)
Definition auth_straddle : list mact :=
  [ MClone 1; MEdit 1 5 (Some 1); MPublish 1; AStart 1 5 1;
    MClone 2; MEdit 2 5 (Some 2); MPublish 2; ACheck 1; AStore 1; AStart 2 5 1; ACheck 2; AStore 2;
    AStart 3 5 2; ACheck 3; AStore 3 ].
Definition auth_sequential : list mact :=
  [ MClone 1; MEdit 1 5 (Some 1); MPublish 1; AStart 1 5 1; ACheck 1; AStore 1;
    MClone 2; MEdit 2 5 (Some 2); MPublish 2; AStart 2 5 1; ACheck 2; AStore 2;
    AStart 3 5 2; ACheck 3; AStore 3 ].
Definition accepted (p : aphase) : bool := match p with AAccepted _ _ _ _ => true | _ => false end.
Definition model_auth (tr : list mact) : bool * bool :=
  let s := run_trace mexec tr minit in (accepted (aph s 2), accepted (aph s 3)).

(* metadata updates through a real meta.Client: per call the smallest index the server can
   have given it, the client's index after the call returned, and whether it returned
   before the deadline.  The model runs the call against the publication of its index in
   the order that loses the wake-up in the two-section variant. *)
Definition wait_call_trace (k idx : N) : list wact :=
  [WCall k idx; WCheck k; WPublish idx; WChan k; WWake k; WCheck k].

Definition model_call_returns (k idx : N) : bool :=
  match w_st (run_trace wexec (wait_call_trace k idx) winit) k with WDone _ => true | _ => false end.

(* first writes to a cache: writer i (value v_i) runs init / fetch / write / ack *)
Definition cache_round_model (acked : list N) : cstate :=
  run_trace cexec (flat_map (fun v => cwriter v v) acked) cinit.

(* the first value is written and flushed to a file; the monitor looks (idle); the other
   writers run; the monitor releases - or not *)
Definition idle_free_round_model (acked : list N) : cstate :=
  match acked with
  | [] => cinit
  | v :: rest =>
      run_trace cexec (cwriter v v ++ [CFlush; CIdle 0] ++ flat_map (fun v => cwriter v v) rest ++ [CFree 0]) cinit
  end.

(* ------------------------------------------------------------------ *)
(* cases                                                               *)
(* ------------------------------------------------------------------ *)
Inductive case :=
(* direct stress of coordinator.NewBoundedPool *)
| CPool (cap : nat) (tr : list pev) (o : pobs)
(* real MetaExecutor + ClusterShardMapper + query.Select against a real coordinator.Service:
   only the end state of the executor's pool is observable *)
| CCluster (cap size idle live : nat) (bad : bool)
(* field creation under an enforced schedule: model actions in the order the hooks let
   the real writers proceed; per writer the observed outcome *)
| CFieldSched (tr : list fact) (outcomes : list (N * N)) (ftypes : list (N * N)) (stored : list (N * N * N)) (bad : bool)
(* free-running conflicting writers (released together): writers listed winners first *)
| CFieldFree (ws : list (N * writer)) (ftypes : list (N * N)) (stored : list (N * N * N)) (bad : bool)
| CShard (evs : list sev) (acked final : list N) (bad : bool)
| CMeta (evs : list mev) (bad : bool)
| CAuth (rounds : list (bool * bool)) (bad : bool)     (* (old password accepted late, new accepted) *)
(* hinted handoff: per node (acknowledged, found after reopen, attempted) *)
| CHh (nodes : list (N * N * N)) (bad : bool)
(* meta.Client updates against a snapshot server: (call, index it waits for at least,
   client index after the return, returned before the deadline) *)
| CWait (calls : list (N * N * N * bool)) (bad : bool)
(* first writes to a new / freed tsm1.Cache by goroutines released together: per round the
   values whose write returned nil and what Cache.Values returned afterwards *)
| CCacheInit (rounds : list (list N * list N)) (bad : bool)
(* a write racing with `if sh.IsIdle() { sh.Free() }` on an allocated, empty cache: per round
   the acknowledged points and the points read afterwards (point 1 is in a TSM file) *)
| CIdleFree (rounds : list (list N * list N)) (bad : bool).

Definition check_case (c : case) : N :=
  match c with
  | CPool cap tr o => code (pool_agree cap tr o) (pool_spec_ok cap tr o)
  | CCluster cap size idle live bad =>
      (* model: a disciplined client leaves tokens = idle + checked-out = live *)
      let ok := Nat.eqb size live && Nat.leb idle size && Nat.leb size cap in
      code (ok && negb bad) (ok && negb bad)
  | CFieldSched tr outcomes ftypes stored bad =>
      let s := run_trace fexec tr finit in
      let agree :=
        forallb (fun io => N.eqb (phase_code (wph s (fst io))) (snd io)) outcomes
        && forallb (fun ft => match mf s (fst ft) with Some t => N.eqb t (snd ft) | None => false end) ftypes
        && tset_eq (Model.stored s) stored in
      code (agree && negb bad) (field_spec_ok ftypes stored && negb bad)
  | CFieldFree ws ftypes stored bad =>
      let s := run_trace fexec (flat_map serial_writer ws) finit in
      let agree :=
        forallb (fun ft => match mf s (fst ft) with Some t => N.eqb t (snd ft) | None => false end) ftypes
        && tset_eq (Model.stored s) stored in
      code (agree && negb bad) (field_spec_ok ftypes stored && negb bad)
  | CShard evs acked final bad =>
      let r := sreplay_run evs in
      let s := sr_s r in
      code (sr_agree r && subset final (visible s) && set_eq acked (Model.acked s) && negb bad)
           (sr_spec r && subset acked final && negb bad)
  | CMeta evs bad =>
      let r := mreplay_run evs in
      code (mr_agree r && negb bad) (mr_spec r && negb bad)
  | CAuth rounds bad =>
      let m1 := model_auth auth_straddle in
      let m2 := model_auth auth_sequential in
      let agree := forallb (fun r => (Bool.eqb (fst r) (fst m1) && Bool.eqb (snd r) (snd m1))
                                     || (Bool.eqb (fst r) (fst m2) && Bool.eqb (snd r) (snd m2))) rounds in
      code (agree && negb bad) (forallb (fun r => negb (fst r) && snd r) rounds && negb bad)
  | CWait calls bad =>
      code (forallb (fun c => match c with (k, idx, _, ret) => Bool.eqb (model_call_returns k idx) ret end) calls && negb bad)
           (forallb (fun c => match c with (_, idx, after, ret) => ret && N.leb idx after end) calls && negb bad)
  | CCacheInit rounds bad =>
      (* model: the acknowledged writers one after the other (any schedule gives the same set) *)
      code (forallb (fun r => set_eq (cvisible (cache_round_model (fst r))) (snd r)) rounds && negb bad)
           (forallb (fun r => subset (fst r) (snd r)) rounds && negb bad)
  | CIdleFree rounds bad =>
      code (forallb (fun r => set_eq (cvisible (idle_free_round_model (fst r))) (snd r)) rounds && negb bad)
           (forallb (fun r => subset (fst r) (snd r)) rounds && negb bad)
  | CHh nodes bad =>
      (* nothing invented (found <= attempted) / nothing acknowledged is lost *)
      code (forallb (fun n => match n with (_, found, att) => N.leb found att end) nodes && negb bad)
           (forallb (fun n => match n with (ack, found, _) => N.leb ack found end) nodes && negb bad)
  end.
