(* C19/ProofsWait.v — no lost wake-up for the one-section waitForIndex; a lost wake-up
   for the two-section variant. *)
From Verif Require Import C19.Model C19.Wait C19.ProofsGen.
From Coq Require Import ZifyBool ZifyN.
Open Scope N_scope.

(* a sleeping waiter whose index has been published sleeps on a CLOSED channel; the
   one-section code never is between its index check and its channel fetch *)
Record winv (s : wstate) : Prop := mkWinv {
  w_sleep : forall w idx g, w_st s w = WSleep idx g -> g <= w_gen s /\ (idx <= w_index s -> g < w_gen s);
  w_nomid : forall w idx, w_st s w <> WMid idx
}.

Lemma winv_init : winv winit.
Proof. constructor; intros; cbn; discriminate. Qed.

Lemma wexec_inv a s : winv s -> winv (wexec a s).
Proof.
  intros [Is Im]. unfold wexec.
  assert (Other : forall w x, (forall idx g, x <> WSleep idx g) -> (forall idx, x <> WMid idx) ->
                  winv (mkWS (w_index s) (w_gen s) (upd (w_st s) w x))).
  { intros w x Hx Hm. constructor; cbn; intros w0; intros; unfold upd in *.
    - destruct (N.eqb_spec w0 w); [exfalso; eapply Hx; eauto|eauto].
    - destruct (N.eqb_spec w0 w); [apply Hm|apply Im]. }
  destruct a as [w idx|w|w|w|i]; cbn [wexec_with].
  - destruct (w_st s w) eqn:E; try (constructor; assumption). apply Other; discriminate.
  - destruct (w_st s w) as [|idx| | |] eqn:E; try (constructor; assumption).
    destruct (N.leb_spec idx (w_index s)) as [Hle|Hgt]; [apply Other; discriminate|].
    constructor; cbn; intros w0; intros; unfold upd in *.
    + destruct (N.eqb_spec w0 w) as [E0|]; [|eauto].
      match goal with H : WSleep _ _ = WSleep _ _ |- _ => inversion H; subst end. split; [lia|]. intros. lia.
    + destruct (N.eqb_spec w0 w); [discriminate|apply Im].
  - destruct (w_st s w) as [| |idx| |] eqn:E; try (constructor; assumption).
    exfalso. eapply Im; eauto.
  - destruct (w_st s w) as [| | |idx g|] eqn:E; try (constructor; assumption).
    destruct (N.ltb g (w_gen s)); [apply Other; discriminate|constructor; assumption].
  - destruct (N.ltb_spec (w_index s) i) as [Hlt|Hge]; [|constructor; assumption].
    constructor; cbn; [|exact Im].
    intros w idx g H. destruct (Is w idx g H) as [H1 H2]. split; [lia|]. intros. lia.
Qed.

Lemma wait_trace_inv tr : winv (run_trace wexec tr winit).
Proof. apply run_trace_inv; [intros; apply wexec_inv; assumption|apply winv_init]. Qed.

Lemma winv_not_stuck s w : winv s -> stuck s w = false.
Proof.
  intros I. unfold stuck. destruct (w_st s w) as [| | |idx g|] eqn:E; try reflexivity.
  destruct (w_sleep s I w idx g E) as [H1 H2].
  destruct (N.leb_spec idx (w_index s)) as [Hle|]; [|reflexivity].
  specialize (H2 Hle). cbn. destruct (N.ltb_spec g (w_gen s)); [reflexivity|lia].
Qed.

(* bounded liveness: once its index is published a waiter needs only its own next steps
   (at most: wake, check) to return — no further publication *)
Lemma wcheck_loop_done s w idx :
  w_st s w = WLoop idx -> idx <= w_index s -> w_st (wexec (WCheck w) s) w = WDone idx.
Proof.
  intros H Hle. unfold wexec; cbn [wexec_with]. rewrite H.
  destruct (N.leb_spec idx (w_index s)) as [_|Hgt]; [|lia].
  cbn [w_st]. unfold upd. rewrite N.eqb_refl. reflexivity.
Qed.

Lemma published_waiter_returns s w idx :
  winv s -> idx <= w_index s ->
  (w_st s w = WLoop idx \/ exists g, w_st s w = WSleep idx g) ->
  w_st (wexec (WCheck w) (wexec (WWake w) s)) w = WDone idx.
Proof.
  intros I Hle [H|[g H]].
  - assert (E : wexec (WWake w) s = s) by (unfold wexec; cbn [wexec_with]; rewrite H; reflexivity).
    rewrite E. apply wcheck_loop_done; assumption.
  - destruct (w_sleep s I w idx g H) as [_ H2]. specialize (H2 Hle).
    assert (E : wexec (WWake w) s = mkWS (w_index s) (w_gen s) (upd (w_st s) w (WLoop idx))).
    { unfold wexec; cbn [wexec_with]. rewrite H. destruct (N.ltb_spec g (w_gen s)); [reflexivity|lia]. }
    rewrite E. apply wcheck_loop_done; cbn [w_st w_index]; [|exact Hle].
    unfold upd. rewrite N.eqb_refl. reflexivity.
Qed.

(* the index never decreases, so "published" is stable *)
Lemma wexec_index_mono a s : w_index s <= w_index (wexec a s).
Proof.
  unfold wexec. destruct a as [w idx|w|w|w|i]; cbn [wexec_with].
  5:{ destruct (N.ltb_spec (w_index s) i); cbn; lia. }
  all: repeat match goal with |- context[match ?x with _ => _ end] => destruct x end; cbn; lia.
Qed.

(* two read sections: the snapshot lands between them, the waiter fetches the NEW channel
   and sleeps although its index is there; only an unrelated later change would wake it *)
Definition lost_wakeup_trace : list wact := [WCall 1 5; WCheck 1; WPublish 5; WChan 1; WWake 1; WCheck 1].

Lemma two_sections_lose_wakeup :
  let s := run_trace (wexec_with false) lost_wakeup_trace winit in
  stuck s 1 = true /\ w_st s 1 = WSleep 5 1 /\ w_index s = 5.
Proof. vm_compute. repeat split. Qed.

Lemma one_section_same_schedule :
  w_st (run_trace wexec lost_wakeup_trace winit) 1 = WDone 5.
Proof. vm_compute. reflexivity. Qed.
