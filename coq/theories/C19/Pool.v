(* C19/Pool.v — instance (b): coordinator/pool.go boundedPool + pooledConn.

   State = what the Go objects hold: the token channel [total] (only its length matters),
   the idle channel [conns] (FIFO), the pruner's local list, the channel contents left
   behind by Pool.Close, the factory's live connections, and one record per handle
   (= one Get call and the *pooledConn it returns).  Each action is one atomic section of
   pool.go; Get is split where it releases the pool lock / between channel operations:
     Get      = PGet (getConnsAndFactory + non-blocking receive)
                ; PTake (tryTake) ; PDial ok (factory(), on error tryFree)
                | PWait (blocking receive) | PTimeout
     Close    = PClose   (pooledConn.Close holds p.mu.RLock and, in put, c.mu.RLock: no
                          MarkUnusable of the same handle and no Pool.Close can interleave.
                          The "pool is full" branch of put — observe full, tryFree,
                          conn.Close — is one step here; it is unreachable while the
                          invariant holds, see ProofsPool.put_never_full)
     prune    = PPrunePop expired* ; PPrunePush*   (PPrunePush on a closed pool closes the
                connection: repaired code, commit 97de6b5; before, the send on the nil
                channel blocked for ever and a nil receive panicked)
     Pool.Close = PPoolClose (swap under c.mu.Lock) ; PDrainOne*
   NOTE (defect candidate #19): pooledConn.Close has no guard against a second Close of
   the same handle; the model mirrors that: every extra Close of an unusable handle runs
   tryFree again and every extra Close of a usable handle sends the same net.Conn into
   the idle channel again.  Definitions only. *)
From Verif Require Export C19.Model.
Open Scope N_scope.

Inductive hst :=
| HNone
| HPolled       (* first select found no idle connection *)
| HTook         (* tryTake succeeded, factory() has not returned yet *)
| HWait         (* tryTake failed: blocked in the second select *)
| HErr          (* Get returned an error *)
| HConn (c : N) (unusable : bool) (nclose : nat).   (* Get returned a *pooledConn; nclose is a ghost counter *)

Record pool := mkP {
  cap : nat;
  closed : bool;          (* c.conns == nil *)
  tokens : nat;           (* len(c.total) = Size() *)
  idle : list N;          (* contents of c.conns; Len() = length *)
  held : list N;          (* pruneIdleConns: newConns *)
  drain : list N;         (* contents of the old conns channel after Pool.Close swapped it out *)
  next : N;               (* factory: next connection id *)
  live : list N;          (* connections the factory made and nobody closed yet *)
  hs : N -> hst;
  outs : list N;          (* ghost: connections held by handles that were not closed yet *)
  pend : list N           (* ghost: handles between tryTake and the return of factory() *)
}.

Definition pinit (cap : nat) : pool :=
  mkP cap false 0 [] [] [] 0 [] (fun _ => HNone) [] [].

Fixpoint remove1 (x : N) (l : list N) : list N :=
  match l with
  | [] => []
  | y :: r => if N.eqb y x then r else y :: remove1 x r
  end.

(* take the k-th element out of a list *)
Fixpoint pick (k : nat) (l : list N) : option (N * list N) :=
  match l, k with
  | [], _ => None
  | c :: r, O => Some (c, r)
  | c :: r, S k' => match pick k' r with Some (x, r') => Some (x, c :: r') | None => None end
  end.

(* The idle channel is modelled as a BAG with possibly-missing polls: a receive may take
   any element ([Some k]: the k-th; k = 0 is Go's FIFO head) and the non-blocking receive
   of Get may find nothing ([None]) whatever the channel holds.  This only adds behaviours
   to those of a Go channel (the invariant needs neither FIFO order nor exact polls) and
   lets a history logged next to the real calls be replayed although log order and effect
   order differ slightly. *)
Inductive pact :=
| PGet (h : N) (k : option nat)
| PTake (h : N)
| PDial (h : N) (ok : bool)
| PWait (h : N) (k : nat)
| PTimeout (h : N)
| PMark (h : N)
| PClose (h : N)
| PPrunePop (k : nat) (expired : bool)
| PPrunePush
| PPoolClose
| PDrainOne.

Definition set_h (s : pool) (h : N) (x : hst) : pool :=
  mkP (cap s) (closed s) (tokens s) (idle s) (held s) (drain s) (next s) (live s) (upd (hs s) h x) (outs s) (pend s).

(* tryFree: non-blocking receive from c.total (a nil channel after Pool.Close) *)
Definition try_free (s : pool) : pool :=
  if closed s then s
  else mkP (cap s) (closed s) (Nat.pred (tokens s)) (idle s) (held s) (drain s) (next s) (live s) (hs s) (outs s) (pend s).

(* net.Conn.Close of the underlying connection *)
Definition conn_close (c : N) (s : pool) : pool :=
  mkP (cap s) (closed s) (tokens s) (idle s) (held s) (drain s) (next s) (remove1 c (live s)) (hs s) (outs s) (pend s).

(* hand connection c to handle h *)
Definition give (s : pool) (h c : N) : pool :=
  mkP (cap s) (closed s) (tokens s) (idle s) (held s) (drain s) (next s) (live s)
      (upd (hs s) h (HConn c false 0)) (c :: outs s) (pend s).

Definition pexec (a : pact) (s : pool) : pool :=
  match a with
  | PGet h k =>
      match hs s h with
      | HNone =>
          if closed s then set_h s h HErr
          else match (match k with Some k' => pick k' (idle s) | None => None end) with
               | Some (c, r) => give (mkP (cap s) (closed s) (tokens s) r (held s) (drain s) (next s) (live s) (hs s) (outs s) (pend s)) h c
               | None => set_h s h HPolled
               end
      | _ => s
      end
  | PTake h =>
      match hs s h with
      | HPolled =>
          if negb (closed s) && Nat.ltb (tokens s) (cap s)
          then mkP (cap s) (closed s) (S (tokens s)) (idle s) (held s) (drain s) (next s) (live s)
                   (upd (hs s) h HTook) (outs s) (h :: pend s)
          else set_h s h HWait
      | _ => s
      end
  | PDial h ok =>
      match hs s h with
      | HTook =>
          let s1 := mkP (cap s) (closed s) (tokens s) (idle s) (held s) (drain s) (next s) (live s) (hs s) (outs s)
                        (remove1 h (pend s)) in
          if ok
          then let c := next s1 in
               give (mkP (cap s1) (closed s1) (tokens s1) (idle s1) (held s1) (drain s1) (c + 1) (c :: live s1)
                         (hs s1) (outs s1) (pend s1)) h c
          else set_h (try_free s1) h HErr
      | _ => s
      end
  | PWait h k =>
      match hs s h with
      | HWait =>
          if closed s
          then match pick k (drain s) with
               | Some (c, r) => give (mkP (cap s) (closed s) (tokens s) (idle s) (held s) r (next s) (live s) (hs s) (outs s) (pend s)) h c
               | None => set_h s h HErr                              (* closed channel yields nil: ErrClosed *)
               end
          else match pick k (idle s) with
               | Some (c, r) => give (mkP (cap s) (closed s) (tokens s) r (held s) (drain s) (next s) (live s) (hs s) (outs s) (pend s)) h c
               | None => s                                           (* still blocked *)
               end
      | _ => s
      end
  | PTimeout h =>
      match hs s h with
      | HWait => set_h s h HErr
      | _ => s
      end
  | PMark h =>
      match hs s h with
      | HConn c _ n => set_h s h (HConn c true n)
      | _ => s
      end
  | PClose h =>
      match hs s h with
      | HConn c u n =>
          let s1 := mkP (cap s) (closed s) (tokens s) (idle s) (held s) (drain s) (next s) (live s)
                        (upd (hs s) h (HConn c u (S n)))
                        (match n with O => remove1 c (outs s) | S _ => outs s end) (pend s) in
          if u then conn_close c (try_free s1)
          else (* put *)
            if closed s1 then conn_close c s1
            else if Nat.ltb (length (idle s1)) (cap s1)
                 then mkP (cap s1) (closed s1) (tokens s1) (idle s1 ++ [c]) (held s1) (drain s1) (next s1) (live s1)
                          (hs s1) (outs s1) (pend s1)
                 else conn_close c (try_free s1)
      | _ => s
      end
  | PPrunePop k expired =>
      if closed s
      then match pick k (drain s) with
           | Some (c, r) =>
               let s1 := mkP (cap s) (closed s) (tokens s) (idle s) (held s) r (next s) (live s) (hs s) (outs s) (pend s) in
               if expired then conn_close c (try_free s1)
               else mkP (cap s1) (closed s1) (tokens s1) (idle s1) (held s1 ++ [c]) (drain s1) (next s1) (live s1) (hs s1) (outs s1) (pend s1)
           | None => s
           end
      else match pick k (idle s) with
           | Some (c, r) =>
               let s1 := mkP (cap s) (closed s) (tokens s) r (held s) (drain s) (next s) (live s) (hs s) (outs s) (pend s) in
               if expired then conn_close c (try_free s1)
               else mkP (cap s1) (closed s1) (tokens s1) (idle s1) (held s1 ++ [c]) (drain s1) (next s1) (live s1) (hs s1) (outs s1) (pend s1)
           | None => s
           end
  | PPrunePush =>
      match held s with
      | c :: r =>
          if closed s                                                (* pool closed meanwhile: close what was taken out *)
          then conn_close c (mkP (cap s) (closed s) (tokens s) (idle s) r (drain s) (next s) (live s) (hs s) (outs s) (pend s))
          else if Nat.ltb (length (idle s)) (cap s)
               then mkP (cap s) (closed s) (tokens s) (idle s ++ [c]) r (drain s) (next s) (live s) (hs s) (outs s) (pend s)
               else s                                                (* channel full: blocked *)
      | [] => s
      end
  | PPoolClose =>
      if closed s then s
      else mkP (cap s) true 0 [] (held s) (idle s) (next s) (live s) (hs s) (outs s) (pend s)
  | PDrainOne =>
      if closed s
      then match drain s with
           | c :: r => conn_close c (mkP (cap s) (closed s) (tokens s) (idle s) (held s) r (next s) (live s) (hs s) (outs s) (pend s))
           | [] => s
           end
      else s
  end.

(* handles closed by a trace *)
Definition closes (tr : list pact) : list N :=
  flat_map (fun a => match a with PClose h => [h] | _ => [] end) tr.

(* the discipline the callers of the pool have to respect *)
Definition close_once (tr : list pact) : Prop := NoDup (closes tr).

Fixpoint nodupb (l : list N) : bool :=
  match l with [] => true | x :: r => negb (mem x r) && nodupb r end.

(* executable form of the pool invariant on the observable part of a state:
   Size() = idle + pruner-held + checked-out + being-dialled, Size() <= cap, no connection
   twice among idle/held/checked-out, and those are exactly the live connections. *)
Definition pool_ok (s : pool) : bool :=
  (closed s ||
   (Nat.eqb (tokens s) (length (idle s) + length (held s) + length (outs s) + length (pend s))
    && Nat.leb (tokens s) (cap s)))
  && nodupb (idle s ++ held s ++ drain s ++ outs s)
  && subset (live s) (idle s ++ held s ++ drain s ++ outs s)
  && subset (idle s ++ held s ++ drain s ++ outs s) (live s).
