(* C19/Proofs.v — collects the proof files and states, per instance, the link "the model
   satisfies the executable spec for ALL inputs" (every trace, hence every schedule). *)
From Verif Require Export C19.Model C19.Pool C19.ProofsGen C19.ProofsPool C19.ProofsField C19.ProofsShard C19.ProofsMeta C19.Wait C19.ProofsWait C19.CacheInit C19.ProofsCacheInit.
Open Scope N_scope.

(* (b) every disciplined trace leaves the model in a state on which the executable pool
   invariant evaluates to true *)
Lemma pool_model_satisfies_spec cap tr :
  close_once tr -> pool_ok (run_trace pexec tr (pinit cap)) = true.
Proof. intros H. apply pinv_pool_ok, pool_close_once_inv, H. Qed.

(* (a) *)
Lemma field_model_satisfies_spec tr : stored_typed (run_trace fexec tr finit) = true.
Proof. apply finv_stored_typed, field_trace_inv. Qed.

(* (c) *)
Lemma shard_model_satisfies_spec tr r must res :
  rph (run_trace sexec tr sinit) r = RDone must res -> subset must res = true.
Proof.
  intros H. apply subset_incl. eapply r_done; [apply shard_trace_inv|exact H].
Qed.

Lemma shard_model_acked_visible tr :
  subset (acked (run_trace sexec tr sinit)) (visible (run_trace sexec tr sinit)) = true.
Proof.
  apply subset_incl. intros p Hp. pose proof (shard_trace_inv tr) as I.
  apply (s_vis _ I). rewrite (s_ack _ I p Hp). unfold written. discriminate.
Qed.

(* (d) *)
Lemma auth_model_satisfies_spec tr a u pw h via :
  aph (run_trace mexec tr minit) a = AAccepted u pw h via -> N.eqb pw h = true.
Proof. intros H. apply N.eqb_eq. eapply m_acc; [apply meta_trace_inv|exact H]. Qed.

(* (e) *)
Lemma wait_model_satisfies_spec tr w : stuck (run_trace wexec tr winit) w = false.
Proof. apply winv_not_stuck, wait_trace_inv. Qed.

(* (f) *)
Lemma cache_init_model_satisfies_spec tr : cache_acked_visible (run_trace cexec tr cinit) = true.
Proof. apply cinv_acked_visible, cache_init_trace_inv. Qed.
