(* C19/Props.v — property theorems only.  Every theorem quantifies over ALL schedules of
   ANY number of threads of atomic sections (instances in Model.v / Pool.v).  What the
   sections being atomic and race-free means for the Go code is an assumption observed by
   the -race stress harness, not proved: the claim for C19 is PARTIAL. *)
From Verif Require Import C19.Proofs.
From VerifGen Require Import Consts.
Open Scope N_scope.

(* generic: a schedule executes some interleaving of the threads' actions *)
Theorem schedule_executes_interleaving :
  forall (St Act : Type) (exec : Act -> St -> St) sched ths s,
    run exec sched ths s = run_trace exec (trace sched ths) s /\
    (forall a, In a (trace sched ths) -> In a (concat ths)).
Proof. intros. split; [apply run_is_trace|apply trace_incl]. Qed.
Print Assumptions schedule_executes_interleaving.

(* (a) conflicting writers of a new field: after any interleaving every stored value has
   the type the measurement records for its field — so a field has exactly one type and
   only values of that type are stored — and a type once set never changes *)
Theorem field_type_unique :
  forall (ths : list (list fact)) (sched : list nat),
    let s := run fexec sched ths finit in
    (forall sr f t, In (sr, f, t) (stored s) -> mf s f = Some t) /\
    (forall sr1 sr2 f t1 t2, In (sr1, f, t1) (stored s) -> In (sr2, f, t2) (stored s) -> t1 = t2) /\
    stored_typed s = true.
Proof.
  intros ths sched s. unfold s. rewrite run_is_trace.
  pose proof (field_trace_inv (trace sched ths)) as I. split; [|split].
  - apply (f_stored _ I).
  - intros sr1 sr2 f t1 t2 H1 H2. apply (f_stored _ I) in H1. apply (f_stored _ I) in H2. congruence.
  - apply finv_stored_typed, I.
Qed.
Print Assumptions field_type_unique.

Theorem field_type_stable :
  forall tr1 tr2 f t,
    mf (run_trace fexec tr1 finit) f = Some t -> mf (run_trace fexec (tr1 ++ tr2) finit) f = Some t.
Proof. intros. rewrite run_trace_app. apply field_type_stable_trace. assumption. Qed.
Print Assumptions field_type_stable.

(* the pinned tree (the creation loop skipped existing fields without comparing types)
   violated it; repaired by commit 3d4be16 *)
Theorem field_type_unique_unpatched_refuted :
  exists tr, stored_typed (run_trace (fexec_with false) tr finit) = false.
Proof. exists field_race_trace. exact (proj1 field_race_unpatched). Qed.
Print Assumptions field_type_unique_unpatched_refuted.

(* (b) the pool: for every schedule of threads that close each handle at most once *)
Theorem pool_token_invariant :
  forall (cap : nat) (ths : list (list pact)) (sched : list nat),
    close_once (concat ths) ->
    let s := run pexec sched ths (pinit cap) in
    (closed s = false ->
       tokens s = (length (idle s) + length (held s) + length (outs s) + length (pend s))%nat /\
       (tokens s <= cap)%nat) /\
    NoDup (idle s ++ held s ++ drain s ++ outs s) /\
    (forall c, In c (live s) <-> In c (idle s ++ held s ++ drain s ++ outs s)) /\
    (forall c, In c (outs s) <-> exists h u, hs s h = HConn c u 0) /\
    (forall h h' c u u', hs s h = HConn c u 0 -> hs s h' = HConn c u' 0 -> h = h') /\
    pool_ok s = true.
Proof.
  intros cap ths sched H s. pose proof (pool_sched_inv cap ths sched H) as I. fold s in I.
  assert (Ecap : Pool.cap s = cap) by (unfold s; rewrite run_is_trace; apply run_trace_cap).
  split; [|split; [|split; [|split; [|split]]]].
  - intros Hc. split; [apply (i_tok s I Hc)|rewrite <- Ecap; apply (i_cap s I Hc)].
  - apply pinv_nodup, I.
  - apply pinv_live, I.
  - apply pinv_handles, I.
  - apply (i_inj s I).
  - apply pinv_pool_ok, I.
Qed.
Print Assumptions pool_token_invariant.

Theorem pool_put_never_full :
  forall cap ths sched, close_once (concat ths) ->
    let s := run pexec sched ths (pinit cap) in
    forall h c, closed s = false -> hs s h = HConn c false 0 -> (length (idle s) < Pool.cap s)%nat.
Proof. intros cap ths sched H s h c Hc Hh. eapply put_never_full; eauto. apply pool_sched_inv, H. Qed.
Print Assumptions pool_put_never_full.

(* without the discipline: pooledConn.Close has no guard against a second Close *)
Theorem pool_double_close_refuted :
  exists cap ths sched, pool_ok (run pexec sched ths (pinit cap)) = false.
Proof. exists 2%nat, double_close_unusable, double_close_sched. exact (proj1 double_close_unusable_breaks). Qed.
Print Assumptions pool_double_close_refuted.

Theorem pool_double_close_usable_refuted :
  exists cap ths sched h h' c,
    let s := run pexec sched ths (pinit cap) in
    h <> h' /\ hs s h = HConn c false 0 /\ hs s h' = HConn c false 0.
Proof.
  exists 2%nat, double_close_usable, double_close_usable_sched, 2, 3, 0.
  split; [discriminate|]. exact (proj2 double_close_usable_breaks).
Qed.
Print Assumptions pool_double_close_usable_refuted.

(* (c) shard: writes (cache, then WAL, then ack) against snapshots, compactions and
   readers (cache first, then the file list).  For every schedule:
   1. a finished read returns every write acknowledged before it began ([must] is, by 3.,
      exactly the acked list at the read's first step);
   2. acknowledged writes are visible, stay visible under any continuation, and the
      visible set holds nothing that was not written: acked <= visible <= written, i.e.
      the final state is the spec (set union; points have unique keys, so any order
      consistent with real time gives the same set) applied to the acked writes plus
      possibly writes still in flight;
   3. the obligation of a read is fixed when it begins. *)
Theorem interleaving_linearizable :
  forall (ths : list (list sact)) (sched : list nat),
    let s := run sexec sched ths sinit in
    (forall r must res, rph s r = RDone must res -> incl must res) /\
    (forall p, In p (acked s) -> In p (visible s)) /\
    (forall p tr, In p (acked s) -> In p (visible (run_trace sexec tr s))) /\
    (forall p, In p (visible s) -> pph s p <> PInit) /\
    (forall r, rph s r = RInit -> must_of (rph (sexec (SRBegin r) s) r) = Some (acked s)) /\
    (forall r m tr, must_of (rph s r) = Some m -> must_of (rph (run_trace sexec tr s) r) = Some m).
Proof.
  intros ths sched s. unfold s. rewrite run_is_trace.
  set (s0 := run_trace sexec (trace sched ths) sinit).
  pose proof (shard_trace_inv (trace sched ths)) as I. fold s0 in I.
  assert (AV : forall s1, sinv s1 -> forall p, In p (acked s1) -> In p (visible s1)).
  { intros s1 I1 p Hp. apply (s_vis _ I1). rewrite (s_ack _ I1 p Hp). unfold written; discriminate. }
  repeat split.
  - apply (r_done _ I).
  - apply AV, I.
  - intros p tr Hp. apply AV; [apply shard_trace_inv_from, I|apply acked_mono_trace, Hp].
  - intros p Hp. apply (s_vis' _ I p Hp).
  - apply begin_records_acked.
  - intros r m tr. apply must_stable_trace.
Qed.
Print Assumptions interleaving_linearizable.

(* the order FileStore.Replace ; Cache.ClearSnapshot matters: reversed, an acked write is
   invisible to a later read *)
Theorem shard_clear_before_install_refuted :
  exists tr r must res, rph (run_trace (sexec_with false) tr sinit) r = RDone must res /\ ~ incl must res.
Proof.
  exists clear_first_trace, 9, [1], []. split; [exact clear_before_install_loses_visibility|].
  intros H. apply (H 1). left; reflexivity.
Qed.
Print Assumptions shard_clear_before_install_refuted.

(* what is on disk covers every write that reached the WAL, under every schedule: TSM
   files + current WAL segment + closed segments not yet removed.  WriteSnapshot closes the
   segment and takes the cache snapshot in ONE Engine.mu section; so a snapshot's commit
   only removes segments whose entries are in the file it installed *)
Theorem acked_on_disk :
  forall (ths : list (list sact)) (sched : list nat),
    let s := run sexec sched ths sinit in
    forall p, In p (acked s) -> In p (concat (files s)) \/ In p (wal s) \/ In p (closedseg s).
Proof.
  intros ths sched s p Hp. unfold s in *. rewrite run_is_trace in *.
  destruct (shard_trace_dinv (trace sched ths)) as [I D].
  apply (d_logged _ D). right. apply (s_ack _ I), Hp.
Qed.
Print Assumptions acked_on_disk.

(* cache snapshot and segment roll-over in two critical sections: an acknowledged write is
   left in the live cache only *)
Theorem snapshot_two_sections_refuted :
  exists tr p, let s := run_trace (sexec_with2 false true) tr sinit in
    In p (acked s) /\ ~ (In p (concat (files s)) \/ In p (wal s) \/ In p (closedseg s)).
Proof.
  exists split_snapshot_trace, 1.
  destruct split_snapshot_loses_write as (Ha & Hf & Hw & Hc & _).
  cbn zeta. rewrite Ha, Hf, Hw, Hc. split; [left; reflexivity|]. intros [[]|[[]|[]]].
Qed.
Print Assumptions snapshot_two_sections_refuted.

(* (d) a published metadata value is never modified: whatever happens later, a reader
   dereferencing a pointer it loaded reads what was there when it was published; all
   observations through published pointers are consistent with the heap *)
Theorem published_value_immutable :
  forall (ths : list (list mact)) (sched : list nat),
    let s := run mexec sched ths minit in
    (forall c tr, In c (published s) -> heap (run_trace mexec tr s) c = heap s c) /\
    (forall r c, rptr s r = Some c -> In c (published s)) /\
    (forall r c u v, In (c, u, v) (robs s r) -> heap s c u = v).
Proof.
  intros ths sched s. unfold s. rewrite run_is_trace.
  pose proof (meta_trace_inv (trace sched ths)) as I. repeat split.
  - intros c tr Hc. apply published_stable_trace; assumption.
  - apply (m_rptr _ I).
  - intros r c u v H. apply (m_robs _ I r c u v H).
Qed.
Print Assumptions published_value_immutable.

(* credential cache (repaired code, commit 0717930): in every interleaving of
   authentications with metadata swaps, an accepted call presented the password whose hash
   is in the user record that this very call read — a call that starts after a password
   change therefore never gets in with the old password *)
Theorem auth_cache_interleaved_sound :
  forall (ths : list (list mact)) (sched : list nat) a u pw h via,
    aph (run mexec sched ths minit) a = AAccepted u pw h via -> pw = h.
Proof.
  intros ths sched a u pw h via H. rewrite run_is_trace in H.
  eapply m_acc; [apply meta_trace_inv|exact H].
Qed.
Print Assumptions auth_cache_interleaved_sound.

(* the pinned tree: the stale entry stored by a call that straddled the swap lets the old
   password in *)
Theorem auth_cache_interleaved_refuted :
  exists tr a u pw h via, aph (run_trace (mexec_with false) tr minit) a = AAccepted u pw h via /\ pw <> h.
Proof. exists auth_race_trace, 2, 5, 1, 2, true. split; [exact auth_race_unpatched|discriminate]. Qed.
Print Assumptions auth_cache_interleaved_refuted.

(* (e) meta.Client.waitForIndex vs pollForUpdates, for every schedule of any number of
   waiters and publications: no waiter sleeps on an open channel once its index has been
   published, and such a waiter returns after its own next two steps, whatever else
   happens or does not happen — no lost wake-up *)
Theorem wait_for_index_no_lost_wakeup :
  forall (ths : list (list wact)) (sched : list nat),
    let s := run wexec sched ths winit in
    (forall w, stuck s w = false) /\
    (forall w idx, idx <= w_index s ->
       (w_st s w = WLoop idx \/ exists g, w_st s w = WSleep idx g) ->
       w_st (wexec (WCheck w) (wexec (WWake w) s)) w = WDone idx) /\
    (forall a, w_index s <= w_index (wexec a s)).
Proof.
  intros ths sched s. unfold s. rewrite run_is_trace.
  pose proof (wait_trace_inv (trace sched ths)) as I. repeat split.
  - intros w. apply winv_not_stuck, I.
  - intros w idx. apply published_waiter_returns, I.
  - intros a. apply wexec_index_mono.
Qed.
Print Assumptions wait_for_index_no_lost_wakeup.

(* The theorem above is about a waiter whose index check and channel fetch are ONE read
   section.  That the code has this shape is re-derived from services/meta/client.go on every
   run by the translator (tools/genconsts/c19.go: waitForIndex reads cacheData.Index and the
   changed channel itself under exactly one lock acquisition): a change that splits the section
   makes this obligation fail, and [wait_for_index_two_sections_refuted] is the schedule on
   which such code sleeps for ever. *)
Theorem wait_for_index_is_one_section : c19_wait_for_index_one_section = true.
Proof. reflexivity. Qed.
Print Assumptions wait_for_index_is_one_section.

(* index check and channel fetch in two read sections: the waiter sleeps for ever *)
Theorem wait_for_index_two_sections_refuted :
  exists tr w, stuck (run_trace (wexec_with false) tr winit) w = true.
Proof. exists lost_wakeup_trace, 1. exact (proj1 two_sections_lose_wakeup). Qed.
Print Assumptions wait_for_index_two_sections_refuted.

(* (f) the lazily allocated store of the tsm1 cache (Cache.init), its release on idle shards
   (Store.monitorShards: IsIdle, then Engine.Free) and the engine lock around writes: for EVERY
   schedule of any number of writer and monitor threads over the lock / init / fetch / write /
   acknowledge and idle-check / release sections, every acknowledged value is in the store a
   reader sees; and a step never takes a visible value away (a ring is replaced only while it
   is empty) *)
Theorem cache_init_no_lost_write :
  forall (ths : list (list cact)) (sched : list nat),
    let s := run cexec sched ths cinit in
    (forall v, In v (c_acked s) -> In v (cvisible s)) /\
    cache_acked_visible s = true /\
    (forall a v, In v (cvisible s) -> In v (cvisible (cexec a s))).
Proof.
  intros ths sched s. unfold s. rewrite run_is_trace.
  pose proof (cache_init_trace_inv (trace sched ths)) as I. repeat split.
  - apply (ci_acked _ I).
  - apply cinv_acked_visible, I.
  - intros a v. apply cexec_visible_mono, I.
Qed.
Print Assumptions cache_init_no_lost_write.

(* The theorem is about an init whose locked section installs the ring BEFORE it sets
   initializedCount, and whose lock-free part only loads the flag.  That tsm1 Cache.init (and
   Cache.Free, which resets both) has this shape is re-derived from
   tsdb/engine/tsm1/cache.go on every run by the translator (tools/genconsts/c19.go). *)
Theorem cache_init_store_before_flag : c19_cache_init_store_before_flag = true.
Proof. reflexivity. Qed.
Print Assumptions cache_init_store_before_flag.

(* ... and about a release that holds the exclusive engine lock and looks at the cache size
   again: re-derived from tsdb/engine/tsm1/*.go on every run (every call of e.Cache.Free is in
   the size-guarded helper, every call of the helper under e.mu.Lock) *)
Theorem engine_free_excludes_writers : c19_engine_free_excludes_writers = true.
Proof. reflexivity. Qed.
Print Assumptions engine_free_excludes_writers.

(* the pinned init set the flag first (CompareAndSwap) and installed the ring afterwards: a
   second writer in between writes into the empty store, which stores nothing, and is
   acknowledged *)
Theorem cache_init_flag_first_refuted :
  exists tr, cache_acked_visible (run_trace (cexec_with true false) tr cinit) = false.
Proof. exists lost_first_write_trace. exact (proj2 (proj2 flag_first_loses_write)). Qed.
Print Assumptions cache_init_flag_first_refuted.

(* the pinned release took no engine lock and did not look again: a write that has fetched
   the ring when the monitor releases it (or one acknowledged after the idle check:
   ProofsCacheInit.unlocked_free_loses_completed_write) is in the ring that is thrown away *)
Theorem cache_free_unlocked_refuted :
  exists tr, cache_acked_visible (run_trace (cexec_with false true) tr cinit) = false.
Proof. exists lost_to_free_trace. exact (proj2 (proj2 unlocked_free_loses_write)). Qed.
Print Assumptions cache_free_unlocked_refuted.

(* ---- non-vacuity ---- *)
(* two conflicting writers, second one pauses after validation: exactly one type survives *)
Example field_nonvacuous :
  let s := run fexec [0;1;1;1;1;0;0;0]%nat
               [[FValidate 1 wB; FCheckCreate 1; FCreate 1; FEngine 1];
                [FValidate 2 wA; FCheckCreate 2; FCreate 2; FEngine 2]] finit in
  stored s = [(1, 7, 2)] /\ mf s 7 = Some 2 /\ wph s 1 = WCreateErr.
Proof. vm_compute. repeat split. Qed.

(* a disciplined pool run with reuse, unusable close, prune and a waiting Get *)
Example pool_nonvacuous :
  let ths := [[PGet 1 (Some 0%nat); PTake 1; PDial 1 true; PClose 1; PGet 3 (Some 0%nat); PMark 3; PClose 3];
              [PGet 2 (Some 0%nat); PTake 2; PDial 2 true; PClose 2];
              [PPrunePop 0 false; PPrunePush]] in
  let sched := [0;0;0;1;1;1;0;2;1;2;0;0;0]%nat in
  close_once (concat ths) /\
  let s := run pexec sched ths (pinit 1) in tokens s = 0%nat /\ live s = [] /\ hs s 2 = HWait.
Proof.
  split.
  - unfold close_once. cbn. repeat constructor; cbn; intuition discriminate.
  - vm_compute. repeat split.
Qed.

Example shard_nonvacuous :
  rph (run sexec [0;0;0;1;2;2;1;2;1]%nat
         [[SCacheW 1; SWalW 1; SAck 1]; [SSnapBegin; SSnapInstall; SSnapClear]; [SRBegin 9; SRCache 9; SRFiles 9]] sinit) 9
  = RDone [1] [1; 1].
Proof. vm_compute. reflexivity. Qed.

(* three writers of a brand-new cache, all past the flag before any of them fetches the
   store, and a monitor that finds the cache empty and must not release it any more *)
Example cache_init_nonvacuous :
  let s := run cexec [3;0;1;2;0;1;2;0;1;2;2;2;2;1;1;1;0;0;0;3]%nat
               [cwriter 1 11; cwriter 2 22; cwriter 3 33; cmonitor 9] cinit in
  c_acked s = [33; 22; 11] /\ cvisible s = [33; 22; 11] /\ c_gen s = 1 /\ c_fph s 9 = FDone.
Proof. vm_compute. repeat split. Qed.

(* a release that does happen (allocated and empty after a flush, nobody inside) next to a
   writer: the monitor looks, writer 2 runs to its fetch, the release has to wait, writer 2
   finishes, the release (tried again: a blocked step is a stutter) finds the cache non-empty; a second monitor after a second flush
   does release, and writer 3 allocates a new ring *)
Example cache_free_nonvacuous :
  let s := run cexec [0;0;0;0;0;0; 4; 1; 2;2;2;2; 1; 2;2; 1; 4; 3;3; 5;5;5;5;5;5]%nat
               [cwriter 1 11; [CIdle 9; CFree 9; CFree 9]; cwriter 2 22; cmonitor 8; [CFlush; CFlush]; cwriter 3 33] cinit in
  c_acked s = [11; 22; 33] /\ cvisible s = [11; 22; 33] /\ c_files s = [11; 22] /\
  c_fph s 9 = FDone /\ c_fph s 8 = FDone /\ c_gen s = 2 /\ c_store s = HRing 1.
Proof. vm_compute. repeat split. Qed.
