(* C19/ProofsGen.v — facts about the generic interleaving semantics: a schedule executes a
   trace; the trace together with the unfinished threads is a permutation of the threads'
   actions, so any discipline that is closed under permutation and sub-lists carries over
   from the programs to every execution. *)
From Verif Require Import C19.Model.
From Coq Require Import Permutation.

Section Gen.
  Context {St Act : Type}.
  Variable exec : Act -> St -> St.

  Lemma run_is_trace : forall sched ths s,
    run exec sched ths s = run_trace exec (trace sched ths) s.
  Proof.
    induction sched as [|i sched IH]; intros ths s; cbn; [reflexivity|].
    destruct (pop_thread i ths) as [[a ths']|]; cbn; apply IH.
  Qed.

  Lemma pop_thread_perm : forall i ths a ths',
    @pop_thread Act i ths = Some (a, ths') -> Permutation (concat ths) (a :: concat ths').
  Proof.
    induction i as [|i IH]; intros ths a ths' H; destruct ths as [|t r]; cbn in H; try discriminate.
    - destruct t as [|b t']; [discriminate|]. inversion H; subst. cbn. reflexivity.
    - destruct (pop_thread i r) as [[b r']|] eqn:E; [|discriminate]. inversion H; subst.
      cbn. apply IH in E. rewrite E. symmetry. apply Permutation_middle.
  Qed.

  Lemma trace_perm : forall sched ths,
    Permutation (concat ths) (@trace Act sched ths ++ concat (rest sched ths)).
  Proof.
    induction sched as [|i sched IH]; intros ths; cbn; [reflexivity|].
    destruct (pop_thread i ths) as [[a ths']|] eqn:E; [|apply IH].
    apply pop_thread_perm in E. rewrite E. cbn. constructor. apply IH.
  Qed.

  Lemma NoDup_app_l {A} (l1 l2 : list A) : NoDup (l1 ++ l2) -> NoDup l1.
  Proof.
    induction l1 as [|x l1 IH]; cbn; intros H; [constructor|].
    inversion H as [|? ? Hn Hd]; subst. constructor; [|apply IH, Hd].
    intros Hin. apply Hn, in_or_app. left; exact Hin.
  Qed.

  (* keys extracted from actions stay duplicate-free in every execution *)
  Lemma trace_nodup_keys {K} (f : Act -> list K) : forall sched ths,
    NoDup (flat_map f (concat ths)) -> NoDup (flat_map f (trace sched ths)).
  Proof.
    intros sched ths H.
    assert (P : Permutation (flat_map f (concat ths))
                            (flat_map f (trace sched ths) ++ flat_map f (concat (rest sched ths)))).
    { rewrite <- flat_map_app. apply Permutation_flat_map, trace_perm. }
    eapply Permutation_NoDup in H; [|exact P].
    apply NoDup_app_l in H. exact H.
  Qed.

  Lemma trace_incl : forall sched ths a, In a (@trace Act sched ths) -> In a (concat ths).
  Proof.
    intros sched ths a H. eapply Permutation_in; [symmetry; apply trace_perm|].
    apply in_or_app; left; exact H.
  Qed.

  (* an invariant preserved by every action holds after every schedule *)
  Lemma run_trace_inv (Inv : St -> Prop) :
    (forall a s, Inv s -> Inv (exec a s)) ->
    forall tr s, Inv s -> Inv (run_trace exec tr s).
  Proof.
    intros Hstep tr. induction tr as [|a tr IH]; intros s H; cbn; [exact H|].
    apply IH, Hstep, H.
  Qed.

  Lemma run_trace_app : forall tr1 tr2 s,
    run_trace exec (tr1 ++ tr2) s = run_trace exec tr2 (run_trace exec tr1 s).
  Proof. intros. unfold run_trace. apply fold_left_app. Qed.
End Gen.
