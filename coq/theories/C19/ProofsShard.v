(* C19/ProofsShard.v — instance (c): under every interleaving of writers, snapshots,
   compactions and readers, acknowledged writes stay visible and a read returns at least
   every write acknowledged before it began. *)
From Verif Require Import C19.Model C19.ProofsGen.
Open Scope N_scope.

Definition written (ph : pphase) : Prop := ph <> PInit.

Record sinv (s : sstate) : Prop := mkSinv {
  s_vis : forall p, written (pph s p) -> In p (visible s);
  s_vis' : forall p, In p (visible s) -> written (pph s p);
  s_ack : forall p, In p (acked s) -> pph s p = PAcked;
  s_flush : forall l, flushing s = Some l -> snap s = Some l;
  s_snap : forall l, snap s = Some l -> flushing s = Some l;
  s_inst : forall l, installed s = true -> flushing s = Some l -> incl l (concat (files s));
  s_inst' : flushing s = None -> installed s = false;
  r_begun : forall r must, rph s r = RBegun must -> incl must (visible s);
  r_cache : forall r must cv, rph s r = RCache must cv -> incl must (cv ++ concat (files s));
  r_done : forall r must res, rph s r = RDone must res -> incl must res
}.

Lemma sinv_init : sinv sinit.
Proof.
  constructor; cbn; intros; try discriminate; try contradiction; try reflexivity.
  all: unfold written in *; try congruence.
Qed.

Ltac sflds := cbn [hot snap flushing installed files wal acked pph rph closedseg].

Lemma in_visible s p :
  In p (visible s) <-> In p (hot s) \/ (exists l, snap s = Some l /\ In p l) \/ In p (concat (files s)).
Proof.
  unfold visible, cache_view. rewrite !in_app_iff. destruct (snap s) as [l|]; split.
  - intros [[H|H]|H]; auto. right; left; eauto.
  - intros [H|[[l' [E H]]|H]]; auto. inversion E; subst; auto.
  - intros [[H|H]|H]; auto. contradiction.
  - intros [H|[[l' [E H]]|H]]; auto. discriminate.
Qed.

Lemma concat_app_single (fs : list (list N)) l p :
  In p (concat (fs ++ [l])) <-> In p (concat fs) \/ In p l.
Proof. rewrite concat_app, in_app_iff. cbn. rewrite app_nil_r. tauto. Qed.

(* membership in the file layer and in the visible set never shrinks *)
Lemma sexec_files_mono a s p : In p (concat (files s)) -> In p (concat (files (sexec a s))).
Proof.
  intros H. unfold sexec, sexec_with. destruct a; cbn [sexec_with2];
    repeat match goal with
           | |- context[match ?x with _ => _ end] => destruct x
           end; sflds; auto.
  - apply concat_app_single; auto.
  - cbn. rewrite app_nil_r. exact H.
Qed.

Ltac vis := rewrite in_visible; cbn [hot snap flushing installed files wal acked pph rph closedseg].
Ltac vis_in H := rewrite in_visible in H; cbn [hot snap flushing installed files wal acked pph rph closedseg] in H.

Lemma sexec_inv a s : sinv s -> sinv (sexec a s).
Proof.
  intros I. pose proof I as [Sv Sv' Sa Sf Ss Si Si' Rb Rc Rd].
  (* a step that changes at most reader phases and keeps the visible set *)
  assert (Keep : forall s', (forall q, In q (visible s') <-> In q (visible s)) ->
                            snap s' = snap s -> flushing s' = flushing s ->
                            installed s' = installed s -> concat (files s') = concat (files s) -> acked s' = acked s ->
                            pph s' = pph s ->
                            (forall r must, rph s' r = RBegun must -> incl must (visible s)) ->
                            (forall r must cv, rph s' r = RCache must cv -> incl must (cv ++ concat (files s))) ->
                            (forall r must res, rph s' r = RDone must res -> incl must res) -> sinv s').
  { intros s' Ev E2 E3 E4 E5 E6 E7 B C D.
    constructor; rewrite ?E2, ?E3, ?E4, ?E5, ?E6, ?E7; auto.
    - intros q Hq. apply Ev, Sv, Hq.
    - intros q Hq. apply Sv', Ev, Hq.
    - intros r must Hr q Hq. apply Ev. eapply B; eauto. }
  unfold sexec, sexec_with. destruct a as [p|p|p| | | | | |r|r|r]; cbn [sexec_with2].
  - (* SCacheW *)
    destruct (pph s p) eqn:Ep; try exact I.
    assert (Vm : forall q, In q (visible s) ->
                 In q (visible (mkS (p :: hot s) (snap s) (flushing s) (installed s) (files s) (wal s) (acked s) (upd (pph s) p PCached) (rph s) (closedseg s)))).
    { intros q Hq. vis. vis_in Hq. cbn. tauto. }
    constructor; sflds; [ | | | exact Sf | exact Ss | exact Si | exact Si' | | exact Rc | exact Rd ].
    + intros q Hq. unfold upd in Hq. destruct (N.eqb_spec q p) as [?E|]; [subst q|]; [vis; cbn; auto|].
      apply Vm, Sv, Hq.
    + intros q Hq. unfold upd. destruct (N.eqb_spec q p) as [?E|Hne]; [subst q|]; [unfold written; congruence|].
      apply Sv'. vis. vis_in Hq. cbn in Hq. destruct Hq as [[E|Hq]|Hq]; [congruence|auto|auto].
    + intros q Hq. unfold upd. destruct (N.eqb_spec q p) as [?E|]; [subst q|]; [|auto].
      apply Sa in Hq. congruence.
    + intros r must Hr q Hq. apply Vm. eapply Rb; eauto.
  - (* SWalW *)
    destruct (pph s p) eqn:Ep; try exact I.
    constructor; sflds; [ | | | exact Sf | exact Ss | exact Si | exact Si' | exact Rb | exact Rc | exact Rd ].
    + intros q Hq. change (In q (visible s)). apply Sv. unfold upd in Hq.
      destruct (N.eqb_spec q p) as [?E|]; [subst q|]; [unfold written; congruence|exact Hq].
    + intros q Hq. unfold upd. destruct (N.eqb_spec q p) as [?E|]; [subst q|]; [unfold written; congruence|apply Sv'; exact Hq].
    + intros q Hq. unfold upd. destruct (N.eqb_spec q p) as [?E|]; [subst q|]; [|auto]. apply Sa in Hq. congruence.
  - (* SAck *)
    destruct (pph s p) eqn:Ep; try exact I.
    constructor; sflds; [ | | | exact Sf | exact Ss | exact Si | exact Si' | exact Rb | exact Rc | exact Rd ].
    + intros q Hq. change (In q (visible s)). apply Sv. unfold upd in Hq.
      destruct (N.eqb_spec q p) as [?E|]; [subst q|]; [unfold written; congruence|exact Hq].
    + intros q Hq. unfold upd. destruct (N.eqb_spec q p) as [?E|]; [subst q|]; [unfold written; congruence|apply Sv'; exact Hq].
    + intros q [->|Hq]; unfold upd; [rewrite N.eqb_refl; reflexivity|].
      destruct (N.eqb_spec q p) as [?E|]; [subst q|]; [reflexivity|auto].
  - (* SSnapBegin *)
    destruct (snap s) as [l|] eqn:Es; [exact I|].
    assert (Ev : forall q, In q (visible (mkS [] (Some (hot s)) (Some (hot s)) false (files s) [] (acked s) (pph s) (rph s) (closedseg s ++ wal s)))
                           <-> In q (visible s)).
    { intros q. vis. rewrite (in_visible s), Es. split.
      - intros [H|[[l [E H]]|H]]; [contradiction|inversion E; subst; auto|auto].
      - intros [H|[[l [E H]]|H]]; [right; left; eauto|discriminate|auto]. }
    constructor; sflds;
      [ intros q Hq; apply Ev, Sv, Hq
      | intros q Hq; apply Sv', Ev, Hq
      | exact Sa
      | intros l E; exact E
      | intros l E; exact E
      | intros; discriminate
      | intros; discriminate
      | intros r must Hr q Hq; apply Ev; eapply Rb; eauto
      | exact Rc | exact Rd ].
  - (* SSnapCloseSeg: nothing to do in the one-section code *)
    exact I.
  - (* SSnapInstall *)
    destruct (flushing s) as [l|] eqn:Ef; [|exact I].
    destruct (installed s) eqn:Ei; [exact I|].
    pose proof (Sf l eq_refl) as Es.
    assert (Ev : forall q, In q (visible (mkS (hot s) (snap s) (Some l) true (files s ++ [l]) (wal s) (acked s) (pph s) (rph s) (closedseg s)))
                           <-> In q (visible s)).
    { intros q. vis. rewrite (in_visible s), concat_app_single, Es. split; [|tauto].
      intros [H|[H|[H|H]]]; auto. right; left; eauto. }
    constructor; sflds; [ | | exact Sa | | | | | | | exact Rd ].
    + intros q Hq. apply Ev, Sv, Hq.
    + intros q Hq. apply Sv', Ev, Hq.
    + intros l0 E. inversion E; subst. exact Es.
    + intros l0 E. rewrite Es in E. exact E.
    + intros l0 _ E. inversion E; subst. intros q Hq. apply concat_app_single; auto.
    + intros; discriminate.
    + intros r must Hr q Hq. apply Ev. eapply Rb; eauto.
    + intros r must cv Hr q Hq. specialize (Rc r must cv Hr q Hq).
      rewrite in_app_iff in *. rewrite concat_app_single. tauto.
  - (* SSnapClear *)
    destruct (flushing s) as [l|] eqn:Ef; [|exact I].
    destruct (installed s) eqn:Ei; [|exact I].
    pose proof (Sf l eq_refl) as Es. pose proof (Si l eq_refl eq_refl) as Hl.
    assert (Ev : forall q, In q (visible (mkS (hot s) None None false (files s) (wal s) (acked s) (pph s) (rph s) []))
                           <-> In q (visible s)).
    { intros q. vis. rewrite (in_visible s), Es. split.
      - intros [H|[[l0 [E _]]|H]]; [auto|discriminate|auto].
      - intros [H|[[l0 [E H]]|H]]; [auto|inversion E; subst; right; right; apply Hl, H|auto]. }
    constructor; sflds;
      [ intros q Hq; apply Ev, Sv, Hq
      | intros q Hq; apply Sv', Ev, Hq
      | exact Sa
      | intros; discriminate
      | intros; discriminate
      | intros; discriminate
      | intros; reflexivity
      | intros r must Hr q Hq; apply Ev; eapply Rb; eauto
      | exact Rc | exact Rd ].
  - (* SCompact *)
    assert (Ec : concat [concat (files s)] = concat (files s)) by (cbn; apply app_nil_r).
    apply Keep; sflds; rewrite ?Ec; auto.
    intros q. rewrite !in_visible. sflds. rewrite Ec. tauto.
  - (* SRBegin *)
    destruct (rph s r) eqn:Er; try exact I.
    apply Keep; sflds; try reflexivity.
    + intros r0 must H. unfold upd in H. destruct (N.eqb_spec r0 r) as [?E|]; [subst r0|]; [|eauto].
      inversion H; subst. intros q Hq. apply Sv. rewrite (Sa q Hq). unfold written; discriminate.
    + intros r0 must cv H. unfold upd in H. destruct (N.eqb_spec r0 r); [discriminate|eauto].
    + intros r0 must res H. unfold upd in H. destruct (N.eqb_spec r0 r); [discriminate|eauto].
  - (* SRCache *)
    destruct (rph s r) as [|must| |] eqn:Er; try exact I.
    apply Keep; sflds; try reflexivity.
    + intros r0 m H. unfold upd in H. destruct (N.eqb_spec r0 r); [discriminate|eauto].
    + intros r0 m cv H. unfold upd in H. destruct (N.eqb_spec r0 r) as [?E|]; [subst r0|]; [|eauto].
      inversion H; subst. apply (Rb r m Er).
    + intros r0 m res H. unfold upd in H. destruct (N.eqb_spec r0 r); [discriminate|eauto].
  - (* SRFiles *)
    destruct (rph s r) as [| |must cv|] eqn:Er; try exact I.
    apply Keep; sflds; try reflexivity.
    + intros r0 m H. unfold upd in H. destruct (N.eqb_spec r0 r); [discriminate|eauto].
    + intros r0 m cv0 H. unfold upd in H. destruct (N.eqb_spec r0 r); [discriminate|eauto].
    + intros r0 m res H. unfold upd in H. destruct (N.eqb_spec r0 r) as [?E|]; [subst r0|]; [|eauto].
      inversion H; subst. apply (Rc r m cv Er).
Qed.

Lemma shard_trace_inv tr : sinv (run_trace sexec tr sinit).
Proof. apply run_trace_inv; [intros; apply sexec_inv; assumption|apply sinv_init]. Qed.

Lemma shard_trace_inv_from tr s : sinv s -> sinv (run_trace sexec tr s).
Proof. apply run_trace_inv. intros; apply sexec_inv; assumption. Qed.

(* acknowledgements are never withdrawn *)
Lemma sexec_acked_mono a s p : In p (acked s) -> In p (acked (sexec a s)).
Proof.
  intros H. unfold sexec, sexec_with. destruct a; cbn [sexec_with2];
    repeat match goal with
           | |- context[match ?x with _ => _ end] => destruct x
           end; sflds; auto.
  right; exact H.
Qed.

Lemma acked_mono_trace tr s p : In p (acked s) -> In p (acked (run_trace sexec tr s)).
Proof.
  revert s. induction tr as [|a tr IH]; intros s H; [exact H|]. cbn. apply IH, sexec_acked_mono, H.
Qed.

(* the set a read must return is fixed when the read begins: exactly the acked list *)
Definition must_of (ph : rphase) : option (list N) :=
  match ph with RInit => None | RBegun m => Some m | RCache m _ => Some m | RDone m _ => Some m end.

Lemma sexec_must_stable a s r m : must_of (rph s r) = Some m -> must_of (rph (sexec a s) r) = Some m.
Proof.
  intros H. unfold sexec, sexec_with.
  destruct a as [p|p|p| | | | | |r0|r0|r0]; cbn [sexec_with2].
  1-8: repeat match goal with
              | |- context[match ?x with _ => _ end] => destruct x
              end; sflds; exact H.
  all: destruct (rph s r0) eqn:E; sflds; try exact H;
       unfold upd; destruct (N.eqb_spec r r0) as [E0|]; try exact H;
       subst r; rewrite E in H; cbn in H; try discriminate; cbn; exact H.
Qed.

Lemma must_stable_trace tr s r m : must_of (rph s r) = Some m -> must_of (rph (run_trace sexec tr s) r) = Some m.
Proof.
  revert s. induction tr as [|a tr IH]; intros s H; [exact H|]. cbn. apply IH, sexec_must_stable, H.
Qed.

Lemma begin_records_acked s r : rph s r = RInit -> must_of (rph (sexec (SRBegin r) s) r) = Some (acked s).
Proof. intros H. unfold sexec; cbn. rewrite H. cbn. unfold upd. rewrite N.eqb_refl. reflexivity. Qed.

(* reversed commit order (ClearSnapshot before FileStore.Replace): an acked write is
   invisible to a read that began after the ack *)
Definition clear_first_trace : list sact :=
  [SCacheW 1; SWalW 1; SAck 1; SSnapBegin; SSnapClear; SRBegin 9; SRCache 9; SRFiles 9; SSnapInstall].

Lemma clear_before_install_loses_visibility :
  rph (run_trace (sexec_with false) clear_first_trace sinit) 9 = RDone [1] [].
Proof. vm_compute. reflexivity. Qed.

Lemma install_before_clear_ok :
  rph (run_trace sexec [SCacheW 1; SWalW 1; SAck 1; SSnapBegin; SSnapInstall; SRBegin 9; SRCache 9; SSnapClear; SRFiles 9] sinit) 9
  = RDone [1] [1; 1].
Proof. vm_compute. reflexivity. Qed.

(* ---------- what is on disk covers every logged write ---------- *)
(* The TSM files, the current WAL segment and the closed segments that the running
   snapshot will remove once it is committed together hold every write that reached the
   WAL - in particular every acknowledged write survives a restart. *)
Record dinv (s : sstate) : Prop := mkDinv {
  d_logged : forall p, (pph s p = PLogged \/ pph s p = PAcked) ->
             In p (concat (files s)) \/ In p (wal s) \/ In p (closedseg s);
  d_wal : forall p, In p (wal s) -> In p (visible s);
  d_closed : forall p, In p (closedseg s) ->
             (exists l, flushing s = Some l /\ In p l) \/ In p (concat (files s))
}.

Lemma dinv_init : dinv sinit.
Proof. constructor; cbn; intros; try contradiction. destruct H; discriminate. Qed.

Lemma sexec_dinv a s : sinv s -> dinv s -> dinv (sexec a s).
Proof.
  intros I D0. pose proof D0 as [Dl Dw Dc]. pose proof I as [Sv Sv' Sa Sf Ss Si Si' Rb Rc Rd].
  pose proof (sexec_inv a s I) as I'.
  unfold sexec, sexec_with in *. destruct a as [p|p|p| | | | | |r|r|r]; cbn [sexec_with2] in *.
  - (* SCacheW *)
    destruct (pph s p) eqn:Ep; try (exact D0).
    constructor; sflds.
    + intros q Hq. unfold upd in Hq. destruct (N.eqb_spec q p) as [E|]; [destruct Hq; discriminate|auto].
    + intros q Hq. rewrite in_visible. sflds. apply Dw in Hq. rewrite in_visible in Hq. cbn. tauto.
    + exact Dc.
  - (* SWalW *)
    destruct (pph s p) eqn:Ep; try (exact D0).
    constructor; sflds.
    + intros q Hq. unfold upd in Hq. destruct (N.eqb_spec q p) as [E|]; [subst; right; left; left; reflexivity|].
      destruct (Dl q Hq) as [H|[H|H]]; auto. right; left; right; exact H.
    + intros q [E|Hq]; [subst q|].
      * change (In p (visible s)). apply Sv. rewrite Ep. unfold written. discriminate.
      * change (In q (visible s)). auto.
    + exact Dc.
  - (* SAck *)
    destruct (pph s p) eqn:Ep; try (exact D0).
    constructor; sflds; [|exact Dw|exact Dc].
    intros q Hq. unfold upd in Hq. destruct (N.eqb_spec q p) as [E|]; [subst; apply Dl; left; exact Ep|auto].
  - (* SSnapBegin *)
    destruct (snap s) as [l|] eqn:Es; [exact D0|].
    assert (Ef : flushing s = None).
    { destruct (flushing s) as [l|] eqn:E; [|reflexivity]. pose proof (Sf l eq_refl). congruence. }
    constructor; sflds.
    + intros q Hq. destruct (Dl q Hq) as [H|[H|H]]; auto; right; right; apply in_or_app; auto.
    + intros q [].
    + intros q Hq. apply in_app_or in Hq. destruct Hq as [Hq|Hq].
      * destruct (Dc q Hq) as [[l [E _]]|H]; [congruence|auto].
      * apply Dw in Hq. rewrite in_visible, Es in Hq. destruct Hq as [H|[[l [E _]]|H]]; [left; eauto|discriminate|auto].
  - (* SSnapCloseSeg *)
    exact D0.
  - (* SSnapInstall *)
    destruct (flushing s) as [l|] eqn:Ef; [|exact D0].
    destruct (installed s) eqn:Ei; [exact D0|].
    constructor; sflds.
    + intros q Hq. destruct (Dl q Hq) as [H|[H|H]]; auto. left. apply concat_app_single; auto.
    + intros q Hq. apply (s_vis' _ I') in Hq || idtac. change (In q (visible (sexec_with2 true true SSnapInstall s))) || idtac.
      pose proof (Dw q Hq) as Hv. rewrite in_visible in *. sflds. rewrite concat_app_single. tauto.
    + intros q Hq. destruct (Dc q Hq) as [[l0 [E H]]|H]; [left; eauto|right; apply concat_app_single; auto].
  - (* SSnapClear *)
    destruct (flushing s) as [l|] eqn:Ef; [|exact D0].
    destruct (installed s) eqn:Ei; [|exact D0].
    pose proof (Si l eq_refl eq_refl) as Hl. pose proof (Sf l eq_refl) as Es.
    constructor; sflds.
    + intros q Hq. destruct (Dl q Hq) as [H|[H|H]]; auto.
      destruct (Dc q H) as [[l0 [E H0]]|H0]; [inversion E; subst; left; apply Hl, H0|auto].
    + intros q Hq. pose proof (Dw q Hq) as Hv. rewrite in_visible in *. sflds. rewrite Es in Hv.
      destruct Hv as [H|[[l0 [E H]]|H]]; auto. inversion E; subst. right; right; apply Hl, H.
    + intros q [].
  - (* SCompact *)
    assert (Ec : concat [concat (files s)] = concat (files s)) by (cbn; apply app_nil_r).
    constructor; sflds; rewrite ?Ec; auto.
    intros q Hq. pose proof (Dw q Hq) as Hv. rewrite in_visible in *. sflds. rewrite Ec. exact Hv.
  - destruct (rph s r); try exact D0; constructor; sflds; [exact Dl|exact Dw|exact Dc].
  - destruct (rph s r); try exact D0; constructor; sflds; [exact Dl|exact Dw|exact Dc].
  - destruct (rph s r); try exact D0; constructor; sflds; [exact Dl|exact Dw|exact Dc].
Qed.

Lemma shard_trace_dinv tr : sinv (run_trace sexec tr sinit) /\ dinv (run_trace sexec tr sinit).
Proof.
  assert (G : forall tr s, sinv s -> dinv s -> sinv (run_trace sexec tr s) /\ dinv (run_trace sexec tr s)).
  { induction tr0 as [|a tr0 IH]; intros s I D; [split; assumption|].
    cbn. apply IH; [apply sexec_inv, I|apply sexec_dinv; assumption]. }
  apply G; [apply sinv_init|apply dinv_init].
Qed.

(* WriteSnapshot in two critical sections (cache snapshot, later the segment roll-over): a
   write acknowledged in between is only in the live cache and in a segment that the
   commit of this snapshot removes *)
Definition split_snapshot_trace : list sact :=
  [SSnapBegin; SCacheW 1; SWalW 1; SAck 1; SSnapCloseSeg; SSnapInstall; SSnapClear].

Lemma split_snapshot_loses_write :
  let s := run_trace (sexec_with2 false true) split_snapshot_trace sinit in
  acked s = [1] /\ concat (files s) = [] /\ wal s = [] /\ closedseg s = [] /\ hot s = [1].
Proof. vm_compute. repeat split. Qed.
