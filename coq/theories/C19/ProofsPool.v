(* C19/ProofsPool.v — the pool invariant is preserved by every atomic section, for every
   trace in which no handle is closed twice; a double Close breaks it. *)
From Verif Require Import C19.Model C19.Pool C19.ProofsGen.
From Coq Require Import ZifyBool ZifyNat ZifyN.
Open Scope N_scope.

(* ---------- counting ---------- *)
Fixpoint cnt (x : N) (l : list N) : nat :=
  match l with
  | [] => 0
  | y :: r => (if N.eqb y x then 1 else 0) + cnt x r
  end.

Lemma cnt_app x l1 l2 : cnt x (l1 ++ l2) = (cnt x l1 + cnt x l2)%nat.
Proof. induction l1 as [|y l1 IH]; cbn; [reflexivity|]. rewrite IH. lia. Qed.

Lemma cnt_remove1 x y l : cnt x (remove1 y l) = if N.eqb y x then Nat.pred (cnt x l) else cnt x l.
Proof.
  induction l as [|z r IH]; cbn.
  - destruct (N.eqb y x); reflexivity.
  - destruct (N.eqb_spec z y) as [->|Hzy].
    + destruct (N.eqb_spec y x) as [->|Hyx]; cbn; [reflexivity|lia].
    + cbn. rewrite IH. destruct (N.eqb_spec y x) as [->|Hyx].
      * destruct (N.eqb_spec z x); [contradiction|]. cbn. reflexivity.
      * reflexivity.
Qed.

Lemma length_remove1 y l : (cnt y l >= 1)%nat -> length (remove1 y l) = Nat.pred (length l).
Proof.
  induction l as [|z r IH]; cbn; intros H; [lia|].
  destruct (N.eqb_spec z y) as [->|Hzy]; [reflexivity|].
  cbn in *. rewrite IH by lia. destruct r; cbn in *; lia.
Qed.

Lemma cnt_In x l : In x l <-> (cnt x l >= 1)%nat.
Proof.
  induction l as [|y r IH]; cbn; [split; [tauto|lia]|].
  destruct (N.eqb_spec y x) as [->|Hyx]; split; intros H; try lia; auto.
  - destruct H as [H|H]; [contradiction|]. apply IH in H. lia.
  - right. apply IH. lia.
Qed.

Lemma NoDup_cnt l : NoDup l <-> (forall x, (cnt x l <= 1)%nat).
Proof.
  induction l as [|y r IH]; split; intros H.
  - intros x; cbn; lia.
  - constructor.
  - inversion H as [|? ? Hn Hd]; subst. intros x. cbn.
    destruct (N.eqb_spec y x) as [->|Hyx].
    + assert (cnt x r = 0)%nat; [|lia].
      destruct (cnt x r) eqn:E; [reflexivity|]. exfalso. apply Hn, cnt_In. lia.
    + pose proof (proj1 IH Hd x). lia.
  - constructor.
    + intros Hin. apply cnt_In in Hin. specialize (H y). cbn in H. rewrite N.eqb_refl in H. lia.
    + apply (proj2 IH). intros x. specialize (H x). cbn in H. lia.
Qed.

Lemma pick_spec k l c r : pick k l = Some (c, r) ->
  (forall x, cnt x l = ((if N.eqb c x then 1 else 0) + cnt x r)%nat) /\ length l = S (length r).
Proof.
  revert l c r. induction k as [|k IH]; intros l c r H; destruct l as [|y l']; cbn in H; try discriminate.
  - inversion H; subst. split; [intros x; reflexivity|reflexivity].
  - destruct (pick k l') as [[x0 r0]|] eqn:E; [|discriminate]. inversion H; subst.
    destruct (IH _ _ _ E) as [Hc Hl]. split.
    + intros x. cbn [cnt]. rewrite (Hc x). lia.
    + cbn [length]. rewrite Hl. reflexivity.
Qed.

(* ---------- the invariant ---------- *)
Record pinv (s : pool) : Prop := mkPinv {
  i_tok : closed s = false ->
          tokens s = (length (idle s) + length (held s) + length (outs s) + length (pend s))%nat;
  i_cap : closed s = false -> (tokens s <= cap s)%nat;
  i_drain : closed s = false -> drain s = [];
  i_cnt : forall x, (cnt x (idle s) + cnt x (held s) + cnt x (drain s) + cnt x (outs s))%nat = cnt x (live s);
  i_live1 : forall x, (cnt x (live s) <= 1)%nat;
  i_next : forall x, (cnt x (live s) >= 1)%nat -> x < next s;
  i_out : forall h c u, hs s h = HConn c u 0 -> (cnt c (outs s) >= 1)%nat;
  i_out' : forall c, (cnt c (outs s) >= 1)%nat -> exists h u, hs s h = HConn c u 0;
  i_inj : forall h h' c u u', hs s h = HConn c u 0 -> hs s h' = HConn c u' 0 -> h = h';
  i_pend : forall h, hs s h = HTook <-> (cnt h (pend s) >= 1)%nat;
  i_pend1 : forall h, (cnt h (pend s) <= 1)%nat
}.

Lemma pinv_init cap : pinv (pinit cap).
Proof.
  constructor; cbn; intros; try reflexivity; try lia; try discriminate.
  - split; [discriminate|lia].
Qed.

Ltac eqb_cases :=
  repeat match goal with
         | H : context[N.eqb ?a ?b] |- _ => destruct (N.eqb_spec a b); subst
         | |- context[N.eqb ?a ?b] => destruct (N.eqb_spec a b); subst
         end.

Ltac csimp := cbn [cnt length app Nat.pred] in *; rewrite ?cnt_app, ?cnt_remove1, ?app_length in *; cbn [cnt length app Nat.pred] in *.

(* giving a connection c (taken out of one of the places, so that the count equation is
   one short for c) to a handle h that is not a handle yet *)
Section Give.
  Variables (s s0 : pool) (h c : N).
  Hypothesis I : pinv s.
  Hypothesis Hh : forall c' u n, hs s h <> HConn c' u n.
  Hypothesis Hnt : hs s h <> HTook.
  Hypothesis E_hs : hs s0 = hs s.
  Hypothesis E_outs : outs s0 = outs s.
  Hypothesis E_pend : pend s0 = pend s.
  Hypothesis E_closed : closed s0 = closed s.
  Hypothesis E_cap : cap s0 = cap s.
  Hypothesis E_tok : closed s = false ->
     tokens s0 = (S (length (idle s0) + length (held s0) + length (outs s) + length (pend s)))%nat.
  Hypothesis E_tcap : closed s = false -> (tokens s0 <= cap s)%nat.
  Hypothesis E_drain : closed s = false -> drain s0 = [].
  Hypothesis E_cnt : forall x, ((if N.eqb c x then 1 else 0) + (cnt x (idle s0) + cnt x (held s0) + cnt x (drain s0) + cnt x (outs s)))%nat = cnt x (live s0).
  Hypothesis E_live1 : forall x, (cnt x (live s0) <= 1)%nat.
  Hypothesis E_next : forall x, (cnt x (live s0) >= 1)%nat -> x < next s0.

  Lemma pinv_give : pinv (give s0 h c).
  Proof.
    destruct I as [Itok Icap Idr Icnt Il1 Inx Iout Iout' Iinj Ipend Ipend1].
    constructor; unfold give; cbn [cap closed tokens idle held drain next live hs outs pend].
    - intros Hc. rewrite E_closed in Hc. rewrite E_tok by exact Hc. rewrite E_outs, E_pend. cbn. lia.
    - intros Hc. rewrite E_closed in Hc. rewrite E_cap. apply E_tcap, Hc.
    - intros Hc. rewrite E_closed in Hc. apply E_drain, Hc.
    - intros x. rewrite E_outs. specialize (E_cnt x). cbn [cnt]. lia.
    - exact E_live1.
    - exact E_next.
    - intros h0 c0 u0 H0. rewrite E_hs, E_outs in *. unfold upd in H0. cbn [cnt].
      destruct (N.eqb_spec h0 h) as [->|Hne].
      + inversion H0; subst. rewrite N.eqb_refl. lia.
      + apply Iout in H0. lia.
    - intros c0 H0. rewrite E_hs, E_outs in *. cbn [cnt] in H0.
      destruct (N.eqb_spec c c0) as [->|Hne].
      + exists h, false. unfold upd. rewrite N.eqb_refl. reflexivity.
      + destruct (Iout' c0) as [h0 [u0 Hh0]]; [lia|].
        exists h0, u0. unfold upd. destruct (N.eqb_spec h0 h) as [->|Hne']; [|exact Hh0].
        exfalso. eapply Hh. exact Hh0.
    - intros h1 h2 c0 u1 u2 H1 H2. rewrite E_hs in *. unfold upd in H1, H2.
      assert (Hfresh : forall h' u', hs s h' = HConn c u' 0 -> False).
      { intros h' u' Hx. apply Iout in Hx. specialize (E_cnt c). specialize (E_live1 c).
        rewrite N.eqb_refl in E_cnt. lia. }
      destruct (N.eqb_spec h1 h) as [->|N1]; destruct (N.eqb_spec h2 h) as [->|N2]; try reflexivity.
      + inversion H1; subst. exfalso. eapply Hfresh; eauto.
      + inversion H2; subst. exfalso. eapply Hfresh; eauto.
      + eapply Iinj; eauto.
    - intros h0. rewrite E_hs, E_pend. unfold upd. destruct (N.eqb_spec h0 h) as [->|Hne]; [|apply Ipend].
      split; [discriminate|]. intros Hx. apply Ipend in Hx. contradiction.
    - intros h0. rewrite E_pend. apply Ipend1.
  Qed.
End Give.

(* changing the phase of a handle that holds no connection, to a phase that holds none *)
Lemma pinv_set_h s h x :
  pinv s ->
  (forall c u n, hs s h <> HConn c u n) -> hs s h <> HTook ->
  (forall c u n, x <> HConn c u n) -> x <> HTook ->
  pinv (set_h s h x).
Proof.
  intros [Itok Icap Idr Icnt Il1 Inx Iout Iout' Iinj Ipend Ipend1] Hh Hnt Hx Hxt.
  constructor; unfold set_h; cbn [cap closed tokens idle held drain next live hs outs pend]; auto.
  - intros h0 c0 u0 H0. unfold upd in H0. destruct (N.eqb_spec h0 h) as [->|Hne]; [|eauto].
    exfalso. eapply Hx; eauto.
  - intros c0 H0. destruct (Iout' c0 H0) as [h0 [u0 Hh0]]. exists h0, u0. unfold upd.
    destruct (N.eqb_spec h0 h) as [->|Hne]; [|exact Hh0]. exfalso. eapply Hh; eauto.
  - intros h1 h2 c0 u1 u2 H1 H2. unfold upd in H1, H2.
    destruct (N.eqb_spec h1 h) as [->|N1]; [exfalso; eapply Hx; eauto|].
    destruct (N.eqb_spec h2 h) as [->|N2]; [exfalso; eapply Hx; eauto|]. eapply Iinj; eauto.
  - intros h0. unfold upd. destruct (N.eqb_spec h0 h) as [->|Hne]; [|apply Ipend].
    split; [intros; contradiction|]. intros Hc. apply Ipend in Hc. contradiction.
Qed.

(* try_free on a state whose token equation is one too high *)
Lemma try_free_tokens s :
  closed s = false -> (tokens s >= 1)%nat -> tokens (try_free s) = Nat.pred (tokens s).
Proof. intros Hc _. unfold try_free. rewrite Hc. reflexivity. Qed.

Lemma try_free_other s :
  cap (try_free s) = cap s /\ closed (try_free s) = closed s /\ idle (try_free s) = idle s /\
  held (try_free s) = held s /\ drain (try_free s) = drain s /\ next (try_free s) = next s /\
  live (try_free s) = live s /\ hs (try_free s) = hs s /\ outs (try_free s) = outs s /\ pend (try_free s) = pend s.
Proof. unfold try_free. destruct (closed s) eqn:E; cbn; rewrite ?E; repeat split; reflexivity. Qed.

Lemma try_free_closed_tokens s : closed s = true -> tokens (try_free s) = tokens s.
Proof. intros H. unfold try_free. rewrite H. reflexivity. Qed.

(* ---------- every atomic section preserves the invariant ---------- *)
Definition first_close (a : pact) (s : pool) : Prop :=
  forall h c u n, a = PClose h -> hs s h = HConn c u n -> n = 0%nat.

Ltac ceq c x := destruct (N.eqb_spec c x) as [?E0|?Hne]; [subst x|].
Ltac flds := cbn [cap closed tokens idle held drain next live hs outs pend].

(* handle-side obligations when handle h moves between two phases that hold no connection *)
Section Phase.
  Variables (s : pool) (h : N) (x : hst).
  Hypothesis I : pinv s.
  Hypothesis Hh : forall c u n, hs s h <> HConn c u n.
  Hypothesis Hx : forall c u n, x <> HConn c u n.

  Lemma ph_out : forall h0 c0 u0, upd (hs s) h x h0 = HConn c0 u0 0 -> (cnt c0 (outs s) >= 1)%nat.
  Proof.
    intros h0 c0 u0 H0. unfold upd in H0. destruct (N.eqb_spec h0 h) as [->|Hne].
    - exfalso. eapply Hx; eauto.
    - eapply i_out; eauto.
  Qed.
  Lemma ph_out' : forall c0, (cnt c0 (outs s) >= 1)%nat -> exists h0 u0, upd (hs s) h x h0 = HConn c0 u0 0.
  Proof.
    intros c0 H0. destruct (i_out' s I c0 H0) as [h0 [u0 Hh0]]. exists h0, u0. unfold upd.
    destruct (N.eqb_spec h0 h) as [->|Hne]; [|exact Hh0]. exfalso. eapply Hh; eauto.
  Qed.
  Lemma ph_inj : forall h1 h2 c0 u1 u2, upd (hs s) h x h1 = HConn c0 u1 0 -> upd (hs s) h x h2 = HConn c0 u2 0 -> h1 = h2.
  Proof.
    intros h1 h2 c0 u1 u2 H1 H2. unfold upd in H1, H2.
    destruct (N.eqb_spec h1 h) as [->|N1]; [exfalso; eapply Hx; eauto|].
    destruct (N.eqb_spec h2 h) as [->|N2]; [exfalso; eapply Hx; eauto|]. eapply i_inj; eauto.
  Qed.
End Phase.

Lemma pexec_inv a s : pinv s -> first_close a s -> pinv (pexec a s).
Proof.
  intros I FC. pose proof I as [Itok Icap Idr Icnt Il1 Inx Iout Iout' Iinj Ipend Ipend1].
  destruct a as [h k|h|h ok|h k|h|h|h|k expired| | |]; cbn [pexec].
  - (* PGet *)
    destruct (hs s h) eqn:Eh; try exact I.
    destruct (closed s) eqn:Ec.
    { apply pinv_set_h; auto; try congruence; rewrite Eh; congruence. }
    destruct (match k with Some k' => pick k' (idle s) | None => None end) as [[c r]|] eqn:Ei.
    2:{ apply pinv_set_h; auto; try congruence; rewrite Eh; congruence. }
    destruct k as [k'|]; [|discriminate]. destruct (pick_spec _ _ _ _ Ei) as [Hcn Hln].
    pose proof (Itok eq_refl) as Tk.
    apply pinv_give with (s := s); flds; auto;
      try (rewrite Eh; congruence);
      try (intros _; rewrite Tk, Hln; cbn; lia);
      try (intros x; specialize (Icnt x); rewrite (Hcn x) in Icnt; lia).
  - (* PTake *)
    destruct (hs s h) eqn:Eh; try exact I.
    destruct (negb (closed s) && Nat.ltb (tokens s) (cap s)) eqn:Eg.
    + assert (Ec : closed s = false) by (destruct (closed s); [discriminate|reflexivity]).
      assert (Hlt : (tokens s < cap s)%nat) by (rewrite Ec in Eg; cbn in Eg; apply Nat.ltb_lt in Eg; exact Eg).
      assert (Hnp : cnt h (pend s) = 0%nat).
      { destruct (cnt h (pend s)) eqn:E; [reflexivity|]. exfalso.
        assert (X : hs s h = HTook) by (apply Ipend; lia). congruence. }
      assert (Hh : forall c u n, hs s h <> HConn c u n) by (rewrite Eh; congruence).
      constructor; flds;
        [ intros _; rewrite Itok by exact Ec; cbn; lia
        | intros _; lia
        | exact Idr | exact Icnt | exact Il1 | exact Inx
        | apply ph_out; auto; congruence
        | apply ph_out'; auto
        | apply ph_inj; auto; congruence
        | | ].
      * intros h0. unfold upd. cbn [cnt]. destruct (N.eqb_spec h0 h) as [->|Hne].
        { rewrite N.eqb_refl. split; intros; [lia|reflexivity]. }
        { destruct (N.eqb_spec h h0); [congruence|]. cbn. apply Ipend. }
      * intros h0. cbn [cnt]. destruct (N.eqb_spec h h0) as [->|]; [rewrite Hnp; lia|]. cbn. apply Ipend1.
    + apply pinv_set_h; auto; try congruence; rewrite Eh; congruence.
  - (* PDial *)
    destruct (hs s h) eqn:Eh; try exact I.
    assert (Hp : (cnt h (pend s) >= 1)%nat) by (apply Ipend; exact Eh).
    assert (Hp1 : cnt h (pend s) = 1%nat) by (specialize (Ipend1 h); lia).
    assert (Hlen : length (remove1 h (pend s)) = Nat.pred (length (pend s))) by (apply length_remove1; exact Hp).
    assert (Hpl : (length (pend s) >= 1)%nat).
    { destruct (pend s); cbn in *; lia. }
    assert (Hh : forall c u n, hs s h <> HConn c u n) by (rewrite Eh; congruence).
    assert (Ipend_r : forall x, x <> HTook ->
               forall h0, upd (hs s) h x h0 = HTook <-> (cnt h0 (remove1 h (pend s)) >= 1)%nat).
    { intros x Hx h0. unfold upd. rewrite cnt_remove1. destruct (N.eqb_spec h0 h) as [->|Hne].
      - rewrite N.eqb_refl. split; [intros; contradiction|lia].
      - destruct (N.eqb_spec h h0); [congruence|]. apply Ipend. }
    assert (Ipend1_r : forall h0, (cnt h0 (remove1 h (pend s)) <= 1)%nat).
    { intros h0. rewrite cnt_remove1. specialize (Ipend1 h0). destruct (N.eqb h h0); lia. }
    destruct ok.
    + (* factory succeeded: fresh connection [next s] *)
      unfold give; flds.
      remember (next s) as c eqn:Ec0.
      assert (Hfresh : cnt c (live s) = 0%nat).
      { destruct (cnt c (live s)) eqn:E; [reflexivity|]. exfalso.
        assert (X : c < c) by (apply Inx; lia). lia. }
      constructor; flds.
      * intros Hc. rewrite Itok by exact Hc. cbn [length]. rewrite Hlen. lia.
      * exact Icap.
      * exact Idr.
      * intros x. specialize (Icnt x). cbn [cnt]. lia.
      * intros x. cbn [cnt]. ceq c x; [rewrite Hfresh; lia|]. cbn. apply Il1.
      * intros x. cbn [cnt]. ceq c x; [lia|]. cbn. intros Hx.
        apply Inx in Hx. lia.
      * intros h0 c0 u0 H0. unfold upd in H0. cbn [cnt]. destruct (N.eqb_spec h0 h) as [->|Hne].
        { inversion H0; subst. rewrite N.eqb_refl. lia. }
        { apply Iout in H0. lia. }
      * intros c0 H0. cbn [cnt] in H0. destruct (N.eqb_spec c c0) as [E0|Hne].
        { subst c0. exists h, false. unfold upd. rewrite N.eqb_refl. reflexivity. }
        { destruct (Iout' c0) as [h0 [u0 Hh0]]; [cbn in H0; lia|]. exists h0, u0. unfold upd.
          destruct (N.eqb_spec h0 h) as [->|]; [congruence|exact Hh0]. }
      * intros h1 h2 c0 u1 u2 H1 H2. unfold upd in H1, H2.
        assert (Hf : forall h' u', hs s h' = HConn c u' 0 -> False).
        { intros h' u' Hx. apply Iout in Hx. specialize (Icnt c). lia. }
        destruct (N.eqb_spec h1 h) as [->|N1]; destruct (N.eqb_spec h2 h) as [->|N2]; try reflexivity.
        { inversion H1; subst. exfalso. eapply Hf; eauto. }
        { inversion H2; subst. exfalso. eapply Hf; eauto. }
        { eapply Iinj; eauto. }
      * apply Ipend_r; congruence.
      * exact Ipend1_r.
    + (* factory failed: tryFree, error *)
      set (s1 := mkP (cap s) (closed s) (tokens s) (idle s) (held s) (drain s) (next s) (live s) (hs s) (outs s) (remove1 h (pend s))).
      destruct (try_free_other s1) as (F1 & F2 & F3 & F4 & F5 & F6 & F7 & F8 & F9 & F10).
      assert (Tk : closed s = false -> tokens (try_free s1) = Nat.pred (tokens s)).
      { intros Hc. rewrite try_free_tokens; subst s1; flds; auto. rewrite Itok by exact Hc. lia. }
      constructor; unfold set_h; flds; rewrite ?F1, ?F2, ?F3, ?F4, ?F5, ?F6, ?F7, ?F8, ?F9, ?F10; subst s1; flds.
      * intros Hc. rewrite Tk by exact Hc. rewrite Itok by exact Hc. rewrite Hlen. lia.
      * intros Hc. rewrite Tk by exact Hc. specialize (Icap Hc). lia.
      * exact Idr.
      * exact Icnt.
      * exact Il1.
      * exact Inx.
      * apply ph_out; auto; congruence.
      * apply ph_out'; auto.
      * apply ph_inj; auto; congruence.
      * apply Ipend_r; congruence.
      * exact Ipend1_r.
  - (* PWait *)
    destruct (hs s h) eqn:Eh; try exact I.
    destruct (closed s) eqn:Ec.
    + destruct (pick k (drain s)) as [[c r]|] eqn:Ed.
      2:{ apply pinv_set_h; auto; try congruence; rewrite Eh; congruence. }
      destruct (pick_spec _ _ _ _ Ed) as [Hcn Hln].
      apply pinv_give with (s := s); flds; auto;
        try (rewrite Eh; congruence); try (intros; congruence);
        try (intros x; specialize (Icnt x); rewrite (Hcn x) in Icnt; lia).
    + destruct (pick k (idle s)) as [[c r]|] eqn:Ei; [|exact I].
      destruct (pick_spec _ _ _ _ Ei) as [Hcn Hln].
      pose proof (Itok eq_refl) as Tk.
      apply pinv_give with (s := s); flds; auto;
        try (rewrite Eh; congruence);
        try (intros _; rewrite Tk, Hln; cbn; lia);
        try (intros x; specialize (Icnt x); rewrite (Hcn x) in Icnt; lia).
  - (* PTimeout *)
    destruct (hs s h) eqn:Eh; try exact I.
    apply pinv_set_h; auto; try congruence; rewrite Eh; congruence.
  - (* PMark *)
    destruct (hs s h) as [| | | | |c u n] eqn:Eh; try exact I.
    constructor; unfold set_h; flds;
      [ exact Itok | exact Icap | exact Idr | exact Icnt | exact Il1 | exact Inx | | | | | exact Ipend1 ].
    + intros h0 c0 u0 H0. unfold upd in H0. destruct (N.eqb_spec h0 h) as [->|]; [|eauto].
      inversion H0; subst. eapply Iout; eauto.
    + intros c0 H0. destruct (Iout' c0 H0) as [h0 [u0 Hh0]].
      destruct (N.eqb_spec h0 h) as [->|Hne].
      * exists h, true. unfold upd. rewrite N.eqb_refl. congruence.
      * exists h0, u0. unfold upd. destruct (N.eqb_spec h0 h); [contradiction|exact Hh0].
    + intros h1 h2 c0 u1 u2 H1 H2. unfold upd in H1, H2.
      destruct (N.eqb_spec h1 h) as [->|N1]; destruct (N.eqb_spec h2 h) as [->|N2]; try reflexivity.
      * inversion H1; subst. eapply Iinj; eauto.
      * inversion H2; subst. eapply Iinj; eauto.
      * eapply Iinj; eauto.
    + intros h0. unfold upd. destruct (N.eqb_spec h0 h) as [->|]; [|apply Ipend].
      split; [discriminate|]. intros Hx. apply Ipend in Hx. congruence.
  - (* PClose *)
    destruct (hs s h) as [| | | | |c u n] eqn:Eh; try exact I.
    assert (n = 0%nat) by (eapply FC; eauto). subst n.
    assert (Ho : (cnt c (outs s) >= 1)%nat) by (eapply Iout; eauto).
    assert (Ho1 : cnt c (outs s) = 1%nat) by (pose proof (Icnt c); pose proof (Il1 c); lia).
    assert (Hlen : length (remove1 c (outs s)) = Nat.pred (length (outs s))) by (apply length_remove1; exact Ho).
    assert (Hol : (length (outs s) >= 1)%nat) by (destruct (outs s); cbn in *; lia).
    assert (Hlive : cnt c (live s) = 1%nat) by (pose proof (Icnt c); pose proof (Il1 c); lia).
    assert (B_out : forall h0 c0 u0, upd (hs s) h (HConn c u 1) h0 = HConn c0 u0 0 ->
                                     (cnt c0 (remove1 c (outs s)) >= 1)%nat).
    { intros h0 c0 u0 H0. unfold upd in H0. destruct (N.eqb_spec h0 h) as [->|Hne]; [discriminate|].
      rewrite cnt_remove1. destruct (N.eqb_spec c c0) as [<-|]; [|eauto].
      exfalso. apply Hne. eapply Iinj; eauto. }
    assert (B_out' : forall c0, (cnt c0 (remove1 c (outs s)) >= 1)%nat ->
                                exists h0 u0, upd (hs s) h (HConn c u 1) h0 = HConn c0 u0 0).
    { intros c0 H0. rewrite cnt_remove1 in H0. destruct (N.eqb_spec c c0) as [E0|Hne]; [subst c0; lia|].
      destruct (Iout' c0 H0) as [h0 [u0 Hh0]]. exists h0, u0. unfold upd.
      destruct (N.eqb_spec h0 h) as [->|]; [congruence|exact Hh0]. }
    assert (B_inj : forall h1 h2 c0 u1 u2, upd (hs s) h (HConn c u 1) h1 = HConn c0 u1 0 ->
                      upd (hs s) h (HConn c u 1) h2 = HConn c0 u2 0 -> h1 = h2).
    { intros h1 h2 c0 u1 u2 H1 H2. unfold upd in H1, H2.
      destruct (N.eqb_spec h1 h); [discriminate|]. destruct (N.eqb_spec h2 h); [discriminate|].
      eapply Iinj; eauto. }
    assert (B_pend : forall h0, upd (hs s) h (HConn c u 1) h0 = HTook <-> (cnt h0 (pend s) >= 1)%nat).
    { intros h0. unfold upd. destruct (N.eqb_spec h0 h) as [->|]; [|apply Ipend].
      split; [discriminate|]. intros Hx. apply Ipend in Hx. congruence. }
    assert (L_cnt : forall x, (cnt x (idle s) + cnt x (held s) + cnt x (drain s) + cnt x (remove1 c (outs s)))%nat
                              = cnt x (remove1 c (live s))).
    { intros x. rewrite !cnt_remove1. specialize (Icnt x). ceq c x; lia. }
    assert (L_l1 : forall x, (cnt x (remove1 c (live s)) <= 1)%nat).
    { intros x. rewrite cnt_remove1. specialize (Il1 x). destruct (N.eqb c x); lia. }
    assert (L_nx : forall x, (cnt x (remove1 c (live s)) >= 1)%nat -> x < next s).
    { intros x. rewrite cnt_remove1. ceq c x; [lia|apply Inx]. }
    set (s1 := mkP (cap s) (closed s) (tokens s) (idle s) (held s) (drain s) (next s) (live s)
                   (upd (hs s) h (HConn c u 1)) (remove1 c (outs s)) (pend s)).
    assert (Close_case : pinv (conn_close c (try_free s1))).
    { destruct (try_free_other s1) as (F1 & F2 & F3 & F4 & F5 & F6 & F7 & F8 & F9 & F10).
      assert (Tk : closed s = false -> tokens (try_free s1) = Nat.pred (tokens s)).
      { intros Hc. rewrite try_free_tokens; subst s1; flds; auto. rewrite Itok by exact Hc. lia. }
      constructor; unfold conn_close; flds; rewrite ?F1, ?F2, ?F3, ?F4, ?F5, ?F6, ?F7, ?F8, ?F9, ?F10; subst s1; flds;
        [ intros Hc; rewrite Tk by exact Hc; rewrite Itok by exact Hc; rewrite Hlen; lia
        | intros Hc; rewrite Tk by exact Hc; specialize (Icap Hc); lia
        | exact Idr | exact L_cnt | exact L_l1 | exact L_nx | exact B_out | exact B_out' | exact B_inj | exact B_pend | exact Ipend1 ]. }
    destruct u; [exact Close_case|].
    cbn [closed cap idle]. subst s1. flds.
    destruct (closed s) eqn:Ec.
    + (* closed pool: put closes the connection; tokens untouched *)
      constructor; unfold conn_close; flds;
        [ intros; congruence | intros; congruence | intros; congruence
        | exact L_cnt | exact L_l1 | exact L_nx | exact B_out | exact B_out' | exact B_inj | exact B_pend | exact Ipend1 ].
    + destruct (Nat.ltb (length (idle s)) (cap s)) eqn:Efull.
      * constructor; flds;
          [ intros _; rewrite (Itok eq_refl); rewrite app_length, Hlen; cbn; lia
          | exact Icap | exact Idr
          | | exact Il1 | exact Inx | exact B_out | exact B_out' | exact B_inj | exact B_pend | exact Ipend1 ].
        intros x. rewrite cnt_app, cnt_remove1. cbn [cnt]. specialize (Icnt x).
        ceq c x; lia.
      * exact Close_case.
  - (* PPrunePop *)
    destruct (closed s) eqn:Ec.
    + destruct (pick k (drain s)) as [[c r]|] eqn:Ed; [|exact I].
      destruct (pick_spec _ _ _ _ Ed) as [Hcn Hln].
      assert (Hc1 : cnt c (live s) = 1%nat).
      { pose proof (Icnt c) as X; pose proof (Il1 c). rewrite (Hcn c) in X. rewrite N.eqb_refl in X. lia. }
      destruct expired.
      * set (s1 := mkP (cap s) true (tokens s) (idle s) (held s) r (next s) (live s) (hs s) (outs s) (pend s)).
        destruct (try_free_other s1) as (F1 & F2 & F3 & F4 & F5 & F6 & F7 & F8 & F9 & F10).
        constructor; unfold conn_close; flds; rewrite ?F1, ?F2, ?F3, ?F4, ?F5, ?F6, ?F7, ?F8, ?F9, ?F10; subst s1; flds;
          [ intros; congruence | intros; congruence | intros; congruence
          | | | | exact Iout | exact Iout' | exact Iinj | exact Ipend | exact Ipend1 ].
        { intros x. rewrite cnt_remove1. specialize (Icnt x). rewrite (Hcn x) in Icnt. ceq c x; lia. }
        { intros x. rewrite cnt_remove1. specialize (Il1 x). destruct (N.eqb c x); lia. }
        { intros x. rewrite cnt_remove1. ceq c x; [lia|apply Inx]. }
      * constructor; flds;
          [ intros; congruence | intros; congruence | intros; congruence
          | | exact Il1 | exact Inx | exact Iout | exact Iout' | exact Iinj | exact Ipend | exact Ipend1 ].
        intros x. rewrite cnt_app. cbn [cnt]. specialize (Icnt x). rewrite (Hcn x) in Icnt. lia.
    + destruct (pick k (idle s)) as [[c r]|] eqn:Ei; [|exact I].
      destruct (pick_spec _ _ _ _ Ei) as [Hcn Hln].
      assert (Hc1 : cnt c (live s) = 1%nat).
      { pose proof (Icnt c) as X; pose proof (Il1 c). rewrite (Hcn c) in X. rewrite N.eqb_refl in X. lia. }
      pose proof (Itok eq_refl) as Tk0. rewrite Hln in Tk0.
      destruct expired.
      * set (s1 := mkP (cap s) false (tokens s) r (held s) (drain s) (next s) (live s) (hs s) (outs s) (pend s)).
        destruct (try_free_other s1) as (F1 & F2 & F3 & F4 & F5 & F6 & F7 & F8 & F9 & F10).
        assert (Tk : tokens (try_free s1) = Nat.pred (tokens s)).
        { rewrite try_free_tokens; subst s1; flds; auto. lia. }
        constructor; unfold conn_close; flds; rewrite ?F1, ?F2, ?F3, ?F4, ?F5, ?F6, ?F7, ?F8, ?F9, ?F10; subst s1; flds;
          [ intros _; rewrite Tk; lia
          | intros _; rewrite Tk; specialize (Icap eq_refl); lia
          | exact Idr
          | | | | exact Iout | exact Iout' | exact Iinj | exact Ipend | exact Ipend1 ].
        { intros x. rewrite cnt_remove1. specialize (Icnt x). rewrite (Hcn x) in Icnt. ceq c x; lia. }
        { intros x. rewrite cnt_remove1. specialize (Il1 x). destruct (N.eqb c x); lia. }
        { intros x. rewrite cnt_remove1. ceq c x; [lia|apply Inx]. }
      * constructor; flds;
          [ intros _; rewrite app_length; cbn; lia
          | exact Icap | exact Idr
          | | exact Il1 | exact Inx | exact Iout | exact Iout' | exact Iinj | exact Ipend | exact Ipend1 ].
        intros x. rewrite cnt_app. cbn [cnt]. specialize (Icnt x). rewrite (Hcn x) in Icnt. lia.
  - (* PPrunePush *)
    destruct (held s) as [|c r] eqn:Eh; [exact I|].
    destruct (closed s) eqn:Ec.
    { assert (Hc1 : cnt c (live s) = 1%nat).
      { pose proof (Icnt c) as X; pose proof (Il1 c). cbn [cnt] in X. rewrite N.eqb_refl in X. lia. }
      constructor; unfold conn_close; flds;
        [ intros; congruence | intros; congruence | intros; congruence
        | | | | exact Iout | exact Iout' | exact Iinj | exact Ipend | exact Ipend1 ].
      - intros x. rewrite cnt_remove1. specialize (Icnt x). cbn [cnt] in Icnt. ceq c x; lia.
      - intros x. rewrite cnt_remove1. specialize (Il1 x). destruct (N.eqb c x); lia.
      - intros x. rewrite cnt_remove1. ceq c x; [lia|apply Inx]. }
    destruct (Nat.ltb (length (idle s)) (cap s)); [|exact I].
    pose proof (Itok eq_refl) as Tk0. cbn [length] in Tk0.
    constructor; flds;
      [ intros _; rewrite app_length; cbn; lia
      | exact Icap | exact Idr
      | | exact Il1 | exact Inx | exact Iout | exact Iout' | exact Iinj | exact Ipend | exact Ipend1 ].
    intros x. rewrite cnt_app. cbn [cnt]. specialize (Icnt x). cbn [cnt] in Icnt. lia.
  - (* PPoolClose *)
    destruct (closed s) eqn:Ec; [exact I|].
    constructor; flds;
      [ intros; congruence | intros; congruence | intros; congruence
      | | exact Il1 | exact Inx | exact Iout | exact Iout' | exact Iinj | exact Ipend | exact Ipend1 ].
    intros x. specialize (Icnt x). rewrite (Idr eq_refl) in Icnt. cbn [cnt] in *. lia.
  - (* PDrainOne *)
    destruct (closed s) eqn:Ec; [|exact I].
    destruct (drain s) as [|c r] eqn:Ed; [exact I|].
    assert (Hc1 : cnt c (live s) = 1%nat).
    { pose proof (Icnt c) as X; pose proof (Il1 c). cbn [cnt] in X. rewrite N.eqb_refl in X. lia. }
    constructor; unfold conn_close; flds;
      [ intros; congruence | intros; congruence | intros; congruence
      | | | | exact Iout | exact Iout' | exact Iinj | exact Ipend | exact Ipend1 ].
    + intros x. rewrite cnt_remove1. specialize (Icnt x). cbn [cnt] in Icnt. ceq c x; lia.
    + intros x. rewrite cnt_remove1. specialize (Il1 x). destruct (N.eqb c x); lia.
    + intros x. rewrite cnt_remove1. ceq c x; [lia|apply Inx].
Qed.

(* ---------- the ghost close counter only grows at PClose of that handle ---------- *)
Lemma hs_try_free s : hs (try_free s) = hs s.
Proof. unfold try_free. destruct (closed s); reflexivity. Qed.

Lemma pexec_nclose a s h c u n :
  hs (pexec a s) h = HConn c u n -> a <> PClose h ->
  n = 0%nat \/ exists u', hs s h = HConn c u' n.
Proof.
  intros H Hne.
  destruct a as [h0 k|h0|h0 ok|h0 k|h0|h0|h0|k expired| | |]; cbn [pexec] in H.
  - destruct (hs s h0) eqn:E0; try (right; eauto; fail).
    destruct (closed s).
    + unfold set_h in H; cbn in H. unfold upd in H. destruct (N.eqb_spec h h0); [discriminate|eauto].
    + destruct (match k with Some k' => pick k' (idle s) | None => None end) as [[c0 r0]|];
        unfold give, set_h in H; cbn in H; unfold upd in H;
        destruct (N.eqb_spec h h0); try discriminate; eauto. inversion H; auto.
  - destruct (hs s h0) eqn:E0; try (right; eauto; fail).
    destruct (negb (closed s) && Nat.ltb (tokens s) (cap s)); unfold set_h in H; cbn in H; unfold upd in H;
      destruct (N.eqb_spec h h0); try discriminate; eauto.
  - destruct (hs s h0) eqn:E0; try (right; eauto; fail).
    destruct ok; unfold give, set_h in H; cbn in H; rewrite ?hs_try_free in H; cbn in H; unfold upd in H;
      destruct (N.eqb_spec h h0); try discriminate; eauto. inversion H; auto.
  - destruct (hs s h0) eqn:E0; try (right; eauto; fail).
    destruct (closed s); [destruct (pick k (drain s)) as [[c0 r0]|]|destruct (pick k (idle s)) as [[c0 r0]|]];
      unfold give, set_h in H; cbn in H; unfold upd in H;
      try (destruct (N.eqb_spec h h0); try discriminate; eauto; inversion H; auto; fail).
  - destruct (hs s h0) eqn:E0; try (right; eauto; fail).
    unfold set_h in H; cbn in H; unfold upd in H. destruct (N.eqb_spec h h0); try discriminate; eauto.
  - destruct (hs s h0) as [| | | | |c0 u0 n0] eqn:E0; try (right; eauto; fail).
    unfold set_h in H; cbn in H; unfold upd in H. destruct (N.eqb_spec h h0) as [->|]; eauto.
    inversion H; subst. right; eauto.
  - destruct (hs s h0) as [| | | | |c0 u0 n0] eqn:E0; try (right; eauto; fail).
    assert (Hh : h <> h0) by (intros ->; apply Hne; reflexivity).
    destruct u0; [|cbn [closed cap idle] in H; destruct (closed s); [|destruct (Nat.ltb (length (idle s)) (cap s))]];
      unfold conn_close in H; cbn in H; rewrite ?hs_try_free in H; cbn in H; unfold upd in H;
      destruct (N.eqb_spec h h0); try contradiction; eauto.
  - destruct (closed s); [destruct (pick k (drain s)) as [[c0 r0]|]|destruct (pick k (idle s)) as [[c0 r0]|]]; try (right; eauto; fail);
      destruct expired; unfold conn_close in H; cbn in H; rewrite ?hs_try_free in H; cbn in H; eauto.
  - destruct (held s); [right; eauto|]. destruct (closed s); [unfold conn_close in H; cbn in H; eauto|].
    destruct (Nat.ltb (length (idle s)) (cap s)); cbn in H; eauto.
  - destruct (closed s); cbn in H; eauto.
  - destruct (closed s); [destruct (drain s)|]; unfold conn_close in H; cbn in H; eauto.
Qed.

Lemma closes_cons a tr : closes (a :: tr) = match a with PClose h => [h] | _ => [] end ++ closes tr.
Proof. reflexivity. Qed.

(* ---------- main statement over traces ---------- *)
Lemma pool_trace_inv : forall tr s,
  pinv s -> NoDup (closes tr) ->
  (forall h, In h (closes tr) -> forall c u n, hs s h = HConn c u n -> n = 0%nat) ->
  pinv (run_trace pexec tr s).
Proof.
  induction tr as [|a tr IH]; intros s I ND Hz; [exact I|].
  cbn [run_trace fold_left]. change (pinv (run_trace pexec tr (pexec a s))).
  rewrite closes_cons in ND, Hz.
  apply IH.
  - apply pexec_inv; [exact I|]. intros h c u n -> Hh. eapply Hz; [|exact Hh]. cbn. left; reflexivity.
  - destruct a; cbn in ND; try exact ND. inversion ND; assumption.
  - intros h Hin c u n Hh.
    assert (Hne : a <> PClose h).
    { intros ->. cbn in ND. inversion ND as [|? ? Hn _]; subst. contradiction. }
    destruct (pexec_nclose _ _ _ _ _ _ Hh Hne) as [->|[u' Hu']]; [reflexivity|].
    eapply Hz; [|exact Hu']. apply in_or_app. right; exact Hin.
Qed.

Lemma pool_close_once_inv cap tr : close_once tr -> pinv (run_trace pexec tr (pinit cap)).
Proof.
  intros H. apply pool_trace_inv; [apply pinv_init|exact H|].
  intros h _ c u n Hh. cbn in Hh. discriminate.
Qed.

(* for every schedule of every set of threads *)
Lemma pool_sched_inv cap ths sched :
  close_once (concat ths) -> pinv (run pexec sched ths (pinit cap)).
Proof.
  intros H. rewrite run_is_trace. apply pool_close_once_inv.
  unfold close_once, closes in *. apply trace_nodup_keys. exact H.
Qed.

(* readable consequences of the counting invariant *)
Lemma pinv_nodup s : pinv s -> NoDup (idle s ++ held s ++ drain s ++ outs s).
Proof.
  intros I. apply NoDup_cnt. intros x. rewrite !cnt_app.
  pose proof (i_cnt s I x). pose proof (i_live1 s I x). lia.
Qed.

Lemma pinv_live s : pinv s -> forall c, In c (live s) <-> In c (idle s ++ held s ++ drain s ++ outs s).
Proof.
  intros I c. rewrite !cnt_In, !cnt_app. pose proof (i_cnt s I c). lia.
Qed.

Lemma pinv_handles s : pinv s ->
  forall c, In c (outs s) <-> exists h u, hs s h = HConn c u 0.
Proof.
  intros I c. rewrite cnt_In. split.
  - apply (i_out' s I).
  - intros [h [u H]]. eapply i_out; eauto.
Qed.

(* the "pool is full" branch of put is dead code while the invariant holds *)
Lemma put_never_full s h c : pinv s -> closed s = false -> hs s h = HConn c false 0 ->
  (length (idle s) < cap s)%nat.
Proof.
  intros I Hc Hh. pose proof (i_tok s I Hc). pose proof (i_cap s I Hc).
  pose proof (i_out s I h c false Hh) as Ho.
  assert (length (outs s) >= 1)%nat by (destruct (outs s); cbn in *; lia). lia.
Qed.

(* executable invariant = the Prop invariant's observable part *)
Lemma mem_In x l : mem x l = true <-> In x l.
Proof.
  unfold mem. rewrite existsb_exists. split.
  - intros [y [Hy E]]. apply N.eqb_eq in E. subst. exact Hy.
  - intros H. exists x. split; [exact H|apply N.eqb_refl].
Qed.

Lemma nodupb_NoDup l : nodupb l = true <-> NoDup l.
Proof.
  induction l as [|x r IH]; cbn; [split; [constructor|reflexivity]|].
  rewrite andb_true_iff, negb_true_iff, IH. split.
  - intros [Hm Hd]. constructor; [|exact Hd]. intros Hin. apply mem_In in Hin. congruence.
  - intros H. inversion H as [|? ? Hn Hd]; subst. split; [|exact Hd].
    destruct (mem x r) eqn:E; [|reflexivity]. apply mem_In in E. contradiction.
Qed.

Lemma subset_incl a b : subset a b = true <-> incl a b.
Proof.
  unfold subset, incl. rewrite forallb_forall. split; intros H x Hx.
  - apply mem_In, H, Hx.
  - apply mem_In, H, Hx.
Qed.

Lemma pinv_pool_ok s : pinv s -> pool_ok s = true.
Proof.
  intros I. unfold pool_ok. rewrite !andb_true_iff. repeat split.
  - destruct (closed s) eqn:Ec; [reflexivity|]. cbn. rewrite andb_true_iff. split.
    + apply Nat.eqb_eq. apply (i_tok s I Ec).
    + apply Nat.leb_le. apply (i_cap s I Ec).
  - apply nodupb_NoDup, pinv_nodup, I.
  - apply subset_incl. intros x Hx. apply (pinv_live s I), Hx.
  - apply subset_incl. intros x Hx. apply (pinv_live s I), Hx.
Qed.

(* ---------- a double Close breaks the invariant ---------- *)
(* two users hold connections of a pool of capacity 2; the first marks its connection
   unusable and closes it twice: the second tryFree releases the other user's token. *)
Definition double_close_unusable : list (list pact) :=
  [ [PGet 1 (Some 0%nat); PTake 1; PDial 1 true; PMark 1; PClose 1; PClose 1];
    [PGet 2 (Some 0%nat); PTake 2; PDial 2 true] ].
Definition double_close_sched : list nat := [0;0;0;1;1;1;0;0;0]%nat.

Lemma double_close_unusable_breaks :
  let s := run pexec double_close_sched double_close_unusable (pinit 2) in
  pool_ok s = false /\ tokens s = 0%nat /\ live s = [1] /\ outs s = [1].
Proof. vm_compute. repeat split. Qed.

(* closing a usable connection twice puts the same net.Conn into the idle channel twice;
   two later Gets then hand the same connection to two users *)
Definition double_close_usable : list (list pact) :=
  [ [PGet 1 (Some 0%nat); PTake 1; PDial 1 true; PClose 1; PClose 1];
    [PGet 2 (Some 0%nat)]; [PGet 3 (Some 0%nat)] ].
Definition double_close_usable_sched : list nat := [0;0;0;0;0;1;2]%nat.

Lemma double_close_usable_breaks :
  let s := run pexec double_close_usable_sched double_close_usable (pinit 2) in
  pool_ok s = false /\ hs s 2 = HConn 0 false 0 /\ hs s 3 = HConn 0 false 0.
Proof. vm_compute. repeat split. Qed.

(* the capacity is a constant of the pool *)
Lemma cap_try_free s : cap (try_free s) = cap s.
Proof. unfold try_free. destruct (closed s); reflexivity. Qed.

Lemma pexec_cap a s : cap (pexec a s) = cap s.
Proof.
  destruct a; cbn [pexec];
    repeat match goal with
           | |- context[match ?x with _ => _ end] => destruct x
           end;
    unfold give, set_h, conn_close; cbn [cap]; rewrite ?cap_try_free; reflexivity.
Qed.

Lemma run_trace_cap tr s : cap (run_trace pexec tr s) = cap s.
Proof.
  revert s. induction tr as [|a tr IH]; intros s; [reflexivity|]. cbn.
  change (cap (run_trace pexec tr (pexec a s)) = cap s). rewrite IH. apply pexec_cap.
Qed.
