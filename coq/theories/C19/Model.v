(* C19/Model.v — the LOGIC of the synchronisation design as an interleaving semantics.

   Threads are lists of atomic actions over a shared state; a schedule is a list of
   thread indices and EVERY schedule is a legal execution (an index naming a finished or
   non-existent thread is a stutter step).  An atomic action is one critical section of
   the Go code (one lock hold, one channel operation, one atomic load/store).  What this
   cannot exhibit — data races inside a section, deadlocks of the real mutexes, scheduler
   and memory-model effects — is observed by the -race stress harness and listed as an
   assumption.

   Instances in this file:
     (a) field creation          tsdb/shard.go validateSeriesAndFields, field_validator.go,
                                 MeasurementFields.CreateFieldIfNotExists, tsm1 WritePoints
     (c) shard writes vs reads   tsm1 Engine.WritePoints (Cache.WriteMulti; WAL.WriteMulti),
                                 WriteSnapshot (Cache.Snapshot; FileStore.Replace;
                                 Cache.ClearSnapshot), compaction, cursor construction
     (d) metadata publish-by-pointer-swap and the credential cache of meta.Client
   Instance (b), the connection pool, is in Pool.v.   Definitions only. *)
From Coq Require Export List NArith ZArith Lia Bool.
Export ListNotations.
Open Scope N_scope.

(* ------------------------------------------------------------------ *)
(* generic interleaving semantics                                      *)
(* ------------------------------------------------------------------ *)
Section Interleave.
  Context {St Act : Type}.
  Variable exec : Act -> St -> St.

  (* take the next action of thread i, if it has one *)
  Fixpoint pop_thread (i : nat) (ths : list (list Act)) : option (Act * list (list Act)) :=
    match ths, i with
    | [], _ => None
    | t :: r, O => match t with [] => None | a :: t' => Some (a, t' :: r) end
    | t :: r, S j => match pop_thread j r with
                     | Some (a, r') => Some (a, t :: r')
                     | None => None
                     end
    end.

  Fixpoint run (sched : list nat) (ths : list (list Act)) (s : St) : St :=
    match sched with
    | [] => s
    | i :: sched' => match pop_thread i ths with
                     | Some (a, ths') => run sched' ths' (exec a s)
                     | None => run sched' ths s
                     end
    end.

  (* the sequence of actions a schedule executes *)
  Fixpoint trace (sched : list nat) (ths : list (list Act)) : list Act :=
    match sched with
    | [] => []
    | i :: sched' => match pop_thread i ths with
                     | Some (a, ths') => a :: trace sched' ths'
                     | None => trace sched' ths
                     end
    end.

  (* the threads a schedule leaves unfinished *)
  Fixpoint rest (sched : list nat) (ths : list (list Act)) : list (list Act) :=
    match sched with
    | [] => ths
    | i :: sched' => match pop_thread i ths with
                     | Some (_, ths') => rest sched' ths'
                     | None => rest sched' ths
                     end
    end.

  Definition run_trace (tr : list Act) (s : St) : St := fold_left (fun s a => exec a s) tr s.
End Interleave.

(* total maps with a default, as closures (vm_compute evaluates them) *)
Definition upd {A} (m : N -> A) (k : N) (v : A) : N -> A :=
  fun k' => if N.eqb k' k then v else m k'.

Definition mem (x : N) (l : list N) : bool := existsb (N.eqb x) l.

(* ------------------------------------------------------------------ *)
(* (a) field creation                                                  *)
(* ------------------------------------------------------------------ *)

(* one writer = one point with one field of one measurement *)
Record writer := mkW { wseries : N; wfield : N; wtype : N }.

Inductive wphase :=
| WInit
| WValidated            (* FieldValidator.Validate passed *)
| WToCreate             (* the field is in fieldsToCreate *)
| WReady                (* fields settled: the points go to the engine *)
| WDropped              (* validator found another type: PartialWriteError, point dropped *)
| WCreateErr            (* CreateFieldIfNotExists: ErrFieldTypeConflict, batch refused *)
| WStored               (* engine accepted the value *)
| WSeriesErr.           (* engine: per-series type conflict, value dropped *)

Record fstate := mkF {
  mf : N -> option N;                   (* MeasurementFields.fields: field -> type (atomic.Value) *)
  stm : N -> N -> option N;             (* engine seriesTypeMap: series -> field -> type *)
  stored : list (N * N * N);            (* (series, field, type) of every value the engine stored *)
  wrec : N -> option writer;            (* writer id -> its point (set by the first step) *)
  wph : N -> wphase
}.

Definition finit : fstate :=
  mkF (fun _ => None) (fun _ _ => None) [] (fun _ => None) (fun _ => WInit).

Inductive fact :=
| FValidate (id : N) (w : writer)  (* defaultFieldValidator.Validate: one atomic load of the map *)
| FCheckCreate (id : N)            (* second load in validateSeriesAndFields: "create missing fields" *)
| FCreate (id : N)                 (* CreateFieldIfNotExists: check-then-insert under mf.mu *)
| FEngine (id : N).                (* Engine.WritePoints type check (seriesTypeMap get-or-insert) + store *)

Definition set_ph (s : fstate) (id : N) (p : wphase) : fstate :=
  mkF (mf s) (stm s) (stored s) (wrec s) (upd (wph s) id p).

(* [recheck] = the creation loop compares the type of an existing field (the repaired
   code); [false] is the pinned tree, which skipped every existing field. *)
Definition fexec_with (recheck : bool) (a : fact) (s : fstate) : fstate :=
  match a with
  | FValidate id w =>
      match wph s id with
      | WInit =>
          let s1 := mkF (mf s) (stm s) (stored s) (upd (wrec s) id (Some w)) (wph s) in
          match mf s (wfield w) with
          | Some t' => if N.eqb t' (wtype w) then set_ph s1 id WValidated else set_ph s1 id WDropped
          | None => set_ph s1 id WValidated
          end
      | _ => s
      end
  | FCheckCreate id =>
      match wph s id, wrec s id with
      | WValidated, Some w =>
          match mf s (wfield w) with
          | Some t' => if recheck && negb (N.eqb t' (wtype w)) then set_ph s id WToCreate
                       else set_ph s id WReady
          | None => set_ph s id WToCreate
          end
      | _, _ => s
      end
  | FCreate id =>
      match wph s id, wrec s id with
      | WToCreate, Some w =>
          match mf s (wfield w) with
          | Some t' => if N.eqb t' (wtype w) then set_ph s id WReady else set_ph s id WCreateErr
          | None => set_ph (mkF (upd (mf s) (wfield w) (Some (wtype w))) (stm s) (stored s) (wrec s) (wph s))
                           id WReady
          end
      | _, _ => s
      end
  | FEngine id =>
      match wph s id, wrec s id with
      | WReady, Some w =>
          match stm s (wseries w) (wfield w) with
          | Some t' => if N.eqb t' (wtype w)
                       then set_ph (mkF (mf s) (stm s) ((wseries w, wfield w, wtype w) :: stored s) (wrec s) (wph s))
                                   id WStored
                       else set_ph s id WSeriesErr
          | None =>
              let stm' := fun sr => if N.eqb sr (wseries w) then upd (stm s sr) (wfield w) (Some (wtype w))
                                    else stm s sr in
              set_ph (mkF (mf s) stm' ((wseries w, wfield w, wtype w) :: stored s) (wrec s) (wph s))
                     id WStored
          end
      | _, _ => s
      end
  end.

Definition fexec := fexec_with true.

(* executable spec on a state: every stored value has the type the measurement records
   for its field *)
Definition stored_typed (s : fstate) : bool :=
  forallb (fun e => match e with (_, f, t) =>
             match mf s f with Some t' => N.eqb t' t | None => false end end) (stored s).

(* ------------------------------------------------------------------ *)
(* (c) shard: writes vs snapshot/compaction vs reads                   *)
(* ------------------------------------------------------------------ *)

(* Points are identified by a unique id (series+timestamp are unique per write in the
   harness); a layer is the list of point ids it holds.  Overwrite/LWW semantics is the
   subject of the Shard foundation (C01/C10), not of this property. *)
Inductive pphase := PInit | PCached | PLogged | PAcked.

Inductive rphase :=
| RInit
| RBegun (must : list N)                      (* ghost: the writes acked when the read began *)
| RCache (must : list N) (cv : list N)        (* after e.Cache.Values: hot + snapshot *)
| RDone (must : list N) (res : list N).       (* after FileStore.KeyCursor on the file list *)

Record sstate := mkS {
  hot : list N;                 (* Cache.store *)
  snap : option (list N);       (* Cache.snapshot while a snapshot is being written *)
  flushing : option (list N);   (* contents of the TSM file the snapshot goroutine is writing *)
  installed : bool;             (* first of the two commit steps done, second pending *)
  files : list (list N);        (* FileStore.files *)
  wal : list N;
  acked : list N;               (* ghost *)
  pph : N -> pphase;
  rph : N -> rphase;
  closedseg : list N            (* entries of the closed WAL segments the running snapshot will remove *)
}.

Definition sinit : sstate := mkS [] None None false [] [] [] (fun _ => PInit) (fun _ => RInit) [].

Inductive sact :=
| SCacheW (p : N)      (* Cache.WriteMulti *)
| SWalW (p : N)        (* WAL.WriteMulti *)
| SAck (p : N)         (* WritePoints returns nil *)
| SSnapBegin           (* under Engine.mu.Lock: WAL.CloseSegment, list the closed segments, Cache.Snapshot *)
| SSnapCloseSeg        (* only in the two-section variant: WAL.CloseSegment in a later critical section *)
| SSnapInstall         (* FileStore.Replace(nil, newFiles) under FileStore.mu *)
| SSnapClear           (* Cache.ClearSnapshot(true) *)
| SCompact             (* FileStore.Replace(old, merged): atomic swap of the file list *)
| SRBegin (r : N)
| SRCache (r : N)      (* buildCursor: cacheValues := e.Cache.Values(key) *)
| SRFiles (r : N).     (* then keyCursor := e.KeyCursor(...): file-list snapshot, ref-counted *)

Definition cache_view (s : sstate) : list N :=
  hot s ++ match snap s with Some l => l | None => [] end.
Definition visible (s : sstate) : list N := cache_view s ++ concat (files s).

(* [install_first] = FileStore.Replace happens before Cache.ClearSnapshot (the code);
   [false] models the reversed order, kept for the refutation lemma.
   [one_section] = WriteSnapshot closes the WAL segment and takes the cache snapshot in ONE
   Engine.mu.Lock section (the code); [false] is the variant that takes the cache snapshot
   first and closes the segment in a later section. *)
Definition sexec_with2 (one_section install_first : bool) (a : sact) (s : sstate) : sstate :=
  match a with
  | SCacheW p =>
      match pph s p with
      | PInit => mkS (p :: hot s) (snap s) (flushing s) (installed s) (files s) (wal s) (acked s) (upd (pph s) p PCached) (rph s) (closedseg s)
      | _ => s
      end
  | SWalW p =>
      match pph s p with
      | PCached => mkS (hot s) (snap s) (flushing s) (installed s) (files s) (p :: wal s) (acked s) (upd (pph s) p PLogged) (rph s) (closedseg s)
      | _ => s
      end
  | SAck p =>
      match pph s p with
      | PLogged => mkS (hot s) (snap s) (flushing s) (installed s) (files s) (wal s) (p :: acked s) (upd (pph s) p PAcked) (rph s) (closedseg s)
      | _ => s
      end
  | SSnapBegin =>
      match snap s with
      | None => if one_section
                then mkS [] (Some (hot s)) (Some (hot s)) false (files s) [] (acked s) (pph s) (rph s) (closedseg s ++ wal s)
                else mkS [] (Some (hot s)) (Some (hot s)) false (files s) (wal s) (acked s) (pph s) (rph s) (closedseg s)
      | Some _ => s                                   (* ErrSnapshotInProgress *)
      end
  | SSnapCloseSeg =>
      if one_section then s
      else match flushing s with
           | Some _ => if installed s then s
                       else mkS (hot s) (snap s) (flushing s) (installed s) (files s) [] (acked s) (pph s) (rph s) (closedseg s ++ wal s)
           | None => s
           end
  | SSnapInstall =>
      match flushing s with
      | Some l =>
          if install_first
          then if installed s then s
               else mkS (hot s) (snap s) (flushing s) true (files s ++ [l]) (wal s) (acked s) (pph s) (rph s) (closedseg s)
          else if installed s
               then mkS (hot s) (snap s) None false (files s ++ [l]) (wal s) (acked s) (pph s) (rph s) []
               else s
      | None => s
      end
  | SSnapClear =>
      match flushing s with
      | Some l =>
          if install_first
          then if installed s
               then mkS (hot s) None None false (files s) (wal s) (acked s) (pph s) (rph s) []   (* WAL.Remove(closedFiles) *)
               else s
          else if installed s then s
               else mkS (hot s) None (flushing s) true (files s) (wal s) (acked s) (pph s) (rph s) (closedseg s)
      | None => s
      end
  | SCompact => mkS (hot s) (snap s) (flushing s) (installed s) [concat (files s)] (wal s) (acked s) (pph s) (rph s) (closedseg s)
  | SRBegin r =>
      match rph s r with
      | RInit => mkS (hot s) (snap s) (flushing s) (installed s) (files s) (wal s) (acked s) (pph s) (upd (rph s) r (RBegun (acked s))) (closedseg s)
      | _ => s
      end
  | SRCache r =>
      match rph s r with
      | RBegun must => mkS (hot s) (snap s) (flushing s) (installed s) (files s) (wal s) (acked s) (pph s)
                           (upd (rph s) r (RCache must (cache_view s))) (closedseg s)
      | _ => s
      end
  | SRFiles r =>
      match rph s r with
      | RCache must cv => mkS (hot s) (snap s) (flushing s) (installed s) (files s) (wal s) (acked s) (pph s)
                              (upd (rph s) r (RDone must (cv ++ concat (files s)))) (closedseg s)
      | _ => s
      end
  end.

Definition sexec_with := sexec_with2 true.
Definition sexec := sexec_with true.

Definition subset (a b : list N) : bool := forallb (fun x => mem x b) a.

(* ------------------------------------------------------------------ *)
(* (d) metadata: publish by pointer swap; credential cache             *)
(* ------------------------------------------------------------------ *)

(* A metadata value is an immutable heap cell holding, per user, the password the stored
   hash belongs to (bcrypt is modelled as an injective function: hash = password id).
   Writers build a private clone, edit it, then publish it by swapping the pointer;
   readers load the pointer and keep using the value it points to. *)
Inductive wloc := LNone | LPriv (cell : N).

Record auth_entry := mkAE { ae_pass : N; ae_bhash : N }.   (* salted hash of [ae_pass]; verified against [ae_bhash] *)

Inductive aphase :=
| AInit
| ARead (u : N) (pw : N) (h : option N)      (* user record read from the pointer loaded at the start *)
| AVerified (u : N) (pw : N) (h : N)         (* bcrypt compare succeeded; entry not yet stored *)
| AAccepted (u : N) (pw : N) (h : N) (via_cache : bool)
| ARejected.

Record mstate := mkM {
  heap : N -> N -> option N;        (* cell -> user -> password hash *)
  cur : N;                          (* the published pointer *)
  nextc : N;                        (* allocator *)
  published : list N;               (* ghost: cells ever published *)
  wl : N -> wloc;                   (* writer -> private clone *)
  rptr : N -> option N;             (* reader -> pointer it loaded *)
  robs : N -> list (N * N * option N);   (* reader -> (cell, user, value) it observed *)
  acache : N -> option auth_entry;  (* Client.authCache *)
  aph : N -> aphase
}.

Definition minit : mstate :=
  mkM (fun _ _ => None) 0 1 [0] (fun _ => LNone) (fun _ => None) (fun _ => []) (fun _ => None) (fun _ => AInit).

Inductive mact :=
| MClone (w : N)                   (* Data.Clone of the published value (deep) *)
| MEdit (w : N) (u : N) (h : option N)   (* mutate the private clone: create/update/drop user *)
| MPublish (w : N)                 (* swap the pointer under the lock; rebuild the auth cache *)
| MLoad (r : N)                    (* c.data(): load the pointer *)
| MDeref (r : N) (u : N)           (* read through the loaded pointer *)
| AStart (a : N) (u : N) (pw : N)  (* Authenticate: userInfo := c.data().user(u) *)
| ACheck (a : N)                   (* cache lookup, else bcrypt compare *)
| AStore (a : N).                  (* c.authCache[u] = entry *)

(* updateAuthCache: keep entries whose bhash equals the user's current hash *)
Definition rebuild_cache (data : N -> option N) (c : N -> option auth_entry) : N -> option auth_entry :=
  fun u => match c u, data u with
           | Some e, Some h => if N.eqb (ae_bhash e) h then Some e else None
           | _, _ => None
           end.

(* [hit_checks_hash] = a cache hit also requires entry.bhash = userInfo.Hash (the
   repaired code, commit 0717930); [false] is the pinned tree. *)
Definition mexec_with (hit_checks_hash : bool) (a : mact) (s : mstate) : mstate :=
  match a with
  | MClone w =>
      match wl s w with
      | LNone =>
          let c := nextc s in
          mkM (fun c' => if N.eqb c' c then heap s (cur s) else heap s c') (cur s) (c + 1) (published s)
              (upd (wl s) w (LPriv c)) (rptr s) (robs s) (acache s) (aph s)
      | _ => s
      end
  | MEdit w u h =>
      match wl s w with
      | LPriv c => mkM (fun c' => if N.eqb c' c then upd (heap s c) u h else heap s c') (cur s) (nextc s) (published s)
                       (wl s) (rptr s) (robs s) (acache s) (aph s)
      | LNone => s
      end
  | MPublish w =>
      match wl s w with
      | LPriv c => mkM (heap s) c (nextc s) (c :: published s) (upd (wl s) w LNone) (rptr s) (robs s)
                       (rebuild_cache (heap s c) (acache s)) (aph s)
      | LNone => s
      end
  | MLoad r => mkM (heap s) (cur s) (nextc s) (published s) (wl s) (upd (rptr s) r (Some (cur s))) (robs s) (acache s) (aph s)
  | MDeref r u =>
      match rptr s r with
      | Some c => mkM (heap s) (cur s) (nextc s) (published s) (wl s) (rptr s)
                      (upd (robs s) r ((c, u, heap s c u) :: robs s r)) (acache s) (aph s)
      | None => s
      end
  | AStart a u pw =>
      match aph s a with
      | AInit => mkM (heap s) (cur s) (nextc s) (published s) (wl s) (rptr s) (robs s) (acache s)
                     (upd (aph s) a (ARead u pw (heap s (cur s) u)))
      | _ => s
      end
  | ACheck a =>
      match aph s a with
      | ARead u pw None => mkM (heap s) (cur s) (nextc s) (published s) (wl s) (rptr s) (robs s) (acache s)
                               (upd (aph s) a ARejected)                        (* ErrUserNotFound *)
      | ARead u pw (Some h) =>
          let hit := match acache s u with
                     | Some e => (if hit_checks_hash then N.eqb (ae_bhash e) h else true) && N.eqb (ae_pass e) pw
                     | None => false
                     end in
          let ph := if hit then AAccepted u pw h true
                    else if N.eqb pw h then AVerified u pw h      (* bcrypt.CompareHashAndPassword *)
                    else ARejected in
          mkM (heap s) (cur s) (nextc s) (published s) (wl s) (rptr s) (robs s) (acache s) (upd (aph s) a ph)
      | _ => s
      end
  | AStore a =>
      match aph s a with
      | AVerified u pw h => mkM (heap s) (cur s) (nextc s) (published s) (wl s) (rptr s) (robs s)
                                (upd (acache s) u (Some (mkAE pw h))) (upd (aph s) a (AAccepted u pw h false))
      | _ => s
      end
  end.

Definition mexec := mexec_with true.
