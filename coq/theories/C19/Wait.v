(* C19/Wait.v — instance (e): meta.Client.waitForIndex against pollForUpdates.

   The client publishes a new snapshot under c.mu.Lock: it installs the data (index) and,
   if the index grew, closes c.changed and replaces it by a fresh channel.  A channel is
   identified by its generation number; channel g is closed iff g < gen.
   waitForIndex loops: under ONE c.mu.RLock it compares the index and, if it is too small,
   fetches the current channel; then it blocks on that channel.  [one_section = false] is
   the variant that reads the index and fetches the channel in two separate read sections
   (`for c.index() < idx { <-c.WaitForDataChanged() }`).  Definitions only. *)
From Verif Require Export C19.Model.
Open Scope N_scope.

Inductive wtst :=
| WIdle
| WLoop (idx : N)                 (* at the top of the loop *)
| WMid (idx : N)                  (* two-section variant: index read (too small), channel not fetched yet *)
| WSleep (idx : N) (g : N)        (* blocked on the channel of generation g *)
| WDone (idx : N).                (* waitForIndex returned *)

Record wstate := mkWS {
  w_index : N;                    (* c.cacheData.Index *)
  w_gen : N;                      (* generation of c.changed *)
  w_st : N -> wtst
}.

Definition winit : wstate := mkWS 0 0 (fun _ => WIdle).

Inductive wact :=
| WCall (w : N) (idx : N)         (* retryUntilExec got index idx from the server: waitForIndex(idx) starts *)
| WCheck (w : N)                  (* read section: compare the index (and, in the code, fetch the channel) *)
| WChan (w : N)                   (* two-section variant only: second read section, fetch the channel *)
| WWake (w : N)                   (* <-ch returns once the channel has been closed *)
| WPublish (i : N).               (* pollForUpdates installs the snapshot with index i *)

Definition wexec_with (one_section : bool) (a : wact) (s : wstate) : wstate :=
  match a with
  | WCall w idx =>
      match w_st s w with
      | WIdle => mkWS (w_index s) (w_gen s) (upd (w_st s) w (WLoop idx))
      | _ => s
      end
  | WCheck w =>
      match w_st s w with
      | WLoop idx =>
          if N.leb idx (w_index s) then mkWS (w_index s) (w_gen s) (upd (w_st s) w (WDone idx))
          else if one_section then mkWS (w_index s) (w_gen s) (upd (w_st s) w (WSleep idx (w_gen s)))
               else mkWS (w_index s) (w_gen s) (upd (w_st s) w (WMid idx))
      | _ => s
      end
  | WChan w =>
      match w_st s w with
      | WMid idx => mkWS (w_index s) (w_gen s) (upd (w_st s) w (WSleep idx (w_gen s)))
      | _ => s
      end
  | WWake w =>
      match w_st s w with
      | WSleep idx g => if N.ltb g (w_gen s) then mkWS (w_index s) (w_gen s) (upd (w_st s) w (WLoop idx)) else s
      | _ => s
      end
  | WPublish i =>
      if N.ltb (w_index s) i then mkWS i (w_gen s + 1) (w_st s) else s
  end.

Definition wexec := wexec_with true.

(* a waiter that can never run again although its index has been published *)
Definition stuck (s : wstate) (w : N) : bool :=
  match w_st s w with
  | WSleep idx g => N.leb idx (w_index s) && negb (N.ltb g (w_gen s))
  | _ => false
  end.
