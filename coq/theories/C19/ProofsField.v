(* C19/ProofsField.v — instance (a): whatever the interleaving of validators, field
   creators and engine writes, every stored value has the type the measurement records for
   its field, and a field's type never changes once set. *)
From Verif Require Import C19.Model C19.ProofsGen.
Open Scope N_scope.

Record finv (s : fstate) : Prop := mkFinv {
  f_stored : forall sr f t, In (sr, f, t) (stored s) -> mf s f = Some t;
  f_ready : forall id w, wph s id = WReady -> wrec s id = Some w -> mf s (wfield w) = Some (wtype w)
}.

Lemma finv_init : finv finit.
Proof. constructor; cbn; intros; [contradiction|discriminate]. Qed.

Ltac fflds := cbn [mf stm stored wrec wph set_ph].

(* a phase change of one writer to something other than WReady keeps the invariant *)
Lemma finv_set_ph s id p : finv s -> p <> WReady -> finv (set_ph s id p).
Proof.
  intros [Fs Fr] Hp. constructor; fflds; [exact Fs|].
  intros id0 w H0 Hw. unfold upd in H0. destruct (N.eqb_spec id0 id) as [->|]; [congruence|eauto].
Qed.

Lemma finv_set_ready s id w :
  finv s -> wrec s id = Some w -> mf s (wfield w) = Some (wtype w) -> finv (set_ph s id WReady).
Proof.
  intros [Fs Fr] Hw Hm. constructor; fflds; [exact Fs|].
  intros id0 w0 H0 Hw0. unfold upd in H0. destruct (N.eqb_spec id0 id) as [->|]; [|eauto].
  rewrite Hw in Hw0. inversion Hw0; subst. exact Hm.
Qed.

Lemma fexec_inv a s : finv s -> finv (fexec a s).
Proof.
  intros I. pose proof I as [Fs Fr]. unfold fexec. destruct a as [id w|id|id|id]; cbn [fexec_with].
  - (* FValidate *)
    destruct (wph s id) eqn:Ep; try exact I.
    assert (I1 : finv (mkF (mf s) (stm s) (stored s) (upd (wrec s) id (Some w)) (wph s))).
    { constructor; fflds; [exact Fs|]. intros id0 w0 H0 Hw0. unfold upd in Hw0.
      destruct (N.eqb_spec id0 id) as [->|]; [congruence|eauto]. }
    destruct (mf s (wfield w)) as [t'|]; [destruct (N.eqb t' (wtype w))|];
      apply finv_set_ph; auto; discriminate.
  - (* FCheckCreate *)
    destruct (wph s id) eqn:Ep; try exact I.
    destruct (wrec s id) as [w|] eqn:Ew; [|exact I].
    destruct (mf s (wfield w)) as [t'|] eqn:Em.
    + destruct (N.eqb_spec t' (wtype w)) as [->|Hne]; cbn [negb andb].
      * eapply finv_set_ready; eauto.
      * apply finv_set_ph; auto; discriminate.
    + apply finv_set_ph; auto; discriminate.
  - (* FCreate *)
    destruct (wph s id) eqn:Ep; try exact I.
    destruct (wrec s id) as [w|] eqn:Ew; [|exact I].
    destruct (mf s (wfield w)) as [t'|] eqn:Em.
    + destruct (N.eqb_spec t' (wtype w)) as [->|Hne].
      * eapply finv_set_ready; eauto.
      * apply finv_set_ph; auto; discriminate.
    + (* insert: no stored value and no ready writer can refer to this field yet *)
      eapply finv_set_ready with (w := w); fflds.
      * constructor; fflds.
        { intros sr f t Hin. unfold upd. destruct (N.eqb_spec f (wfield w)) as [->|]; [|eauto].
          apply Fs in Hin. congruence. }
        { intros id0 w0 H0 Hw0. unfold upd. destruct (N.eqb_spec (wfield w0) (wfield w)) as [E|]; [|eauto].
          pose proof (Fr id0 w0 H0 Hw0) as X. rewrite E in X. congruence. }
      * exact Ew.
      * unfold upd. rewrite N.eqb_refl. reflexivity.
  - (* FEngine *)
    destruct (wph s id) eqn:Ep; try exact I.
    destruct (wrec s id) as [w|] eqn:Ew; [|exact I].
    pose proof (Fr id w Ep Ew) as Hm.
    assert (Store : forall stm', finv (set_ph (mkF (mf s) stm' ((wseries w, wfield w, wtype w) :: stored s) (wrec s) (wph s)) id WStored)).
    { intros stm'. apply finv_set_ph; [|discriminate]. constructor; fflds; [|exact Fr].
      intros sr f t [E|Hin]; [inversion E; subst; exact Hm|eauto]. }
    destruct (stm s (wseries w) (wfield w)) as [t'|].
    + destruct (N.eqb t' (wtype w)); [apply Store|apply finv_set_ph; auto; discriminate].
    + apply Store.
Qed.

Lemma field_trace_inv tr : finv (run_trace fexec tr finit).
Proof. apply run_trace_inv; [intros; apply fexec_inv; assumption|apply finv_init]. Qed.

(* once a field has a type no action changes it *)
Lemma fexec_mf_stable a s f t : mf s f = Some t -> mf (fexec a s) f = Some t.
Proof.
  intros H. unfold fexec. destruct a as [id w|id|id|id]; cbn [fexec_with].
  - destruct (wph s id); try exact H.
    destruct (mf s (wfield w)) as [t'|]; [destruct (N.eqb t' (wtype w))|]; exact H.
  - destruct (wph s id); try exact H. destruct (wrec s id) as [w|]; [|exact H].
    destruct (mf s (wfield w)) as [t'|]; [destruct (true && negb (N.eqb t' (wtype w)))|]; exact H.
  - destruct (wph s id); try exact H. destruct (wrec s id) as [w|]; [|exact H].
    destruct (mf s (wfield w)) as [t'|] eqn:Em; [destruct (N.eqb t' (wtype w)); exact H|].
    cbn. unfold upd. destruct (N.eqb_spec f (wfield w)) as [->|]; [congruence|exact H].
  - destruct (wph s id); try exact H. destruct (wrec s id) as [w|]; [|exact H].
    destruct (stm s (wseries w) (wfield w)) as [t'|]; [destruct (N.eqb t' (wtype w))|]; exact H.
Qed.

Lemma field_type_stable_trace tr s f t : mf s f = Some t -> mf (run_trace fexec tr s) f = Some t.
Proof.
  revert s. induction tr as [|a tr IH]; intros s H; [exact H|].
  cbn. apply IH, fexec_mf_stable, H.
Qed.

Lemma finv_stored_typed s : finv s -> stored_typed s = true.
Proof.
  intros [Fs _]. unfold stored_typed. apply forallb_forall. intros [[sr f] t] Hin.
  rewrite (Fs _ _ _ Hin). apply N.eqb_refl.
Qed.

(* the pinned tree (existing fields skipped without a type check): a writer that validated
   before the field existed stores a value of a second type *)
Definition wB := mkW 2 7 1.   (* series 2, field 7, float *)
Definition wA := mkW 1 7 2.   (* series 1, field 7, integer *)
Definition field_race_trace : list fact :=
  [FValidate 1 wB; FValidate 2 wA; FCheckCreate 2; FCreate 2; FEngine 2; FCheckCreate 1; FCreate 1; FEngine 1].

Lemma field_race_unpatched :
  let s := run_trace (fexec_with false) field_race_trace finit in
  stored_typed s = false /\ mf s 7 = Some 2 /\ stored s = [(2, 7, 1); (1, 7, 2)].
Proof. vm_compute. repeat split. Qed.

Lemma field_race_patched :
  let s := run_trace fexec field_race_trace finit in
  stored_typed s = true /\ mf s 7 = Some 2 /\ stored s = [(1, 7, 2)] /\ wph s 1 = WCreateErr.
Proof. vm_compute. repeat split. Qed.
