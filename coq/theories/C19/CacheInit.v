(* C19/CacheInit.v — instance (f): the lazy allocation of the tsm1 cache store.

   tsdb/engine/tsm1/cache.go: NewCache starts with [store = emptyStore{}], whose write
   accepts values, returns no error and stores nothing.  Every Write/WriteMulti first calls
   Cache.init, which allocates the ring on first use, then fetches c.store under
   c.mu.RLock, then writes into the store it fetched, then returns nil (the engine goes on
   to the WAL and acknowledges).  A reader (Cache.Values) reads the store that is current.

   A writer thread is the action list [CInit1 w; CInit2 w; CFetch w; CWrite w v; CAck w]:
     CInit1   the lock-free look at initializedCount
              - repaired code: atomic load; 1 -> initialised, 0 -> go and take the lock
              - [flag_first = true], the pinned code: CompareAndSwap(0,1); the loser of
                the CAS returns from init at once, the winner still has to install the ring
     CInit2   the locked part of init
              - repaired code: ONE section under c.mu.Lock: if the flag is still 0, install
                a fresh ring and then set the flag
              - pinned code: the winner of the CAS installs the ring (unconditionally)
     CFetch   store := c.store under c.mu.RLock
     CWrite   store.write(values): into the ring fetched, or nowhere (emptyStore)
     CAck     WriteMulti returned nil
   Each action checks the phase of its thread, so EVERY list of actions is a legal program
   and every schedule a legal execution.  Cache.Free (called on idle shards only) is not
   part of this instance.  Definitions only. *)
From Verif Require Export C19.Model.
Open Scope N_scope.

Inductive chandle :=
| HEmpty                           (* emptyStore{} *)
| HRing (g : N).                   (* the ring allocated by the g-th newring call *)

Inductive cphase :=
| CStart
| CMustInstall                     (* pinned code only: won the CAS, ring not installed yet *)
| CSlow                            (* repaired code only: saw the flag 0, about to take the lock *)
| CInited                          (* init returned *)
| CFetched (h : chandle)
| CWritten (v : N)
| CAcked.

Record cstate := mkCS {
  c_flag : bool;                   (* initializedCount = 1 *)
  c_store : chandle;               (* c.store *)
  c_gen : N;                       (* rings allocated so far *)
  c_rings : N -> list N;           (* contents of each ring *)
  c_acked : list N;
  c_ph : N -> cphase
}.

Definition cinit : cstate := mkCS false HEmpty 0 (fun _ => []) [] (fun _ => CStart).

Inductive cact :=
| CInit1 (w : N)
| CInit2 (w : N)
| CFetch (w : N)
| CWrite (w : N) (v : N)
| CAck (w : N).

Definition cset_ph (s : cstate) (w : N) (p : cphase) : cstate :=
  mkCS (c_flag s) (c_store s) (c_gen s) (c_rings s) (c_acked s) (upd (c_ph s) w p).

Definition cexec_with (flag_first : bool) (a : cact) (s : cstate) : cstate :=
  match a with
  | CInit1 w =>
      match c_ph s w with
      | CStart =>
          if c_flag s then cset_ph s w CInited
          else if flag_first
               then mkCS true (c_store s) (c_gen s) (c_rings s) (c_acked s) (upd (c_ph s) w CMustInstall)
               else cset_ph s w CSlow
      | _ => s
      end
  | CInit2 w =>
      match c_ph s w with
      | CMustInstall =>
          mkCS (c_flag s) (HRing (c_gen s)) (c_gen s + 1) (c_rings s) (c_acked s) (upd (c_ph s) w CInited)
      | CSlow =>
          if c_flag s then cset_ph s w CInited
          else mkCS true (HRing (c_gen s)) (c_gen s + 1) (c_rings s) (c_acked s) (upd (c_ph s) w CInited)
      | _ => s
      end
  | CFetch w =>
      match c_ph s w with
      | CInited => cset_ph s w (CFetched (c_store s))
      | _ => s
      end
  | CWrite w v =>
      match c_ph s w with
      | CFetched HEmpty => cset_ph s w (CWritten v)
      | CFetched (HRing g) =>
          mkCS (c_flag s) (c_store s) (c_gen s) (upd (c_rings s) g (c_rings s g ++ [v])) (c_acked s)
               (upd (c_ph s) w (CWritten v))
      | _ => s
      end
  | CAck w =>
      match c_ph s w with
      | CWritten v => mkCS (c_flag s) (c_store s) (c_gen s) (c_rings s) (c_acked s ++ [v]) (upd (c_ph s) w CAcked)
      | _ => s
      end
  end.

Definition cexec := cexec_with false.

(* what Cache.Values can return: the contents of the store that is current *)
Definition cvisible (s : cstate) : list N :=
  match c_store s with
  | HEmpty => []
  | HRing g => c_rings s g
  end.

(* the executable spec: every acknowledged value is readable *)
Definition cache_acked_visible (s : cstate) : bool := subset (c_acked s) (cvisible s).

Definition cwriter (w v : N) : list cact := [CInit1 w; CInit2 w; CFetch w; CWrite w v; CAck w].
