(* C19/CacheInit.v — instance (f): the lazily allocated store of the tsm1 cache, its
   release on idle shards, and the engine lock around writes.

   tsdb/engine/tsm1/cache.go: NewCache starts with [store = emptyStore{}], whose write
   accepts values, returns no error and stores nothing.  Cache.WriteMulti first calls
   Cache.init, which allocates the ring on first use, then fetches c.store under
   c.mu.RLock, then writes into the store it fetched, then returns nil.  The engine
   (Engine.WritePointsWithContext) does this, and the WAL write, under e.mu.RLock and then
   acknowledges.  A reader (Cache.Values) reads the store that is current.
   Store.monitorShards runs `if sh.IsIdle() { sh.Free() }` every 10 s: IsIdle looks at
   Cache.Size(), Free releases the store (store = emptyStore{}, flag = 0).

   A writer thread is the action list [CEnter w; CInit1 w; CInit2 w; CFetch w; CWrite w v; CAck w]:
     CEnter   e.mu.RLock (never blocks here: the exclusive holder below is one action)
     CInit1   the lock-free look at initializedCount
              - repaired code: atomic load; 1 -> initialised, 0 -> go and take the lock
              - [flag_first = true], the pinned code: CompareAndSwap(0,1); the loser of
                the CAS returns from init at once, the winner still has to install the ring
     CInit2   the locked part of init
              - repaired code: ONE section under c.mu.Lock: if the flag is still 0, install
                a fresh ring and then set the flag
              - pinned code: the winner of the CAS installs the ring (unconditionally)
     CFetch   store := c.store under c.mu.RLock
     CWrite   size += ...; store.write(values): into the ring fetched, or nowhere (emptyStore)
     CAck     e.mu.RUnlock; the write returned nil
   The monitor is [CIdle f; CFree f]:
     CIdle    sh.IsIdle(): Cache.Size() = 0 ?  (Free is called only if so)
     CFree    - repaired code: ONE section under e.mu.Lock (it waits until no writer holds
                the read lock: while one does, the action is a stutter step): if the cache
                is STILL empty, store := emptyStore, flag := 0
              - [free_unlocked = true], the pinned code: no engine lock, no second look
   CFlush is a whole cache snapshot (Engine.WriteSnapshot: the cache's values go to a TSM
   file and leave the cache) as ONE step; it begins under e.mu.Lock, so it waits for the
   writers.  Its own sections, and reads that overlap it, are instance (c); it is here so
   that an allocated, empty cache with acknowledged values - the state in which the
   monitor releases the store - is reachable.
   Each action checks the phase of its thread, so EVERY list of actions is a legal program
   and every schedule a legal execution.  Definitions only. *)
From Verif Require Export C19.Model.
Open Scope N_scope.

Inductive chandle :=
| HEmpty                           (* emptyStore{} *)
| HRing (g : N).                   (* the ring allocated by the g-th newring call *)

Inductive cphase :=
| CStart
| CEntered                         (* holds e.mu.RLock *)
| CMustInstall                     (* pinned code only: won the CAS, ring not installed yet *)
| CSlow                            (* repaired code only: saw the flag 0, about to take the lock *)
| CInited                          (* init returned *)
| CFetched (h : chandle)
| CWritten (v : N)
| CAcked.

Inductive fphase :=
| FStart
| FSeen (idle : bool)
| FDone.

Record cstate := mkCS {
  c_flag : bool;                   (* initializedCount = 1 *)
  c_store : chandle;               (* c.store *)
  c_gen : N;                       (* rings allocated so far *)
  c_rings : N -> list N;           (* contents of each ring *)
  c_files : list N;                (* values a cache snapshot has moved to TSM files *)
  c_size : N;                      (* Cache.Size(): values accepted so far (nothing deletes here) *)
  c_inside : list N;               (* writers holding e.mu.RLock *)
  c_acked : list N;
  c_ph : N -> cphase;
  c_fph : N -> fphase
}.

Definition cinit : cstate := mkCS false HEmpty 0 (fun _ => []) [] 0 [] [] (fun _ => CStart) (fun _ => FStart).

Inductive cact :=
| CEnter (w : N)
| CInit1 (w : N)
| CInit2 (w : N)
| CFetch (w : N)
| CWrite (w : N) (v : N)
| CAck (w : N)
| CIdle (f : N)
| CFree (f : N)
| CFlush.

Definition cset_ph (s : cstate) (w : N) (p : cphase) : cstate :=
  mkCS (c_flag s) (c_store s) (c_gen s) (c_rings s) (c_files s) (c_size s) (c_inside s) (c_acked s) (upd (c_ph s) w p) (c_fph s).

Definition cset_fph (s : cstate) (f : N) (p : fphase) : cstate :=
  mkCS (c_flag s) (c_store s) (c_gen s) (c_rings s) (c_files s) (c_size s) (c_inside s) (c_acked s) (c_ph s) (upd (c_fph s) f p).

Definition cexec_with (flag_first free_unlocked : bool) (a : cact) (s : cstate) : cstate :=
  match a with
  | CEnter w =>
      match c_ph s w with
      | CStart => mkCS (c_flag s) (c_store s) (c_gen s) (c_rings s) (c_files s) (c_size s) (w :: c_inside s) (c_acked s)
                       (upd (c_ph s) w CEntered) (c_fph s)
      | _ => s
      end
  | CInit1 w =>
      match c_ph s w with
      | CEntered =>
          if c_flag s then cset_ph s w CInited
          else if flag_first
               then mkCS true (c_store s) (c_gen s) (c_rings s) (c_files s) (c_size s) (c_inside s) (c_acked s)
                         (upd (c_ph s) w CMustInstall) (c_fph s)
               else cset_ph s w CSlow
      | _ => s
      end
  | CInit2 w =>
      match c_ph s w with
      | CMustInstall =>
          mkCS (c_flag s) (HRing (c_gen s)) (c_gen s + 1) (c_rings s) (c_files s) (c_size s) (c_inside s) (c_acked s)
               (upd (c_ph s) w CInited) (c_fph s)
      | CSlow =>
          if c_flag s then cset_ph s w CInited
          else mkCS true (HRing (c_gen s)) (c_gen s + 1) (c_rings s) (c_files s) (c_size s) (c_inside s) (c_acked s)
                    (upd (c_ph s) w CInited) (c_fph s)
      | _ => s
      end
  | CFetch w =>
      match c_ph s w with
      | CInited => cset_ph s w (CFetched (c_store s))
      | _ => s
      end
  | CWrite w v =>
      match c_ph s w with
      | CFetched HEmpty =>
          mkCS (c_flag s) (c_store s) (c_gen s) (c_rings s) (c_files s) (c_size s + 1) (c_inside s) (c_acked s)
               (upd (c_ph s) w (CWritten v)) (c_fph s)
      | CFetched (HRing g) =>
          mkCS (c_flag s) (c_store s) (c_gen s) (upd (c_rings s) g (c_rings s g ++ [v])) (c_files s) (c_size s + 1) (c_inside s)
               (c_acked s) (upd (c_ph s) w (CWritten v)) (c_fph s)
      | _ => s
      end
  | CAck w =>
      match c_ph s w with
      | CWritten v =>
          mkCS (c_flag s) (c_store s) (c_gen s) (c_rings s) (c_files s) (c_size s) (remove N.eq_dec w (c_inside s))
               (c_acked s ++ [v]) (upd (c_ph s) w CAcked) (c_fph s)
      | _ => s
      end
  | CIdle f =>
      match c_fph s f with
      | FStart => cset_fph s f (FSeen (N.eqb (c_size s) 0))
      | _ => s
      end
  | CFree f =>
      match c_fph s f with
      | FSeen false => cset_fph s f FDone
      | FSeen true =>
          let release :=
            if c_flag s
            then mkCS false HEmpty (c_gen s) (c_rings s) (c_files s) (c_size s) (c_inside s) (c_acked s) (c_ph s) (upd (c_fph s) f FDone)
            else cset_fph s f FDone in
          if free_unlocked then release
          else match c_inside s with
               | [] => if N.eqb (c_size s) 0 then release else cset_fph s f FDone
               | _ :: _ => s                       (* e.mu.Lock waits for the readers *)
               end
      | _ => s
      end
  | CFlush =>
      match c_inside s, c_store s with
      | [], HRing g =>
          mkCS (c_flag s) (c_store s) (c_gen s) (upd (c_rings s) g []) (c_files s ++ c_rings s g) 0 (c_inside s)
               (c_acked s) (c_ph s) (c_fph s)
      | _, _ => s                                  (* e.mu.Lock waits for the readers; nothing to flush *)
      end
  end.

Definition cexec := cexec_with false false.

(* what Cache.Values can return: the contents of the store that is current *)
Definition cring (s : cstate) : list N :=
  match c_store s with
  | HEmpty => []
  | HRing g => c_rings s g
  end.

(* what a read returns: the files and the cache *)
Definition cvisible (s : cstate) : list N := c_files s ++ cring s.

(* the executable spec: every acknowledged value is readable *)
Definition cache_acked_visible (s : cstate) : bool := subset (c_acked s) (cvisible s).

Definition cwriter (w v : N) : list cact := [CEnter w; CInit1 w; CInit2 w; CFetch w; CWrite w v; CAck w].
Definition cmonitor (f : N) : list cact := [CIdle f; CFree f].
