(* C19/ProofsMeta.v — instance (d): a published metadata value never changes, readers see
   one consistent value through the pointer they loaded, and (repaired code) an accepted
   authentication always matches the user record that very call read. *)
From Verif Require Import C19.Model C19.ProofsGen.
From Coq Require Import ZifyBool ZifyN.
Open Scope N_scope.

Record minv (s : mstate) : Prop := mkMinv {
  m_cur : In (cur s) (published s);
  m_pub_lt : forall c, In c (published s) -> c < nextc s;
  m_priv : forall w c, wl s w = LPriv c -> ~ In c (published s) /\ c < nextc s;
  m_priv_inj : forall w w' c, wl s w = LPriv c -> wl s w' = LPriv c -> w = w';
  m_rptr : forall r c, rptr s r = Some c -> In c (published s);
  m_robs : forall r c u v, In (c, u, v) (robs s r) -> In c (published s) /\ heap s c u = v;
  m_cache : forall u e, acache s u = Some e -> ae_pass e = ae_bhash e;
  m_ver : forall a u pw h, aph s a = AVerified u pw h -> pw = h;
  m_acc : forall a u pw h via, aph s a = AAccepted u pw h via -> pw = h
}.

Lemma minv_init : minv minit.
Proof.
  constructor; cbn; intros; try discriminate; try contradiction; auto.
  destruct H as [<-|[]]. lia.
Qed.

Ltac mflds := cbn [heap cur nextc published wl rptr robs acache aph].

(* published cells are never written *)
Lemma mexec_published_stable b a s c :
  minv s -> In c (published s) -> heap (mexec_with b a s) c = heap s c.
Proof.
  intros I Hc. destruct a as [w|w u h|w|r|r u|a u pw|a|a]; cbn [mexec_with].
  - destruct (wl s w); [|reflexivity]. mflds.
    destruct (N.eqb_spec c (nextc s)) as [E|]; [|reflexivity].
    pose proof (m_pub_lt s I c Hc). lia.
  - destruct (wl s w) as [|c0] eqn:Ew; [reflexivity|]. mflds.
    destruct (N.eqb_spec c c0) as [E|]; [|reflexivity]. subst c0.
    exfalso. apply (proj1 (m_priv s I w c Ew)), Hc.
  - destruct (wl s w); reflexivity.
  - reflexivity.
  - destruct (rptr s r); reflexivity.
  - destruct (aph s a); reflexivity.
  - destruct (aph s a) as [|u pw [h|]| | |]; reflexivity.
  - destruct (aph s a); reflexivity.
Qed.

Lemma mexec_published_mono b a s c : In c (published s) -> In c (published (mexec_with b a s)).
Proof.
  intros Hc. destruct a as [w|w u h|w|r|r u|a u pw|a|a]; cbn [mexec_with].
  - destruct (wl s w); exact Hc.
  - destruct (wl s w); exact Hc.
  - destruct (wl s w); [exact Hc|right; exact Hc].
  - exact Hc.
  - destruct (rptr s r); exact Hc.
  - destruct (aph s a); exact Hc.
  - destruct (aph s a) as [|u pw [h|]| | |]; exact Hc.
  - destruct (aph s a); exact Hc.
Qed.

Lemma rebuild_cache_sound data c :
  (forall u e, c u = Some e -> ae_pass e = ae_bhash e) ->
  forall u e, rebuild_cache data c u = Some e -> ae_pass e = ae_bhash e.
Proof.
  intros H u e. unfold rebuild_cache. destruct (c u) as [e0|] eqn:E; [|discriminate].
  destruct (data u); [|discriminate]. destruct (N.eqb (ae_bhash e0) n); [|discriminate].
  intros X; inversion X; subst. eapply H; eauto.
Qed.

Lemma mexec_inv a s : minv s -> minv (mexec a s).
Proof.
  intros I. pose proof I as [Mc Ml Mp Mi Mr Mo Mk Mv Ma].
  unfold mexec. destruct a as [w|w u h|w|r|r u|a u pw|a|a]; cbn [mexec_with].
  - (* MClone *)
    destruct (wl s w) eqn:Ew; [|exact I].
    constructor; mflds; auto.
    + intros c Hc. apply Ml in Hc. lia.
    + intros w0 c H0. unfold upd in H0. destruct (N.eqb_spec w0 w) as [E|].
      * inversion H0; subst. split; [|lia]. intros Hin. apply Ml in Hin. lia.
      * destruct (Mp w0 c H0). split; [assumption|lia].
    + intros w1 w2 c H1 H2. unfold upd in H1, H2.
      destruct (N.eqb_spec w1 w) as [E1|]; destruct (N.eqb_spec w2 w) as [E2|]; try congruence.
      * inversion H1; subst. destruct (Mp w2 _ H2). lia.
      * inversion H2; subst. destruct (Mp w1 _ H1). lia.
      * eapply Mi; eauto.
    + intros r c u v Hin. destruct (Mo r c u v Hin) as [Hp Hv]. split; [exact Hp|].
      destruct (N.eqb_spec c (nextc s)) as [E|]; [|exact Hv]. apply Ml in Hp. lia.
  - (* MEdit *)
    destruct (wl s w) as [|c0] eqn:Ew; [exact I|].
    constructor; mflds; auto.
    intros r c u0 v Hin. destruct (Mo r c u0 v Hin) as [Hp Hv]. split; [exact Hp|].
    destruct (N.eqb_spec c c0) as [E|]; [|exact Hv]. subst c0.
    exfalso. apply (proj1 (Mp w c Ew)), Hp.
  - (* MPublish *)
    destruct (wl s w) as [|c0] eqn:Ew; [exact I|].
    destruct (Mp w c0 Ew) as [Hnp Hlt].
    constructor; mflds; auto.
    + left; reflexivity.
    + intros c [<-|Hc]; auto.
    + intros w0 c H0. unfold upd in H0. destruct (N.eqb_spec w0 w) as [E|Hne]; [discriminate|].
      destruct (Mp w0 c H0) as [Hn Hl]. split; [|exact Hl].
      intros [E|Hin]; [|contradiction]. subst c. apply Hne. eapply Mi; eauto.
    + intros w1 w2 c H1 H2. unfold upd in H1, H2.
      destruct (N.eqb_spec w1 w); [discriminate|]. destruct (N.eqb_spec w2 w); [discriminate|]. eapply Mi; eauto.
    + intros r c Hr. right. eauto.
    + intros r c u v Hin. destruct (Mo r c u v Hin). split; [right; assumption|assumption].
    + apply rebuild_cache_sound, Mk.
  - (* MLoad *)
    constructor; mflds; auto.
    intros r0 c H0. unfold upd in H0. destruct (N.eqb_spec r0 r); [inversion H0; subst; exact Mc|eauto].
  - (* MDeref *)
    destruct (rptr s r) as [c|] eqn:Er; [|exact I].
    constructor; mflds; auto.
    intros r0 c0 u0 v Hin. unfold upd in Hin. destruct (N.eqb_spec r0 r) as [E|]; [|eauto].
    subst r0. destruct Hin as [E|Hin]; [|eauto]. inversion E; subst. split; [eauto|reflexivity].
  - (* AStart *)
    destruct (aph s a) eqn:Ea; try exact I.
    constructor; mflds; auto.
    + intros a0 u0 pw0 h0 H0. unfold upd in H0. destruct (N.eqb_spec a0 a); [discriminate|eauto].
    + intros a0 u0 pw0 h0 via H0. unfold upd in H0. destruct (N.eqb_spec a0 a); [discriminate|eauto].
  - (* ACheck *)
    destruct (aph s a) as [|u pw [h|]| | |] eqn:Ea; try exact I.
    + destruct (acache s u) as [e|] eqn:Ee.
      * cbn [andb]. destruct (N.eqb_spec (ae_bhash e) h) as [Eb|Nb]; cbn [andb].
        { destruct (N.eqb_spec (ae_pass e) pw) as [Ep|Np].
          - constructor; mflds; auto.
            + intros a0 u0 pw0 h0 H0. unfold upd in H0. destruct (N.eqb_spec a0 a); [discriminate|eauto].
            + intros a0 u0 pw0 h0 via H0. unfold upd in H0. destruct (N.eqb_spec a0 a); [|eauto].
              inversion H0; subst. rewrite <- (Mk u0 e Ee). reflexivity.
          - destruct (N.eqb_spec pw h) as [Eh|Nh]; constructor; mflds; auto;
              intros a0; intros; match goal with H0 : upd _ _ _ _ = _ |- _ => unfold upd in H0;
                destruct (N.eqb_spec a0 a); [inversion H0; subst; auto|eauto] end. }
        { destruct (N.eqb_spec pw h) as [Eh|Nh]; constructor; mflds; auto;
            intros a0; intros; match goal with H0 : upd _ _ _ _ = _ |- _ => unfold upd in H0;
              destruct (N.eqb_spec a0 a); [inversion H0; subst; auto|eauto] end. }
      * destruct (N.eqb_spec pw h) as [Eh|Nh]; constructor; mflds; auto;
          intros a0; intros; match goal with H0 : upd _ _ _ _ = _ |- _ => unfold upd in H0;
            destruct (N.eqb_spec a0 a); [inversion H0; subst; auto|eauto] end.
    + constructor; mflds; auto;
        intros a0; intros; match goal with H0 : upd _ _ _ _ = _ |- _ => unfold upd in H0;
          destruct (N.eqb_spec a0 a); [discriminate|eauto] end.
  - (* AStore *)
    destruct (aph s a) as [| |u pw h| |] eqn:Ea; try exact I.
    pose proof (Mv a u pw h Ea) as Epw.
    constructor; mflds; auto.
    + intros u0 e H0. unfold upd in H0. destruct (N.eqb_spec u0 u); [inversion H0; subst; cbn; reflexivity|eauto].
    + intros a0 u0 pw0 h0 H0. unfold upd in H0. destruct (N.eqb_spec a0 a); [discriminate|eauto].
    + intros a0 u0 pw0 h0 via H0. unfold upd in H0. destruct (N.eqb_spec a0 a); [|eauto].
      inversion H0; subst. reflexivity.
Qed.

Lemma meta_trace_inv_from tr s : minv s -> minv (run_trace mexec tr s).
Proof. apply run_trace_inv. intros; apply mexec_inv; assumption. Qed.

Lemma meta_trace_inv tr : minv (run_trace mexec tr minit).
Proof. apply meta_trace_inv_from, minv_init. Qed.

Lemma published_stable_trace tr s c :
  minv s -> In c (published s) -> heap (run_trace mexec tr s) c = heap s c.
Proof.
  revert s. induction tr as [|a tr IH]; intros s I Hc; [reflexivity|].
  cbn. change (heap (run_trace mexec tr (mexec a s)) c = heap s c).
  rewrite IH; [apply (mexec_published_stable true), Hc; exact I|apply mexec_inv, I|].
  apply (mexec_published_mono true), Hc.
Qed.

(* the pinned tree: a cache hit did not compare the cached hash with the user's current
   one; the entry stored by a call that read the user before a password change lets a
   later call in with the old password *)
Definition auth_race_trace : list mact :=
  [ MClone 1; MEdit 1 5 (Some 1); MPublish 1;        (* user 5 has password 1 *)
    AStart 1 5 1;                                    (* call 1 reads the record (hash 1) *)
    MClone 2; MEdit 2 5 (Some 2); MPublish 2;        (* password changed to 2; cache rebuilt *)
    ACheck 1; AStore 1;                              (* call 1 verifies against hash 1, stores entry *)
    AStart 2 5 1; ACheck 2 ].                        (* call 2 reads hash 2, presents password 1 *)

Lemma auth_race_unpatched :
  aph (run_trace (mexec_with false) auth_race_trace minit) 2 = AAccepted 5 1 2 true.
Proof. vm_compute. reflexivity. Qed.

Lemma auth_race_patched :
  aph (run_trace mexec auth_race_trace minit) 2 = ARejected.
Proof. vm_compute. reflexivity. Qed.
