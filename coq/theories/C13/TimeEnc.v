(* C13/TimeEnc.v — executable model of the tsm1 timestamp codecs.
     timestamp.go        encoder (Write/reduce/Bytes: RLE / raw / packed with the streaming
                         jwilder simple8b Encoder), TimeDecoder (Init/Next/Read)
     batch_timestamp.go  TimeArrayEncodeAll / TimeArrayDecodeAll
   Timestamps are int64 carried as 64-bit patterns (N < 2^64); deltas wrap mod 2^64, which
   is why no ordering of the input is needed.  The divisor 10^k is represented by its
   exponent k: `for div > 1 && v%div != 0 { div /= 10 }` is [div_search]; the header nibble
   byte(math.Log10(float64(div))) is k and math.Pow10(k) on the decode side is 10^k (both
   exact for k <= 15; the harness checks every k).  Definitions only. *)
From Verif Require Export Lib.Bytes Lib.Varint C13.Simple8b C13.IntEnc.
From VerifGen Require Import Consts.
Open Scope N_scope.

Definition pow10 (k : nat) : N := 10 ^ N.of_nat k.

Fixpoint div_search (k : nat) (v : N) : nat :=
  match k with
  | O => O
  | S k' => if v mod pow10 k =? 0 then k else div_search k' v
  end.

Definition scale_down (k : nat) (v : N) : N := if (0 <? k)%nat then v / pow10 k else v.

Definition time_rle_bytes (k : nat) (first d1 : N) (n : N) : bytes :=
  hdr c13_timeCompressedRLE (N.of_nat k) :: be_enc 8 first ++ put_uvarint d1 ++ put_uvarint n.

Definition time_raw_bytes (ds : list N) : bytes :=
  hdr c13_timeUncompressed 0 :: flat_map (be_enc 8) ds.

Definition time_packed_bytes (k : nat) (first : N) (words : list N) : bytes :=
  hdr c13_timeCompressedPackedSimple (N.of_nat k) :: be_enc 8 first ++ words_to_bytes words.

(* encoder.Bytes(): reduce() walks i = len-1 .. 1, so the divisor search sees the LAST
   delta first (fold_right); rle = all deltas[1:] equal; max over deltas[1:]. *)
Definition time_encode_iter (src : list N) : option bytes :=
  match deltas_from 0 src with
  | [] => Some []
  | d0 :: dr =>
      let k := fold_right (fun d k => div_search k d) c13_time_div_start_exp_iter dr in
      let mx := fold_left N.max dr 0 in
      if all_eq dr && (1 <? length (d0 :: dr))%nat
      then Some (time_rle_bytes k d0 (hd 0 dr / pow10 k) (N.of_nat (length (d0 :: dr))))
      else if c13_jw_max_value <? mx
      then Some (time_raw_bytes (d0 :: dr))
      else match jw_encode_stream (map (scale_down k) dr) with
           | Some ws => Some (time_packed_bytes k d0 ws)
           | None => None
           end
  end.

(* TimeArrayEncodeAll: RLE looks at deltas[1] only for the divisor; the packed path
   searches forward; a single timestamp is "packed" with the untouched start divisor. *)
Definition time_encode_batch (src : list N) : option bytes :=
  match deltas_from 0 src with
  | [] => Some []                                           (* nil, nil *)
  | d0 :: dr =>
      let mx := fold_left N.max dr 0 in
      if (1 <? length (d0 :: dr))%nat && all_eq dr
      then let k := div_search c13_time_div_start_exp_batch (hd 0 dr) in
           Some (time_rle_bytes k d0 (scale_down k (hd 0 dr)) (N.of_nat (length (d0 :: dr))))
      else if c13_pkg_max_value <? mx
      then Some (time_raw_bytes (d0 :: dr))
      else let k := fold_left div_search dr c13_time_div_start_exp_batch in
           match pkg_encode_all (map (scale_down k) dr) with
           | Some ws => Some (time_packed_bytes k d0 ws)
           | None => None
           end
  end.

(* ---------- decoders ---------- *)

(* packed: out[0] = first, out[i] = out[i-1] + delta_i * div  (mod 2^64) *)
Definition scaled_sums (div first : N) (deltas : list N) : list N :=
  first :: prefix_sums first (map (fun d => if 1 <? div then mul64 d div else d) deltas).

(* TimeDecoder (fresh) driven by  for d.Next() { out = append(out, d.Read()) } ; d.Error() *)
Definition time_decode_iter (b : bytes) : list N * bool :=
  match b with
  | [] => ([], false)
  | h :: body =>
      let enc := h / 16 in
      let div := pow10 (N.to_nat (h mod 16)) in
      if enc =? c13_timeUncompressed then
        (prefix_sums 0 (fst (bytes_to_words body)), false)   (* len/8 values, tail ignored *)
      else if enc =? c13_timeCompressedRLE then
        match take 8 body with
        | None => ([], true)                                 (* len(b) < 9 *)
        | Some (fb, r1) =>
            match uvarint r1 with
            | None => ([], true)
            | Some (value, r2) =>
                match uvarint r2 with
                | None => ([], true)
                | Some (count, _) =>
                    (arith_run (N.to_nat count) (be_dec fb) (mul64 value div), false)
                end
            end
        end
      else if enc =? c13_timeCompressedPackedSimple then
        match take 8 body with
        | None => ([], true)
        | Some (fb, r) =>
            match jw_decode_bytes r with
            | Some deltas => (scaled_sums div (be_dec fb) deltas, false)
            | None => ([be_dec fb], false)                   (* unreachable: selector < 16 *)
            end
        end
      else ([], true)                                        (* unknown encoding *)
  end.

(* TimeArrayDecodeAll.  None = error. *)
Definition time_decode_batch (b : bytes) : option (list N) :=
  match b with
  | [] => Some []
  | h :: body =>
      let enc := h / 16 in
      let div := pow10 (N.to_nat (h mod 16)) in
      if enc =? c13_timeUncompressed then
        let (ws, rest) := bytes_to_words body in
        if is_nil rest then Some (prefix_sums 0 ws) else None
      else if enc =? c13_timeCompressedPackedSimple then
        match take 8 body with
        | None => None
        | Some (fb, r) =>
            match pkg_decode_bytes r with
            | None => None
            | Some deltas => Some (scaled_sums div (be_dec fb) deltas)
            end
        end
      else if enc =? c13_timeCompressedRLE then
        match take 8 body with
        | None => None
        | Some (fb, r1) =>
            match uvarint r1 with
            | None => None
            | Some (delta, r2) =>
                match uvarint r2 with
                | None => None
                | Some (count, _) => Some (arith_run (N.to_nat count) (be_dec fb) (mul64 delta div))
                end
            end
        end
      else None
  end.
