(* C13/BoolProofs.v — round trips of the tsm1 boolean codecs (BoolEnc.v):
   BooleanEncoder -> BooleanDecoder and BooleanArrayEncodeAll -> BooleanArrayDecodeAll
   (the two decoders are the same function [bool_decode]). *)
From Verif Require Import Lib.Bytes Lib.Varint C13.Model.
From VerifGen Require Import Consts.
From Coq Require Import ZifyBool ZifyNat ZifyN.
Open Scope N_scope.

(* ---------- bits of one byte ---------- *)

Lemma byte_bits_of_bits8 b7 b6 b5 b4 b3 b2 b1 b0 :
  byte_bits (byte_of_bits8 b7 b6 b5 b4 b3 b2 b1 b0) = [b7; b6; b5; b4; b3; b2; b1; b0].
Proof.
  destruct b7, b6, b5, b4, b3, b2, b1, b0; vm_compute; reflexivity.
Qed.

Lemma bytes_to_bits_cons x bs : bytes_to_bits (x :: bs) = byte_bits x ++ bytes_to_bits bs.
Proof. reflexivity. Qed.

Lemma bytes_to_bits_length bs : length (bytes_to_bits bs) = (8 * length bs)%nat.
Proof.
  induction bs as [|x bs IH]; [reflexivity|].
  rewrite bytes_to_bits_cons, app_length, IH. cbn [length byte_bits]. lia.
Qed.

Lemma firstn_length_app {A} (l p : list A) : firstn (length l) (l ++ p) = l.
Proof. induction l as [|x l IH]; cbn [length firstn app]; [reflexivity|]. rewrite IH. reflexivity. Qed.

(* ---------- the decoder on a well-formed block ---------- *)

Lemma bool_decode_ok h l body pad :
  N.of_nat (length l) < two64 ->
  bytes_to_bits body = l ++ pad ->
  bool_decode (h :: put_uvarint (N.of_nat (length l)) ++ body) = Some l.
Proof.
  intros Hlen Hbits. unfold bool_decode.
  rewrite uvarint_put_uvarint by assumption. cbv zeta.
  assert (Hle : N.of_nat (length l) <= 8 * N.of_nat (length body)).
  { pose proof (bytes_to_bits_length body) as HL. rewrite Hbits, app_length in HL. lia. }
  rewrite N.min_l by assumption.
  rewrite Nat2N.id, Hbits, firstn_length_app. reflexivity.
Qed.

(* ---------- batch encoder: 8-step induction ---------- *)

Lemma list_ind8 {A} (P : list A -> Prop) :
  (forall l, (length l < 8)%nat -> P l) ->
  (forall a b c d e f g h r, P r -> P (a :: b :: c :: d :: e :: f :: g :: h :: r)) ->
  forall l, P l.
Proof.
  intros Hsmall Hstep.
  assert (H : forall n l, (length l <= n)%nat -> P l).
  { induction n as [|n IH]; intros l Hl.
    - apply Hsmall. lia.
    - destruct l as [|a [|b [|c [|d [|e [|f [|g [|h r]]]]]]]];
        try (apply Hsmall; cbn [length]; lia).
      apply Hstep. apply IH. cbn [length] in Hl. lia. }
  intros l. apply (H (length l)). lia.
Qed.

Lemma bits_to_bytes_bits : forall l, exists pad, bytes_to_bits (bits_to_bytes l) = l ++ pad.
Proof.
  apply (list_ind8 (fun l => exists pad, bytes_to_bits (bits_to_bytes l) = l ++ pad)).
  - intros l Hl.
    destruct l as [|a [|b [|c [|d [|e [|f [|g [|h r]]]]]]]];
      try (cbn [length] in Hl; lia);
      cbn [bits_to_bytes]; try rewrite bytes_to_bits_cons, byte_bits_of_bits8;
      cbn [bytes_to_bits flat_map app]; eexists; reflexivity.
  - intros a b c d e f g h r [pad IH].
    exists pad. cbn [bits_to_bytes].
    rewrite bytes_to_bits_cons, byte_bits_of_bits8, IH. reflexivity.
Qed.

Lemma bool_roundtrip_batch_lemma : forall l,
  N.of_nat (length l) < two64 -> bool_decode (bool_encode_batch l) = Some l.
Proof.
  intros l Hlen. unfold bool_encode_batch.
  destruct (bits_to_bytes_bits l) as [pad Hpad].
  apply (bool_decode_ok _ l _ pad); assumption.
Qed.

Example bool_roundtrip_batch_ex :
  let l := [true; false; true; true; false; false; true; false; true; true] in
  N.of_nat (length l) < two64 /\
  bool_encode_batch l = [16; 10; 178; 192] /\
  bool_decode_batch (bool_encode_batch l) = Some l.
Proof. cbv zeta. split; [reflexivity|]. split; vm_compute; reflexivity. Qed.

(* ---------- iterator encoder: invariant on (cur, i) ---------- *)

(* the value accumulated in e.b by writing the bits [pre] (MSB first) *)
Definition bits_val (pre : list bool) : N := fold_left (fun acc b => 2 * acc + N.b2n b) pre 0.

Lemma bits_val_snoc pre b : bits_val (pre ++ [b]) = 2 * bits_val pre + N.b2n b.
Proof. unfold bits_val. rewrite fold_left_app. reflexivity. Qed.

(* flush: the pending bits, left-aligned, zero padded *)
Lemma byte_bits_flush pre :
  (length pre <= 8)%nat ->
  byte_bits (bits_val pre * 2 ^ N.of_nat (8 - length pre)) = pre ++ repeat false (8 - length pre).
Proof.
  intros Hl.
  destruct pre as [|a [|b [|c [|d [|e [|f [|g [|h [|x r]]]]]]]]];
    try (cbn [length] in Hl; lia).
  - vm_compute; reflexivity.
  - destruct a; vm_compute; reflexivity.
  - destruct a, b; vm_compute; reflexivity.
  - destruct a, b, c; vm_compute; reflexivity.
  - destruct a, b, c, d; vm_compute; reflexivity.
  - destruct a, b, c, d, e; vm_compute; reflexivity.
  - destruct a, b, c, d, e, f; vm_compute; reflexivity.
  - destruct a, b, c, d, e, f, g; vm_compute; reflexivity.
  - destruct a, b, c, d, e, f, g, h; vm_compute; reflexivity.
Qed.

Lemma byte_bits_full pre : length pre = 8%nat -> byte_bits (bits_val pre) = pre.
Proof.
  intros Hl. pose proof (byte_bits_flush pre ltac:(lia)) as H.
  rewrite Hl in H. change (N.of_nat (8 - 8)) with 0 in H.
  rewrite N.pow_0_r, N.mul_1_r in H. cbn [Nat.sub repeat] in H.
  rewrite app_nil_r in H. exact H.
Qed.

Lemma bool_pack_iter_bits : forall l pre,
  (length pre <= 8)%nat ->
  exists pad, bytes_to_bits (bool_pack_iter l (bits_val pre) (length pre)) = pre ++ l ++ pad.
Proof.
  induction l as [|b r IH]; intros pre Hpre.
  - cbn [bool_pack_iter]. exists (repeat false (8 - length pre)).
    rewrite bytes_to_bits_cons, byte_bits_flush by assumption.
    cbn [bytes_to_bits flat_map app]. rewrite app_nil_r. reflexivity.
  - cbn [bool_pack_iter].
    destruct (Nat.leb_spec 8 (length pre)) as [Hfull|Hroom].
    + destruct (IH [b] ltac:(cbn [length]; lia)) as [pad Hpad].
      exists pad. rewrite bytes_to_bits_cons, byte_bits_full by lia.
      change (N.b2n b) with (bits_val [b]) at 1.
      change 1%nat with (length [b]).
      rewrite Hpad. reflexivity.
    + destruct (IH (pre ++ [b]) ltac:(rewrite app_length; cbn [length]; lia)) as [pad Hpad].
      exists pad. rewrite <- bits_val_snoc.
      replace (S (length pre)) with (length (pre ++ [b]))
        by (rewrite app_length; cbn [length]; lia).
      rewrite Hpad, <- app_assoc. reflexivity.
Qed.

Lemma bool_roundtrip_iter_lemma : forall l,
  N.of_nat (length l) < two64 -> bool_decode (bool_encode_iter l) = Some l.
Proof.
  intros l Hlen. unfold bool_encode_iter.
  destruct (bool_pack_iter_bits l [] ltac:(cbn [length]; lia)) as [pad Hpad].
  change (bits_val []) with 0 in Hpad. cbn [length app] in Hpad.
  apply (bool_decode_ok _ l _ pad); assumption.
Qed.

Example bool_roundtrip_iter_ex :
  let l := [true; false; true; true; false; false; true; false; true; true] in
  N.of_nat (length l) < two64 /\
  bool_encode_iter l = [16; 10; 178; 192] /\
  bool_decode_iter (bool_encode_iter l) = Some l /\
  bool_encode_iter [] = [16; 0; 0] /\ bool_decode_iter (bool_encode_iter []) = Some [].
Proof. cbv zeta. split; [reflexivity|]. repeat split; vm_compute; reflexivity. Qed.
