(* C13/S8bProofs.v — simple8b: every encoder variant (jwilder EncodeAll, jwilder streaming
   Encoder, pkg EncodeAll) followed by the matching decoder gives the input back, for every
   list of values below 2^60, of any length.  The facts about the regenerated tables
   (every cascade entry agrees with the selector table used by the decoder, n*bits <= 60,
   the (1,60) fallback exists) are re-checked by computation on each run. *)
From Verif Require Import Lib.Bytes Lib.Varint C13.Simple8b.
From VerifGen Require Import Consts.
From Coq Require Import ZifyBool ZifyNat ZifyN NArithRing.
Open Scope N_scope.

(* ---------- pack / unpack ---------- *)

Lemma pow_mod_add x y b : x < 2 ^ b -> (x + 2 ^ b * y) mod 2 ^ b = x.
Proof.
  intros H. rewrite (N.mul_comm (2 ^ b) y), N.mod_add by (apply N.pow_nonzero; lia).
  apply N.mod_small; exact H.
Qed.

Lemma pow_div_add x y b : x < 2 ^ b -> (x + 2 ^ b * y) / 2 ^ b = y.
Proof.
  intros H. rewrite (N.mul_comm (2 ^ b) y), N.div_add by (apply N.pow_nonzero; lia).
  rewrite N.div_small by exact H. lia.
Qed.

Lemma unpack_pack bits : forall l c, Forall (fun v => v < 2 ^ bits) l ->
  unpack_vals (length l) bits (pack_vals bits l + 2 ^ (N.of_nat (length l) * bits) * c) = l.
Proof.
  induction l as [|x r IH]; intros c H; [reflexivity|].
  inversion H as [|? ? Hx Hr]; subst.
  cbn [length unpack_vals pack_vals].
  replace (x + 2 ^ bits * pack_vals bits r + 2 ^ (N.of_nat (S (length r)) * bits) * c)
    with (x + 2 ^ bits * (pack_vals bits r + 2 ^ (N.of_nat (length r) * bits) * c)).
  2:{ replace (N.of_nat (S (length r)) * bits) with (bits + N.of_nat (length r) * bits) by lia.
      rewrite N.pow_add_r. ring. }
  rewrite pow_mod_add, pow_div_add by assumption. f_equal. apply IH; assumption.
Qed.

Lemma pack_bound bits : forall l, Forall (fun v => v < 2 ^ bits) l ->
  pack_vals bits l < 2 ^ (N.of_nat (length l) * bits).
Proof.
  induction l as [|x r IH]; intros H; cbn [length pack_vals].
  - cbn. lia.
  - inversion H as [|? ? Hx Hr]; subst. specialize (IH Hr).
    replace (N.of_nat (S (length r)) * bits) with (bits + N.of_nat (length r) * bits) by lia.
    rewrite N.pow_add_r.
    set (a := 2 ^ bits) in *. set (p := 2 ^ (N.of_nat (length r) * bits)) in *.
    assert (pack_vals bits r + 1 <= p) by lia.
    assert (a * (pack_vals bits r + 1) <= a * p) by (apply N.mul_le_mono_l; assumption).
    lia.
Qed.

(* ---------- one word ---------- *)

Lemma two60_pow : two60 = 2 ^ 60.
Proof. reflexivity. Qed.

Lemma sel_div sel p : p < two60 -> (sel * two60 + p) / two60 = sel.
Proof.
  intros H. rewrite N.add_comm, N.div_add by (unfold two60; lia).
  rewrite N.div_small by exact H. lia.
Qed.

Lemma decode_word_packed table sel n bits l :
  nth_error table (N.to_nat sel) = Some (n, bits) -> bits <> 0 -> N.of_nat n * bits <= 60 ->
  length l = n -> Forall (fun v => v < 2 ^ bits) l ->
  decode_word table (sel * two60 + pack_vals bits l) = Some l.
Proof.
  intros Hnth Hb Hnb Hlen Hl. unfold decode_word.
  pose proof (pack_bound bits l Hl) as Hp. rewrite Hlen in Hp.
  assert (Hle : 2 ^ (N.of_nat n * bits) <= 2 ^ 60) by (apply N.pow_le_mono_r; lia).
  rewrite sel_div by (rewrite two60_pow; lia).
  rewrite Hnth. destruct (N.eqb_spec bits 0) as [?|_]; [contradiction|].
  f_equal. rewrite <- Hlen.
  replace (sel * two60 + pack_vals bits l)
    with (pack_vals bits l + 2 ^ (N.of_nat (length l) * bits) * (2 ^ (60 - N.of_nat n * bits) * sel)).
  - apply unpack_pack; assumption.
  - rewrite Hlen, N.mul_assoc, <- N.pow_add_r.
    replace (N.of_nat n * bits + (60 - N.of_nat n * bits)) with 60 by lia.
    rewrite two60_pow. ring.
Qed.

Lemma decode_word_ones table sel n :
  nth_error table (N.to_nat sel) = Some (n, 0) ->
  decode_word table (sel * two60) = Some (repeat 1 n).
Proof.
  intros Hnth. unfold decode_word.
  replace (sel * two60) with (sel * two60 + 0) by lia.
  rewrite sel_div by (unfold two60; lia). rewrite Hnth. reflexivity.
Qed.

Lemma all_ones_firstn : forall n src, forallb (N.eqb 1) src = true -> (n <= length src)%nat ->
  firstn n src = repeat 1 n.
Proof.
  induction n as [|n IH]; intros src H Hn; [reflexivity|].
  destruct src as [|x r]; [cbn in Hn; lia|].
  cbn [forallb] in H. apply andb_true_iff in H. destruct H as [Hx Hr].
  apply N.eqb_eq in Hx. subst x. cbn [firstn repeat]. f_equal. apply IH; [assumption|cbn in Hn; lia].
Qed.

(* ---------- what a step must deliver ---------- *)

Definition sound_result (table : list (nat * N)) (src : list N) (w : N) (n : nat) : Prop :=
  (0 < n)%nat /\ (n <= length src)%nat /\ w < two64 /\ decode_word table w = Some (firstn n src).

Lemma sound_intro table src w n :
  (0 < n)%nat -> (n <= length src)%nat -> w < two64 ->
  decode_word table w = Some (firstn n src) -> sound_result table src w n.
Proof. unfold sound_result; auto. Qed.

Definition step_sound (table : list (nat * N)) (step : list N -> option (N * nat)) : Prop :=
  forall src w n, step src = Some (w, n) -> sound_result table src w n.

Definition step_total (step : list N -> option (N * nat)) : Prop :=
  forall src, src <> [] -> Forall (fun v => v < two60) src -> exists w n, step src = Some (w, n).

(* a cascade entry agrees with the decoder's table *)
Definition entry_ok (table : list (nat * N)) (e : N * (nat * N)) : Prop :=
  nth_error table (N.to_nat (fst e)) = Some (snd e) /\ (0 < fst (snd e))%nat /\
  N.of_nat (fst (snd e)) * snd (snd e) <= 60 /\ fst e < 16.

Definition entry_okb (table : list (nat * N)) (e : N * (nat * N)) : bool :=
  match nth_error table (N.to_nat (fst e)) with
  | Some (n', b') => Nat.eqb (fst (snd e)) n' && N.eqb (snd (snd e)) b'
  | None => false
  end && (0 <? fst (snd e))%nat && (N.of_nat (fst (snd e)) * snd (snd e) <=? 60) && (fst e <? 16).

Lemma entry_okb_ok table e : entry_okb table e = true -> entry_ok table e.
Proof.
  unfold entry_okb, entry_ok. destruct e as [sel [n bits]]; cbn [fst snd].
  destruct (nth_error table (N.to_nat sel)) as [[n' b']|]; [|discriminate].
  intros H. repeat (apply andb_true_iff in H; destruct H as [H ?]).
  apply Nat.eqb_eq in H. apply N.eqb_eq in H3. subst. repeat split; lia.
Qed.

Lemma forallb_entry_ok table chain :
  forallb (entry_okb table) chain = true -> Forall (entry_ok table) chain.
Proof.
  induction chain as [|e r IH]; intros H; [constructor|].
  cbn [forallb] in H. apply andb_true_iff in H. destruct H as [He Hr].
  constructor; [apply entry_okb_ok; assumption | apply IH; assumption].
Qed.

Lemma word_lt sel p : sel < 16 -> p < two60 -> sel * two60 + p < two64.
Proof. unfold two60, two64. intros. lia. Qed.

Lemma firstn_forall {A} (P : A -> Prop) : forall n l, Forall P l -> Forall P (firstn n l).
Proof.
  induction n as [|n IH]; intros l H; [constructor|].
  destruct l as [|x r]; [constructor|]. inversion H; subst. cbn. constructor; auto.
Qed.

Lemma skipn_forall {A} (P : A -> Prop) : forall n l, Forall P l -> Forall P (skipn n l).
Proof.
  induction n as [|n IH]; intros l H; [exact H|].
  destruct l as [|x r]; [constructor|]. inversion H; subst. cbn. auto.
Qed.

Lemma can_pack_spec n bits src : can_pack n bits src = true ->
  (n <= length src)%nat /\ Forall (fun v => v < 2 ^ bits) (firstn n src).
Proof.
  unfold can_pack. intros H. apply andb_true_iff in H. destruct H as [Hn Hf].
  split; [apply Nat.leb_le; exact Hn|].
  apply Forall_forall. intros v Hv. rewrite forallb_forall in Hf. apply Hf in Hv.
  apply N.ltb_lt. exact Hv.
Qed.

Lemma packed_sound table sel n bits src :
  entry_ok table (sel, (n, bits)) -> bits <> 0 -> can_pack n bits src = true ->
  sound_result table src (sel * two60 + pack_vals bits (firstn n src)) n.
Proof.
  intros [Hnth [Hn [Hnb Hsel]]] Hb Hc. cbn [fst snd] in *.
  apply can_pack_spec in Hc. destruct Hc as [Hlen Hall].
  assert (Hfl : length (firstn n src) = n) by (apply firstn_length_le; exact Hlen).
  apply sound_intro; try assumption.
  - apply word_lt; [assumption|].
    pose proof (pack_bound bits _ Hall) as Hp. rewrite Hfl in Hp.
    assert (2 ^ (N.of_nat n * bits) <= 2 ^ 60) by (apply N.pow_le_mono_r; lia).
    rewrite two60_pow. lia.
  - apply decode_word_packed with (n := n); assumption.
Qed.

(* ---------- the jwilder cascade ---------- *)

Lemma jw_step_chain_sound table : forall chain, Forall (entry_ok table) chain ->
  forall src w n, jw_step_chain chain src = Some (w, n) -> sound_result table src w n.
Proof.
  induction chain as [|[sel [m bits]] rest IH]; intros Hok src w n H; [discriminate|].
  inversion Hok as [|? ? He Hr]; subst. cbn [jw_step_chain] in H.
  destruct (N.eqb_spec bits 0) as [Hb|Hb].
  - subst bits. destruct (can_pack_ones_jw m src) eqn:Hc; [|eapply IH; eassumption].
    inversion H; subst; clear H.
    unfold can_pack_ones_jw in Hc. apply andb_true_iff in Hc. destruct Hc as [Hlen Hones].
    apply Nat.leb_le in Hlen.
    destruct He as [Hnth [Hn [_ Hsel]]]. cbn [fst snd] in *.
    apply sound_intro; try assumption.
    + replace (sel * two60) with (sel * two60 + 0) by lia. apply word_lt; [assumption|unfold two60; lia].
    + rewrite (all_ones_firstn n src Hones Hlen). apply decode_word_ones. exact Hnth.
  - destruct (can_pack m bits src) eqn:Hc; [|eapply IH; eassumption].
    inversion H; subst; clear H. apply packed_sound; assumption.
Qed.

Definition is_last (e : N * (nat * N)) : bool := Nat.eqb (fst (snd e)) 1 && N.eqb (snd (snd e)) 60.

Lemma can_pack_1_60 src : src <> [] -> Forall (fun v => v < two60) src -> can_pack 1 60 src = true.
Proof.
  intros Hne H. destruct src as [|x r]; [contradiction|]. inversion H; subst.
  unfold can_pack. cbn [length firstn forallb]. rewrite andb_true_r.
  apply andb_true_iff; split; [reflexivity|]. apply N.ltb_lt. rewrite <- two60_pow. assumption.
Qed.

Lemma jw_step_chain_total : forall chain, existsb is_last chain = true ->
  forall src, src <> [] -> Forall (fun v => v < two60) src ->
  exists w n, jw_step_chain chain src = Some (w, n).
Proof.
  induction chain as [|[sel [m bits]] rest IH]; intros Hex src Hne Hall; [discriminate|].
  cbn [existsb] in Hex. cbn [jw_step_chain].
  destruct (is_last (sel, (m, bits))) eqn:Hl.
  - unfold is_last in Hl; cbn [fst snd] in Hl. apply andb_true_iff in Hl. destruct Hl as [Hm Hb].
    apply Nat.eqb_eq in Hm. apply N.eqb_eq in Hb. subst.
    cbn [N.eqb]. rewrite (can_pack_1_60 src Hne Hall). eauto.
  - cbn [orb] in Hex. destruct (bits =? 0).
    + destruct (can_pack_ones_jw m src); [eauto|apply IH; assumption].
    + destruct (can_pack m bits src); [eauto|apply IH; assumption].
Qed.

(* the same for the plain cascade used by pkg EncodeAll (no zero-bit entries) *)
Lemma chain_step_sound table : forall chain,
  Forall (fun e => entry_ok table e /\ snd (snd e) <> 0) chain ->
  forall src w n, chain_step chain src = Some (w, n) -> sound_result table src w n.
Proof.
  induction chain as [|[sel [m bits]] rest IH]; intros Hok src w n H; [discriminate|].
  inversion Hok as [|? ? [He Hb] Hr]; subst. cbn [chain_step] in H. cbn [snd] in Hb.
  destruct (can_pack m bits src) eqn:Hc; [|eapply IH; eassumption].
  inversion H; subst; clear H. apply packed_sound; assumption.
Qed.

Lemma chain_step_total : forall chain, existsb is_last chain = true ->
  forall src, src <> [] -> Forall (fun v => v < two60) src ->
  exists w n, chain_step chain src = Some (w, n).
Proof.
  induction chain as [|[sel [m bits]] rest IH]; intros Hex src Hne Hall; [discriminate|].
  cbn [existsb] in Hex. cbn [chain_step].
  destruct (is_last (sel, (m, bits))) eqn:Hl.
  - unfold is_last in Hl; cbn [fst snd] in Hl. apply andb_true_iff in Hl. destruct Hl as [Hm Hb].
    apply Nat.eqb_eq in Hm. apply N.eqb_eq in Hb. subst.
    rewrite (can_pack_1_60 src Hne Hall). eauto.
  - cbn [orb] in Hex. destruct (can_pack m bits src); [eauto|apply IH; assumption].
Qed.

(* ---------- facts about the regenerated tables (re-checked by computation) ---------- *)

Lemma jw_encode_chain_ok :
  forallb (entry_okb c13_jw_selector) (number_from 0 c13_jw_encode_chain) = true /\
  existsb is_last (number_from 0 c13_jw_encode_chain) = true.
Proof. split; vm_compute; reflexivity. Qed.

Lemma jw_encodeall_chain_ok :
  forallb (entry_okb c13_jw_selector) (number_from 0 c13_jw_encodeall_chain) = true /\
  existsb is_last (number_from 0 c13_jw_encodeall_chain) = true.
Proof. split; vm_compute; reflexivity. Qed.

Lemma pkg_numbits_ok :
  forallb (fun e => entry_okb c13_pkg_selector e && negb (snd (snd e) =? 0))
          (number_from 2 c13_pkg_numbits) = true /\
  existsb is_last (number_from 2 c13_pkg_numbits) = true /\
  nth_error c13_pkg_selector 0 = Some (240%nat, 0) /\
  nth_error c13_pkg_selector 1 = Some (120%nat, 0).
Proof. repeat split; vm_compute; reflexivity. Qed.

Lemma max_values_are_2_60_minus_1 :
  c13_jw_max_value = two60 - 1 /\ c13_pkg_max_value = two60 - 1.
Proof. split; reflexivity. Qed.

Lemma jw_encode_step_sound : step_sound c13_jw_selector jw_encode_step.
Proof.
  intros src w n H. eapply jw_step_chain_sound; [|exact H].
  apply forallb_entry_ok. apply jw_encode_chain_ok.
Qed.

Lemma jw_encode_step_total : step_total jw_encode_step.
Proof. intros src Hne H. apply jw_step_chain_total; [apply jw_encode_chain_ok|assumption|assumption]. Qed.

Lemma jw_encodeall_step_sound : step_sound c13_jw_selector jw_encodeall_step.
Proof.
  intros src w n H. eapply jw_step_chain_sound; [|exact H].
  apply forallb_entry_ok. apply jw_encodeall_chain_ok.
Qed.

Lemma jw_encodeall_step_total : step_total jw_encodeall_step.
Proof. intros src Hne H. apply jw_step_chain_total; [apply jw_encodeall_chain_ok|assumption|assumption]. Qed.

(* pkg: the run-of-ones prelude *)
Lemma leading_ones_firstn : forall k l, (k <= leading_ones l)%nat -> firstn k l = repeat 1 k /\ (k <= length l)%nat.
Proof.
  induction k as [|k IH]; intros l H; [split; [reflexivity|lia]|].
  destruct l as [|x r]; [cbn in H; lia|]. cbn [leading_ones] in H.
  destruct (N.eqb_spec x 1) as [->|?]; [|lia].
  destruct (IH r ltac:(lia)) as [E L]. cbn [firstn repeat length]. rewrite E. split; [reflexivity|lia].
Qed.

Lemma leading_ones_le : forall l, (leading_ones l <= length l)%nat.
Proof. induction l as [|x r IH]; cbn; [lia|]. destruct (x =? 1); cbn; lia. Qed.

Lemma pkg_step_sound : step_sound c13_pkg_selector pkg_step.
Proof.
  destruct pkg_numbits_ok as [Hchain [_ [H0 H1]]].
  assert (Hcodes : forall src w n, chain_step (number_from 2 c13_pkg_numbits) src = Some (w, n) ->
                                   sound_result c13_pkg_selector src w n).
  { apply chain_step_sound. apply Forall_forall. intros e He.
    rewrite forallb_forall in Hchain. apply Hchain in He. apply andb_true_iff in He.
    destruct He as [Ha Hb]. split; [apply entry_okb_ok; assumption|].
    apply negb_true_iff in Hb. apply N.eqb_neq in Hb. exact Hb. }
  intros src w n H. unfold pkg_step in H.
  destruct (120 <=? length src)%nat eqn:H120; [|apply Hcodes; exact H].
  apply Nat.leb_le in H120.
  set (a := firstn (if (240 <=? length src)%nat then 240 else 120) src) in H.
  destruct (Nat.eqb_spec (leading_ones a) 240) as [Hk|Hk].
  - inversion H; subst w n; clear H.
    destruct (leading_ones_firstn 240 a ltac:(lia)) as [E L].
    assert (Hlen : (240 <= length src)%nat).
    { subst a. rewrite firstn_length in L. lia. }
    assert (Ea : firstn 240 src = repeat 1 240).
    { subst a. apply Nat.leb_le in Hlen. rewrite Hlen in E. rewrite firstn_firstn in E.
      exact E. }
    apply sound_intro; [lia|lia|unfold two64; lia|].
    rewrite Ea. apply (decode_word_ones c13_pkg_selector 0 240). exact H0.
  - destruct (120 <=? leading_ones a)%nat eqn:Hge; [|apply Hcodes; exact H].
    apply Nat.leb_le in Hge. inversion H; subst w n; clear H.
    destruct (leading_ones_firstn 120 a Hge) as [E L].
    assert (Ea : firstn 120 src = repeat 1 120).
    { subst a. rewrite firstn_firstn in E.
      destruct (240 <=? length src)%nat; exact E. }
    apply sound_intro; [lia|lia|unfold two60, two64; lia|].
    rewrite Ea. replace two60 with (1 * two60) by lia.
    apply (decode_word_ones c13_pkg_selector 1 120). exact H1.
Qed.

Lemma pkg_step_total : step_total pkg_step.
Proof.
  destruct pkg_numbits_ok as [_ [Hlast _]].
  intros src Hne Hall. unfold pkg_step.
  pose proof (chain_step_total _ Hlast src Hne Hall) as Hc.
  destruct (120 <=? length src)%nat; [|exact Hc].
  destruct (leading_ones _ =? 240)%nat; [eauto|].
  destruct (120 <=? leading_ones _)%nat; [eauto|exact Hc].
Qed.

(* ---------- the loop ---------- *)

Lemma encode_loop_ok table step : step_sound table step -> step_total step ->
  forall fuel src, (length src <= fuel)%nat -> Forall (fun v => v < two60) src ->
  exists ws, encode_loop step fuel src = Some ws /\ decode_words table ws = Some src /\
             Forall (fun w => w < two64) ws.
Proof.
  intros Hs Ht. induction fuel as [|f IH]; intros src Hlen Hall.
  - destruct src; [|cbn in Hlen; lia]. exists []. repeat split; constructor.
  - destruct src as [|x r]; [exists []; repeat split; constructor|].
    cbn [encode_loop].
    destruct (Ht (x :: r) ltac:(discriminate) Hall) as [w [n Hstep]]. rewrite Hstep.
    destruct (Hs _ _ _ Hstep) as [Hn [Hnl [Hw Hd]]].
    assert (Hlen' : (length (skipn n (x :: r)) <= f)%nat).
    { rewrite skipn_length. cbn [length] in *. lia. }
    destruct (IH (skipn n (x :: r)) Hlen' (skipn_forall _ n _ Hall)) as [ws [He [Hdw Hws]]].
    rewrite He. exists (w :: ws). repeat split.
    + cbn [decode_words]. rewrite Hd, Hdw. rewrite firstn_skipn. reflexivity.
    + constructor; assumption.
Qed.

Lemma jw_encode_all_roundtrip vs : Forall (fun v => v < two60) vs ->
  exists ws, jw_encode_all vs = Some ws /\ decode_words c13_jw_selector ws = Some vs /\
             Forall (fun w => w < two64) ws.
Proof.
  intros H. unfold jw_encode_all.
  apply (encode_loop_ok _ _ jw_encodeall_step_sound jw_encodeall_step_total); [lia|exact H].
Qed.

Lemma pkg_encode_all_roundtrip vs : Forall (fun v => v < two60) vs ->
  exists ws, pkg_encode_all vs = Some ws /\ decode_words c13_pkg_selector ws = Some vs /\
             Forall (fun w => w < two64) ws.
Proof.
  intros H. unfold pkg_encode_all.
  apply (encode_loop_ok _ _ pkg_step_sound pkg_step_total); [lia|exact H].
Qed.

(* the streaming encoder: the words emitted so far decode to a prefix; the window holds the rest *)
Lemma jw_stream_ok : forall vals win,
  Forall (fun v => v < two60) vals -> Forall (fun v => v < two60) win ->
  exists ws, jw_stream vals win = Some ws /\ decode_words c13_jw_selector ws = Some (win ++ vals) /\
             Forall (fun w => w < two64) ws.
Proof.
  induction vals as [|v r IH]; intros win Hv Hw.
  - cbn [jw_stream]. rewrite app_nil_r.
    apply (encode_loop_ok _ _ jw_encode_step_sound jw_encode_step_total); [lia|exact Hw].
  - inversion Hv as [|? ? Hv0 Hr]; subst. cbn [jw_stream].
    destruct (240 <=? length win)%nat eqn:Hfull.
    + apply Nat.leb_le in Hfull.
      assert (Hne : win <> []) by (destruct win; [cbn in Hfull; lia|discriminate]).
      destruct (jw_encode_step_total win Hne Hw) as [w [n Hstep]]. rewrite Hstep.
      destruct (jw_encode_step_sound _ _ _ Hstep) as [Hn [Hnl [Hwb Hd]]].
      assert (Hw' : Forall (fun v => v < two60) (skipn n win ++ [v])).
      { apply Forall_app; split; [apply skipn_forall; exact Hw|constructor; [exact Hv0|constructor]]. }
      destruct (IH (skipn n win ++ [v]) Hr Hw') as [ws [He [Hdw Hws]]].
      rewrite He. exists (w :: ws). repeat split.
      * cbn [decode_words]. rewrite Hd, Hdw. f_equal.
        rewrite <- app_assoc. cbn [app]. rewrite app_assoc, firstn_skipn. reflexivity.
      * constructor; assumption.
    + assert (Hw' : Forall (fun v => v < two60) (win ++ [v])).
      { apply Forall_app; split; [exact Hw|constructor; [exact Hv0|constructor]]. }
      destruct (IH (win ++ [v]) Hr Hw') as [ws [He [Hdw Hws]]].
      exists ws. repeat split; try assumption.
      rewrite Hdw. rewrite <- app_assoc. reflexivity.
Qed.

Lemma jw_encode_stream_roundtrip vs : Forall (fun v => v < two60) vs ->
  exists ws, jw_encode_stream vs = Some ws /\ decode_words c13_jw_selector ws = Some vs /\
             Forall (fun w => w < two64) ws.
Proof. intros H. apply (jw_stream_ok vs [] H). constructor. Qed.

(* ---------- bytes ---------- *)

Lemma be_enc8_shape w : exists b0 b1 b2 b3 b4 b5 b6 b7, be_enc 8 w = [b0; b1; b2; b3; b4; b5; b6; b7].
Proof. cbn [be_enc]. repeat eexists. Qed.

Lemma bytes_to_words_app : forall ws tail, Forall (fun w => w < two64) ws -> (length tail < 8)%nat ->
  bytes_to_words (words_to_bytes ws ++ tail) = (ws, tail).
Proof.
  induction ws as [|w r IH]; intros tail Hws Ht.
  - cbn [words_to_bytes flat_map app].
    do 8 (destruct tail as [|? tail]; [reflexivity|]). cbn [length] in Ht. lia.
  - inversion Hws as [|? ? Hw Hr]; subst.
    unfold words_to_bytes in *. cbn [flat_map]. rewrite <- app_assoc.
    destruct (be_enc8_shape w) as [b0 [b1 [b2 [b3 [b4 [b5 [b6 [b7 E]]]]]]]].
    rewrite E. cbn [app bytes_to_words]. rewrite (IH tail Hr Ht).
    rewrite <- E. rewrite be_dec_enc by (rewrite <- two64_pow; exact Hw). reflexivity.
Qed.

Lemma jw_decode_bytes_words ws tail : Forall (fun w => w < two64) ws -> (length tail < 8)%nat ->
  jw_decode_bytes (words_to_bytes ws ++ tail) = decode_words c13_jw_selector ws.
Proof. intros H Ht. unfold jw_decode_bytes. rewrite bytes_to_words_app by assumption. reflexivity. Qed.

Lemma pkg_decode_bytes_words ws : Forall (fun w => w < two64) ws ->
  pkg_decode_bytes (words_to_bytes ws) = decode_words c13_pkg_selector ws.
Proof.
  intros H. unfold pkg_decode_bytes.
  rewrite <- (app_nil_r (words_to_bytes ws)).
  rewrite bytes_to_words_app by (try assumption; cbn; lia). reflexivity.
Qed.

(* both selector tables are the same table, so either decoder reads either encoder's words *)
Lemma selector_tables_equal : c13_jw_selector = c13_pkg_selector.
Proof. reflexivity. Qed.
