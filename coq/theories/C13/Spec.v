(* C13/Spec.v — the executable specification side of C13: decidable equalities, the domain
   of the property (which sequences / WAL entries the statement quantifies over) and the
   map-equivalence of WriteWALEntry contents.  Small enough to read in minutes; contains no
   encoder or decoder.  Used by Run.v (spec_ok) and by the theorems' hypotheses. *)
From Verif Require Export Lib.Bytes Lib.Varint C13.Model.
Open Scope N_scope.

Fixpoint list_eqb {A} (eqb : A -> A -> bool) (a b : list A) : bool :=
  match a, b with
  | [], [] => true
  | x :: a', y :: b' => eqb x y && list_eqb eqb a' b'
  | _, _ => false
  end.

Definition bytes_eqb := list_eqb N.eqb.

(* compact notation used by the harness for long byte strings: full 8-byte big-endian
   words followed by the 0..7 remaining bytes *)
Definition pb (full : list N) (tail : bytes) : bytes := flat_map (be_enc 8) full ++ tail.

(* compact notation for long value lists: first value and wrapped deltas *)
Definition cum (first : N) (ds : list N) : list N := first :: prefix_sums first ds.
Definition opt_eqb {A} (eqb : A -> A -> bool) (a b : option A) : bool :=
  match a, b with
  | Some x, Some y => eqb x y
  | None, None => true
  | _, _ => false
  end.

(* ---------- WAL helpers ---------- *)

Definition pair_eqb {A B} (ea : A -> A -> bool) (eb : B -> B -> bool) (x y : A * B) : bool :=
  ea (fst x) (fst y) && eb (snd x) (snd y).

Definition wvalues_eqb (a b : wvalues) : bool :=
  match a, b with
  | VFloat x, VFloat y | VInt x, VInt y | VUnsigned x, VUnsigned y => list_eqb (pair_eqb N.eqb N.eqb) x y
  | VBool x, VBool y => list_eqb (pair_eqb N.eqb Bool.eqb) x y
  | VString x, VString y => list_eqb (pair_eqb N.eqb bytes_eqb) x y
  | _, _ => false
  end.

(* map semantics of WriteWALEntry.Values: the last binding of a key wins *)
Fixpoint lookup_last (k : bytes) (l : list (bytes * wvalues)) : option wvalues :=
  match l with
  | [] => None
  | (k', v) :: r => match lookup_last k r with
                    | Some v' => Some v'
                    | None => if bytes_eqb k k' then Some v else None
                    end
  end.

Definition kvs_equiv (a b : list (bytes * wvalues)) : bool :=
  forallb (fun kv => opt_eqb wvalues_eqb (lookup_last (fst kv) b) (lookup_last (fst kv) a)) a &&
  forallb (fun kv => opt_eqb wvalues_eqb (lookup_last (fst kv) a) (lookup_last (fst kv) b)) b.

Definition entry_equiv (a b : wal_entry) : bool :=
  match a, b with
  | EWrite x, EWrite y => kvs_equiv x y
  | EDelete x, EDelete y => list_eqb bytes_eqb x y
  | EDeleteRange m1 x1 k1, EDeleteRange m2 x2 k2 => N.eqb m1 m2 && N.eqb x1 x2 && list_eqb bytes_eqb k1 k2
  | _, _ => false
  end.

(* the domain of the property for WAL entries (what the WAL API and the parser can
   produce): no empty value slice, keys shorter than 2^16 and distinct, no delete without
   keys; DeleteWALEntry (legacy "\n"-joined format, no longer written by the engine) cannot
   carry a key containing '\n' nor a single empty key. *)
Fixpoint distinct_keys (l : list (bytes * wvalues)) : bool :=
  match l with
  | [] => true
  | (k, _) :: r => negb (existsb (fun kv => bytes_eqb k (fst kv)) r) && distinct_keys r
  end.

Definition entry_valid (e : wal_entry) : bool :=
  match e with
  | EWrite kvs =>
      forallb (fun kv => (N.of_nat (length (fst kv)) <? 65536) && negb (Nat.eqb (wvalues_len (snd kv)) 0)) kvs
      && distinct_keys kvs
  | EDelete keys =>
      negb (is_nil keys) && forallb (fun k => negb (existsb (N.eqb 10) k) && negb (is_nil k)) keys
  | EDeleteRange _ _ _ => true
  end.


(* representability in the Go types: uint64/int64/float64 payloads, uint32 counts and string
   lengths (WriteWALEntry.Encode writes uint32(len(..))) *)
Definition u64 (v : N) : bool := v <? two64.
Definition two32 : N := 4294967296.

Definition wvalues_repr (v : wvalues) : bool :=
  (N.of_nat (wvalues_len v) <? two32) &&
  match v with
  | VFloat l | VInt l | VUnsigned l => forallb (fun tv => u64 (fst tv) && u64 (snd tv)) l
  | VBool l => forallb (fun tv => u64 (fst tv)) l
  | VString l => forallb (fun tv => u64 (fst tv) && (N.of_nat (length (snd tv)) <? two32)) l
  end.

Definition entry_repr (e : wal_entry) : bool :=
  match e with
  | EWrite kvs => forallb (fun kv => wvalues_repr (snd kv)) kvs
  | EDelete _ => true
  | EDeleteRange mn mx keys => u64 mn && u64 mx && forallb (fun k => N.of_nat (length k) <? two32) keys
  end.
