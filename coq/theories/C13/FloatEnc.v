(* C13/FloatEnc.v — executable model of the tsm1 float codecs (Gorilla XOR).
     float.go        FloatEncoder (Write/Flush/Bytes over go-bitstream), FloatDecoder
     batch_float.go  FloatArrayEncodeAll / FloatArrayDecodeAll
   float64 values are carried as their IEEE bit pattern (N < 2^64).  The bit stream is the
   obvious MSB-first [list bool]; go-bitstream's BitWriter, tsm1.BitReader and the cached
   reader of FloatArrayDecodeAll are abstracted to "append bits" / "read n bits, error when
   fewer remain" (validated byte-exactly by the correspondence; truncated float streams are
   outside this model: the real readers zero-pad a short final read).  Definitions only. *)
From Verif Require Export Lib.Bytes Lib.Varint C13.IntEnc C13.BoolEnc.
From VerifGen Require Import Consts.
Open Scope N_scope.

(* the n low bits of v, most significant first (bitstream WriteBits(v, n)) *)
Fixpoint bits_of (n : nat) (v : N) : list bool :=
  match n with
  | O => []
  | S k => N.testbit v (N.of_nat k) :: bits_of k v
  end.

(* bits.LeadingZeros64 / bits.TrailingZeros64 for v <> 0, v < 2^64 *)
Definition lz64 (v : N) : N := 64 - N.size v.
Fixpoint tz_fuel (f : nat) (v : N) : N :=
  match f with
  | O => 0
  | S f' => if N.even v then 1 + tz_fuel f' (v / 2) else 0
  end.
Definition tz64 (v : N) : N := tz_fuel 64 v.

Definition is_nan (v : N) : bool := 9218868437227405312 <? v mod two63.   (* exp = 7FF, frac <> 0 *)
Definition pos_inf : N := 9218868437227405312.
Definition neg_inf : N := 18442240474082181120.

(* one Write after the first value.  lead = None is the ^uint64(0) sentinel.
   "leading &= 0x1F; if leading >= 32 {..}" : the clamp is dead code after the mask. *)
Definition float_write (prev : N) (lead : option N) (trail : N) (cur : N)
  : list bool * (option N * N) :=
  let vd := N.lxor cur prev in
  if vd =? 0 then ([false], (lead, trail))
  else
    let l := lz64 vd mod 32 in
    let t := tz64 vd in
    let fresh := (true :: true :: bits_of 5 l ++ bits_of 6 (64 - l - t)
                    ++ bits_of (N.to_nat (64 - l - t)) (N.shiftr vd t), (Some l, t)) in
    match lead with
    | Some L =>
        if (L <=? l) && (trail <=? t)
        then (true :: false :: bits_of (N.to_nat (64 - L - trail)) (N.shiftr vd trail), (lead, trail))
        else fresh
    | None => fresh
    end.

(* remaining values, then the NaN sentinel written by Flush *)
Fixpoint float_bits (vals : list N) (prev : N) (lead : option N) (trail : N) : list bool :=
  match vals with
  | [] => fst (float_write prev lead trail c13_uvnan)
  | v :: r => let (bs, st) := float_write prev lead trail v in
              bs ++ float_bits r v (fst st) (snd st)
  end.

Definition float_stream (vals : list N) : list bool :=
  match vals with
  | [] => bits_of 64 c13_uvnan
  | v0 :: r => bits_of 64 v0 ++ float_bits r v0 None 0
  end.

(* FloatEncoder: Write* ; Flush ; Bytes.  NaN input -> error. *)
Definition float_encode_iter (vals : list N) : option bytes :=
  if existsb is_nan vals then None
  else Some (hdr c13_floatCompressedGorilla 0 :: bits_to_bytes (float_stream vals)).

(* FloatArrayEncodeAll rejects NaN through "sum += x; IsNaN(sum)": besides NaN inputs this
   also fires when +Inf and -Inf both occur after the first value (finite overflow of the
   running sum is not modelled; the parser admits neither Inf nor NaN). *)
Definition float_encode_batch (vals : list N) : option bytes :=
  if existsb is_nan vals
     || (existsb (N.eqb pos_inf) (tl vals) && existsb (N.eqb neg_inf) (tl vals)) then None
  else Some (hdr c13_floatCompressedGorilla 0 :: bits_to_bytes (float_stream vals)).

(* ---------- decoder on the bit list ---------- *)

Fixpoint read_bits (n : nat) (bs : list bool) (acc : N) : option (N * list bool) :=
  match n with
  | O => Some (acc, bs)
  | S k => match bs with
           | [] => None
           | b :: r => read_bits k r (2 * acc + N.b2n b)
           end
  end.

(* one Next() after the first: Some (None, ..) = sentinel reached *)
Definition float_next (bs : list bool) (val lead trail : N)
  : option (option N * list bool * N * N) :=
  match bs with
  | [] => None
  | false :: r => Some (Some val, r, lead, trail)
  | true :: r =>
      match r with
      | [] => None
      | c :: r2 =>
          let hdr_read :=
            if c then
              match read_bits 5 r2 0 with
              | None => None
              | Some (l, r3) =>
                  match read_bits 6 r3 0 with
                  | None => None
                  | Some (m, r4) => let m' := if m =? 0 then 64 else m in
                                    Some (l, 64 - l - m', r4)
                  end
              end
            else Some (lead, trail, r2) in
          match hdr_read with
          | None => None
          | Some (l, t, r5) =>
              match read_bits (N.to_nat (64 - l - t)) r5 0 with
              | None => None
              | Some (sb, r6) =>
                  let v := N.lxor val (N.shiftl sb t) in
                  if v =? c13_uvnan then Some (None, r6, l, t) else Some (Some v, r6, l, t)
              end
          end
      end
  end.

Fixpoint float_dec_loop (fuel : nat) (bs : list bool) (val lead trail : N) : option (list N) :=
  match fuel with
  | O => None
  | S f => match float_next bs val lead trail with
           | None => None
           | Some (None, _, _, _) => Some []
           | Some (Some v, r, l, t) =>
               match float_dec_loop f r v l t with
               | Some vs => Some (v :: vs)
               | None => None
               end
           end
  end.

Definition float_decode_body (body : bytes) : option (list N) :=
  let bs := bytes_to_bits body in
  match read_bits 64 bs 0 with
  | None => None
  | Some (v0, r) =>
      if v0 =? c13_uvnan then Some []
      else match float_dec_loop (S (length r)) r v0 0 0 with
           | Some vs => Some (v0 :: vs)
           | None => None
           end
  end.

(* FloatDecoder: SetBytes, for Next() { Values() }, Error() *)
Definition float_decode_iter (b : bytes) : option (list N) :=
  match b with
  | [] => Some []
  | _ :: body => float_decode_body body
  end.

(* FloatArrayDecodeAll: fewer than 9 bytes = no values, no error *)
Definition float_decode_batch (b : bytes) : option (list N) :=
  if (length b <? 9)%nat then Some []
  else match b with
       | [] => Some []
       | _ :: body => float_decode_body body
       end.
