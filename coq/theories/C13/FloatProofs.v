(* C13/FloatProofs.v — round-trip of the Gorilla XOR float codec model (FloatEnc.v).
   For every sequence of non-NaN float64 bit patterns the iterator encoder succeeds and both
   decoders (FloatDecoder, FloatArrayDecodeAll) return exactly the input; the batch encoder,
   when it succeeds, emits the iterator encoder's bytes; NaN inputs are rejected by both.
   All local helper names are prefixed fl_. *)
From Verif Require Import Lib.Bytes Lib.Varint C13.Model.
From VerifGen Require Import Consts.
From Coq Require Import ZifyBool ZifyNat ZifyN.
Open Scope N_scope.

(* ---------- 1. bit-level library ---------- *)

Lemma fl_two64 : two64 = 2 ^ 64.
Proof. reflexivity. Qed.

Lemma fl_bits_of_length n v : length (bits_of n v) = n.
Proof.
  induction n as [|n IH]; cbn [bits_of length]; [reflexivity|]. rewrite IH. reflexivity.
Qed.

Lemma fl_mod_pow2_succ v k :
  v mod 2 ^ N.succ k = N.b2n (N.testbit v k) * 2 ^ k + v mod 2 ^ k.
Proof.
  assert (Hp : 2 ^ k <> 0) by (apply N.pow_nonzero; lia).
  rewrite N.pow_succ_r', (N.mul_comm 2), N.mod_mul_r by lia.
  rewrite N.testbit_spec'. lia.
Qed.

Lemma fl_read_bits_of n : forall v rest acc,
  read_bits n (bits_of n v ++ rest) acc
  = Some (acc * 2 ^ N.of_nat n + v mod 2 ^ N.of_nat n, rest).
Proof.
  induction n as [|n IH]; intros v rest acc.
  - cbn [bits_of read_bits app N.of_nat]. rewrite N.pow_0_r, N.mod_1_r.
    f_equal. f_equal. lia.
  - cbn [bits_of read_bits app]. rewrite IH.
    replace (N.of_nat (S n)) with (N.succ (N.of_nat n)) by lia.
    rewrite fl_mod_pow2_succ, N.pow_succ_r'. f_equal. f_equal. ring.
Qed.

Lemma fl_readn k y rest :
  read_bits (N.to_nat k) (bits_of (N.to_nat k) y ++ rest) 0 = Some (y mod 2 ^ k, rest).
Proof. rewrite fl_read_bits_of, N2Nat.id. f_equal. Qed.

Lemma fl_read5 l rest : l < 32 -> read_bits 5 (bits_of 5 l ++ rest) 0 = Some (l, rest).
Proof.
  intros Hl. rewrite fl_read_bits_of. change (2 ^ N.of_nat 5) with 32.
  rewrite N.mod_small by assumption. reflexivity.
Qed.

Lemma fl_read6 m rest : read_bits 6 (bits_of 6 m ++ rest) 0 = Some (m mod 64, rest).
Proof. rewrite fl_read_bits_of. change (2 ^ N.of_nat 6) with 64. reflexivity. Qed.

Lemma fl_read64 v rest :
  v < two64 -> read_bits 64 (bits_of 64 v ++ rest) 0 = Some (v, rest).
Proof.
  intros Hv. rewrite fl_read_bits_of. change (N.of_nat 64) with 64. rewrite <- fl_two64.
  rewrite N.mod_small by assumption. reflexivity.
Qed.

(* bytes <-> bits *)

Lemma fl_byte_bits8 b7 b6 b5 b4 b3 b2 b1 b0 :
  byte_bits (byte_of_bits8 b7 b6 b5 b4 b3 b2 b1 b0) = [b7; b6; b5; b4; b3; b2; b1; b0].
Proof. destruct b7, b6, b5, b4, b3, b2, b1, b0; reflexivity. Qed.

Lemma fl_bytes_bits_aux : forall n l, (length l <= n)%nat ->
  exists pad, bytes_to_bits (bits_to_bytes l) = l ++ pad.
Proof.
  induction n as [|n IH]; intros l Hl.
  - destruct l as [|b l]; [exists []; reflexivity | cbn [length] in Hl; lia].
  - destruct l as [|b7 [|b6 [|b5 [|b4 [|b3 [|b2 [|b1 [|b0 r]]]]]]]].
    1: exists []; reflexivity.
    1-7: cbn [bits_to_bytes]; unfold bytes_to_bits; cbn [flat_map];
         rewrite fl_byte_bits8; eexists; cbn [app]; reflexivity.
    destruct (IH r) as [pad Hp]; [cbn [length] in Hl; lia|].
    exists pad. cbn [bits_to_bytes]. unfold bytes_to_bits in *. cbn [flat_map].
    rewrite fl_byte_bits8, Hp. reflexivity.
Qed.

Lemma fl_bytes_bits l : exists pad, bytes_to_bits (bits_to_bytes l) = l ++ pad.
Proof. apply (fl_bytes_bits_aux (length l)). lia. Qed.

Lemma fl_bytes_to_bits_length bs : length (bytes_to_bits bs) = (8 * length bs)%nat.
Proof.
  unfold bytes_to_bits. induction bs as [|b bs IH]; [reflexivity|].
  cbn [flat_map]. rewrite app_length, IH. cbn [byte_bits length]. lia.
Qed.

Lemma fl_bits_to_bytes_length l : (length l <= 8 * length (bits_to_bytes l))%nat.
Proof.
  destruct (fl_bytes_bits l) as [pad Hp].
  rewrite <- fl_bytes_to_bits_length, Hp, app_length. lia.
Qed.

(* leading / trailing zeros *)

Lemma fl_tz_low f : forall v i, i < tz_fuel f v -> N.testbit v i = false.
Proof.
  induction f as [|f IH]; intros v i Hi; cbn [tz_fuel] in Hi.
  - lia.
  - destruct (N.even v) eqn:Ev; [|lia].
    destruct (N.eq_dec i 0) as [->|Hn].
    + rewrite N.bit0_odd, <- N.negb_even, Ev. reflexivity.
    + replace i with (N.succ (N.pred i)) by lia.
      rewrite <- N.div2_bits. apply IH. lia.
Qed.

Lemma fl_shift_back v t :
  (forall i, i < t -> N.testbit v i = false) -> N.shiftl (N.shiftr v t) t = v.
Proof.
  intros H. apply N.bits_inj. intros i.
  destruct (N.lt_ge_cases i t) as [Hlt|Hge].
  - rewrite N.shiftl_spec_low by assumption. symmetry. apply H. assumption.
  - rewrite N.shiftl_spec_high' by assumption. rewrite N.shiftr_spec'. f_equal. lia.
Qed.

Lemma fl_log2_lt64 a : a < 2 ^ 64 -> N.log2 a < 64.
Proof.
  intros H. destruct (N.eq_dec a 0) as [->|Hn]; [reflexivity|].
  apply N.log2_lt_pow2; [lia|assumption].
Qed.

Lemma fl_lxor_lt a b : a < 2 ^ 64 -> b < 2 ^ 64 -> N.lxor a b < 2 ^ 64.
Proof.
  intros Ha Hb. destruct (N.eq_dec (N.lxor a b) 0) as [E|E]; [rewrite E; reflexivity|].
  apply N.log2_lt_pow2; [lia|].
  pose proof (N.log2_lxor a b) as Hx.
  pose proof (fl_log2_lt64 a Ha) as Hla. pose proof (fl_log2_lt64 b Hb) as Hlb. lia.
Qed.

(* for v <> 0, v < 2^64: any L <= lz64 v and T <= tz64 v leave a non-empty window *)
Lemma fl_lz_tz v L T :
  v <> 0 -> v < 2 ^ 64 -> L <= lz64 v -> T <= tz64 v ->
  L + T <= 63 /\ v < 2 ^ (64 - L) /\ (forall i, i < T -> N.testbit v i = false).
Proof.
  intros Hv Hlt HL HT. unfold lz64 in HL.
  pose proof (fl_log2_lt64 v Hlt) as Hlog.
  rewrite N.size_log2 in HL by assumption.
  assert (Htz : tz64 v <= N.log2 v).
  { destruct (N.le_gt_cases (tz64 v) (N.log2 v)) as [H|H]; [assumption|].
    pose proof (N.bit_log2 v Hv) as Hb.
    rewrite (fl_tz_low 64%nat v (N.log2 v) H) in Hb. discriminate. }
  split; [lia|]. split.
  - apply N.lt_le_trans with (2 ^ N.succ (N.log2 v)).
    + rewrite <- N.size_log2 by assumption. apply N.size_gt.
    + apply N.pow_le_mono_r; lia.
  - intros i Hi. apply (fl_tz_low 64%nat). unfold tz64 in HT. lia.
Qed.

(* XOR window reconstruction *)
Lemma fl_window prev cur L T :
  prev < 2 ^ 64 -> cur < 2 ^ 64 -> N.lxor cur prev <> 0 ->
  L <= lz64 (N.lxor cur prev) -> T <= tz64 (N.lxor cur prev) ->
  N.lxor prev (N.shiftl (N.shiftr (N.lxor cur prev) T mod 2 ^ (64 - L - T)) T) = cur.
Proof.
  intros Hp Hc Hvd HL HT.
  pose proof (fl_lxor_lt cur prev Hc Hp) as Hlt.
  destruct (fl_lz_tz _ L T Hvd Hlt HL HT) as (Hsum & Hhi & Hlo).
  rewrite N.mod_small.
  - rewrite fl_shift_back by assumption.
    rewrite (N.lxor_comm cur prev), <- N.lxor_assoc, N.lxor_nilpotent, N.lxor_0_l.
    reflexivity.
  - rewrite N.shiftr_div_pow2. apply N.div_lt_upper_bound; [apply N.pow_nonzero; lia|].
    rewrite <- N.pow_add_r. replace (T + (64 - L - T)) with (64 - L) by lia. assumption.
Qed.

(* ---------- 2. one record: float_next after float_write ---------- *)

Lemma fl_uvnan_lt : c13_uvnan < two64.
Proof. reflexivity. Qed.

Lemma fl_uvnan_nan : is_nan c13_uvnan = true.
Proof. vm_compute. reflexivity. Qed.

Lemma fl_not_nan_neq v : is_nan v = false -> v <> c13_uvnan.
Proof. intros H E. rewrite E, fl_uvnan_nan in H. discriminate. Qed.

(* encoder window state (lead, trail) vs decoder window state (dl, dt): the decoder's
   initial (0,0) is never used because the encoder emits a fresh window first *)
Definition fl_rel (lead : option N) (trail dl dt : N) : Prop :=
  match lead with
  | None => True
  | Some L => dl = L /\ dt = trail
  end.

Lemma fl_pair3 {A B C} (a a' : A) (b b' : B) (c c' : C) :
  (a, (b, c)) = (a', (b', c')) -> a = a' /\ b = b' /\ c = c'.
Proof. intros H. inversion H. auto. Qed.

Lemma fl_m64 w : 1 <= w -> w <= 64 -> (if w mod 64 =? 0 then 64 else w mod 64) = w.
Proof.
  intros H1 H2. destruct (N.eq_dec w 64) as [->|Hn]; [reflexivity|].
  rewrite N.mod_small by lia. destruct (w =? 0) eqn:E; lia.
Qed.

Lemma fl_next_write prev lead trail cur dl dt rest bs lead' trail' :
  float_write prev lead trail cur = (bs, (lead', trail')) ->
  prev < two64 -> cur < two64 -> prev <> c13_uvnan -> fl_rel lead trail dl dt ->
  exists dl' dt',
    float_next (bs ++ rest) prev dl dt
      = Some (if cur =? c13_uvnan then None else Some cur, rest, dl', dt')
    /\ fl_rel lead' trail' dl' dt' /\ (1 <= length bs)%nat.
Proof.
  intros HW Hp Hc Hpu Hrel. rewrite fl_two64 in Hp, Hc.
  unfold float_write in HW. cbv zeta in HW.
  destruct (N.lxor cur prev =? 0) eqn:E0.
  - apply fl_pair3 in HW; destruct HW as (<- & <- & <-). apply N.eqb_eq, N.lxor_eq in E0. subst cur.
    exists dl, dt. cbn [app float_next length].
    destruct (prev =? c13_uvnan) eqn:Eu; [apply N.eqb_eq in Eu; contradiction|].
    split; [reflexivity|]. split; [assumption|lia].
  - apply N.eqb_neq in E0.
    set (vd := N.lxor cur prev) in *.
    set (l := lz64 vd mod 32) in *. set (t := tz64 vd) in *.
    assert (Hl32 : l < 32) by (apply N.mod_lt; lia).
    assert (Hllz : l <= lz64 vd) by (apply N.mod_le; lia).
    assert (Hvd : vd < 2 ^ 64) by (apply fl_lxor_lt; assumption).
    assert (Hfresh : forall bs0,
      bs0 = true :: true :: bits_of 5 l ++ bits_of 6 (64 - l - t)
                 ++ bits_of (N.to_nat (64 - l - t)) (N.shiftr vd t) ->
      float_next (bs0 ++ rest) prev dl dt
        = Some (if cur =? c13_uvnan then None else Some cur, rest, l, t)
      /\ (1 <= length bs0)%nat).
    { intros bs0 ->. split; [|cbn [length]; lia].
      destruct (fl_lz_tz vd l t E0 Hvd Hllz (N.le_refl _)) as (Hsum & _ & _).
      cbn [app float_next]. rewrite <- !app_assoc.
      rewrite fl_read5 by assumption. cbv beta iota.
      rewrite fl_read6. cbv beta iota zeta.
      rewrite fl_m64 by lia.
      replace (64 - l - (64 - l - t)) with t by lia.
      rewrite fl_readn. cbv beta iota zeta.
      unfold vd. rewrite fl_window by (fold vd; first [assumption | apply N.le_refl]).
      destruct (cur =? c13_uvnan); reflexivity. }
    destruct lead as [L|].
    + destruct ((L <=? l) && (trail <=? t)) eqn:G.
      * apply fl_pair3 in HW; destruct HW as (<- & <- & <-). destruct Hrel as [-> ->].
        apply andb_true_iff in G. destruct G as [G1 G2].
        apply N.leb_le in G1. apply N.leb_le in G2.
        exists L, trail. cbn [app float_next length].
        rewrite fl_readn. cbv beta iota zeta.
        unfold vd. rewrite fl_window by (fold vd; first [assumption | lia]).
        split; [destruct (cur =? c13_uvnan); reflexivity|]. split; [split; reflexivity|lia].
      * apply fl_pair3 in HW; destruct HW as (<- & <- & <-). exists l, t.
        destruct (Hfresh _ eq_refl) as [H1 H2]. split; [exact H1|]. split; [split; reflexivity|exact H2].
    + apply fl_pair3 in HW; destruct HW as (<- & <- & <-). exists l, t.
      destruct (Hfresh _ eq_refl) as [H1 H2]. split; [exact H1|]. split; [split; reflexivity|exact H2].
Qed.

(* ---------- 3. the decoder loop over float_bits ---------- *)

Lemma fl_loop : forall vs prev lead trail dl dt rest fuel,
  prev < two64 -> prev <> c13_uvnan ->
  Forall (fun v => v < two64) vs -> existsb is_nan vs = false ->
  fl_rel lead trail dl dt ->
  (length (float_bits vs prev lead trail ++ rest) < fuel)%nat ->
  float_dec_loop fuel (float_bits vs prev lead trail ++ rest) prev dl dt = Some vs.
Proof.
  induction vs as [|v r IH]; intros prev lead trail dl dt rest fuel Hp Hpu HF HN Hrel Hfuel.
  - cbn [float_bits] in *.
    destruct (float_write prev lead trail c13_uvnan) as [bs [l' t']] eqn:HW.
    cbn [fst] in *.
    destruct (fl_next_write _ _ _ _ dl dt rest _ _ _ HW Hp fl_uvnan_lt Hpu Hrel)
      as (dl' & dt' & Hn & _ & _).
    destruct fuel as [|f]; [lia|]. cbn [float_dec_loop].
    rewrite Hn, N.eqb_refl. reflexivity.
  - cbn [float_bits] in *.
    destruct (float_write prev lead trail v) as [bs [l' t']] eqn:HW.
    cbn [fst snd] in *. rewrite <- app_assoc in *.
    cbn [existsb] in HN. apply orb_false_iff in HN. destruct HN as [HNv HNr].
    inversion HF as [|v' r' Hv HFr]; subst v' r'.
    pose proof (fl_not_nan_neq v HNv) as Hvu.
    destruct (fl_next_write _ _ _ _ dl dt (float_bits r v l' t' ++ rest) _ _ _ HW Hp Hv Hpu Hrel)
      as (dl' & dt' & Hn & Hrel' & Hlen).
    destruct fuel as [|f]; [lia|]. cbn [float_dec_loop].
    rewrite Hn. destruct (v =? c13_uvnan) eqn:Eu; [apply N.eqb_eq in Eu; contradiction|].
    rewrite (IH v l' t' dl' dt' rest f Hv Hvu HFr HNr Hrel').
    + reflexivity.
    + rewrite app_length in Hfuel. lia.
Qed.

(* ---------- 4. byte wrapper ---------- *)

Lemma fl_stream_length vs : (64 <= length (float_stream vs))%nat.
Proof.
  destruct vs as [|v0 r]; cbn [float_stream].
  - rewrite fl_bits_of_length. lia.
  - rewrite app_length, fl_bits_of_length. lia.
Qed.

Lemma fl_decode_body vs :
  Forall (fun v => v < two64) vs -> existsb is_nan vs = false ->
  float_decode_body (bits_to_bytes (float_stream vs)) = Some vs.
Proof.
  intros HF HN. unfold float_decode_body. cbv zeta.
  destruct (fl_bytes_bits (float_stream vs)) as [pad Hpad]. rewrite Hpad.
  destruct vs as [|v0 r]; cbn [float_stream].
  - rewrite fl_read64 by exact fl_uvnan_lt. rewrite N.eqb_refl. reflexivity.
  - rewrite <- app_assoc.
    cbn [existsb] in HN. apply orb_false_iff in HN. destruct HN as [HNv HNr].
    inversion HF as [|v' r' Hv HFr]; subst v' r'.
    pose proof (fl_not_nan_neq v0 HNv) as Hvu.
    rewrite fl_read64 by assumption.
    destruct (v0 =? c13_uvnan) eqn:Eu; [apply N.eqb_eq in Eu; contradiction|].
    rewrite (fl_loop r v0 None 0 0 0 pad _ Hv Hvu HFr HNr I); [reflexivity|lia].
Qed.

(* FloatEncoder -> FloatDecoder and FloatEncoder -> FloatArrayDecodeAll are the identity on
   NaN-free sequences of float64 bit patterns. *)
Lemma float_roundtrip_lemma : forall vs,
  Forall (fun v => v < two64) vs -> existsb is_nan vs = false ->
  exists b, float_encode_iter vs = Some b /\
            float_decode_iter b = Some vs /\ float_decode_batch b = Some vs.
Proof.
  intros vs HF HN. unfold float_encode_iter. rewrite HN.
  eexists. split; [reflexivity|].
  pose proof (fl_decode_body vs HF HN) as Hbody.
  split; [exact Hbody|].
  unfold float_decode_batch. cbn [length].
  pose proof (fl_stream_length vs) as H64.
  pose proof (fl_bits_to_bytes_length (float_stream vs)) as H8.
  destruct (Nat.ltb_spec (S (length (bits_to_bytes (float_stream vs)))) 9) as [Hlt|Hge]; [lia|].
  exact Hbody.
Qed.

(* 1.0, 2.0, 2.0, 3.0, -0.0, +Inf : the hypotheses are satisfiable and both decoders invert
   (closed terms only: no evars under vm_compute) *)
Definition fl_ex_vs : list N :=
  [4607182418800017408; 4611686018427387904; 4611686018427387904;
   4613937818241073152; 9223372036854775808; pos_inf].
Definition fl_ex_bytes : bytes :=
  match float_encode_iter fl_ex_vs with Some b => b | None => [] end.

Example float_roundtrip_ex :
  Forall (fun v => v < two64) fl_ex_vs /\ existsb is_nan fl_ex_vs = false /\
  float_encode_iter fl_ex_vs = Some fl_ex_bytes /\
  float_decode_iter fl_ex_bytes = Some fl_ex_vs /\
  float_decode_batch fl_ex_bytes = Some fl_ex_vs /\ (9 <= length fl_ex_bytes)%nat.
Proof.
  split; [unfold fl_ex_vs; repeat constructor|].
  split; [vm_compute; reflexivity|].
  split; [vm_compute; reflexivity|].
  split; [vm_compute; reflexivity|].
  split; [vm_compute; reflexivity|].
  vm_compute. repeat constructor.
Qed.

(* FloatArrayEncodeAll, when it succeeds, emits exactly FloatEncoder's bytes. *)
Lemma float_encode_batch_same : forall vs b,
  float_encode_batch vs = Some b -> float_encode_iter vs = Some b.
Proof.
  intros vs b H. unfold float_encode_batch, float_encode_iter in *.
  destruct (existsb is_nan vs); cbn [orb] in H; [discriminate|].
  destruct (existsb (N.eqb pos_inf) (tl vs) && existsb (N.eqb neg_inf) (tl vs));
    [discriminate|exact H].
Qed.

Example float_encode_batch_same_ex : float_encode_batch fl_ex_vs = Some fl_ex_bytes.
Proof. vm_compute. reflexivity. Qed.

(* a NaN anywhere in the input makes both encoders fail *)
Lemma float_nan_rejected : forall vs,
  existsb is_nan vs = true -> float_encode_iter vs = None /\ float_encode_batch vs = None.
Proof.
  intros vs H. unfold float_encode_iter, float_encode_batch. rewrite H. cbn [orb].
  split; reflexivity.
Qed.

Example float_nan_rejected_ex : existsb is_nan [4607182418800017408; c13_uvnan] = true.
Proof. vm_compute. reflexivity. Qed.
