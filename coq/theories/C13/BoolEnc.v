(* C13/BoolEnc.v — executable model of the tsm1 boolean codecs.
     bool.go           BooleanEncoder (Write/flush/Bytes), BooleanDecoder (SetBytes/Next/Read)
     batch_boolean.go  BooleanArrayEncodeAll / BooleanArrayDecodeAll
   Definitions only. *)
From Verif Require Export Lib.Bytes Lib.Varint C13.IntEnc.
From VerifGen Require Import Consts.
Open Scope N_scope.

(* BooleanEncoder state: cur = e.b, i = e.i (bits in cur).  Write flushes a full byte
   first; Bytes() calls flush, which pads to 8 bits and ALWAYS appends one byte (so an
   encoder without any Write still emits one zero byte). *)
Fixpoint bool_pack_iter (l : list bool) (cur : N) (i : nat) : bytes :=
  match l with
  | [] => [cur * 2 ^ N.of_nat (8 - i)]
  | b :: r =>
      if (8 <=? i)%nat then cur :: bool_pack_iter r (N.b2n b) 1
      else bool_pack_iter r (2 * cur + N.b2n b) (S i)
  end.

Definition bool_encode_iter (l : list bool) : bytes :=
  hdr c13_booleanCompressedBitPacked 0 :: put_uvarint (N.of_nat (length l)) ++ bool_pack_iter l 0 0.

Definition byte_of_bits8 (b7 b6 b5 b4 b3 b2 b1 b0 : bool) : N :=
  128 * N.b2n b7 + 64 * N.b2n b6 + 32 * N.b2n b5 + 16 * N.b2n b4 +
  8 * N.b2n b3 + 4 * N.b2n b2 + 2 * N.b2n b1 + N.b2n b0.

(* MSB-first packing, last byte padded with zero bits, nothing for no bits *)
Fixpoint bits_to_bytes (l : list bool) : bytes :=
  match l with
  | b7 :: b6 :: b5 :: b4 :: b3 :: b2 :: b1 :: b0 :: r =>
      byte_of_bits8 b7 b6 b5 b4 b3 b2 b1 b0 :: bits_to_bytes r
  | [] => []
  | [b7] => [byte_of_bits8 b7 false false false false false false false]
  | [b7; b6] => [byte_of_bits8 b7 b6 false false false false false false]
  | [b7; b6; b5] => [byte_of_bits8 b7 b6 b5 false false false false false]
  | [b7; b6; b5; b4] => [byte_of_bits8 b7 b6 b5 b4 false false false false]
  | [b7; b6; b5; b4; b3] => [byte_of_bits8 b7 b6 b5 b4 b3 false false false]
  | [b7; b6; b5; b4; b3; b2] => [byte_of_bits8 b7 b6 b5 b4 b3 b2 false false]
  | [b7; b6; b5; b4; b3; b2; b1] => [byte_of_bits8 b7 b6 b5 b4 b3 b2 b1 false]
  end.

(* BooleanArrayEncodeAll into a fresh (zeroed) buffer *)
Definition bool_encode_batch (l : list bool) : bytes :=
  hdr c13_booleanCompressedBitPacked 0 :: put_uvarint (N.of_nat (length l)) ++ bits_to_bytes l.

Definition byte_bits (b : N) : list bool :=
  [N.testbit b 7; N.testbit b 6; N.testbit b 5; N.testbit b 4;
   N.testbit b 3; N.testbit b 2; N.testbit b 1; N.testbit b 0].

Definition bytes_to_bits (bs : bytes) : list bool := flat_map byte_bits bs.

(* both decoders: skip the header byte, read the count, clamp it to 8*len(rest), return
   that many bits.  BooleanDecoder yields nothing for an empty slice (and keeps no error);
   BooleanArrayDecodeAll returns nil.  None = error ("invalid count"). *)
Definition bool_decode (b : bytes) : option (list bool) :=
  match b with
  | [] => Some []
  | _ :: body =>
      match uvarint body with
      | None => None
      | Some (count, rest) =>
          let n := N.min count (8 * N.of_nat (length rest)) in
          Some (firstn (N.to_nat n) (bytes_to_bits rest))
      end
  end.

Definition bool_decode_iter := bool_decode.
Definition bool_decode_batch := bool_decode.
