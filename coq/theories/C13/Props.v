(* C13/Props.v — property theorems only: each is closed by [exact]/[apply] of a lemma proved
   in the proof files and followed by Print Assumptions.  64-bit values are uint64 bit
   patterns (N < 2^64); int64 theorems are stated over Z through of_int64/to_int64.
   The model functions are PURE functions of the values: no destination buffer, no encoder
   state survives between two encodes.  That the real encoders have the same property
   (dirty/recycled destination buffers, Reset+reuse, the WAL's pooled buffers) is part of the
   correspondence run: every such variant must produce exactly the model's bytes.
   "iter" = the streaming encoder/decoder types of tsm1 (TimeEncoder, IntegerEncoder, ...),
   "batch" = the *ArrayEncodeAll / *ArrayDecodeAll functions. *)
From Verif Require Import Lib.Bytes Lib.Varint C13.Model C13.Spec C13.Proofs.
From VerifGen Require Import Consts.
Open Scope N_scope.

(* ---- varint ---- *)
Theorem uvarint_roundtrip :
  forall v rest, v < two64 -> uvarint (put_uvarint v ++ rest) = Some (v, rest).
Proof. exact uvarint_put_uvarint. Qed.
Print Assumptions uvarint_roundtrip.

(* ---- simple8b: every list (any length) of values below 2^60, all three encoders
   (jwilder EncodeAll, jwilder streaming Encoder, pkg EncodeAll) and the decoders ---- *)
Theorem simple8b_roundtrip :
  forall vs, Forall (fun v => v < two60) vs ->
  exists wa ws wp,
    jw_encode_all vs = Some wa /\ jw_encode_stream vs = Some ws /\ pkg_encode_all vs = Some wp /\
    decode_words c13_jw_selector wa = Some vs /\
    jw_decode_bytes (words_to_bytes ws) = Some vs /\
    pkg_decode_bytes (words_to_bytes wp) = Some vs.
Proof. exact simple8b_roundtrip_lemma. Qed.
Print Assumptions simple8b_roundtrip.

(* ---- timestamps: ANY sequence of 64-bit patterns (unsorted, wrapping deltas included) ---- *)
Theorem time_roundtrip :
  forall ts, Forall (fun v => v < two64) ts -> N.of_nat (length ts) < two64 ->
  (exists b, time_encode_iter ts = Some b /\
             time_decode_iter b = (ts, false) /\ time_decode_batch b = Some ts) /\
  (exists b, time_encode_batch ts = Some b /\
             time_decode_iter b = (ts, false) /\ time_decode_batch b = Some ts).
Proof. intros ts H L. split; [exact (time_roundtrip_iter_lemma ts H L)|exact (time_roundtrip_batch_lemma ts H L)]. Qed.
Print Assumptions time_roundtrip.

Theorem time_roundtrip_int64 :
  forall ts : list Z, Forall in_int64 ts -> N.of_nat (length ts) < two64 ->
  exists bi bb,
    time_encode_iter (map of_int64 ts) = Some bi /\ time_encode_batch (map of_int64 ts) = Some bb /\
    map to_int64 (fst (time_decode_iter bi)) = ts /\ snd (time_decode_iter bi) = false /\
    map to_int64 (fst (time_decode_iter bb)) = ts /\ snd (time_decode_iter bb) = false /\
    option_map (map to_int64) (time_decode_batch bi) = Some ts /\
    option_map (map to_int64) (time_decode_batch bb) = Some ts.
Proof. exact Proofs.time_roundtrip_int64. Qed.
Print Assumptions time_roundtrip_int64.

(* ---- integers (int64 view) and unsigned (the bit patterns themselves) ---- *)
Theorem int_roundtrip :
  forall vs : list Z, Forall in_int64 vs -> N.of_nat (length vs) < two64 ->
  exists bi bb,
    int_encode_iter (map of_int64 vs) = Some bi /\ int_encode_batch (map of_int64 vs) = Some bb /\
    map to_int64 (fst (int_decode_iter bi)) = vs /\ snd (int_decode_iter bi) = false /\
    map to_int64 (fst (int_decode_iter bb)) = vs /\ snd (int_decode_iter bb) = false /\
    option_map (map to_int64) (int_decode_batch bi) = Some vs /\
    option_map (map to_int64) (int_decode_batch bb) = Some vs.
Proof. exact int_roundtrip_int64. Qed.
Print Assumptions int_roundtrip.

Theorem uint_roundtrip :
  forall vs, Forall (fun v => v < two64) vs -> N.of_nat (length vs) < two64 ->
  (exists b, int_encode_iter vs = Some b /\
             int_decode_iter b = (vs, false) /\ int_decode_batch b = Some vs) /\
  (exists b, int_encode_batch vs = Some b /\
             int_decode_iter b = (vs, false) /\ int_decode_batch b = Some vs).
Proof. intros vs H L. split; [exact (int_roundtrip_iter_lemma vs H L)|exact (int_roundtrip_batch_lemma vs H L)]. Qed.
Print Assumptions uint_roundtrip.

(* ---- the two independent decoders agree on whatever either encoder produced ---- *)
Theorem time_iter_batch_decoders_agree :
  forall ts b, Forall (fun v => v < two64) ts -> N.of_nat (length ts) < two64 ->
  time_encode_iter ts = Some b \/ time_encode_batch ts = Some b ->
  time_decode_iter b = (ts, false) /\ time_decode_batch b = Some ts.
Proof. exact time_decoders_agree. Qed.
Print Assumptions time_iter_batch_decoders_agree.

Theorem int_iter_batch_decoders_agree :
  forall vs b, Forall (fun v => v < two64) vs -> N.of_nat (length vs) < two64 ->
  int_encode_iter vs = Some b \/ int_encode_batch vs = Some b ->
  int_decode_iter b = (vs, false) /\ int_decode_batch b = Some vs.
Proof. exact int_decoders_agree. Qed.
Print Assumptions int_iter_batch_decoders_agree.

(* ---- booleans (one decoder model serves BooleanDecoder and BooleanArrayDecodeAll) ---- *)
Theorem bool_roundtrip :
  forall l, N.of_nat (length l) < two64 ->
  bool_decode_iter (bool_encode_iter l) = Some l /\ bool_decode_batch (bool_encode_iter l) = Some l /\
  bool_decode_iter (bool_encode_batch l) = Some l /\ bool_decode_batch (bool_encode_batch l) = Some l.
Proof.
  intros l H. unfold bool_decode_iter, bool_decode_batch.
  rewrite (bool_roundtrip_iter_lemma l H), (bool_roundtrip_batch_lemma l H). auto.
Qed.
Print Assumptions bool_roundtrip.

(* ---- strings: snappy is abstract; its round trip is a premise ---- *)
Theorem string_roundtrip :
  forall (snappy_enc : bytes -> bytes) (snappy_dec : bytes -> option bytes),
  (forall b, snappy_dec (snappy_enc b) = Some b) -> snappy_dec [0] = Some [] ->
  forall l, Forall (fun s => N.of_nat (length s) < two64) l ->
  str_decode snappy_dec (str_encode_iter snappy_enc l) = Some l /\
  str_decode snappy_dec (str_encode_batch snappy_enc l) = Some l.
Proof.
  intros enc dec Hok Hempty l H. split.
  - exact (string_roundtrip_iter_lemma enc dec Hok l H).
  - exact (string_roundtrip_batch_lemma enc dec Hok Hempty l H).
Qed.
Print Assumptions string_roundtrip.

(* ---- floats: every sequence of non-NaN bit patterns (±0, subnormals, ±Inf included);
   NaN is refused by both encoders (the sentinel) ---- *)
Theorem float_roundtrip :
  forall vs, Forall (fun v => v < two64) vs -> existsb is_nan vs = false ->
  exists b, float_encode_iter vs = Some b /\
            float_decode_iter b = Some vs /\ float_decode_batch b = Some vs.
Proof. exact float_roundtrip_lemma. Qed.
Print Assumptions float_roundtrip.

Theorem float_batch_encoder_same_bytes :
  forall vs b, float_encode_batch vs = Some b -> float_encode_iter vs = Some b.
Proof. exact float_encode_batch_same. Qed.
Print Assumptions float_batch_encoder_same_bytes.

Theorem float_nan_refused :
  forall vs, existsb is_nan vs = true -> float_encode_iter vs = None /\ float_encode_batch vs = None.
Proof. exact float_nan_rejected. Qed.
Print Assumptions float_nan_refused.

(* ---- block envelope ---- *)
Theorem block_roundtrip :
  forall typ ts vs, N.of_nat (length ts) < two64 ->
  unpack_block (tl (pack_block typ ts vs)) = Some (ts, vs).
Proof. exact block_roundtrip_tl. Qed.
Print Assumptions block_roundtrip.

(* ---- WAL entries ---- *)
Theorem wal_entry_roundtrip :
  forall e, entry_valid e = true -> entry_repr e = true ->
  exists b, marshal e = MOk b /\ unmarshal (entry_type e) b = UOk e.
Proof. exact wal_entry_roundtrip_lemma. Qed.
Print Assumptions wal_entry_roundtrip.

Theorem wal_unmarshal_never_crashes :
  forall typ b, unmarshal typ b <> UCrash.
Proof. exact unmarshal_no_crash. Qed.
Print Assumptions wal_unmarshal_never_crashes.

(* ---- a segment cut at ANY byte offset replays exactly the complete entries before the
   cut, never crashes, reports the offset of the last complete entry, and reports an
   error iff the cut is not on a frame boundary ---- *)
Theorem wal_cut_replays_prefix :
  forall (snappy_enc : bytes -> bytes) (snappy_dec : bytes -> option bytes),
  (forall b, snappy_dec (snappy_enc b) = Some b) ->
  forall es seg,
    Forall (fun e => entry_valid e = true /\ entry_repr e = true) es ->
    (forall e p, In e es -> marshal e = MOk p -> N.of_nat (length (snappy_enc p)) < two32) ->
    segment snappy_enc es = Some seg ->
    forall k, (k <= length seg)%nat ->
    let r := replay_segment snappy_dec (firstn k seg) in
    r_crashed r = false /\
    exists j pre, (j <= length es)%nat /\
      r_entries r = firstn j es /\
      segment snappy_enc (firstn j es) = Some pre /\
      r_n r = N.of_nat (length pre) /\ (length pre <= k)%nat /\
      (r_err r = false <-> length pre = k) /\
      (forall pre', (j < length es)%nat ->
         segment snappy_enc (firstn (S j) es) = Some pre' -> (k < length pre')%nat).
Proof. exact wal_cut_replays_prefix_lemma. Qed.
Print Assumptions wal_cut_replays_prefix.

Theorem wal_segment_defined :
  forall (snappy_enc : bytes -> bytes) es,
  Forall (fun e => entry_valid e = true) es -> exists seg, segment snappy_enc es = Some seg.
Proof. exact segment_defined. Qed.
Print Assumptions wal_segment_defined.

(* the legacy DeleteWALEntry ("\n"-joined keys) cannot carry a key containing '\n': the
   reason entry_valid excludes it (the engine replays but no longer writes this type) *)
Theorem wal_delete_newline_key_refuted :
  exists keys b, marshal (EDelete keys) = MOk b /\
                 unmarshal c13_DeleteWALEntryType b = UOk (EDelete [[97]; [98]]) /\
                 keys = [[97; 10; 98]].
Proof. exact wal_delete_newline_witness. Qed.
Print Assumptions wal_delete_newline_key_refuted.

(* ---- non-vacuity: the hypotheses are satisfiable by non-trivial values, and the schemes
   are really exercised (RLE / packed-with-divisor / raw) ---- *)
Example time_schemes_nonvacuous :
  (* 10 s steps: RLE with divisor 10^10; irregular ms steps: simple8b with divisor 10^6;
     one wrapping delta: uncompressed *)
  option_map (fun b => hd 0 b) (time_encode_iter [1600000000000000000; 1600000010000000000; 1600000020000000000]) = Some 42 /\
  option_map (fun b => hd 0 b) (time_encode_iter [1600000000000000000; 1600000000001000000; 1600000000005000000]) = Some 22 /\
  option_map (fun b => hd 0 b) (time_encode_iter [5; 3; 18446744073709551615]) = Some 0 /\
  time_decode_batch [42; 22; 52; 87; 133; 216; 160; 0; 0; 1; 3] = Some [1600000000000000000; 1600000010000000000; 1600000020000000000].
Proof. vm_compute. repeat split. Qed.

Example int_schemes_nonvacuous :
  int_encode_iter [5; 5; 5; 5] = Some [32; 0; 0; 0; 0; 0; 0; 0; 10; 0; 3] /\
  option_map (fun b => hd 0 b) (int_encode_iter [1; 18446744073709551615; 7]) = Some 16 /\
  option_map (fun b => hd 0 b) (int_encode_iter [0; 9223372036854775808; 1]) = Some 0 /\
  (* the first value alone is too large: the two encoders choose differently, both decode *)
  option_map (fun b => hd 0 b) (int_encode_iter [4611686018427387904; 4611686018427387905]) = Some 0 /\
  option_map (fun b => hd 0 b) (int_encode_batch [4611686018427387904; 4611686018427387905]) = Some 16.
Proof. vm_compute. repeat split. Qed.

Example simple8b_nonvacuous :
  jw_encode_all (repeat 1 240 ++ [2]) <> jw_encode_stream (repeat 1 240 ++ [2]) /\
  pkg_encode_all (repeat 1 240 ++ [2]) = jw_encode_stream (repeat 1 240 ++ [2]) /\
  Forall (fun v => v < two60) (repeat 1 240 ++ [2]).
Proof.
  split; [vm_compute; discriminate|]. split; [vm_compute; reflexivity|].
  apply Forall_app; split; [apply Forall_forall; intros x Hx; apply repeat_spec in Hx; subst; reflexivity|].
  repeat constructor.
Qed.
