(* C13/TimeProofs.v — timestamp codecs: for EVERY list of int64 timestamps (no ordering
   needed: deltas wrap mod 2^64), whichever scheme is chosen (RLE, simple8b with a
   power-of-ten divisor, uncompressed), the output of both encoders is decoded back to
   the input by both decoders. *)
From Verif Require Import Lib.Bytes Lib.Varint C13.Simple8b C13.IntEnc C13.TimeEnc C13.S8bProofs C13.IntProofs.
From VerifGen Require Import Consts.
From Coq Require Import ZifyBool ZifyNat ZifyN NArithRing.
Open Scope N_scope.

Ltac Zify.zify_post_hook ::= Z.to_euclidean_division_equations.

(* ---------- the divisor ---------- *)

Lemma pow10_pos k : 0 < pow10 k.
Proof. unfold pow10. apply N.neq_0_lt_0. apply N.pow_nonzero. lia. Qed.

Lemma pow10_S k : pow10 (S k) = 10 * pow10 k.
Proof. unfold pow10. rewrite Nat2N.inj_succ, N.pow_succ_r'. reflexivity. Qed.

Lemma pow10_divides : forall j k v, (j <= k)%nat -> v mod pow10 k = 0 -> v mod pow10 j = 0.
Proof.
  intros j k v Hjk. induction Hjk as [|k Hle IH]; intros H; [exact H|].
  apply IH. rewrite pow10_S in H.
  pose proof (pow10_pos k) as Hp.
  apply N.mod_divide in H; [|lia]. apply N.mod_divide; [lia|].
  destruct H as [q Hq]. exists (q * 10). rewrite Hq. ring.
Qed.

Lemma div_search_le : forall k v, (div_search k v <= k)%nat.
Proof.
  induction k as [|k IH]; intros v; cbn [div_search]; [lia|].
  destruct (v mod pow10 (S k) =? 0); [lia|]. specialize (IH v). lia.
Qed.

Lemma div_search_divides : forall k v, v mod pow10 (div_search k v) = 0.
Proof.
  induction k as [|k IH]; intros v; cbn [div_search].
  - unfold pow10. cbn. apply N.mod_1_r.
  - destruct (N.eqb_spec (v mod pow10 (S k)) 0) as [E|_]; [exact E|apply IH].
Qed.

Lemma fold_right_div_ok : forall dr start,
  let k := fold_right (fun d k => div_search k d) start dr in
  (k <= start)%nat /\ Forall (fun d => d mod pow10 k = 0) dr.
Proof.
  induction dr as [|d r IH]; intros start; cbn [fold_right]; [split; [lia|constructor]|].
  destruct (IH start) as [Hle Hall]. split.
  - pose proof (div_search_le (fold_right (fun d k => div_search k d) start r) d). lia.
  - constructor; [apply div_search_divides|].
    eapply Forall_impl; [|exact Hall]. intros a Ha.
    eapply pow10_divides; [apply div_search_le|exact Ha].
Qed.

Lemma fold_left_div_ok : forall dr acc,
  let k := fold_left div_search dr acc in
  (k <= acc)%nat /\ Forall (fun d => d mod pow10 k = 0) dr.
Proof.
  induction dr as [|d r IH]; intros acc; cbn [fold_left]; [split; [lia|constructor]|].
  destruct (IH (div_search acc d)) as [Hle Hall].
  pose proof (div_search_le acc d) as Hd. split; [lia|].
  constructor; [|exact Hall].
  eapply pow10_divides; [exact Hle|apply div_search_divides].
Qed.

Lemma scale_down_div k d : scale_down k d = d / pow10 k.
Proof.
  unfold scale_down. destruct k; cbn [Nat.ltb Nat.leb]; [|reflexivity].
  unfold pow10. cbn. rewrite N.div_1_r. reflexivity.
Qed.

Lemma scale_down_le k d : scale_down k d <= d.
Proof.
  rewrite scale_down_div. pose proof (pow10_pos k).
  apply N.div_le_upper_bound; [lia|]. nia.
Qed.

(* scaling back up: what both decoders do with each delta *)
Lemma scale_back k d : d < two64 -> d mod pow10 k = 0 ->
  (if 1 <? pow10 k then mul64 (scale_down k d) (pow10 k) else scale_down k d) = d.
Proof.
  intros Hd Hm. pose proof (pow10_pos k) as Hp.
  assert (E : scale_down k d * pow10 k = d).
  { rewrite scale_down_div. pose proof (N.div_mod d (pow10 k) ltac:(lia)) as H. rewrite Hm in H. lia. }
  destruct (N.ltb_spec 1 (pow10 k)) as [_|Hle].
  - unfold mul64. rewrite E. apply N.mod_small. exact Hd.
  - assert (pow10 k = 1) by lia. rewrite H in E. lia.
Qed.

Lemma mul_scale_back k d : d < two64 -> d mod pow10 k = 0 -> mul64 (d / pow10 k) (pow10 k) = d.
Proof.
  intros Hd Hm. pose proof (pow10_pos k) as Hp. unfold mul64.
  pose proof (N.div_mod d (pow10 k) ltac:(lia)) as H. rewrite Hm in H.
  replace (d / pow10 k * pow10 k) with d by lia. apply N.mod_small. exact Hd.
Qed.

Lemma map_scale_back k : forall dr, Forall (fun v => v < two64) dr -> Forall (fun d => d mod pow10 k = 0) dr ->
  map (fun d => if 1 <? pow10 k then mul64 d (pow10 k) else d) (map (scale_down k) dr) = dr.
Proof.
  induction dr as [|d r IH]; intros H1 H2; [reflexivity|].
  inversion H1; inversion H2; subst. cbn [map]. rewrite scale_back by assumption.
  f_equal. apply IH; assumption.
Qed.

(* ---------- header ---------- *)

Lemma hdr_split tag k : (k < 16)%nat -> hdr tag (N.of_nat k) / 16 = tag /\ hdr tag (N.of_nat k) mod 16 = N.of_nat k.
Proof. intros H. unfold hdr. split; lia. Qed.

Lemma time_tags :
  c13_timeUncompressed = 0 /\ c13_timeCompressedPackedSimple = 1 /\ c13_timeCompressedRLE = 2.
Proof. repeat split; reflexivity. Qed.

Lemma start_exps : c13_time_div_start_exp_iter = 12%nat /\ c13_time_div_start_exp_batch = 12%nat.
Proof. split; reflexivity. Qed.

Lemma fold_max_all_lt60 mx l : (mx <? fold_left N.max l 0) = false -> mx = two60 - 1 ->
  Forall (fun v => v < two60) l.
Proof.
  intros H E. apply N.ltb_ge in H. apply Forall_forall. intros v Hv.
  pose proof (fold_max_ge l 0 v Hv). unfold two60 in *. lia.
Qed.

(* ---------- decoding the three layouts ---------- *)

Section Layouts.
  Variable ts : list N.
  Hypothesis Hts : Forall (fun v => v < two64) ts.
  Variables (d0 : N) (dr : list N).
  Hypothesis Hds : deltas_from 0 ts = d0 :: dr.

  Let Hd0 : d0 < two64.
  Proof. pose proof (deltas_lt ts 0) as H. rewrite Hds in H. inversion H; assumption. Qed.
  Let Hdr : Forall (fun v => v < two64) dr.
  Proof. pose proof (deltas_lt ts 0) as H. rewrite Hds in H. inversion H; assumption. Qed.
  Let Hback : prefix_sums 0 (d0 :: dr) = ts.
  Proof. rewrite <- Hds. apply prefix_deltas; [unfold two64; lia|exact Hts]. Qed.
  Let Hback' : d0 :: prefix_sums d0 dr = ts.
  Proof. rewrite <- Hback. cbn [prefix_sums]. rewrite add64_0_l by exact Hd0. reflexivity. Qed.

  Lemma time_raw_decodes :
    time_decode_iter (time_raw_bytes (d0 :: dr)) = (ts, false) /\
    time_decode_batch (time_raw_bytes (d0 :: dr)) = Some ts.
  Proof.
    unfold time_raw_bytes, time_decode_iter, time_decode_batch.
    destruct time_tags as [T0 [T1 T2]]. rewrite T0, T1, T2.
    rewrite hdr_div by lia. cbn [N.eqb Pos.eqb].
    change (flat_map (be_enc 8) (d0 :: dr)) with (words_to_bytes (d0 :: dr)).
    rewrite <- (app_nil_r (words_to_bytes (d0 :: dr))).
    rewrite bytes_to_words_app by (try (constructor; assumption); cbn; lia).
    cbn [fst is_nil]. rewrite Hback. split; reflexivity.
  Qed.

  Variable k : nat.
  Hypothesis Hk : (k < 16)%nat.
  Hypothesis Hdiv : Forall (fun d => d mod pow10 k = 0) dr.

  Lemma time_packed_decodes ws :
    decode_words c13_jw_selector ws = Some (map (scale_down k) dr) -> Forall (fun w => w < two64) ws ->
    time_decode_iter (time_packed_bytes k d0 ws) = (ts, false) /\
    time_decode_batch (time_packed_bytes k d0 ws) = Some ts.
  Proof.
    intros Hd Hws. unfold time_packed_bytes, time_decode_iter, time_decode_batch.
    destruct time_tags as [T0 [T1 T2]]. rewrite T0, T1, T2.
    destruct (hdr_split 1 k Hk) as [E1 E2]. rewrite E1, E2, Nat2N.id. cbn [N.eqb Pos.eqb].
    rewrite take8_be, be_dec_enc8 by exact Hd0.
    assert (Hs : scaled_sums (pow10 k) d0 (map (scale_down k) dr) = ts).
    { unfold scaled_sums. rewrite map_scale_back by assumption. exact Hback'. }
    split.
    - rewrite <- (app_nil_r (words_to_bytes ws)).
      rewrite jw_decode_bytes_words by (try exact Hws; cbn; lia).
      rewrite Hd, Hs. reflexivity.
    - rewrite pkg_decode_bytes_words by exact Hws.
      rewrite <- selector_tables_equal, Hd, Hs. reflexivity.
  Qed.

  Lemma time_rle_decodes :
    forallb (N.eqb (hd 0 dr)) dr = true -> dr <> [] -> N.of_nat (length (d0 :: dr)) < two64 ->
    let b := time_rle_bytes k d0 (hd 0 dr / pow10 k) (N.of_nat (length (d0 :: dr))) in
    time_decode_iter b = (ts, false) /\ time_decode_batch b = Some ts.
  Proof.
    intros Heq Hne Hlen b. subst b. set (d1 := hd 0 dr) in *.
    assert (Hd1 : d1 < two64 /\ d1 mod pow10 k = 0).
    { subst d1. destruct dr as [|y r]; [contradiction|]. inversion Hdr; inversion Hdiv; auto. }
    destruct Hd1 as [Hd1 Hm1].
    assert (Hrep : dr = repeat d1 (length dr)) by (apply all_eq_repeat; exact Heq).
    assert (Hvals : ts = arith_run (length (d0 :: dr)) d0 d1).
    { rewrite <- Hback'. rewrite Hrep at 1. rewrite prefix_sums_repeat. reflexivity. }
    assert (Hq : hd 0 dr / pow10 k < two64).
    { pose proof (pow10_pos k). fold d1.
      assert (d1 / pow10 k <= d1) by (apply N.div_le_upper_bound; [lia|nia]). lia. }
    unfold time_rle_bytes, time_decode_iter, time_decode_batch.
    destruct time_tags as [T0 [T1 T2]]. rewrite T0, T1, T2.
    destruct (hdr_split 2 k Hk) as [E1 E2]. rewrite E1, E2, Nat2N.id. cbn [N.eqb Pos.eqb].
    rewrite take8_be, be_dec_enc8 by exact Hd0.
    rewrite uvarint_put_uvarint by exact Hq.
    rewrite <- (app_nil_r (put_uvarint (N.of_nat (length (d0 :: dr))))).
    rewrite uvarint_put_uvarint by exact Hlen.
    rewrite Nat2N.id. fold d1. rewrite mul_scale_back by assumption.
    rewrite <- Hvals. split; reflexivity.
  Qed.
End Layouts.

Lemma scaled_lt60 k dr : Forall (fun v => v < two60) dr -> Forall (fun v => v < two60) (map (scale_down k) dr).
Proof.
  induction dr as [|d r IH]; intros H; cbn [map]; [constructor|]. inversion H; subst.
  constructor; [pose proof (scale_down_le k d); lia|apply IH; assumption].
Qed.

Lemma hd_forallb_all_eq dr : dr <> [] -> all_eq dr = true -> forallb (N.eqb (hd 0 dr)) dr = true.
Proof.
  intros Hne H. destruct dr as [|y r]; [contradiction|].
  cbn [hd forallb all_eq] in *. rewrite N.eqb_refl. exact H.
Qed.

(* ---------- the theorems ---------- *)

Lemma time_roundtrip_iter_lemma ts :
  Forall (fun v => v < two64) ts -> N.of_nat (length ts) < two64 ->
  exists b, time_encode_iter ts = Some b /\
            time_decode_iter b = (ts, false) /\ time_decode_batch b = Some ts.
Proof.
  intros Hts Hlen. unfold time_encode_iter.
  destruct (deltas_from 0 ts) as [|d0 dr] eqn:Hds.
  - assert (ts = []) by (destruct ts; [reflexivity|discriminate]). subst ts.
    exists []. repeat split; reflexivity.
  - assert (Hl : length (d0 :: dr) = length ts) by (rewrite <- Hds; apply deltas_length).
    destruct (fold_right_div_ok dr c13_time_div_start_exp_iter) as [Hk Hdiv].
    set (k := fold_right (fun d k => div_search k d) c13_time_div_start_exp_iter dr) in *.
    destruct start_exps as [Es _]. rewrite Es in Hk.
    assert (Hk16 : (k < 16)%nat) by lia.
    destruct (all_eq dr && (1 <? length (d0 :: dr))%nat) eqn:Hrle.
    + apply andb_true_iff in Hrle. destruct Hrle as [Heq Hn]. apply Nat.ltb_lt in Hn.
      assert (Hne : dr <> []) by (destruct dr; [cbn in Hn; lia|discriminate]).
      eexists. split; [reflexivity|].
      apply (time_rle_decodes ts Hts d0 dr Hds k Hk16 Hdiv (hd_forallb_all_eq dr Hne Heq) Hne). lia.
    + destruct (c13_jw_max_value <? fold_left N.max dr 0) eqn:Hbig.
      * eexists. split; [reflexivity|]. apply (time_raw_decodes ts Hts d0 dr Hds).
      * assert (H60 : Forall (fun v => v < two60) dr).
        { apply (fold_max_all_lt60 _ _ Hbig). apply max_values_are_2_60_minus_1. }
        destruct (jw_encode_stream_roundtrip _ (scaled_lt60 k dr H60)) as [ws [He [Hd Hws]]].
        rewrite He. eexists. split; [reflexivity|].
        apply (time_packed_decodes ts Hts d0 dr Hds k Hk16 Hdiv ws Hd Hws).
Qed.

Lemma time_roundtrip_batch_lemma ts :
  Forall (fun v => v < two64) ts -> N.of_nat (length ts) < two64 ->
  exists b, time_encode_batch ts = Some b /\
            time_decode_iter b = (ts, false) /\ time_decode_batch b = Some ts.
Proof.
  intros Hts Hlen. unfold time_encode_batch.
  destruct (deltas_from 0 ts) as [|d0 dr] eqn:Hds.
  - assert (ts = []) by (destruct ts; [reflexivity|discriminate]). subst ts.
    exists []. repeat split; reflexivity.
  - assert (Hl : length (d0 :: dr) = length ts) by (rewrite <- Hds; apply deltas_length).
    destruct start_exps as [_ Es].
    destruct ((1 <? length (d0 :: dr))%nat && all_eq dr) eqn:Hrle.
    + apply andb_true_iff in Hrle. destruct Hrle as [Hn Heq]. apply Nat.ltb_lt in Hn.
      assert (Hne : dr <> []) by (destruct dr; [cbn in Hn; lia|discriminate]).
      pose proof (hd_forallb_all_eq dr Hne Heq) as Heq'.
      set (k := div_search c13_time_div_start_exp_batch (hd 0 dr)).
      assert (Hk16 : (k < 16)%nat).
      { pose proof (div_search_le c13_time_div_start_exp_batch (hd 0 dr)). rewrite Es in H. subst k. rewrite Es. lia. }
      assert (Hdiv : Forall (fun d => d mod pow10 k = 0) dr).
      { rewrite (all_eq_repeat _ _ Heq'). apply Forall_forall. intros x Hx.
        apply repeat_spec in Hx. subst x. apply div_search_divides. }
      rewrite scale_down_div.
      eexists. split; [reflexivity|].
      apply (time_rle_decodes ts Hts d0 dr Hds k Hk16 Hdiv Heq' Hne). lia.
    + destruct (c13_pkg_max_value <? fold_left N.max dr 0) eqn:Hbig.
      * eexists. split; [reflexivity|]. apply (time_raw_decodes ts Hts d0 dr Hds).
      * destruct (fold_left_div_ok dr c13_time_div_start_exp_batch) as [Hk Hdiv].
        set (k := fold_left div_search dr c13_time_div_start_exp_batch) in *.
        rewrite Es in Hk. assert (Hk16 : (k < 16)%nat) by lia.
        assert (H60 : Forall (fun v => v < two60) dr).
        { apply (fold_max_all_lt60 _ _ Hbig). apply max_values_are_2_60_minus_1. }
        destruct (pkg_encode_all_roundtrip _ (scaled_lt60 k dr H60)) as [ws [He [Hd Hws]]].
        rewrite He. eexists. split; [reflexivity|].
        apply (time_packed_decodes ts Hts d0 dr Hds k Hk16 Hdiv ws); [|exact Hws].
        rewrite selector_tables_equal. exact Hd.
Qed.
