(* C13/Model.v — executable model of the tsm1 storage encodings and of the WAL segment
   format.  The model is split by codec; this file re-exports the parts and adds the
   block envelope (encoding.go: packBlock / unpackBlock).  Definitions only.

     Lib/Varint.v   PutUvarint / Uvarint
     Simple8b.v     jwilder Encode/EncodeAll/Encoder/Decoder, pkg EncodeAll/DecodeBytesBigEndian
     IntEnc.v       IntegerEncoder/Decoder, Integer/UnsignedArrayEncodeAll/DecodeAll
     TimeEnc.v      timestamp encoder / TimeDecoder, TimeArrayEncodeAll/DecodeAll
     BoolEnc.v      BooleanEncoder/Decoder, BooleanArrayEncodeAll/DecodeAll
     StrEnc.v       StringEncoder/Decoder, StringArrayEncodeAll/DecodeAll (snappy abstract)
     FloatEnc.v     FloatEncoder/Decoder, FloatArrayEncodeAll/DecodeAll (bit stream abstract)
     WALEntry.v     WAL entries, segment framing, WALSegmentReader replay loop *)
From Verif Require Export Lib.Bytes Lib.Varint.
From Verif Require Export C13.Simple8b C13.IntEnc C13.TimeEnc C13.BoolEnc C13.StrEnc C13.FloatEnc C13.WALEntry.
From VerifGen Require Import Consts.
Open Scope N_scope.

(* packBlock(buf, typ, ts, values): type byte, uvarint(len(ts)), ts, values *)
Definition pack_block (typ : N) (ts vs : bytes) : bytes :=
  typ :: put_uvarint (N.of_nat (length ts)) ++ ts ++ vs.

(* unpackBlock(block[1:]).  (int(i)+int(tsLen) can overflow on a hostile varint: corrupt
   files are outside this property.) *)
Definition unpack_block (buf : bytes) : option (bytes * bytes) :=
  match uvarint buf with
  | None => None
  | Some (tslen, r) => if N.of_nat (length r) <? tslen then None else take (N.to_nat tslen) r
  end.
