(* C13/Run.v — correspondence cases for C13.  The harness records, for every generated
   sequence / entry / log, the bytes produced by the REAL encoders and what the REAL
   decoders returned; [check_case] recomputes the same bytes and decodes with the model
   (agree) and evaluates the property on the implementation's observation (spec_ok):
     0 agree, property holds     1 differ, property holds
     2 differ, property fails    3 agree, property fails (model mirrors a defect)
   64-bit values are uint64 bit patterns (N).  Must not import Proofs. *)
From Verif Require Export Lib.Bytes Lib.Varint C13.Model C13.Spec.
From VerifGen Require Import Consts.
Open Scope N_scope.

Definition code (agree spec_ok : bool) : N :=
  match agree, spec_ok with
  | true, true => 0 | false, true => 1 | false, false => 2 | true, false => 3
  end.

(* what a real decoder returned: the input again, or something else / an error *)
Inductive dobs (A : Type) := DSame | DOther (vals : list A) (err : bool).
Arguments DSame {A}.
Arguments DOther {A}.

Definition is_same {A} (d : dobs A) : bool := match d with DSame => true | _ => false end.

(* model decode result (values, error) against the observation *)
Definition dobs_agree {A} (eqb : A -> A -> bool) (input : list A) (m : list A * bool) (d : dobs A) : bool :=
  match d with
  | DSame => list_eqb eqb (fst m) input && negb (snd m)
  | DOther vals err => list_eqb eqb (fst m) vals && Bool.eqb (snd m) err
  end.

(* batch decoders return no values together with an error *)
Definition of_opt {A} (o : option (list A)) : list A * bool :=
  match o with Some l => (l, false) | None => ([], true) end.

(* decoder applied to optional bytes (None = the encoder returned an error: the harness
   then records DOther [] true for the decodes) *)
Definition on_bytes {A} (dec : bytes -> list A * bool) (b : option bytes) : list A * bool :=
  match b with Some x => dec x | None => ([], true) end.

(* real payload p is a correct serialisation of e: the model parses it back to an entry
   equivalent to e (any map order) and re-serialises that entry to exactly p *)
Definition payload_matches (e : wal_entry) (p : bytes) : bool :=
  match unmarshal (entry_type e) p with
  | UOk e' => entry_equiv e e' &&
              match e with
              | EDelete _ => match marshal e with MOk p' => bytes_eqb p p' | MCrash => false end
              | _ => match marshal e' with MOk p' => bytes_eqb p p' | MCrash => false end
              end
  | _ => false
  end.

(* snappy as an oracle: table of (payload, compressed) pairs observed on the real code *)
Fixpoint tbl_dec (tbl : list (bytes * bytes)) (c : bytes) : option bytes :=
  match tbl with
  | [] => None
  | (p, c') :: r => if bytes_eqb c c' then Some p else tbl_dec r c
  end.

(* the real segment is the concatenation of the frames of the entries, in order, where the
   i-th table row holds (real payload, real compressed) of entry i *)
Fixpoint segment_matches (es : list wal_entry) (tbl : list (bytes * bytes)) (seg : bytes) : bool :=
  match es, tbl with
  | [], [] => is_nil seg
  | e :: er, (p, c) :: tr =>
      payload_matches e p &&
      match take (5 + length c) seg with
      | Some (f, rest) => bytes_eqb f (frame (entry_type e) c) && segment_matches er tr rest
      | None => false
      end
  | _, _ => false
  end.

(* total length of the first j frames *)
Fixpoint frames_len (tbl : list (bytes * bytes)) (j : nat) : N :=
  match j, tbl with
  | S j', (_, c) :: r => 5 + N.of_nat (length c) + frames_len r j'
  | _, _ => 0
  end.

(* number of complete frames within the first k bytes *)
Fixpoint complete_frames (tbl : list (bytes * bytes)) (k : N) : nat :=
  match tbl with
  | [] => O
  | (_, c) :: r => let fl := 5 + N.of_nat (length c) in
                   if fl <=? k then S (complete_frames r (k - fl)) else O
  end.

Fixpoint entries_equiv (a b : list wal_entry) : bool :=
  match a, b with
  | [], [] => true
  | x :: a', y :: b' => entry_equiv x y && entries_equiv a' b'
  | _, _ => false
  end.

(* one observation of the real reader on seg[:cut] *)
Record cut_obs := { co_cut : N; co_k : N; co_err : bool; co_n : N; co_panic : bool; co_prefix_ok : bool }.

Definition co := Build_cut_obs.

Definition cut_agree (es : list wal_entry) (tbl : list (bytes * bytes)) (seg : bytes) (o : cut_obs) : bool :=
  let r := replay_segment (tbl_dec tbl) (firstn (N.to_nat (co_cut o)) seg) in
  Bool.eqb (r_crashed r) (co_panic o) &&
  (co_panic o ||
   (N.eqb (N.of_nat (length (r_entries r))) (co_k o) && Bool.eqb (r_err r) (co_err o) &&
    N.eqb (r_n r) (co_n o) &&
    Bool.eqb (entries_equiv (r_entries r) (firstn (length (r_entries r)) es)) (co_prefix_ok o))).

Definition cut_spec (tbl : list (bytes * bytes)) (o : cut_obs) : bool :=
  let j := complete_frames tbl (co_cut o) in
  negb (co_panic o) && co_prefix_ok o && N.eqb (co_k o) (N.of_nat j) &&
  N.eqb (co_n o) (frames_len tbl j) && Bool.eqb (co_err o) (negb (N.eqb (co_n o) (co_cut o))).

(* one segment file handed to the real CacheLoader.Load: snappy table, full bytes, the offset it
   was torn at, and the file size found after Load *)
Record load_seg := { ls_tbl : list (bytes * bytes); ls_seg : bytes; ls_cut : N; ls_size_after : N }.
Definition ls := Build_load_seg.

Definition load_agree (s : load_seg) : bool :=
  let r := replay_segment (tbl_dec (ls_tbl s)) (firstn (N.to_nat (ls_cut s)) (ls_seg s)) in
  negb (r_crashed r) && N.eqb (ls_size_after s) (if r_err r then r_n r else ls_cut s).

Definition load_spec (s : load_seg) : bool :=
  N.eqb (ls_size_after s) (frames_len (ls_tbl s) (complete_frames (ls_tbl s) (ls_cut s))).

(* ---------- block values ---------- *)

Inductive bvals := BInt (l : list N) | BUns (l : list N) | BFloat (l : list N) | BBool (l : list bool).

Definition bvals_type (v : bvals) : N :=
  match v with
  | BInt _ => c13_BlockInteger | BUns _ => c13_BlockUnsigned
  | BFloat _ => c13_BlockFloat64 | BBool _ => c13_BlockBoolean
  end.

Definition bvals_encode (v : bvals) : option bytes :=
  match v with
  | BInt l | BUns l => int_encode_iter l
  | BFloat l => float_encode_iter l
  | BBool l => Some (bool_encode_iter l)
  end.

(* ---------- cases ---------- *)

Inductive case :=
(* simple8b alone: words produced by jwilder EncodeAll, jwilder Encoder (streaming) and pkg
   EncodeAll (None = error), and whether every real decoder gave the input back *)
| CS8b (vals : list N) (jw_all jw_stream pkg_all : option (list N)) (dec_ok : bool)
(* codecs: iterator-encoder bytes, batch-encoder bytes, then decoder X on encoder Y's bytes:
   iter/iter, iter/batch, batch/iter, batch/batch *)
| CTime (ts : list N) (ib bb : option bytes) (dii dib dbi dbb : dobs N)
| CInt (vs : list N) (ib bb : option bytes) (dii dib dbi dbb : dobs N)
| CBool (vs : list bool) (ib bb : bytes) (dii dib dbi dbb : dobs bool)
(* strings: header byte and DECOMPRESSED body of both encoders *)
| CStr (vs : list bytes) (ih : N) (ipre : bytes) (bh : N) (bpre : bytes) (dii dib dbi dbb : dobs bytes)
| CFloat (vs : list N) (ib bb : option bytes) (dii dib dbi dbb : dobs N)
(* Values.Encode -> block bytes; DecodeBlock and Decode*ArrayBlock gave the input back? *)
| CBlock (ts : list N) (vs : bvals) (block : option bytes) (dec_iter_ok dec_arr_ok : bool)
(* entry -> real MarshalBinary bytes (None = panic); rt: 0 real Unmarshal(real bytes) equals
   the entry, 1 differs, 2 error, 3 panic *)
| CWalEntry (e : wal_entry) (payload : option bytes) (rt : N)
(* UnmarshalBinary of an arbitrary payload: cls 0 ok (entry), 1 ErrWALCorrupt, 2 other error, 3 panic *)
| CWalUnm (typ : N) (payload : bytes) (cls : N) (e : option wal_entry)
(* a log: entries, snappy table (payload, compressed) per entry, real segment bytes, and
   the real reader run on several truncations *)
| CWalCut (es : list wal_entry) (tbl : list (bytes * bytes)) (seg : bytes) (cuts : list cut_obs)
(* several segment files, some torn, replayed by the real CacheLoader.Load (ONE reader reused
   across files, torn files truncated at Count()): Load's error / panic, file sizes afterwards *)
| CWalLoad (segs : list load_seg) (err panicked : bool)
(* very long strings (up to > 2 MiB): judged on the implementation's observation only; the
   model is not evaluated at these sizes.  lens = string lengths, h = content hash,
   ci / cb = outcome of iterator / batch encoder + both decoders:
   0 exact round trip, 1 values differ, 2 error, 3 panic *)
| CBig (lens : list N) (h : N) (ci cb : N).

Definition all_same {A} (a b c d : dobs A) : bool := is_same a && is_same b && is_same c && is_same d.

Definition check_case (c : case) : N :=
  match c with
  | CS8b vals ja js pa ok =>
      let agree := opt_eqb (list_eqb N.eqb) (jw_encode_all vals) ja &&
                   opt_eqb (list_eqb N.eqb) (jw_encode_stream vals) js &&
                   opt_eqb (list_eqb N.eqb) (pkg_encode_all vals) pa &&
                   (* the model decodes the real words back to the input iff the real decoders did *)
                   Bool.eqb ok
                     (match ja, js, pa with
                      | Some a, Some s, Some p =>
                          opt_eqb (list_eqb N.eqb) (decode_words c13_jw_selector a) (Some vals) &&
                          opt_eqb (list_eqb N.eqb) (jw_decode_bytes (words_to_bytes s)) (Some vals) &&
                          opt_eqb (list_eqb N.eqb) (pkg_decode_bytes (words_to_bytes p)) (Some vals)
                      | _, _, _ => false
                      end) in
      (* out-of-range inputs (some value >= 2^60) must be rejected, not mis-encoded *)
      let in_range := forallb (fun v => v <? two60) vals in
      code agree (if in_range then ok
                  else match ja, js, pa with None, None, None => true | _, _, _ => ok end)
  | CTime ts ib bb dii dib dbi dbb =>
      let agree := opt_eqb bytes_eqb (time_encode_iter ts) ib &&
                   opt_eqb bytes_eqb (time_encode_batch ts) bb &&
                   dobs_agree N.eqb ts (on_bytes time_decode_iter ib) dii &&
                   dobs_agree N.eqb ts (on_bytes time_decode_iter bb) dib &&
                   dobs_agree N.eqb ts (on_bytes (fun b => of_opt (time_decode_batch b)) ib) dbi &&
                   dobs_agree N.eqb ts (on_bytes (fun b => of_opt (time_decode_batch b)) bb) dbb in
      code agree (all_same dii dib dbi dbb)
  | CInt vs ib bb dii dib dbi dbb =>
      let agree := opt_eqb bytes_eqb (int_encode_iter vs) ib &&
                   opt_eqb bytes_eqb (int_encode_batch vs) bb &&
                   dobs_agree N.eqb vs (on_bytes int_decode_iter ib) dii &&
                   dobs_agree N.eqb vs (on_bytes int_decode_iter bb) dib &&
                   dobs_agree N.eqb vs (on_bytes (fun b => of_opt (int_decode_batch b)) ib) dbi &&
                   dobs_agree N.eqb vs (on_bytes (fun b => of_opt (int_decode_batch b)) bb) dbb in
      code agree (all_same dii dib dbi dbb)
  | CBool vs ib bb dii dib dbi dbb =>
      let agree := bytes_eqb (bool_encode_iter vs) ib &&
                   bytes_eqb (bool_encode_batch vs) bb &&
                   dobs_agree Bool.eqb vs (of_opt (bool_decode_iter ib)) dii &&
                   dobs_agree Bool.eqb vs (of_opt (bool_decode_iter bb)) dib &&
                   dobs_agree Bool.eqb vs (of_opt (bool_decode_batch ib)) dbi &&
                   dobs_agree Bool.eqb vs (of_opt (bool_decode_batch bb)) dbb in
      code agree (all_same dii dib dbi dbb)
  | CStr vs ih ipre bh bpre dii dib dbi dbb =>
      let h := hdr c13_stringCompressedSnappy 0 in
      let agree := N.eqb ih h && N.eqb bh h &&
                   bytes_eqb (str_concat vs) ipre && bytes_eqb (str_concat vs) bpre &&
                   dobs_agree bytes_eqb vs (of_opt (str_decode_body ipre)) dii &&
                   dobs_agree bytes_eqb vs (of_opt (str_decode_body bpre)) dib &&
                   dobs_agree bytes_eqb vs (of_opt (str_decode_body ipre)) dbi &&
                   dobs_agree bytes_eqb vs (of_opt (str_decode_body bpre)) dbb in
      code agree (all_same dii dib dbi dbb)
  | CFloat vs ib bb dii dib dbi dbb =>
      let agree := opt_eqb bytes_eqb (float_encode_iter vs) ib &&
                   opt_eqb bytes_eqb (float_encode_batch vs) bb &&
                   dobs_agree N.eqb vs (on_bytes (fun b => of_opt (float_decode_iter b)) ib) dii &&
                   dobs_agree N.eqb vs (on_bytes (fun b => of_opt (float_decode_iter b)) bb) dib &&
                   dobs_agree N.eqb vs (on_bytes (fun b => of_opt (float_decode_batch b)) ib) dbi &&
                   dobs_agree N.eqb vs (on_bytes (fun b => of_opt (float_decode_batch b)) bb) dbb in
      (* NaN is not a storable value (the parser rejects it): a refusal is the right answer *)
      (* ... and so is +-Inf: outside the domain an encoder may refuse, but must not corrupt *)
      let is_inf := fun v => v mod two63 =? pos_inf in
      let enc_ok := fun (b : option bytes) (d1 d2 : dobs N) =>
                      match b with None => true | Some _ => is_same d1 && is_same d2 end in
      let spec := if existsb is_nan vs
                  then match ib, bb with None, None => true | _, _ => false end
                  else if existsb is_inf vs
                  then enc_ok ib dii dbi && enc_ok bb dib dbb
                  else all_same dii dib dbi dbb in
      code agree spec
  | CBlock ts vs block di da =>
      let m := match time_encode_iter ts, bvals_encode vs with
               | Some tb, Some vb => Some (pack_block (bvals_type vs) tb vb)
               | _, _ => None
               end in
      let agree := opt_eqb bytes_eqb m block &&
                   match block with
                   | Some (_ :: body) =>
                       match unpack_block body with
                       | Some (tb, vb) =>
                           opt_eqb bytes_eqb (time_encode_iter ts) (Some tb) &&
                           opt_eqb bytes_eqb (bvals_encode vs) (Some vb)
                       | None => false
                       end
                   | _ => true
                   end in
      code agree (match block with Some _ => di && da | None => false end)
  | CWalEntry e payload rt =>
      let agree := match payload with
                   | Some p => payload_matches e p ||
                               (* outside the domain the model only has to reproduce the bytes *)
                               (negb (entry_valid e) &&
                                match marshal e with MOk p' => bytes_eqb p p' | MCrash => false end)
                   | None => match marshal e with MCrash => true | MOk _ => false end
                   end &&
                   (* and the model's own decode of the real bytes round-trips iff the real one did *)
                   match payload with
                   | Some p => Bool.eqb (N.eqb rt 0)
                                 (match unmarshal (entry_type e) p with
                                  | UOk e' => entry_equiv e e' | _ => false end)
                   | None => true
                   end in
      code agree (if entry_valid e then (match payload with Some _ => N.eqb rt 0 | None => false end)
                  else true)
  | CWalUnm typ payload cls eo =>
      let agree := match unmarshal typ payload, eo with
                   | UOk e, Some e' => N.eqb cls 0 && entry_equiv e e'
                   | UCorrupt, None => N.eqb cls 1
                   | UErr, None => N.eqb cls 2
                   | UCrash, None => N.eqb cls 3
                   | _, _ => false
                   end in
      code agree (negb (N.eqb cls 3))
  | CWalCut es tbl seg cuts =>
      let agree := segment_matches es tbl seg && forallb (cut_agree es tbl seg) cuts in
      code agree (forallb (cut_spec tbl) cuts)
  | CWalLoad segs err panicked =>
      let agree := negb err && negb panicked && forallb load_agree segs in
      code agree (negb err && negb panicked && forallb load_spec segs)
  | CBig _ _ ci cb => code true (N.eqb ci 0 && N.eqb cb 0)
  end.
