(* C13/IntProofs.v — integer / unsigned codecs: for EVERY list of 64-bit values, whichever
   scheme the encoder picks (RLE, simple8b, uncompressed), both encoders' output is decoded
   back to the input by BOTH decoders (so the iterator and the batch decoder agree). *)
From Verif Require Import Lib.Bytes Lib.Varint C13.Simple8b C13.IntEnc C13.S8bProofs.
From VerifGen Require Import Consts.
From Coq Require Import ZifyBool ZifyNat ZifyN NArithRing.
Open Scope N_scope.

Ltac Zify.zify_post_hook ::= Z.to_euclidean_division_equations.

(* ---------- 64-bit arithmetic ---------- *)

Lemma add64_lt a b : add64 a b < two64.
Proof. unfold add64. apply N.mod_lt. unfold two64; lia. Qed.
Lemma sub64_lt a b : sub64 a b < two64.
Proof. unfold sub64. apply N.mod_lt. unfold two64; lia. Qed.
Lemma mul64_lt a b : mul64 a b < two64.
Proof. unfold mul64. apply N.mod_lt. unfold two64; lia. Qed.

Lemma add_sub64 x p : x < two64 -> p < two64 -> add64 p (sub64 x p) = x.
Proof. unfold add64, sub64, two64. intros. lia. Qed.

Lemma add64_0_l x : x < two64 -> add64 0 x = x.
Proof. unfold add64, two64. intros. lia. Qed.

Lemma add64_step first i d :
  add64 (add64 first (mul64 i d)) d = add64 first (mul64 (i + 1) d).
Proof.
  unfold add64, mul64.
  assert (M : two64 <> 0) by (unfold two64; lia).
  rewrite N.add_mod_idemp_l by exact M.
  replace (first + (i * d) mod two64 + d) with ((i * d) mod two64 + (first + d)) by ring.
  rewrite N.add_mod_idemp_l by exact M.
  rewrite (N.add_mod_idemp_r first ((i + 1) * d)) by exact M.
  f_equal. ring.
Qed.

Lemma deltas_lt : forall l p, Forall (fun v => v < two64) (deltas_from p l).
Proof. induction l as [|x r IH]; intros p; cbn [deltas_from]; constructor; [apply sub64_lt|apply IH]. Qed.

Lemma prefix_deltas : forall l p, p < two64 -> Forall (fun v => v < two64) l ->
  prefix_sums p (deltas_from p l) = l.
Proof.
  induction l as [|x r IH]; intros p Hp H; [reflexivity|].
  inversion H as [|? ? Hx Hr]; subst. cbn [deltas_from prefix_sums].
  rewrite add_sub64 by assumption. f_equal. apply IH; assumption.
Qed.

Lemma deltas_length : forall l p, length (deltas_from p l) = length l.
Proof. induction l as [|x r IH]; intros p; cbn; [reflexivity|]. rewrite IH. reflexivity. Qed.

Lemma map_zz_dec_enc : forall l, Forall (fun v => v < two64) l -> map zz_dec64 (map zz_enc64 l) = l.
Proof.
  induction l as [|x r IH]; intros H; [reflexivity|]. inversion H; subst.
  cbn [map]. rewrite zz_dec_enc64 by assumption. f_equal. apply IH; assumption.
Qed.

Lemma map_zz_enc_lt : forall l, Forall (fun v => v < two64) l -> Forall (fun v => v < two64) (map zz_enc64 l).
Proof.
  induction l as [|x r IH]; intros H; cbn [map]; [constructor|]. inversion H; subst.
  constructor; [apply zz_enc64_lt; assumption|apply IH; assumption].
Qed.

Lemma int_zz_deltas_lt vs : Forall (fun v => v < two64) (int_zz_deltas vs).
Proof. unfold int_zz_deltas. apply map_zz_enc_lt. apply deltas_lt. Qed.

(* the value part: undoing zig-zag and deltas *)
Lemma int_values_back vs : Forall (fun v => v < two64) vs ->
  prefix_sums 0 (map zz_dec64 (int_zz_deltas vs)) = vs.
Proof.
  intros H. unfold int_zz_deltas. rewrite map_zz_dec_enc by apply deltas_lt.
  apply prefix_deltas; [unfold two64; lia|exact H].
Qed.

(* ---------- runs ---------- *)

Lemma all_eq_repeat : forall x r, forallb (N.eqb x) r = true -> r = repeat x (length r).
Proof.
  induction r as [|y r IH]; intros H; [reflexivity|].
  cbn [forallb] in H. apply andb_true_iff in H. destruct H as [Hy Hr].
  apply N.eqb_eq in Hy. subst y. cbn [length repeat]. f_equal. apply IH; exact Hr.
Qed.

Lemma prefix_sums_repeat : forall k acc d,
  prefix_sums acc (repeat d k) = arith_run k (add64 acc d) d.
Proof.
  induction k as [|k IH]; intros acc d; [reflexivity|].
  cbn [repeat prefix_sums arith_run]. f_equal. apply IH.
Qed.

Lemma rle_mul_run_arith : forall n i first d,
  rle_mul_run n i first d = arith_run n (add64 first (mul64 i d)) d.
Proof.
  induction n as [|n IH]; intros i first d; [reflexivity|].
  cbn [rle_mul_run arith_run]. f_equal. rewrite IH. f_equal. symmetry. apply add64_step.
Qed.

Lemma map_repeat {A B} (f : A -> B) x n : map f (repeat x n) = repeat (f x) n.
Proof. induction n; cbn; [reflexivity|]. f_equal. assumption. Qed.

(* ---------- bytes ---------- *)

Lemma hdr_div tag : tag < 16 -> hdr tag 0 / 16 = tag.
Proof. intros H. unfold hdr. rewrite N.add_0_r. apply N.div_mul. lia. Qed.

Lemma be8_nonnil w rest : is_nil (be_enc 8 w ++ rest) = false.
Proof. destruct (be_enc8_shape w) as [b0 [? [? [? [? [? [? [? E]]]]]]]]. rewrite E. reflexivity. Qed.

Lemma take8_be w rest : take 8 (be_enc 8 w ++ rest) = Some (be_enc 8 w, rest).
Proof. pose proof (take_app (be_enc 8 w) rest) as T. rewrite be_enc_length in T. exact T. Qed.

Lemma be_dec_enc8 w : w < two64 -> be_dec (be_enc 8 w) = w.
Proof. intros H. apply be_dec_enc. rewrite <- two64_pow. exact H. Qed.

Lemma words_cons w ws : words_to_bytes (w :: ws) = be_enc 8 w ++ words_to_bytes ws.
Proof. reflexivity. Qed.

Lemma decode_words_upto_ok table : forall ws vs, decode_words table ws = Some vs ->
  decode_words_upto table ws = (vs, false).
Proof.
  induction ws as [|w r IH]; intros vs H; cbn [decode_words decode_words_upto] in *.
  - inversion H; reflexivity.
  - destruct (decode_word table w) as [a|]; [|discriminate].
    destruct (decode_words table r) as [b|]; [|discriminate].
    inversion H; subst. rewrite (IH b eq_refl). reflexivity.
Qed.

Lemma tag_values :
  c13_intUncompressed = 0 /\ c13_intCompressedSimple = 1 /\ c13_intCompressedRLE = 2.
Proof. repeat split; reflexivity. Qed.

(* ---------- decoding the three layouts ---------- *)

Section Layouts.
  Variable vs : list N.
  Hypothesis Hvs : Forall (fun v => v < two64) vs.
  Variables (e0 : N) (rest : list N).
  Hypothesis Hencs : int_zz_deltas vs = e0 :: rest.

  Let He0 : e0 < two64.
  Proof. pose proof (int_zz_deltas_lt vs) as H. rewrite Hencs in H. inversion H; assumption. Qed.
  Let Hrest : Forall (fun v => v < two64) rest.
  Proof. pose proof (int_zz_deltas_lt vs) as H. rewrite Hencs in H. inversion H; assumption. Qed.
  Let Hback : prefix_sums 0 (map zz_dec64 (e0 :: rest)) = vs.
  Proof. rewrite <- Hencs. apply int_values_back. exact Hvs. Qed.

  Lemma raw_decodes :
    int_decode_iter (int_raw_bytes (e0 :: rest)) = (vs, false) /\
    int_decode_batch (int_raw_bytes (e0 :: rest)) = Some vs.
  Proof.
    unfold int_raw_bytes, int_decode_iter, int_decode_batch.
    destruct tag_values as [T0 [T1 T2]]. rewrite T0, T1, T2.
    rewrite hdr_div by lia. cbn [N.eqb Pos.eqb].
    change (flat_map (be_enc 8) (e0 :: rest)) with (words_to_bytes (e0 :: rest)).
    rewrite words_cons, be8_nonnil. rewrite <- words_cons.
    rewrite <- (app_nil_r (words_to_bytes (e0 :: rest))).
    rewrite bytes_to_words_app by (try (constructor; assumption); cbn; lia).
    cbn [is_nil negb]. rewrite Hback. split; reflexivity.
  Qed.

  Lemma packed_decodes ws :
    decode_words c13_jw_selector ws = Some rest -> Forall (fun w => w < two64) ws ->
    int_decode_iter (int_packed_bytes e0 ws) = (vs, false) /\
    int_decode_batch (int_packed_bytes e0 ws) = Some vs.
  Proof.
    intros Hd Hws. unfold int_packed_bytes, int_decode_iter, int_decode_batch.
    destruct tag_values as [T0 [T1 T2]]. rewrite T0, T1, T2.
    rewrite hdr_div by lia. cbn [N.eqb Pos.eqb]. rewrite be8_nonnil. split.
    - rewrite <- words_cons. rewrite <- (app_nil_r (words_to_bytes (e0 :: ws))).
      rewrite bytes_to_words_app by (try (constructor; assumption); cbn; lia).
      rewrite (decode_words_upto_ok _ _ _ Hd). cbn [is_nil negb orb]. rewrite Hback. reflexivity.
    - rewrite take8_be. rewrite pkg_decode_bytes_words by exact Hws.
      rewrite <- selector_tables_equal, Hd. rewrite be_dec_enc8 by exact He0.
      rewrite Hback. reflexivity.
  Qed.

  Lemma rle_decodes :
    forallb (N.eqb (hd 0 rest)) rest = true -> rest <> [] -> N.of_nat (length rest) < two64 ->
    let b := int_rle_bytes e0 (hd 0 rest) (N.of_nat (length rest)) in
    int_decode_iter b = (vs, false) /\ int_decode_batch b = Some vs.
  Proof.
    intros Heq Hne Hlen b. subst b.
    set (e1 := hd 0 rest) in *.
    assert (He1 : e1 < two64).
    { subst e1. destruct rest as [|y r]; [contradiction|]. inversion Hrest; assumption. }
    assert (Hrep : rest = repeat e1 (length rest)) by (apply all_eq_repeat; exact Heq).
    assert (Hvals : vs = arith_run (length rest + 1) (zz_dec64 e0) (zz_dec64 e1)).
    { rewrite <- Hback. cbn [map prefix_sums]. rewrite add64_0_l by (apply zz_dec64_lt; exact He0).
      rewrite Hrep at 1. rewrite map_repeat, prefix_sums_repeat.
      replace (length rest + 1)%nat with (S (length rest)) by lia. reflexivity. }
    unfold int_rle_bytes, int_decode_iter, int_decode_batch.
    destruct tag_values as [T0 [T1 T2]]. rewrite T0, T1, T2.
    rewrite hdr_div by lia. cbn [N.eqb Pos.eqb]. rewrite be8_nonnil, take8_be.
    rewrite uvarint_put_uvarint by exact He1.
    rewrite <- (app_nil_r (put_uvarint (N.of_nat (length rest)))).
    rewrite uvarint_put_uvarint by exact Hlen.
    rewrite be_dec_enc8 by exact He0. rewrite Nat2N.id.
    split; [|rewrite Hvals; reflexivity].
    rewrite rle_mul_run_arith. f_equal. rewrite Hvals. f_equal.
    unfold mul64. rewrite N.mul_0_l, N.mod_0_l by (unfold two64; lia).
    unfold add64. rewrite N.add_0_r. apply N.mod_small. apply zz_dec64_lt; exact He0.
  Qed.
End Layouts.

(* ---------- bounds from the scheme tests ---------- *)

Lemma not_exists_gt_lt60 l :
  existsb (fun v => c13_jw_max_value <? v) l = false -> Forall (fun v => v < two60) l.
Proof.
  intros H. apply Forall_forall. intros v Hv.
  destruct (N.ltb_spec c13_jw_max_value v) as [Hgt|Hle].
  - assert (E : existsb (fun v => c13_jw_max_value <? v) l = true).
    { apply existsb_exists. exists v. split; [exact Hv|apply N.ltb_lt; exact Hgt]. }
    rewrite E in H. discriminate.
  - destruct max_values_are_2_60_minus_1 as [E _]. rewrite E in Hle. unfold two60 in *. lia.
Qed.

Lemma fold_max_ge : forall l a v, In v l -> v <= fold_left N.max l a.
Proof.
  induction l as [|x r IH]; intros a v Hin; [contradiction|].
  cbn [fold_left]. destruct Hin as [->|Hin]; [|apply IH; exact Hin].
  clear IH. revert a. induction r as [|y r IHr]; intros a; cbn [fold_left]; [lia|].
  specialize (IHr (N.max a y)).
  assert (Hm : fold_left N.max r (N.max (N.max a v) y) = fold_left N.max r (N.max (N.max a y) v)).
  { f_equal. lia. }
  rewrite Hm. exact IHr.
Qed.

Lemma fold_max_le_lt60 l :
  (c13_pkg_max_value <? fold_left N.max l 0) = false -> Forall (fun v => v < two60) l.
Proof.
  intros H. apply N.ltb_ge in H. apply Forall_forall. intros v Hv.
  pose proof (fold_max_ge l 0 v Hv) as Hle.
  destruct max_values_are_2_60_minus_1 as [_ E]. rewrite E in H. unfold two60 in *. lia.
Qed.

(* ---------- the theorems ---------- *)

Lemma int_roundtrip_iter_lemma vs :
  Forall (fun v => v < two64) vs -> N.of_nat (length vs) < two64 ->
  exists b, int_encode_iter vs = Some b /\
            int_decode_iter b = (vs, false) /\ int_decode_batch b = Some vs.
Proof.
  intros Hvs Hlen. unfold int_encode_iter.
  destruct (int_zz_deltas vs) as [|e0 rest] eqn:Hencs.
  - assert (vs = []).
    { unfold int_zz_deltas in Hencs. destruct vs; [reflexivity|discriminate]. }
    subst vs. exists []. repeat split; reflexivity.
  - assert (Hl : length (e0 :: rest) = length vs).
    { rewrite <- Hencs. unfold int_zz_deltas. rewrite map_length, deltas_length. reflexivity. }
    destruct (all_eq rest && (2 <? length (e0 :: rest))%nat) eqn:Hrle.
    + apply andb_true_iff in Hrle. destruct Hrle as [Heq Hn]. apply Nat.ltb_lt in Hn.
      assert (Hne : rest <> []) by (destruct rest; [cbn in Hn; lia|discriminate]).
      assert (Heq' : forallb (N.eqb (hd 0 rest)) rest = true).
      { destruct rest as [|y r]; [contradiction|]. cbn [hd forallb all_eq] in *. rewrite N.eqb_refl. exact Heq. }
      eexists. split; [reflexivity|].
      apply (rle_decodes vs Hvs e0 rest Hencs Heq' Hne). cbn [length] in Hl. lia.
    + destruct (existsb (fun v => c13_jw_max_value <? v) (e0 :: rest)) eqn:Hbig.
      * eexists. split; [reflexivity|]. apply (raw_decodes vs Hvs e0 rest Hencs).
      * cbn [existsb] in Hbig. apply orb_false_iff in Hbig. destruct Hbig as [_ Hbig].
        destruct (jw_encode_all_roundtrip rest (not_exists_gt_lt60 _ Hbig)) as [ws [He [Hd Hws]]].
        rewrite He. eexists. split; [reflexivity|].
        apply (packed_decodes vs Hvs e0 rest Hencs ws Hd Hws).
Qed.

Lemma int_roundtrip_batch_lemma vs :
  Forall (fun v => v < two64) vs -> N.of_nat (length vs) < two64 ->
  exists b, int_encode_batch vs = Some b /\
            int_decode_iter b = (vs, false) /\ int_decode_batch b = Some vs.
Proof.
  intros Hvs Hlen. unfold int_encode_batch.
  destruct (int_zz_deltas vs) as [|e0 rest] eqn:Hencs.
  - assert (vs = []).
    { unfold int_zz_deltas in Hencs. destruct vs; [reflexivity|discriminate]. }
    subst vs. exists []. repeat split; reflexivity.
  - assert (Hl : length (e0 :: rest) = length vs).
    { rewrite <- Hencs. unfold int_zz_deltas. rewrite map_length, deltas_length. reflexivity. }
    destruct ((2 <? length (e0 :: rest))%nat && all_eq rest) eqn:Hrle.
    + apply andb_true_iff in Hrle. destruct Hrle as [Hn Heq]. apply Nat.ltb_lt in Hn.
      assert (Hne : rest <> []) by (destruct rest; [cbn in Hn; lia|discriminate]).
      assert (Heq' : forallb (N.eqb (hd 0 rest)) rest = true).
      { destruct rest as [|y r]; [contradiction|]. cbn [hd forallb all_eq] in *. rewrite N.eqb_refl. exact Heq. }
      eexists. split; [reflexivity|].
      apply (rle_decodes vs Hvs e0 rest Hencs Heq' Hne). cbn [length] in Hl. lia.
    + destruct (c13_pkg_max_value <? fold_left N.max rest 0) eqn:Hbig.
      * eexists. split; [reflexivity|]. apply (raw_decodes vs Hvs e0 rest Hencs).
      * destruct (pkg_encode_all_roundtrip rest (fold_max_le_lt60 _ Hbig)) as [ws [He [Hd Hws]]].
        rewrite He. eexists. split; [reflexivity|].
        apply (packed_decodes vs Hvs e0 rest Hencs ws); [|exact Hws].
        rewrite selector_tables_equal. exact Hd.
Qed.
