(* C13/IntEnc.v — executable model of the tsm1 integer codecs.
     int.go            IntegerEncoder (Write/Bytes), IntegerDecoder (SetBytes/Next/Read)
     batch_integer.go  IntegerArrayEncodeAll / IntegerArrayDecodeAll and the Unsigned variants
   int64 and uint64 values are both carried as their 64-bit pattern (N < 2^64): the unsigned
   codecs are the integer codecs applied to the reinterpreted slice (reintepret*Slice), and
   DecodeUnsignedBlock converts IntegerDecoder.Read() with uint64(..).  All arithmetic is
   explicit mod 2^64.  Definitions only. *)
From Verif Require Export Lib.Bytes Lib.Varint C13.Simple8b.
From VerifGen Require Import Consts.
Open Scope N_scope.

Definition add64 (a b : N) : N := (a + b) mod two64.
Definition sub64 (a b : N) : N := (a + two64 - b) mod two64.   (* a, b < 2^64 *)
Definition mul64 (a b : N) : N := (a * b) mod two64.

(* deltas[i] = src[i] - src[i-1] (the in-place reverse loop), deltas[0] = src[0] - prev *)
Fixpoint deltas_from (prev : N) (l : list N) : list N :=
  match l with
  | [] => []
  | x :: r => sub64 x prev :: deltas_from x r
  end.

(* running sums: out[i] = acc + l[0] + ... + l[i]  (mod 2^64) *)
Fixpoint prefix_sums (acc : N) (l : list N) : list N :=
  match l with
  | [] => []
  | x :: r => let a := add64 acc x in a :: prefix_sums a r
  end.

Definition all_eq (l : list N) : bool :=
  match l with
  | [] => true
  | x :: r => forallb (N.eqb x) r
  end.

Definition hdr (tag low : N) : N := tag * 16 + low.   (* tag << 4 | low, low < 16 *)

(* zig-zag deltas: values[i] = ZigZagEncode(v_i - v_{i-1}), prev starts at 0 *)
Definition int_zz_deltas (src : list N) : list N := map zz_enc64 (deltas_from 0 src).

Definition int_rle_bytes (e0 e1 : N) (count : N) : bytes :=
  hdr c13_intCompressedRLE 0 :: be_enc 8 e0 ++ put_uvarint e1 ++ put_uvarint count.

Definition int_raw_bytes (encs : list N) : bytes :=
  hdr c13_intUncompressed 0 :: flat_map (be_enc 8) encs.

Definition int_packed_bytes (e0 : N) (words : list N) : bytes :=
  hdr c13_intCompressedSimple 0 :: be_enc 8 e0 ++ words_to_bytes words.

(* IntegerEncoder: Write* then Bytes.  None = error returned. *)
Definition int_encode_iter (src : list N) : option bytes :=
  let encs := int_zz_deltas src in
  match encs with
  | [] => Some []                                          (* encodePacked: nil, nil *)
  | e0 :: rest =>
      if all_eq rest && (2 <? length encs)%nat             (* e.rle && len(e.values) > 2 *)
      then Some (int_rle_bytes e0 (hd 0 rest) (N.of_nat (length rest)))
      else if existsb (fun v => c13_jw_max_value <? v) encs (* ANY value, incl. the first *)
      then Some (int_raw_bytes encs)
      else match jw_encode_all rest with
           | Some ws => Some (int_packed_bytes e0 ws)
           | None => None
           end
  end.

(* IntegerArrayEncodeAll: max is taken over deltas[1:] only *)
Definition int_encode_batch (src : list N) : option bytes :=
  let encs := int_zz_deltas src in
  match encs with
  | [] => Some []                                          (* nil, nil *)
  | e0 :: rest =>
      if (2 <? length encs)%nat && all_eq rest
      then Some (int_rle_bytes e0 (hd 0 rest) (N.of_nat (length rest)))
      else if c13_pkg_max_value <? fold_left N.max rest 0
      then Some (int_raw_bytes encs)
      else match pkg_encode_all rest with
           | Some ws => Some (int_packed_bytes e0 ws)
           | None => None
           end
  end.

(* ---------- decoders ---------- *)

(* first, first+d, first+2d, ... (n values, mod 2^64) *)
Fixpoint arith_run (n : nat) (first d : N) : list N :=
  match n with
  | O => []
  | S k => first :: arith_run k (add64 first d) d
  end.

(* IntegerDecoder RLE Read(): ZigZagDecode(first) + int64(i) * ZigZagDecode(delta) *)
Fixpoint rle_mul_run (n : nat) (i : N) (first d : N) : list N :=
  match n with
  | O => []
  | S k => add64 first (mul64 i d) :: rle_mul_run k (i + 1) first d
  end.

Fixpoint decode_words_upto (table : list (nat * N)) (ws : list N) : list N * bool :=
  match ws with
  | [] => ([], false)
  | w :: r => match decode_word table w with
              | None => ([], true)
              | Some a => let (b, e) := decode_words_upto table r in (a ++ b, e)
              end
  end.

Definition is_nil {A} (l : list A) : bool := match l with [] => true | _ => false end.

(* IntegerDecoder driven by  for d.Next() { out = append(out, d.Read()) } ; d.Error().
   Result: values produced, and whether Error() != nil at the end. *)
Definition int_decode_iter (b : bytes) : list N * bool :=
  match b with
  | [] => ([], false)
  | h :: body =>
      let enc := h / 16 in
      if is_nil body then ([], false)                      (* Next: i >= n && no bytes *)
      else if enc =? c13_intUncompressed then
        let (ws, rest) := bytes_to_words body in
        (prefix_sums 0 (map zz_dec64 ws), negb (is_nil rest))
      else if enc =? c13_intCompressedSimple then
        match bytes_to_words body with
        | ([], _) => ([], true)                            (* < 8 bytes *)
        | (w0 :: ws, rest) =>
            let (vals, e) := decode_words_upto c13_jw_selector ws in
            (prefix_sums 0 (map zz_dec64 (w0 :: vals)), e || negb (is_nil rest))
        end
      else if enc =? c13_intCompressedRLE then
        match take 8 body with
        | None => ([], true)
        | Some (fb, r1) =>
            match uvarint r1 with
            | None => ([], true)
            | Some (value, r2) =>
                match uvarint r2 with
                | None => ([], true)
                | Some (count, _) =>
                    (rle_mul_run (N.to_nat count + 1) 0 (zz_dec64 (be_dec fb)) (zz_dec64 value), false)
                end
            end
        end
      else ([], true)                                      (* unknown encoding *)
  end.

(* IntegerArrayDecodeAll / UnsignedArrayDecodeAll.  None = error. *)
Definition int_decode_batch (b : bytes) : option (list N) :=
  match b with
  | [] => Some []
  | h :: body =>
      let enc := h / 16 in
      if enc =? c13_intUncompressed then
        let (ws, rest) := bytes_to_words body in
        if is_nil rest then Some (prefix_sums 0 (map zz_dec64 ws)) else None
      else if enc =? c13_intCompressedSimple then
        match take 8 body with
        | None => None
        | Some (fb, r) =>
            match pkg_decode_bytes r with
            | None => None
            | Some vals => Some (prefix_sums 0 (map zz_dec64 (be_dec fb :: vals)))
            end
        end
      else if enc =? c13_intCompressedRLE then
        match take 8 body with
        | None => None
        | Some (fb, r1) =>
            match uvarint r1 with
            | None => None
            | Some (value, r2) =>
                match uvarint r2 with
                | None => None
                | Some (count, _) =>
                    Some (arith_run (N.to_nat count + 1) (zz_dec64 (be_dec fb)) (zz_dec64 value))
                end
            end
        end
      else None
  end.
