(* C13/Simple8b.v — executable model of simple8b as used by tsm1:
     github.com/jwilder/encoding/simple8b  Encode / EncodeAll / Encoder (streaming, 240-slot
                                           window) / Decode / Decoder,
     pkg/encoding/simple8b                 EncodeAll / CountBytes / DecodeBytesBigEndian.
   Words are uint64 values (N).  The selector tables, the order of the canPack cascade and
   pkg's numBits table are re-read from the source (VerifGen.Consts).  Definitions only.

   packN:   sel<<60 | src[0] | src[1]<<bits | ...     every src[k] <= 2^bits-1 was checked by
            canPack, so the OR of disjoint bit ranges is written as a sum.
   unpackN: dst[k] = (v >> k*bits) & (2^bits-1)        written as repeated div/mod. *)
From Verif Require Export Lib.Bytes Lib.Varint.
From VerifGen Require Import Consts.
Open Scope N_scope.

Definition two60 : N := 1152921504606846976.

Fixpoint pack_vals (bits : N) (l : list N) : N :=
  match l with
  | [] => 0
  | x :: r => x + 2 ^ bits * pack_vals bits r
  end.

Fixpoint unpack_vals (n : nat) (bits : N) (w : N) : list N :=
  match n with
  | O => []
  | S k => w mod 2 ^ bits :: unpack_vals k bits (w / 2 ^ bits)
  end.

(* ---------- decoding one word (Decode): selector = v >> 60 ---------- *)

(* selectors with bits = 0 (240 and 120) stand for a run of ones *)
Definition decode_word (table : list (nat * N)) (w : N) : option (list N) :=
  match nth_error table (N.to_nat (w / two60)) with
  | None => None                                   (* "invalid selector value" *)
  | Some (n, bits) =>
      if bits =? 0 then Some (repeat 1 n) else Some (unpack_vals n bits w)
  end.

Definition word_count (table : list (nat * N)) (w : N) : option nat :=
  match nth_error table (N.to_nat (w / two60)) with
  | None => None
  | Some (n, _) => Some n
  end.

Fixpoint decode_words (table : list (nat * N)) (ws : list N) : option (list N) :=
  match ws with
  | [] => Some []
  | w :: r => match decode_word table w, decode_words table r with
              | Some a, Some b => Some (a ++ b)
              | _, _ => None
              end
  end.

(* ---------- canPack and the cascade ---------- *)

(* canPack(src, n, bits) for bits > 0: len(src) >= n and the first n values <= 2^bits-1 *)
Definition can_pack (n : nat) (bits : N) (src : list N) : bool :=
  (n <=? length src)%nat && forallb (fun v => v <? 2 ^ bits) (firstn n src).

(* jwilder's canPack for bits = 0 checks EVERY value of src, not only the first n *)
Definition can_pack_ones_jw (n : nat) (src : list N) : bool :=
  (n <=? length src)%nat && forallb (N.eqb 1) src.

(* cascade entries: (selector, n, bits) tried in order; result = (word, values consumed) *)
Fixpoint chain_step (chain : list (N * (nat * N))) (src : list N) : option (N * nat) :=
  match chain with
  | [] => None                                     (* "value out of bounds" *)
  | (sel, (n, bits)) :: rest =>
      if can_pack n bits src
      then Some (sel * two60 + pack_vals bits (firstn n src), n)
      else chain_step rest src
  end.

Fixpoint number_from (k : N) (l : list (nat * N)) : list (N * (nat * N)) :=
  match l with
  | [] => []
  | x :: r => (k, x) :: number_from (k + 1) r
  end.

(* jwilder Encode / one iteration of jwilder EncodeAll: the cascade with the two
   all-ones selectors first.  [chain] is the (n, bits) list of the canPack calls. *)
Fixpoint jw_step_chain (chain : list (N * (nat * N))) (src : list N) : option (N * nat) :=
  match chain with
  | [] => None
  | (sel, (n, bits)) :: rest =>
      if bits =? 0
      then (if can_pack_ones_jw n src then Some (sel * two60, n) else jw_step_chain rest src)
      else (if can_pack n bits src
            then Some (sel * two60 + pack_vals bits (firstn n src), n)
            else jw_step_chain rest src)
  end.

Definition jw_encode_step (src : list N) : option (N * nat) :=
  jw_step_chain (number_from 0 c13_jw_encode_chain) src.
Definition jw_encodeall_step (src : list N) : option (N * nat) :=
  jw_step_chain (number_from 0 c13_jw_encodeall_chain) src.

(* generic driver: pack until src is empty.  fuel = length src suffices (every step
   consumes at least one value). *)
Fixpoint encode_loop (step : list N -> option (N * nat)) (fuel : nat) (src : list N)
  : option (list N) :=
  match src with
  | [] => Some []
  | _ :: _ =>
      match fuel with
      | O => None
      | S f => match step src with
               | None => None
               | Some (w, n) => match encode_loop step f (skipn n src) with
                                | Some ws => Some (w :: ws)
                                | None => None
                                end
               end
      end
  end.

(* jwilder EncodeAll *)
Definition jw_encode_all (src : list N) : option (list N) :=
  encode_loop jw_encodeall_step (length src) src.

(* jwilder Encoder (Write ... Bytes): values are buffered in a 240-slot window; a Write
   that finds the window full first flushes ONE word (Encode on the window), shifts the
   rest down and appends; Bytes() flushes until the window is empty.
   [win] = buf[h:t]; h is 0 at every Write boundary (see Model notes in DESIGN). *)
Fixpoint jw_stream (vals : list N) (win : list N) : option (list N) :=
  match vals with
  | [] => encode_loop jw_encode_step (length win) win
  | v :: r =>
      if (240 <=? length win)%nat
      then match jw_encode_step win with
           | None => None
           | Some (w, n) => match jw_stream r (skipn n win ++ [v]) with
                            | Some ws => Some (w :: ws)
                            | None => None
                            end
           end
      else jw_stream r (win ++ [v])
  end.

Definition jw_encode_stream (vals : list N) : option (list N) := jw_stream vals [].

(* pkg/encoding/simple8b EncodeAll: a run of ones is detected on the first 240 (or 120)
   remaining values only; then the numBits table (selector = code + 2). *)
Fixpoint leading_ones (l : list N) : nat :=
  match l with
  | x :: r => if x =? 1 then S (leading_ones r) else O
  | [] => O
  end.

Definition pkg_step (src : list N) : option (N * nat) :=
  let len := length src in
  let codes := chain_step (number_from 2 c13_pkg_numbits) src in
  if (120 <=? len)%nat then
    let a := firstn (if (240 <=? len)%nat then 240 else 120) src in
    let k := leading_ones a in
    if (k =? 240)%nat then Some (0, 240%nat)
    else if (120 <=? k)%nat then Some (two60, 120%nat)
    else codes
  else codes.

Definition pkg_encode_all (src : list N) : option (list N) :=
  encode_loop pkg_step (length src) src.

(* ---------- byte level: big-endian words ---------- *)

Definition words_to_bytes (ws : list N) : bytes := flat_map (be_enc 8) ws.

(* full 8-byte groups of b and the 0..7 left-over bytes *)
Fixpoint bytes_to_words (b : bytes) : list N * bytes :=
  match b with
  | b0 :: b1 :: b2 :: b3 :: b4 :: b5 :: b6 :: b7 :: r =>
      let (ws, rest) := bytes_to_words r in
      (be_dec [b0; b1; b2; b3; b4; b5; b6; b7] :: ws, rest)
  | _ => ([], b)
  end.

(* jwilder Decoder (Next/Read loop): decodes every complete word, silently ignores a
   trailing partial word *)
Definition jw_decode_bytes (b : bytes) : option (list N) :=
  decode_words c13_jw_selector (fst (bytes_to_words b)).

(* pkg CountBytes + DecodeBytesBigEndian: a trailing partial word is an error *)
Definition pkg_decode_bytes (b : bytes) : option (list N) :=
  let (ws, rest) := bytes_to_words b in
  match rest with
  | [] => decode_words c13_pkg_selector ws
  | _ => None
  end.
