(* C13/WALEntry.v — executable model of the tsm1 WAL entry codecs and segment framing.
     wal.go  WriteWALEntry / DeleteWALEntry / DeleteRangeWALEntry  Encode (MarshalBinary) and
             UnmarshalBinary with their bounds checks; WALSegmentWriter.Write;
             WALSegmentReader.Next/Read/Count driven by the replay loop of CacheLoader.Load.
   int64/uint64/float64 are carried as 64-bit patterns (N).  A WriteWALEntry holds a Go map:
   the model keeps the key/values pairs as a list in the order they are laid out in the
   bytes (Go iterates the map in an unspecified order; the harness compares modulo that
   permutation).  Go panics are the distinguished [MCrash]/[UCrash]/[crashed] outcomes.
   snappy is a Section variable.  Definitions only. *)
From Verif Require Export Lib.Bytes Lib.Varint C13.IntEnc.
From VerifGen Require Import Consts.
Open Scope N_scope.

Inductive wvalues :=
| VFloat (l : list (N * N))          (* unixnano, Float64bits *)
| VInt (l : list (N * N))
| VUnsigned (l : list (N * N))
| VBool (l : list (N * bool))
| VString (l : list (N * bytes)).

Inductive wal_entry :=
| EWrite (kvs : list (bytes * wvalues))
| EDelete (keys : list bytes)
| EDeleteRange (mn mx : N) (keys : list bytes).

Definition wvalues_len (v : wvalues) : nat :=
  match v with
  | VFloat l | VInt l | VUnsigned l => length l
  | VBool l => length l
  | VString l => length l
  end.

Definition wvalues_type (v : wvalues) : N :=
  match v with
  | VFloat _ => c13_float64EntryType
  | VInt _ => c13_integerEntryType
  | VUnsigned _ => c13_unsignedEntryType
  | VBool _ => c13_booleanEntryType
  | VString _ => c13_stringEntryType
  end.

Definition enc_pair (tv : N * N) : bytes := be_enc 8 (fst tv) ++ be_enc 8 (snd tv).

Definition enc_values (v : wvalues) : bytes :=
  match v with
  | VFloat l | VInt l | VUnsigned l => flat_map enc_pair l
  | VBool l => flat_map (fun tv => be_enc 8 (fst tv) ++ [N.b2n (snd tv)]) l
  | VString l => flat_map (fun tv => be_enc 8 (fst tv) ++ be_enc 4 (N.of_nat (length (snd tv))) ++ snd tv) l
  end.

(* type, uint16(len(k)), k, uint32(len(v)), values *)
Definition enc_kv (kv : bytes * wvalues) : bytes :=
  wvalues_type (snd kv) :: be_enc 2 (N.of_nat (length (fst kv))) ++ fst kv
    ++ be_enc 4 (N.of_nat (wvalues_len (snd kv))) ++ enc_values (snd kv).

Inductive mout := MOk (b : bytes) | MCrash.

(* WriteWALEntry.Encode: MarshalSize returns 0 as soon as it meets an empty value slice, the
   destination then has length 0 and the encode loop indexes out of range (v[0] / dst[n]). *)
Definition marshal_write (kvs : list (bytes * wvalues)) : mout :=
  if existsb (fun kv => Nat.eqb (wvalues_len (snd kv)) 0) kvs then MCrash
  else MOk (flat_map enc_kv kvs).

Fixpoint join_nl (keys : list bytes) : bytes :=
  match keys with
  | [] => []
  | [k] => k
  | k :: r => k ++ 10 :: join_nl r
  end.

(* DeleteWALEntry.Encode: dst[:n-1] panics when there is no key *)
Definition marshal_delete (keys : list bytes) : mout :=
  match keys with
  | [] => MCrash
  | _ => MOk (join_nl keys)
  end.

Definition marshal_delete_range (mn mx : N) (keys : list bytes) : mout :=
  MOk (be_enc 8 mn ++ be_enc 8 mx ++ flat_map (fun k => be_enc 4 (N.of_nat (length k)) ++ k) keys).

Definition marshal (e : wal_entry) : mout :=
  match e with
  | EWrite kvs => marshal_write kvs
  | EDelete keys => marshal_delete keys
  | EDeleteRange mn mx keys => marshal_delete_range mn mx keys
  end.

Definition entry_type (e : wal_entry) : N :=
  match e with
  | EWrite _ => c13_WriteWALEntryType
  | EDelete _ => c13_DeleteWALEntryType
  | EDeleteRange _ _ _ => c13_DeleteRangeWALEntryType
  end.

(* ---------- UnmarshalBinary ---------- *)

Inductive uout {A} := UOk (a : A) | UCorrupt | UErr | UCrash.
Arguments uout : clear implicits.

(* n times: 8 bytes time + 8 bytes value.  The caller has checked 16*n <= len. *)
Fixpoint read_pairs (n : nat) (b : bytes) : option (list (N * N) * bytes) :=
  match n with
  | O => Some ([], b)
  | S k => match take 8 b with
           | None => None
           | Some (t, b1) =>
               match take 8 b1 with
               | None => None
               | Some (v, b2) =>
                   match read_pairs k b2 with
                   | None => None
                   | Some (l, r) => Some ((be_dec t, be_dec v) :: l, r)
                   end
               end
           end
  end.

Fixpoint read_bools (n : nat) (b : bytes) : option (list (N * bool) * bytes) :=
  match n with
  | O => Some ([], b)
  | S k => match take 8 b with
           | None => None
           | Some (t, b1) =>
               match b1 with
               | [] => None
               | v :: b2 =>
                   match read_bools k b2 with
                   | None => None
                   | Some (l, r) => Some ((be_dec t, v =? 1) :: l, r)
                   end
               end
           end
  end.

(* per value: i+12 > len -> corrupt; length; i+length > len (checked before and after the
   4 length bytes are skipped; the second check subsumes the first) -> corrupt *)
Fixpoint read_strings (n : nat) (b : bytes) : uout (list (N * bytes) * bytes) :=
  match n with
  | O => UOk ([], b)
  | S k =>
      if (length b <? 12)%nat then UCorrupt
      else match take 8 b with
           | None => UCrash
           | Some (t, b1) =>
               match take 4 b1 with
               | None => UCrash
               | Some (lb, b2) =>
                   let len := be_dec lb in
                   if N.of_nat (length b2) <? len then UCorrupt
                   else match take (N.to_nat len) b2 with
                        | None => UCrash
                        | Some (s, b3) =>
                            match read_strings k b3 with
                            | UOk (l, r) => UOk ((be_dec t, s) :: l, r)
                            | UCorrupt => UCorrupt
                            | UErr => UErr
                            | UCrash => UCrash
                            end
                        end
               end
           end
  end.

(* tot = len(b) of the whole payload (the check nvals > len(b) uses it).
   fuel: every iteration consumes the type byte, so length b + 1 suffices. *)
Fixpoint unmarshal_write_go (fuel : nat) (tot : N) (b : bytes) : uout (list (bytes * wvalues)) :=
  match b with
  | [] => UOk []
  | typ :: b1 =>
      match fuel with
      | O => UCrash
      | S f =>
          match take 2 b1 with
          | None => UCorrupt
          | Some (lb, b2) =>
              let klen := be_dec lb in
              if N.of_nat (length b2) <? klen then UCorrupt
              else match take (N.to_nat klen) b2 with
                   | None => UCrash
                   | Some (k, b3) =>
                       match take 4 b3 with
                       | None => UCorrupt
                       | Some (nb, b4) =>
                           let nvals := be_dec nb in
                           if (nvals =? 0) || (tot <? nvals) then UCorrupt
                           else
                             let cont (v : wvalues) (r : bytes) :=
                               match unmarshal_write_go f tot r with
                               | UOk l => UOk ((k, v) :: l)
                               | o => o
                               end in
                             let pairs (mk : list (N * N) -> wvalues) :=
                               if N.of_nat (length b4) <? 16 * nvals then UCorrupt
                               else match read_pairs (N.to_nat nvals) b4 with
                                    | None => UCrash
                                    | Some (l, r) => cont (mk l) r
                                    end in
                             if typ =? c13_float64EntryType then pairs VFloat
                             else if typ =? c13_integerEntryType then pairs VInt
                             else if typ =? c13_unsignedEntryType then pairs VUnsigned
                             else if typ =? c13_booleanEntryType then
                               if N.of_nat (length b4) <? 9 * nvals then UCorrupt
                               else match read_bools (N.to_nat nvals) b4 with
                                    | None => UCrash
                                    | Some (l, r) => cont (VBool l) r
                                    end
                             else if typ =? c13_stringEntryType then
                               match read_strings (N.to_nat nvals) b4 with
                               | UOk (l, r) => cont (VString l) r
                               | UCorrupt => UCorrupt
                               | UErr => UErr
                               | UCrash => UCrash
                               end
                             else UErr                     (* unsupported value type *)
                       end
                   end
          end
      end
  end.

Definition unmarshal_write (b : bytes) : uout (list (bytes * wvalues)) :=
  unmarshal_write_go (S (length b)) (N.of_nat (length b)) b.

(* bytes.Split(b, "\n"): always at least one piece *)
Fixpoint split_nl (b : bytes) : list bytes :=
  match b with
  | [] => [[]]
  | x :: r => if x =? 10 then [] :: split_nl r
              else match split_nl r with
                   | [] => [[x]]                           (* unreachable *)
                   | p :: ps => (x :: p) :: ps
                   end
  end.

Definition unmarshal_delete (b : bytes) : uout (list bytes) :=
  match b with
  | [] => UOk []                                           (* Keys stays nil *)
  | _ => UOk (split_nl b)
  end.

Fixpoint read_keys (fuel : nat) (b : bytes) : uout (list bytes) :=
  match b with
  | [] => UOk []
  | _ :: _ =>
      match fuel with
      | O => UCrash
      | S f =>
          match take 4 b with
          | None => UCorrupt
          | Some (lb, b1) =>
              let sz := be_dec lb in
              if N.of_nat (length b1) <? sz then UCorrupt
              else match take (N.to_nat sz) b1 with
                   | None => UCrash
                   | Some (k, b2) =>
                       match read_keys f b2 with
                       | UOk l => UOk (k :: l)
                       | o => o
                       end
                   end
          end
      end
  end.

Definition unmarshal_delete_range (b : bytes) : uout (N * N * list bytes) :=
  match take 8 b with
  | None => UCorrupt
  | Some (mnb, b1) =>
      match take 8 b1 with
      | None => UCorrupt
      | Some (mxb, b2) =>
          match read_keys (S (length b2)) b2 with
          | UOk ks => UOk (be_dec mnb, be_dec mxb, ks)
          | UCorrupt => UCorrupt
          | UErr => UErr
          | UCrash => UCrash
          end
      end
  end.

(* WALSegmentReader.Next: the switch on the entry type, then UnmarshalBinary *)
Definition unmarshal (typ : N) (data : bytes) : uout wal_entry :=
  if typ =? c13_WriteWALEntryType then
    match unmarshal_write data with
    | UOk kvs => UOk (EWrite kvs) | UCorrupt => UCorrupt | UErr => UErr | UCrash => UCrash
    end
  else if typ =? c13_DeleteWALEntryType then
    match unmarshal_delete data with
    | UOk ks => UOk (EDelete ks) | UCorrupt => UCorrupt | UErr => UErr | UCrash => UCrash
    end
  else if typ =? c13_DeleteRangeWALEntryType then
    match unmarshal_delete_range data with
    | UOk (mn, mx, ks) => UOk (EDeleteRange mn mx ks)
    | UCorrupt => UCorrupt | UErr => UErr | UCrash => UCrash
    end
  else UErr.                                               (* unknown wal entry type *)

(* ---------- segment framing ---------- *)

Section Snappy.
  Variable snappy_enc : bytes -> bytes.
  Variable snappy_dec : bytes -> option bytes.

  (* WALSegmentWriter.Write(entryType, compressed) *)
  Definition frame (typ : N) (compressed : bytes) : bytes :=
    typ :: be_enc 4 (N.of_nat (length compressed)) ++ compressed.

  (* WAL.writeToLog for one entry; None when Encode panics *)
  Definition entry_frame (e : wal_entry) : option bytes :=
    match marshal e with
    | MOk payload => Some (frame (entry_type e) (snappy_enc payload))
    | MCrash => None
    end.

  Fixpoint segment (es : list wal_entry) : option bytes :=
    match es with
    | [] => Some []
    | e :: r => match entry_frame e, segment r with
                | Some f, Some s => Some (f ++ s)
                | _, _ => None
                end
    end.

  Inductive next_out :=
  | NEof                                  (* Next() = false *)
  | NErr                                  (* Next() = true, Read() returns an error *)
  | NEntry (e : wal_entry) (consumed : N) (rest : bytes)
  | NCrash.

  (* one Next()+Read() on the unread stream s.  io.ReadFull: no byte -> EOF (clean end),
     fewer than asked -> ErrUnexpectedEOF. *)
  Definition reader_next (s : bytes) : next_out :=
    match s with
    | [] => NEof
    | _ :: _ =>
        match take 5 s with
        | None => NErr
        | Some (h, r) =>
            let typ := hd 0 h in
            let len := be_dec (tl h) in
            if N.of_nat (length r) <? len then NErr          (* short payload *)
            else match take (N.to_nat len) r with
                 | None => NCrash
                 | Some (c, rest) =>
                     match snappy_dec c with
                     | None => NErr
                     | Some data =>
                         match unmarshal typ data with
                         | UOk e => NEntry e (5 + len) rest
                         | UCorrupt | UErr => NErr
                         | UCrash => NCrash
                         end
                     end
                 end
        end
    end.

  Record replay := { r_entries : list wal_entry; r_err : bool; r_n : N; r_crashed : bool }.

  (* for r.Next() { e, err := r.Read(); if err != nil { n := r.Count(); truncate; break }; apply e }
     fuel: every successful Next consumes >= 5 bytes; length s + 1 suffices *)
  Fixpoint read_segment (fuel : nat) (s : bytes) (n : N) : replay :=
    match fuel with
    | O => {| r_entries := []; r_err := true; r_n := n; r_crashed := true |}
    | S f =>
        match reader_next s with
        | NEof => {| r_entries := []; r_err := false; r_n := n; r_crashed := false |}
        | NErr => {| r_entries := []; r_err := true; r_n := n; r_crashed := false |}
        | NCrash => {| r_entries := []; r_err := true; r_n := n; r_crashed := true |}
        | NEntry e c rest =>
            let r := read_segment f rest (n + c) in
            {| r_entries := e :: r_entries r; r_err := r_err r; r_n := r_n r; r_crashed := r_crashed r |}
        end
    end.

  Definition replay_segment (s : bytes) : replay := read_segment (S (length s)) s 0.
End Snappy.
