(* C13/StrEnc.v — executable model of the tsm1 string codecs.
     string.go        StringEncoder (Write/Bytes), StringDecoder (SetBytes/Next/Read)
     batch_string.go  StringArrayEncodeAll / StringArrayDecodeAll
   The body is uvarint(len) ++ bytes for every string; it is handed to snappy, which is
   abstract: a Section variable pair with the hypothesis decode(encode b) = Some b.  The
   correspondence compares the body BEFORE snappy (the harness decompresses the real
   block).  Definitions only. *)
From Verif Require Export Lib.Bytes Lib.Varint C13.IntEnc.
From VerifGen Require Import Consts.
Open Scope N_scope.

(* StringEncoder.Write repeated / the dta loop of StringArrayEncodeAll *)
Definition str_concat (l : list bytes) : bytes :=
  flat_map (fun s => put_uvarint (N.of_nat (length s)) ++ s) l.

(* the decode loop shared by StringDecoder and StringArrayDecodeAll:
     for i < len(b) { length, n := Uvarint(b[i:]); n <= 0 -> error;
                      upper > len(b) -> error; take; i += n + length }
   fuel = number of body bytes + 1 (every iteration consumes at least one byte). *)
Fixpoint str_split (fuel : nat) (b : bytes) : option (list bytes) :=
  match b with
  | [] => Some []
  | _ :: _ =>
      match fuel with
      | O => None
      | S f =>
          match uvarint b with
          | None => None                                   (* invalid encoded string length *)
          | Some (len, r) =>
              if N.of_nat (length r) <? len then None      (* short buffer *)
              else match take (N.to_nat len) r with
                   | None => None
                   | Some (s, r') => match str_split f r' with
                                     | Some l => Some (s :: l)
                                     | None => None
                                     end
                   end
          end
      end
  end.

Definition str_decode_body (body : bytes) : option (list bytes) :=
  str_split (S (length body)) body.

Section Snappy.
  Variable snappy_enc : bytes -> bytes.
  Variable snappy_dec : bytes -> option bytes.

  (* StringEncoder.Bytes() *)
  Definition str_encode_iter (l : list bytes) : bytes :=
    hdr c13_stringCompressedSnappy 0 :: snappy_enc (str_concat l).

  (* StringArrayEncodeAll: no strings -> header and one zero byte without calling snappy *)
  Definition str_encode_batch (l : list bytes) : bytes :=
    match l with
    | [] => [hdr c13_stringCompressedSnappy 0; 0]
    | _ => hdr c13_stringCompressedSnappy 0 :: snappy_enc (str_concat l)
    end.

  (* StringDecoder (SetBytes error or Error() after the loop = None) and
     StringArrayDecodeAll *)
  Definition str_decode (b : bytes) : option (list bytes) :=
    match b with
    | [] => Some []
    | _ :: z => match snappy_dec z with
                | None => None
                | Some body => str_decode_body body
                end
    end.
End Snappy.
