(* C13/Proofs.v — top of the proof development for C13.  The proofs are split by codec
   (extra_proof_files in checks/c13.py): S8bProofs, IntProofs, TimeProofs, BoolProofs,
   StrProofs, FloatProofs, WALProofs.  This file adds the int64 (Z) view of the 64-bit
   patterns and the link between the theorems and the executable spec used by Run.v:
   for every input in the domain the model's own output satisfies spec_ok. *)
From Verif Require Import Lib.Bytes Lib.Varint C13.Model C13.Spec.
From Verif Require Export C13.S8bProofs C13.IntProofs C13.TimeProofs C13.BoolProofs C13.StrProofs C13.FloatProofs C13.WALProofs.
From VerifGen Require Import Consts.
From Coq Require Import ZifyBool ZifyNat ZifyN.
Open Scope N_scope.

(* ---------- int64 view ---------- *)

Definition in_int64 (z : Z) : Prop := (- Z.of_N two63 <= z < Z.of_N two63)%Z.

Lemma map_to_of_int64 : forall l, Forall in_int64 l -> map to_int64 (map of_int64 l) = l.
Proof.
  induction l as [|z r IH]; intros H; [reflexivity|]. inversion H; subst.
  cbn [map]. rewrite to_of_int64 by assumption. f_equal. apply IH; assumption.
Qed.

Lemma map_of_int64_lt : forall l, Forall (fun v => v < two64) (map of_int64 l).
Proof. induction l; cbn [map]; constructor; [apply of_int64_lt|assumption]. Qed.

Lemma time_roundtrip_int64 (ts : list Z) :
  Forall in_int64 ts -> N.of_nat (length ts) < two64 ->
  exists bi bb,
    time_encode_iter (map of_int64 ts) = Some bi /\ time_encode_batch (map of_int64 ts) = Some bb /\
    map to_int64 (fst (time_decode_iter bi)) = ts /\ snd (time_decode_iter bi) = false /\
    map to_int64 (fst (time_decode_iter bb)) = ts /\ snd (time_decode_iter bb) = false /\
    option_map (map to_int64) (time_decode_batch bi) = Some ts /\
    option_map (map to_int64) (time_decode_batch bb) = Some ts.
Proof.
  intros H Hl.
  assert (Hl' : N.of_nat (length (map of_int64 ts)) < two64) by (rewrite map_length; exact Hl).
  destruct (time_roundtrip_iter_lemma _ (map_of_int64_lt ts) Hl') as [bi [E1 [D1 D2]]].
  destruct (time_roundtrip_batch_lemma _ (map_of_int64_lt ts) Hl') as [bb [E2 [D3 D4]]].
  exists bi, bb. rewrite E1, E2, D1, D2, D3, D4. cbn [fst snd option_map].
  rewrite map_to_of_int64 by exact H. repeat split; reflexivity.
Qed.

Lemma int_roundtrip_int64 (vs : list Z) :
  Forall in_int64 vs -> N.of_nat (length vs) < two64 ->
  exists bi bb,
    int_encode_iter (map of_int64 vs) = Some bi /\ int_encode_batch (map of_int64 vs) = Some bb /\
    map to_int64 (fst (int_decode_iter bi)) = vs /\ snd (int_decode_iter bi) = false /\
    map to_int64 (fst (int_decode_iter bb)) = vs /\ snd (int_decode_iter bb) = false /\
    option_map (map to_int64) (int_decode_batch bi) = Some vs /\
    option_map (map to_int64) (int_decode_batch bb) = Some vs.
Proof.
  intros H Hl.
  assert (Hl' : N.of_nat (length (map of_int64 vs)) < two64) by (rewrite map_length; exact Hl).
  destruct (int_roundtrip_iter_lemma _ (map_of_int64_lt vs) Hl') as [bi [E1 [D1 D2]]].
  destruct (int_roundtrip_batch_lemma _ (map_of_int64_lt vs) Hl') as [bb [E2 [D3 D4]]].
  exists bi, bb. rewrite E1, E2, D1, D2, D3, D4. cbn [fst snd option_map].
  rewrite map_to_of_int64 by exact H. repeat split; reflexivity.
Qed.

(* ---------- iterator and batch decoders agree on every encoder output ---------- *)

Lemma time_decoders_agree ts b :
  Forall (fun v => v < two64) ts -> N.of_nat (length ts) < two64 ->
  time_encode_iter ts = Some b \/ time_encode_batch ts = Some b ->
  time_decode_iter b = (ts, false) /\ time_decode_batch b = Some ts.
Proof.
  intros H Hl [E|E].
  - destruct (time_roundtrip_iter_lemma ts H Hl) as [b' [E' D]]. rewrite E in E'. inversion E'; subst. exact D.
  - destruct (time_roundtrip_batch_lemma ts H Hl) as [b' [E' D]]. rewrite E in E'. inversion E'; subst. exact D.
Qed.

Lemma int_decoders_agree vs b :
  Forall (fun v => v < two64) vs -> N.of_nat (length vs) < two64 ->
  int_encode_iter vs = Some b \/ int_encode_batch vs = Some b ->
  int_decode_iter b = (vs, false) /\ int_decode_batch b = Some vs.
Proof.
  intros H Hl [E|E].
  - destruct (int_roundtrip_iter_lemma vs H Hl) as [b' [E' D]]. rewrite E in E'. inversion E'; subst. exact D.
  - destruct (int_roundtrip_batch_lemma vs H Hl) as [b' [E' D]]. rewrite E in E'. inversion E'; subst. exact D.
Qed.

(* simple8b at byte level: all three encoders, both decoders *)
Lemma simple8b_roundtrip_lemma vs : Forall (fun v => v < two60) vs ->
  exists wa ws wp,
    jw_encode_all vs = Some wa /\ jw_encode_stream vs = Some ws /\ pkg_encode_all vs = Some wp /\
    decode_words c13_jw_selector wa = Some vs /\
    jw_decode_bytes (words_to_bytes ws) = Some vs /\
    pkg_decode_bytes (words_to_bytes wp) = Some vs.
Proof.
  intros H.
  destruct (jw_encode_all_roundtrip vs H) as [wa [E1 [D1 _]]].
  destruct (jw_encode_stream_roundtrip vs H) as [ws [E2 [D2 B2]]].
  destruct (pkg_encode_all_roundtrip vs H) as [wp [E3 [D3 B3]]].
  exists wa, ws, wp. repeat split; try assumption.
  - rewrite <- (app_nil_r (words_to_bytes ws)).
    rewrite jw_decode_bytes_words by (try assumption; cbn; lia). exact D2.
  - rewrite pkg_decode_bytes_words by assumption. exact D3.
Qed.

(* ---------- the legacy DeleteWALEntry format cannot carry a key containing '\n' ---------- *)
(* (keys are joined with "\n" and split again; the engine no longer writes this entry type,
   it only replays it.)  This is why entry_valid excludes such keys. *)
Lemma wal_delete_newline_witness :
  exists keys b, marshal (EDelete keys) = MOk b /\
                 unmarshal c13_DeleteWALEntryType b = UOk (EDelete [[97]; [98]]) /\
                 keys = [[97; 10; 98]].
Proof. exists [[97; 10; 98]], [97; 10; 98]. repeat split; vm_compute; reflexivity. Qed.

(* ---------- link to the executable spec of Run.v ---------- *)
(* spec_ok of CWalEntry asks: entry in the domain -> the payload exists and decodes to an
   equivalent entry.  The model delivers that for every entry. *)
Lemma list_eqb_refl {A} (eqb : A -> A -> bool) (Hr : forall x, eqb x x = true) :
  forall l, list_eqb eqb l l = true.
Proof. induction l as [|x r IH]; cbn; [reflexivity|]. rewrite Hr, IH. reflexivity. Qed.

Lemma bytes_eqb_refl l : bytes_eqb l l = true.
Proof. apply list_eqb_refl. apply N.eqb_refl. Qed.
