(* C13/StrProofs.v — round trips of the tsm1 string codecs (StrEnc.v) and of the block
   envelope packBlock / unpackBlock (Model.v).  snappy is abstract: a Section variable pair
   whose hypotheses become premises of the exported lemmas. *)
From Verif Require Import Lib.Bytes Lib.Varint C13.Model.
From VerifGen Require Import Consts.
From Coq Require Import ZifyBool ZifyNat ZifyN.
Open Scope N_scope.

(* ---------- helpers ---------- *)

Lemma put_uvarint_nonempty v : put_uvarint v <> [].
Proof. unfold put_uvarint. apply (put_uvarint_fuel_nonempty 9 v). Qed.

Lemma put_uvarint_length_pos v : (1 <= length (put_uvarint v))%nat.
Proof.
  pose proof (put_uvarint_nonempty v) as Hne.
  destruct (put_uvarint v) as [|x r]; [congruence|]. cbn [length]. lia.
Qed.

Lemma str_concat_cons s r :
  str_concat (s :: r) = put_uvarint (N.of_nat (length s)) ++ s ++ str_concat r.
Proof. unfold str_concat. cbn [flat_map]. rewrite <- app_assoc. reflexivity. Qed.

(* one iteration of the decode loop on a non-empty buffer with fuel left *)
Lemma str_split_step f b :
  b <> [] ->
  str_split (S f) b =
  match uvarint b with
  | None => None
  | Some (len, r) =>
      if N.of_nat (length r) <? len then None
      else match take (N.to_nat len) r with
           | None => None
           | Some (s, r') => match str_split f r' with
                             | Some l => Some (s :: l)
                             | None => None
                             end
           end
  end.
Proof. intros Hne. destruct b as [|x b']; [congruence|reflexivity]. Qed.

Lemma str_split_nil fuel : str_split fuel [] = Some [].
Proof. destruct fuel; reflexivity. Qed.

Lemma app_nonempty_l {A} (a b : list A) : a <> [] -> a ++ b <> [].
Proof. intros Ha Hab. apply app_eq_nil in Hab. destruct Hab as [Ha' _]. congruence. Qed.

(* fuel generalised: any fuel above the body length suffices *)
Lemma str_split_concat : forall l fuel,
  Forall (fun s => N.of_nat (length s) < two64) l ->
  (length (str_concat l) < fuel)%nat ->
  str_split fuel (str_concat l) = Some l.
Proof.
  induction l as [|s r IH]; intros fuel Hall Hfuel.
  - apply str_split_nil.
  - inversion Hall as [|s' r' Hs Hr]; subst s' r'.
    rewrite str_concat_cons in *.
    destruct fuel as [|f]; [lia|].
    rewrite str_split_step by (apply app_nonempty_l, put_uvarint_nonempty).
    rewrite uvarint_put_uvarint by assumption.
    destruct (N.ltb_spec (N.of_nat (length (s ++ str_concat r))) (N.of_nat (length s)))
      as [Hlt|Hge].
    { rewrite app_length in Hlt. lia. }
    rewrite Nat2N.id, take_app.
    rewrite IH; [reflexivity|assumption|].
    pose proof (put_uvarint_length_pos (N.of_nat (length s))) as Hpos.
    rewrite !app_length in Hfuel. lia.
Qed.

(* ---------- the body (before snappy) ---------- *)

Lemma str_body_roundtrip : forall l,
  Forall (fun s => N.of_nat (length s) < two64) l ->
  str_decode_body (str_concat l) = Some l.
Proof.
  intros l Hall. unfold str_decode_body. apply str_split_concat; [assumption|lia].
Qed.

Example str_body_roundtrip_ex :
  let l := [[104; 105]; []; [0; 255; 128]] in
  Forall (fun s => N.of_nat (length s) < two64) l /\
  str_concat l = [2; 104; 105; 0; 3; 0; 255; 128] /\
  str_decode_body (str_concat l) = Some l.
Proof.
  cbv zeta. split; [|split; vm_compute; reflexivity].
  repeat constructor.
Qed.

(* ---------- with snappy ---------- *)

Section Snappy.
  Variable snappy_enc : bytes -> bytes.
  Variable snappy_dec : bytes -> option bytes.
  Hypothesis snappy_ok : forall b, snappy_dec (snappy_enc b) = Some b.

  Lemma string_roundtrip_iter_lemma : forall l,
    Forall (fun s => N.of_nat (length s) < two64) l ->
    str_decode snappy_dec (str_encode_iter snappy_enc l) = Some l.
  Proof.
    intros l Hall. unfold str_encode_iter, str_decode.
    rewrite snappy_ok. apply str_body_roundtrip. assumption.
  Qed.

  (* the batch encoder writes header + 0x00 for no strings without calling snappy; 0x00 is
     the snappy stream of the empty input (uvarint decoded length 0, no elements) *)
  Hypothesis snappy_empty : snappy_dec [0] = Some [].

  Lemma string_roundtrip_batch_lemma : forall l,
    Forall (fun s => N.of_nat (length s) < two64) l ->
    str_decode snappy_dec (str_encode_batch snappy_enc l) = Some l.
  Proof.
    intros l Hall. destruct l as [|s r].
    - unfold str_encode_batch, str_decode. rewrite snappy_empty. reflexivity.
    - unfold str_encode_batch, str_decode.
      rewrite snappy_ok. apply str_body_roundtrip. assumption.
  Qed.
End Snappy.

(* non-vacuity: a toy codec satisfying both snappy hypotheses *)
Definition toy_snappy_enc (b : bytes) : bytes := 0 :: b.
Definition toy_snappy_dec (b : bytes) : option bytes :=
  match b with [] => None | _ :: r => Some r end.

Example string_roundtrip_iter_ex :
  let l := [[104; 105]; []; [0; 255; 128]] in
  (forall b, toy_snappy_dec (toy_snappy_enc b) = Some b) /\
  Forall (fun s => N.of_nat (length s) < two64) l /\
  str_decode toy_snappy_dec (str_encode_iter toy_snappy_enc l) = Some l.
Proof.
  cbv zeta. split; [reflexivity|]. split; [repeat constructor|].
  apply string_roundtrip_iter_lemma; [reflexivity|repeat constructor].
Qed.

Example string_roundtrip_batch_ex :
  let l := [[104; 105]; []; [0; 255; 128]] in
  (forall b, toy_snappy_dec (toy_snappy_enc b) = Some b) /\
  toy_snappy_dec [0] = Some [] /\
  Forall (fun s => N.of_nat (length s) < two64) l /\
  str_decode toy_snappy_dec (str_encode_batch toy_snappy_enc l) = Some l /\
  str_decode toy_snappy_dec (str_encode_batch toy_snappy_enc []) = Some [].
Proof.
  cbv zeta. split; [reflexivity|]. split; [reflexivity|]. split; [repeat constructor|].
  split; apply string_roundtrip_batch_lemma; try reflexivity; repeat constructor.
Qed.

(* ---------- block envelope ---------- *)

Lemma block_roundtrip_lemma : forall (typ : N) ts vs,
  N.of_nat (length ts) < two64 ->
  unpack_block (put_uvarint (N.of_nat (length ts)) ++ ts ++ vs) = Some (ts, vs).
Proof.
  intros typ ts vs Hlen. unfold unpack_block.
  rewrite uvarint_put_uvarint by assumption.
  destruct (N.ltb_spec (N.of_nat (length (ts ++ vs))) (N.of_nat (length ts))) as [Hlt|Hge].
  { rewrite app_length in Hlt. lia. }
  rewrite Nat2N.id. apply take_app.
Qed.

(* the same, phrased on packBlock: unpackBlock(block[1:]) *)
Lemma block_roundtrip_tl : forall typ ts vs,
  N.of_nat (length ts) < two64 ->
  unpack_block (tl (pack_block typ ts vs)) = Some (ts, vs).
Proof.
  intros typ ts vs Hlen. unfold pack_block. cbn [tl].
  apply (block_roundtrip_lemma typ). assumption.
Qed.

Example block_roundtrip_ex :
  let ts := [1; 2; 3] in let vs := [9; 8] in
  N.of_nat (length ts) < two64 /\
  pack_block 2 ts vs = [2; 3; 1; 2; 3; 9; 8] /\
  unpack_block (tl (pack_block 2 ts vs)) = Some (ts, vs).
Proof. cbv zeta. split; [reflexivity|]. split; vm_compute; reflexivity. Qed.
