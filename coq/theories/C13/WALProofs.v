(* C13/WALProofs.v — proofs about the WAL entry codecs and the segment replay loop of
   C13/WALEntry.v (definitions there are frozen; nothing is redefined here).

     unmarshal_no_crash            UnmarshalBinary never panics, on any bytes and any type
     wal_entry_roundtrip_lemma     unmarshal (marshal e) = e on the domain of the property
     segment_defined               a segment of valid entries can always be written
     wal_cut_replays_prefix_lemma  replaying a segment cut at ANY byte offset yields exactly
                                   the complete entries before the cut, never crashes, reports
                                   the offset of the last complete entry, and reports an error
                                   iff the cut is not on a frame boundary.
   snappy enters as Section variables with the round-trip hypothesis [snappy_ok]. *)
From Verif Require Import Lib.Bytes Lib.Varint C13.Model C13.Spec.
From VerifGen Require Import Consts.
From Coq Require Import ZifyBool ZifyNat ZifyN.
Open Scope N_scope.

(* ---------- generic helpers ---------- *)

Lemma take_len {A} n (l a b : list A) :
  take n l = Some (a, b) -> (length l = n + length b)%nat /\ length a = n.
Proof.
  intros H. apply take_some in H. destruct H as [-> H]. rewrite app_length. lia.
Qed.

Lemma take_ge {A} n (l : list A) :
  (n <= length l)%nat -> exists a b, take n l = Some (a, b).
Proof.
  intros H. destruct (take n l) as [[a b]|] eqn:E; [eauto|].
  apply take_none in E. lia.
Qed.

Lemma take_be_enc n v rest : take n (be_enc n v ++ rest) = Some (be_enc n v, rest).
Proof.
  pose proof (take_app (be_enc n v) rest) as H. rewrite be_enc_length in H. exact H.
Qed.

Lemma take_app_nat {A} (a b : list A) :
  take (N.to_nat (N.of_nat (length a))) (a ++ b) = Some (a, b).
Proof. rewrite Nat2N.id. apply take_app. Qed.

Lemma be_dec_enc8 v : u64 v = true -> be_dec (be_enc 8 v) = v.
Proof.
  unfold u64. intros H. apply be_dec_enc. rewrite <- two64_pow. apply N.ltb_lt. exact H.
Qed.

Lemma be_dec_enc4 v : v < two32 -> be_dec (be_enc 4 v) = v.
Proof. intros H. apply be_dec_enc. exact H. Qed.

Lemma be_dec_enc2 v : v < 65536 -> be_dec (be_enc 2 v) = v.
Proof. intros H. apply be_dec_enc. exact H. Qed.

(* ---------- 2. UnmarshalBinary never panics ---------- *)

Lemma read_pairs_some : forall n b,
  (16 * n <= length b)%nat ->
  exists l r, read_pairs n b = Some (l, r) /\ (length r <= length b)%nat.
Proof.
  induction n as [|n IH]; intros b H; cbn [read_pairs].
  - eauto.
  - destruct (take 8 b) as [[t b1]|] eqn:T1; [|apply take_none in T1; lia].
    apply take_len in T1.
    destruct (take 8 b1) as [[v b2]|] eqn:T2; [|apply take_none in T2; lia].
    apply take_len in T2.
    destruct (IH b2) as (l & r & E & Hr); [lia|].
    rewrite E. eexists _, _. split; [reflexivity|lia].
Qed.

Lemma read_bools_some : forall n b,
  (9 * n <= length b)%nat ->
  exists l r, read_bools n b = Some (l, r) /\ (length r <= length b)%nat.
Proof.
  induction n as [|n IH]; intros b H; cbn [read_bools].
  - eauto.
  - destruct (take 8 b) as [[t b1]|] eqn:T1; [|apply take_none in T1; lia].
    apply take_len in T1.
    destruct b1 as [|v b2]; [cbn [length] in T1; lia|].
    cbn [length] in T1.
    destruct (IH b2) as (l & r & E & Hr); [lia|].
    rewrite E. eexists _, _. split; [reflexivity|lia].
Qed.

Lemma read_strings_ok : forall n b,
  read_strings n b <> UCrash /\
  (forall l r, read_strings n b = UOk (l, r) -> (length r <= length b)%nat).
Proof.
  induction n as [|n IH]; intros b; cbn [read_strings].
  - split; [discriminate|]. intros l r H. inversion H; subst. lia.
  - destruct (length b <? 12)%nat eqn:L; [split; [discriminate|intros; discriminate]|].
    destruct (take 8 b) as [[t b1]|] eqn:T1; [|apply take_none in T1; lia].
    apply take_len in T1.
    destruct (take 4 b1) as [[lb b2]|] eqn:T2; [|apply take_none in T2; lia].
    apply take_len in T2.
    destruct (N.of_nat (length b2) <? be_dec lb) eqn:L2;
      [split; [discriminate|intros; discriminate]|].
    destruct (take (N.to_nat (be_dec lb)) b2) as [[s b3]|] eqn:T3;
      [|apply take_none in T3; lia].
    apply take_len in T3.
    destruct (IH b3) as [IH1 IH2].
    destruct (read_strings n b3) as [[l r]| | |] eqn:E.
    + split; [discriminate|]. intros l0 r0 H. inversion H; subst.
      specialize (IH2 _ _ eq_refl). lia.
    + split; [discriminate|intros; discriminate].
    + split; [discriminate|intros; discriminate].
    + contradiction.
Qed.

Lemma uw_go_nocrash : forall fuel tot b,
  (length b < fuel)%nat -> unmarshal_write_go fuel tot b <> UCrash.
Proof.
  induction fuel as [|f IH]; intros tot b H; [lia|].
  destruct b as [|typ b1]; [cbn; discriminate|].
  cbn [unmarshal_write_go length] in *.
  destruct (take 2 b1) as [[lb b2]|] eqn:T2; [|discriminate].
  apply take_len in T2.
  destruct (N.of_nat (length b2) <? be_dec lb) eqn:L1; [discriminate|].
  destruct (take (N.to_nat (be_dec lb)) b2) as [[k b3]|] eqn:T3;
    [|apply take_none in T3; lia].
  apply take_len in T3.
  destruct (take 4 b3) as [[nb b4]|] eqn:T4; [|discriminate].
  apply take_len in T4.
  destruct ((be_dec nb =? 0) || (tot <? be_dec nb)) eqn:C; [discriminate|].
  assert (Hcont : forall v r, (length r <= length b4)%nat ->
            match unmarshal_write_go f tot r with
            | UOk l => UOk ((k, v) :: l)
            | o => o
            end <> UCrash).
  { intros v r Hr. specialize (IH tot r ltac:(lia)).
    destruct (unmarshal_write_go f tot r); congruence. }
  assert (Hpairs : forall mk : list (N * N) -> wvalues,
            (if N.of_nat (length b4) <? 16 * be_dec nb then UCorrupt
             else match read_pairs (N.to_nat (be_dec nb)) b4 with
                  | None => UCrash
                  | Some (l, r) =>
                      match unmarshal_write_go f tot r with
                      | UOk l0 => UOk ((k, mk l) :: l0)
                      | o => o
                      end
                  end) <> UCrash).
  { intros mk. destruct (N.of_nat (length b4) <? 16 * be_dec nb) eqn:L2; [discriminate|].
    destruct (read_pairs_some (N.to_nat (be_dec nb)) b4) as (l & r & E & Hr); [lia|].
    rewrite E. apply Hcont. exact Hr. }
  destruct (typ =? c13_float64EntryType); [apply (Hpairs VFloat)|].
  destruct (typ =? c13_integerEntryType); [apply (Hpairs VInt)|].
  destruct (typ =? c13_unsignedEntryType); [apply (Hpairs VUnsigned)|].
  destruct (typ =? c13_booleanEntryType).
  { destruct (N.of_nat (length b4) <? 9 * be_dec nb) eqn:L2; [discriminate|].
    destruct (read_bools_some (N.to_nat (be_dec nb)) b4) as (l & r & E & Hr); [lia|].
    rewrite E. apply Hcont. exact Hr. }
  destruct (typ =? c13_stringEntryType); [|discriminate].
  destruct (read_strings_ok (N.to_nat (be_dec nb)) b4) as [S1 S2].
  destruct (read_strings (N.to_nat (be_dec nb)) b4) as [[l r]| | |] eqn:E;
    try discriminate; [|contradiction].
  apply Hcont. eapply S2. reflexivity.
Qed.

Lemma read_keys_nocrash : forall fuel b,
  (length b < fuel)%nat -> read_keys fuel b <> UCrash.
Proof.
  induction fuel as [|f IH]; intros b H; [lia|].
  destruct b as [|x b0]; [cbn; discriminate|].
  cbn [read_keys].
  destruct (take 4 (x :: b0)) as [[lb b1]|] eqn:T1; [|discriminate].
  apply take_len in T1.
  destruct (N.of_nat (length b1) <? be_dec lb) eqn:L1; [discriminate|].
  destruct (take (N.to_nat (be_dec lb)) b1) as [[k b2]|] eqn:T2;
    [|apply take_none in T2; lia].
  apply take_len in T2.
  specialize (IH b2 ltac:(lia)).
  destruct (read_keys f b2); congruence.
Qed.

Lemma unmarshal_write_nocrash b : unmarshal_write b <> UCrash.
Proof. unfold unmarshal_write. apply uw_go_nocrash. lia. Qed.

Lemma unmarshal_delete_nocrash b : unmarshal_delete b <> UCrash.
Proof. destruct b; cbn; discriminate. Qed.

Lemma unmarshal_delete_range_nocrash b : unmarshal_delete_range b <> UCrash.
Proof.
  unfold unmarshal_delete_range.
  destruct (take 8 b) as [[mnb b1]|]; [|discriminate].
  destruct (take 8 b1) as [[mxb b2]|]; [|discriminate].
  pose proof (read_keys_nocrash (S (length b2)) b2 ltac:(lia)) as H.
  destruct (read_keys (S (length b2)) b2); congruence.
Qed.

Lemma unmarshal_no_crash : forall typ b, unmarshal typ b <> UCrash.
Proof.
  intros typ b. unfold unmarshal.
  destruct (typ =? c13_WriteWALEntryType).
  { pose proof (unmarshal_write_nocrash b). destruct (unmarshal_write b); congruence. }
  destruct (typ =? c13_DeleteWALEntryType).
  { pose proof (unmarshal_delete_nocrash b). destruct (unmarshal_delete b); congruence. }
  destruct (typ =? c13_DeleteRangeWALEntryType); [|discriminate].
  pose proof (unmarshal_delete_range_nocrash b).
  destruct (unmarshal_delete_range b) as [[[mn mx] ks]| | |]; congruence.
Qed.


(* ---------- 1. marshal / unmarshal round trip ---------- *)

(* DeleteRangeWALEntry *)

Definition enc_key (k : bytes) : bytes := be_enc 4 (N.of_nat (length k)) ++ k.

Lemma read_keys_roundtrip : forall keys fuel,
  forallb (fun k => N.of_nat (length k) <? two32) keys = true ->
  (length (flat_map enc_key keys) < fuel)%nat ->
  read_keys fuel (flat_map enc_key keys) = UOk keys.
Proof.
  induction keys as [|k r IH]; intros fuel V F.
  - destruct fuel; reflexivity.
  - cbn [flat_map forallb] in *. apply andb_true_iff in V. destruct V as [Vk Vr].
    destruct fuel as [|f]; [lia|].
    rewrite app_length in F. unfold enc_key in F at 1. rewrite app_length, be_enc_length in F.
    unfold enc_key at 1.
    assert (E : exists x t, (be_enc 4 (N.of_nat (length k)) ++ k) ++ flat_map enc_key r = x :: t).
    { cbn [be_enc app]. eauto. }
    destruct E as (x & t & E).
    cbn [read_keys]. rewrite E. cbn [read_keys]. rewrite <- E. clear E x t.
    rewrite <- app_assoc. rewrite take_be_enc.
    rewrite be_dec_enc4 by lia.
    destruct (N.of_nat (length (k ++ flat_map enc_key r)) <? N.of_nat (length k)) eqn:L.
    { rewrite app_length in L. lia. }
    rewrite take_app_nat. rewrite IH; [reflexivity|exact Vr|lia].
Qed.

Lemma delete_range_roundtrip mn mx keys :
  entry_repr (EDeleteRange mn mx keys) = true ->
  exists b, marshal (EDeleteRange mn mx keys) = MOk b /\
            unmarshal (entry_type (EDeleteRange mn mx keys)) b = UOk (EDeleteRange mn mx keys).
Proof.
  cbn [entry_repr marshal entry_type]. intros R.
  apply andb_true_iff in R. destruct R as [R Rk]. apply andb_true_iff in R. destruct R as [Rmn Rmx].
  unfold marshal_delete_range. eexists. split; [reflexivity|].
  change (unmarshal c13_DeleteRangeWALEntryType) with
    (fun data => match unmarshal_delete_range data with
                 | UOk (mn, mx, ks) => UOk (EDeleteRange mn mx ks)
                 | UCorrupt => UCorrupt | UErr => UErr | UCrash => UCrash end).
  cbv beta. unfold unmarshal_delete_range.
  rewrite take_be_enc. rewrite take_be_enc.
  change (flat_map (fun k => be_enc 4 (N.of_nat (length k)) ++ k) keys) with (flat_map enc_key keys).
  rewrite read_keys_roundtrip; [|exact Rk|lia].
  rewrite !be_dec_enc8 by assumption. reflexivity.
Qed.

(* DeleteWALEntry *)

Lemma split_nl_no10 : forall k, existsb (N.eqb 10) k = false -> split_nl k = [k].
Proof.
  induction k as [|x k IH]; intros H; cbn [split_nl existsb] in *; [reflexivity|].
  apply orb_false_iff in H. destruct H as [Hx Hk].
  rewrite N.eqb_sym in Hx. rewrite Hx. rewrite (IH Hk). reflexivity.
Qed.

Lemma split_nl_app : forall k s,
  existsb (N.eqb 10) k = false -> split_nl (k ++ 10 :: s) = k :: split_nl s.
Proof.
  induction k as [|x k IH]; intros s H; cbn [split_nl existsb app] in *.
  - rewrite N.eqb_refl. reflexivity.
  - apply orb_false_iff in H. destruct H as [Hx Hk].
    rewrite N.eqb_sym in Hx. rewrite Hx. rewrite (IH s Hk). reflexivity.
Qed.

Lemma split_join_nl : forall r k,
  forallb (fun k => negb (existsb (N.eqb 10) k) && negb (is_nil k)) (k :: r) = true ->
  split_nl (join_nl (k :: r)) = k :: r.
Proof.
  induction r as [|k' r IH]; intros k H.
  - cbn [join_nl]. cbn [forallb] in H. apply split_nl_no10.
    destruct (existsb (N.eqb 10) k); [discriminate|reflexivity].
  - change (join_nl (k :: k' :: r)) with (k ++ 10 :: join_nl (k' :: r)).
    cbn [forallb] in H. apply andb_true_iff in H. destruct H as [Hk Hr].
    rewrite split_nl_app by (destruct (existsb (N.eqb 10) k); [discriminate|reflexivity]).
    rewrite IH by exact Hr. reflexivity.
Qed.

Lemma join_nl_nonnil k r : k <> [] -> join_nl (k :: r) <> [].
Proof.
  intros Hk. destruct k as [|x k]; [exfalso; apply Hk; reflexivity|].
  destruct r; cbn [join_nl app]; discriminate.
Qed.

Lemma delete_roundtrip keys :
  entry_valid (EDelete keys) = true ->
  exists b, marshal (EDelete keys) = MOk b /\
            unmarshal (entry_type (EDelete keys)) b = UOk (EDelete keys).
Proof.
  cbn [entry_valid marshal entry_type]. intros V.
  apply andb_true_iff in V. destruct V as [Vn Vk].
  destruct keys as [|k r]; [discriminate|].
  cbn [marshal_delete]. eexists. split; [reflexivity|].
  change (unmarshal c13_DeleteWALEntryType) with
    (fun data => match unmarshal_delete data with
                 | UOk ks => UOk (EDelete ks)
                 | UCorrupt => UCorrupt | UErr => UErr | UCrash => UCrash end).
  cbv beta.
  assert (Hk : k <> []).
  { cbn [forallb] in Vk. destruct k; [|discriminate].
    cbn in Vk. discriminate. }
  pose proof (join_nl_nonnil k r Hk) as Hj.
  unfold unmarshal_delete.
  destruct (join_nl (k :: r)) as [|x t] eqn:E; [exfalso; apply Hj; first [exact E|reflexivity]|].
  rewrite <- E. rewrite split_join_nl by exact Vk. reflexivity.
Qed.


(* WriteWALEntry *)

Lemma enc_pairs_length l : length (flat_map enc_pair l) = (16 * length l)%nat.
Proof.
  induction l as [|a l IH]; cbn [flat_map length]; [reflexivity|].
  rewrite app_length. unfold enc_pair at 1. rewrite app_length, !be_enc_length. lia.
Qed.

Lemma enc_bools_length l : length (enc_values (VBool l)) = (9 * length l)%nat.
Proof.
  cbn [enc_values].
  induction l as [|a l IH]; cbn [flat_map length]; [reflexivity|].
  rewrite !app_length, be_enc_length. cbn [length]. lia.
Qed.

Lemma enc_strs_length l : (length l <= length (enc_values (VString l)))%nat.
Proof.
  cbn [enc_values].
  induction l as [|a l IH]; cbn [flat_map length]; [lia|].
  rewrite !app_length, !be_enc_length. lia.
Qed.

Lemma wvalues_len_le v : (wvalues_len v <= length (enc_values v))%nat.
Proof.
  destruct v as [l|l|l|l|l]; cbn [wvalues_len].
  1-3: cbn [enc_values]; rewrite enc_pairs_length; lia.
  - rewrite enc_bools_length. lia.
  - apply enc_strs_length.
Qed.

Lemma read_pairs_roundtrip : forall l rest,
  forallb (fun tv => u64 (fst tv) && u64 (snd tv)) l = true ->
  read_pairs (length l) (flat_map enc_pair l ++ rest) = Some (l, rest).
Proof.
  induction l as [|[t v] l IH]; intros rest H; cbn [flat_map length read_pairs forallb fst snd] in *.
  - reflexivity.
  - apply andb_true_iff in H. destruct H as [H Hl]. apply andb_true_iff in H. destruct H as [Ht Hv].
    unfold enc_pair at 1. cbn [fst snd]. rewrite <- !app_assoc.
    rewrite take_be_enc. rewrite take_be_enc. rewrite IH by exact Hl.
    rewrite !be_dec_enc8 by assumption. reflexivity.
Qed.

Lemma read_bools_roundtrip : forall l rest,
  forallb (fun tv : N * bool => u64 (fst tv)) l = true ->
  read_bools (length l) (enc_values (VBool l) ++ rest) = Some (l, rest).
Proof.
  cbn [enc_values].
  induction l as [|[t v] l IH]; intros rest H; cbn [flat_map length read_bools forallb fst snd] in *.
  - reflexivity.
  - apply andb_true_iff in H. destruct H as [Ht Hl].
    rewrite <- !app_assoc. rewrite take_be_enc. cbn [app].
    rewrite IH by exact Hl. rewrite be_dec_enc8 by exact Ht.
    destruct v; reflexivity.
Qed.

Lemma read_strings_roundtrip : forall l rest,
  forallb (fun tv : N * bytes => u64 (fst tv) && (N.of_nat (length (snd tv)) <? two32)) l = true ->
  read_strings (length l) (enc_values (VString l) ++ rest) = UOk (l, rest).
Proof.
  cbn [enc_values].
  induction l as [|[t s] l IH]; intros rest H; cbn [flat_map length read_strings forallb fst snd] in *.
  - reflexivity.
  - apply andb_true_iff in H. destruct H as [H Hl]. apply andb_true_iff in H. destruct H as [Ht Hs].
    rewrite <- !app_assoc.
    destruct (length (be_enc 8 t ++ _) <? 12)%nat eqn:L.
    { rewrite !app_length, !be_enc_length in L. lia. }
    rewrite take_be_enc. rewrite take_be_enc. rewrite be_dec_enc4 by lia.
    destruct (N.of_nat (length (s ++ _)) <? N.of_nat (length s)) eqn:L2.
    { rewrite app_length in L2. lia. }
    rewrite take_app_nat. rewrite IH by exact Hl. rewrite be_dec_enc8 by exact Ht. reflexivity.
Qed.

Ltac wal_types :=
  repeat match goal with
         | |- context [wvalues_type ?v =? ?c] =>
             let b := eval vm_compute in (wvalues_type v =? c) in
             change (wvalues_type v =? c) with b
         end.

Lemma uw_go_one k v rest f tot :
  N.of_nat (length k) < 65536 -> wvalues_len v <> 0%nat -> wvalues_repr v = true ->
  N.of_nat (wvalues_len v) <= tot ->
  unmarshal_write_go (S f) tot (enc_kv (k, v) ++ rest) =
  match unmarshal_write_go f tot rest with UOk l => UOk ((k, v) :: l) | o => o end.
Proof.
  intros Hk Hn Hr Ht.
  unfold wvalues_repr in Hr. apply andb_true_iff in Hr. destruct Hr as [Hc Hr].
  unfold enc_kv. cbn [fst snd app unmarshal_write_go].
  rewrite <- !app_assoc.
  rewrite take_be_enc. rewrite be_dec_enc2 by exact Hk.
  destruct (N.of_nat (length (k ++ _)) <? N.of_nat (length k)) eqn:L1;
    [rewrite app_length in L1; lia|].
  rewrite take_app_nat. rewrite take_be_enc. rewrite be_dec_enc4 by lia.
  destruct ((N.of_nat (wvalues_len v) =? 0) || (tot <? N.of_nat (wvalues_len v))) eqn:C; [lia|].
  rewrite Nat2N.id.
  destruct v as [l|l|l|l|l]; wal_types; cbv iota; cbn [wvalues_len] in *.
  1-3: cbn [enc_values];
    (destruct (N.of_nat (length (flat_map enc_pair l ++ rest)) <? 16 * N.of_nat (length l)) eqn:L2;
      [rewrite app_length, enc_pairs_length in L2; lia|]);
    rewrite read_pairs_roundtrip by exact Hr; reflexivity.
  - destruct (N.of_nat (length (enc_values (VBool l) ++ rest)) <? 9 * N.of_nat (length l)) eqn:L2;
      [rewrite app_length, enc_bools_length in L2; lia|].
    rewrite read_bools_roundtrip by exact Hr. reflexivity.
  - rewrite read_strings_roundtrip by exact Hr. reflexivity.
Qed.

Lemma uw_go_roundtrip : forall kvs fuel tot,
  forallb (fun kv => (N.of_nat (length (fst kv)) <? 65536)
                     && negb (Nat.eqb (wvalues_len (snd kv)) 0)) kvs = true ->
  forallb (fun kv => wvalues_repr (snd kv)) kvs = true ->
  (length (flat_map enc_kv kvs) < fuel)%nat ->
  N.of_nat (length (flat_map enc_kv kvs)) <= tot ->
  unmarshal_write_go fuel tot (flat_map enc_kv kvs) = UOk kvs.
Proof.
  induction kvs as [|[k v] r IH]; intros fuel tot V R F T.
  - destruct fuel; reflexivity.
  - cbn [flat_map forallb fst snd] in *.
    apply andb_true_iff in V. destruct V as [V Vr]. apply andb_true_iff in V. destruct V as [Vk Vn].
    apply andb_true_iff in R. destruct R as [Rv Rr].
    rewrite app_length in F, T.
    assert (Hlen : (length (enc_kv (k, v)) = 1 + 2 + length k + 4 + length (enc_values v))%nat).
    { unfold enc_kv. cbn [fst snd length]. rewrite !app_length, !be_enc_length. lia. }
    pose proof (wvalues_len_le v) as Hv.
    destruct fuel as [|f]; [lia|].
    rewrite uw_go_one; [|lia|lia|exact Rv|lia].
    rewrite IH; [reflexivity|exact Vr|exact Rr|lia|lia].
Qed.

Lemma marshal_write_ok : forall kvs,
  forallb (fun kv => (N.of_nat (length (fst kv)) <? 65536)
                     && negb (Nat.eqb (wvalues_len (snd kv)) 0)) kvs = true ->
  marshal_write kvs = MOk (flat_map enc_kv kvs).
Proof.
  intros kvs V. unfold marshal_write.
  match goal with |- context [existsb ?f ?l] => destruct (existsb f l) eqn:E end; [exfalso|reflexivity].
  induction kvs as [|kv r IH]; [discriminate|].
  cbn [forallb existsb] in *. unfold bytes in *. apply andb_true_iff in V. destruct V as [V Vr].
  apply orb_true_iff in E. destruct E as [E|E]; [|exact (IH Vr E)].
  rewrite E in V. rewrite andb_false_r in V. discriminate.
Qed.

Lemma write_roundtrip kvs :
  entry_valid (EWrite kvs) = true -> entry_repr (EWrite kvs) = true ->
  exists b, marshal (EWrite kvs) = MOk b /\
            unmarshal (entry_type (EWrite kvs)) b = UOk (EWrite kvs).
Proof.
  cbn [entry_valid entry_repr marshal entry_type]. intros V R.
  apply andb_true_iff in V. destruct V as [V _].
  rewrite marshal_write_ok by exact V. eexists. split; [reflexivity|].
  change (unmarshal c13_WriteWALEntryType) with
    (fun data => match unmarshal_write data with
                 | UOk kvs => UOk (EWrite kvs)
                 | UCorrupt => UCorrupt | UErr => UErr | UCrash => UCrash end).
  cbv beta. unfold unmarshal_write.
  rewrite uw_go_roundtrip; [reflexivity|exact V|exact R|lia|lia].
Qed.


Lemma wal_entry_roundtrip_lemma : forall e,
  entry_valid e = true -> entry_repr e = true ->
  exists b, marshal e = MOk b /\ unmarshal (entry_type e) b = UOk e.
Proof.
  intros [kvs|keys|mn mx keys] V R.
  - apply write_roundtrip; assumption.
  - apply delete_roundtrip; assumption.
  - apply delete_range_roundtrip; assumption.
Qed.

Lemma marshal_ok e : entry_valid e = true -> exists b, marshal e = MOk b.
Proof.
  destruct e as [kvs|keys|mn mx keys]; cbn [entry_valid marshal]; intros V.
  - apply andb_true_iff in V. destruct V as [V _]. rewrite marshal_write_ok by exact V. eauto.
  - destruct keys; [discriminate|]. cbn [marshal_delete]. eauto.
  - unfold marshal_delete_range. eauto.
Qed.

(* ---------- 3. replay of a segment cut at an arbitrary byte offset ---------- *)

Section Cut.
  Variable snappy_enc : bytes -> bytes.
  Variable snappy_dec : bytes -> option bytes.
  Hypothesis snappy_ok : forall b, snappy_dec (snappy_enc b) = Some b.

  Lemma segment_defined : forall es,
    Forall (fun e => entry_valid e = true) es -> exists seg, segment snappy_enc es = Some seg.
  Proof.
    induction es as [|e r IH]; intros H; cbn [segment]; [eauto|].
    inversion H as [|? ? He Hr]; subst.
    destruct (marshal_ok e He) as [p Hp]. destruct (IH Hr) as [s Hs].
    unfold entry_frame. rewrite Hp, Hs. eauto.
  Qed.

  Lemma frame_length typ c : length (frame typ c) = (5 + length c)%nat.
  Proof. unfold frame. cbn [length]. rewrite app_length, be_enc_length. lia. Qed.

  Lemma frame_split typ c rest :
    frame typ c ++ rest = (typ :: be_enc 4 (N.of_nat (length c))) ++ c ++ rest.
  Proof. unfold frame. cbn [app]. rewrite <- app_assoc. reflexivity. Qed.

  Lemma take_header typ (c : bytes) (rest : bytes) :
    take 5 ((typ :: be_enc 4 (N.of_nat (length c))) ++ rest)
    = Some (typ :: be_enc 4 (N.of_nat (length c)), rest).
  Proof.
    pose proof (take_app (typ :: be_enc 4 (N.of_nat (length c))) rest) as H.
    cbn [length] in H. rewrite be_enc_length in H. exact H.
  Qed.

  (* (a) a complete frame is read back *)
  Lemma reader_next_frame typ p e rest :
    unmarshal typ p = UOk e -> N.of_nat (length (snappy_enc p)) < two32 ->
    reader_next snappy_dec (frame typ (snappy_enc p) ++ rest)
    = NEntry e (5 + N.of_nat (length (snappy_enc p))) rest.
  Proof.
    intros U L. rewrite frame_split.
    pose proof (take_header typ (snappy_enc p) (snappy_enc p ++ rest)) as T.
    cbn [app] in *. unfold reader_next. rewrite T. cbn [hd tl].
    rewrite be_dec_enc4 by exact L.
    destruct (N.of_nat (length (snappy_enc p ++ rest)) <? N.of_nat (length (snappy_enc p))) eqn:L2;
      [rewrite app_length in L2; lia|].
    rewrite take_app_nat. rewrite snappy_ok. rewrite U. reflexivity.
  Qed.

  (* (b) a frame cut anywhere strictly inside is an error, neither an entry nor a crash *)
  Lemma reader_next_trunc typ c k :
    N.of_nat (length c) < two32 -> (0 < k < length (frame typ c))%nat ->
    reader_next snappy_dec (firstn k (frame typ c)) = NErr.
  Proof.
    intros L K. rewrite frame_length in K.
    destruct (Nat.ltb k 5) eqn:K5.
    - assert (Hl : length (firstn k (frame typ c)) = k).
      { apply firstn_length_le. rewrite frame_length. lia. }
      destruct (firstn k (frame typ c)) as [|x t] eqn:E; [cbn [length] in Hl; lia|].
      unfold reader_next.
      destruct (take 5 (x :: t)) as [[h r]|] eqn:T; [|reflexivity].
      apply take_len in T. lia.
    - assert (E : firstn k (frame typ c)
                  = (typ :: be_enc 4 (N.of_nat (length c))) ++ firstn (k - 5) c).
      { pose proof (frame_split typ c []) as F. rewrite !app_nil_r in F. rewrite F.
        rewrite firstn_app. cbn [length]. rewrite be_enc_length.
        rewrite firstn_all2 by (cbn [length]; rewrite be_enc_length; lia). reflexivity. }
      rewrite E.
      pose proof (take_header typ c (firstn (k - 5) c)) as T.
      cbn [app] in *. unfold reader_next. rewrite T. cbn [hd tl].
      rewrite be_dec_enc4 by exact L.
      destruct (N.of_nat (length (firstn (k - 5) c)) <? N.of_nat (length c)) eqn:L2; [reflexivity|].
      rewrite firstn_length in L2. lia.
  Qed.

  (* (c) the replay loop, generalised over the fuel and the running byte count *)
  Lemma read_segment_prefix : forall es seg,
    Forall (fun e => entry_valid e = true /\ entry_repr e = true) es ->
    (forall e p, In e es -> marshal e = MOk p -> N.of_nat (length (snappy_enc p)) < two32) ->
    segment snappy_enc es = Some seg ->
    forall k fuel n, (k <= length seg)%nat -> (k < fuel)%nat ->
    let r := read_segment snappy_dec fuel (firstn k seg) n in
    r_crashed r = false /\
    exists j pre, (j <= length es)%nat /\
      r_entries r = firstn j es /\
      segment snappy_enc (firstn j es) = Some pre /\
      r_n r = n + N.of_nat (length pre) /\ (length pre <= k)%nat /\
      (r_err r = false <-> length pre = k) /\
      (forall pre', (j < length es)%nat ->
         segment snappy_enc (firstn (S j) es) = Some pre' -> (k < length pre')%nat).
  Proof.
    induction es as [|e es IH]; intros seg G SZ SEG k fuel n K F; cbv zeta.
    - cbn [segment] in SEG. inversion SEG; subst seg. cbn [length] in K.
      assert (k = 0)%nat by lia. subst k. destruct fuel as [|f]; [lia|].
      cbn [firstn read_segment reader_next r_crashed r_entries r_n r_err].
      split; [reflexivity|]. exists 0%nat, [].
      cbn [firstn segment length].
      split; [lia|]. split; [reflexivity|]. split; [reflexivity|]. split; [lia|].
      split; [lia|]. split; [tauto|]. intros; lia.
    - inversion G as [|? ? [Ve Re] Gr]; subst.
      destruct (wal_entry_roundtrip_lemma e Ve Re) as (p & Mp & Up).
      cbn [segment] in SEG. unfold entry_frame in SEG. rewrite Mp in SEG.
      destruct (segment snappy_enc es) as [s|] eqn:Ss; [|discriminate].
      assert (Eseg : seg = frame (entry_type e) (snappy_enc p) ++ s) by (cbv beta iota in SEG; congruence).
      subst seg. clear SEG.
      assert (Lp : N.of_nat (length (snappy_enc p)) < two32).
      { apply (SZ e p); [left; reflexivity|exact Mp]. }
      assert (SZr : forall e' p', In e' es -> marshal e' = MOk p' ->
                                  N.of_nat (length (snappy_enc p')) < two32).
      { intros e' p' Hin Hm. apply (SZ e' p'); [right; exact Hin|exact Hm]. }
      pose proof (reader_next_frame (entry_type e) p e) as RN.
      pose proof (reader_next_trunc (entry_type e) (snappy_enc p)) as RT.
      assert (Seg1 : segment snappy_enc [e] = Some (frame (entry_type e) (snappy_enc p) ++ [])).
      { cbn [segment]. unfold entry_frame. rewrite Mp. reflexivity. }
      remember (snappy_enc p) as c eqn:Ec.
      remember (frame (entry_type e) c) as fr eqn:Efr.
      assert (Lf : length fr = (5 + length c)%nat) by (subst fr; apply frame_length).
      rewrite app_length in K.
      destruct fuel as [|f]; [lia|].
      destruct (Nat.ltb k (length fr)) eqn:Kf.
      + (* the cut falls inside the first frame *)
        assert (E : firstn k (fr ++ s) = firstn k fr).
        { rewrite firstn_app. replace (k - length fr)%nat with 0%nat by lia.
          cbn [firstn]. apply app_nil_r. }
        rewrite E.
        destruct k as [|k'].
        * cbn [firstn read_segment reader_next r_crashed r_entries r_n r_err].
          split; [reflexivity|]. exists 0%nat, [].
          split; [lia|]. split; [reflexivity|]. split; [reflexivity|].
          cbn [length]. split; [lia|]. split; [lia|]. split; [tauto|].
          intros pre' _ Hp. change (segment snappy_enc [e] = Some pre') in Hp. rewrite Seg1 in Hp. inversion Hp; subst pre'.
          rewrite app_length. lia.
        * cbn [read_segment]. rewrite RT by (exact Lp || lia).
          cbn [r_crashed r_entries r_n r_err].
          split; [reflexivity|]. exists 0%nat, [].
          split; [lia|]. split; [reflexivity|]. split; [reflexivity|].
          cbn [length]. split; [lia|]. split; [lia|]. split; [split; [discriminate|lia]|].
          intros pre' _ Hp. change (segment snappy_enc [e] = Some pre') in Hp. rewrite Seg1 in Hp. inversion Hp; subst pre'.
          rewrite app_length. cbn [length]. lia.
      + (* the first frame is complete: it is replayed, then the rest *)
        assert (E : firstn k (fr ++ s) = fr ++ firstn (k - length fr) s).
        { rewrite firstn_app. rewrite firstn_all2 by lia. reflexivity. }
        rewrite E. cbn [read_segment]. rewrite RN by assumption.
        cbn [r_crashed r_entries r_n r_err].
        pose proof (IH s Gr SZr eq_refl (k - length fr)%nat f (n + (5 + N.of_nat (length c)))
                      ltac:(lia) ltac:(lia)) as H.
        cbv zeta in H. destruct H as (C & j & pre & Hj & He & Hs & Hn & Hle & Herr & Hnext).
        split; [exact C|]. exists (S j), (fr ++ pre).
        split; [cbn [length]; lia|].
        split; [cbn [firstn]; rewrite He; reflexivity|].
        split.
        { cbn [firstn segment]. unfold entry_frame. rewrite Mp, Hs, <- Ec, <- Efr. reflexivity. }
        split; [rewrite Hn, app_length; lia|].
        split; [rewrite app_length; lia|].
        split; [rewrite Herr, app_length; lia|].
        intros pre' Hlt Hp.
        change (firstn (S (S j)) (e :: es)) with (e :: firstn (S j) es) in Hp.
        cbn [segment] in Hp. unfold entry_frame in Hp. rewrite Mp, <- Ec, <- Efr in Hp.
        destruct (segment snappy_enc (firstn (S j) es)) as [q|] eqn:Q; [|discriminate].
        inversion Hp; subst pre'.
        cbn [length] in Hlt. specialize (Hnext q ltac:(lia) eq_refl).
        rewrite app_length. lia.
  Qed.

  Lemma wal_cut_replays_prefix_lemma :
    forall es seg,
      Forall (fun e => entry_valid e = true /\ entry_repr e = true) es ->
      (forall e p, In e es -> marshal e = MOk p -> N.of_nat (length (snappy_enc p)) < two32) ->
      segment snappy_enc es = Some seg ->
      forall k, (k <= length seg)%nat ->
      let r := replay_segment snappy_dec (firstn k seg) in
      r_crashed r = false /\
      exists j pre, (j <= length es)%nat /\
        r_entries r = firstn j es /\
        segment snappy_enc (firstn j es) = Some pre /\
        r_n r = N.of_nat (length pre) /\ (length pre <= k)%nat /\
        (r_err r = false <-> length pre = k) /\
        (forall pre', (j < length es)%nat ->
           segment snappy_enc (firstn (S j) es) = Some pre' -> (k < length pre')%nat).
  Proof.
    intros es seg G SZ SEG k K. cbv zeta. unfold replay_segment.
    assert (F : (k < S (length (firstn k seg)))%nat) by (rewrite firstn_length; lia).
    pose proof (read_segment_prefix es seg G SZ SEG k _ 0 K F) as H. cbv zeta in H.
    destruct H as (C & j & pre & Hj & He & Hs & Hn & Hle & Herr & Hnext).
    split; [exact C|]. exists j, pre.
    rewrite N.add_0_l in Hn. repeat (split; [assumption|]). exact Hnext.
  Qed.
End Cut.

(* ---------- non-vacuity ---------- *)

Definition ex_write : wal_entry :=
  EWrite [ ([99; 112; 117], VFloat [(1, 4607182418800017408); (2, 0)]);
           ([109], VInt [(3, 18446744073709551615)]);
           ([110], VUnsigned [(3, 7)]);
           ([98], VBool [(5, true); (6, false)]);
           ([115], VString [(7, [104; 105]); (8, [])]) ].
Definition ex_delete : wal_entry := EDelete [[99; 112; 117]; [109; 101; 109]].
Definition ex_range : wal_entry := EDeleteRange 10 20 [[99; 112; 117]; []; [109]].
Definition ex_es : list wal_entry := [ex_write; ex_delete; ex_range].

Example ex_entries_in_domain :
  Forall (fun e => entry_valid e = true /\ entry_repr e = true) ex_es.
Proof. repeat constructor. Qed.

Example ex_roundtrip :
  map (fun e => match marshal e with
                | MOk b => unmarshal (entry_type e) b
                | MCrash => UCrash
                end) ex_es = map UOk ex_es.
Proof. vm_compute. reflexivity. Qed.

(* snappy := identity satisfies [snappy_ok]; the size hypothesis holds for ex_es *)
Example ex_cut_sizes : forall e p,
  In e ex_es -> marshal e = MOk p -> N.of_nat (length ((fun b : bytes => b) p)) < two32.
Proof.
  intros e p [<-|[<-|[<-|[]]]] H; vm_compute in H; injection H as <-; vm_compute; reflexivity.
Qed.

(* cut 3 bytes before the end: the first two entries are replayed, the third is reported
   as an error at the offset where it starts; cut on the boundary: no error *)
Example ex_cut_replay :
  match segment (fun b => b) ex_es, segment (fun b => b) (firstn 2 ex_es) with
  | Some seg, Some pre =>
      let r := replay_segment Some (firstn (length seg - 3) seg) in
      let r' := replay_segment Some (firstn (length pre) seg) in
      (r_entries r, r_err r, r_crashed r, r_n r) = (firstn 2 ex_es, true, false, N.of_nat (length pre))
      /\ (r_entries r', r_err r', r_crashed r', r_n r') = (firstn 2 ex_es, false, false, N.of_nat (length pre))
  | _, _ => False
  end.
Proof. vm_compute. split; reflexivity. Qed.
