(* C03/Batch.v — the BATCH level: coordinator/points_writer.go:WritePointsPrivilegedWithContext.
   A client's write is a batch of points that MapShards spreads over several shards; every
   shard is written by its own goroutine running writeToShardWithContext (Model.v), and what
   the client is told is the combination made by the loop at the end of
   WritePointsPrivilegedWithContext:

       ch := make(chan error, len(shardMappings.Points))
       for shardID, points := range shardMappings.Points { go func(...) { err := w.writeToShardWithContext(...)
               if err == tsdb.ErrShardDeletion { err = tsdb.PartialWriteError{...} } ; ch <- err }(...) }
       ...
       if err == nil && len(shardMappings.Dropped) > 0 { err = tsdb.PartialWriteError{"points beyond retention policy", Dropped} }
       for range shardMappings.Points {
           select { case <-w.closing: return ErrWriteFailed
                    case err := <-ch: if err != nil { return err } } }
       return err

   Definitions only (model first, then the batch-level spec in Section BatchSpec); proofs in
   BatchProofs.v.

   Remarks on faithfulness.
   * Every shard goroutine sends exactly one value (writeToShardWithContext always returns: its
     own timer bounds the wait), so the arrivals are the results of ALL shards in some order;
     the loop does as many iterations as there are shards.
   * `err == tsdb.ErrShardDeletion` compares with the value writeToShardWithContext returned.
     That function returns nil, ErrTimeout, ErrPartialWrite, ErrWriteFailed or a fresh
     fmt.Errorf("write failed: %v", e) value - never tsdb.ErrShardDeletion itself (a store that
     answers ErrShardDeletion is reported as "write failed: ..."), so the conversion is the
     identity on everything the shard goroutine can return; [result] has no such constructor.
   * `err == nil` in front of the dropped-points test is the error of MapShards, which is nil
     at that point (a non-nil one returned earlier).
   * w.closing: once PointsWriter.Close has run, the select may take either ready case; both
     "closing seen after k results were consumed" for every k are behaviours, which is what
     [close : option nat] ranges over (None: never closed during the wait). *)
From Verif Require Export C03.Model.
From Verif Require Import C03.Spec.
Open Scope N_scope.

(* ---------- inputs ---------- *)

(* one shard of the batch: its id, what the local store does on the first write (the lnf of
   Model.config is per shard here) and its owners with their environments *)
Record shard := mkSh { sh_id : N; sh_lnf : lnf; sh_owners : list owner }.

(* what all shards of one request share *)
Record bconfig := mkB { b_level : level; b_self : N; b_ooo : bool }.

Definition shard_cfg (b : bconfig) (s : shard) : config :=
  mkC (b_level b) (b_self b) (b_ooo b) (sh_lnf s).

(* ---------- the combination ---------- *)

(* the non-nil errors WritePointsPrivilegedWithContext can return after MapShards *)
Inductive berr :=
| BShard (sid : N) (r : result)   (* what the goroutine of shard sid sent (r is not Success) *)
| BDropped (n : N)                (* tsdb.PartialWriteError{"points beyond retention policy", n} *)
| BClosing.                       (* ErrWriteFailed from `case <-w.closing` *)

Definition is_success (r : result) : bool := match r with Success => true | _ => false end.

(* the final loop.  [arr]: (shard id, value sent) in the order the values are received;
   [close] = Some k: w.closing wins the select of iteration k (0-based), i.e. after k values
   were consumed; [final]: the value of `err` in front of the loop *)
Fixpoint bcollect (close : option nat) (arr : list (N * result)) (final : option berr) : option berr :=
  match arr with
  | [] => final
  | (sid, r) :: t =>
      match close with
      | Some O => Some BClosing
      | _ => if is_success r then bcollect (option_map Nat.pred close) t final
             else Some (BShard sid r)
      end
  end.

Definition dropped_err (dropped : N) : option berr :=
  if 0 <? dropped then Some (BDropped dropped) else None.

(* None = nil: the client is told success *)
Definition batch_write (close : option nat) (dropped : N) (arr : list (N * result)) : option berr :=
  bcollect close arr (dropped_err dropped).

(* ---------- runs ---------- *)

(* a run of the batch fixes, for every shard, the order in which its owners' answers reach
   that shard's channel *)
Definition shard_run (b : bconfig) (p : shard * list ans) : N * result :=
  (sh_id (fst p), write_to_shard (shard_cfg b (fst p)) (sh_owners (fst p)) (snd p)).

Definition results (b : bconfig) (run : list (shard * list ans)) : list (N * result) :=
  map (shard_run b) run.

(* effects: what happens at every owner of every shard - direct write calls, CreateShard
   calls, stored, handoff offers, queued.  The owner goroutines are started before anything
   is collected and nothing ever cancels them (neither an early return of the batch loop, nor
   of the shard loop, nor closing): each runs [owner_step] to its end. *)
Definition shard_effects (b : bconfig) (s : shard) : list oobs :=
  map (fun o => step_obs (owner_step (shard_cfg b s) o)) (sh_owners s).

(* ---------- the harness's schedule ---------- *)

(* The harness gives, per shard, the arrival order of its owners by index (as Model.arrivals)
   and releases the shards one after the other in [sorder] (indices into the shard list);
   [close] = Some c: PointsWriter.Close is called when c shards have been released.
   A shard whose wait ends in ErrTimeout sends its value only when the (shared) write timeout
   expires, i.e. after every shard that was released in time - and never before the Close. *)
Definition run_of (b : bconfig) (so : list (shard * list N)) : list (shard * list ans) :=
  map (fun p => (fst p, arrivals (shard_cfg b (fst p)) (sh_owners (fst p)) (snd p))) so.

Definition pick {A} (l : list A) (idx : list N) : list A :=
  flat_map (fun k => match nth_error l (N.to_nat k) with Some x => [x] | None => [] end) idx.

Definition is_timeout (x : N * result) : bool := match snd x with Timeout => true | _ => false end.
Definition not_timeout (x : N * result) : bool := negb (is_timeout x).

Definition sched_arr (close : option N) (ordered : list (N * result)) : list (N * result) :=
  let c := match close with Some c => N.to_nat c | None => length ordered end in
  let hd := firstn c ordered in
  filter not_timeout hd ++ filter is_timeout hd ++ skipn c ordered.

Definition sched_close (close : option N) (ordered : list (N * result)) : option nat :=
  match close with
  | None => None
  | Some c => Some (length (filter not_timeout (firstn (N.to_nat c) ordered)))
  end.

Record bobs := mkBObs { bo_result : option berr; bo_shards : list (list oobs) }.

Definition batch_model (b : bconfig) (so : list (shard * list N)) (sorder : list N)
           (close : option N) (dropped : N) : bobs :=
  let ordered := pick (results b (run_of b so)) sorder in
  mkBObs (batch_write (sched_close close ordered) dropped (sched_arr close ordered))
         (map (fun p => shard_effects b (fst p)) so).

(* ---------- what the client sees ---------- *)

(* ErrPartialWrite / ErrTimeout / ErrWriteFailed carry no shard; "write failed: e" names the
   error (the fakes' error texts name shard and node); closing is ErrWriteFailed too *)
Inductive bout :=
| OOk
| OErr (c : class) (e : option (N * err))
| ODrop (n : N).

Definition out_of (r : option berr) : bout :=
  match r with
  | None => OOk
  | Some (BShard sid (Failed (Some e))) => OErr CFailed (Some (sid, e))
  | Some (BShard sid r) => OErr (class_of r) None
  | Some (BDropped n) => ODrop n
  | Some BClosing => OErr CFailed None
  end.

(* ---------- the batch-level spec (no use of bcollect / write_to_shard) ---------- *)

Section BatchSpec.
Variable b : bconfig.

Definition shard_met (s : shard) : bool := level_met (shard_cfg b s) (sh_owners s).
Definition shard_class (s : shard) : class := expected_class (shard_cfg b s) (sh_owners s).

Fixpoint nseq (k : N) (n : nat) : list N :=
  match n with O => [] | S n' => k :: nseq (k + 1) n' end.

(* the schedule is well formed: every shard released once, every shard's owner order valid,
   a Close only while shards are still outstanding *)
Definition valid_batch (so : list (shard * list N)) (sorder : list N) (close : option N) : bool :=
  is_perm sorder (nseq 0 (length so))
  && forallb (fun p => valid_order (shard_cfg b (fst p)) (sh_owners (fst p)) (snd p)) so
  && match close with Some c => c <? N.of_nat (length so) | None => true end.

Fixpoint shards_ok (shards : list shard) (oo : list (list oobs)) : bool :=
  match shards, oo with
  | [], [] => true
  | s :: t, x :: t' => owners_ok (shard_cfg b s) (sh_owners s) x && shards_ok t t'
  | _, _ => false
  end.

(* what the client may be told:
   success            iff every shard met the level, no point was dropped, no Close;
   partial write (n)  iff every shard met the level, n > 0 points were dropped, no Close;
   otherwise an error of the class of a shard that did not meet the level (or ErrWriteFailed
   when the writer was closed during the wait);
   and at every owner of every shard the effects are those of the single-shard property *)
Definition out_ok (shards : list shard) (closed : bool) (dropped : N) (o : bout) : bool :=
  let met := forallb shard_met shards in
  match o with
  | OOk => met && (dropped =? 0) && negb closed
  | ODrop n => met && (0 <? dropped) && (n =? dropped) && negb closed
  | OErr c _ =>
      existsb (fun s => negb (shard_met s) && class_eqb (shard_class s) c) shards
      || (closed && class_eqb c CFailed)
  end.

Definition batch_spec_ok (so : list (shard * list N)) (sorder : list N) (close : option N)
           (dropped : N) (o : bout) (eff : list (list oobs)) : bool :=
  negb (valid_batch so sorder close)
  || (out_ok (map fst so) (match close with Some _ => true | None => false end) dropped o
      && shards_ok (map fst so) eff).

End BatchSpec.
