(* C03/Run.v — correspondence cases: the harness records what the real PointsWriter did
   for an input; [check_case] compares with the model and evaluates the executable spec
   (Spec.spec_ok) on the implementation's observation.
   result code: 0 = agree and property holds on the observation
                1 = model and implementation differ, property still holds on the observation
                2 = they differ and the property fails on the implementation's observation
                3 = they agree and the property fails (model mirrors a defect) *)
From Verif Require Export C03.Model C03.Level C03.Batch C03.Handoff C03.Remote.
From Verif Require Import C03.Spec.
Open Scope N_scope.

Definition code (agree spec_ok : bool) : N :=
  match agree, spec_ok with
  | true, true => 0 | false, true => 1 | false, false => 2 | true, false => 3
  end.

(* per-owner observation as emitted by the harness (cheaper to elaborate than a 5-tuple) *)
Definition ob (w c : N) (s : bool) (h : N) (q : bool) : oobs := (w, c, s, h, q).

Inductive case :=
(* level, coordinator node id, AllowOutOfOrderWrites, local shard-not-found path, owners,
   arrival order (owner indices); then what the implementation did: error class
   (0 nil, 1 ErrPartialWrite, 2 write failed, 3 ErrTimeout, other = anything else incl.
   panic), the error named by "write failed: ...", per-owner observation *)
| CWrite (l : level) (self : N) (ooo : bool) (nf : lnf) (owners : list owner) (order : list N)
         (cls : N) (e : option err) (oo : list oobs)
(* models.ParseConsistencyLevel on a `consistency` parameter value: accepted?, the numeric level *)
| CLevel (param : list N) (ok : bool) (num : N)
(* a BATCH over several shards through WritePointsPrivileged: level, coordinator node id,
   AllowOutOfOrderWrites, the shards each with its owners' arrival order, the order in which the
   shards are released, Close after that many shards (or never), number of points beyond the
   retention policy; then what the implementation did: class (0 nil, 1 ErrPartialWrite,
   2 write failed, 3 ErrTimeout, 4 PartialWriteError "points beyond retention policy"), the
   (shard, error) named by "write failed: ...", the Dropped count, per shard per owner effects *)
| CBatch (l : level) (self : N) (ooo : bool) (so : list (shard * list N)) (sorder : list N)
         (close : option N) (dropped : N) (cls : N) (e : option (N * err)) (dn : N) (oo : list (list oobs))
(* a sequence of writes to one shard with the REAL hh.Service (max-size [max]) behind the points
   writer: coordinator id, AllowOutOfOrderWrites, handoff enabled, max-size, owner node ids, the
   writes; then per write the class reported, the (owner, write) pairs the owners' stores
   received, and per owner the write ids found in its queue when it is drained afterwards *)
| CHH (self : N) (ooo enabled : bool) (max : N) (ids : list N) (ws : list hwrite)
      (classes : list N) (stores : list (N * N)) (queues : list (list N))
(* a sequence of writes through the REAL ShardWriter (+ connection pool) to a scripted node:
   per write the node's behaviour; then per write: success reported?, did the node store and
   acknowledge exactly this write? *)
| CRemote (script : list rreply) (outs : list bool) (acked : list bool).

Definition impl_result (cls : N) (e : option err) : option result :=
  match cls with
  | 0 => Some Success | 1 => Some Partial | 2 => Some (Failed e) | 3 => Some Timeout
  | _ => None
  end.

Definition err_eqb (a b : err) : bool :=
  match a, b with
  | EW x, EW y | EH x, EH y | EC x, EC y => x =? y
  | ENotEmpty, ENotEmpty | EBlocked, EBlocked => true
  | _, _ => false
  end.

Definition result_eqb (a b : result) : bool :=
  match a, b with
  | Success, Success | Partial, Partial | Timeout, Timeout => true
  | Failed None, Failed None => true
  | Failed (Some x), Failed (Some y) => err_eqb x y
  | _, _ => false
  end.

Definition oobs_eqb (a b : oobs) : bool :=
  let '(w1, c1, s1, h1, q1) := a in
  let '(w2, c2, s2, h2, q2) := b in
  (w1 =? w2) && (c1 =? c2) && Bool.eqb s1 s2 && (h1 =? h2) && Bool.eqb q1 q2.

Fixpoint list_eqb {A} (eqb : A -> A -> bool) (a b : list A) : bool :=
  match a, b with
  | [], [] => true
  | x :: a', y :: b' => eqb x y && list_eqb eqb a' b'
  | _, _ => false
  end.

Definition impl_bout (cls : N) (e : option (N * err)) (dn : N) : option bout :=
  match cls with
  | 0 => Some OOk | 1 => Some (OErr CPartial None) | 2 => Some (OErr CFailed e)
  | 3 => Some (OErr CTimeout None) | 4 => Some (ODrop dn)
  | _ => None
  end.

Definition bout_eqb (a b : bout) : bool :=
  match a, b with
  | OOk, OOk => true
  | ODrop x, ODrop y => x =? y
  | OErr c None, OErr c' None => class_eqb c c'
  | OErr c (Some (s, x)), OErr c' (Some (s', y)) => class_eqb c c' && (s =? s') && err_eqb x y
  | _, _ => false
  end.

Definition pair_eqb (a b : N * N) : bool := (fst a =? fst b) && (snd a =? snd b).

Definition check_case (c : case) : N :=
  match c with
  | CBatch l self ooo so sorder close dropped cls e dn oo =>
      let b := mkB l self ooo in
      let m := batch_model b so sorder close dropped in
      let valid := valid_batch b so sorder close in
      match impl_bout cls e dn with
      | None => 2
      | Some o =>
          code (valid && bout_eqb (out_of (bo_result m)) o && list_eqb (list_eqb oobs_eqb) (bo_shards m) oo)
               (valid && batch_spec_ok b so sorder close dropped o oo)
      end
  | CHH self ooo enabled max ids ws classes stores queues =>
      let r := hrun self ooo (mkH enabled max) (map (fun id => (id, hq_new)) ids) ws in
      code (list_eqb N.eqb (map class_num (fst (fst r))) classes
            && list_eqb pair_eqb (snd (fst r)) stores
            && list_eqb (list_eqb N.eqb) (map (fun p => q_blocks (snd p)) (snd r)) queues)
           (hh_backed ws classes stores queues && Nat.eqb (length queues) (length ids))
  | CRemote script outs acked =>
      code (list_eqb Bool.eqb (rrun false None script) outs)
           (acked_ok outs acked)
  | CWrite l self ooo nf owners order cls e oo =>
      let cfg := mkC l self ooo nf in
      let m := model cfg owners order in
      let valid := valid_order cfg owners order in
      match impl_result cls e with
      | None => 2
      | Some r =>
          let ob := mkObs r oo in
          code (valid && result_eqb (ob_result m) r && list_eqb oobs_eqb (ob_owners m) oo)
               (valid && spec_ok cfg owners order ob)
      end
  | CLevel param ok num =>
      let agree := match parse_level param with
                   | Some l => ok && (num =? level_num l)
                   | None => negb ok
                   end in
      (* the property's side: a parameter is accepted exactly when it spells one of the four
         names (any letter case), and then means that level *)
      let named := existsb (fun l => bytes_eqb (lower param) (level_name l) && (num =? level_num l)) [LAny; LOne; LQuorum; LAll] in
      code agree (if ok then is_ascii param && named
                  else negb (is_ascii param && existsb (fun l => bytes_eqb (lower param) (level_name l)) [LAny; LOne; LQuorum; LAll]))
  end.
