(* C03/Run.v — correspondence cases: the harness records what the real PointsWriter did
   for an input; [check_case] compares with the model and evaluates the executable spec
   (Spec.spec_ok) on the implementation's observation.
   result code: 0 = agree and property holds on the observation
                1 = model and implementation differ, property still holds on the observation
                2 = they differ and the property fails on the implementation's observation
                3 = they agree and the property fails (model mirrors a defect) *)
From Verif Require Export C03.Model C03.Level.
From Verif Require Import C03.Spec.
Open Scope N_scope.

Definition code (agree spec_ok : bool) : N :=
  match agree, spec_ok with
  | true, true => 0 | false, true => 1 | false, false => 2 | true, false => 3
  end.

(* per-owner observation as emitted by the harness (cheaper to elaborate than a 5-tuple) *)
Definition ob (w c : N) (s : bool) (h : N) (q : bool) : oobs := (w, c, s, h, q).

Inductive case :=
(* level, coordinator node id, AllowOutOfOrderWrites, local shard-not-found path, owners,
   arrival order (owner indices); then what the implementation did: error class
   (0 nil, 1 ErrPartialWrite, 2 write failed, 3 ErrTimeout, other = anything else incl.
   panic), the error named by "write failed: ...", per-owner observation *)
| CWrite (l : level) (self : N) (ooo : bool) (nf : lnf) (owners : list owner) (order : list N)
         (cls : N) (e : option err) (oo : list oobs)
(* models.ParseConsistencyLevel on a `consistency` parameter value: accepted?, the numeric level *)
| CLevel (param : list N) (ok : bool) (num : N).

Definition impl_result (cls : N) (e : option err) : option result :=
  match cls with
  | 0 => Some Success | 1 => Some Partial | 2 => Some (Failed e) | 3 => Some Timeout
  | _ => None
  end.

Definition err_eqb (a b : err) : bool :=
  match a, b with
  | EW x, EW y | EH x, EH y | EC x, EC y => x =? y
  | ENotEmpty, ENotEmpty | EBlocked, EBlocked => true
  | _, _ => false
  end.

Definition result_eqb (a b : result) : bool :=
  match a, b with
  | Success, Success | Partial, Partial | Timeout, Timeout => true
  | Failed None, Failed None => true
  | Failed (Some x), Failed (Some y) => err_eqb x y
  | _, _ => false
  end.

Definition oobs_eqb (a b : oobs) : bool :=
  let '(w1, c1, s1, h1, q1) := a in
  let '(w2, c2, s2, h2, q2) := b in
  (w1 =? w2) && (c1 =? c2) && Bool.eqb s1 s2 && (h1 =? h2) && Bool.eqb q1 q2.

Fixpoint list_eqb {A} (eqb : A -> A -> bool) (a b : list A) : bool :=
  match a, b with
  | [], [] => true
  | x :: a', y :: b' => eqb x y && list_eqb eqb a' b'
  | _, _ => false
  end.

Definition check_case (c : case) : N :=
  match c with
  | CWrite l self ooo nf owners order cls e oo =>
      let cfg := mkC l self ooo nf in
      let m := model cfg owners order in
      let valid := valid_order cfg owners order in
      match impl_result cls e with
      | None => 2
      | Some r =>
          let ob := mkObs r oo in
          code (valid && result_eqb (ob_result m) r && list_eqb oobs_eqb (ob_owners m) oo)
               (valid && spec_ok cfg owners order ob)
      end
  | CLevel param ok num =>
      let agree := match parse_level param with
                   | Some l => ok && (num =? level_num l)
                   | None => negb ok
                   end in
      (* the property's side: a parameter is accepted exactly when it spells one of the four
         names (any letter case), and then means that level *)
      let named := existsb (fun l => bytes_eqb (lower param) (level_name l) && (num =? level_num l)) [LAny; LOne; LQuorum; LAll] in
      code agree (if ok then is_ascii param && named
                  else negb (is_ascii param && existsb (fun l => bytes_eqb (lower param) (level_name l)) [LAny; LOne; LQuorum; LAll]))
  end.
