(* C03/Model.v — executable model of coordinator/points_writer.go:writeToShardWithContext
   (one shard, one batch of points): the per-owner goroutine ([owner_step]) and the
   result-collection loop ([collect]).  Definitions only; the abstract property is in
   Spec.v, proofs in Proofs.v.

   Environment of a write (what the fakes of the harness realise, what a real cluster
   decides): for every owner, what a direct write to it does *if attempted* ([wres]),
   whether its hinted-handoff queue is already non-empty, and what hinted handoff does
   *if offered* ([hhres]).  The property's named scenarios are the points
     stored                      = (WOk,    false, _)
     retryable failure, hh h     = (WRetry, false, h)
     permanent rejection         = (WPerm,  false, _)
     queue non-empty, enqueue h  = (_,      true,  h)
     no answer before timeout    = (WHang,  false, _)
   of this product; the model is total on the whole product. *)
From Coq Require Export List NArith Bool.
From VerifGen Require Import Consts.
Export ListNotations.
Open Scope N_scope.

(* ---------- inputs ---------- *)

Inductive level := LAny | LOne | LQuorum | LAll.

(* models.ConsistencyLevel values, regenerated from models/consistency.go *)
Definition level_num (l : level) : N :=
  match l with
  | LAny => consistency_any | LOne => consistency_one
  | LQuorum => consistency_quorum | LAll => consistency_all
  end.

Inductive wres :=
| WOk      (* the owner stores the points and acknowledges *)
| WRetry   (* error for which hh.IsRetryable is true (connection refused, timeout, ...) *)
| WPerm    (* "field type conflict" / "partial write": hh.IsRetryable is false *)
| WHang.   (* the call does not return before the write timeout *)

Inductive hhres :=
| HAccept    (* HintedHandoff.WriteShard returns nil: durably queued *)
| HRefuse    (* returns an ordinary error (queue full, handoff disabled, ...) *)
| HBlocked.  (* returns hh.ErrQueueBlocked *)

(* local store: the shard exists | first write says tsdb.ErrShardNotFound and CreateShard
   succeeds | ... and CreateShard fails *)
Inductive lnf := NfNone | NfCreateOk | NfCreateFail.

Record owner := mkO { o_id : N; o_w : wres; o_q : bool; o_h : hhres }.

Record config := mkC {
  c_level : level;
  c_self : N;        (* MetaClient.NodeID() of the coordinating node *)
  c_ooo : bool;      (* PointsWriter.AllowOutOfOrderWrites *)
  c_lnf : lnf }.

(* ---------- per-owner goroutine ---------- *)

(* the errors that can travel over the result channel: direct-write error of a node,
   hinted-handoff error for a node, CreateShard error, hh.ErrHintedHandoffQueueNotEmpty,
   hh.ErrQueueBlocked *)
Inductive err := EW (id : N) | EH (id : N) | EC (id : N) | ENotEmpty | EBlocked.

Inductive ans := AOk | AErr (e : err).     (* AsyncWriteResult.Err = nil | e *)

Record step := mkS {
  s_res : option ans;   (* None: nothing is sent on the channel before the timeout *)
  s_writes : N;         (* direct write calls (TSDBStore.WriteToShard / ShardWriter.WriteShard) *)
  s_creates : N;        (* TSDBStore.CreateShard calls *)
  s_stored : bool;      (* a direct write returned nil *)
  s_hh : N;             (* HintedHandoff.WriteShard calls *)
  s_queued : bool }.    (* one of them returned nil *)

(* w.HintedHandoff.WriteShard(shardID, owner.NodeID, points) *)
Definition hh_write (o : owner) : option err :=
  match o_h o with
  | HAccept => None
  | HRefuse => Some (EH (o_id o))
  | HBlocked => Some EBlocked
  end.

(* a direct write that returns *)
Definition direct_ans (o : owner) : ans :=
  match o_w o with WOk => AOk | _ => AErr (EW (o_id o)) end.
Definition direct_stored (o : owner) : bool :=
  match o_w o with WOk => true | _ => false end.

Definition is_any (l : level) : bool := level_num l =? consistency_any.

(* The body of `go func(shardID, owner, points)`.  [fixed] = true is the code after the
   "fix:" commit (an enqueue accepted behind a non-empty queue counts as success under
   any); false is the pinned tree, kept for the refutation theorem. *)
Definition owner_step_with (fixed : bool) (cfg : config) (o : owner) : step :=
  if c_self cfg =? o_id o then
    (* local owner: writeToShard; on ErrShardNotFound CreateShard and write again *)
    match o_w o with
    | WHang => mkS None 1 0 false 0 false
    | _ =>
      match c_lnf cfg with
      | NfNone => mkS (Some (direct_ans o)) 1 0 (direct_stored o) 0 false
      | NfCreateFail => mkS (Some (AErr (EC (o_id o)))) 1 1 false 0 false
      | NfCreateOk => mkS (Some (direct_ans o)) 2 1 (direct_stored o) 0 false
      end
    end
  else if negb (c_ooo cfg) && o_q o then
    (* !AllowOutOfOrderWrites && !HintedHandoff.Empty: enqueue instead of writing *)
    match hh_write o with
    | Some e => mkS (Some (AErr e)) 0 0 false 1 false
    | None =>
        if fixed && is_any (c_level cfg)
        then mkS (Some AOk) 0 0 false 1 true
        else mkS (Some (AErr ENotEmpty)) 0 0 false 1 true
    end
  else
    (* w.ShardWriter.WriteShard *)
    match o_w o with
    | WHang => mkS None 1 0 false 0 false
    | WOk => mkS (Some AOk) 1 0 true 0 false
    | WPerm => mkS (Some (AErr (EW (o_id o)))) 1 0 false 0 false     (* not retryable *)
    | WRetry =>
        match hh_write o with
        | Some e => mkS (Some (AErr e)) 1 0 false 1 false
        | None =>
            if is_any (c_level cfg)
            then mkS (Some AOk) 1 0 false 1 true
            else mkS (Some (AErr (EW (o_id o)))) 1 0 false 1 true
        end
    end.

Definition owner_step := owner_step_with true.

(* ---------- the collecting loop ---------- *)

(* required number of successful owners; the switch of the code, default arm = all *)
Definition required (lvl : N) (n : N) : N :=
  if (lvl =? consistency_any) || (lvl =? consistency_one) then 1
  else if lvl =? consistency_quorum then n / 2 + 1
  else n.

Inductive result :=
| Success                      (* nil *)
| Partial                      (* ErrPartialWrite *)
| Failed (e : option err)      (* "write failed: e" | ErrWriteFailed *)
| Timeout.                     (* ErrTimeout *)

(* result.Err.Error() == ErrHintedHandoffQueueNotEmpty.Error() || == ErrQueueBlocked.Error() *)
Definition is_skipped (e : err) : bool :=
  match e with ENotEmpty | EBlocked => true | _ => false end.

(* after the loop *)
Definition finish (wrote : N) (werr : option err) : result :=
  if 0 <? wrote then Partial else Failed werr.

(* `for range shard.Owners { select { case <-timeout.C: ...; case result := <-ch: ... } }`
   [iters] = iterations left, [arr] = the answers that still arrive before the timer fires,
   in arrival order (the channel is FIFO).  When an iteration finds no further answer the
   timer wins the select. *)
Fixpoint collect (iters : nat) (req wrote : N) (werr : option err) (arr : list ans) : result :=
  match iters with
  | O => finish wrote werr
  | S it =>
    match arr with
    | [] => Timeout
    | AErr e :: arr' =>
        if is_skipped e then collect it req wrote werr arr'
        else collect it req wrote (match werr with None => Some e | Some _ => werr end) arr'
    | AOk :: arr' =>
        if req <=? wrote + 1 then Success
        else collect it req (wrote + 1) werr arr'
    end
  end.

(* what the owners put on the channel, listed in owner order *)
Definition answers_with (fixed : bool) (cfg : config) (owners : list owner) : list ans :=
  flat_map (fun o => match s_res (owner_step_with fixed cfg o) with Some a => [a] | None => [] end) owners.
Definition answers := answers_with true.

(* writeToShardWithContext for answers arriving in the order [arr] *)
Definition write_to_shard (cfg : config) (owners : list owner) (arr : list ans) : result :=
  let n := length owners in
  collect n (required (level_num (c_level cfg)) (N.of_nat n)) 0 None arr.

(* ---------- arrival order given as owner indices (the harness's input format) ---------- *)

Definition answer_of_index (cfg : config) (owners : list owner) (i : N) : list ans :=
  match nth_error owners (N.to_nat i) with
  | Some o => match s_res (owner_step cfg o) with Some a => [a] | None => [] end
  | None => []
  end.

Definition arrivals (cfg : config) (owners : list owner) (order : list N) : list ans :=
  flat_map (answer_of_index cfg owners) order.

(* ---------- observation ---------- *)

(* per owner: direct write calls, CreateShard calls, stored, handoff offers, queued *)
Definition oobs := (N * N * bool * N * bool)%type.
Definition step_obs (s : step) : oobs := (s_writes s, s_creates s, s_stored s, s_hh s, s_queued s).

Record obs := mkObs { ob_result : result; ob_owners : list oobs }.

Definition model (cfg : config) (owners : list owner) (order : list N) : obs :=
  mkObs (write_to_shard cfg owners (arrivals cfg owners order))
        (map (fun o => step_obs (owner_step cfg o)) owners).
