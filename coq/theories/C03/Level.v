(* C03/Level.v — the REQUESTED consistency level: models.ParseConsistencyLevel and the default
   of the HTTP write handlers (services/httpd/handler.go serveWrite / serveWriteV2:
   `consistency := models.ConsistencyLevelOne; if level != "" { ParseConsistencyLevel(level) }`).
   Definitions only; level strings are byte lists (UTF-8).
   strings.ToLower: ASCII letters are folded bytewise; a non-ASCII rune never lowers to a letter
   of "any" / "one" / "quorum" / "all" (the only non-ASCII runes that lower to ASCII are U+212A
   KELVIN SIGN -> 'k' and U+0130 -> 'i' + U+0307; neither name contains 'k', and the second
   leaves a non-ASCII byte), so a string with a byte >= 128 parses only if it lowers to a name
   bytewise, which it cannot. *)
From Verif Require Export C03.Model.
Open Scope N_scope.

Definition ascii_lower (b : N) : N := if (65 <=? b) && (b <=? 90) then b + 32 else b.
Definition lower (s : list N) : list N := map ascii_lower s.

Definition name_any : list N := [97; 110; 121].
Definition name_one : list N := [111; 110; 101].
Definition name_quorum : list N := [113; 117; 111; 114; 117; 109].
Definition name_all : list N := [97; 108; 108].

Definition level_name (l : level) : list N :=
  match l with LAny => name_any | LOne => name_one | LQuorum => name_quorum | LAll => name_all end.

Fixpoint bytes_eqb (a b : list N) : bool :=
  match a, b with
  | [], [] => true
  | x :: a', y :: b' => (x =? y) && bytes_eqb a' b'
  | _, _ => false
  end.

Definition is_ascii (s : list N) : bool := forallb (fun b => b <? 128) s.

(* ParseConsistencyLevel: None = ErrInvalidConsistencyLevel *)
Definition parse_level (s : list N) : option level :=
  if negb (is_ascii s) then None else
  let t := lower s in
  if bytes_eqb t name_any then Some LAny
  else if bytes_eqb t name_one then Some LOne
  else if bytes_eqb t name_quorum then Some LQuorum
  else if bytes_eqb t name_all then Some LAll
  else None.

(* the level a write request asks for: the `consistency` query parameter, absent or empty = one;
   None = the request is refused with 400 before any point is written *)
Definition request_level (param : list N) : option level :=
  match param with
  | [] => Some LOne
  | _ => parse_level param
  end.
