(* C03/Proofs.v — lemmas about Model.v against Spec.v. *)
From Coq Require Import Arith Lia Permutation.
From Coq Require Import ZifyBool ZifyNat ZifyN.
From Verif Require Import C03.Model C03.Spec.
From VerifGen Require Import Consts.
Open Scope N_scope.

(* ---------- the enum ---------- *)

Lemma is_any_spec l : is_any l = match l with LAny => true | _ => false end.
Proof. destruct l; vm_compute; reflexivity. Qed.

Lemma required_spec l n :
  required (level_num l) n =
  match l with LAny | LOne => 1 | LQuorum => n / 2 + 1 | LAll => n end.
Proof. destruct l; unfold required; cbn; reflexivity. Qed.

Lemma level_num_inj a b : level_num a = level_num b -> a = b.
Proof. destruct a, b; vm_compute; intro H; try reflexivity; discriminate H. Qed.

(* ---------- the collecting loop ---------- *)

Fixpoint oks (arr : list ans) : N :=
  match arr with
  | [] => 0
  | AOk :: t => 1 + oks t
  | AErr _ :: t => oks t
  end.

(* the first error that is not skipped *)
Fixpoint first_err (arr : list ans) : option err :=
  match arr with
  | [] => None
  | AOk :: t => first_err t
  | AErr e :: t => if is_skipped e then first_err t else Some e
  end.

Definition or_else (a b : option err) : option err :=
  match a with Some _ => a | None => b end.

Lemma collect_spec arr : forall iters req wrote werr,
  (length arr <= iters)%nat -> wrote < req ->
  collect iters req wrote werr arr =
    if req <=? wrote + oks arr then Success
    else if (length arr <? iters)%nat then Timeout
    else finish (wrote + oks arr) (or_else werr (first_err arr)).
Proof.
  induction arr as [|a t IH]; intros iters req wrote werr Hlen Hlt.
  - cbn [oks first_err length]. rewrite N.add_0_r.
    destruct (req <=? wrote) eqn:E; [lia|].
    destruct iters as [|it]; cbn [collect].
    + destruct werr; reflexivity.
    + reflexivity.
  - destruct iters as [|it]; [cbn in Hlen; lia|].
    cbn [length] in Hlen. assert (Hlen' : (length t <= it)%nat) by lia.
    cbn [collect].
    replace (length (a :: t) <? S it)%nat with (length t <? it)%nat
      by (cbn [length]; destruct (Nat.ltb_spec (length t) it), (Nat.ltb_spec (S (length t)) (S it)); lia).
    destruct a as [|e].
    + cbn [oks first_err].
      destruct (req <=? wrote + 1) eqn:E1.
      * destruct (req <=? wrote + (1 + oks t)) eqn:E2; [reflexivity|lia].
      * rewrite (IH it req (wrote + 1) werr Hlen') by lia.
        replace (wrote + 1 + oks t) with (wrote + (1 + oks t)) by lia. reflexivity.
    + cbn [oks first_err].
      destruct (is_skipped e) eqn:Es.
      * apply IH; assumption.
      * rewrite IH by assumption.
        destruct werr; reflexivity.
Qed.

Lemma oks_perm a b : Permutation a b -> oks a = oks b.
Proof.
  induction 1 as [|x l l' _ IH|x y l|l l' l'' _ IH1 _ IH2]; cbn [oks].
  - reflexivity.
  - destruct x; rewrite IH; reflexivity.
  - destruct x, y; lia.
  - congruence.
Qed.

Lemma oks_le_length arr : oks arr <= N.of_nat (length arr).
Proof. induction arr as [|[|e] t IH]; cbn [oks length]; lia. Qed.

Lemma oks_app a b : oks (a ++ b) = oks a + oks b.
Proof. induction a as [|[|e] t IH]; cbn [oks app]; lia. Qed.

(* ---------- one owner: model against spec ---------- *)

Section Owner.
Variable cfg : config.

Lemma step_stored o : s_stored (owner_step cfg o) = stored cfg o.
Proof.
  unfold owner_step, owner_step_with, stored, behind_queue, is_local, direct_stored, direct_ans, hh_write.
  destruct o as [id w q h]; cbn [o_id o_w o_q o_h].
  destruct (c_self cfg =? id); cbn [negb andb].
  - destruct w, (c_lnf cfg); reflexivity.
  - destruct (c_ooo cfg), q, w, h; cbn; try reflexivity;
      destruct (is_any (c_level cfg)); reflexivity.
Qed.

Lemma step_hh o : s_hh (owner_step cfg o) = hh_expected cfg o.
Proof.
  unfold owner_step, owner_step_with, hh_expected, hh_due, behind_queue, is_local, direct_stored, direct_ans, hh_write.
  destruct o as [id w q h]; cbn [o_id o_w o_q o_h].
  destruct (c_self cfg =? id); cbn [negb andb].
  - destruct w, (c_lnf cfg); reflexivity.
  - destruct (c_ooo cfg), q, w, h; cbn; try reflexivity;
      destruct (is_any (c_level cfg)); reflexivity.
Qed.

Lemma step_queued o : s_queued (owner_step cfg o) = queued cfg o.
Proof.
  unfold owner_step, owner_step_with, queued, hh_due, behind_queue, is_local, direct_stored, direct_ans, hh_write.
  destruct o as [id w q h]; cbn [o_id o_w o_q o_h].
  destruct (c_self cfg =? id); cbn [negb andb].
  - destruct w, (c_lnf cfg); reflexivity.
  - destruct (c_ooo cfg), q, w, h; cbn; try reflexivity;
      destruct (is_any (c_level cfg)); reflexivity.
Qed.

Lemma step_silent o : s_res (owner_step cfg o) = None <-> silent cfg o = true.
Proof.
  unfold owner_step, owner_step_with, silent, behind_queue, is_local, direct_stored, direct_ans, hh_write.
  destruct o as [id w q h]; cbn [o_id o_w o_q o_h].
  destruct (c_self cfg =? id); cbn [negb andb].
  - destruct w, (c_lnf cfg); cbn; split; intro H; try reflexivity; discriminate H.
  - destruct (c_ooo cfg), q, w, h; cbn; try destruct (is_any (c_level cfg));
      split; intro H; try reflexivity; discriminate H.
Qed.

(* the owner's answer is nil exactly when it counts towards the level *)
Lemma step_ok o : s_res (owner_step cfg o) = Some AOk <-> good cfg o = true.
Proof.
  unfold good, stored, queued, hh_due, behind_queue, is_local.
  unfold owner_step, owner_step_with, direct_stored, direct_ans, hh_write.
  rewrite is_any_spec.
  destruct o as [id w q h]; cbn [o_id o_w o_q o_h].
  destruct (c_self cfg =? id); cbn [negb andb orb].
  - destruct w, (c_lnf cfg), (c_level cfg); cbn; split; intro H; try reflexivity; discriminate H.
  - destruct (c_ooo cfg), q, w, h, (c_level cfg); cbn; split; intro H; try reflexivity; discriminate H.
Qed.

Definition one_answer (o : owner) : list ans :=
  match s_res (owner_step cfg o) with Some a => [a] | None => [] end.

Lemma oks_one_answer o : oks (one_answer o) = if good cfg o then 1 else 0.
Proof.
  unfold one_answer.
  destruct (good cfg o) eqn:G.
  - apply step_ok in G. rewrite G. reflexivity.
  - destruct (s_res (owner_step cfg o)) as [[|e]|] eqn:E; try reflexivity.
    apply step_ok in E. congruence.
Qed.

Lemma length_one_answer o : length (one_answer o) = if silent cfg o then 0%nat else 1%nat.
Proof.
  unfold one_answer.
  destruct (silent cfg o) eqn:S.
  - apply step_silent in S. rewrite S. reflexivity.
  - destruct (s_res (owner_step cfg o)) eqn:E; [reflexivity|].
    apply step_silent in E. congruence.
Qed.

Lemma answers_cons o t : answers cfg (o :: t) = one_answer o ++ answers cfg t.
Proof. reflexivity. Qed.

Lemma oks_answers owners : oks (answers cfg owners) = count (good cfg) owners.
Proof.
  unfold count.
  induction owners as [|o t IH]; [reflexivity|].
  rewrite answers_cons, oks_app, oks_one_answer, IH. cbn [filter].
  destruct (good cfg o); cbn [length]; lia.
Qed.

Lemma length_answers owners :
  (length (answers cfg owners) + length (filter (silent cfg) owners) = length owners)%nat.
Proof.
  induction owners as [|o t IH]; [reflexivity|].
  rewrite answers_cons, app_length, length_one_answer. cbn [filter length].
  destruct (silent cfg o); cbn [length]; lia.
Qed.

Lemma existsb_filter (p : owner -> bool) l :
  existsb p l = negb (Nat.eqb (length (filter p l)) 0).
Proof.
  induction l as [|x t IH]; [reflexivity|]. cbn [existsb filter].
  destruct (p x); cbn [orb length]; [reflexivity | exact IH].
Qed.

Lemma count_le (p : owner -> bool) l : count p l <= N.of_nat (length l).
Proof.
  unfold count. induction l as [|x t IH]; cbn [filter length]; [lia|].
  destruct (p x); cbn [length]; lia.
Qed.

(* required owners reached  <->  the level of the spec is met *)
Lemma required_met owners :
  owners <> [] ->
  (required (level_num (c_level cfg)) (N.of_nat (length owners)) <=? count (good cfg) owners)
  = level_met cfg owners.
Proof.
  intro Hne. unfold level_met. rewrite required_spec.
  pose proof (count_le (good cfg) owners) as Hle.
  assert (Hn : 1 <= N.of_nat (length owners)) by (destruct owners; [congruence | cbn [length]; lia]).
  set (n := N.of_nat (length owners)) in *. set (g := count (good cfg) owners) in *.
  destruct (c_level cfg).
  - reflexivity.
  - reflexivity.
  - pose proof (N.div_mod' n 2) as Hd. pose proof (N.mod_lt n 2 ltac:(lia)) as Hm.
    destruct (n / 2 + 1 <=? g) eqn:E1, (n <? 2 * g) eqn:E2; try reflexivity; lia.
  - destruct (n <=? g) eqn:E1, (g =? n) eqn:E2, (1 <=? n) eqn:E3; cbn [andb]; try reflexivity; lia.
Qed.

Lemma required_pos (owners : list owner) :
  owners <> [] -> 0 < required (level_num (c_level cfg)) (N.of_nat (length owners)).
Proof.
  intro Hne. rewrite required_spec.
  assert (Hn : 1 <= N.of_nat (length owners)) by (destruct owners; [congruence | cbn [length]; lia]).
  destruct (c_level cfg); lia.
Qed.

(* the outcome of the write for ANY arrival order *)
Lemma write_result owners arr :
  Permutation arr (answers cfg owners) ->
  write_to_shard cfg owners arr =
    if level_met cfg owners then Success
    else if existsb (silent cfg) owners then Timeout
    else finish (count (good cfg) owners) (first_err arr).
Proof.
  intro HP. unfold write_to_shard.
  destruct owners as [|o0 t0] eqn:Eo.
  - apply Permutation_sym, Permutation_nil in HP. subst arr.
    unfold level_met, count. cbn. destruct (c_level cfg); reflexivity.
  - rewrite <- Eo in *. assert (Hne : owners <> []) by (rewrite Eo; discriminate).
    pose proof (length_answers owners) as HL.
    pose proof (Permutation_length HP) as HPl.
    rewrite collect_spec; [| lia | apply required_pos; exact Hne].
    rewrite N.add_0_l, (oks_perm _ _ HP), oks_answers, (required_met owners Hne).
    destruct (level_met cfg owners); [reflexivity|].
    rewrite existsb_filter.
    destruct (Nat.eqb_spec (length (filter (silent cfg) owners)) 0) as [Z|NZ]; cbn [negb].
    + destruct (Nat.ltb_spec (length arr) (length owners)); [lia | reflexivity].
    + destruct (Nat.ltb_spec (length arr) (length owners)); [reflexivity | lia].
Qed.

Lemma class_of_finish g e :
  class_of (finish g e) = if 1 <=? g then CPartial else CFailed.
Proof.
  unfold finish. destruct (0 <? g) eqn:E1, (1 <=? g) eqn:E2; try reflexivity; lia.
Qed.

Lemma classification owners arr :
  Permutation arr (answers cfg owners) ->
  class_of (write_to_shard cfg owners arr) = expected_class cfg owners.
Proof.
  intro HP. rewrite (write_result owners arr HP). unfold expected_class.
  destruct (level_met cfg owners); [reflexivity|].
  destruct (existsb (silent cfg) owners); [reflexivity|].
  apply class_of_finish.
Qed.

Lemma success_sound owners arr :
  Permutation arr (answers cfg owners) ->
  write_to_shard cfg owners arr = Success -> level_met cfg owners = true.
Proof.
  intros HP HS. pose proof (classification owners arr HP) as HC. rewrite HS in HC.
  unfold expected_class in HC.
  destruct (level_met cfg owners); [reflexivity|].
  destruct (existsb (silent cfg) owners); [discriminate|].
  destruct (1 <=? count (good cfg) owners); discriminate.
Qed.

Lemma success_complete owners arr :
  Permutation arr (answers cfg owners) ->
  level_met cfg owners = true -> write_to_shard cfg owners arr = Success.
Proof. intros HP HM. rewrite (write_result owners arr HP), HM. reflexivity. Qed.

(* a failed write names the first error, in arrival order, that is not one of the two
   skipped handoff errors *)
Lemma failed_error owners arr e :
  Permutation arr (answers cfg owners) ->
  write_to_shard cfg owners arr = Failed e -> e = first_err arr.
Proof.
  intros HP HF. rewrite (write_result owners arr HP) in HF.
  destruct (level_met cfg owners); [discriminate|].
  destruct (existsb (silent cfg) owners); [discriminate|].
  unfold finish in HF. destruct (0 <? count (good cfg) owners); [discriminate|].
  inversion HF. reflexivity.
Qed.

(* ---------- arrival orders given as indices ---------- *)

Lemma remove1_perm x : forall l l', remove1 x l = Some l' -> Permutation l (x :: l').
Proof.
  induction l as [|y t IH]; intros l' H; cbn [remove1] in H; [discriminate|].
  destruct (N.eqb_spec x y) as [->|Hne].
  - inversion H; subst. apply Permutation_refl.
  - destruct (remove1 x t) as [t'|] eqn:E; [|discriminate]. inversion H; subst.
    eapply Permutation_trans; [apply perm_skip, IH; reflexivity | apply perm_swap].
Qed.

Lemma is_perm_sound : forall a b, is_perm a b = true -> Permutation a b.
Proof.
  induction a as [|x a IH]; intros b H; cbn [is_perm] in H.
  - destruct b; [apply perm_nil | discriminate].
  - destruct (remove1 x b) as [b'|] eqn:E; [|discriminate].
    apply Permutation_sym. eapply Permutation_trans; [apply remove1_perm; exact E|].
    apply perm_skip, Permutation_sym, IH, H.
Qed.

Lemma nth_error_mid (pre : list owner) o t : nth_error (pre ++ o :: t) (length pre) = Some o.
Proof. induction pre as [|p pre IH]; [reflexivity | exact IH]. Qed.

Lemma arrivals_answering : forall rest pre,
  arrivals cfg (pre ++ rest) (answering_from cfg (N.of_nat (length pre)) rest) = answers cfg rest.
Proof.
  unfold arrivals.
  induction rest as [|o t IH]; intro pre; [reflexivity|].
  cbn [answering_from]. rewrite flat_map_app, answers_cons.
  f_equal.
  - destruct (silent cfg o) eqn:S; cbn [flat_map].
    + unfold one_answer. apply step_silent in S. rewrite S. reflexivity.
    + rewrite app_nil_r. unfold answer_of_index. rewrite Nnat.Nat2N.id, nth_error_mid. reflexivity.
  - replace (pre ++ o :: t) with ((pre ++ [o]) ++ t) by (rewrite <- app_assoc; reflexivity).
    replace (N.of_nat (length pre) + 1) with (N.of_nat (length (pre ++ [o])))
      by (rewrite app_length; cbn [length]; lia).
    apply IH.
Qed.

Lemma valid_order_perm owners order :
  valid_order cfg owners order = true ->
  Permutation (arrivals cfg owners order) (answers cfg owners).
Proof.
  intro H. apply is_perm_sound in H.
  rewrite <- (arrivals_answering owners []). cbn [app length N.of_nat].
  unfold arrivals. apply Permutation_flat_map. exact H.
Qed.

(* ---------- the link: the model satisfies the executable spec for all inputs ---------- *)

Lemma owners_ok_model owners :
  owners_ok cfg owners (map (fun o => step_obs (owner_step cfg o)) owners) = true.
Proof.
  induction owners as [|o t IH]; [reflexivity|].
  cbn [map owners_ok step_obs]. rewrite step_stored, step_hh, step_queued, IH.
  rewrite !Bool.eqb_reflx, N.eqb_refl. reflexivity.
Qed.

Lemma class_eqb_refl c : class_eqb c c = true.
Proof. destruct c; reflexivity. Qed.

Lemma model_spec_ok owners order : spec_ok cfg owners order (model cfg owners order) = true.
Proof.
  unfold spec_ok. destruct (valid_order cfg owners order) eqn:V; cbn [negb orb]; [|reflexivity].
  unfold model; cbn [ob_result ob_owners].
  rewrite (classification owners _ (valid_order_perm owners order V)), class_eqb_refl, owners_ok_model.
  reflexivity.
Qed.

End Owner.

(* ---------- the pinned tree (before the fix: commit) ---------- *)

Definition write_to_shard_unfixed (cfg : config) (owners : list owner) (arr : list ans) : result :=
  collect (length owners) (required (level_num (c_level cfg)) (N.of_nat (length owners))) 0 None arr.

Lemma unfixed_refuted :
  exists cfg owners,
    level_met cfg owners = true /\
    write_to_shard_unfixed cfg owners (answers_with false cfg owners) = Failed None.
Proof.
  exists (mkC LAny 4 false NfNone),
         [mkO 1 WOk true HAccept; mkO 2 WOk true HAccept; mkO 3 WOk true HAccept].
  split; vm_compute; reflexivity.
Qed.
