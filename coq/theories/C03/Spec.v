(* C03/Spec.v — the property, independent of how writeToShardWithContext is written.
   It only uses the input types of Model.v (level, owner, config), never [owner_step] or
   [collect].  Everything is an executable boolean/number so that the same text is
   (a) what the theorems of Props.v are about and (b) what Run.v evaluates on the
   implementation's observed behaviour. *)
From Verif Require Import C03.Model.
Open Scope N_scope.

Section Spec.
Variable cfg : config.

Definition is_local (o : owner) : bool := c_self cfg =? o_id o.

(* a remote owner must wait behind its already non-empty handoff queue (order is kept
   unless out-of-order writes are allowed) *)
Definition behind_queue (o : owner) : bool :=
  negb (is_local o) && negb (c_ooo cfg) && o_q o.

(* the owner gives no answer before the timeout *)
Definition silent (o : owner) : bool :=
  negb (behind_queue o) && match o_w o with WHang => true | _ => false end.

(* the owner's store received the points and acknowledged (locally the shard may first
   have to be created) *)
Definition stored (o : owner) : bool :=
  negb (behind_queue o)
  && match o_w o with WOk => true | _ => false end
  && negb (is_local o && match c_lnf cfg with NfCreateFail => true | _ => false end).

(* hinted handoff is due: remote owner that waits behind its queue, or whose direct
   write failed for a retryable reason *)
Definition hh_due (o : owner) : bool :=
  negb (is_local o)
  && (behind_queue o || match o_w o with WRetry => true | _ => false end).

(* "offered exactly once", and never otherwise *)
Definition hh_expected (o : owner) : N := if hh_due o then 1 else 0.

(* durably queued for the owner *)
Definition queued (o : owner) : bool :=
  hh_due o && match o_h o with HAccept => true | _ => false end.

(* the owner counts towards the requested level *)
Definition good (o : owner) : bool :=
  stored o || (match c_level cfg with LAny => true | _ => false end && queued o).

Definition count (p : owner -> bool) (l : list owner) : N := N.of_nat (length (filter p l)).

(* the requested consistency level is met (by owners that answered before the timeout:
   [good] implies not [silent]).  A shard without owners meets no level. *)
Definition level_met (owners : list owner) : bool :=
  let n := N.of_nat (length owners) in
  let g := count good owners in
  match c_level cfg with
  | LAny | LOne => 1 <=? g
  | LQuorum => n <? 2 * g
  | LAll => (g =? n) && (1 <=? n)
  end.

Inductive class := CSuccess | CPartial | CFailed | CTimeout.

(* what the client must be told *)
Definition expected_class (owners : list owner) : class :=
  if level_met owners then CSuccess                      (* iff the level was met in time *)
  else if existsb silent owners then CTimeout            (* still waiting when the timer fired *)
  else if 1 <=? count good owners then CPartial          (* too few *)
  else CFailed.                                          (* none *)

(* ---------- arrival orders ---------- *)

(* indices (from k) of the owners that answer *)
Fixpoint answering_from (k : N) (owners : list owner) : list N :=
  match owners with
  | [] => []
  | o :: t => (if silent o then [] else [k]) ++ answering_from (k + 1) t
  end.

Fixpoint remove1 (x : N) (l : list N) : option (list N) :=
  match l with
  | [] => None
  | y :: t => if x =? y then Some t
              else match remove1 x t with Some t' => Some (y :: t') | None => None end
  end.

Fixpoint is_perm (a b : list N) : bool :=
  match a with
  | [] => match b with [] => true | _ => false end
  | x :: a' => match remove1 x b with Some b' => is_perm a' b' | None => false end
  end.

(* an arrival order lists every answering owner exactly once *)
Definition valid_order (owners : list owner) (order : list N) : bool :=
  is_perm order (answering_from 0 owners).

(* ---------- the executable spec on an observation ---------- *)

Definition class_of (r : result) : class :=
  match r with Success => CSuccess | Partial => CPartial | Failed _ => CFailed | Timeout => CTimeout end.

Definition class_eqb (a b : class) : bool :=
  match a, b with
  | CSuccess, CSuccess | CPartial, CPartial | CFailed, CFailed | CTimeout, CTimeout => true
  | _, _ => false
  end.

Fixpoint owners_ok (owners : list owner) (oo : list oobs) : bool :=
  match owners, oo with
  | [], [] => true
  | o :: t, (_, _, st, h, q) :: t' =>
      Bool.eqb st (stored o) && (h =? hh_expected o) && Bool.eqb q (queued o) && owners_ok t t'
  | _, _ => false
  end.

(* For a valid arrival order: the reported class is the expected one, every owner's store
   / handoff queue holds the points exactly when the environment allows it, and handoff was
   offered exactly once where due and never elsewhere. *)
Definition spec_ok (owners : list owner) (order : list N) (ob : obs) : bool :=
  negb (valid_order owners order)
  || (class_eqb (class_of (ob_result ob)) (expected_class owners) && owners_ok owners (ob_owners ob)).

End Spec.
