(* C03/HandoffProofs.v — proofs about Handoff.v (real hinted-handoff answer classes) and
   Remote.v (remote write path with the connection pool). *)
From Coq Require Import Arith Lia Permutation.
From Coq Require Import ZifyBool ZifyNat ZifyN.
From Verif Require Import C03.Model C03.Spec C03.Proofs C03.Handoff C03.Remote.
From VerifGen Require Import Consts.
Open Scope N_scope.

(* ---------- hinted handoff ---------- *)

(* accepted exactly when enabled and the block fits under max-size *)
Lemma hh_accept_iff_fits h q blen :
  hh_answer h q blen = HOk <-> (h_enabled h = true /\ q_usage q + blen <= h_max h).
Proof.
  unfold hh_answer. destruct (h_enabled h); cbn [negb].
  - destruct (h_max h <? q_usage q + blen) eqn:E; split.
    + intro H; discriminate H.
    + intros [_ H]. lia.
    + intros _. split; [reflexivity | lia].
    + reflexivity.
  - split; [intro H; discriminate H | intros [H _]; discriminate H].
Qed.

(* only an accepted block counts as queued, whatever refusal it was *)
Lemma hhres_accept_only a : hhres_of a = HAccept <-> a = HOk.
Proof. destruct a; cbn; split; intro H; try reflexivity; discriminate H. Qed.

Lemma in_queued_ids id w st :
  In (id, w) (queued_ids st) <-> exists q, In (id, q) st /\ In w (q_blocks q).
Proof.
  unfold queued_ids. rewrite in_flat_map. split.
  - intros ([id' q] & Hin & Hm). cbn [fst snd] in Hm. apply in_map_iff in Hm.
    destruct Hm as (w' & Heq & Hw). inversion Heq; subst. exists q. auto.
  - intros (q & Hin & Hw). exists (id, q). split; [exact Hin|]. cbn [fst snd].
    apply in_map_iff. exists w. auto.
Qed.

(* one write: queues only grow, and an owner for which the points writer saw "queued" has the
   block in its queue afterwards *)
Lemma hstep_mono cfg h wid blen : forall st ws,
  incl (queued_ids st) (queued_ids (snd (hstep cfg h wid blen st ws))).
Proof.
  induction st as [|[id q] st IH]; intros ws x Hx; [exact Hx|].
  destruct ws as [|w ws]; [exact Hx|].
  cbn [hstep snd]. destruct x as [i w0].
  apply in_queued_ids in Hx. destruct Hx as (q0 & Hin & Hw). apply in_queued_ids.
  destruct Hin as [Heq | Hin].
  - inversion Heq; subst i q0.
    eexists. split; [left; reflexivity|].
    destruct (s_queued _); [cbn [hq_append q_blocks]; apply in_or_app; left; exact Hw | exact Hw].
  - assert (H1 : In (i, w0) (queued_ids st)) by (apply in_queued_ids; exists q0; auto).
    apply (IH ws) in H1. apply in_queued_ids in H1. destruct H1 as (q1 & Hin1 & Hw1).
    exists q1. split; [right; exact Hin1 | exact Hw1].
Qed.

Lemma hstep_queued cfg h wid blen : forall st ws o,
  In o (fst (hstep cfg h wid blen st ws)) -> s_queued (owner_step cfg o) = true ->
  In (o_id o, wid) (queued_ids (snd (hstep cfg h wid blen st ws))).
Proof.
  induction st as [|[id q] st IH]; intros ws o Hin Hq; [destruct Hin|].
  destruct ws as [|w ws]; [destruct Hin|].
  cbn [hstep fst snd] in *. apply in_queued_ids. destruct Hin as [<- | Hin].
  - eexists. split; [left; cbn [owner_env o_id]; reflexivity|].
    rewrite Hq. cbn [hq_append q_blocks]. apply in_or_app. right. left. reflexivity.
  - specialize (IH ws o Hin Hq). apply in_queued_ids in IH. destruct IH as (q1 & Hin1 & Hw1).
    exists q1. split; [right; exact Hin1 | exact Hw1].
Qed.

Lemma hrun_mono self ooo h : forall wsq st,
  incl (queued_ids st) (queued_ids (snd (hrun self ooo h st wsq))).
Proof.
  induction wsq as [|w rest IH]; intros st x Hx; [exact Hx|].
  cbn [hrun snd]. apply IH. apply hstep_mono. exact Hx.
Qed.

(* a met level has at least one owner that counts *)
Lemma level_met_some_good cfg owners :
  level_met cfg owners = true -> exists o, In o owners /\ good cfg o = true.
Proof.
  intro H. assert (G : 1 <= count (good cfg) owners).
  { unfold level_met in H. destruct (c_level cfg); lia. }
  unfold count in G. destruct (filter (good cfg) owners) as [|o t] eqn:E; [cbn in G; lia|].
  assert (Hin : In o (filter (good cfg) owners)) by (rewrite E; left; reflexivity).
  apply filter_In in Hin. exists o. exact Hin.
Qed.

Lemma in_stored_log cfg wid os o :
  In o os -> s_stored (owner_step cfg o) = true -> In (o_id o, wid) (stored_log cfg wid os).
Proof.
  intros Hin Hs. unfold stored_log. apply in_flat_map. exists o. split; [exact Hin|].
  rewrite Hs. left. reflexivity.
Qed.

(* what a reported success means, for every sequence of writes, every max-size, every
   environment: some owner's store received this write, or - only under any - its block is in
   some owner's queue at the end (nothing accepted is ever lost, nothing refused is counted) *)
Definition success_backed (log : list (N * N)) (fin : list (N * hq)) (w : hwrite) (c : class) : Prop :=
  c = CSuccess ->
  exists id, In (id, w_id w) log \/ (w_level w = LAny /\ In (id, w_id w) (queued_ids fin)).

Lemma Forall2_weaken {A B} (P Q : A -> B -> Prop) l l' :
  (forall a b, P a b -> Q a b) -> Forall2 P l l' -> Forall2 Q l l'.
Proof. intros H F. induction F; constructor; auto. Qed.

Lemma hrun_success_backed self ooo h : forall wsq st,
  let r := hrun self ooo h st wsq in
  Forall2 (success_backed (snd (fst r)) (snd r)) wsq (fst (fst r)).
Proof.
  induction wsq as [|w rest IH]; intro st; cbn zeta; [constructor|].
  cbn [hrun fst snd].
  set (cfg := mkC (w_level w) self ooo NfNone).
  set (r := hstep cfg h (w_id w) (w_blen w) st (w_env w)).
  set (r' := hrun self ooo h (snd r) rest).
  constructor.
  - intro Hc.
    assert (M : level_met cfg (fst r) = true).
    { pose proof (classification cfg (fst r) (answers cfg (fst r)) (Permutation_refl _)) as C.
      rewrite Hc in C. unfold expected_class in C.
      destruct (level_met cfg (fst r)); [reflexivity|].
      destruct (existsb (silent cfg) (fst r)); [discriminate C|].
      destruct (1 <=? count (good cfg) (fst r)); discriminate C. }
    apply level_met_some_good in M. destruct M as (o & Hin & G).
    exists (o_id o). unfold good in G. apply orb_prop in G. destruct G as [G | G].
    + left. apply in_or_app. left. apply in_stored_log; [exact Hin|]. rewrite step_stored. exact G.
    + right. apply andb_prop in G. destruct G as [GL GQ].
      split; [cbn [c_level cfg] in GL; destruct (w_level w); try discriminate GL; reflexivity|].
      apply hrun_mono. apply hstep_queued; [exact Hin|]. rewrite step_queued. exact GQ.
  - specialize (IH (snd r)). cbn zeta in IH. fold r' in IH.
    eapply Forall2_weaken; [|exact IH].
    intros w' c' Hb Hc. destruct (Hb Hc) as (id & [Hl | Hq]); exists id.
    + left. apply in_or_app. right. exact Hl.
    + right. exact Hq.
Qed.

(* the link: the model's own outputs satisfy the executable handoff spec, for all inputs *)
Lemma backed_bool log fin : forall ws cs,
  Forall2 (success_backed log fin) ws cs ->
  hh_backed ws (map class_num cs) log (map (fun p => q_blocks (snd p)) fin) = true.
Proof.
  induction 1 as [|w c ws cs Hb _ IH]; [reflexivity|].
  cbn [map hh_backed]. rewrite IH, andb_true_r.
  destruct c; try reflexivity. cbn [class_num N.eqb negb orb].
  destruct (Hb eq_refl) as (id & [Hl | [Hlv Hq]]).
  - assert (E : existsb (fun p => snd p =? w_id w) log = true).
    { apply existsb_exists. exists (id, w_id w). split; [exact Hl | apply N.eqb_refl]. }
    rewrite E. reflexivity.
  - rewrite Hlv. apply in_queued_ids in Hq. destruct Hq as (q & Hin & Hw).
    assert (E : existsb (fun q => existsb (N.eqb (w_id w)) q) (map (fun p => q_blocks (snd p)) fin) = true).
    { apply existsb_exists. exists (q_blocks q). split.
      - apply in_map_iff. exists (id, q). split; [reflexivity | exact Hin].
      - apply existsb_exists. exists (w_id w). split; [exact Hw | apply N.eqb_refl]. }
    rewrite E. apply orb_true_r.
Qed.

Lemma hh_model_backed self ooo h st wsq :
  let r := hrun self ooo h st wsq in
  hh_backed wsq (map class_num (fst (fst r))) (snd (fst r)) (map (fun p => q_blocks (snd p)) (snd r)) = true.
Proof. cbn zeta. apply backed_bool, hrun_success_backed. Qed.

(* ---------- the remote path ---------- *)

(* with the code's policy (a connection whose read failed is discarded) an idle connection
   never carries an unread reply ... *)
Definition clean (p : option conn) : Prop := p = None \/ p = Some [].

Lemma rwrite_clean p r : clean p -> clean (snd (rwrite false p r)).
Proof.
  intros [-> | ->]; destruct r; cbn; unfold clean; auto.
Qed.

(* ... so every write reads its OWN reply: success is reported exactly when the node stored
   this write and acknowledged it in time *)
Lemma rwrite_own p r : clean p -> fst (rwrite false p r) = match r with RAck => true | _ => false end.
Proof. intros [-> | ->]; destruct r; reflexivity. Qed.

Lemma rrun_own : forall script p, clean p ->
  rrun false p script = map (fun r => match r with RAck => true | _ => false end) script.
Proof.
  induction script as [|r t IH]; intros p Hp; [reflexivity|].
  cbn [rrun map]. rewrite (rwrite_own p r Hp), (IH _ (rwrite_clean p r Hp)). reflexivity.
Qed.

Lemma remote_success_stored script :
  success_means_stored script (rrun false None script) = true.
Proof.
  rewrite (rrun_own script None (or_introl eq_refl)).
  induction script as [|r t IH]; [reflexivity|].
  cbn [map success_means_stored]. rewrite IH. destruct r; reflexivity.
Qed.

(* the variant that keeps the connection after a read timeout breaks the property *)
Lemma remote_keep_refuted :
  exists script, success_means_stored script (rrun true None script) = false.
Proof. exists [RLateAck; RErr]. vm_compute. reflexivity. Qed.

Lemma remote_link script : acked_ok (rrun false None script) (map node_stores script) = true.
Proof.
  rewrite (rrun_own script None (or_introl eq_refl)).
  induction script as [|r t IH]; [reflexivity|].
  cbn [map acked_ok]. rewrite IH. destruct r; reflexivity.
Qed.
