(* C03/LevelProofs.v — facts about the requested level. *)
From Verif Require Import C03.Level.
From Coq Require Import Lia ZifyBool ZifyN.
Open Scope N_scope.

Lemma bytes_eqb_eq a : forall b, bytes_eqb a b = true <-> a = b.
Proof.
  induction a as [|x a IH]; intros [|y b]; cbn [bytes_eqb]; split; intros H; try reflexivity; try discriminate.
  - apply andb_true_iff in H. destruct H as [H1 H2]. apply N.eqb_eq in H1. apply IH in H2. subst. reflexivity.
  - inversion H; subst. apply andb_true_iff. split; [apply N.eqb_refl|apply IH; reflexivity].
Qed.

Lemma bytes_eqb_refl a : bytes_eqb a a = true.
Proof. apply bytes_eqb_eq. reflexivity. Qed.

(* soundness: only the four names, in any letter case *)
Lemma parse_level_sound s l : parse_level s = Some l -> is_ascii s = true /\ lower s = level_name l.
Proof.
  unfold parse_level. destruct (is_ascii s) eqn:Ea; cbn [negb]; [|discriminate].
  destruct (bytes_eqb (lower s) name_any) eqn:E1.
  { intros H. inversion H; subst. split; [reflexivity|]. apply bytes_eqb_eq. exact E1. }
  destruct (bytes_eqb (lower s) name_one) eqn:E2.
  { intros H. inversion H; subst. split; [reflexivity|]. apply bytes_eqb_eq. exact E2. }
  destruct (bytes_eqb (lower s) name_quorum) eqn:E3.
  { intros H. inversion H; subst. split; [reflexivity|]. apply bytes_eqb_eq. exact E3. }
  destruct (bytes_eqb (lower s) name_all) eqn:E4.
  { intros H. inversion H; subst. split; [reflexivity|]. apply bytes_eqb_eq. exact E4. }
  discriminate.
Qed.

(* completeness: every ASCII spelling of a name, in any letter case, gives that level *)
Lemma parse_level_complete s l : is_ascii s = true -> lower s = level_name l -> parse_level s = Some l.
Proof.
  intros Ha Hl. unfold parse_level. rewrite Ha. cbn [negb]. rewrite Hl.
  destruct l; vm_compute; reflexivity.
Qed.

Lemma parse_level_iff s l : parse_level s = Some l <-> (is_ascii s = true /\ lower s = level_name l).
Proof. split; [apply parse_level_sound|intros [A B]; apply parse_level_complete; assumption]. Qed.

(* the names are pairwise different, so the level is determined *)
Lemma level_name_inj a b : level_name a = level_name b -> a = b.
Proof. destruct a, b; cbn; intros H; try reflexivity; discriminate. Qed.

Lemma forallb_map' {A B} (f : A -> B) (p : B -> bool) (l : list A) : forallb p (map f l) = forallb (fun x => p (f x)) l.
Proof. induction l as [|x l IH]; cbn; [reflexivity|rewrite IH; reflexivity]. Qed.

Lemma lower_idem s : lower (lower s) = lower s.
Proof.
  unfold lower. rewrite map_map. apply map_ext. intros b. unfold ascii_lower.
  destruct ((65 <=? b) && (b <=? 90)) eqn:E; [|rewrite E; reflexivity].
  destruct ((65 <=? b + 32) && (b + 32 <=? 90)) eqn:E2; [lia|reflexivity].
Qed.

Lemma lower_ascii s : is_ascii s = true -> is_ascii (lower s) = true.
Proof.
  unfold is_ascii, lower. rewrite forallb_map'. intros H. rewrite forallb_forall in *. intros b Hb.
  specialize (H b Hb). unfold ascii_lower. destruct ((65 <=? b) && (b <=? 90)) eqn:E; lia.
Qed.

(* letter case does not matter *)
Lemma parse_level_case_insensitive s : parse_level (lower s) = parse_level s.
Proof.
  destruct (is_ascii s) eqn:Ea.
  - unfold parse_level. rewrite (lower_ascii _ Ea), Ea, lower_idem. reflexivity.
  - unfold parse_level at 2. rewrite Ea. cbn [negb].
    assert (H : is_ascii (lower s) = false).
    { unfold is_ascii, lower in *. rewrite forallb_map'.
      destruct (forallb (fun x => ascii_lower x <? 128) s) eqn:F; [|reflexivity].
      exfalso. rewrite forallb_forall in F.
      assert (G : forallb (fun b => b <? 128) s = true).
      { apply forallb_forall. intros b Hb. specialize (F b Hb). unfold ascii_lower in F.
        destruct ((65 <=? b) && (b <=? 90)) eqn:E; lia. }
      congruence. }
    unfold parse_level. rewrite H. reflexivity.
Qed.

Lemma request_level_default : request_level [] = Some LOne.
Proof. reflexivity. Qed.

Lemma request_level_named l : request_level (level_name l) = Some l.
Proof. destruct l; vm_compute; reflexivity. Qed.
