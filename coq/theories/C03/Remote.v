(* C03/Remote.v — the remote write path as far as the consistency level needs it:
   coordinator/shard_writer.go ShardWriter.WriteShardBinary over its connection pool, for a
   SEQUENCE of writes to one node by a sequential caller.  Definitions only.

       conn := pool.conn(node)            an idle connection of the pool, else a new one
       defer conn.Close()                 back to the pool - unless marked unusable: then closed
       WriteTLVT(request)                 error -> MarkUnusable, return err
       ReadTLVT(conn, timeout)            error (timeout, EOF) -> MarkUnusable, return err
       response.Code() != 0 -> error      (the connection stays usable)
       return nil

   Only the observable matters here: a reported success must mean that THIS write was stored
   and acknowledged by the node.  The danger is a reply that arrives after the read timeout:
   it sits unread on the connection, and if that connection were used again the next write
   would read the old reply as its own. *)
From Coq Require Export List NArith Bool.
Export ListNotations.

(* what the node does with one request *)
Inductive rreply :=
| RAck        (* stores the points, replies code 0 in time *)
| RErr        (* does not store, replies with an error code in time *)
| RLateAck    (* stores, replies code 0 only after the client's read timeout *)
| RLateErr    (* does not store, replies with an error code after the timeout *)
| RSilent     (* does not store, never replies *)
| RHangup.    (* does not store, closes the connection *)

Definition node_stores (r : rreply) : bool :=
  match r with RAck | RLateAck => true | _ => false end.

(* an idle pooled connection = the replies lying unread on it (oldest first; true = code 0);
   a sequential caller leaves at most one idle connection *)
Definition conn := list bool.

(* one WriteShard.  [keep]: false = the code (a connection whose read failed is discarded);
   true = the variant that puts it back into the pool.  Returns: success reported?, the pool
   afterwards *)
Definition rwrite (keep : bool) (pool : option conn) (r : rreply) : bool * option conn :=
  let c := match pool with Some c => c | None => [] end in
  let timely := match r with RAck => [true] | RErr => [false] | _ => [] end in
  let late := match r with RLateAck => [true] | RLateErr => [false] | _ => [] end in
  match c ++ timely with
  | x :: rest => (x, Some (rest ++ late))                    (* a reply is there: read it *)
  | [] => (false, if keep then match r with RHangup => None | _ => Some late end else None)
  end.

Fixpoint rrun (keep : bool) (pool : option conn) (script : list rreply) : list bool :=
  match script with
  | [] => []
  | r :: t => let x := rwrite keep pool r in fst x :: rrun keep (snd x) t
  end.

(* the observable property on a list of reported outcomes *)
Fixpoint success_means_stored (script : list rreply) (outs : list bool) : bool :=
  match script, outs with
  | r :: t, o :: t' => (negb o || node_stores r) && success_means_stored t t'
  | [], [] => true
  | _, _ => false
  end.

(* the same on an observation: [acked] = per write, did the node store and acknowledge it *)
Fixpoint acked_ok (outs acked : list bool) : bool :=
  match outs, acked with
  | [], [] => true
  | o :: t, a :: t' => (negb o || a) && acked_ok t t'
  | _, _ => false
  end.
