(* C03/BatchProofs.v — proofs about Batch.v (the combination of the per-shard results made by
   WritePointsPrivilegedWithContext), on top of the single-shard lemmas of Proofs.v. *)
From Coq Require Import Arith Lia Permutation.
From Coq Require Import ZifyBool ZifyNat ZifyN.
From Verif Require Import C03.Model C03.Spec C03.Proofs C03.Batch.
Open Scope N_scope.

Definition succ_entry (x : N * result) : Prop := snd x = Success.

(* does w.closing win the select within the first n iterations? *)
Definition closes_early (close : option nat) (n : nat) : bool :=
  match close with Some k => (k <? n)%nat | None => false end.

Lemma ce_S k n : closes_early (Some (S k)) (S n) = closes_early (Some k) n.
Proof. reflexivity. Qed.

Lemma ce_0 close : closes_early close 0 = false.
Proof. destruct close as [k|]; [destruct k|]; reflexivity. Qed.

Lemma is_success_true r : is_success r = true -> r = Success.
Proof. destruct r; intro H; try discriminate H; reflexivity. Qed.

Lemma is_success_false r : is_success r = false -> r <> Success.
Proof. intros H ->. discriminate H. Qed.

(* ---------- the final loop ---------- *)

Lemma bcollect_none : forall arr close final,
  bcollect close arr final = None ->
  Forall succ_entry arr /\ final = None /\ closes_early close (length arr) = false.
Proof.
  induction arr as [|[sid r] t IH]; intros close final H; cbn [bcollect] in H.
  - split; [constructor | split; [exact H | apply ce_0]].
  - destruct close as [[|k]|].
    + discriminate H.
    + destruct (is_success r) eqn:E; [|discriminate H].
      cbn [option_map Nat.pred] in H. apply IH in H. destruct H as (F & Hf & Hc).
      split; [constructor; [apply is_success_true, E | exact F] | split; [exact Hf|]].
      cbn [length]. rewrite ce_S. exact Hc.
    + destruct (is_success r) eqn:E; [|discriminate H].
      cbn [option_map] in H. apply IH in H. destruct H as (F & Hf & _).
      split; [constructor; [apply is_success_true, E | exact F] | split; [exact Hf | reflexivity]].
Qed.

Lemma bcollect_final : forall arr close final,
  Forall succ_entry arr -> closes_early close (length arr) = false ->
  bcollect close arr final = final.
Proof.
  induction arr as [|[sid r] t IH]; intros close final F Hc; [reflexivity|].
  inversion F as [|x l Hx Ft]; subst. unfold succ_entry in Hx; cbn [snd] in Hx; subst r.
  cbn [bcollect is_success]. destruct close as [[|k]|].
  - cbn in Hc. discriminate Hc.
  - cbn [option_map Nat.pred]. apply IH; [exact Ft|]. cbn [length] in Hc. rewrite ce_S in Hc. exact Hc.
  - cbn [option_map]. apply IH; [exact Ft | reflexivity].
Qed.

(* every way the loop can end in an error *)
Definition err_shape (close : option nat) (d : N) (arr : list (N * result)) (e : berr) : Prop :=
  match e with
  | BShard sid r =>
      exists pre post, arr = pre ++ (sid, r) :: post /\ Forall succ_entry pre /\ r <> Success
                       /\ closes_early close (S (length pre)) = false
  | BDropped n => n = d /\ 0 < d /\ Forall succ_entry arr /\ closes_early close (length arr) = false
  | BClosing => exists k, close = Some k /\ (k < length arr)%nat /\ Forall succ_entry (firstn k arr)
  end.

Lemma bcollect_err d : forall arr close e,
  bcollect close arr (dropped_err d) = Some e -> err_shape close d arr e.
Proof.
  induction arr as [|[sid r] t IH]; intros close e H; cbn [bcollect] in H.
  - unfold dropped_err in H. destruct (0 <? d) eqn:E; [|discriminate H].
    inversion H; subst e. cbn [err_shape length].
    split; [reflexivity | split; [lia | split; [constructor | apply ce_0]]].
  - destruct close as [[|k]|].
    + inversion H; subst e. exists 0%nat. split; [reflexivity | split; [cbn [length]; lia | constructor]].
    + destruct (is_success r) eqn:E.
      * cbn [option_map Nat.pred] in H. apply IH in H.
        pose proof (is_success_true r E) as Hr.
        destruct e as [sid' r'|n|]; cbn [err_shape] in *.
        -- destruct H as (pre & post & Harr & F & Hne & Hc).
           exists ((sid, r) :: pre), post. subst t.
           split; [reflexivity | split; [constructor; [exact Hr | exact F] | split; [exact Hne|]]].
           cbn [length]. rewrite ce_S. exact Hc.
        -- destruct H as (Hn & Hd & F & Hc).
           split; [exact Hn | split; [exact Hd | split; [constructor; [exact Hr | exact F]|]]].
           cbn [length]. rewrite ce_S. exact Hc.
        -- destruct H as (k' & Hk & Hlt & F). inversion Hk; subst k'.
           exists (S k). split; [reflexivity | split; [cbn [length]; lia|]].
           cbn [firstn]. constructor; [exact Hr | exact F].
      * inversion H; subst e. exists [], t.
        split; [reflexivity | split; [constructor | split; [apply is_success_false, E | reflexivity]]].
    + destruct (is_success r) eqn:E.
      * cbn [option_map] in H. apply IH in H.
        pose proof (is_success_true r E) as Hr.
        destruct e as [sid' r'|n|]; cbn [err_shape] in *.
        -- destruct H as (pre & post & Harr & F & Hne & _).
           exists ((sid, r) :: pre), post. subst t.
           split; [reflexivity | split; [constructor; [exact Hr | exact F] | split; [exact Hne | reflexivity]]].
        -- destruct H as (Hn & Hd & F & _).
           split; [exact Hn | split; [exact Hd | split; [constructor; [exact Hr | exact F] | reflexivity]]].
        -- destruct H as (k' & Hk & _). discriminate Hk.
      * inversion H; subst e. exists [], t.
        split; [reflexivity | split; [constructor | split; [apply is_success_false, E | reflexivity]]].
Qed.

(* ---------- runs ---------- *)

Definition run_perm (b : bconfig) (p : shard * list ans) : Prop :=
  Permutation (snd p) (answers (shard_cfg b (fst p)) (sh_owners (fst p))).

(* every shard's owners answer in SOME order *)
Definition valid_run (b : bconfig) (run : list (shard * list ans)) : Prop := Forall (run_perm b) run.

Definition run_met (b : bconfig) (p : shard * list ans) : Prop :=
  level_met (shard_cfg b (fst p)) (sh_owners (fst p)) = true.

Lemma results_length b run : length (results b run) = length run.
Proof. apply map_length. Qed.

Lemma all_success_met b run :
  valid_run b run -> Forall succ_entry (results b run) -> Forall (run_met b) run.
Proof.
  intros V F. unfold valid_run in V. rewrite Forall_forall in *. intros p Hp.
  unfold run_met. apply (success_sound _ _ (snd p) (V p Hp)).
  exact (F (shard_run b p) (in_map _ _ _ Hp)).
Qed.

Lemma all_met_success b run :
  valid_run b run -> Forall (run_met b) run -> Forall succ_entry (results b run).
Proof.
  intros V F. unfold valid_run in V. rewrite Forall_forall in *. intros x Hx.
  unfold results in Hx. apply in_map_iff in Hx. destruct Hx as (p & <- & Hp).
  unfold succ_entry, shard_run; cbn [snd].
  apply success_complete; [exact (V p Hp) | exact (F p Hp)].
Qed.

(* (a) success is reported only if EVERY shard met the level and no point was dropped *)
Lemma batch_success_sound b run sarr close dropped :
  valid_run b run -> Permutation sarr (results b run) ->
  batch_write close dropped sarr = None ->
  Forall (run_met b) run /\ dropped = 0 /\ closes_early close (length run) = false.
Proof.
  intros V HP H. unfold batch_write in H. apply bcollect_none in H. destruct H as (F & Hd & Hc).
  split; [| split].
  - apply all_success_met; [exact V|]. exact (Permutation_Forall HP F).
  - unfold dropped_err in Hd. destruct (0 <? dropped) eqn:E; [discriminate Hd | lia].
  - rewrite (Permutation_length HP), results_length in Hc. exact Hc.
Qed.

(* (b) ... and it is reported when every shard met it, nothing was dropped, no Close *)
Lemma batch_success_complete b run sarr close dropped :
  valid_run b run -> Permutation sarr (results b run) ->
  Forall (run_met b) run -> dropped = 0 -> closes_early close (length run) = false ->
  batch_write close dropped sarr = None.
Proof.
  intros V HP F -> Hc. unfold batch_write.
  rewrite bcollect_final; [reflexivity | |].
  - exact (Permutation_Forall (Permutation_sym HP) (all_met_success b run V F)).
  - rewrite (Permutation_length HP), results_length. exact Hc.
Qed.

(* (c) every reported error, characterised *)
Definition batch_err_shape (b : bconfig) (run : list (shard * list ans)) (sarr : list (N * result))
           (close : option nat) (dropped : N) (e : berr) : Prop :=
  match e with
  | BShard sid r =>
      (* the value of the FIRST shard, in arrival order, whose write did not succeed, received
         before any Close; that shard did not meet the level *)
      exists pre post p,
        sarr = pre ++ (sid, r) :: post /\ Forall succ_entry pre /\
        closes_early close (S (length pre)) = false /\
        In p run /\ sid = sh_id (fst p) /\
        r = write_to_shard (shard_cfg b (fst p)) (sh_owners (fst p)) (snd p) /\
        r <> Success /\ level_met (shard_cfg b (fst p)) (sh_owners (fst p)) = false
  | BDropped n =>
      (* the dropped-points partial write only when nothing else failed *)
      n = dropped /\ 0 < dropped /\ Forall (run_met b) run /\ closes_early close (length run) = false
  | BClosing =>
      (* closing: only when a Close happened while shards were outstanding and every value
         received before it was a success *)
      exists k, close = Some k /\ (k < length run)%nat /\ Forall succ_entry (firstn k sarr)
  end.

Lemma batch_error b run sarr close dropped e :
  valid_run b run -> Permutation sarr (results b run) ->
  batch_write close dropped sarr = Some e -> batch_err_shape b run sarr close dropped e.
Proof.
  intros V HP H. unfold batch_write in H. apply bcollect_err in H.
  pose proof (Permutation_length HP) as HL. rewrite results_length in HL.
  destruct e as [sid r|n|]; cbn [err_shape batch_err_shape] in *.
  - destruct H as (pre & post & Harr & F & Hne & Hc).
    assert (Hin : In (sid, r) (results b run)).
    { apply (Permutation_in _ HP). rewrite Harr. apply in_or_app. right. left. reflexivity. }
    unfold results in Hin. apply in_map_iff in Hin. destruct Hin as (p & Hp & Hinp).
    unfold shard_run in Hp. inversion Hp as [[Hsid Hr]]. clear Hp. subst sid r.
    exists pre, post, p.
    split; [exact Harr | split; [exact F | split; [exact Hc | split; [exact Hinp | split; [reflexivity | split; [reflexivity|]]]]]].
    split; [exact Hne|].
    destruct (level_met (shard_cfg b (fst p)) (sh_owners (fst p))) eqn:M; [|reflexivity].
    exfalso. apply Hne.
    unfold valid_run in V. rewrite Forall_forall in V. apply success_complete; [exact (V p Hinp) | exact M].
  - destruct H as (Hn & Hd & F & Hc).
    split; [exact Hn | split; [exact Hd | split]].
    + apply all_success_met; [exact V | exact (Permutation_Forall HP F)].
    + rewrite HL in Hc. exact Hc.
  - destruct H as (k & Hk & Hlt & F). exists k. rewrite HL in Hlt. auto.
Qed.

(* ---------- (d) effects: every owner of every shard, whatever the other shards do ---------- *)

Lemma effects_are_single_shard b (so : list (shard * list N)) sorder close dropped k p :
  nth_error so k = Some p ->
  forall order,
  nth_error (bo_shards (batch_model b so sorder close dropped)) k =
    Some (ob_owners (model (shard_cfg b (fst p)) (sh_owners (fst p)) order)).
Proof.
  intros H order. unfold batch_model; cbn [bo_shards].
  rewrite (map_nth_error _ _ _ H). reflexivity.
Qed.

Lemma shards_ok_model b (so : list (shard * list N)) :
  shards_ok b (map fst so) (map (fun p => shard_effects b (fst p)) so) = true.
Proof.
  induction so as [|p t IH]; [reflexivity|].
  cbn [map shards_ok]. unfold shard_effects at 1. rewrite owners_ok_model, IH. reflexivity.
Qed.

(* ---------- the harness's schedule is one of the runs / arrival orders ---------- *)

Lemma nth_error_mid' {A} (pre : list A) x t : nth_error (pre ++ x :: t) (length pre) = Some x.
Proof. induction pre as [|p pre IH]; [reflexivity | exact IH]. Qed.

Lemma pick_nseq {A} : forall (l pre : list A),
  pick (pre ++ l) (nseq (N.of_nat (length pre)) (length l)) = l.
Proof.
  unfold pick.
  induction l as [|x t IH]; intro pre; [reflexivity|].
  cbn [length nseq flat_map]. rewrite Nnat.Nat2N.id, nth_error_mid'. cbn [app]. f_equal.
  replace (pre ++ x :: t) with ((pre ++ [x]) ++ t) by (rewrite <- app_assoc; reflexivity).
  replace (N.of_nat (length pre) + 1) with (N.of_nat (length (pre ++ [x])))
    by (rewrite app_length; cbn [length]; lia).
  apply IH.
Qed.

Lemma pick_perm {A} (l : list A) idx :
  is_perm idx (nseq 0 (length l)) = true -> Permutation (pick l idx) l.
Proof.
  intro H. apply is_perm_sound in H.
  rewrite <- (pick_nseq l []) at 2. cbn [app length N.of_nat].
  unfold pick. apply Permutation_flat_map. exact H.
Qed.

Lemma filter_split_perm {A} (p q : A -> bool) (l : list A) :
  (forall x, q x = negb (p x)) -> Permutation (filter p l ++ filter q l) l.
Proof.
  intro Hq. induction l as [|x t IH]; [constructor|].
  cbn [filter]. rewrite (Hq x). destruct (p x); cbn [negb app].
  - apply perm_skip, IH.
  - apply Permutation_sym, Permutation_cons_app, Permutation_sym, IH.
Qed.

Lemma sched_perm close ordered : Permutation (sched_arr close ordered) ordered.
Proof.
  unfold sched_arr.
  set (c := match close with Some c => N.to_nat c | None => length ordered end).
  rewrite app_assoc.
  apply Permutation_trans with (firstn c ordered ++ skipn c ordered);
    [| rewrite firstn_skipn; apply Permutation_refl].
  apply Permutation_app_tail, filter_split_perm.
  intro x. unfold not_timeout. destruct (is_timeout x); reflexivity.
Qed.

Lemma filter_length_le {A} (p : A -> bool) l : (length (filter p l) <= length l)%nat.
Proof. induction l as [|x t IH]; cbn [filter length]; [lia | destruct (p x); cbn [length]; lia]. Qed.

Lemma run_of_valid b so :
  forallb (fun p => valid_order (shard_cfg b (fst p)) (sh_owners (fst p)) (snd p)) so = true ->
  valid_run b (run_of b so).
Proof.
  intro H. rewrite forallb_forall in H. unfold valid_run, run_of. rewrite Forall_forall.
  intros q Hq. apply in_map_iff in Hq. destruct Hq as (p & <- & Hp).
  unfold run_perm; cbn [fst snd]. apply valid_order_perm, H, Hp.
Qed.

Lemma run_of_met b so :
  Forall (run_met b) (run_of b so) -> forallb (shard_met b) (map fst so) = true.
Proof.
  intro F. rewrite Forall_forall in F. apply forallb_forall. intros s Hs.
  apply in_map_iff in Hs. destruct Hs as (p & <- & Hp).
  exact (F _ (in_map (fun p => (fst p, arrivals (shard_cfg b (fst p)) (sh_owners (fst p)) (snd p))) so p Hp)).
Qed.

Lemma class_eqb_refl' c : class_eqb c c = true.
Proof. destruct c; reflexivity. Qed.

(* the link: for ALL inputs the model's observation satisfies the executable batch spec *)
Lemma batch_model_spec_ok b so sorder close dropped :
  let m := batch_model b so sorder close dropped in
  batch_spec_ok b so sorder close dropped (out_of (bo_result m)) (bo_shards m) = true.
Proof.
  cbn zeta. unfold batch_spec_ok.
  destruct (valid_batch b so sorder close) eqn:V; cbn [negb orb]; [|reflexivity].
  unfold valid_batch in V. apply andb_prop in V. destruct V as [V V3]. apply andb_prop in V. destruct V as [V1 V2].
  unfold batch_model; cbn [bo_result bo_shards]. rewrite shards_ok_model, andb_true_r.
  set (run := run_of b so).
  pose proof (run_of_valid b so V2) as VR. fold run in VR.
  assert (Hlen : length run = length so) by apply map_length.
  set (ordered := pick (results b run) sorder).
  assert (HPo : Permutation ordered (results b run)).
  { apply pick_perm. rewrite results_length, Hlen. exact V1. }
  pose proof (Permutation_trans (sched_perm close ordered) HPo) as HP.
  assert (Hol : length ordered = length so) by (rewrite (Permutation_length HPo), results_length; exact Hlen).
  (* a requested Close does happen during the wait *)
  assert (Hclose : forall c, close = Some c -> closes_early (sched_close close ordered) (length run) = true).
  { intros c ->. cbn [sched_close closes_early].
    pose proof (filter_length_le not_timeout (firstn (N.to_nat c) ordered)) as L1.
    pose proof (firstn_le_length (N.to_nat c) ordered) as L2.
    assert (L3 : (length (firstn (N.to_nat c) ordered) <= N.to_nat c)%nat).
    { rewrite firstn_length. lia. }
    destruct (Nat.ltb_spec (length (filter not_timeout (firstn (N.to_nat c) ordered))) (length run)); [reflexivity|].
    lia. }
  destruct (batch_write (sched_close close ordered) dropped (sched_arr close ordered)) as [e|] eqn:R.
  - pose proof (batch_error b run _ _ _ _ VR HP R) as S.
    destruct e as [sid r|n|]; cbn [batch_err_shape] in S.
    + destruct S as (pre & post & p & _ & _ & _ & Hin & _ & Hr & Hne & Hm).
      assert (Hc : class_of r = shard_class b (fst p)).
      { rewrite Hr. unfold shard_class. apply classification. unfold valid_run in VR. rewrite Forall_forall in VR. exact (VR p Hin). }
      assert (Hex : existsb (fun s => negb (shard_met b s) && class_eqb (shard_class b s) (class_of r)) (map fst so) = true).
      { apply existsb_exists. exists (fst p). split.
        - unfold run, run_of in Hin. apply in_map_iff in Hin. destruct Hin as (q & <- & Hq).
          cbn [fst]. apply in_map, Hq.
        - unfold shard_met. rewrite Hm, Hc, class_eqb_refl'. reflexivity. }
      destruct r as [| |[e|]|]; cbn [out_of out_ok class_of] in *;
        rewrite Hex; reflexivity.
    + destruct S as (-> & Hd & F & Hc). cbn [out_of out_ok].
      rewrite (run_of_met b so F), N.eqb_refl. cbn [andb].
      destruct close as [c|]; [rewrite (Hclose c eq_refl) in Hc; discriminate Hc|].
      destruct (0 <? dropped) eqn:E; [reflexivity | lia].
    + destruct S as (k & Hk & _). cbn [out_of out_ok].
      destruct close as [c|]; [|discriminate Hk].
      cbn [class_eqb andb]. apply orb_true_r.
  - pose proof (batch_success_sound b run _ _ _ VR HP R) as (F & -> & Hc). cbn [out_of out_ok].
    rewrite (run_of_met b so F). cbn [andb N.eqb].
    destruct close as [c|]; [rewrite (Hclose c eq_refl) in Hc; discriminate Hc | reflexivity].
Qed.
